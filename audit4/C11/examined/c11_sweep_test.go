package nts

import (
	"bytes"
	"testing"

	"example.com/scion-time/net/ntske"
)

func TestC11Sweep(t *testing.T) {
	c2s := bytes.Repeat([]byte{1}, 32)
	s2c := bytes.Repeat([]byte{2}, 32)
	for clen := 1; clen <= ntske.MaxCookieLen; clen++ {
		for level := 1; level <= 8; level++ {
			var d ntske.Data
			d.C2sKey, d.S2cKey = c2s, s2c
			for i := 0; i < level; i++ {
				d.Cookie = append(d.Cookie, bytes.Repeat([]byte{byte(i + 1)}, clen))
			}
			req, id := NewRequestPacket(d)
			buf := make([]byte, 48)
			EncodePacket(&buf, &req)
			if len(buf) > MaxPacketLen {
				t.Fatalf("clen %d level %d: %d bytes", clen, level, len(buf))
			}
			var dec Packet
			if err := DecodePacket(&dec, buf); err != nil {
				t.Fatalf("clen %d level %d: %v", clen, level, err)
			}
			if err := ProcessRequest(buf, c2s, &dec); err != nil {
				t.Fatalf("clen %d level %d: %v", clen, level, err)
			}
			if len(dec.Cookies) != 1 || len(dec.CookiePlaceholders) != 8-level {
				t.Errorf("clen %d level %d: %d cookies %d placeholders", clen, level, len(dec.Cookies), len(dec.CookiePlaceholders))
			}
			if !bytes.Equal(dec.Cookies[0].Cookie[:clen], d.Cookie[0]) {
				t.Errorf("clen %d level %d: cookie differs", clen, level)
			}
			// response
			want := len(dec.Cookies) + len(dec.CookiePlaceholders)
			if c := ResponseCookieCapacity(len(dec.UniqueID.ID), clen); want > c {
				want = c
			}
			var cs [][]byte
			for i := 0; i < want; i++ {
				cs = append(cs, bytes.Repeat([]byte{byte(0x80 + i)}, clen))
			}
			resp := NewResponsePacket(cs, s2c, dec.UniqueID.ID)
			rb := make([]byte, 48, 2048)
			EncodePacket(&rb, &resp)
			if len(rb) > MaxPacketLen {
				t.Fatalf("clen %d level %d: response %d bytes", clen, level, len(rb))
			}
			var rdec Packet
			if err := DecodePacket(&rdec, rb); err != nil {
				t.Fatalf("clen %d level %d: response %v", clen, level, err)
			}
			var f ntske.Fetcher
			if err := ProcessResponse(rb, s2c, &f, &rdec, id); err != nil {
				t.Fatalf("clen %d level %d: response %v", clen, level, err)
			}
			if len(rdec.Cookies) != want || want != 9-level {
				t.Errorf("clen %d level %d: response has %d cookies, want %d", clen, level, len(rdec.Cookies), 9-level)
			}
		}
	}
}
