//go:build verif

package client

import (
	"bytes"
	"context"
	"crypto/tls"
	"fmt"
	"io"
	"log/slog"
	mrand "math/rand"
	"net"
	"os"
	"sync"
	"testing"
	"time"

	"github.com/google/gopacket"
	"github.com/scionproto/scion/pkg/addr"
	"github.com/scionproto/scion/pkg/slayers"
	"github.com/scionproto/scion/pkg/snet"
	spath "github.com/scionproto/scion/pkg/snet/path"

	"example.com/scion-time/core/server"
	"example.com/scion-time/net/nts"
	"example.com/scion-time/net/ntske"
	"example.com/scion-time/net/udp"
)

type c11SProxy struct {
	conn     *net.UDPConn
	srv      *net.UDPAddr
	provider *ntske.Provider
	mu       sync.Mutex
	next     func() c11Action
	reqs     []*c11Req
	errs     []string
	seen     map[string]int
}

func (p *c11SProxy) errorf(format string, args ...any) {
	p.errs = append(p.errs, fmt.Sprintf(format, args...))
}

// rewrite decodes a SCION/UDP packet, sets the given UDP port and returns the
// re-encoded packet and the UDP payload.
func c11Rewrite(b []byte, setDst bool, port uint16) ([]byte, []byte, error) {
	var (
		scionLayer slayers.SCION
		hbhLayer   slayers.HopByHopExtnSkipper
		e2eLayer   slayers.EndToEndExtnSkipper
		udpLayer   slayers.UDP
	)
	udpLayer.SetNetworkLayerForChecksum(&scionLayer)
	parser := gopacket.NewDecodingLayerParser(slayers.LayerTypeSCION, &scionLayer, &hbhLayer, &e2eLayer, &udpLayer)
	parser.IgnoreUnsupported = true
	decoded := make([]gopacket.LayerType, 4)
	err := parser.DecodeLayers(b, &decoded)
	if err != nil {
		return nil, nil, err
	}
	if len(decoded) != 2 || decoded[1] != slayers.LayerTypeSCIONUDP {
		return nil, nil, fmt.Errorf("unexpected layers %v", decoded)
	}
	payload := append([]byte(nil), udpLayer.Payload...)
	if setDst {
		udpLayer.DstPort = port
	} else {
		udpLayer.SrcPort = port
	}
	buffer := gopacket.NewSerializeBuffer()
	options := gopacket.SerializeOptions{ComputeChecksums: true, FixLengths: true}
	err = gopacket.SerializeLayers(buffer, options, &scionLayer, &udpLayer, gopacket.Payload(payload))
	if err != nil {
		return nil, nil, err
	}
	return append([]byte(nil), buffer.Bytes()...), payload, nil
}

func (p *c11SProxy) run() {
	proxyPort := uint16(p.conn.LocalAddr().(*net.UDPAddr).Port)
	buf := make([]byte, 16384)
	for {
		n, caddr, err := p.conn.ReadFromUDPAddrPort(buf)
		if err != nil {
			return
		}
		fwd, b, err := c11Rewrite(buf[:n], true, uint16(p.srv.Port))
		p.mu.Lock()
		if err != nil {
			p.errorf("request: %v", err)
			p.mu.Unlock()
			continue
		}
		act := p.next()
		r := &c11Req{size: len(b), respCookies: -1}
		p.reqs = append(p.reqs, r)
		var pkt nts.Packet
		err = nts.DecodePacket(&pkt, b)
		var sc ntske.ServerCookie
		if err != nil {
			p.errorf("request %d: undecodable: %v", len(p.reqs), err)
		} else {
			r.nCookies = len(pkt.Cookies)
			r.placeholders = len(pkt.CookiePlaceholders)
			if len(pkt.Cookies) >= 1 {
				r.cookie = pkt.Cookies[0].Cookie
				if k, ok := p.seen[string(r.cookie)]; ok {
					p.errorf("request %d: cookie already sent in request %d", len(p.reqs), k)
				}
				p.seen[string(r.cookie)] = len(p.reqs)
				var ec ntske.EncryptedServerCookie
				if err := ec.Decode(r.cookie); err == nil {
					if key, ok := p.provider.Get(int(ec.ID)); ok {
						sc, _ = ec.Decrypt(key.Value)
					}
				}
			}
			if len(b) > nts.MaxPacketLen {
				p.errorf("request %d: %d bytes", len(p.reqs), len(b))
			}
		}
		idx := len(p.reqs)
		p.mu.Unlock()
		if act.dropReq {
			continue
		}
		go func() {
			up, err := net.DialUDP("udp", &net.UDPAddr{IP: net.ParseIP(c11IP)}, p.srv)
			if err != nil {
				panic(err)
			}
			defer up.Close()
			_, _ = up.Write(fwd)
			_ = up.SetReadDeadline(time.Now().Add(300 * time.Millisecond))
			rbuf := make([]byte, 16384)
			m, err := up.Read(rbuf)
			if err != nil {
				return
			}
			back, rb, err := c11Rewrite(rbuf[:m], false, proxyPort)
			p.mu.Lock()
			if err != nil {
				p.errorf("response %d: %v", idx, err)
				p.mu.Unlock()
				return
			}
			r.respSize = len(rb)
			if len(rb) > nts.MaxPacketLen {
				p.errorf("response %d: %d bytes", idx, len(rb))
			}
			var rp nts.Packet
			err = nts.DecodePacket(&rp, rb)
			if err != nil {
				p.errorf("response %d: undecodable: %v", idx, err)
			} else if len(sc.S2C) != 0 {
				var dummy ntske.Fetcher
				err = nts.ProcessResponse(rb, sc.S2C, &dummy, &rp, pkt.UniqueID.ID)
				if err != nil {
					p.errorf("response %d: cannot authenticate: %v", idx, err)
				} else {
					r.respCookies = len(rp.Cookies)
					for i, c := range rp.Cookies {
						var ec ntske.EncryptedServerCookie
						if err := ec.Decode(c.Cookie); err != nil {
							p.errorf("response %d cookie %d: %v", idx, i, err)
							continue
						}
						key, ok := p.provider.Get(int(ec.ID))
						if !ok {
							p.errorf("response %d cookie %d: key %d not valid", idx, i, ec.ID)
							continue
						}
						sc2, err := ec.Decrypt(key.Value)
						if err != nil {
							p.errorf("response %d cookie %d: %v", idx, i, err)
							continue
						}
						if !bytes.Equal(sc2.C2S, sc.C2S) || !bytes.Equal(sc2.S2C, sc.S2C) {
							p.errorf("response %d cookie %d: other keys", idx, i)
						}
						if _, ok := p.seen["r"+string(c.Cookie)]; ok {
							p.errorf("response %d cookie %d: not fresh", idx, i)
						}
						p.seen["r"+string(c.Cookie)] = idx
					}
				}
			}
			p.mu.Unlock()
			if act.dropResp {
				return
			}
			if act.delay != 0 {
				time.Sleep(act.delay)
			}
			p.mu.Lock()
			r.delivered = true
			p.mu.Unlock()
			_, _ = p.conn.WriteToUDPAddrPort(back, caddr)
			if act.dupResp {
				_, _ = p.conn.WriteToUDPAddrPort(back, caddr)
			}
		}()
	}
}

var c11SOnce sync.Once
var c11SProvider *ntske.Provider
var c11SProxyConn *net.UDPConn
var c11SSrvAddr *net.UDPAddr

const c11SIP = "127.11.0.2"

func c11SSetup(t *testing.T) {
	c11Setup(t)
	c11SOnce.Do(func() {
		log := slog.New(slog.NewTextHandler(io.Discard, nil))
		if os.Getenv("C11_VERBOSE") != "" {
			log = slog.New(slog.NewTextHandler(os.Stderr, &slog.HandlerOptions{Level: slog.LevelDebug}))
		}
		ctx := context.Background()
		c11SProvider = ntske.NewProvider()
		l, err := net.ListenUDP("udp", &net.UDPAddr{IP: net.ParseIP(c11SIP)})
		if err != nil {
			t.Fatal(err)
		}
		c11SSrvAddr = l.LocalAddr().(*net.UDPAddr)
		l.Close()
		server.StartSCIONServer(ctx, log, "", c11SSrvAddr, 0, c11SProvider)
		c11SProxyConn, err = net.ListenUDP("udp", &net.UDPAddr{IP: net.ParseIP(c11SIP)})
		if err != nil {
			t.Fatal(err)
		}
		cert := c11Cert(t)
		cfg := &tls.Config{Certificates: []tls.Certificate{cert}, NextProtos: []string{"ntske/1"}, MinVersion: tls.VersionTLS13}
		ia, _ := addr.ParseIA("1-ff00:0:110")
		server.StartNTSKEServerSCION(ctx, log, udp.UDPAddr{IA: ia,
			Host: &net.UDPAddr{IP: net.ParseIP(c11SIP), Port: c11SProxyConn.LocalAddr().(*net.UDPAddr).Port}}, cfg, c11SProvider)
		time.Sleep(100 * time.Millisecond)
	})
}

func TestC11SCIONRandom(t *testing.T) {
	c11SSetup(t)
	seed := time.Now().UnixNano()
	if s := os.Getenv("C11_SEED"); s != "" {
		fmt.Sscan(s, &seed)
	}
	t.Logf("seed %d", seed)
	rng := mrand.New(mrand.NewSource(seed))
	rng2 := mrand.New(mrand.NewSource(seed + 1))
	ia, _ := addr.ParseIA("1-ff00:0:110")
	for _, interleaved := range []bool{false, true} {
		p := &c11SProxy{conn: c11SProxyConn, srv: c11SSrvAddr, provider: c11SProvider, seen: map[string]int{}}
		lossRun := 0
		p.next = func() c11Action {
			var a c11Action
			if lossRun > 0 {
				lossRun--
				if rng.Intn(2) == 0 {
					a.dropReq = true
				} else {
					a.dropResp = true
				}
				return a
			}
			switch rng.Intn(10) {
			case 0:
				lossRun = rng.Intn(12)
				a.dropResp = true
			case 1:
				a.dupResp = true
			case 2:
				a.delay = time.Duration(rng.Intn(15)) * time.Millisecond
			}
			return a
		}
		go p.run()
		log := slog.New(slog.NewTextHandler(io.Discard, nil))
		if os.Getenv("C11_VERBOSE") != "" {
			log = slog.New(slog.NewTextHandler(os.Stderr, &slog.HandlerOptions{Level: slog.LevelDebug}))
		}
		c := &SCIONClient{Log: log, InterleavedMode: interleaved}
		laddr := udp.UDPAddr{IA: ia, Host: &net.UDPAddr{IP: net.ParseIP(c11SIP)}}
		raddr := udp.UDPAddr{IA: ia, Host: &net.UDPAddr{IP: net.ParseIP(c11SIP), Port: ntske.ServerPortSCION}}
		c.Auth.NTSEnabled = true
		c.Auth.NTSKEFetcher.TLSConfig = tls.Config{InsecureSkipVerify: true, ServerName: c11SIP, MinVersion: tls.VersionTLS13}
		c.Auth.NTSKEFetcher.Port = fmt.Sprint(ntske.ServerPortSCION)
		c.Auth.NTSKEFetcher.Log = log
		c.Auth.NTSKEFetcher.QUIC.Enabled = true
		c.Auth.NTSKEFetcher.QUIC.LocalAddr = laddr
		c.Auth.NTSKEFetcher.QUIC.RemoteAddr = raddr
		model := 0
		checked := 0
		skipped := 0
		lastDelivered := false
		for round := 0; round < 150; round++ {
			if rng2.Intn(15) == 0 {
				c11SProvider.VerifAge(25 * time.Hour)
			}
			if rng2.Intn(60) == 0 {
				c11SProvider.VerifAge(73 * time.Hour)
			}
			ps := []snet.Path{spath.Path{Src: ia, Dst: ia, DataplanePath: spath.Empty{}, NextHop: raddr.Host}}
			ctx, cancel := context.WithTimeout(context.Background(), 80*time.Millisecond)
			_, _, _ = MeasureClockOffsetSCION(ctx, log, []*SCIONClient{c}, laddr, raddr, ps)
			cancel()
			time.Sleep(5 * time.Millisecond)
			p.mu.Lock()
			for ; checked < len(p.reqs); checked++ {
				r := p.reqs[checked]
				if model == 0 {
					model = 8
				}
				t.Logf("round %d req %d: placeholders=%d model=%d size=%d respSize=%d respCookies=%d delivered=%v", round, checked+1, r.placeholders, model, r.size, r.respSize, r.respCookies, r.delivered)
				if r.nCookies != 1 {
					p.errorf("request %d: %d cookie fields", checked+1, r.nCookies)
				}
				if 8-r.placeholders > model && r.placeholders == 0 && model <= 2 && !lastDelivered {
					skipped += model
				} else if 8-r.placeholders > model {
					p.errorf("request %d: %d placeholders at pool level %d", checked+1, r.placeholders, model)
				}
				if 8-r.placeholders < model {
					skipped += model - (8 - r.placeholders)
				}
				model = 8 - r.placeholders
				model--
				lastDelivered = r.delivered
				if r.respSize != 0 && r.respCookies != 1+r.placeholders {
					p.errorf("request %d: response with %d cookies for %d placeholders", checked+1, r.respCookies, r.placeholders)
				}
				if r.delivered {
					model += r.respCookies
					if model > 8 {
						model = 8
					}
				}
			}
			p.mu.Unlock()
		}
		p.mu.Lock()
		t.Logf("interleaved=%v: %d requests, %d cookies spent without a request", interleaved, len(p.reqs), skipped)
		if len(p.reqs) < 20 {
			t.Errorf("only %d requests", len(p.reqs))
		}
		for _, e := range p.errs {
			t.Error(e)
		}
		p.mu.Unlock()
		_ = c11SProxyConn.SetReadDeadline(time.Now())
		time.Sleep(20 * time.Millisecond)
		_ = c11SProxyConn.SetReadDeadline(time.Time{})
	}
}
