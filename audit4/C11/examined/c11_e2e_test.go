//go:build verif

package client

import (
	"bytes"
	"context"
	"crypto/ecdsa"
	"crypto/elliptic"
	"crypto/rand"
	"crypto/tls"
	"crypto/x509"
	"crypto/x509/pkix"
	"fmt"
	"io"
	"log/slog"
	"math/big"
	mrand "math/rand"
	"net"
	"os"
	"sync"
	"testing"
	"time"

	"example.com/scion-time/core/server"
	"example.com/scion-time/core/timebase"
	"example.com/scion-time/net/nts"
	"example.com/scion-time/net/ntske"
)

type c11Clock struct{}

func (c11Clock) Epoch() uint64                        { return 0 }
func (c11Clock) Now() time.Time                       { return time.Now() }
func (c11Clock) Drift(d time.Duration) time.Duration  { return 0 }
func (c11Clock) Step(offset time.Duration)            { panic("no") }
func (c11Clock) Adjust(o, d time.Duration, f float64) { panic("no") }
func (c11Clock) Sleep(d time.Duration)                { time.Sleep(d) }

func c11Cert(t *testing.T) tls.Certificate {
	key, err := ecdsa.GenerateKey(elliptic.P256(), rand.Reader)
	if err != nil {
		t.Fatal(err)
	}
	tmpl := x509.Certificate{
		SerialNumber: big.NewInt(1),
		Subject:      pkix.Name{CommonName: "c11"},
		NotBefore:    time.Now().Add(-time.Hour),
		NotAfter:     time.Now().Add(time.Hour),
		KeyUsage:     x509.KeyUsageDigitalSignature,
		ExtKeyUsage:  []x509.ExtKeyUsage{x509.ExtKeyUsageServerAuth},
		IPAddresses:  []net.IP{net.ParseIP(c11IP)},
	}
	der, err := x509.CreateCertificate(rand.Reader, &tmpl, &tmpl, &key.PublicKey, key)
	if err != nil {
		t.Fatal(err)
	}
	return tls.Certificate{Certificate: [][]byte{der}, PrivateKey: key}
}

var c11IP = func() string {
	if s := os.Getenv("C11_IP"); s != "" {
		return s
	}
	return "127.11.0.1"
}()

type c11Action struct {
	dropReq  bool
	dropResp bool
	dupResp  bool
	delay    time.Duration
}

type c11Req struct {
	cookie       []byte
	nCookies     int
	placeholders int
	size         int
	respCookies  int // -1 if no response seen
	respSize     int
	delivered    bool
}

type c11Proxy struct {
	t        *testing.T
	conn     *net.UDPConn
	srv      *net.UDPAddr
	provider *ntske.Provider
	mu       sync.Mutex
	next     func() c11Action
	reqs     []*c11Req
	errs     []string
	seen     map[string]int
}

func (p *c11Proxy) errorf(format string, args ...any) {
	p.errs = append(p.errs, fmt.Sprintf(format, args...))
}

func (p *c11Proxy) run() {
	buf := make([]byte, 4096)
	for {
		n, caddr, err := p.conn.ReadFromUDPAddrPort(buf)
		if err != nil {
			return
		}
		b := append([]byte(nil), buf[:n]...)
		p.mu.Lock()
		act := p.next()
		r := &c11Req{size: n, respCookies: -1}
		p.reqs = append(p.reqs, r)
		var pkt nts.Packet
		err = nts.DecodePacket(&pkt, b)
		var sc ntske.ServerCookie
		if err != nil {
			p.errorf("request %d: undecodable: %v", len(p.reqs), err)
		} else {
			r.nCookies = len(pkt.Cookies)
			r.placeholders = len(pkt.CookiePlaceholders)
			if len(pkt.Cookies) >= 1 {
				r.cookie = pkt.Cookies[0].Cookie
				if k, ok := p.seen[string(r.cookie)]; ok {
					p.errorf("request %d: cookie already sent in request %d", len(p.reqs), k)
				}
				p.seen[string(r.cookie)] = len(p.reqs)
				var ec ntske.EncryptedServerCookie
				if err := ec.Decode(r.cookie); err == nil {
					if key, ok := p.provider.Get(int(ec.ID)); ok {
						sc, _ = ec.Decrypt(key.Value)
					}
				}
			}
			if n > nts.MaxPacketLen {
				p.errorf("request %d: %d bytes", len(p.reqs), n)
			}
		}
		idx := len(p.reqs)
		p.mu.Unlock()
		if act.dropReq {
			continue
		}
		go func() {
			up, err := net.DialUDP("udp", &net.UDPAddr{IP: net.ParseIP(c11IP)}, p.srv)
			if err != nil {
				panic(err)
			}
			defer up.Close()
			_, _ = up.Write(b)
			_ = up.SetReadDeadline(time.Now().Add(300 * time.Millisecond))
			rb := make([]byte, 4096)
			m, err := up.Read(rb)
			if err != nil {
				return
			}
			rb = rb[:m]
			p.mu.Lock()
			r.respSize = m
			if m > nts.MaxPacketLen {
				p.errorf("response %d: %d bytes", idx, m)
			}
			var rp nts.Packet
			err = nts.DecodePacket(&rp, rb)
			if err != nil {
				p.errorf("response %d: undecodable: %v", idx, err)
			} else if len(sc.S2C) != 0 {
				var dummy ntske.Fetcher
				err = nts.ProcessResponse(rb, sc.S2C, &dummy, &rp, pkt.UniqueID.ID)
				if err != nil {
					p.errorf("response %d: cannot authenticate: %v", idx, err)
				} else {
					r.respCookies = len(rp.Cookies)
					for i, c := range rp.Cookies {
						var ec ntske.EncryptedServerCookie
						if err := ec.Decode(c.Cookie); err != nil {
							p.errorf("response %d cookie %d: %v", idx, i, err)
							continue
						}
						key, ok := p.provider.Get(int(ec.ID))
						if !ok {
							p.errorf("response %d cookie %d: key %d not valid", idx, i, ec.ID)
							continue
						}
						sc2, err := ec.Decrypt(key.Value)
						if err != nil {
							p.errorf("response %d cookie %d: %v", idx, i, err)
							continue
						}
						if !bytes.Equal(sc2.C2S, sc.C2S) || !bytes.Equal(sc2.S2C, sc.S2C) {
							p.errorf("response %d cookie %d: other keys", idx, i)
						}
						if _, ok := p.seen["r"+string(c.Cookie)]; ok {
							p.errorf("response %d cookie %d: not fresh", idx, i)
						}
						p.seen["r"+string(c.Cookie)] = idx
					}
				}
			}
			p.mu.Unlock()
			if act.dropResp {
				return
			}
			if act.delay != 0 {
				time.Sleep(act.delay)
			}
			p.mu.Lock()
			r.delivered = true
			p.mu.Unlock()
			_, _ = p.conn.WriteToUDPAddrPort(rb, caddr)
			if act.dupResp {
				_, _ = p.conn.WriteToUDPAddrPort(rb, caddr)
			}
		}()
	}
}

var c11Once sync.Once
var c11Provider *ntske.Provider
var c11ProxyConn *net.UDPConn
var c11SrvAddr *net.UDPAddr

func c11Setup(t *testing.T) {
	c11Once.Do(func() {
		timebase.RegisterClock(c11Clock{})
		log := slog.New(slog.NewTextHandler(io.Discard, nil))
		if os.Getenv("C11_VERBOSE") != "" {
			log = slog.New(slog.NewTextHandler(os.Stderr, &slog.HandlerOptions{Level: slog.LevelDebug}))
		}
		ctx := context.Background()
		c11Provider = ntske.NewProvider()
		// pick a free port for the NTP server
		l, err := net.ListenUDP("udp", &net.UDPAddr{IP: net.ParseIP(c11IP)})
		if err != nil {
			t.Fatal(err)
		}
		c11SrvAddr = l.LocalAddr().(*net.UDPAddr)
		l.Close()
		server.StartIPServer(ctx, log, c11SrvAddr, 0, c11Provider)
		c11ProxyConn, err = net.ListenUDP("udp", &net.UDPAddr{IP: net.ParseIP(c11IP)})
		if err != nil {
			t.Fatal(err)
		}
		cert := c11Cert(t)
		cfg := &tls.Config{Certificates: []tls.Certificate{cert}, NextProtos: []string{"ntske/1"}, MinVersion: tls.VersionTLS13}
		server.StartNTSKEServerIP(ctx, log, net.ParseIP(c11IP), c11ProxyConn.LocalAddr().(*net.UDPAddr).Port, cfg, c11Provider)
		time.Sleep(100 * time.Millisecond)
	})
}

func c11Client(interleaved bool) *IPClient {
	log := slog.New(slog.NewTextHandler(io.Discard, nil))
	if os.Getenv("C11_VERBOSE") != "" {
		log = slog.New(slog.NewTextHandler(os.Stderr, &slog.HandlerOptions{Level: slog.LevelDebug}))
	}
	c := &IPClient{Log: log, InterleavedMode: interleaved}
	c.Auth.Enabled = true
	c.Auth.NTSKEFetcher.TLSConfig = tls.Config{InsecureSkipVerify: true, ServerName: c11IP, MinVersion: tls.VersionTLS13}
	c.Auth.NTSKEFetcher.Port = "4460"
	c.Auth.NTSKEFetcher.Log = log
	return c
}

func TestC11Random(t *testing.T) {
	c11Setup(t)
	seed := time.Now().UnixNano()
	if s := os.Getenv("C11_SEED"); s != "" {
		fmt.Sscan(s, &seed)
	}
	t.Logf("seed %d", seed)
	rng := mrand.New(mrand.NewSource(seed))
	rng2 := mrand.New(mrand.NewSource(seed + 1))
	for _, interleaved := range []bool{false, true} {
		p := &c11Proxy{t: t, conn: c11ProxyConn, srv: c11SrvAddr, provider: c11Provider, seen: map[string]int{}}
		lossRun := 0
		p.next = func() c11Action {
			var a c11Action
			if lossRun > 0 {
				lossRun--
				if rng.Intn(2) == 0 {
					a.dropReq = true
				} else {
					a.dropResp = true
				}
				return a
			}
			switch rng.Intn(10) {
			case 0:
				lossRun = rng.Intn(12)
				a.dropResp = true
			case 1:
				a.dupResp = true
			case 2:
				a.delay = time.Duration(rng.Intn(15)) * time.Millisecond
			}
			return a
		}
		go p.run()
		c := c11Client(interleaved)
		laddr := &net.UDPAddr{IP: net.ParseIP(c11IP)}
		raddr := &net.UDPAddr{IP: net.ParseIP(c11IP), Port: 1}
		log := c.Log
		model := 0 // pool model
		checked := 0
		skipped := 0
		lastDelivered := false
		for round := 0; round < 150; round++ {
			if rng2.Intn(15) == 0 {
				c11Provider.VerifAge(25 * time.Hour)
			}
			if rng2.Intn(60) == 0 {
				c11Provider.VerifAge(73 * time.Hour)
			}
			ctx, cancel := context.WithTimeout(context.Background(), 80*time.Millisecond)
			_, _, _ = MeasureClockOffsetIP(ctx, log, c, laddr, raddr)
			cancel()
			time.Sleep(5 * time.Millisecond)
			// evaluate the requests of this round against the model
			p.mu.Lock()
			for ; checked < len(p.reqs); checked++ {
				r := p.reqs[checked]
				if model == 0 {
					model = 8
				}
				t.Logf("round %d req %d: placeholders=%d model=%d size=%d respSize=%d respCookies=%d delivered=%v", round, checked+1, r.placeholders, model, r.size, r.respSize, r.respCookies, r.delivered)
				if r.nCookies != 1 {
					p.errorf("request %d: %d cookie fields", checked+1, r.nCookies)
				}
				if 8-r.placeholders > model && r.placeholders == 0 && model <= 2 && !lastDelivered {
					// O34, then the pool ran empty: new key exchange
					skipped += model
				} else if 8-r.placeholders > model {
					p.errorf("request %d: %d placeholders at pool level %d", checked+1, r.placeholders, model)
				}
				if 8-r.placeholders < model {
					// O34: cookies spent on requests that were never sent
					skipped += model - (8 - r.placeholders)
				}
				model = 8 - r.placeholders
				model--
				lastDelivered = r.delivered
				if r.respSize != 0 && r.respCookies != 1+r.placeholders {
					p.errorf("request %d: response with %d cookies for %d placeholders", checked+1, r.respCookies, r.placeholders)
				}
				if r.delivered {
					model += r.respCookies
					if model > 8 {
						model = 8
					}
				}
			}
			p.mu.Unlock()
		}
		p.mu.Lock()
		t.Logf("interleaved=%v: %d requests, %d cookies spent without a request", interleaved, len(p.reqs), skipped)
		for _, e := range p.errs {
			t.Error(e)
		}
		p.mu.Unlock()
		// stop this proxy's reader by a deadline and wait a bit
		_ = c11ProxyConn.SetReadDeadline(time.Now())
		time.Sleep(20 * time.Millisecond)
		_ = c11ProxyConn.SetReadDeadline(time.Time{})
	}
}
