package ntp_test

import (
	"math/rand"
	"testing"
	"time"

	"example.com/scion-time/net/ntp"
)

func TestC04Random(t *testing.T) {
	r := rand.New(rand.NewSource(1))
	lo := time.Date(1970, 1, 1, 0, 0, 0, 0, time.UTC).Unix()
	hi := time.Date(2500, 1, 1, 0, 0, 0, 0, time.UTC).Unix()
	bad := 0
	check := func(ref, tt time.Time) {
		ts := ntp.Time64FromTime(tt)
		back := ntp.TimeFromTime64(ts, ref)
		d := tt.Sub(back)
		if d < 0 || d > 1 {
			bad++
			if bad < 20 {
				t.Errorf("ref=%v t=%v back=%v d=%v", ref, tt, back, d)
			}
		}
	}
	eras := []int64{}
	for e := int64(0); e < 5; e++ {
		eras = append(eras, -2208988800+e<<32)
	}
	for i := 0; i < 5000000; i++ {
		var refSec int64
		switch r.Intn(3) {
		case 0:
			refSec = lo + r.Int63n(hi-lo)
		case 1:
			refSec = eras[1+r.Intn(4)] + r.Int63n(7) - 3
		case 2:
			refSec = eras[1+r.Intn(4)] + 1<<31 + r.Int63n(7) - 3
		}
		var refNs int64
		switch r.Intn(3) {
		case 0:
			refNs = 0
		case 1:
			refNs = 999999999
		default:
			refNs = r.Int63n(1e9)
		}
		ref := time.Unix(refSec, refNs)
		// offset in whole seconds of window relative to whole-second reference (O16 assumption)
		var dsec int64
		switch r.Intn(4) {
		case 0:
			dsec = -1 << 31 + r.Int63n(4)
		case 1:
			dsec = 1<<31 - 1 - r.Int63n(4)
		case 2:
			dsec = r.Int63n(1<<32) - 1<<31
		case 3:
			// land near era boundary
			e := eras[r.Intn(5)]
			dsec = e - refSec + r.Int63n(5) - 2
			if dsec < -1<<31 || dsec >= 1<<31 {
				dsec = 0
			}
		}
		var ns int64
		switch r.Intn(4) {
		case 0:
			ns = 0
		case 1:
			ns = 999999999
		default:
			ns = r.Int63n(1e9)
		}
		tt := time.Unix(refSec+dsec, ns)
		check(ref, tt)
	}
}

func TestC04Order(t *testing.T) {
	r := rand.New(rand.NewSource(2))
	for i := 0; i < 2000000; i++ {
		refSec := int64(r.Int63n(17e9))
		a := time.Unix(refSec+r.Int63n(1<<32)-1<<31, r.Int63n(1e9))
		var b time.Time
		if r.Intn(2) == 0 {
			b = a.Add(time.Duration(r.Int63n(5)))
		} else {
			b = time.Unix(refSec+r.Int63n(1<<32)-1<<31, r.Int63n(1e9))
		}
		ref := time.Unix(refSec, r.Int63n(1e9))
		ra := ntp.TimeFromTime64(ntp.Time64FromTime(a), ref)
		rb := ntp.TimeFromTime64(ntp.Time64FromTime(b), ref)
		if a.Before(b) && !ra.Before(rb) || a.After(b) && !ra.After(rb) || a.Equal(b) && !ra.Equal(rb) {
			t.Fatalf("order: a=%v b=%v ra=%v rb=%v", a, b, ra, rb)
		}
	}
}

func TestC04AllNanos(t *testing.T) {
	if testing.Short() {
		t.Skip()
	}
	ref := time.Unix(2085978496, 0) // era 1 start
	prev := uint32(0)
	for ns := int64(0); ns < 1e9; ns++ {
		tt := time.Unix(2085978495, ns)
		ts := ntp.Time64FromTime(tt)
		if ns > 0 && ts.Fraction <= prev {
			t.Fatalf("fraction not increasing at %d", ns)
		}
		prev = ts.Fraction
		back := ntp.TimeFromTime64(ts, ref)
		d := tt.Sub(back)
		if d < 0 || d > 1 {
			t.Fatalf("ns=%d d=%v", ns, d)
		}
	}
}
