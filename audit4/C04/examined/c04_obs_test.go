package ntp_test

import (
	"math/rand"
	"testing"
	"time"

	"example.com/scion-time/net/ntp"
)

// Time64-level order: for a, b less than 2^31 s apart, Before/After agree with time order,
// also for times 1 ns apart and across era boundaries.
func TestC04BeforeAfterRandom(t *testing.T) {
	r := rand.New(rand.NewSource(3))
	for i := 0; i < 3000000; i++ {
		a := time.Unix(r.Int63n(17e9), r.Int63n(1e9))
		var d time.Duration
		switch r.Intn(3) {
		case 0:
			d = time.Duration(r.Int63n(7) - 3)
		case 1:
			d = time.Duration(r.Int63n(1<<31*1e9)) - 1
		default:
			d = -time.Duration(r.Int63n(1<<31*1e9)) + 1
		}
		b := a.Add(d)
		x, y := ntp.Time64FromTime(a), ntp.Time64FromTime(b)
		if a.Before(b) != x.Before(y) || a.After(b) != x.After(y) {
			t.Fatalf("a=%v b=%v d=%v x=%v y=%v", a, b, d, x, y)
		}
	}
}

// Observation only: two times inside the window of one reference but 2^31 s or more apart
// are ranked the wrong way round by Before/After (documented limit of the methods).
func TestC04ObsBeforeWideWindow(t *testing.T) {
	ref := time.Date(2040, 1, 1, 0, 0, 0, 0, time.UTC)
	a := ref.Add(-15e8 * time.Second)
	b := ref.Add(15e8 * time.Second)
	x, y := ntp.Time64FromTime(a), ntp.Time64FromTime(b)
	ra, rb := ntp.TimeFromTime64(x, ref), ntp.TimeFromTime64(y, ref)
	t.Logf("decode keeps order: %v; Before says a<b: %v", ra.Before(rb), x.Before(y))
}
