//go:build verif

package c04sim

import (
	"fmt"
	"testing"
	"time"

	"example.com/scion-time/core/server"
	"example.com/scion-time/core/timebase"
	"example.com/scion-time/net/ntp"
)

type fakeClock struct{ now time.Time }

func (c *fakeClock) Epoch() uint64                                  { return 0 }
func (c *fakeClock) Now() time.Time                                 { return c.now }
func (c *fakeClock) Drift(d time.Duration) time.Duration            { return 0 }
func (c *fakeClock) Step(o time.Duration)                           {}
func (c *fakeClock) Adjust(o, d time.Duration, f float64)           {}
func (c *fakeClock) Sleep(d time.Duration)                          {}

var clk = &fakeClock{}

func init() { timebase.RegisterClock(clk) }

type prev struct {
	ok                        bool
	cTx, cRx, sRx             ntp.Time64
}

// one exchange; server clock = true time + theta; client clock = true time.
// returns offset measured
func exchange(t *testing.T, id string, p *prev, trueNow *time.Time, theta time.Duration, interleaved bool, owd time.Duration) (time.Duration, bool) {
	cTx0 := *trueNow
	req := ntp.Packet{}
	req.SetVersion(4)
	req.SetMode(ntp.ModeClient)
	il := false
	if interleaved && p.ok && cTx0.Sub(ntp.TimeFromTime64(p.cTx, cTx0)) <= 3*time.Second {
		il = true
		req.OriginTime, req.ReceiveTime, req.TransmitTime = p.sRx, p.cRx, p.cTx
	} else {
		req.TransmitTime = ntp.Time64FromTime(cTx0)
	}
	cTx1 := cTx0.Add(1000)
	*trueNow = cTx1.Add(owd)
	rxt := trueNow.Add(theta)
	*trueNow = trueNow.Add(5000)
	clk.now = trueNow.Add(theta)
	var txt0 time.Time
	var resp ntp.Packet
	server.VerifHandleRequest(id, &req, &rxt, &txt0, &resp)
	*trueNow = trueNow.Add(2000)
	txt1 := trueNow.Add(theta)
	server.VerifUpdateTXTimestamp(id, rxt, txt0, &txt1)
	*trueNow = trueNow.Add(owd)
	cRx := *trueNow
	if _, _, err := server.VerifCheckStore(); err != nil {
		t.Fatalf("store: %v", err)
	}
	ilResp := false
	if il && resp.OriginTime == req.ReceiveTime {
		ilResp = true
	} else if resp.OriginTime != req.TransmitTime {
		t.Fatalf("unexpected origin")
	}
	sRx := ntp.TimeFromTime64(resp.ReceiveTime, cTx0)
	sTx := ntp.TimeFromTime64(resp.TransmitTime, cTx0)
	var t0, t1, t2, t3 time.Time
	if ilResp {
		t0 = ntp.TimeFromTime64(p.cTx, cTx0)
		t1 = ntp.TimeFromTime64(p.sRx, cTx0)
		t2 = sTx
		t3 = ntp.TimeFromTime64(p.cRx, cTx0)
	} else {
		t0, t1, t2, t3 = cTx1, sRx, sTx, cRx
	}
	if err := ntp.ValidateResponseTimestamps(t0, t1, t2, t3); err != nil {
		t.Fatalf("validate: %v (il=%v) t0=%v t1=%v t2=%v t3=%v", err, ilResp, t0, t1, t2, t3)
	}
	off := ntp.ClockOffset(t0, t1, t2, t3)
	p.ok = true
	p.cTx = ntp.Time64FromTime(cTx1)
	p.cRx = ntp.Time64FromTime(cRx)
	p.sRx = resp.ReceiveTime
	return off, ilResp
}

func TestEraSim(t *testing.T) {
	eraStart := time.Unix(-2208988800+1<<32, 0).UTC()
	for _, theta := range []time.Duration{0, 3 * time.Second, -3 * time.Second, 500 * time.Millisecond, 1<<31*time.Second - 10*time.Second, -(1<<31)*time.Second + 10*time.Second} {
		for _, mode := range []bool{false, true} {
			server.VerifReset()
			p := &prev{}
			now := eraStart.Add(-6 * time.Second)
			nIl := 0
			for i := 0; i < 60; i++ {
				off, il := exchange(t, fmt.Sprintf("c-%v-%v", theta, mode), p, &now, theta, mode, 100*time.Microsecond)
				if il {
					nIl++
				}
				d := off - theta
				// basic mode: software tx time is 2000ns early (asymmetry 1000ns); interleaved exact
				if d < -1100 || d > 1100 {
					t.Errorf("theta=%v il=%v i=%d now=%v off=%v d=%v", theta, il, i, now, off, d)
				}
				now = now.Add(200 * time.Millisecond)
			}
			if mode && nIl < 55 {
				t.Errorf("theta=%v interleaved only %d times", theta, nIl)
			}
		}
	}
}
