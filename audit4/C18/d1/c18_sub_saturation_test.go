package csptp_test

// C18 audit round 4, finding d1.
//
// csptp.ClockOffset and csptp.MeanPathDelay form the raw differences t1-t0 and
// t3-t2 with time.Time.Sub, which saturates at +-(2^63-1) ns, and subtract the
// correction only afterwards. The raw difference is "one-way term +
// correction": it can leave the int64 range although the offset, the delay,
// both one-way terms (offset+delay, delay-offset) and the corrections all fit
// into int64 nanoseconds. The saturated value is then taken at face value.

import (
	"math"
	"math/big"
	"testing"
	"time"

	"example.com/scion-time/net/csptp"
)

func addNs(t time.Time, ns *big.Int) time.Time {
	q, r := new(big.Int).QuoRem(ns, big.NewInt(1e9), new(big.Int))
	return time.Unix(t.Unix()+q.Int64(), int64(t.Nanosecond())+r.Int64()).UTC()
}

func TestC18ClockOffsetRawDifferenceSaturates(t *testing.T) {
	// 2^46 s after 1970: leaves room for +-292 years inside the 48-bit range.
	base := time.Unix(1<<46, 0).UTC()
	cases := []struct {
		name         string
		o, d, c1, c3 int64 // true offset, symmetric delay, corrections [ns]
	}{
		{"delay 2^63-1001 ns, offset 0, request correction 2^20 ns (1 ms)",
			0, math.MaxInt64 - 1000, 1 << 20, 0},
		{"offset 2^62, delay 2^62-1, request correction 2^40 ns",
			1 << 62, 1<<62 - 1, 1 << 40, 0},
		{"offset -2^62, delay 2^62-1, response correction 2^40 ns",
			-(1 << 62), 1<<62 - 1, 0, 1 << 40},
		{"offset -(2^63-1000), delay 1, response correction 2^47-1 ns (largest field)",
			-(math.MaxInt64 - 999), 1, 0, 1<<47 - 1},
		{"delay 2^63-1, offset 0, request correction 2 ns",
			0, math.MaxInt64, 2, 0},
		{"offset -(2^63-5), delay 0, request correction -100 ns (negative field)",
			math.MinInt64 + 5, 0, -100, 0},
	}
	for _, c := range cases {
		x := new(big.Int).Add(big.NewInt(c.o), big.NewInt(c.d)) // c2s term
		y := new(big.Int).Sub(big.NewInt(c.d), big.NewInt(c.o)) // s2c term
		if !x.IsInt64() || !y.IsInt64() || c.d < 0 {
			t.Fatalf("%s: test is wrong, a term does not fit int64", c.name)
		}
		// correction fields as on the wire: nanoseconds << 16
		f1, f3 := c.c1<<16, c.c3<<16
		if f1>>16 != c.c1 || f3>>16 != c.c3 {
			t.Fatalf("%s: test is wrong, correction is no 64-bit field", c.name)
		}
		t1Corr := csptp.DurationFromTimeInterval(f1)
		t3Corr := csptp.DurationFromTimeInterval(f3)

		t0 := base
		t1 := addNs(t0, new(big.Int).Add(x, big.NewInt(c.c1)))
		t2 := addNs(t1, big.NewInt(1000))
		t3 := addNs(t2, new(big.Int).Add(y, big.NewInt(c.c3)))
		// all four are valid CSPTP timestamps
		for _, tt := range []time.Time{t0, t1, t2, t3} {
			if csptp.TimeFromTimestamp(csptp.TimestampFromTime(tt)) != tt {
				t.Fatalf("%s: test is wrong, %v is no CSPTP timestamp", c.name, tt)
			}
		}

		off := csptp.ClockOffset(t0, t1, t2, t3, t1Corr, t3Corr)
		del := csptp.MeanPathDelay(t0, t1, t2, t3, t1Corr, t3Corr)
		if int64(off) != c.o {
			t.Errorf("%s:\n  ClockOffset   = %d, want %d (error %v ns)", c.name, int64(off), c.o,
				new(big.Int).Sub(big.NewInt(int64(off)), big.NewInt(c.o)))
		}
		if int64(del) != c.d {
			t.Errorf("%s:\n  MeanPathDelay = %d, want %d (error %v ns)", c.name, int64(del), c.d,
				new(big.Int).Sub(big.NewInt(int64(del)), big.NewInt(c.d)))
		}
	}
}
