package csptp_test

// C18 audit round 4, finding d2.
//
// The true offset and the true symmetric delay both fit into int64
// nanoseconds, but a one-way term (offset+delay or delay-offset) does not.
// csptp.ClockOffset/MeanPathDelay hold the one-way terms in a time.Duration:
// either time.Time.Sub saturates, or "t1.Sub(t0) - t1Corr" wraps around
// silently (raw difference fits, raw difference minus a negative correction
// does not). The functions return values that are off by up to 2^62 ns, with
// the wrong sign in the wrap-around case, instead of the offset and delay that
// the four timestamps determine exactly.

import (
	"math/big"
	"testing"
	"time"

	"example.com/scion-time/net/csptp"
)

func addNs2(t time.Time, ns *big.Int) time.Time {
	q, r := new(big.Int).QuoRem(ns, big.NewInt(1e9), new(big.Int))
	return time.Unix(t.Unix()+q.Int64(), int64(t.Nanosecond())+r.Int64()).UTC()
}

func TestC18OneWayTermDoesNotFit(t *testing.T) {
	base := time.Unix(1<<46, 0).UTC()
	cases := []struct {
		name         string
		o, d, c1, c3 int64 // true offset, symmetric delay, corrections [ns]
	}{
		{"offset 2^62, delay 2^62, no corrections (Sub saturates by 1 ns)",
			1 << 62, 1 << 62, 0, 0},
		{"offset 2^62+2^61, delay 2^62, no corrections (Sub saturates)",
			1<<62 + 1<<61, 1 << 62, 0, 0},
		{"offset -(2^62+2^61), delay 2^62, no corrections (Sub saturates)",
			-(1<<62 + 1<<61), 1 << 62, 0, 0},
		{"offset 2^62, delay 2^62+50, request correction -100 ns (raw difference fits, minus correction wraps)",
			1 << 62, 1<<62 + 50, -100, 0},
		{"offset -2^62, delay 2^62+50, response correction -100 ns (raw difference fits, minus correction wraps)",
			-(1 << 62), 1<<62 + 50, 0, -100},
	}
	for _, c := range cases {
		x := new(big.Int).Add(big.NewInt(c.o), big.NewInt(c.d)) // c2s term
		y := new(big.Int).Sub(big.NewInt(c.d), big.NewInt(c.o)) // s2c term
		f1, f3 := c.c1<<16, c.c3<<16
		if f1>>16 != c.c1 || f3>>16 != c.c3 || c.d < 0 {
			t.Fatalf("%s: test is wrong", c.name)
		}
		t1Corr := csptp.DurationFromTimeInterval(f1)
		t3Corr := csptp.DurationFromTimeInterval(f3)

		t0 := base
		t1 := addNs2(t0, new(big.Int).Add(x, big.NewInt(c.c1)))
		t2 := addNs2(t1, big.NewInt(1000))
		t3 := addNs2(t2, new(big.Int).Add(y, big.NewInt(c.c3)))
		for _, tt := range []time.Time{t0, t1, t2, t3} {
			if csptp.TimeFromTimestamp(csptp.TimestampFromTime(tt)) != tt {
				t.Fatalf("%s: test is wrong, %v is no CSPTP timestamp", c.name, tt)
			}
		}

		off := csptp.ClockOffset(t0, t1, t2, t3, t1Corr, t3Corr)
		del := csptp.MeanPathDelay(t0, t1, t2, t3, t1Corr, t3Corr)
		if int64(off) != c.o {
			t.Errorf("%s:\n  ClockOffset   = %d, want %d (error %v ns)", c.name, int64(off), c.o,
				new(big.Int).Sub(big.NewInt(int64(off)), big.NewInt(c.o)))
		}
		if int64(del) != c.d {
			t.Errorf("%s:\n  MeanPathDelay = %d, want %d (error %v ns)", c.name, int64(del), c.d,
				new(big.Int).Sub(big.NewInt(int64(del)), big.NewInt(c.d)))
		}
	}
}
