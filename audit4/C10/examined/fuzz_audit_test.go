package nts

import (
	"crypto/rand"
	"testing"

	"example.com/scion-time/net/ntske"
)

func FuzzAuditServer(f *testing.F) {
	srvKey := make([]byte, 32)
	keys := map[int][]byte{1: srvKey}
	c2s, s2c := make([]byte, 32), make([]byte, 32)
	c2s[0], s2c[0] = 1, 2
	sc := ntske.ServerCookie{Algo: ntske.AES_SIV_CMAC_256, C2S: c2s, S2C: s2c}
	ec, _ := sc.EncryptWithNonce(srvKey, 1)
	var data ntske.Data
	data.C2sKey, data.S2cKey = c2s, s2c
	data.Cookie = [][]byte{ec.Encode()}
	for i := 0; i < 4; i++ {
		buf := make([]byte, 48)
		rand.Read(buf)
		pkt, uid := NewRequestPacket(data)
		EncodePacket(&buf, &pkt)
		f.Add(buf)
		rbuf := make([]byte, 48)
		rpkt := NewResponsePacket(data.Cookie, s2c, uid)
		EncodePacket(&rbuf, &rpkt)
		f.Add(rbuf)
		data.Cookie = append(data.Cookie, ec.Encode())
	}
	var fe ntske.Fetcher
	f.Fuzz(func(t *testing.T, b []byte) {
		serverAccept(b, keys)
		clientAccept(b, s2c, make([]byte, 32), &fe)
		var p Packet
		if len(b) >= 48 && DecodePacket(&p, b) == nil {
			// also force authenticate path with the key regardless of cookie
			ProcessRequest(b, c2s, &p)
		}
		var e ntske.EncryptedServerCookie
		if e.Decode(b) == nil {
			e.Decrypt(srvKey)
		}
		var s ntske.ServerCookie
		s.Decode(b)
	})
}
