package nts

import (
	"bytes"
	"crypto/rand"
	"encoding/binary"
	"fmt"
	"testing"

	"example.com/scion-time/net/ntske"
)

type srvResult struct {
	ok     bool
	c2s    []byte
	s2c    []byte
	uid    []byte
	ncook  int
	nplace int
}

func serverAccept(b []byte, keys map[int][]byte) (res srvResult) {
	var req Packet
	if len(b) < 48 {
		return
	}
	if err := DecodePacket(&req, b); err != nil {
		return
	}
	cookie, err := req.FirstCookie()
	if err != nil {
		return
	}
	var ec ntske.EncryptedServerCookie
	if err := ec.Decode(cookie); err != nil {
		return
	}
	k, ok := keys[int(ec.ID)]
	if !ok {
		return
	}
	sc, err := ec.Decrypt(k)
	if err != nil {
		return
	}
	if err := ProcessRequest(b, sc.C2S, &req); err != nil {
		return
	}
	return srvResult{true, sc.C2S, sc.S2C, req.UniqueID.ID, len(req.Cookies), len(req.CookiePlaceholders)}
}

func mkKey() []byte {
	k := make([]byte, 32)
	rand.Read(k)
	return k
}

func mkCookie(t *testing.T, srvKey []byte, id int, c2s, s2c []byte) []byte {
	sc := ntske.ServerCookie{Algo: ntske.AES_SIV_CMAC_256, C2S: c2s, S2C: s2c}
	ec, err := sc.EncryptWithNonce(srvKey, id)
	if err != nil {
		t.Fatal(err)
	}
	return ec.Encode()
}

func TestAuditMutRequest(t *testing.T) {
	srvKey := mkKey()
	keys := map[int][]byte{1: srvKey, 2: mkKey()}
	c2s, s2c := mkKey(), mkKey()
	for ncookies := 1; ncookies <= 8; ncookies += 7 {
		var data ntske.Data
		data.C2sKey, data.S2cKey = c2s, s2c
		for i := 0; i < ncookies; i++ {
			data.Cookie = append(data.Cookie, mkCookie(t, srvKey, 1, c2s, s2c))
		}
		buf := make([]byte, 48)
		rand.Read(buf)
		pkt, _ := NewRequestPacket(data)
		EncodePacket(&buf, &pkt)
		base := serverAccept(buf, keys)
		if !base.ok {
			t.Fatal("own request rejected")
		}
		var dec Packet
		DecodePacket(&dec, buf)
		authPos := dec.Auth.pos
		authEnd := authPos + 4 + 4 + 16 + 16
		if authEnd != len(buf) {
			t.Fatalf("authEnd %d len %d", authEnd, len(buf))
		}
		n := 0
		check := func(m []byte, what string) {
			n++
			func() {
				defer func() {
					if r := recover(); r != nil {
						t.Errorf("PANIC %s: %v", what, r)
					}
				}()
				r := serverAccept(m, keys)
				if r.ok {
					t.Errorf("ACCEPTED %s (uid equal %v)", what, bytes.Equal(r.uid, base.uid))
				}
			}()
		}
		// bit flips
		for i := 0; i < len(buf)*8; i++ {
			if i/8 == authPos+2 || i/8 == authPos+3 {
				continue // O6
			}
			m := bytes.Clone(buf)
			m[i/8] ^= 1 << (i % 8)
			check(m, fmt.Sprintf("bitflip byte %d bit %d", i/8, i%8))
		}
		// word sets
		vals := []uint16{0, 1, 2, 3, 4, 5, 8, 12, 15, 16, 17, 20, 24, 27, 28, 29, 32, 36, 40, 44, 124, 128, 132, 0x104, 0x204, 0x304, 0x404, 0x7fff, 0x8000, 0xfffc, 0xfffe, 0xffff}
		for off := 48; off+2 <= len(buf); off += 2 {
			if off == authPos+2 {
				continue
			}
			orig := binary.BigEndian.Uint16(buf[off:])
			vs := append([]uint16{orig + 1, orig - 1, orig + 4, orig - 4, orig + 16, orig - 16}, vals...)
			for _, v := range vs {
				if v == orig {
					continue
				}
				m := bytes.Clone(buf)
				binary.BigEndian.PutUint16(m[off:], v)
				check(m, fmt.Sprintf("word at %d := %d", off, v))
				// with trailing bytes
				m2 := append(bytes.Clone(m), make([]byte, 64)...)
				check(m2, fmt.Sprintf("word at %d := %d + trailing zeros", off, v))
			}
		}
		// truncations
		for l := 0; l < len(buf); l++ {
			check(bytes.Clone(buf[:l]), fmt.Sprintf("truncate %d", l))
		}
		t.Logf("ncookies=%d: %d mutations, len %d", ncookies, n, len(buf))
	}
}

type nullStore struct{}

func clientAccept(b []byte, s2c []byte, reqID []byte, f *ntske.Fetcher) bool {
	var resp Packet
	if len(b) < 48 {
		return false
	}
	if err := DecodePacket(&resp, b); err != nil {
		return false
	}
	if err := ProcessResponse(b, s2c, f, &resp, reqID); err != nil {
		return false
	}
	return true
}

func TestAuditMutResponse(t *testing.T) {
	srvKey := mkKey()
	c2s, s2c := mkKey(), mkKey()
	uid := make([]byte, 32)
	rand.Read(uid)
	for ncookies := 1; ncookies <= 8; ncookies += 7 {
		var cookies [][]byte
		for i := 0; i < ncookies; i++ {
			cookies = append(cookies, mkCookie(t, srvKey, 1, c2s, s2c))
		}
		buf := make([]byte, 48)
		rand.Read(buf)
		pkt := NewResponsePacket(cookies, s2c, uid)
		EncodePacket(&buf, &pkt)
		var f ntske.Fetcher
		if !clientAccept(buf, s2c, uid, &f) {
			t.Fatal("own response rejected")
		}
		if clientAccept(buf, c2s, uid, &f) {
			t.Fatal("accepted under c2s")
		}
		var dec Packet
		DecodePacket(&dec, buf)
		authPos := dec.Auth.pos
		n := 0
		check := func(m []byte, what string) {
			n++
			func() {
				defer func() {
					if r := recover(); r != nil {
						t.Errorf("PANIC %s: %v", what, r)
					}
				}()
				if clientAccept(m, s2c, uid, &f) {
					t.Errorf("ACCEPTED %s", what)
				}
			}()
		}
		for i := 0; i < len(buf)*8; i++ {
			if i/8 == authPos+2 || i/8 == authPos+3 {
				continue // O6
			}
			m := bytes.Clone(buf)
			m[i/8] ^= 1 << (i % 8)
			check(m, fmt.Sprintf("bitflip byte %d bit %d", i/8, i%8))
		}
		vals := []uint16{0, 1, 2, 3, 4, 5, 8, 12, 15, 16, 17, 20, 24, 27, 28, 29, 32, 36, 40, 44, 124, 128, 132, 0x104, 0x204, 0x304, 0x404, 0x7fff, 0x8000, 0xfffc, 0xfffe, 0xffff}
		for off := 48; off+2 <= authPos+8; off += 2 {
			if off == authPos+2 {
				continue
			}
			orig := binary.BigEndian.Uint16(buf[off:])
			vs := append([]uint16{orig + 1, orig - 1, orig + 4, orig - 4, orig + 16, orig - 16}, vals...)
			for _, v := range vs {
				if v == orig {
					continue
				}
				m := bytes.Clone(buf)
				binary.BigEndian.PutUint16(m[off:], v)
				check(m, fmt.Sprintf("word at %d := %d", off, v))
				m2 := append(bytes.Clone(m), make([]byte, 64)...)
				check(m2, fmt.Sprintf("word at %d := %d + trailing zeros", off, v))
			}
		}
		for l := 0; l < len(buf); l++ {
			check(bytes.Clone(buf[:l]), fmt.Sprintf("truncate %d", l))
		}
		t.Logf("ncookies=%d: %d mutations, len %d", ncookies, n, len(buf))
	}
}

func TestAuditAllWordValues(t *testing.T) {
	srvKey := mkKey()
	keys := map[int][]byte{1: srvKey}
	c2s, s2c := mkKey(), mkKey()
	var data ntske.Data
	data.C2sKey, data.S2cKey = c2s, s2c
	data.Cookie = append(data.Cookie, mkCookie(t, srvKey, 1, c2s, s2c))
	buf := make([]byte, 48)
	rand.Read(buf)
	pkt, uid := NewRequestPacket(data)
	EncodePacket(&buf, &pkt)
	var dec Packet
	DecodePacket(&dec, buf)
	authPos := dec.Auth.pos
	// header word offsets
	var offs []int
	pos := 48
	for pos < len(buf) {
		offs = append(offs, pos, pos+2)
		l := int(binary.BigEndian.Uint16(buf[pos+2:]))
		if pos == authPos {
			offs = append(offs, pos+4, pos+6)
		}
		// cookie TLV words
		if binary.BigEndian.Uint16(buf[pos:]) == extCookie {
			offs = append(offs, pos+4, pos+6, pos+8, pos+10, pos+12, pos+14+16, pos+14+16+2)
		}
		pos += l
	}
	n := 0
	for _, off := range offs {
		if off == authPos+2 {
			continue
		}
		orig := binary.BigEndian.Uint16(buf[off:])
		for v := 0; v < 65536; v++ {
			if uint16(v) == orig {
				continue
			}
			for _, extra := range []int{0, 40} {
				m := append(bytes.Clone(buf), make([]byte, extra)...)
				binary.BigEndian.PutUint16(m[off:], uint16(v))
				n++
				func() {
					defer func() {
						if r := recover(); r != nil {
							t.Errorf("PANIC off %d v %d: %v", off, v, r)
						}
					}()
					if serverAccept(m, keys).ok {
						t.Errorf("ACCEPTED off %d v %d extra %d", off, v, extra)
					}
				}()
			}
		}
	}
	t.Logf("request: %d mutations at %v", n, offs)

	// response
	var cookies [][]byte
	for i := 0; i < 8; i++ {
		cookies = append(cookies, mkCookie(t, srvKey, 1, c2s, s2c))
	}
	rbuf := make([]byte, 48)
	rand.Read(rbuf)
	rpkt := NewResponsePacket(cookies, s2c, uid)
	EncodePacket(&rbuf, &rpkt)
	var f ntske.Fetcher
	if !clientAccept(rbuf, s2c, uid, &f) {
		t.Fatal("own response rejected")
	}
	roffs := []int{48, 50, 48 + 36, 48 + 36 + 4, 48 + 36 + 6}
	n = 0
	for _, off := range roffs {
		orig := binary.BigEndian.Uint16(rbuf[off:])
		for v := 0; v < 65536; v++ {
			if uint16(v) == orig {
				continue
			}
			for _, extra := range []int{0, 40} {
				m := append(bytes.Clone(rbuf), make([]byte, extra)...)
				binary.BigEndian.PutUint16(m[off:], uint16(v))
				n++
				func() {
					defer func() {
						if r := recover(); r != nil {
							t.Errorf("PANIC resp off %d v %d: %v", off, v, r)
						}
					}()
					if clientAccept(m, s2c, uid, &f) {
						t.Errorf("ACCEPTED resp off %d v %d extra %d", off, v, extra)
					}
				}()
			}
		}
	}
	t.Logf("response: %d mutations", n)
}
