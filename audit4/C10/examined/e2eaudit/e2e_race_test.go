package e2eaudit

import (
	"context"
	"crypto/tls"
	"log/slog"
	"net"
	"os"
	"sync"
	"testing"
	"time"

	"example.com/scion-time/core/client"
	"example.com/scion-time/core/server"
	"example.com/scion-time/core/timebase"
	"example.com/scion-time/net/ntske"
)

func TestE2ERace(t *testing.T) {
	timebase.RegisterClock(fakeClock{})
	log := slog.New(slog.NewTextHandler(os.Stderr, &slog.HandlerOptions{Level: slog.LevelWarn}))
	ctx := context.Background()
	cert := selfSigned(t)
	tlsCfg := &tls.Config{
		Certificates: []tls.Certificate{cert},
		NextProtos:   []string{"ntske/1"},
		MinVersion:   tls.VersionTLS13,
	}
	provider := ntske.NewProvider()
	const ntpPort = 10125
	server.StartNTSKEServerIP(ctx, log, net.ParseIP("127.0.0.1"), ntpPort, tlsCfg, provider)
	server.StartIPServer(ctx, log, &net.UDPAddr{IP: net.ParseIP("127.0.0.1"), Port: ntpPort}, 0, provider)
	time.Sleep(200 * time.Millisecond)

	var wg sync.WaitGroup
	var mu sync.Mutex
	fails := 0
	for k := 0; k < 8; k++ {
		wg.Add(1)
		go func(k int) {
			defer wg.Done()
			c := &client.IPClient{Log: log, InterleavedMode: k%2 == 0}
			c.Auth.Enabled = true
			c.Auth.NTSKEFetcher.TLSConfig = tls.Config{
				NextProtos:         []string{"ntske/1"},
				InsecureSkipVerify: true,
				ServerName:         "127.0.0.1",
				MinVersion:         tls.VersionTLS13,
			}
			c.Auth.NTSKEFetcher.Port = "4460"
			c.Auth.NTSKEFetcher.Log = log
			laddr := &net.UDPAddr{IP: net.ParseIP("127.0.0.1")}
			raddr := &net.UDPAddr{IP: net.ParseIP("127.0.0.1"), Port: ntpPort}
			for i := 0; i < 50; i++ {
				cctx, cancel := context.WithTimeout(ctx, 1000*time.Millisecond)
				_, _, err := client.MeasureClockOffsetIP(cctx, log, c, laddr, raddr)
				cancel()
				if err != nil {
					mu.Lock()
					fails++
					mu.Unlock()
					t.Logf("client %d round %d: error %v", k, i, err)
				}
				if k == 0 && i%10 == 5 {
					ageProvider(provider, 25*time.Hour)
				}
			}
		}(k)
	}
	wg.Wait()
	if fails != 0 {
		t.Errorf("%d failed rounds", fails)
	}
}
