package e2eaudit

import (
	"context"
	"crypto/ecdsa"
	"crypto/elliptic"
	"crypto/rand"
	"crypto/tls"
	"crypto/x509"
	"crypto/x509/pkix"
	"log/slog"
	"math/big"
	"net"
	"os"
	"testing"
	"time"

	"example.com/scion-time/core/client"
	"example.com/scion-time/core/server"
	"example.com/scion-time/core/timebase"
	"example.com/scion-time/net/ntske"
)

type fakeClock struct{}

func (fakeClock) Epoch() uint64                                  { return 0 }
func (fakeClock) Now() time.Time                                 { return time.Now() }
func (fakeClock) Drift(d time.Duration) time.Duration            { return 0 }
func (fakeClock) Step(offset time.Duration)                      {}
func (fakeClock) Adjust(offset, d time.Duration, f float64)      {}
func (fakeClock) Sleep(d time.Duration)                          { time.Sleep(d) }

func selfSigned(t *testing.T) tls.Certificate {
	priv, err := ecdsa.GenerateKey(elliptic.P256(), rand.Reader)
	if err != nil {
		t.Fatal(err)
	}
	tmpl := x509.Certificate{
		SerialNumber: big.NewInt(1),
		Subject:      pkix.Name{CommonName: "127.0.0.1"},
		NotBefore:    time.Now().Add(-time.Hour),
		NotAfter:     time.Now().Add(time.Hour),
		KeyUsage:     x509.KeyUsageDigitalSignature,
		ExtKeyUsage:  []x509.ExtKeyUsage{x509.ExtKeyUsageServerAuth},
		IPAddresses:  []net.IP{net.ParseIP("127.0.0.1")},
	}
	der, err := x509.CreateCertificate(rand.Reader, &tmpl, &tmpl, &priv.PublicKey, priv)
	if err != nil {
		t.Fatal(err)
	}
	return tls.Certificate{Certificate: [][]byte{der}, PrivateKey: priv}
}

func TestE2E(t *testing.T) {
	timebase.RegisterClock(fakeClock{})
	log := slog.New(slog.NewTextHandler(os.Stderr, &slog.HandlerOptions{Level: slog.LevelInfo}))
	ctx := context.Background()
	cert := selfSigned(t)
	tlsCfg := &tls.Config{
		Certificates: []tls.Certificate{cert},
		NextProtos:   []string{"ntske/1"},
		MinVersion:   tls.VersionTLS13,
	}
	provider := ntske.NewProvider()
	const ntpPort = 10123
	server.StartNTSKEServerIP(ctx, log, net.ParseIP("127.0.0.1"), ntpPort, tlsCfg, provider)
	server.StartIPServer(ctx, log, &net.UDPAddr{IP: net.ParseIP("127.0.0.1"), Port: ntpPort}, 0, provider)
	time.Sleep(200 * time.Millisecond)

	c := &client.IPClient{Log: log, InterleavedMode: true}
	c.Auth.Enabled = true
	c.Auth.NTSKEFetcher.TLSConfig = tls.Config{
		NextProtos:         []string{"ntske/1"},
		InsecureSkipVerify: true,
		ServerName:         "127.0.0.1",
		MinVersion:         tls.VersionTLS13,
	}
	c.Auth.NTSKEFetcher.Port = "4460"
	c.Auth.NTSKEFetcher.Log = log

	laddr := &net.UDPAddr{IP: net.ParseIP("127.0.0.1")}
	raddr := &net.UDPAddr{IP: net.ParseIP("127.0.0.1"), Port: ntpPort}
	fails := 0
	for i := 0; i < 40; i++ {
		cctx, cancel := context.WithTimeout(ctx, 500*time.Millisecond)
		_, off, err := client.MeasureClockOffsetIP(cctx, log, c, laddr, raddr)
		cancel()
		if err != nil {
			fails++
			t.Logf("round %d: error %v", i, err)
		} else if i%10 == 0 {
			t.Logf("round %d: off %v interleaved %v", i, off, c.InInterleavedMode())
		}
		if i == 10 || i == 20 || i == 30 {
			ageProvider(provider, 25*time.Hour)
			t.Logf("aged provider by 25h")
		}
	}
	if fails != 0 {
		t.Errorf("%d failed rounds", fails)
	}
}
