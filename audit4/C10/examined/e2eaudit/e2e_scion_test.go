package e2eaudit

import (
	"context"
	"crypto/tls"
	"log/slog"
	"net"
	"os"
	"testing"
	"time"

	"github.com/scionproto/scion/pkg/addr"
	"github.com/scionproto/scion/pkg/snet"
	"github.com/scionproto/scion/pkg/snet/path"

	"example.com/scion-time/core/client"
	"example.com/scion-time/core/server"
	"example.com/scion-time/core/timebase"
	"example.com/scion-time/net/ntske"
	"example.com/scion-time/net/udp"
)

func TestE2ESCION(t *testing.T) {
	timebase.RegisterClock(fakeClock{})
	log := slog.New(slog.NewTextHandler(os.Stderr, &slog.HandlerOptions{Level: slog.LevelInfo}))
	ctx := context.Background()
	cert := selfSigned(t)
	tlsCfg := &tls.Config{
		Certificates: []tls.Certificate{cert},
		NextProtos:   []string{"ntske/1"},
		MinVersion:   tls.VersionTLS13,
	}
	provider := ntske.NewProvider()
	ia, _ := addr.ParseIA("1-ff00:0:110")
	const ntpPort = 10124
	srvAddr := udp.UDPAddr{IA: ia, Host: &net.UDPAddr{IP: net.ParseIP("127.0.0.1").To4(), Port: ntpPort}}
	server.StartNTSKEServerSCION(ctx, log, udp.UDPAddr{IA: ia, Host: &net.UDPAddr{IP: net.ParseIP("127.0.0.1").To4(), Port: ntpPort}}, tlsCfg, provider)
	server.StartSCIONServer(ctx, log, "", &net.UDPAddr{IP: net.ParseIP("127.0.0.1").To4(), Port: ntpPort}, 0, provider)
	time.Sleep(200 * time.Millisecond)

	laddr := udp.UDPAddr{IA: ia, Host: &net.UDPAddr{IP: net.ParseIP("127.0.0.2").To4()}}
	c := &client.SCIONClient{Log: log, InterleavedMode: true}
	c.Auth.NTSEnabled = true
	c.Auth.NTSKEFetcher.TLSConfig = tls.Config{
		NextProtos:         []string{"ntske/1"},
		InsecureSkipVerify: true,
		ServerName:         "127.0.0.1",
		MinVersion:         tls.VersionTLS13,
	}
	c.Auth.NTSKEFetcher.Port = "14460"
	c.Auth.NTSKEFetcher.Log = log
	c.Auth.NTSKEFetcher.QUIC.Enabled = true
	c.Auth.NTSKEFetcher.QUIC.LocalAddr = udp.UDPAddr{IA: ia, Host: &net.UDPAddr{IP: net.ParseIP("127.0.0.2").To4()}}
	c.Auth.NTSKEFetcher.QUIC.RemoteAddr = udp.UDPAddr{IA: ia, Host: &net.UDPAddr{IP: net.ParseIP("127.0.0.1").To4(), Port: 14460}}

	fails := 0
	for i := 0; i < 30; i++ {
		ps := []snet.Path{path.Path{Src: ia, Dst: ia, DataplanePath: path.Empty{}, NextHop: srvAddr.Host}}
		cctx, cancel := context.WithTimeout(ctx, 1000*time.Millisecond)
		_, off, err := client.MeasureClockOffsetSCION(cctx, log, []*client.SCIONClient{c}, laddr, srvAddr, ps)
		cancel()
		if err != nil {
			fails++
			t.Logf("round %d: error %v", i, err)
		} else if i%10 == 0 {
			t.Logf("round %d: off %v interleaved %v", i, off, c.InInterleavedMode())
		}
		if i == 10 || i == 20 {
			ageProvider(provider, 25*time.Hour)
		}
	}
	if fails != 0 {
		t.Errorf("%d failed rounds", fails)
	}
}
