//go:build verif

package e2eaudit

import (
	"time"

	"example.com/scion-time/net/ntske"
)

func ageProvider(p *ntske.Provider, d time.Duration) { p.VerifAge(d) }
