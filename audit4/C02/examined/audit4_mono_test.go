package measurements_test

import (
	"math/rand"
	"slices"
	"testing"
	"time"

	"example.com/scion-time/core/measurements"
)

// timestamps with and without monotonic readings, mixed (wall and monotonic
// clocks agree: the machine's clock is not stepped during the test)
func TestAudit4Mono(t *testing.T) {
	r := rand.New(rand.NewSource(3))
	base := time.Now()
	for iter := 0; iter < 100000; iter++ {
		n := 1 + r.Intn(7)
		ms := make([]measurements.Measurement, n)
		for i := range ms {
			ts := base.Add(time.Duration(r.Intn(5)) * time.Second)
			if r.Intn(2) == 0 {
				ts = ts.Round(0)
			}
			if r.Intn(3) == 0 {
				ts = ts.UTC()
			}
			ms[i] = measurements.Measurement{Offset: time.Duration(r.Intn(3)), Timestamp: ts}
		}
		x0 := measurements.FaultTolerantMidpoint(slices.Clone(ms))
		y0 := measurements.Median(slices.Clone(ms))
		for k := 0; k < 5; k++ {
			p := slices.Clone(ms)
			r.Shuffle(n, func(i, j int) { p[i], p[j] = p[j], p[i] })
			x := measurements.FaultTolerantMidpoint(slices.Clone(p))
			y := measurements.Median(p)
			if x.Offset != x0.Offset || !x.Timestamp.Round(0).Equal(x0.Timestamp.Round(0)) ||
				y.Offset != y0.Offset || !y.Timestamp.Round(0).Equal(y0.Timestamp.Round(0)) {
				t.Fatalf("order dependent: %v", ms)
			}
		}
	}
}
