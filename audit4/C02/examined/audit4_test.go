package measurements_test

import (
	"math"
	"math/rand"
	"slices"
	"testing"
	"time"

	"example.com/scion-time/base/timemath"
	"example.com/scion-time/core/measurements"
)

const lim = int64(1) << 62

func pick(r *rand.Rand) int64 {
	switch r.Intn(8) {
	case 0:
		return lim - 1 - int64(r.Intn(4))
	case 1:
		return -(lim - 1) + int64(r.Intn(4))
	case 2:
		return int64(r.Intn(7)) - 3
	case 3:
		return r.Int63n(lim)
	case 4:
		return -r.Int63n(lim)
	case 5:
		return int64(r.Intn(2000)) - 1000
	case 6:
		return lim/2 + int64(r.Intn(5)) - 2
	default:
		return r.Int63n(lim) - r.Int63n(lim)
	}
}

func pickT(r *rand.Rand) time.Time {
	switch r.Intn(8) {
	case 0:
		return time.Time{}
	case 1:
		return time.Unix(int64(r.Intn(5)), int64(r.Intn(3))).UTC()
	case 2:
		return time.Unix(1<<33+int64(r.Intn(100)), int64(r.Intn(1e9))).UTC()
	case 3:
		return time.Unix(-(1 << 40), 0)
	case 4:
		return time.Unix(1<<40, 5)
	case 5:
		return time.Unix(1759000000, int64(r.Intn(3)))
	case 6:
		return time.Unix(1759000000+int64(r.Intn(3)), 0).In(time.FixedZone("x", 3600))
	default:
		return time.Unix(r.Int63n(1<<36), int64(r.Intn(1e9))).UTC()
	}
}

func between(a, b, m time.Time) bool {
	if a.After(b) {
		a, b = b, a
	}
	return !m.Before(a) && !m.After(b)
}

func TestAudit4Random(t *testing.T) {
	r := rand.New(rand.NewSource(1))
	for iter := 0; iter < 300000; iter++ {
		n := 1 + r.Intn(10)
		vs := make([]int64, n)
		ms := make([]measurements.Measurement, n)
		for i := range vs {
			if i > 0 && r.Intn(3) == 0 {
				vs[i] = vs[r.Intn(i)]
			} else {
				vs[i] = pick(r)
			}
			ms[i] = measurements.Measurement{Offset: time.Duration(vs[i]), Timestamp: pickT(r)}
			if i > 0 && r.Intn(3) == 0 {
				ms[i].Timestamp = ms[r.Intn(i)].Timestamp
			}
		}
		sorted := slices.Clone(vs)
		slices.Sort(sorted)
		f := (n - 1) / 3
		lo, hi := sorted[f], sorted[n-1-f]

		// durations
		ds := make([]time.Duration, n)
		for i := range ds {
			ds[i] = time.Duration(vs[i])
		}
		d0 := timemath.FaultTolerantMidpoint(slices.Clone(ds))
		if int64(d0) < lo || int64(d0) > hi {
			t.Fatalf("timemath.FTM %v = %d not in [%d,%d]", vs, d0, lo, hi)
		}
		m0 := timemath.Median(slices.Clone(ds))
		if int64(m0) < sorted[0] || int64(m0) > sorted[n-1] {
			t.Fatalf("timemath.Median out of range %v", vs)
		}
		// measurements
		c := slices.Clone(ms)
		x0 := measurements.FaultTolerantMidpoint(c)
		if int64(x0.Offset) < lo || int64(x0.Offset) > hi || x0.Error != nil {
			t.Fatalf("FTM %v = %d not in [%d,%d]", vs, x0.Offset, lo, hi)
		}
		if x0.Offset != d0 {
			t.Fatalf("FTM differs between packages: %v: %d vs %d", vs, x0.Offset, d0)
		}
		if !between(c[f].Timestamp, c[n-1-f].Timestamp, x0.Timestamp) {
			t.Fatalf("FTM ts %v not between %v and %v", x0.Timestamp, c[f].Timestamp, c[n-1-f].Timestamp)
		}
		c2 := slices.Clone(ms)
		y0 := measurements.Median(c2)
		if int64(y0.Offset) < sorted[0] || int64(y0.Offset) > sorted[n-1] || y0.Error != nil {
			t.Fatalf("Median out of range")
		}
		if y0.Offset != m0 {
			t.Fatalf("Median differs between packages: %v: %d vs %d", vs, y0.Offset, m0)
		}
		var a, b time.Time
		if n%2 != 0 {
			a, b = c2[n/2].Timestamp, c2[n/2].Timestamp
		} else {
			a, b = c2[n/2-1].Timestamp, c2[n/2].Timestamp
		}
		if !between(a, b, y0.Timestamp) {
			t.Fatalf("Median ts not between")
		}
		// multiset kept
		cs := make([]int64, n)
		for i := range c {
			cs[i] = int64(c[i].Offset)
		}
		slices.Sort(cs)
		if !slices.Equal(cs, sorted) {
			t.Fatalf("multiset changed")
		}
		// permutations
		for k := 0; k < 4; k++ {
			p := slices.Clone(ms)
			r.Shuffle(n, func(i, j int) { p[i], p[j] = p[j], p[i] })
			pd := make([]time.Duration, n)
			for i := range p {
				pd[i] = p[i].Offset
			}
			p2 := slices.Clone(p)
			x := measurements.FaultTolerantMidpoint(p)
			if x.Offset != x0.Offset || !x.Timestamp.Equal(x0.Timestamp) {
				t.Fatalf("FTM order dependent: %v: %v vs %v", ms, x, x0)
			}
			y := measurements.Median(p2)
			if y.Offset != y0.Offset || !y.Timestamp.Equal(y0.Timestamp) {
				t.Fatalf("Median order dependent: %v: %v vs %v", ms, y, y0)
			}
			if timemath.FaultTolerantMidpoint(slices.Clone(pd)) != d0 || timemath.Median(pd) != m0 {
				t.Fatalf("timemath order dependent")
			}
		}
	}
}

func TestAudit4MidpointFull(t *testing.T) {
	r := rand.New(rand.NewSource(2))
	ext := []int64{math.MinInt64, math.MinInt64 + 1, math.MinInt64 + 2, -2, -1, 0, 1, 2, math.MaxInt64 - 2, math.MaxInt64 - 1, math.MaxInt64,
		-(1 << 62), 1 << 62, -(1 << 62) - 1, 1<<62 - 1, 1<<62 + 1}
	check := func(x, y int64) {
		m := int64(timemath.Midpoint(time.Duration(x), time.Duration(y)))
		lo, hi := min(x, y), max(x, y)
		if m < lo || m > hi {
			t.Fatalf("Midpoint(%d,%d)=%d", x, y, m)
		}
		// within 1 of exact
		ex := (x >> 1) + (y >> 1) + (x & y & 1)
		if m-ex > 1 || ex-m > 1 {
			t.Fatalf("Midpoint(%d,%d)=%d exact floor %d", x, y, m, ex)
		}
	}
	for _, x := range ext {
		for _, y := range ext {
			check(x, y)
		}
	}
	for i := 0; i < 2000000; i++ {
		x := int64(r.Uint64())
		y := int64(r.Uint64())
		check(x, y)
		check(x, ext[r.Intn(len(ext))])
		check(ext[r.Intn(len(ext))], y)
	}
}
