package nts

import (
	"bytes"
	"context"
	"crypto/ecdsa"
	"crypto/elliptic"
	"crypto/rand"
	"crypto/tls"
	"crypto/x509"
	"crypto/x509/pkix"
	"encoding/binary"
	"io"
	"log/slog"
	"math/big"
	"net"
	"testing"
	"time"

	"example.com/scion-time/net/ntske"
)

func rec(typ uint16, critical bool, body []byte) []byte {
	b := make([]byte, 4+len(body))
	if critical {
		typ |= 1 << 15
	}
	binary.BigEndian.PutUint16(b[0:], typ)
	binary.BigEndian.PutUint16(b[2:], uint16(len(body)))
	copy(b[4:], body)
	return b
}

// key-exchange server: every connection gets one cookie that names the connection
func startKE(t *testing.T) (net.Listener, *ntske.Fetcher) {
	key, _ := ecdsa.GenerateKey(elliptic.P256(), rand.Reader)
	tmpl := &x509.Certificate{SerialNumber: big.NewInt(1), Subject: pkix.Name{CommonName: "x"},
		NotBefore: time.Now().Add(-time.Hour), NotAfter: time.Now().Add(time.Hour),
		IPAddresses: []net.IP{net.ParseIP("127.0.0.1")}}
	der, _ := x509.CreateCertificate(rand.Reader, tmpl, tmpl, &key.PublicKey, key)
	cfg := &tls.Config{Certificates: []tls.Certificate{{Certificate: [][]byte{der}, PrivateKey: key}}, NextProtos: []string{"ntske/1"}}
	l, err := tls.Listen("tcp", "127.0.0.1:0", cfg)
	if err != nil {
		t.Fatal(err)
	}
	n := 0
	go func() {
		for {
			c, err := l.Accept()
			if err != nil {
				return
			}
			n++
			go func(c net.Conn, n int) {
				defer c.Close()
				hdr := make([]byte, 4)
				for {
					if _, err := io.ReadFull(c, hdr); err != nil {
						return
					}
					body := make([]byte, binary.BigEndian.Uint16(hdr[2:]))
					if _, err := io.ReadFull(c, body); err != nil {
						return
					}
					if binary.BigEndian.Uint16(hdr)&^(1<<15) == ntske.RecEom {
						break
					}
				}
				var b bytes.Buffer
				b.Write(rec(ntske.RecNextproto, true, []byte{0, 0}))
				b.Write(rec(ntske.RecAead, true, []byte{0, 15}))
				b.Write(rec(ntske.RecCookie, false, bytes.Repeat([]byte{byte(n)}, 64)))
				b.Write(rec(ntske.RecEom, true, nil))
				_, _ = c.Write(b.Bytes())
			}(c, n)
		}
	}()
	host, port, _ := net.SplitHostPort(l.Addr().String())
	f := &ntske.Fetcher{Log: slog.New(slog.NewTextHandler(io.Discard, nil))}
	f.TLSConfig = tls.Config{InsecureSkipVerify: true, ServerName: host}
	f.Port = port
	return l, f
}

func TestStaleSessionCookie(t *testing.T) {
	l, f := startKE(t)
	defer l.Close()
	ctx := context.Background()

	// measurement A: exchange 1, takes the only cookie, request in flight
	dA, err := f.FetchData(ctx)
	if err != nil {
		t.Fatal(err)
	}
	reqA, idA := NewRequestPacket(dA)
	_ = reqA

	// measurement B (overlapping): pool empty -> exchange 2
	dB, err := f.FetchData(ctx)
	if err != nil {
		t.Fatal(err)
	}
	if bytes.Equal(dA.C2sKey, dB.C2sKey) {
		t.Fatal("same keys?")
	}

	// A's response arrives: authenticated under the keys of exchange 1,
	// carries cookies of session 1
	old := [][]byte{bytes.Repeat([]byte{0xA1}, 64), bytes.Repeat([]byte{0xA2}, 64)}
	resp := NewResponsePacket(old, dA.S2cKey, idA)
	buf := make([]byte, 48)
	EncodePacket(&buf, &resp)
	var dec Packet
	if err := DecodePacket(&dec, buf); err != nil {
		t.Fatal(err)
	}
	if err := ProcessResponse(buf, dA.S2cKey, f, &dec, idA); err != nil {
		t.Fatal(err)
	}

	// next request: which cookie with which keys?
	dC, err := f.FetchData(ctx)
	if err != nil {
		t.Fatal(err)
	}
	t.Logf("next request: cookie %x... with C2S key of exchange 2: %v", dC.Cookie[0][:4], bytes.Equal(dC.C2sKey, dB.C2sKey))
	if dC.Cookie[0][0] == 0xA1 && bytes.Equal(dC.C2sKey, dB.C2sKey) {
		t.Errorf("cookie of session 1 is sent with the keys of session 2")
	}
}
