//go:build verif

package server_test

// Property C07: the activity index ranks a client by exactly its most recent
// stored exchange when the client's requests arrive in timestamp order.
//
// Three requests of one client that carry the same receive timestamp R (a
// non-decreasing sequence, i.e. timestamp order; coarse hardware timestamps,
// or the timebase.Now() fall-back, stamp packets of one burst alike):
//
//   1. basic request, rx = R                    -> record R,            qval = R
//   2. interleaved follow-up of 1, rx = R       -> collides, stored as R+1 ns
//                                                  in place of R,       qval = R+1 ns
//   3. interleaved follow-up of 2, rx = R       -> no collision any more (R has
//                                                  left the store), R replaces
//                                                  R+1 ns, but qval stays R+1 ns
//
// Afterwards the only stored exchange is R and the index says R+1 ns. With a
// full store a newcomer stamped R is then refused (served statelessly) although
// it is as recent as the client's most recent stored exchange.

import (
	"fmt"
	"testing"
	"time"

	"example.com/scion-time/core/server"
	"example.com/scion-time/net/ntp"
)

func c07Request(origin ntp.Time64, interleaved bool) *ntp.Packet {
	req := &ntp.Packet{}
	req.SetVersion(ntp.VersionMax)
	req.SetMode(ntp.ModeClient)
	req.TransmitTime = ntp.Time64{Seconds: 7, Fraction: 7}
	if interleaved {
		req.OriginTime = origin
		req.ReceiveTime = ntp.Time64{Seconds: 9, Fraction: 9}
	}
	return req
}

func c07MaxStored(recs []server.VerifRecord) ntp.Time64 {
	max := recs[0].RX
	for _, r := range recs[1:] {
		if r.RX.After(max) {
			max = r.RX
		}
	}
	return max
}

func TestC07EqualReceiveTimestampsLeaveIndexAhead(t *testing.T) {
	server.VerifReset()
	const id = "client-eq"
	// the receive time of all three requests; in the past, so that the clock
	// reading handleRequest takes is later
	r := time.Now().Add(-time.Second).UTC()

	var resp [3]ntp.Packet
	var origin ntp.Time64
	for i := 0; i < 3; i++ {
		rxt := r // the same receive timestamp for every request
		var txt time.Time
		server.VerifHandleRequest(id, c07Request(origin, i > 0), &rxt, &txt, &resp[i])
		origin = resp[i].ReceiveTime
		// the listener read a kernel tx timestamp 10 us after the software one
		txt1 := txt.Add(10 * time.Microsecond)
		server.VerifUpdateTXTimestamp(id, rxt, txt, &txt1)

		recs, qval, ok := server.VerifSnapshot(id)
		if !ok {
			t.Fatal("client not on record")
		}
		t.Logf("after request %d (rx as recorded %v): records %v, index %v", i+1, resp[i].ReceiveTime, recs, qval)
	}

	if _, _, err := server.VerifCheckStore(); err != nil {
		t.Fatalf("store: %v", err)
	}
	recs, qval, _ := server.VerifSnapshot(id)
	if max := c07MaxStored(recs); qval != max {
		t.Errorf("requests arrived in timestamp order (rx %v three times), "+
			"but the index ranks the client at %v, its most recent stored exchange is %v",
			ntp.Time64FromTime(r), qval, max)
	}
}

// The same history in front of a full store: the client is the least recently
// active one, a newcomer stamped with the same receive time R is as recent as
// the client's most recent stored exchange, and is refused all the same.
func TestC07EqualReceiveTimestampsRefuseNewcomer(t *testing.T) {
	server.VerifReset()
	const id = "client-eq"
	r := time.Now().Add(-time.Second).UTC()

	var origin ntp.Time64
	for i := 0; i < 3; i++ {
		rxt := r
		var txt time.Time
		var resp ntp.Packet
		server.VerifHandleRequest(id, c07Request(origin, i > 0), &rxt, &txt, &resp)
		origin = resp.ReceiveTime
		txt1 := txt.Add(10 * time.Microsecond)
		server.VerifUpdateTXTimestamp(id, rxt, txt, &txt1)
	}
	// fill the store with clients that were active later
	later := ntp.Time64FromTime(r.Add(500 * time.Millisecond))
	for i := 0; server.VerifLen() < server.VerifTSSCap; i++ {
		server.VerifLoad(fmt.Sprintf("filler-%d", i),
			[]server.VerifRecord{{RX: later, TX: ntp.Time64FromTime(r.Add(501 * time.Millisecond))}}, later)
	}
	if _, _, err := server.VerifCheckStore(); err != nil {
		t.Fatalf("store: %v", err)
	}
	minID, minQ, _ := server.VerifMinClient()
	recs, _, _ := server.VerifSnapshot(id)
	t.Logf("least recently active: %q, index %v, its stored exchanges %v", minID, minQ, recs)

	rxt := r
	var txt time.Time
	var resp ntp.Packet
	server.VerifHandleRequest("newcomer", c07Request(ntp.Time64{}, false), &rxt, &txt, &resp)
	_, _, admitted := server.VerifSnapshot("newcomer")
	_, _, still := server.VerifSnapshot(id)
	if rx := ntp.Time64FromTime(r); !admitted && still && !c07MaxStored(recs).After(rx) {
		t.Errorf("full store: newcomer with rx %v is at least as recent as the most recent "+
			"stored exchange %v of the least recently active client %q, but was served statelessly",
			rx, c07MaxStored(recs), minID)
	}
	server.VerifReset()
}
