package server

// C13 / sibling of 0fb4ba6 ("accept NTP responses only from the port that was
// queried", IP client only): the SCION client checks the source and
// destination ISD-AS and host of a response, but neither the SCION/UDP source
// port (the port it queried) nor the destination port (its own port).

import (
	"testing"
	"time"

	spath "github.com/scionproto/scion/pkg/snet/path"
)

func TestC13D1ResponseFromOtherPort(t *testing.T) {
	host := "127.0.0.1"
	srv := c13StartServer(t, host, 0, 0, true)
	relay := c13StartRelay(t, host, srv)
	p := c13Path(spath.SCION{Raw: c13RawPath(2, 2)}, relay.addr())

	for _, tc := range []struct {
		name     string
		src, dst bool
	}{
		{"genuine", false, false},
		{"other source port", true, false},
		{"other destination port", false, true},
		{"both", true, true},
	} {
		lc := &c13LogCapture{}
		c := c13NewClient(lc, false)
		var seen [2]uint16
		relay.setHooks(nil, func(pkt []byte) [][]byte {
			_, _, u, _, err := c13Decode(pkt)
			if err != nil {
				t.Error(err)
				return nil
			}
			off := len(pkt) - len(u.Contents) - len(u.Payload)
			m := append([]byte(nil), pkt...)
			if tc.src {
				m[off], m[off+1] = 0x12, 0x34 // 4660: not the port that was queried
			}
			if tc.dst {
				m[off+2], m[off+3] = 0x43, 0x21 // 17185: not the client's port
			}
			_, _, u2, _, _ := c13Decode(m)
			seen = [2]uint16{u2.SrcPort, u2.DstPort}
			return [][]byte{m, m}
		})
		off, err := c13Measure(t, lc, c, host, srv, p, 300*time.Millisecond)
		req, _ := relay.last()
		_, _, ureq, _, _ := c13Decode(req)
		t.Logf("%s: request %d -> %d, response delivered %d -> %d: offset=%v err=%v",
			tc.name, ureq.SrcPort, ureq.DstPort, seen[0], seen[1], off, err)
		if (tc.src || tc.dst) && err == nil {
			t.Errorf("%s: response with SCION/UDP ports %d -> %d accepted for the request %d -> %d",
				tc.name, seen[0], seen[1], ureq.SrcPort, ureq.DstPort)
		}
		if !tc.src && !tc.dst && err != nil {
			t.Errorf("genuine response not accepted: %v", err)
		}
	}
}
