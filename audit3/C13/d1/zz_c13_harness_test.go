package server

// Audit harness (C13): the real SCION listener loop (runSCIONServer) on a
// loopback socket, a DRKey daemon stand-in, the real SCION client
// (client.MeasureClockOffsetSCION) and a relay between the two that can record
// and rewrite packets in either direction.

import (
	"context"
	"crypto/sha256"
	"log/slog"
	"net"
	"net/netip"
	"strings"
	"sync"
	"sync/atomic"
	"testing"
	"time"

	"github.com/google/gopacket"

	"github.com/scionproto/scion/pkg/addr"
	"github.com/scionproto/scion/pkg/daemon"
	"github.com/scionproto/scion/pkg/drkey"
	"github.com/scionproto/scion/pkg/drkey/generic"
	"github.com/scionproto/scion/pkg/scrypto/cppki"
	"github.com/scionproto/scion/pkg/slayers"
	"github.com/scionproto/scion/pkg/slayers/path"
	pscion "github.com/scionproto/scion/pkg/slayers/path/scion"
	"github.com/scionproto/scion/pkg/snet"
	spath "github.com/scionproto/scion/pkg/snet/path"

	"example.com/scion-time/core/client"
	"example.com/scion-time/net/ntske"
	"example.com/scion-time/net/scion"
	"example.com/scion-time/net/udp"
)

var (
	c13SrvIA = addr.MustParseIA("1-ff00:0:111")
	c13CliIA = addr.MustParseIA("1-ff00:0:112")
)

// c13Daemon answers DRKey requests like a SCION daemon would: one secret per
// (fast side AS, slow side AS, fast side host), host-host keys derived from it.
type c13Daemon struct {
	daemon.Connector
	mu    sync.Mutex
	calls int
}

func c13HostASKey(meta drkey.HostASMeta) drkey.HostASKey {
	h := sha256.Sum256([]byte(meta.SrcIA.String() + "|" + meta.DstIA.String() + "|" + meta.SrcHost))
	var k drkey.Key
	copy(k[:], h[:16])
	now := time.Now()
	return drkey.HostASKey{
		ProtoId: meta.ProtoId,
		SrcIA:   meta.SrcIA,
		DstIA:   meta.DstIA,
		SrcHost: meta.SrcHost,
		Epoch: drkey.Epoch{Validity: cppki.Validity{
			NotBefore: now.Add(-time.Hour), NotAfter: now.Add(time.Hour)}},
		Key: k,
	}
}

func (d *c13Daemon) DRKeyGetHostASKey(ctx context.Context, meta drkey.HostASMeta) (drkey.HostASKey, error) {
	d.mu.Lock()
	d.calls++
	d.mu.Unlock()
	return c13HostASKey(meta), nil
}

func (d *c13Daemon) DRKeyGetHostHostKey(ctx context.Context, meta drkey.HostHostMeta) (drkey.HostHostKey, error) {
	hak := c13HostASKey(drkey.HostASMeta{
		ProtoId: meta.ProtoId, Validity: meta.Validity,
		SrcIA: meta.SrcIA, DstIA: meta.DstIA, SrcHost: meta.SrcHost})
	k, err := generic.Deriver{Proto: meta.ProtoId}.DeriveHostHost(meta.DstHost, hak.Key)
	if err != nil {
		return drkey.HostHostKey{}, err
	}
	return drkey.HostHostKey{
		ProtoId: meta.ProtoId, Epoch: hak.Epoch,
		SrcIA: meta.SrcIA, DstIA: meta.DstIA,
		SrcHost: meta.SrcHost, DstHost: meta.DstHost, Key: k,
	}, nil
}

// c13SrvLog records the listener's log records while enabled.
var c13SrvLog = &c13ToggleLog{}

type c13ToggleLog struct {
	c13LogCapture
	on atomic.Bool
}

func (h *c13ToggleLog) Enabled(context.Context, slog.Level) bool { return h.on.Load() }
func (h *c13ToggleLog) WithAttrs([]slog.Attr) slog.Handler       { return h }
func (h *c13ToggleLog) WithGroup(string) slog.Handler            { return h }

var (
	c13Once  sync.Once
	c13Mtrcs *scionServerMetrics
)

func c13Metrics() *scionServerMetrics {
	c13Once.Do(func() { c13Mtrcs = newSCIONServerMetrics() })
	return c13Mtrcs
}

// c13StartServer runs the listener loop on host:0 (or host:port) and returns
// the socket's address. hostPort is the "local host port" of the listener.
func c13StartServer(t *testing.T, host string, port int, hostPort int, withFetcher bool) netip.AddrPort {
	t.Helper()
	lc := net.ListenConfig{}
	pc, err := lc.ListenPacket(context.Background(), "udp", net.JoinHostPort(host, itoa(port)))
	if err != nil {
		t.Fatalf("listen: %v", err)
	}
	conn := pc.(*net.UDPConn)
	ap := conn.LocalAddr().(*net.UDPAddr).AddrPort()
	if hostPort == 0 {
		hostPort = int(ap.Port())
	}
	var f *scion.Fetcher
	if withFetcher {
		f = scion.NewFetcher(&c13Daemon{})
	}
	log := slog.New(c13SrvLog)
	go runSCIONServer(context.Background(), log, c13Metrics(), conn, "", hostPort, 0, f, ntske.NewProvider())
	return ap
}

func itoa(i int) string {
	if i == 0 {
		return "0"
	}
	s := ""
	for i > 0 {
		s = string(rune('0'+i%10)) + s
		i /= 10
	}
	return s
}

// c13Relay relays client -> server and server -> client and lets the test see
// and rewrite the packets.
type c13Relay struct {
	conn   *net.UDPConn
	server netip.AddrPort
	mu     sync.Mutex
	reqs   [][]byte
	resps  [][]byte
	// rewrite hooks; return nil to drop, several packets to send several
	onReq  func([]byte) [][]byte
	onResp func([]byte) [][]byte
}

func c13StartRelay(t *testing.T, host string, server netip.AddrPort) *c13Relay {
	t.Helper()
	pc, err := net.ListenPacket("udp", net.JoinHostPort(host, "0"))
	if err != nil {
		t.Fatalf("listen: %v", err)
	}
	r := &c13Relay{conn: pc.(*net.UDPConn), server: server}
	go func() {
		var cli netip.AddrPort
		clis := map[uint16]netip.AddrPort{}
		buf := make([]byte, 65536)
		for {
			n, from, err := r.conn.ReadFromUDPAddrPort(buf)
			if err != nil {
				return
			}
			pkt := append([]byte(nil), buf[:n]...)
			from = netip.AddrPortFrom(from.Addr().Unmap(), from.Port())
			r.mu.Lock()
			onReq, onResp := r.onReq, r.onResp
			if from == r.server {
				r.resps = append(r.resps, pkt)
			} else {
				r.reqs = append(r.reqs, pkt)
				cli = from
				clis[from.Port()] = from
			}
			r.mu.Unlock()
			if from == r.server {
				// several clients at a time: route by the SCION/UDP destination port
				if _, _, u, dec, err := c13Decode(pkt); err == nil && len(dec) >= 2 &&
					dec[len(dec)-1] == slayers.LayerTypeSCIONUDP {
					if a, ok := clis[u.DstPort]; ok {
						cli = a
					}
				}
				out := [][]byte{pkt}
				if onResp != nil {
					out = onResp(pkt)
				}
				for _, p := range out {
					_, _ = r.conn.WriteToUDPAddrPort(p, cli)
				}
			} else {
				out := [][]byte{pkt}
				if onReq != nil {
					out = onReq(pkt)
				}
				for _, p := range out {
					_, _ = r.conn.WriteToUDPAddrPort(p, r.server)
				}
			}
		}
	}()
	t.Cleanup(func() { r.conn.Close() })
	return r
}

func (r *c13Relay) addr() *net.UDPAddr {
	return r.conn.LocalAddr().(*net.UDPAddr)
}

func (r *c13Relay) setHooks(onReq, onResp func([]byte) [][]byte) {
	r.mu.Lock()
	r.onReq, r.onResp = onReq, onResp
	r.mu.Unlock()
}

func (r *c13Relay) last() (req, resp []byte) {
	r.mu.Lock()
	defer r.mu.Unlock()
	if len(r.reqs) != 0 {
		req = r.reqs[len(r.reqs)-1]
	}
	if len(r.resps) != 0 {
		resp = r.resps[len(r.resps)-1]
	}
	return
}

// c13LogCapture records the client's debug records.
type c13LogCapture struct {
	mu   sync.Mutex
	recs []string
}

func (h *c13LogCapture) Enabled(context.Context, slog.Level) bool { return true }
func (h *c13LogCapture) Handle(_ context.Context, r slog.Record) error {
	var sb strings.Builder
	sb.WriteString(r.Message)
	r.Attrs(func(a slog.Attr) bool {
		if a.Key == "auth" || a.Key == "ntsauth" || a.Key == "error" || a.Key == "cause" {
			sb.WriteString(" " + a.Key + "=" + a.Value.String())
		}
		return true
	})
	h.mu.Lock()
	h.recs = append(h.recs, sb.String())
	h.mu.Unlock()
	return nil
}
func (h *c13LogCapture) WithAttrs([]slog.Attr) slog.Handler { return h }
func (h *c13LogCapture) WithGroup(string) slog.Handler      { return h }
func (h *c13LogCapture) reset() {
	h.mu.Lock()
	h.recs = nil
	h.mu.Unlock()
}
func (h *c13LogCapture) has(s string) bool {
	h.mu.Lock()
	defer h.mu.Unlock()
	for _, r := range h.recs {
		if strings.Contains(r, s) {
			return true
		}
	}
	return false
}
func (h *c13LogCapture) all() []string {
	h.mu.Lock()
	defer h.mu.Unlock()
	return append([]string(nil), h.recs...)
}

// c13RawPath returns a serialized SCION path with the given segment lengths,
// positioned at its last hop (as it arrives at the destination).
func c13RawPath(segLens ...int) []byte {
	d := &pscion.Decoded{}
	hops := 0
	for i, l := range segLens {
		d.PathMeta.SegLen[i] = uint8(l)
		d.InfoFields = append(d.InfoFields, path.InfoField{
			ConsDir: i%2 == 0, SegID: uint16(0x1111 * (i + 1)), Timestamp: uint32(time.Now().Unix())})
		for j := 0; j < l; j++ {
			hops++
			d.HopFields = append(d.HopFields, path.HopField{
				ExpTime: 63, ConsIngress: uint16(hops), ConsEgress: uint16(hops + 100),
				Mac: [6]byte{byte(hops), 2, 3, 4, 5, 6}})
		}
	}
	d.NumINF = len(segLens)
	d.NumHops = hops
	d.PathMeta.CurrINF = uint8(len(segLens) - 1)
	d.PathMeta.CurrHF = uint8(hops - 1)
	raw := make([]byte, d.Len())
	if err := d.SerializeTo(raw); err != nil {
		panic(err)
	}
	return raw
}

func c13Path(dp snet.DataplanePath, nextHop *net.UDPAddr) snet.Path {
	return spath.Path{Src: c13CliIA, Dst: c13SrvIA, DataplanePath: dp, NextHop: nextHop}
}

// c13Measure runs one measurement of the real client.
func c13Measure(t *testing.T, lc *c13LogCapture, c *client.SCIONClient, cliHost string,
	srv netip.AddrPort, p snet.Path, timeout time.Duration) (time.Duration, error) {
	t.Helper()
	ctx, cancel := context.WithTimeout(context.Background(), timeout)
	defer cancel()
	laddr := udp.UDPAddr{IA: c13CliIA, Host: &net.UDPAddr{IP: net.ParseIP(cliHost)}}
	raddr := udp.UDPAddr{IA: c13SrvIA, Host: net.UDPAddrFromAddrPort(srv)}
	_, off, err := client.MeasureClockOffsetSCION(ctx, slog.New(lc), []*client.SCIONClient{c},
		laddr, raddr, []snet.Path{p})
	return off, err
}

func c13NewClient(lc *c13LogCapture, auth bool) *client.SCIONClient {
	c := &client.SCIONClient{Log: slog.New(lc)}
	if auth {
		c.Auth.Enabled = true
		c.Auth.DRKeyFetcher = scion.NewFetcher(&c13Daemon{})
	}
	return c
}

func addrHostIP(a netip.Addr) addr.Host { return addr.HostIP(a) }

// c13Decode decodes a packet the way the listener does.
func c13Decode(pkt []byte) (s slayers.SCION, e slayers.EndToEndExtn, u slayers.UDP, decoded []gopacket.LayerType, err error) {
	var hbh slayers.HopByHopExtnSkipper
	var scmp slayers.SCMP
	s.RecyclePaths()
	parser := gopacket.NewDecodingLayerParser(slayers.LayerTypeSCION, &s, &hbh, &e, &u, &scmp)
	parser.IgnoreUnsupported = true
	err = parser.DecodeLayers(pkt, &decoded)
	return
}
