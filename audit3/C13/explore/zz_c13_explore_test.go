package server

import (
	"context"
	"fmt"
	"log/slog"
	"math/rand"
	"net"
	"net/netip"
	"runtime"
	"sort"
	"strings"
	"testing"
	"time"

	"example.com/scion-time/core/client"
	"example.com/scion-time/net/scion"
	"example.com/scion-time/net/udp"
	"github.com/google/gopacket"
	"github.com/scionproto/scion/pkg/segment/iface"
	"github.com/scionproto/scion/pkg/slayers"
	"github.com/scionproto/scion/pkg/slayers/path"
	"github.com/scionproto/scion/pkg/snet"
	spath "github.com/scionproto/scion/pkg/snet/path"
)

func TestC13Baseline(t *testing.T) {
	for _, host := range []string{"127.0.0.1", "::1"} {
		srv := c13StartServer(t, host, 0, 0, true)
		relay := c13StartRelay(t, host, srv)
		for name, dp := range map[string]snet.DataplanePath{
			"scion2":   spath.SCION{Raw: c13RawPath(2)},
			"scion3-2": spath.SCION{Raw: c13RawPath(3, 2)},
			"scion222": spath.SCION{Raw: c13RawPath(2, 2, 2)},
			"empty":    spath.Empty{},
			"onehop": spath.OneHop{Info: path.InfoField{ConsDir: true, SegID: 7, Timestamp: 1},
				FirstHop:  path.HopField{ConsEgress: 5, ExpTime: 63},
				SecondHop: path.HopField{ConsIngress: 9, ExpTime: 63}},
			"epic": &spath.EPIC{AuthPHVF: make([]byte, 16), AuthLHVF: make([]byte, 16), SCION: c13RawPath(2, 2)},
		} {
			lc := &c13LogCapture{}
			c := c13NewClient(lc, true)
			off, err := c13Measure(t, lc, c, host, srv, c13Path(dp, relay.addr()), time.Second)
			t.Logf("%s %s: off=%v err=%v auth=%v", host, name, off, err, lc.has("received response auth=true"))
			if err != nil || !lc.has("received response auth=true") {
				t.Errorf("%s %s: not authenticated: %v", host, name, lc.all())
			}
		}
	}
}

// which single-bit mutations of a genuine authenticated request are still served?
func TestC13RequestSweep(t *testing.T) {
	host := "127.0.0.1"
	srv := c13StartServer(t, host, 0, 0, true)
	relay := c13StartRelay(t, host, srv)
	lc := &c13LogCapture{}
	c := c13NewClient(lc, true)
	_, err := c13Measure(t, lc, c, host, srv, c13Path(spath.SCION{Raw: c13RawPath(2, 2)}, relay.addr()), time.Second)
	if err != nil {
		t.Fatal(err)
	}
	req, _ := relay.last()
	s, e, u, dec, err := c13Decode(req)
	if err != nil {
		t.Fatal(err)
	}
	t.Logf("request: %d bytes, decoded %v, hdr %d, e2e %d, udp len %d", len(req), dec, len(s.Contents), len(e.Contents), u.Length)

	pc, _ := net.ListenPacket("udp", host+":0")
	conn := pc.(*net.UDPConn)
	defer conn.Close()
	send := func(pkt []byte) []byte {
		_, _ = conn.WriteToUDPAddrPort(pkt, srv)
		_ = conn.SetReadDeadline(time.Now().Add(30 * time.Millisecond))
		buf := make([]byte, 2048)
		n, _, err := conn.ReadFromUDPAddrPort(buf)
		if err != nil {
			return nil
		}
		return buf[:n]
	}
	if send(req) == nil {
		t.Fatal("replayed request not served")
	}
	type res struct {
		off, bit int
		auth     bool
	}
	var served []res
	for off := 0; off < len(req); off++ {
		for bit := 0; bit < 8; bit++ {
			m := append([]byte(nil), req...)
			m[off] ^= 1 << bit
			resp := send(m)
			if resp == nil {
				continue
			}
			_, re, _, rdec, _ := c13Decode(resp)
			auth := false
			if len(rdec) >= 3 && rdec[len(rdec)-2] == slayers.LayerTypeEndToEndExtn {
				_, err := re.FindOption(slayers.OptTypeAuthenticator)
				auth = err == nil
			}
			served = append(served, res{off, bit, auth})
		}
	}
	byOff := map[int][]string{}
	for _, r := range served {
		byOff[r.off] = append(byOff[r.off], fmt.Sprintf("%d:%v", r.bit, r.auth))
	}
	var offs []int
	for o := range byOff {
		offs = append(offs, o)
	}
	sort.Ints(offs)
	for _, o := range offs {
		t.Logf("offset %3d served with bits %v", o, byOff[o])
	}
}

// which single-bit mutations of a genuine authenticated response are accepted?
func TestC13ResponseSweep(t *testing.T) {
	host := "127.0.0.1"
	srv := c13StartServer(t, host, 0, 0, true)
	relay := c13StartRelay(t, host, srv)
	lc := &c13LogCapture{}
	c := c13NewClient(lc, true)
	p := c13Path(spath.SCION{Raw: c13RawPath(2, 2)}, relay.addr())
	_, err := c13Measure(t, lc, c, host, srv, p, time.Second)
	if err != nil {
		t.Fatal(err)
	}
	_, resp := relay.last()
	s, e, u, dec, _ := c13Decode(resp)
	t.Logf("response: %d bytes, decoded %v, hdr %d, e2e %d, udp len %d", len(resp), dec, len(s.Contents), len(e.Contents), u.Length)
	n := len(resp)
	byOff := map[int][]string{}
	for off := 0; off < n; off++ {
		for bit := 0; bit < 8; bit++ {
			relay.setHooks(nil, func(pkt []byte) [][]byte {
				m := append([]byte(nil), pkt...)
				if off < len(m) {
					m[off] ^= 1 << bit
				}
				return [][]byte{m, m}
			})
			lc.reset()
			_, err := c13Measure(t, lc, c, host, srv, p, 200*time.Millisecond)
			if err == nil {
				byOff[off] = append(byOff[off], fmt.Sprintf("%d:%v", bit, lc.has("received response auth=true")))
			}
		}
	}
	var offs []int
	for o := range byOff {
		offs = append(offs, o)
	}
	sort.Ints(offs)
	for _, o := range offs {
		t.Logf("offset %3d accepted with bits %v", o, byOff[o])
	}
	_ = netip.AddrPort{}
}

// sibling of 0fb4ba6: response from another L4 port of the server host
func TestC13ResponsePort(t *testing.T) {
	host := "127.0.0.1"
	srv := c13StartServer(t, host, 0, 0, true)
	relay := c13StartRelay(t, host, srv)
	lc := &c13LogCapture{}
	c := c13NewClient(lc, false)
	p := c13Path(spath.SCION{Raw: c13RawPath(2, 2)}, relay.addr())
	relay.setHooks(nil, func(pkt []byte) [][]byte {
		s, _, u, _, err := c13Decode(pkt)
		if err != nil {
			t.Error(err)
		}
		off := len(pkt) - len(u.Contents) - len(u.Payload)
		_ = s
		m := append([]byte(nil), pkt...)
		m[off], m[off+1] = 0x12, 0x34   // source port 4660
		m[off+2], m[off+3] = 0x43, 0x21 // destination port 17185
		return [][]byte{m, m}
	})
	off, err := c13Measure(t, lc, c, host, srv, p, 300*time.Millisecond)
	t.Logf("off=%v err=%v %v", off, err, lc.all())
}

func c13SCMP(t *testing.T, req []byte, typ slayers.SCMPType, withHBH bool) []byte {
	// take the SCION header of a genuine request and put an SCMP message behind it
	var s slayers.SCION
	var e slayers.EndToEndExtn
	var u slayers.UDP
	var hbh slayers.HopByHopExtnSkipper
	var scmp slayers.SCMP
	var decoded []gopacket.LayerType
	parser := gopacket.NewDecodingLayerParser(slayers.LayerTypeSCION, &s, &hbh, &e, &u, &scmp)
	parser.IgnoreUnsupported = true
	if err := parser.DecodeLayers(req, &decoded); err != nil {
		t.Fatal(err)
	}
	buffer := gopacket.NewSerializeBuffer()
	options := gopacket.SerializeOptions{ComputeChecksums: true, FixLengths: true}
	pld := gopacket.Payload([]byte{0, 1, 0, 2, 'h', 'e', 'l', 'l', 'o', ' ', 'w', 'o', 'r', 'l', 'd', '!', 0, 0, 0, 0})
	_ = pld.SerializeTo(buffer, options)
	var m slayers.SCMP
	m.TypeCode = slayers.CreateSCMPTypeCode(typ, 0)
	m.SetNetworkLayerForChecksum(&s)
	s.NextHdr = slayers.L4SCMP
	if err := m.SerializeTo(buffer, options); err != nil {
		t.Fatal(err)
	}
	if withHBH {
		h := slayers.HopByHopExtn{}
		h.NextHdr = slayers.L4SCMP
		h.Options = []*slayers.HopByHopOption{{OptType: 77, OptData: []byte{1, 2, 3, 4}}}
		if err := h.SerializeTo(buffer, options); err != nil {
			t.Fatal(err)
		}
		s.NextHdr = slayers.HopByHopClass
	}
	if err := s.SerializeTo(buffer, options); err != nil {
		t.Fatal(err)
	}
	return append([]byte(nil), buffer.Bytes()...)
}

func TestC13FuzzServer(t *testing.T) {
	host := "127.0.0.1"
	srv := c13StartServer(t, host, 0, 0, true)
	relay := c13StartRelay(t, host, srv)
	var seeds [][]byte
	for _, dp := range []snet.DataplanePath{
		spath.SCION{Raw: c13RawPath(2, 2)},
		spath.SCION{Raw: c13RawPath(1)},
		spath.Empty{},
		spath.OneHop{Info: path.InfoField{ConsDir: true, SegID: 7, Timestamp: 1},
			FirstHop:  path.HopField{ConsEgress: 5, ExpTime: 63},
			SecondHop: path.HopField{ConsIngress: 9, ExpTime: 63}},
		&spath.EPIC{AuthPHVF: make([]byte, 16), AuthLHVF: make([]byte, 16), SCION: c13RawPath(2, 2)},
	} {
		lc := &c13LogCapture{}
		c := c13NewClient(lc, true)
		if _, err := c13Measure(t, lc, c, host, srv, c13Path(dp, relay.addr()), time.Second); err != nil {
			t.Fatal(err)
		}
		req, _ := relay.last()
		seeds = append(seeds, req)
		seeds = append(seeds, c13SCMP(t, req, slayers.SCMPTypeEchoRequest, false))
		seeds = append(seeds, c13SCMP(t, req, slayers.SCMPTypeTracerouteRequest, true))
	}
	pc, _ := net.ListenPacket("udp", host+":0")
	conn := pc.(*net.UDPConn)
	defer conn.Close()
	go func() {
		buf := make([]byte, 65536)
		for {
			if _, _, err := conn.ReadFromUDPAddrPort(buf); err != nil {
				return
			}
		}
	}()
	rng := rand.New(rand.NewSource(13))
	N := 300000
	for i := 0; i < N; i++ {
		m := append([]byte(nil), seeds[rng.Intn(len(seeds))]...)
		for k := rng.Intn(4) + 1; k > 0; k-- {
			switch rng.Intn(6) {
			case 0, 1, 2:
				m[rng.Intn(len(m))] = byte(rng.Intn(256))
			case 3:
				j := rng.Intn(len(m))
				m[j] ^= 1 << rng.Intn(8)
			case 4: // insert
				j := rng.Intn(len(m))
				ins := make([]byte, 4*(rng.Intn(3)+1))
				m = append(m[:j], append(ins, m[j:]...)...)
			case 5: // truncate
				if len(m) > 20 {
					m = m[:len(m)-rng.Intn(16)]
				}
			}
		}
		_, _ = conn.WriteToUDPAddrPort(m, srv)
		if i%2000 == 0 {
			time.Sleep(5 * time.Millisecond)
		}
	}
	// still alive?
	lc := &c13LogCapture{}
	c := c13NewClient(lc, true)
	time.Sleep(500 * time.Millisecond)
	c13SrvLog.on.Store(true)
	defer func() { t.Logf("server log: %q", c13SrvLog.all()) }()
	t0 := time.Now()
	defer func() { t.Logf("recovered after %v", time.Since(t0)) }()
	for try := 0; try < 100; try++ {
		_, err := c13Measure(t, lc, c, host, srv, c13Path(spath.Empty{}, relay.addr()), 100*time.Millisecond)
		t.Logf("try %d: err=%v %v", try, err, lc.all())
		lc.reset()
		if err == nil {
			return
		}
	}
	buf := make([]byte, 1<<20)
	t.Fatalf("server no longer answers\n%s", buf[:runtime.Stack(buf, true)])
}

func c13Mutate(rng *rand.Rand, pkt []byte) []byte {
	m := append([]byte(nil), pkt...)
	for k := rng.Intn(4) + 1; k > 0; k-- {
		switch rng.Intn(6) {
		case 0, 1, 2:
			m[rng.Intn(len(m))] = byte(rng.Intn(256))
		case 3:
			j := rng.Intn(len(m))
			m[j] ^= 1 << rng.Intn(8)
		case 4: // insert
			j := rng.Intn(len(m))
			ins := make([]byte, 4*(rng.Intn(3)+1))
			m = append(m[:j], append(ins, m[j:]...)...)
		case 5: // truncate
			if len(m) > 20 {
				m = m[:len(m)-rng.Intn(16)]
			}
		}
	}
	return m
}

func TestC13FuzzClient(t *testing.T) {
	host := "127.0.0.1"
	srv := c13StartServer(t, host, 0, 0, true)
	relay := c13StartRelay(t, host, srv)
	rng := rand.New(rand.NewSource(14))
	dps := []snet.DataplanePath{
		spath.SCION{Raw: c13RawPath(2, 2)},
		spath.Empty{},
		spath.OneHop{Info: path.InfoField{ConsDir: true, SegID: 7, Timestamp: 1},
			FirstHop:  path.HopField{ConsEgress: 5, ExpTime: 63},
			SecondHop: path.HopField{ConsIngress: 9, ExpTime: 63}},
	}
	lc := &c13LogCapture{}
	c := c13NewClient(lc, true)
	acc, accAuth := 0, 0
	for i := 0; i < 60000; i++ {
		relay.setHooks(nil, func(pkt []byte) [][]byte {
			m := c13Mutate(rng, pkt)
			return [][]byte{m, m}
		})
		lc.reset()
		_, err := c13Measure(t, lc, c, host, srv, c13Path(dps[i%len(dps)], relay.addr()), 20*time.Millisecond)
		if err == nil {
			acc++
			if lc.has("auth=true") {
				accAuth++
			}
		}
	}
	t.Logf("accepted %d, authenticated %d", acc, accAuth)
}

func c13BuildUDP(t *testing.T, base []byte, dstHost netip.Addr, dstPort uint16, hbh bool, e2eOpts []*slayers.EndToEndOption, pld []byte) []byte {
	s, _, _, _, err := c13Decode(base)
	if err != nil {
		t.Fatal(err)
	}
	_ = s.SetDstAddr(addrHostIP(dstHost))
	buffer := gopacket.NewSerializeBuffer()
	options := gopacket.SerializeOptions{ComputeChecksums: true, FixLengths: true}
	_ = gopacket.Payload(pld).SerializeTo(buffer, options)
	var u slayers.UDP
	u.SrcPort, u.DstPort = 4444, dstPort
	u.SetNetworkLayerForChecksum(&s)
	if err := u.SerializeTo(buffer, options); err != nil {
		t.Fatal(err)
	}
	next := slayers.L4UDP
	if e2eOpts != nil {
		e := slayers.EndToEndExtn{}
		e.NextHdr = next
		e.Options = e2eOpts
		if err := e.SerializeTo(buffer, options); err != nil {
			t.Fatal(err)
		}
		next = slayers.End2EndClass
	}
	if hbh {
		h := slayers.HopByHopExtn{}
		h.NextHdr = next
		h.Options = []*slayers.HopByHopOption{{OptType: 77, OptData: []byte{1, 2, 3, 4}}}
		if err := h.SerializeTo(buffer, options); err != nil {
			t.Fatal(err)
		}
		next = slayers.HopByHopClass
	}
	s.NextHdr = next
	if err := s.SerializeTo(buffer, options); err != nil {
		t.Fatal(err)
	}
	return append([]byte(nil), buffer.Bytes()...)
}

func TestC13FuzzForwarder(t *testing.T) {
	host := "127.0.13.7"
	srv := c13StartServer(t, host, 30041, 10123, true)
	srv0 := c13StartServer(t, "127.0.0.1", 0, 0, true)
	relay := c13StartRelay(t, "127.0.0.1", srv0)
	lc := &c13LogCapture{}
	c := c13NewClient(lc, true)
	if _, err := c13Measure(t, lc, c, "127.0.0.1", srv0, c13Path(spath.SCION{Raw: c13RawPath(2, 2)}, relay.addr()), time.Second); err != nil {
		t.Fatal(err)
	}
	base, _ := relay.last()

	apc, err := net.ListenPacket("udp", host+":0")
	if err != nil {
		t.Fatal(err)
	}
	app := apc.(*net.UDPConn)
	defer app.Close()
	appPort := uint16(app.LocalAddr().(*net.UDPAddr).Port)
	spc, _ := net.ListenPacket("udp", host+":0")
	snd := spc.(*net.UDPConn)
	defer snd.Close()

	auth := func() *slayers.EndToEndOption {
		d := make([]byte, 28)
		for i := range d {
			d[i] = byte(i + 1)
		}
		return &slayers.EndToEndOption{OptType: slayers.OptTypeAuthenticator, OptData: d, OptAlign: [2]uint8{4, 2}}
	}
	big := func(n int) *slayers.EndToEndOption {
		return &slayers.EndToEndOption{OptType: 99, OptData: make([]byte, n)}
	}
	pld := []byte("0123456789abcdef0123456789abcdef0123456789abcdef")
	dst := netip.MustParseAddr(host)
	seeds := [][]byte{
		c13BuildUDP(t, base, dst, appPort, false, nil, pld),
		c13BuildUDP(t, base, dst, appPort, true, nil, pld),
		c13BuildUDP(t, base, dst, appPort, false, []*slayers.EndToEndOption{auth()}, pld),
		c13BuildUDP(t, base, dst, appPort, true, []*slayers.EndToEndOption{auth()}, pld),
		c13BuildUDP(t, base, dst, appPort, true, []*slayers.EndToEndOption{auth(), big(250), big(250), big(250), big(160)}, pld),
		c13BuildUDP(t, base, dst, appPort, false, []*slayers.EndToEndOption{big(250), big(250), big(250), big(150), auth()}, pld),
		c13BuildUDP(t, base, dst, appPort, false, []*slayers.EndToEndOption{big(250), big(250), big(250), big(255)}, pld),
	}
	recv := func(d time.Duration) []byte {
		_ = app.SetReadDeadline(time.Now().Add(d))
		buf := make([]byte, 65536)
		n, _, err := app.ReadFromUDPAddrPort(buf)
		if err != nil {
			return nil
		}
		return buf[:n]
	}
	check := func(in, out []byte) string {
		_, ie, iu, idec, err := c13Decode(in)
		if err != nil {
			return "input does not decode but was forwarded: " + err.Error()
		}
		_, oe, ou, odec, err := c13Decode(out)
		if err != nil {
			return "output does not decode: " + err.Error()
		}
		if len(odec) < 2 || odec[len(odec)-1] != slayers.LayerTypeSCIONUDP {
			return fmt.Sprintf("output is not UDP: %v", odec)
		}
		if iu.SrcPort != ou.SrcPort || iu.DstPort != ou.DstPort {
			return "ports differ"
		}
		if string(iu.Payload) != string(ou.Payload) {
			return fmt.Sprintf("payload differs: %d vs %d bytes", len(iu.Payload), len(ou.Payload))
		}
		if len(idec) >= 3 && idec[len(idec)-2] == slayers.LayerTypeEndToEndExtn {
			ia, err := ie.FindOption(slayers.OptTypeAuthenticator)
			if err == nil {
				if len(odec) < 3 || odec[len(odec)-2] != slayers.LayerTypeEndToEndExtn {
					return "authenticator lost (no e2e)"
				}
				oa, err := oe.FindOption(slayers.OptTypeAuthenticator)
				if err != nil || string(oa.OptData) != string(ia.OptData) {
					return "authenticator lost or changed"
				}
			}
		}
		return ""
	}
	for i, sd := range seeds {
		_, _ = snd.WriteToUDPAddrPort(sd, srv)
		out := recv(200 * time.Millisecond)
		if out == nil {
			t.Fatalf("seed %d not forwarded", i)
		}
		if msg := check(sd, out); msg != "" {
			t.Errorf("seed %d: %s", i, msg)
		}
		t.Logf("seed %d: %d -> %d bytes", i, len(sd), len(out))
	}
	rng := rand.New(rand.NewSource(15))
	fwd := 0
	for i := 0; i < 40000; i++ {
		m := c13Mutate(rng, seeds[rng.Intn(len(seeds))])
		_, _ = snd.WriteToUDPAddrPort(m, srv)
		out := recv(2 * time.Millisecond)
		if out == nil {
			continue
		}
		fwd++
		if msg := check(m, out); msg != "" {
			// late arrival of an earlier packet? drain and try this input alone
			for recv(50*time.Millisecond) != nil {
			}
			_, _ = snd.WriteToUDPAddrPort(m, srv)
			out = recv(300 * time.Millisecond)
			if out == nil {
				continue
			}
			if msg := check(m, out); msg != "" {
				t.Errorf("iteration %d: %s\nin  %x\nout %x", i, msg, m, out)
				break
			}
		}
	}
	t.Logf("forwarded %d", fwd)
}

func TestC13LongPaths(t *testing.T) {
	for _, host := range []string{"127.0.0.1", "::1"} {
		srv := c13StartServer(t, host, 0, 0, true)
		relay := c13StartRelay(t, host, srv)
		for _, segs := range [][]int{{21, 21, 22}, {63, 1}, {32, 32}, {1}, {1, 1, 1}, {63}, {64}} {
			raw := c13RawPath(segs...)
			lc := &c13LogCapture{}
			c := c13NewClient(lc, true)
			func() {
				defer func() {
					if r := recover(); r != nil {
						t.Logf("%s %v (%d bytes): client panic: %v", host, segs, len(raw), r)
					}
				}()
				off, err := c13Measure(t, lc, c, host, srv, c13Path(spath.SCION{Raw: raw}, relay.addr()), 300*time.Millisecond)
				t.Logf("%s %v (%d bytes): off=%v err=%v auth=%v", host, segs, len(raw), off, err, lc.has("received response auth=true"))
			}()
		}
	}
}

// observation: bytes inserted between the path and the next header (HdrLen
// raised accordingly) do not invalidate the authenticator: spao computes the
// header length it authenticates from the decoded path, not from the field.
func TestC13HdrLenPadding(t *testing.T) {
	host := "127.0.0.1"
	srv := c13StartServer(t, host, 0, 0, true)
	relay := c13StartRelay(t, host, srv)
	lc := &c13LogCapture{}
	c := c13NewClient(lc, true)
	p := c13Path(spath.SCION{Raw: c13RawPath(2, 2)}, relay.addr())
	pad := func(pkt []byte) [][]byte {
		s, _, _, _, err := c13Decode(pkt)
		if err != nil {
			t.Error(err)
			return nil
		}
		h := len(s.Contents)
		m := append([]byte(nil), pkt[:h]...)
		m = append(m, 0xde, 0xad, 0xbe, 0xef, 0xde, 0xad, 0xbe, 0xef)
		m = append(m, pkt[h:]...)
		m[5] += 2
		return [][]byte{m}
	}
	relay.setHooks(pad, pad)
	c13SrvLog.reset()
	c13SrvLog.on.Store(true)
	off, err := c13Measure(t, lc, c, host, srv, p, 300*time.Millisecond)
	c13SrvLog.on.Store(false)
	t.Logf("off=%v err=%v client: %q server: %q", off, err, lc.all(), c13SrvLog.all())
}

// observation: an SCMP echo request followed by bytes beyond the SCION payload
// length is answered with those bytes as part of the echoed payload.
func TestC13SCMPTrailing(t *testing.T) {
	host := "127.0.0.1"
	srv := c13StartServer(t, host, 0, 0, true)
	relay := c13StartRelay(t, host, srv)
	lc := &c13LogCapture{}
	c := c13NewClient(lc, true)
	if _, err := c13Measure(t, lc, c, host, srv, c13Path(spath.SCION{Raw: c13RawPath(2, 2)}, relay.addr()), time.Second); err != nil {
		t.Fatal(err)
	}
	req, _ := relay.last()
	echo := c13SCMP(t, req, slayers.SCMPTypeEchoRequest, false)
	echo = append(echo, []byte("TRAILING")...)
	pc, _ := net.ListenPacket("udp", host+":0")
	conn := pc.(*net.UDPConn)
	defer conn.Close()
	_, _ = conn.WriteToUDPAddrPort(echo, srv)
	_ = conn.SetReadDeadline(time.Now().Add(300 * time.Millisecond))
	buf := make([]byte, 2048)
	n, _, err := conn.ReadFromUDPAddrPort(buf)
	if err != nil {
		t.Fatal(err)
	}
	var s slayers.SCION
	_ = s.DecodeFromBytes(echo, gopacket.NilDecodeFeedback)
	var r slayers.SCION
	_ = r.DecodeFromBytes(buf[:n], gopacket.NilDecodeFeedback)
	t.Logf("request: payload length field %d, bytes behind the header %d; reply: payload length field %d, bytes %d: %q",
		s.PayloadLen, len(s.Payload), r.PayloadLen, len(r.Payload), r.Payload[4:])
}

// client on an IPv4 host address, server on an IPv6 host address
func TestC13MixedFamilies(t *testing.T) {
	srv := c13StartServer(t, "::1", 0, 0, true)
	relay := c13StartRelay(t, "::", srv)
	for name, dp := range map[string]snet.DataplanePath{
		"scion": spath.SCION{Raw: c13RawPath(2, 2)},
		"empty": spath.Empty{},
	} {
		lc := &c13LogCapture{}
		c := c13NewClient(lc, true)
		nh := &net.UDPAddr{IP: net.ParseIP("127.0.0.1"), Port: relay.addr().Port}
		off, err := c13Measure(t, lc, c, "127.0.0.1", srv, c13Path(dp, nh), 300*time.Millisecond)
		t.Logf("%s: off=%v err=%v %q", name, off, err, lc.all())
		req, resp := relay.last()
		t.Logf("req %x", req[:48])
		if resp != nil {
			t.Logf("resp %x", resp[:48])
		}
	}
}

// responses delivered through the end-host-port forwarder (client mode)
func TestC13ViaDispatcher(t *testing.T) {
	cliHost := "127.0.13.9"
	srv := c13StartServer(t, "127.0.0.1", 0, 0, true)
	disp := c13StartServer(t, cliHost, 30041, 30041, false)
	relay := c13StartRelay(t, "127.0.0.1", srv)
	relay.setHooks(nil, func(pkt []byte) [][]byte {
		_, _ = relay.conn.WriteToUDPAddrPort(pkt, disp)
		return nil
	})
	for name, dp := range map[string]snet.DataplanePath{
		"scion": spath.SCION{Raw: c13RawPath(2, 2)},
		"empty": spath.Empty{},
		"onehop": spath.OneHop{Info: path.InfoField{ConsDir: true, SegID: 7, Timestamp: 1},
			FirstHop:  path.HopField{ConsEgress: 5, ExpTime: 63},
			SecondHop: path.HopField{ConsIngress: 9, ExpTime: 63}},
		"epic": &spath.EPIC{AuthPHVF: make([]byte, 16), AuthLHVF: make([]byte, 16), SCION: c13RawPath(2, 2)},
	} {
		lc := &c13LogCapture{}
		c := c13NewClient(lc, true)
		off, err := c13Measure(t, lc, c, cliHost, srv, c13Path(dp, relay.addr()), 300*time.Millisecond)
		t.Logf("%s: off=%v err=%v %q", name, off, err, lc.all())
	}
}

// seven clients of one reference clock sharing one DRKey fetcher, as in timeservice.go
func TestC13SevenClients(t *testing.T) {
	host := "127.0.0.1"
	srv := c13StartServer(t, host, 0, 0, true)
	relay := c13StartRelay(t, host, srv)
	lc := &c13LogCapture{}
	f := scion.NewFetcher(&c13Daemon{})
	var cs []*client.SCIONClient
	for i := 0; i < 7; i++ {
		c := &client.SCIONClient{Log: slog.New(lc), InterleavedMode: true}
		c.Auth.Enabled = true
		c.Auth.DRKeyFetcher = f
		cs = append(cs, c)
	}
	for round := 0; round < 5; round++ {
		var ps []snet.Path
		for i := 0; i < 7; i++ {
			ps = append(ps, spath.Path{Src: c13CliIA, Dst: c13SrvIA,
				DataplanePath: spath.SCION{Raw: c13RawPath(2, 1+i)}, NextHop: relay.addr(),
				Meta: snet.PathMetadata{Interfaces: []snet.PathInterface{{IA: c13CliIA, ID: 1}, {IA: c13SrvIA, ID: iface.ID(2 + i)}}}})
		}
		ctx, cancel := context.WithTimeout(context.Background(), time.Second)
		laddr := udp.UDPAddr{IA: c13CliIA, Host: &net.UDPAddr{IP: net.ParseIP(host)}}
		raddr := udp.UDPAddr{IA: c13SrvIA, Host: net.UDPAddrFromAddrPort(srv)}
		lc.reset()
		_, off, err := client.MeasureClockOffsetSCION(ctx, slog.New(lc), cs, laddr, raddr, ps)
		cancel()
		n := 0
		for _, r := range lc.all() {
			if strings.Contains(r, "received response auth=true") {
				n++
			}
		}
		t.Logf("round %d: off=%v err=%v authenticated responses=%d", round, off, err, n)
	}
}
