//go:build verif

package server

import (
	"context"
	"log/slog"
	"net"
	"testing"
	"time"

	"example.com/scion-time/core/timebase"
	"example.com/scion-time/net/ntp"
	"example.com/scion-time/net/nts"
	"example.com/scion-time/net/ntske"
)

// cookie life cycle against the IP server loop with an ageing provider
func TestC12AuditIPServerLifeCycle(t *testing.T) {
	ctx := context.Background()
	log := slog.New(slog.DiscardHandler)
	provider := ntske.NewProvider()
	pc, err := net.ListenPacket("udp", "127.0.0.1:0")
	if err != nil {
		t.Fatal(err)
	}
	go runIPServer(ctx, log, newIPServerMetrics(), pc.(*net.UDPConn), "", 0, provider)
	saddr := pc.LocalAddr().(*net.UDPAddr)

	c2s := make([]byte, 32)
	s2c := make([]byte, 32)
	for i := range c2s {
		c2s[i] = byte(i)
		s2c[i] = byte(100 + i)
	}
	kedata := ntske.Data{C2sKey: c2s, S2cKey: s2c, Algo: ntske.AES_SIV_CMAC_256}
	msg, err := newNTSKEMsg(ctx, log, saddr.IP, saddr.Port, &kedata, provider)
	if err != nil {
		t.Fatal(err)
	}
	var cookies [][]byte
	for _, r := range msg.Record {
		if c, ok := r.(ntske.Cookie); ok {
			cookies = append(cookies, c.Cookie)
		}
	}
	if len(cookies) != 8 {
		t.Fatalf("%d cookies", len(cookies))
	}

	keyID := func(c []byte) uint16 {
		var ec ntske.EncryptedServerCookie
		if err := ec.Decode(c); err != nil {
			t.Fatal(err)
		}
		return ec.ID
	}

	// exchange sends a request with cookie c and n-1 placeholders; returns new cookies or nil
	exchange := func(c []byte, have int) [][]byte {
		conn, err := net.DialUDP("udp", nil, saddr)
		if err != nil {
			t.Fatal(err)
		}
		defer conn.Close()
		d := kedata
		d.Cookie = make([][]byte, have)
		d.Cookie[0] = c
		var req ntp.Packet
		req.SetVersion(ntp.VersionMax)
		req.SetMode(ntp.ModeClient)
		req.TransmitTime = ntp.Time64FromTime(timebase.Now())
		var buf []byte
		ntp.EncodePacket(&buf, &req)
		ntsreq, id := nts.NewRequestPacket(d)
		nts.EncodePacket(&buf, &ntsreq)
		if _, err := conn.Write(buf); err != nil {
			t.Fatal(err)
		}
		conn.SetReadDeadline(time.Now().Add(500 * time.Millisecond))
		rb := make([]byte, 2048)
		n, err := conn.Read(rb)
		if err != nil {
			return nil
		}
		rb = rb[:n]
		var resp nts.Packet
		if err := nts.DecodePacket(&resp, rb); err != nil {
			t.Fatalf("decode: %v", err)
		}
		var f ntske.Fetcher
		if err := nts.ProcessResponse(rb, s2c, &f, &resp, id); err != nil {
			t.Fatalf("process: %v", err)
		}
		var out [][]byte
		for _, c := range resp.Cookies {
			out = append(out, c.Cookie)
		}
		return out
	}

	day := 24 * time.Hour
	// t = 0: key 1
	if keyID(cookies[0]) != 1 {
		t.Fatalf("key id %d", keyID(cookies[0]))
	}
	// age 24h - 1s : Current must still be key 1; a cookie issued now must live 2 days
	provider.VerifAge(day - time.Second)
	nc := exchange(cookies[0], 1)
	if len(nc) != 8 {
		t.Fatalf("t=24h-1s: %d cookies", len(nc))
	}
	lateCookie := nc[0]
	t.Logf("cookie issued at 24h-1s has key id %d", keyID(lateCookie))
	// age to issue + 2 days - 2s
	provider.VerifAge(2*day - 2*time.Second)
	nc2 := exchange(lateCookie, 8)
	if len(nc2) != 1 {
		t.Fatalf("cookie not usable 2 days - 2 s after it was issued (%d cookies)", len(nc2))
	}
	t.Logf("cookie returned at ~3d-3s has key id %d", keyID(nc2[0]))
	if keyID(nc2[0]) == keyID(lateCookie) {
		t.Fatalf("new cookie sealed with a key older than 24h")
	}
	// beyond 3 days after generation of key 1
	provider.VerifAge(4 * time.Second)
	if r := exchange(lateCookie, 8); r != nil {
		t.Fatalf("cookie usable beyond 3 days after its key was generated")
	}
	if r := exchange(cookies[1], 8); r != nil {
		t.Fatalf("cookie usable beyond 3 days after its key was generated")
	}
	// the one sealed with the new key works
	if r := exchange(nc2[0], 8); len(r) != 1 {
		t.Fatalf("fresh cookie refused")
	}
	// long idle gap
	provider.VerifAge(30 * day)
	if r := exchange(nc2[0], 8); r != nil {
		t.Fatalf("cookie usable after 30 days")
	}
	msg, err = newNTSKEMsg(ctx, log, saddr.IP, saddr.Port, &kedata, provider)
	if err != nil {
		t.Fatal(err)
	}
	for _, r := range msg.Record {
		if c, ok := r.(ntske.Cookie); ok {
			if id := keyID(c.Cookie); id != 3 {
				t.Fatalf("key id after gap: %d", id)
			}
			if r := exchange(c.Cookie, 8); len(r) != 1 {
				t.Fatalf("fresh cookie refused after gap")
			}
			break
		}
	}
	for _, k := range provider.VerifKeys() {
		t.Logf("key %d", k.ID)
	}
}
