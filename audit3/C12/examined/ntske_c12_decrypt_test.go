package ntske

import "testing"

func TestC12AuditDecryptShort(t *testing.T) {
	p := NewProvider()
	k := p.Current()
	for n := 0; n < 40; n++ {
		ec := EncryptedServerCookie{ID: 1, Nonce: make([]byte, 16), Ciphertext: make([]byte, n)}
		var d EncryptedServerCookie
		if err := d.Decode(ec.Encode()); err != nil {
			t.Fatal(err)
		}
		_, err := d.Decrypt(k.Value)
		if err == nil {
			t.Fatalf("n=%d decrypted", n)
		}
	}
	// plaintext cookie with odd TLVs sealed under the real key
	for _, pt := range [][]byte{{}, {1, 1, 0, 2, 0, 15}, {1, 1, 0, 2, 0, 15, 2, 1, 0, 0, 3, 1, 0, 0}} {
		sc := ServerCookie{}
		_ = sc
		var c ServerCookie
		err := c.Decode(pt)
		t.Logf("%v -> %v %+v", pt, err, c)
	}
}
