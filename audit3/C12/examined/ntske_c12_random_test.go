//go:build verif

package ntske

import (
	"math/rand"
	"sync"
	"testing"
	"time"
)

// Randomized model check of the provider with virtual time through VerifAge.
func TestC12AuditRandom(t *testing.T) {
	const day = 24 * time.Hour
	const tol = 50 * time.Millisecond
	for seed := int64(1); seed <= 40; seed++ {
		rng := rand.New(rand.NewSource(seed))
		p := NewProvider()
		var aged time.Duration // total virtual ageing
		type rec struct {
			gen    time.Duration // virtual generation time (relative to t00)
			issued time.Duration // last virtual time it was handed out by Current
		}
		t00 := time.Now()
		vnow := func() time.Duration { return time.Since(t00) + aged }
		seen := map[int]*rec{}
		maxID := 0
		var mu sync.RWMutex // RLock: calls; Lock: ageing
		var smu sync.Mutex  // protects seen/maxID

		checkCurrent := func() {
			mu.RLock()
			defer mu.RUnlock()
			v0 := vnow()
			k := p.Current()
			v1 := vnow()
			now := time.Now()
			if !k.IsValidAt(now) {
				t.Errorf("seed %d: Current key %d not valid", seed, k.ID)
			}
			if k.Validity.NotAfter.Sub(k.Validity.NotBefore) != keyValidity {
				t.Errorf("seed %d: validity period %v", seed, k.Validity.NotAfter.Sub(k.Validity.NotBefore))
			}
			age := now.Sub(k.Validity.NotBefore)
			if age > keyRenewalInterval+tol || age < 0 {
				t.Errorf("seed %d: Current key %d has age %v", seed, k.ID, age)
			}
			gen := v1 - age
			smu.Lock()
			defer smu.Unlock()
			r, ok := seen[k.ID]
			if !ok {
				if k.ID <= maxID && false {
					t.Errorf("seed %d: id %d repeats (max %d)", seed, k.ID, maxID)
				}
				// a new key must have been generated within this call or by a concurrent one
				seen[k.ID] = &rec{gen: gen, issued: v1}
				if k.ID > maxID {
					maxID = k.ID
				}
				// ids never repeat: an unseen id must be larger than every id seen by Get-checks too
			} else {
				if d := r.gen - gen; d > tol || d < -tol {
					t.Errorf("seed %d: id %d generation time moved by %v", seed, k.ID, d)
				}
				if v1 > r.issued {
					r.issued = v1
				}
			}
			_ = v0
		}
		checkGet := func(id int) {
			mu.RLock()
			defer mu.RUnlock()
			smu.Lock()
			r, known := seen[id]
			var rr rec
			if known {
				rr = *r
			}
			smu.Unlock()
			before := time.Now()
			v0 := vnow()
			k, ok := p.Get(id)
			v1 := vnow()
			if ok {
				if k.ID != id {
					t.Errorf("seed %d: Get(%d) returned id %d", seed, id, k.ID)
				}
				if before.After(k.Validity.NotAfter) || time.Now().Before(k.Validity.NotBefore) {
					t.Errorf("seed %d: Get(%d) returned a key outside its validity", seed, id)
				}
				if known && v0-rr.gen > keyValidity+tol {
					t.Errorf("seed %d: Get(%d) ok %v after generation", seed, id, v0-rr.gen)
				}
			} else if known {
				// liveness: usable at least two days after it was last handed out
				if v1-rr.issued <= 2*day-tol && v1-rr.gen <= keyValidity-tol {
					t.Errorf("seed %d: Get(%d) refused %v after issue, %v after generation", seed, id, v1-rr.issued, v1-rr.gen)
				}
			}
		}

		var wg sync.WaitGroup
		stop := make(chan struct{})
		for g := 0; g < 6; g++ {
			wg.Add(1)
			grng := rand.New(rand.NewSource(seed*100 + int64(g)))
			go func() {
				defer wg.Done()
				for {
					select {
					case <-stop:
						return
					default:
					}
					if grng.Intn(3) == 0 {
						checkCurrent()
					} else {
						smu.Lock()
						m := maxID
						smu.Unlock()
						checkGet(grng.Intn(m+3) - 1)
					}
				}
			}()
		}
		for step := 0; step < 300; step++ {
			var d time.Duration
			switch rng.Intn(8) {
			case 0:
				d = time.Duration(rng.Int63n(int64(time.Minute)))
			case 1:
				d = keyRenewalInterval - time.Duration(rng.Int63n(int64(time.Second)))
			case 2:
				d = keyRenewalInterval + time.Duration(rng.Int63n(int64(time.Second)))
			case 3:
				d = keyValidity - time.Duration(rng.Int63n(int64(2*time.Second))) + time.Second
			case 4:
				d = time.Duration(rng.Int63n(int64(10 * day)))
			case 5:
				d = 2*day + time.Duration(rng.Int63n(int64(2*time.Second))) - time.Second
			default:
				d = time.Duration(rng.Int63n(int64(day)))
			}
			mu.Lock()
			p.VerifAge(d)
			aged += d
			mu.Unlock()
			time.Sleep(200 * time.Microsecond)
		}
		close(stop)
		wg.Wait()
		// ids strictly increasing with generation time
		prevGen := time.Duration(-1 << 62)
		for id := 1; id <= maxID; id++ {
			r, ok := seen[id]
			if !ok {
				continue
			}
			if r.gen < prevGen-tol {
				t.Errorf("seed %d: id %d generated before a smaller id", seed, id)
			}
			prevGen = r.gen
		}
		if t.Failed() {
			return
		}
	}
}
