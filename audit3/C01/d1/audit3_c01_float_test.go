package sync

// Audit round 3, property C01, finding d1: the per-round bound is enforced in
// float64 and lets corrections above impact factor x drift x interval through
// once the cap is above 2^53 ns.
//
// Place in core/sync/ and run
//   go test ./core/sync/ -run TestAudit3C01FloatClamp -count=1 -v

import (
	"context"
	"io"
	"log/slog"
	"math/big"
	"runtime"
	"testing"
	"time"

	"github.com/prometheus/client_golang/prometheus"

	"example.com/scion-time/core/client"
)

type a3Clk struct {
	drift time.Duration
	done  chan struct{}
}

func (c *a3Clk) Epoch() uint64                                { return 0 }
func (c *a3Clk) Now() time.Time                               { return time.Unix(0, 0) }
func (c *a3Clk) Drift(time.Duration) time.Duration            { return c.drift }
func (c *a3Clk) Step(time.Duration)                           { panic("Step") }
func (c *a3Clk) Adjust(time.Duration, time.Duration, float64) { panic("Adjust") }
func (c *a3Clk) Sleep(time.Duration) {
	// end of the first round: stop sync.Run
	close(c.done)
	runtime.Goexit()
}

type a3Adj struct{ corrs []time.Duration }

func (a *a3Adj) Do(d time.Duration) { a.corrs = append(a.corrs, d) }

type a3Ref struct{ off time.Duration }

func (r *a3Ref) MeasureClockOffset(context.Context) (time.Time, time.Duration, error) {
	return time.Unix(1, 0), r.off, nil
}

// one round of sync.Run with one reference clock (and optionally one peer)
func a3Round(cfg Config, drift time.Duration, ref time.Duration, peer *time.Duration) []time.Duration {
	prometheus.DefaultRegisterer = prometheus.NewRegistry() // Run registers a gauge
	clk := &a3Clk{drift: drift, done: make(chan struct{})}
	adj := &a3Adj{}
	refs := []client.ReferenceClock{&a3Ref{off: ref}}
	var peers []client.ReferenceClock
	if peer != nil {
		peers = []client.ReferenceClock{&a3Ref{off: *peer}}
	}
	go Run(slog.New(slog.NewTextHandler(io.Discard, nil)), cfg, clk, adj, refs, peers)
	<-clk.done
	return adj.corrs
}

func TestAudit3C01FloatClamp(t *testing.T) {
	type tc struct {
		name        string
		refF, peerF float64
		drift       time.Duration // drift of one sync interval, as clk.Drift reports it
		ref         time.Duration // offset the reference clock reports
	}
	cases := []tc{
		// (a) cap = 2 x 2^52 = 2^53 ns exactly; the offset 2^53+1 is converted to
		// float64 for the comparison, becomes 2^53, is "not above the cap" and
		// is handed on unclamped
		{"comparison rounds the offset down to the cap", 2, 4, 1 << 52, 1<<53 + 1},
		{"same, negative", 2, 4, 1 << 52, -(1<<53 + 1)},
		// (b) same with the default impact factors, cap 1.25 x 2^62 = 5764607523034234880
		{"default factors, offset 511 ns above the cap", 1.25, 2.5, 1 << 62, 5764607523034234880 + 511},
		// (c) the cap itself is rounded up: 1.0777056061838668 x 70479135266394840
		// = 75955759195584795.07..., float64 product 75955759195584800
		{"cap rounded up by the float64 product", 1.0777056061838668, 3.0700357475823012,
			70479135266394840, 1 << 62},
		// (d) drift above 2^53 ns is rounded up when converted to float64:
		// 1.25 x (2^53+3) = 11258999068426243.75, code uses 1.25 x (2^53+4)
		{"drift rounded up by the conversion to float64", 1.25, 2.5, 1<<53 + 3, 1 << 62},
	}
	for _, c := range cases {
		cfg := Config{ReferenceClockImpact: c.refF, PeerClockImpact: c.peerF,
			PeerClockCutoff: 50 * time.Microsecond,
			SyncTimeout:     time.Second, SyncInterval: 2 * time.Second}
		corrs := a3Round(cfg, c.drift, c.ref, nil)
		if len(corrs) != 1 {
			t.Fatalf("%s: %d corrections in one round", c.name, len(corrs))
		}
		// exact bound: impact factor x drift of the interval
		bound := new(big.Rat).Mul(new(big.Rat).SetFloat64(c.refF), new(big.Rat).SetInt64(int64(c.drift)))
		got := new(big.Rat).SetInt64(int64(corrs[0]))
		got.Abs(got)
		excess := new(big.Rat).Sub(got, bound)
		if excess.Sign() > 0 {
			t.Errorf("%s: reference factor %v, drift of the interval %d ns, reference clock at %d ns: "+
				"correction %d ns exceeds the bound %s ns by %s ns",
				c.name, c.refF, int64(c.drift), int64(c.ref), int64(corrs[0]),
				bound.FloatString(3), excess.FloatString(3))
		} else {
			t.Logf("%s: correction %d within bound %s", c.name, int64(corrs[0]), bound.FloatString(3))
		}
	}

	// (e) both contribute: the unclamped reference value enters the midpoint
	cfg := Config{ReferenceClockImpact: 1.25, PeerClockImpact: 2.5,
		PeerClockCutoff: 50 * time.Microsecond,
		SyncTimeout:     time.Second, SyncInterval: 2 * time.Second}
	drift := time.Duration(1 << 61)                 // ref cap 1.25 x 2^61 = 2882303761517117440, peer cap 2^62 + 2^60
	ref := time.Duration(2882303761517117440 + 255) // 255 ns above the reference cap
	peer := time.Duration(-(1 << 62))               // peers {-2^62, local 0} -> peer offset -2^61: within the peer cap
	corrs := a3Round(cfg, drift, ref, &peer)
	if len(corrs) != 1 {
		t.Fatalf("midpoint: %d corrections in one round", len(corrs))
	}
	// stated result: midpoint(+refCap, -2^61)
	want := (int64(2882303761517117440) + -(1 << 61)) / 2
	if int64(corrs[0]) != want {
		t.Errorf("midpoint: reference clock 255 ns above its cap %d, peer offset %d: correction %d, "+
			"midpoint of the bounded values is %d", int64(2882303761517117440), -(int64(1) << 61), int64(corrs[0]), want)
	}
}
