package client

// Audit round 3, property C05: the SCION client accepts a response whose
// SCION/UDP source port is not the port that was queried (sibling of the IP
// repair 0fb4ba6), and one whose SCION/UDP destination port is not the
// client's port.

import (
	"context"
	"log/slog"
	"net"
	"net/netip"
	"testing"
	"time"

	"github.com/google/gopacket"

	"github.com/scionproto/scion/pkg/addr"
	"github.com/scionproto/scion/pkg/slayers"
	"github.com/scionproto/scion/pkg/snet"
	spath "github.com/scionproto/scion/pkg/snet/path"

	"example.com/scion-time/net/ntp"
	"example.com/scion-time/net/udp"
)

// audit3SCIONResponder reads one SCION/UDP NTP request from conn and answers it
// like a server would, except that mutate is applied to the response layers
// before they are serialized.
func audit3SCIONResponder(t *testing.T, conn *net.UDPConn,
	mutate func(s *slayers.SCION, u *slayers.UDP, p *ntp.Packet)) {
	buf := make([]byte, 2048)
	n, from, err := conn.ReadFromUDPAddrPort(buf)
	if err != nil {
		t.Errorf("responder: read: %v", err)
		return
	}
	rxt := time.Now().UTC()
	buf = buf[:n]
	var (
		scionLayer slayers.SCION
		udpLayer   slayers.UDP
	)
	parser := gopacket.NewDecodingLayerParser(slayers.LayerTypeSCION, &scionLayer, &udpLayer)
	parser.IgnoreUnsupported = true
	decoded := make([]gopacket.LayerType, 4)
	err = parser.DecodeLayers(buf, &decoded)
	if err != nil {
		t.Errorf("responder: decode: %v", err)
		return
	}
	var req ntp.Packet
	err = ntp.DecodePacket(&req, udpLayer.Payload)
	if err != nil {
		t.Errorf("responder: decode NTP: %v", err)
		return
	}

	var resp ntp.Packet
	resp.SetVersion(4)
	resp.SetMode(ntp.ModeServer)
	resp.SetLeapIndicator(ntp.LeapIndicatorNoWarning)
	resp.Stratum = 1
	resp.OriginTime = req.TransmitTime
	// a server whose clock is 1000 s ahead
	resp.ReceiveTime = ntp.Time64FromTime(rxt.Add(1000 * time.Second))
	resp.TransmitTime = ntp.Time64FromTime(time.Now().UTC().Add(1000 * time.Second))

	scionLayer.DstIA, scionLayer.SrcIA = scionLayer.SrcIA, scionLayer.DstIA
	scionLayer.DstAddrType, scionLayer.SrcAddrType = scionLayer.SrcAddrType, scionLayer.DstAddrType
	scionLayer.RawDstAddr, scionLayer.RawSrcAddr = scionLayer.RawSrcAddr, scionLayer.RawDstAddr
	scionLayer.Path, err = scionLayer.Path.Reverse()
	if err != nil {
		t.Errorf("responder: reverse: %v", err)
		return
	}
	scionLayer.NextHdr = slayers.L4UDP
	udpLayer.DstPort, udpLayer.SrcPort = udpLayer.SrcPort, udpLayer.DstPort

	mutate(&scionLayer, &udpLayer, &resp)

	var pld []byte
	ntp.EncodePacket(&pld, &resp)
	udpLayer.SetNetworkLayerForChecksum(&scionLayer)
	buffer := gopacket.NewSerializeBuffer()
	options := gopacket.SerializeOptions{ComputeChecksums: true, FixLengths: true}
	err = gopacket.SerializeLayers(buffer, options, &scionLayer, &udpLayer, gopacket.Payload(pld))
	if err != nil {
		t.Errorf("responder: serialize: %v", err)
		return
	}
	_, err = conn.WriteToUDPAddrPort(buffer.Bytes(), from)
	if err != nil {
		t.Errorf("responder: write: %v", err)
	}
}

func audit3MeasureSCION(t *testing.T,
	mutate func(s *slayers.SCION, u *slayers.UDP, p *ntp.Packet)) (time.Time, time.Duration, error) {
	srv, err := net.ListenUDP("udp", &net.UDPAddr{IP: net.IPv4(127, 0, 0, 1)})
	if err != nil {
		t.Fatal(err)
	}
	defer srv.Close()
	_ = srv.SetDeadline(time.Now().Add(2 * time.Second))
	srvPort := srv.LocalAddr().(*net.UDPAddr).Port

	ia := addr.MustParseIA("1-ff00:0:110")
	localAddr := udp.UDPAddr{IA: ia, Host: &net.UDPAddr{IP: net.IPv4(127, 0, 0, 1).To4()}}
	remoteAddr := udp.UDPAddr{IA: ia, Host: &net.UDPAddr{IP: net.IPv4(127, 0, 0, 1).To4(), Port: srvPort}}
	var p snet.Path = spath.Path{
		Src:           ia,
		Dst:           ia,
		DataplanePath: spath.Empty{},
		NextHop:       &net.UDPAddr{IP: net.IPv4(127, 0, 0, 1).To4(), Port: srvPort},
	}

	done := make(chan struct{})
	go func() {
		defer close(done)
		audit3SCIONResponder(t, srv, mutate)
	}()

	c := &SCIONClient{Log: slog.New(slog.DiscardHandler)}
	ctx, cancel := context.WithTimeout(context.Background(), time.Second)
	defer cancel()
	ts, off, err := MeasureClockOffsetSCION(ctx, slog.New(slog.DiscardHandler),
		[]*SCIONClient{c}, localAddr, remoteAddr, []snet.Path{p})
	<-done
	return ts, off, err
}

func TestAudit3SCIONResponsePorts(t *testing.T) {
	// control: the unchanged response is accepted
	_, off, err := audit3MeasureSCION(t, func(*slayers.SCION, *slayers.UDP, *ntp.Packet) {})
	if err != nil || off < 999*time.Second || off > 1001*time.Second {
		t.Fatalf("control: genuine response not accepted: off=%v err=%v", off, err)
	}
	t.Logf("control: genuine response accepted, offset %v", off)

	// control: a response from another host of the queried AS is rejected
	_, off, err = audit3MeasureSCION(t, func(s *slayers.SCION, u *slayers.UDP, p *ntp.Packet) {
		_ = s.SetSrcAddr(addr.HostIP(netip.MustParseAddr("127.0.0.9")))
	})
	if err == nil {
		t.Fatalf("control: response from another host accepted: off=%v", off)
	}
	t.Logf("control: response from another host rejected: %v", err)

	// the only datagram comes from another SCION/UDP port of the server's host
	// (the queried port stays silent)
	_, off, err = audit3MeasureSCION(t, func(s *slayers.SCION, u *slayers.UDP, p *ntp.Packet) {
		u.SrcPort ^= 0x5555
	})
	if err == nil {
		t.Errorf("VIOLATION: response from another SCION/UDP port of the server's host accepted: offset %v", off)
	} else {
		t.Logf("response from another port rejected: %v", err)
	}

	// the only datagram is addressed to another SCION/UDP port than the client's
	_, off, err = audit3MeasureSCION(t, func(s *slayers.SCION, u *slayers.UDP, p *ntp.Packet) {
		u.DstPort ^= 0x5555
	})
	if err == nil {
		t.Errorf("VIOLATION: response addressed to another SCION/UDP port than the client's accepted: offset %v", off)
	} else {
		t.Logf("response to another port rejected: %v", err)
	}
}
