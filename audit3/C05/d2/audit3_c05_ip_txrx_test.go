package client

// Audit round 3, property C05: "a transmit time not before its receive time"
// is checked on the timestamps after their conversion to time.Time, which
// truncates the 2^-32 s fraction to whole nanoseconds: a response whose
// transmit timestamp lies before its receive timestamp by less than a
// nanosecond is accepted and yields an offset (IP and SCION client alike).

import (
	"context"
	"log/slog"
	"net"
	"testing"
	"time"

	"example.com/scion-time/net/ntp"
)

func audit3MeasureIP(t *testing.T, c *IPClient, mutate func(req, resp *ntp.Packet)) (time.Time, time.Duration, error) {
	srv, err := net.ListenUDP("udp", &net.UDPAddr{IP: net.IPv4(127, 0, 0, 1)})
	if err != nil {
		t.Fatal(err)
	}
	defer srv.Close()
	_ = srv.SetDeadline(time.Now().Add(2 * time.Second))
	done := make(chan struct{})
	go func() {
		defer close(done)
		buf := make([]byte, 2048)
		n, from, err := srv.ReadFromUDPAddrPort(buf)
		if err != nil {
			t.Errorf("responder: read: %v", err)
			return
		}
		rxt := time.Now().UTC()
		var req ntp.Packet
		err = ntp.DecodePacket(&req, buf[:n])
		if err != nil {
			t.Errorf("responder: decode: %v", err)
			return
		}
		var resp ntp.Packet
		resp.SetVersion(4)
		resp.SetMode(ntp.ModeServer)
		resp.SetLeapIndicator(ntp.LeapIndicatorNoWarning)
		resp.Stratum = 1
		resp.OriginTime = req.TransmitTime
		resp.ReceiveTime = ntp.Time64FromTime(rxt)
		resp.TransmitTime = ntp.Time64FromTime(time.Now().UTC())
		mutate(&req, &resp)
		var b []byte
		ntp.EncodePacket(&b, &resp)
		_, err = srv.WriteToUDPAddrPort(b, from)
		if err != nil {
			t.Errorf("responder: write: %v", err)
		}
	}()
	ctx, cancel := context.WithTimeout(context.Background(), time.Second)
	defer cancel()
	localAddr := &net.UDPAddr{IP: net.IPv4(127, 0, 0, 1)}
	remoteAddr := &net.UDPAddr{IP: net.IPv4(127, 0, 0, 1), Port: srv.LocalAddr().(*net.UDPAddr).Port}
	ts, off, err := MeasureClockOffsetIP(ctx, slog.New(slog.DiscardHandler), c, localAddr, remoteAddr)
	<-done
	return ts, off, err
}

func TestAudit3IPTransmitBeforeReceiveSubNanosecond(t *testing.T) {
	newClient := func() *IPClient { return &IPClient{Log: slog.New(slog.DiscardHandler)} }

	// control: a genuine response is accepted
	_, off, err := audit3MeasureIP(t, newClient(), func(req, resp *ntp.Packet) {})
	if err != nil {
		t.Fatalf("control: genuine response rejected: %v", err)
	}
	t.Logf("control: genuine response accepted, offset %v", off)

	// control: transmit one second before receive is rejected
	_, off, err = audit3MeasureIP(t, newClient(), func(req, resp *ntp.Packet) {
		resp.TransmitTime = resp.ReceiveTime
		resp.TransmitTime.Seconds--
	})
	if err == nil {
		t.Fatalf("control: transmit 1 s before receive accepted, offset %v", off)
	}
	t.Logf("control: transmit 1 s before receive rejected: %v", err)

	// transmit timestamp before the receive timestamp by one to three units
	// of 2^-32 s (both within the same nanosecond)
	var rx, tx ntp.Time64
	_, off, err = audit3MeasureIP(t, newClient(), func(req, resp *ntp.Packet) {
		// fractions 0x80000003 .. 0x80000000 all convert to 500000000 ns
		resp.ReceiveTime.Fraction = 0x80000003
		resp.TransmitTime = resp.ReceiveTime
		resp.TransmitTime.Fraction = 0x80000000
		rx, tx = resp.ReceiveTime, resp.TransmitTime
	})
	if !tx.Before(rx) {
		t.Fatalf("test setup: transmit %v not before receive %v", tx, rx)
	}
	if err == nil {
		t.Errorf("VIOLATION: response with transmit timestamp %08x.%08x before receive timestamp %08x.%08x accepted, offset %v",
			tx.Seconds, tx.Fraction, rx.Seconds, rx.Fraction, off)
	} else {
		t.Logf("rejected: %v", err)
	}
}
