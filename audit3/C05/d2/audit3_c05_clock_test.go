package client

// Test clock for the audit-3 tests of property C05: reads the system time and
// never touches the machine's clock.

import (
	"time"

	"example.com/scion-time/core/timebase"
)

type audit3Clock struct{}

func (audit3Clock) Epoch() uint64                                { return 0 }
func (audit3Clock) Now() time.Time                               { return time.Now().UTC() }
func (audit3Clock) Drift(time.Duration) time.Duration            { return 0 }
func (audit3Clock) Step(time.Duration)                           {}
func (audit3Clock) Adjust(time.Duration, time.Duration, float64) {}
func (audit3Clock) Sleep(d time.Duration)                        { time.Sleep(d) }

func init() {
	timebase.RegisterClock(audit3Clock{})
}
