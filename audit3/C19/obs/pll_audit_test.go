package adjustments

import (
	"io"
	"log/slog"
	"math"
	"math/rand"
	"testing"
	"time"
)

type fakeClk struct {
	epoch   uint64
	now     time.Time
	steps   []time.Duration
	adjs    [][3]float64
	adjOff  []time.Duration
	adjDur  []time.Duration
	bumpOnStep bool
}

func (c *fakeClk) Epoch() uint64                      { return c.epoch }
func (c *fakeClk) Now() time.Time                     { return c.now }
func (c *fakeClk) Drift(time.Duration) time.Duration  { return 0 }
func (c *fakeClk) Sleep(time.Duration)                {}
func (c *fakeClk) Step(o time.Duration) {
	c.steps = append(c.steps, o)
	if c.bumpOnStep {
		c.epoch++
	}
}
func (c *fakeClk) Adjust(o, d time.Duration, f float64) {
	c.adjOff = append(c.adjOff, o)
	c.adjDur = append(c.adjDur, d)
	c.adjs = append(c.adjs, [3]float64{float64(o), float64(d), f})
}

func TestAuditRandom(t *testing.T) {
	log := slog.New(slog.NewTextHandler(io.Discard, nil))
	gaps := []time.Duration{0, 1, 999999999, time.Second, time.Second + 1, 2 * time.Second, 2*time.Second + 1, 6 * time.Second, 6*time.Second + 1, 300 * time.Second, 301 * time.Second, 8 * time.Hour, 1 << 60}
	offs := []time.Duration{0, 1, -1, time.Millisecond, time.Millisecond + 1, -time.Millisecond, -time.Millisecond - 1, time.Second, -time.Second, math.MaxInt64, math.MinInt64, math.MinInt64 + 1, 499999, 500000, 500001, 16666666, 16666667, 17 * time.Millisecond}
	ws := []float64{0, 3, 3.0000001, 4, 49, 50, 149, 150, 1e9, math.Inf(1), math.Inf(-1), math.NaN(), -5}
	for seed := int64(0); seed < 20000; seed++ {
		r := rand.New(rand.NewSource(seed))
		c := &fakeClk{now: time.Unix(1700000000, 0).UTC(), bumpOnStep: r.Intn(2) == 0, epoch: uint64(r.Intn(2))}
		l := NewPLL(log, c)
		// model
		state := 0 // 0: no update in epoch yet, 1: awaiting step, 2: done initial step
		var tFirst time.Time
		var lastT time.Time
		curEpoch := c.epoch
		first := true
		for i := 0; i < 60; i++ {
			g := gaps[r.Intn(len(gaps))]
			if r.Intn(3) == 0 {
				g = time.Duration(r.Int63n(int64(10 * time.Second)))
			}
			c.now = c.now.Add(g)
			if r.Intn(15) == 0 {
				c.epoch++
			}
			o := offs[r.Intn(len(offs))]
			if r.Intn(3) == 0 {
				o = time.Duration(r.Int63n(int64(100*time.Millisecond))) - 50*time.Millisecond
			}
			w := ws[r.Intn(len(ws))]
			ns, na := len(c.steps), len(c.adjs)
			if first || c.epoch != curEpoch {
				state = 0
				curEpoch = c.epoch
				first = false
			}
			epochBefore := c.epoch
			l.Do(o, w)
			stepped := len(c.steps) > ns
			adjusted := len(c.adjs) > na
			if len(c.steps) > ns+1 || len(c.adjs) > na+1 {
				t.Fatalf("seed %d i %d: multiple actuations", seed, i)
			}
			switch state {
			case 0:
				if stepped || adjusted {
					t.Fatalf("seed %d i %d: actuation at first update of epoch", seed, i)
				}
				tFirst = c.now
				state = 1
			case 1:
				q := c.now.Sub(tFirst) > 2*time.Second && w > 3
				if q {
					want := o > time.Millisecond || o < -time.Millisecond
					if stepped != want {
						t.Fatalf("seed %d i %d: step=%v want %v (o=%v)", seed, i, stepped, want, o)
					}
					if stepped && c.steps[ns] != o {
						t.Fatalf("seed %d i %d: step %v != %v", seed, i, c.steps[ns], o)
					}
					state = 2
				} else if stepped {
					t.Fatalf("seed %d i %d: unqualified step", seed, i)
				}
				if adjusted {
					t.Fatalf("seed %d i %d: adjust while awaiting step", seed, i)
				}
			case 2:
				if stepped {
					t.Fatalf("seed %d i %d: step after initial step", seed, i)
				}
			}
			if adjusted {
				off, dur, f := c.adjOff[na], c.adjDur[na], c.adjs[na][2]
				if dur <= 0 {
					t.Fatalf("seed %d i %d: dur %v gap %v", seed, i, dur, g)
				}
				if math.IsNaN(f) || math.IsInf(f, 0) {
					t.Fatalf("seed %d i %d: freq %v", seed, i, f)
				}
				el := c.now.Sub(lastT)
				whole := (el + time.Second - 1) / time.Second
				if dur != whole*time.Second {
					t.Fatalf("seed %d i %d: dur %v elapsed %v", seed, i, dur, el)
				}
				lim := time.Duration(whole) * 500 * time.Microsecond
				if off > lim || off < -lim {
					t.Fatalf("seed %d i %d: off %v lim %v", seed, i, off, lim)
				}
				// direction
				if (o > 0 && off < 0) || (o < 0 && off > 0) {
					t.Fatalf("seed %d i %d: direction o=%v off=%v", seed, i, o, off)
				}
			}
			_ = epochBefore
			lastT = c.now
		}
	}
}
