package clocks

import (
	"io"
	"log/slog"
	"math"
	"os"
	"testing"
	"time"

	"golang.org/x/sys/unix"
)

func canary(t *testing.T) {
	tx := unix.Timex{Modes: unix.ADJ_SETOFFSET | unix.ADJ_NANO, Time: unix.Timeval{Sec: 0, Usec: 2000000000}}
	_, err := unix.ClockAdjtime(unix.CLOCK_REALTIME, &tx)
	if err != nil {
		t.Skip("not under strace injection")
	}
}

func mark(n int64) {
	// marker visible in strace: ADJ_SETOFFSET|ADJ_NANO with usec = 2000000000+n
	tx := unix.Timex{Modes: unix.ADJ_SETOFFSET | unix.ADJ_NANO, Time: unix.Timeval{Sec: 0, Usec: 2000000000 + n}}
	unix.ClockAdjtime(unix.CLOCK_REALTIME, &tx)
}

func TestAuditDriver(t *testing.T) {
	canary(t)
	log := slog.New(slog.NewTextHandler(os.Stderr, &slog.HandlerOptions{Level: slog.LevelDebug}))
	_ = io.Discard
	c := NewSystemClock(log, 0)
	mark(1) // A: plain adjust
	c.Adjust(300*time.Microsecond, time.Second, 10e-6)
	time.Sleep(1500 * time.Millisecond)
	mark(2) // B: adjust then step
	c.Adjust(-300*time.Microsecond, 2*time.Second, 20e-6)
	time.Sleep(500 * time.Millisecond)
	c.Step(-1)
	time.Sleep(2500 * time.Millisecond)
	mark(3) // C: adjust replaced by adjust
	c.Adjust(100*time.Microsecond, time.Second, 30e-6)
	time.Sleep(300 * time.Millisecond)
	c.Adjust(200*time.Microsecond, 2*time.Second, 40e-6)
	time.Sleep(2500 * time.Millisecond)
	mark(4) // D: sub-second durations
	c.Adjust(100*time.Microsecond, 1900*time.Millisecond, 0)
	time.Sleep(1200 * time.Millisecond)
	c.Adjust(100*time.Microsecond, 1, 0)
	time.Sleep(1200 * time.Millisecond)
	mark(5) // E: extremes
	c.Step(math.MinInt64)
	c.Step(math.MaxInt64)
	c.Step(-1000000001)
	c.Adjust(0, time.Second, 1.5e8)
	c.Adjust(0, time.Second, -1.5e8)
	c.Adjust(0, time.Second, 500e-6)
	time.Sleep(1200 * time.Millisecond)
	mark(6)
}
