package adjustments

import (
	"io"
	"log/slog"
	"math"
	"testing"
	"time"

	"example.com/scion-time/base/unixutil"
)

func TestAuditWindup(t *testing.T) {
	log := slog.New(slog.NewTextHandler(io.Discard, nil))
	c := &fakeClk{now: time.Unix(1700000000, 0).UTC()}
	l := NewPLL(log, c)
	l.Do(0, 200)
	c.now = c.now.Add(3 * time.Second)
	l.Do(0, 200)
	c.now = c.now.Add(7 * time.Second)
	l.Do(0, 200)
	for i := 0; i < 12; i++ {
		c.now = c.now.Add(time.Second)
		l.Do(math.MaxInt64, 200)
		n := len(c.adjs) - 1
		f := c.adjs[n][2] + c.adjOff[n].Seconds()/c.adjDur[n].Seconds()
		t.Logf("update %d: offset arg %v dur %v freq arg %g -> kernel freq %d", i, c.adjOff[n], c.adjDur[n], c.adjs[n][2], unixutil.ScaledPPMFromFreq(f))
	}
}
