package adjustments

import (
	"math"
	"math/rand"
	"testing"
	"time"

	"example.com/scion-time/base/timemath"
)

func TestAuditClampRounding(t *testing.T) {
	check := func(d float64) {
		p := d * 500e-6
		got := timemath.Duration(p)
		lim := time.Duration(d) * 500 * time.Microsecond
		if got > lim || got < lim-1 {
			t.Fatalf("d=%v got %d lim %d", d, got, lim)
		}
		got = timemath.Duration(-p)
		if got < -lim || got > -lim+1 {
			t.Fatalf("d=%v got %d lim %d", d, got, -lim)
		}
	}
	for d := 1.0; d < 5e6; d++ {
		check(d)
	}
	r := rand.New(rand.NewSource(1))
	for i := 0; i < 5000000; i++ {
		check(math.Floor(r.Float64()*2.4e9) + 1)
	}
}
