package clocks

import (
	"log/slog"
	"os"
	"testing"
	"time"

	"example.com/scion-time/core/sync/adjustments"
)

func TestAuditPLLDriver(t *testing.T) {
	canary(t)
	log := slog.New(slog.NewTextHandler(os.Stderr, &slog.HandlerOptions{Level: slog.LevelDebug}))
	c := NewSystemClock(log, 0)
	l := adjustments.NewPLL(log, c)
	mark(1)
	for i := 0; i < 24; i++ { // 12 s: reaches tracking at ~8.5 s
		l.Do(500*time.Microsecond, 10)
		time.Sleep(500 * time.Millisecond)
	}
	mark(2)
	c.Step(time.Millisecond) // "external" step: epoch changes
	for i := 0; i < 8; i++ {
		l.Do(5*time.Millisecond, 10)
		time.Sleep(500 * time.Millisecond)
	}
	mark(3)
}
