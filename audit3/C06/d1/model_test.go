//go:build verif

package audit3c06

import (
	"fmt"
	"math/rand"
	"sort"
	"testing"
	"time"

	"example.com/scion-time/core/server"
	"example.com/scion-time/net/ntp"
)

type mrec struct {
	rx, tx ntp.Time64
	rxT    time.Time
	ex     int
}

var asBuilt, capMode bool
var nEvict, nNoRec int

type pending struct {
	client   string
	rx, txt0 time.Time
	ex       int
}

func runModel(seed int64, steps int, grid int, classify map[string]int) (string, bool) {
	rng := rand.New(rand.NewSource(seed))
	server.VerifReset()
	base := time.Unix(1_800_000_000, 0).UTC()
	if capMode {
		for i := 0; i < server.VerifTSSCap-2; i++ {
			q := ntp.Time64FromTime(base.Add(time.Hour + time.Duration(i%7)*time.Nanosecond))
			server.VerifLoad(fmt.Sprintf("filler-%d", i), []server.VerifRecord{{RX: q, TX: q}}, q)
		}
	}
	if seed%5 == 0 && !capMode {
		// across the era boundary 2036-02-07 06:28:16
		base = time.Unix(-2208988800+(1<<32)-0, 0).UTC().Add(-time.Duration(grid/2) * time.Nanosecond)
	}
	drift := 0
	g := func() time.Time { return base.Add(time.Duration(drift/20+rng.Intn(grid)) * time.Nanosecond) }
	clients := []string{"A", "B"}
	if capMode {
		clients = []string{"A", "B", "C", "D"}
	}
	model := map[string][]mrec{}
	var pend []pending
	var issued []ntp.Time64
	ex := 0
	log := ""
	for s := 0; s < steps; s++ {
		if capMode {
			drift = s
		}
		if len(log) > 20000 {
			log = log[len(log)-8000:]
		}
		if len(issued) > 64 {
			issued = issued[len(issued)-32:]
		}
		if len(pend) > 0 && (rng.Intn(3) == 0 || len(pend) > 20) {
			i := rng.Intn(len(pend))
			p := pend[i]
			pend = append(pend[:i], pend[i+1:]...)
			k := p.txt0
			lost := rng.Intn(4) == 0
			if !lost {
				k = g()
				if ntp.Time64FromTime(k) == ntp.Time64FromTime(p.txt0) {
					k = k.Add(1)
				}
			}
			kk := k
			server.VerifUpdateTXTimestamp(p.client, p.rx, p.txt0, &kk)
			log += fmt.Sprintf("u(%s ex%d rx=%v txt0=%v k=%v lost=%v)\n", p.client, p.ex, p.rx.Sub(base), p.txt0.Sub(base), k.Sub(base), lost)
			recs := model[p.client]
			for j := range recs {
				if (!asBuilt && recs[j].ex == p.ex) ||
					(asBuilt && recs[j].rx == ntp.Time64FromTime(p.rx) && recs[j].tx == ntp.Time64FromTime(p.txt0)) {
					if lost {
						recs = append(recs[:j], recs[j+1:]...)
					} else {
						if !p.rx.Before(k) {
							k = p.rx.Add(1)
						}
						recs[j].tx = ntp.Time64FromTime(k)
					}
					break
				}
			}
			model[p.client] = recs
			if len(recs) == 0 {
				delete(model, p.client)
			}
			if d := diff(model, p.client); d != "" {
				return log + d, false
			}
			continue
		}
		c := clients[rng.Intn(len(clients))]
		req := &ntp.Packet{}
		req.SetVersion(4)
		req.SetMode(ntp.ModeClient)
		switch rng.Intn(4) {
		case 0:
		case 1:
			req.OriginTime = ntp.Time64FromTime(g())
		default:
			if len(issued) > 0 {
				req.OriginTime = issued[rng.Intn(len(issued))]
			}
		}
		req.TransmitTime = ntp.Time64FromTime(g())
		if rng.Intn(3) == 0 {
			req.ReceiveTime = req.TransmitTime
		} else {
			req.ReceiveTime = ntp.Time64FromTime(g().Add(1000))
		}
		rx0 := g()
		clock := g()
		clk.now = clock
		rx, tx := rx0, time.Time{}
		var resp ntp.Packet
		pre := append([]mrec(nil), model[c]...)
		norecord := false
		if capMode && len(pre) == 0 && server.VerifLen() == server.VerifTSSCap {
			m, q, _ := server.VerifMinClient()
			if !q.After(ntp.Time64FromTime(rx0)) {
				delete(model, m)
				nEvict++
			} else {
				norecord = true
				nNoRec++
			}
		}
		server.VerifHandleRequest(c, req, &rx, &tx, &resp)
		ex++
		log += fmt.Sprintf("h(%s ex%d org=%v rxf==txf:%v rx=%v clock=%v) -> rx=%v tx=%v resp{org=%v rx=%v tx=%v}\n", c, ex,
			req.OriginTime, req.ReceiveTime == req.TransmitTime, rx0.Sub(base), clock.Sub(base), rx.Sub(base), tx.Sub(base),
			resp.OriginTime, resp.ReceiveTime, resp.TransmitTime)
		// checks
		if resp.ReceiveTime != ntp.Time64FromTime(rx) || rx.Before(rx0) || rx.Sub(rx0) > 8 {
			return log + "reply rx not the (bumped) receive time", false
		}
		o := -1
		for j, r := range pre {
			if r.rx == resp.ReceiveTime {
				return log + "reply rx equals a kept rx", false
			}
			if r.rx == req.OriginTime {
				o = j
			}
		}
		if !rx.Before(tx) {
			return log + "tx not later than rx", false
		}
		if o != -1 && req.ReceiveTime != req.TransmitTime {
			if resp.OriginTime != req.ReceiveTime || resp.TransmitTime != pre[o].tx {
				return log + fmt.Sprintf("interleaved reply wrong: want org=%v tx=%v", req.ReceiveTime, pre[o].tx), false
			}
			if !resp.TransmitTime.After(pre[o].rx) {
				return log + "interleaved tx not later than its rx", false
			}
		} else {
			if resp.OriginTime != req.TransmitTime || resp.TransmitTime != ntp.Time64FromTime(tx) {
				return log + "basic reply wrong", false
			}
			if clock.After(rx0) && rx == rx0 && tx != clock {
				return log + "basic tx not the clock reading", false
			}
		}
		// model transition
		nr := mrec{rx: resp.ReceiveTime, tx: ntp.Time64FromTime(tx), rxT: rx, ex: ex}
		recs := model[c]
		if norecord {
		} else if o != -1 {
			recs[o] = nr
		} else if len(recs) == server.VerifTSSItemCap {
			m := 0
			for j := range recs {
				if recs[j].rx.Before(recs[m].rx) {
					m = j
				}
			}
			recs[m] = nr
		} else {
			recs = append(recs, nr)
		}
		model[c] = recs
		issued = append(issued, resp.ReceiveTime)
		if rng.Intn(8) != 0 { // else: reply could not be sent (O8), no update
			pend = append(pend, pending{c, rx, tx, ex})
		}
		for _, cc := range clients {
			if d := diff(model, cc); d != "" {
				return log + d, false
			}
		}
		if capMode && s%5000 != 0 {
			continue
		}
		if _, _, err := server.VerifCheckStore(); err != nil {
			return log + err.Error(), false
		}
	}
	return "", true
}

func diff(model map[string][]mrec, c string) string {
	recs, _, _ := server.VerifSnapshot(c)
	a := map[ntp.Time64]ntp.Time64{}
	for _, r := range recs {
		a[r.RX] = r.TX
	}
	b := map[ntp.Time64]ntp.Time64{}
	for _, r := range model[c] {
		b[r.rx] = r.tx
	}
	if len(a) != len(recs) {
		return "duplicate rx on record"
	}
	if len(a) != len(b) {
		return fmt.Sprintf("client %s: store %v model %v", c, a, b)
	}
	for k, v := range a {
		if w, ok := b[k]; !ok || w != v {
			return fmt.Sprintf("client %s: store %v model %v", c, a, b)
		}
	}
	return ""
}

func TestModelAsBuilt(t *testing.T) {
	// identity of an exchange as the code has it (rx, software tx): everything
	// else of the model unchanged
	asBuilt = true
	defer func() { asBuilt = false }()
	TestModel(t)
}

func TestModel(t *testing.T) {
	fails := 0
	kinds := map[string]int{}
	var first []string
	for seed := int64(1); seed <= 20000; seed++ {
		grid := []int{6, 12, 40, 200}[seed%4]
		msg, ok := runModel(seed, 60, grid, nil)
		if !ok {
			fails++
			lines := splitLast(msg)
			kinds[lines]++
			if len(first) < 3 {
				first = append(first, fmt.Sprintf("seed %d:\n%s", seed, msg))
			}
		}
	}
	keys := []string{}
	for k := range kinds {
		keys = append(keys, k)
	}
	sort.Strings(keys)
	for _, k := range keys {
		t.Logf("%5d x %.80s", kinds[k], k)
	}
	for _, f := range first {
		t.Log(f)
	}
	if fails > 0 {
		t.Errorf("%d failing histories", fails)
	}
}

func splitLast(s string) string {
	for i := len(s) - 1; i >= 0; i-- {
		if s[i] == '\n' {
			r := s[i+1:]
			if len(r) > 12 {
				r = r[:12]
			}
			return r
		}
	}
	return s
}

func TestModelAtCapacity(t *testing.T) {
	asBuilt, capMode = true, true
	defer func() { asBuilt, capMode = false, false }()
	for seed := int64(1); seed <= 3; seed++ {
		msg, ok := runModel(seed, 300000, []int{12, 40, 200}[seed%3], nil)
		if !ok {
			if len(msg) > 6000 {
				msg = msg[len(msg)-6000:]
			}
			t.Errorf("seed %d: %s", seed, msg)
		}
	}
	t.Logf("evictions %d, exchanges not recorded %d", nEvict, nNoRec)
}
