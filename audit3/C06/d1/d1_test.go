//go:build verif

package audit3c06

// Audit round 3, property C06, finding d1.
//
// The repair 4209bf0 tells the exchange an update belongs to from a later one
// kept under the same receive timestamp by the software transmit time that
// handleRequest put on record. That value does not identify an exchange: two
// exchanges of one client with the same receive time have the same software
// transmit time whenever the clock readings are equal, and ALWAYS when the
// clock readings are not later than the receive time (both are then put on
// record as rx+1ns by the repair ba18270, e.g. hardware receive timestamps
// from a NIC clock that is ahead of the system clock).

import (
	"testing"
	"time"

	"example.com/scion-time/core/server"
	"example.com/scion-time/core/timebase"
	"example.com/scion-time/net/ntp"
)

type fakeClock struct {
	now  time.Time
	real bool
}

func (c *fakeClock) Epoch() uint64 { return 0 }
func (c *fakeClock) Now() time.Time {
	if c.real {
		return time.Now().UTC()
	}
	return c.now
}
func (c *fakeClock) Drift(time.Duration) time.Duration            { return 0 }
func (c *fakeClock) Step(time.Duration)                           {}
func (c *fakeClock) Adjust(time.Duration, time.Duration, float64) {}
func (c *fakeClock) Sleep(time.Duration)                          {}

var clk = &fakeClock{}

func init() { timebase.RegisterClock(clk) }

func request(origin, rx, tx ntp.Time64) *ntp.Packet {
	p := &ntp.Packet{}
	p.SetVersion(ntp.VersionMax)
	p.SetMode(ntp.ModeClient)
	p.OriginTime, p.ReceiveTime, p.TransmitTime = origin, rx, tx
	return p
}

// scenario: exchange 1 and exchange 3 of client A are received at the same time
// R; exchange 1 has left the store (interleaved follow-up) when exchange 3 is
// recorded; the update of exchange 1 (kernel transmit time K1) comes late.
func scenario(t *testing.T, client string, R, clock1, clock3 time.Time) {
	t.Helper()
	server.VerifReset()
	base := R
	cT := func(d time.Duration) ntp.Time64 { return ntp.Time64FromTime(base.Add(d)) }

	// exchange 1 (listener 1): basic
	clk.now = clock1
	rx1, tx1 := R, time.Time{}
	var resp1 ntp.Packet
	server.VerifHandleRequest(client, request(ntp.Time64{}, ntp.Time64{}, cT(-time.Millisecond)), &rx1, &tx1, &resp1)
	K1 := R.Add(50 * time.Microsecond) // kernel tx time of reply 1, read late by listener 1

	// exchange 2 (listener 2): the client's interleaved follow-up, replaces exchange 1
	clk.now = R.Add(2 * time.Second)
	rx2, tx2 := R.Add(2*time.Second-time.Microsecond), time.Time{}
	var resp2 ntp.Packet
	server.VerifHandleRequest(client, request(resp1.ReceiveTime, cT(time.Millisecond), cT(2*time.Second-time.Millisecond)), &rx2, &tx2, &resp2)
	if resp2.OriginTime != cT(time.Millisecond) {
		t.Fatalf("exchange 2 not served interleaved")
	}
	K2 := rx2.Add(40 * time.Microsecond)
	server.VerifUpdateTXTimestamp(client, rx2, tx2, &K2)

	// exchange 3 (listener 2): received at R again (clock stepped back, or any
	// other reason inside the quantifier: equal receive times, equal or early
	// clock readings), basic
	clk.now = clock3
	rx3, tx3 := R, time.Time{}
	var resp3 ntp.Packet
	server.VerifHandleRequest(client, request(ntp.Time64{}, ntp.Time64{}, cT(-time.Millisecond)), &rx3, &tx3, &resp3)
	if resp3.ReceiveTime != ntp.Time64FromTime(R) {
		t.Fatalf("exchange 3 not recorded under R")
	}
	K3 := R.Add(900 * time.Microsecond) // kernel tx time of reply 3

	// the late update of exchange 1 (listener 1), then the update of exchange 3
	k1 := K1
	server.VerifUpdateTXTimestamp(client, rx1, tx1, &k1)
	k3 := K3
	server.VerifUpdateTXTimestamp(client, rx3, tx3, &k3)

	recs, _, _ := server.VerifSnapshot(client)
	t.Logf("records after both updates: %+v", recs)

	// exchange 4: interleaved follow-up of exchange 3
	clk.now = R.Add(4 * time.Second)
	rx4, tx4 := R.Add(4*time.Second-time.Microsecond), time.Time{}
	var resp4 ntp.Packet
	server.VerifHandleRequest(client, request(resp3.ReceiveTime, cT(3*time.Millisecond), cT(4*time.Second-time.Millisecond)), &rx4, &tx4, &resp4)
	if resp4.OriginTime != cT(3*time.Millisecond) {
		t.Fatalf("exchange 4 not served interleaved")
	}
	want := ntp.Time64FromTime(K3)
	if resp4.TransmitTime != want {
		t.Errorf("interleaved reply to the follow-up of exchange 3 carries transmit time %v, "+
			"want the kernel transmit time of reply 3 %v (kernel transmit time of reply 1 is %v)",
			resp4.TransmitTime, want, ntp.Time64FromTime(K1))
	}
}

func TestLateUpdateEqualClockReadings(t *testing.T) {
	R := time.Unix(1_800_000_000, 123_456_789).UTC()
	C := R.Add(20 * time.Microsecond)
	scenario(t, "10.0.0.1", R, C, C)
}

func TestLateUpdateClockNotLaterThanRx(t *testing.T) {
	// receive timestamps ahead of the clock: different clock readings, both
	// recorded as R+1ns
	R := time.Unix(1_800_000_000, 123_456_789).UTC()
	scenario(t, "10.0.0.2", R, R.Add(-30*time.Microsecond), R.Add(-7*time.Microsecond))
}

// Control: clock readings that differ and are later than R are told apart since
// 4209bf0.
func TestControlDistinctClockReadings(t *testing.T) {
	R := time.Unix(1_800_000_000, 123_456_789).UTC()
	scenario(t, "10.0.0.3", R, R.Add(20*time.Microsecond), R.Add(21*time.Microsecond))
}
