//go:build verif

package audit3c06

import (
	"context"
	"log/slog"
	"net"
	"sync"
	"sync/atomic"
	"testing"
	"time"

	"example.com/scion-time/core/server"
	"example.com/scion-time/net/ntp"
	"example.com/scion-time/net/udp"
)

func TestStressIP(t *testing.T) {
	clk.real = true
	defer func() { clk.real = false }()
	server.VerifReset()
	log := slog.New(slog.DiscardHandler)
	server.StartIPServer(context.Background(), log, &net.UDPAddr{IP: net.ParseIP("127.0.0.1"), Port: 10125}, 0, nil)
	time.Sleep(100 * time.Millisecond)
	var wg sync.WaitGroup
	var nInter, nBasic, nBad atomic.Int64
	for w := 0; w < 6; w++ {
		wg.Add(1)
		go func(w int) {
			defer wg.Done()
			conn, err := net.DialUDP("udp", nil, &net.UDPAddr{IP: net.ParseIP("127.0.0.1"), Port: 10125})
			if err != nil {
				t.Error(err)
				return
			}
			defer conn.Close()
			var prev *ntp.Packet
			var prevT3 time.Time
			for i := 0; i < 3000; i++ {
				if w == 0 && i%50 == 7 {
					udp.VerifLateTXTimestamps(1)
				}
				req := &ntp.Packet{}
				req.SetVersion(4)
				req.SetMode(ntp.ModeClient)
				req.TransmitTime = ntp.Time64FromTime(time.Now())
				if prev != nil {
					req.OriginTime = prev.ReceiveTime
					req.ReceiveTime = ntp.Time64FromTime(prevT3)
				}
				var b []byte
				ntp.EncodePacket(&b, req)
				conn.Write(b)
				conn.SetReadDeadline(time.Now().Add(200 * time.Millisecond))
				buf := make([]byte, 512)
				n, err := conn.Read(buf)
				if err != nil {
					prev = nil
					continue
				}
				t3 := time.Now()
				var resp ntp.Packet
				ntp.DecodePacket(&resp, buf[:n])
				if prev != nil && resp.OriginTime == req.ReceiveTime && req.ReceiveTime != req.TransmitTime {
					nInter.Add(1)
					// tx must be the kernel tx time of prev: later than prev's software tx time
					// (ReferenceTime), and within a few ms of it
					d := int64(resp.TransmitTime.Seconds)<<32 | int64(resp.TransmitTime.Fraction)
					s := int64(prev.ReferenceTime.Seconds)<<32 | int64(prev.ReferenceTime.Fraction)
					if d <= s || d-s > (1<<32)/20 {
						nBad.Add(1)
						t.Errorf("worker %d round %d: interleaved tx %v vs software tx of that reply %v rx %v (diff %d us)", w, i,
							resp.TransmitTime, prev.ReferenceTime, prev.ReceiveTime, (d-s)*1000000>>32)
					}
				} else {
					nBasic.Add(1)
					if resp.OriginTime != req.TransmitTime || resp.TransmitTime != resp.ReferenceTime {
						t.Errorf("basic reply wrong")
					}
				}
				if !resp.ReferenceTime.After(resp.ReceiveTime) {
					t.Errorf("software tx not after rx")
				}
				prev, prevT3 = &resp, t3
			}
		}(w)
	}
	wg.Wait()
	t.Logf("interleaved %d basic %d bad %d", nInter.Load(), nBasic.Load(), nBad.Load())
}
