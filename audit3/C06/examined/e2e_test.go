//go:build verif

package audit3c06

import (
	"context"
	"log/slog"
	"net"
	"os"
	"testing"
	"time"

	"example.com/scion-time/core/server"
	"example.com/scion-time/net/ntp"
)

func exchange(t *testing.T, conn *net.UDPConn, req *ntp.Packet) (ntp.Packet, time.Time) {
	var b []byte
	ntp.EncodePacket(&b, req)
	if _, err := conn.Write(b); err != nil {
		t.Fatal(err)
	}
	conn.SetReadDeadline(time.Now().Add(time.Second))
	buf := make([]byte, 512)
	n, err := conn.Read(buf)
	if err != nil {
		t.Fatal(err)
	}
	var resp ntp.Packet
	if err := ntp.DecodePacket(&resp, buf[:n]); err != nil {
		t.Fatal(err)
	}
	return resp, time.Now()
}

func e2e(t *testing.T, ip string, port int) {
	clk.now = time.Time{}
	clk.real = true
	defer func() { clk.real = false }()
	server.VerifReset()
	log := slog.New(slog.NewTextHandler(os.Stderr, &slog.HandlerOptions{Level: slog.LevelInfo}))
	ctx := context.Background()
	server.StartIPServer(ctx, log, &net.UDPAddr{IP: net.ParseIP(ip), Port: port}, 0, nil)
	time.Sleep(100 * time.Millisecond)
	conn, err := net.DialUDP("udp", nil, &net.UDPAddr{IP: net.ParseIP(ip), Port: port})
	if err != nil {
		t.Fatal(err)
	}
	defer conn.Close()
	id := conn.LocalAddr().(*net.UDPAddr).AddrPort().Addr().String()

	req := &ntp.Packet{}
	req.SetVersion(4)
	req.SetMode(ntp.ModeClient)
	req.TransmitTime = ntp.Time64FromTime(time.Now())
	resp, t3 := exchange(t, conn, req)
	t.Logf("basic reply: %+v", resp)
	if resp.OriginTime != req.TransmitTime {
		t.Errorf("basic origin")
	}
	prevTx := resp.TransmitTime
	for i := 0; i < 5; i++ {
		time.Sleep(20 * time.Millisecond)
		recs, _, ok := server.VerifSnapshot(id)
		t.Logf("store[%s] = %+v %v", id, recs, ok)
		var rec *server.VerifRecord
		for j := range recs {
			if recs[j].RX == resp.ReceiveTime {
				rec = &recs[j]
			}
		}
		if rec == nil {
			t.Fatalf("exchange not on record (kernel tx timestamp not read?)")
		}
		if !rec.TX.After(prevTx) && i == 0 {
			t.Errorf("recorded tx %v not later than software tx %v", rec.TX, prevTx)
		}
		req2 := &ntp.Packet{}
		req2.SetVersion(4)
		req2.SetMode(ntp.ModeClient)
		req2.OriginTime = resp.ReceiveTime
		req2.ReceiveTime = ntp.Time64FromTime(t3)
		req2.TransmitTime = ntp.Time64FromTime(time.Now())
		resp2, t3b := exchange(t, conn, req2)
		if resp2.OriginTime != req2.ReceiveTime {
			t.Fatalf("round %d: not interleaved: %+v", i, resp2)
		}
		if resp2.TransmitTime != rec.TX {
			t.Errorf("round %d: interleaved tx %v, on record %v", i, resp2.TransmitTime, rec.TX)
		}
		if !resp2.TransmitTime.After(resp.ReceiveTime) {
			t.Errorf("tx not after rx")
		}
		resp, t3 = resp2, t3b
	}
}

func TestE2EIPv4(t *testing.T) { e2e(t, "127.0.0.1", 10123) }
func TestE2EIPv6(t *testing.T) { e2e(t, "::1", 10124) }
