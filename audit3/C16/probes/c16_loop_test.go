package client

import (
	"context"
	"io"
	"log/slog"
	"net"
	"os"
	"runtime"
	"runtime/pprof"
	"testing"
	"time"

	"github.com/scionproto/scion/pkg/addr"
	"github.com/scionproto/scion/pkg/snet"
	spath "github.com/scionproto/scion/pkg/snet/path"

	"example.com/scion-time/core/measurements"
	"example.com/scion-time/core/server"
	"example.com/scion-time/core/timebase"
	"example.com/scion-time/net/ntske"
	"example.com/scion-time/net/udp"
)

type tclk struct{}

func (tclk) Epoch() uint64                                   { return 0 }
func (tclk) Now() time.Time                                  { return time.Unix(0, time.Now().UnixNano()).UTC() }
func (tclk) Drift(d time.Duration) time.Duration             { return d / 1000 }
func (tclk) Step(time.Duration)                              {}
func (tclk) Adjust(time.Duration, time.Duration, float64)    {}
func (tclk) Sleep(d time.Duration)                           { time.Sleep(d) }

type ipRef struct {
	log   *slog.Logger
	c     *IPClient
	l, r  *net.UDPAddr
}

func (c *ipRef) MeasureClockOffset(ctx context.Context) (time.Time, time.Duration, error) {
	return MeasureClockOffsetIP(ctx, c.log, c.c, c.l, c.r)
}

type scionRef struct {
	log  *slog.Logger
	cs   []*SCIONClient
	l, r udp.UDPAddr
	np   int
}

func (c *scionRef) MeasureClockOffset(ctx context.Context) (time.Time, time.Duration, error) {
	var ps []snet.Path
	for i := 0; i < c.np; i++ {
		ps = append(ps, spath.Path{Src: c.l.IA, Dst: c.r.IA, DataplanePath: spath.Empty{}, NextHop: c.r.Host})
	}
	return MeasureClockOffsetSCION(ctx, c.log, c.cs, c.l, c.r, ps)
}

func TestProbeLoopback(t *testing.T) {
	timebase.RegisterClock(tclk{})
	log := slog.New(slog.NewTextHandler(io.Discard, nil))
	if os.Getenv("C16_VERBOSE") != "" {
		log = slog.New(slog.NewTextHandler(os.Stderr, &slog.HandlerOptions{Level: slog.LevelDebug}))
	}
	ctx := context.Background()
	prov := ntske.NewProvider()
	srvIP := &net.UDPAddr{IP: net.ParseIP("127.0.16.1").To4(), Port: 10123}
	server.StartIPServer(ctx, log, srvIP, 0, prov)
	srvSC := &net.UDPAddr{IP: net.ParseIP("127.0.16.2").To4(), Port: 10124}
	server.StartSCIONServer(ctx, log, "", srvSC, 0, prov)
	// silent sockets
	silentIP, err := net.ListenUDP("udp", &net.UDPAddr{IP: net.ParseIP("127.0.16.3").To4(), Port: 10125})
	if err != nil {
		t.Fatal(err)
	}
	defer silentIP.Close()
	time.Sleep(50 * time.Millisecond)

	ia := addr.MustParseIA("1-ff00:0:110")
	lhost := &net.UDPAddr{IP: net.ParseIP("127.0.16.9").To4()}
	mkSC := func(r *net.UDPAddr, np int) *scionRef {
		s := &scionRef{log: log, l: udp.UDPAddr{IA: ia, Host: lhost}, r: udp.UDPAddr{IA: ia, Host: r}, np: np}
		for i := 0; i < 7; i++ {
			s.cs = append(s.cs, &SCIONClient{Log: log, InterleavedMode: true, Filter: NewNtimedFilter(log)})
		}
		return s
	}
	clks := []ReferenceClock{
		&ipRef{log, &IPClient{Log: log, InterleavedMode: true, Filter: NewNtimedFilter(log)}, lhost, &net.UDPAddr{IP: srvIP.IP, Port: srvIP.Port}},
		&ipRef{log, &IPClient{Log: log, InterleavedMode: true, Filter: NewNtimedFilter(log)}, lhost, &net.UDPAddr{IP: net.ParseIP("127.0.16.3").To4(), Port: 10125}},
		&ipRef{log, &IPClient{Log: log, InterleavedMode: true}, lhost, &net.UDPAddr{IP: net.ParseIP("127.0.16.4").To4(), Port: 10126}}, // closed port
		mkSC(srvSC, 1),
		mkSC(srvSC, 3),
		mkSC(&net.UDPAddr{IP: net.ParseIP("127.0.16.3").To4(), Port: 10125}, 3), // silent
		mkSC(srvSC, 0), // no path
	}
	time.Sleep(20 * time.Millisecond)
	base := runtime.NumGoroutine()
	ms := make([]measurements.Measurement, len(clks))
	var rcc ReferenceClockClient
	for round := 0; round < 12; round++ {
		timeout := 60 * time.Millisecond
		if round%4 == 3 {
			timeout = 0
		}
		rctx, cancel := context.WithTimeout(ctx, timeout)
		t0 := time.Now()
		n := rcc.MeasureClockOffsets(rctx, clks, ms)
		el := time.Since(t0)
		cancel()
		t.Logf("round %d: n=%d elapsed=%v", round, n, el)
		for _, m := range ms[:n] {
			t.Logf("   %v %v", m.Timestamp.Format("15:04:05.000000"), m.Offset)
		}
		if el > timeout+15*time.Millisecond {
			t.Errorf("round %d late: %v", round, el)
		}
		if timeout != 0 && n != 3 {
			t.Errorf("round %d: n=%d, want 3", round, n)
		}
		time.Sleep(40 * time.Millisecond)
		if g := runtime.NumGoroutine(); g > base {
			t.Errorf("round %d: goroutines %d > base %d", round, g, base)
			pprof.Lookup("goroutine").WriteTo(os.Stderr, 1)
		}
	}
}
