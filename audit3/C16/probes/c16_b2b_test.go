package client

import (
	"context"
	"io"
	"log/slog"
	"net"
	"testing"
	"time"

	"github.com/scionproto/scion/pkg/addr"
	"github.com/scionproto/scion/pkg/snet"
	spath "github.com/scionproto/scion/pkg/snet/path"

	"example.com/scion-time/core/timebase"
	"example.com/scion-time/net/udp"
)

// Back-to-back calls of MeasureClockOffsetSCION with the same client, as in
// benchmark/client_scion.go, against a server that does not answer.
func TestProbeBackToBack(t *testing.T) {
	timebase.RegisterClock(tclk{})
	log := slog.New(slog.NewTextHandler(io.Discard, nil))
	silent, err := net.ListenUDP("udp", &net.UDPAddr{IP: net.ParseIP("127.0.16.3").To4(), Port: 10135})
	if err != nil {
		t.Fatal(err)
	}
	defer silent.Close()
	ia := addr.MustParseIA("1-ff00:0:110")
	l := udp.UDPAddr{IA: ia, Host: &net.UDPAddr{IP: net.ParseIP("127.0.16.9").To4()}}
	r := udp.UDPAddr{IA: ia, Host: &net.UDPAddr{IP: net.ParseIP("127.0.16.3").To4(), Port: 10135}}
	c := &SCIONClient{Log: log, InterleavedMode: true, Filter: NewNtimedFilter(log)}
	for i := 0; i < 50; i++ {
		ps := []snet.Path{spath.Path{Src: ia, Dst: ia, DataplanePath: spath.Empty{}, NextHop: r.Host}}
		ctx, cancel := context.WithTimeout(context.Background(), 5*time.Millisecond)
		_, _, err := MeasureClockOffsetSCION(ctx, log, []*SCIONClient{c}, l, r, ps)
		cancel()
		if err == nil {
			t.Fatal("unexpected success")
		}
	}
	time.Sleep(50 * time.Millisecond)
}
