package client

import (
	"context"
	"errors"
	"math/rand"
	"runtime"
	"sync"
	"sync/atomic"
	"testing"
	"time"

	"example.com/scion-time/core/measurements"
)

type fakeClk struct {
	id     int
	delay  time.Duration
	fail   bool
	ignore bool // ignore cancellation
	calls  *atomic.Int64
	done   *sync.WaitGroup
}

func (c *fakeClk) MeasureClockOffset(ctx context.Context) (time.Time, time.Duration, error) {
	defer c.done.Done()
	if c.delay > 0 {
		if c.ignore {
			time.Sleep(c.delay)
		} else {
			select {
			case <-time.After(c.delay):
			case <-ctx.Done():
			}
		}
	} else if c.delay < 0 {
		if c.ignore {
			time.Sleep(-c.delay)
		} else {
			<-ctx.Done()
		}
	}
	if c.fail {
		return time.Time{}, 0, errors.New("fail")
	}
	return time.Unix(int64(c.id), 0), time.Duration(c.id + 1), nil
}

func TestProbeCollector(t *testing.T) {
	rng := rand.New(rand.NewSource(1))
	base := runtime.NumGoroutine()
	for iter := 0; iter < 300; iter++ {
		n := rng.Intn(40)
		if iter%50 == 0 {
			n = 2000
		}
		timeout := time.Duration(rng.Intn(20)) * time.Millisecond
		var wg sync.WaitGroup
		wg.Add(n)
		clks := make([]ReferenceClock, n)
		early := map[int]bool{}
		for i := range clks {
			c := &fakeClk{id: i, done: &wg}
			switch rng.Intn(6) {
			case 0:
				c.delay = 0
			case 1:
				c.delay = time.Duration(rng.Intn(40)) * time.Millisecond
			case 2:
				c.delay = timeout
			case 3:
				c.delay = -30 * time.Millisecond
			case 4:
				c.delay = time.Duration(rng.Intn(40)) * time.Millisecond
				c.ignore = true
			case 5:
				c.delay = timeout + time.Duration(rng.Intn(3)-1)*time.Millisecond
			}
			c.fail = rng.Intn(3) == 0
			if !c.fail && c.delay >= 0 && c.delay < timeout-5*time.Millisecond {
				early[i] = true
			}
			clks[i] = c
		}
		ms := make([]measurements.Measurement, n)
		for i := range ms {
			ms[i] = measurements.Measurement{Offset: -12345}
		}
		var rcc ReferenceClockClient
		ctx, cancel := context.WithTimeout(context.Background(), timeout)
		t0 := time.Now()
		var ref time.Duration
		refdone := make(chan struct{})
		go func() { <-ctx.Done(); ref = time.Since(t0); close(refdone) }()
		k := rcc.MeasureClockOffsets(ctx, clks, ms)
		el := time.Since(t0)
		<-refdone
		cancel()
		if el > timeout+10*time.Millisecond {
			t.Errorf("iter %d: n=%d took %v > timeout %v (reference waiter %v)", iter, n, el, timeout, ref)
		}
		seen := map[int]bool{}
		for _, m := range ms[:k] {
			id := int(m.Offset) - 1
			if id < 0 || id >= n {
				t.Fatalf("iter %d: bad result %v", iter, m)
			}
			if seen[id] {
				t.Fatalf("iter %d: dup %d", iter, id)
			}
			seen[id] = true
			if clks[id].(*fakeClk).fail {
				t.Fatalf("iter %d: failed clock counted", iter)
			}
		}
		if n < 100 {
			for id := range early {
				if !seen[id] {
					t.Errorf("iter %d: early clock %d (delay %v, timeout %v) missing", iter, id, clks[id].(*fakeClk).delay, timeout)
				}
			}
		}
		wg.Wait()
		// goroutines must vanish
		ok := false
		for j := 0; j < 200; j++ {
			if runtime.NumGoroutine() <= base {
				ok = true
				break
			}
			time.Sleep(time.Millisecond)
		}
		if !ok {
			t.Fatalf("iter %d: goroutines %d > base %d", iter, runtime.NumGoroutine(), base)
		}
	}
}

func TestProbeSecondCollectionRefused(t *testing.T) {
	var wg sync.WaitGroup
	wg.Add(1)
	var rcc ReferenceClockClient
	clks := []ReferenceClock{&fakeClk{id: 0, delay: 200 * time.Millisecond, ignore: true, done: &wg}}
	ms := make([]measurements.Measurement, 1)
	go func() {
		ctx, cancel := context.WithTimeout(context.Background(), 100*time.Millisecond)
		defer cancel()
		rcc.MeasureClockOffsets(ctx, clks, ms)
	}()
	time.Sleep(20 * time.Millisecond)
	func() {
		defer func() {
			if r := recover(); r == nil {
				t.Errorf("second collection not refused")
			} else {
				t.Logf("refused: %v", r)
			}
		}()
		var wg2 sync.WaitGroup
		wg2.Add(1)
		ctx, cancel := context.WithTimeout(context.Background(), 10*time.Millisecond)
		defer cancel()
		rcc.MeasureClockOffsets(ctx, []ReferenceClock{&fakeClk{done: &wg2}}, make([]measurements.Measurement, 1))
	}()
	wg.Wait()
	time.Sleep(150 * time.Millisecond)
	// after refusal, first still consistent; a third collection after first finished must work
	var wg3 sync.WaitGroup
	wg3.Add(1)
	k := rcc.MeasureClockOffsets(context.Background(), []ReferenceClock{&fakeClk{done: &wg3}}, make([]measurements.Measurement, 1))
	if k != 1 {
		t.Errorf("k=%d", k)
	}
}
