package client

import (
	"math"
	"testing"
	"time"
)

// Ntimed: server behind by 2^63-100 ns: fits a Duration, time.Sub does not saturate
func TestAuditNtimedEdge(t *testing.T) {
	f := NewNtimedFilter(nil)
	t0 := time.Unix(1700000000, 0)
	theta := time.Duration(math.MinInt64 + 100) // server = client + theta
	t1 := t0.Add(theta)
	t2 := t1
	t3 := t0
	if t0.Sub(t1) != -theta {
		t.Fatalf("saturated")
	}
	got := f.Do(t0, t1, t2, t3)
	t.Logf("raw offset %d, filter returns %d", theta, got)
}

// Lucky: rtd wraps for 'delays' beyond 146 years each way
func TestAuditLuckyRTDWrap(t *testing.T) {
	f := NewLuckyPacketFilter(2, 1)
	t0 := time.Unix(1700000000, 0)
	y := 365 * 24 * time.Hour
	// sample A: rtd 2 ms, offset 0
	a := f.Do(t0, t0.Add(time.Millisecond), t0.Add(time.Millisecond), t0.Add(2*time.Millisecond))
	// sample B: client waited 200 years, server stamped tx 200 years before rx: rtd = 400 years
	b := f.Do(t0, t0.Add(200*y+time.Second), t0.Add(time.Second), t0.Add(200*y))
	t.Logf("a=%d b=%d", a, b)
}
