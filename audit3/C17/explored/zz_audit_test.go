package client

import (
	"math"
	"math/big"
	"math/rand"
	"sort"
	"sync/atomic"
	"testing"
	"time"

	"example.com/scion-time/core/timebase"
)

type fakeClock struct {
	epoch atomic.Uint64
}

func (c *fakeClock) Epoch() uint64                                  { return c.epoch.Load() }
func (c *fakeClock) Now() time.Time                                 { return time.Unix(1700000000, 0) }
func (c *fakeClock) Drift(d time.Duration) time.Duration            { return 0 }
func (c *fakeClock) Step(offset time.Duration)                      { c.epoch.Add(1) }
func (c *fakeClock) Adjust(o, d time.Duration, f float64)           {}
func (c *fakeClock) Sleep(d time.Duration)                          {}

var fclk = &fakeClock{}

func init() {
	timebase.RegisterClock(fclk)
}

type smp struct {
	t0, t1, t2, t3 time.Time
}

func bigNs(t time.Time) *big.Int {
	b := big.NewInt(t.Unix())
	b.Mul(b, big.NewInt(1e9))
	b.Add(b, big.NewInt(int64(t.Nanosecond())))
	return b
}

func (s smp) off2() *big.Int { // twice the offset
	x := new(big.Int).Sub(bigNs(s.t1), bigNs(s.t0))
	y := new(big.Int).Sub(bigNs(s.t2), bigNs(s.t3))
	return x.Add(x, y)
}

func (s smp) rtd() *big.Int {
	x := new(big.Int).Sub(bigNs(s.t3), bigNs(s.t0))
	y := new(big.Int).Sub(bigNs(s.t2), bigNs(s.t1))
	return x.Sub(x, y)
}

var offClasses = []int64{0, 1, -1, 1000, -1000, 1e9, -1e9, 3600e9, -3600e9,
	1 << 61, -(1 << 61), 1 << 62, -(1 << 62), (1 << 62) + 12345, -(1 << 62) - 12345,
	math.MaxInt64 - 1e12, math.MinInt64 + 1e12, 5e18, -5e18}

func genSample(r *rand.Rand, base time.Time, maxDelay int64, negDelay bool) smp {
	off := offClasses[r.Intn(len(offClasses))]
	if r.Intn(2) == 0 {
		off += r.Int63n(1e6) - 5e5
	}
	d := func() int64 {
		v := r.Int63n(maxDelay)
		if negDelay && r.Intn(4) == 0 {
			v = -v
		}
		return v
	}
	d1, p, d2 := d(), d(), d()
	t0 := base.Add(time.Duration(r.Int63n(1e12)))
	// server time = client time + off
	addBig := func(t time.Time, a int64) time.Time {
		// add possibly large a in two steps to avoid Duration overflow issues (a fits int64 anyway)
		return t.Add(time.Duration(a))
	}
	t1 := addBig(t0.Add(time.Duration(d1)), off)
	t2 := t1.Add(time.Duration(p))
	t3 := t0.Add(time.Duration(d1 + p + d2))
	return smp{t0, t1, t2, t3}
}

func TestAuditLuckyDifferential(t *testing.T) {
	r := rand.New(rand.NewSource(1))
	base := time.Unix(1700000000, 0)
	bad := 0
	for iter := 0; iter < 20000 && bad < 10; iter++ {
		N := 1 + r.Intn(8)
		k := 1 + r.Intn(10)
		f := NewLuckyPacketFilter(N, k)
		if k > N {
			k = N
		}
		var hist []smp
		maxDelay := []int64{1e3, 1e6, 1e9, 1e12}[r.Intn(4)]
		neg := r.Intn(2) == 0
		for j := 0; j < 30; j++ {
			if r.Intn(12) == 0 {
				f.Reset()
				hist = hist[:0]
			}
			s := genSample(r, base, maxDelay, neg)
			// distinct rtd
			dup := false
			for _, h := range hist {
				if h.rtd().Cmp(s.rtd()) == 0 {
					dup = true
				}
			}
			if dup {
				continue
			}
			hist = append(hist, s)
			if len(hist) > N {
				hist = hist[1:]
			}
			got := f.Do(s.t0, s.t1, s.t2, s.t3)
			w := append([]smp(nil), hist...)
			sort.Slice(w, func(a, b int) bool { return w[a].rtd().Cmp(w[b].rtd()) < 0 })
			if len(w) > k {
				w = w[:k]
			}
			sort.Slice(w, func(a, b int) bool { return w[a].off2().Cmp(w[b].off2()) < 0 })
			var want4 *big.Int // four times the median
			if len(w)%2 == 1 {
				want4 = new(big.Int).Mul(w[len(w)/2].off2(), big.NewInt(2))
			} else {
				want4 = new(big.Int).Add(w[len(w)/2-1].off2(), w[len(w)/2].off2())
			}
			diff := new(big.Int).Sub(new(big.Int).Mul(big.NewInt(int64(got)), big.NewInt(4)), want4)
			if diff.CmpAbs(big.NewInt(8)) > 0 {
				bad++
				t.Errorf("iter %d j %d N %d k %d: got %d want4 %s", iter, j, N, k, got, want4)
			}
		}
	}
}

func TestAuditNtimedProps(t *testing.T) {
	r := rand.New(rand.NewSource(2))
	base := time.Unix(1700000000, 0)
	bad := 0
	for iter := 0; iter < 20000 && bad < 10; iter++ {
		f := NewNtimedFilter(nil)
		g := NewNtimedFilter(nil) // fresh filter fed only with samples since last reset
		since := 0
		maxDelay := []int64{1e3, 1e6, 1e9, 1e12}[r.Intn(4)]
		neg := r.Intn(2) == 0
		for j := 0; j < 40; j++ {
			switch r.Intn(15) {
			case 0:
				f.Reset()
				g = NewNtimedFilter(nil)
				since = 0
			case 1:
				fclk.Step(0)
				g = NewNtimedFilter(nil)
				since = 0
			}
			s := genSample(r, base, maxDelay, neg)
			lo := s.t0.Sub(s.t1).Seconds()
			hi := s.t3.Sub(s.t2).Seconds()
			// learned bounds as Do will compute them
			navg := f.navg
			if f.epoch != fclk.Epoch() {
				navg = 0
			}
			if navg < 20 {
				navg++
			}
			var ln, hn float64
			if navg > 2 {
				ln = math.Sqrt(f.alolo - f.alo*f.alo)
				hn = math.Sqrt(f.ahihi - f.ahi*f.ahi)
			}
			inb := !(lo < f.alo-ln*3) && !(hi > f.ahi+hn*3)
			if f.epoch != fclk.Epoch() {
				inb = false
			}
			got := f.Do(s.t0, s.t1, s.t2, s.t3)
			got2 := g.Do(s.t0, s.t1, s.t2, s.t3)
			since++
			if got != got2 {
				bad++
				t.Errorf("iter %d j %d: reset dependence %d vs %d", iter, j, got, got2)
			}
			if since < 4 || inb {
				want2 := s.off2()
				diff := new(big.Int).Sub(new(big.Int).Mul(big.NewInt(int64(got)), big.NewInt(2)), want2)
				mag := math.Max(math.Abs(lo), math.Abs(hi)) * 1e9
				tol := int64(4 + 8*mag*0x1p-52)
				if diff.CmpAbs(big.NewInt(tol)) > 0 {
					bad++
					t.Errorf("iter %d j %d since %d inb %v: got %d want2 %s tol %d lo %v hi %v", iter, j, since, inb, got, want2, tol, lo, hi)
				}
			}
		}
	}
}
