package client

import (
	"context"
	"log/slog"
	"sort"
	"strings"
	"sync"
	"testing"
	"time"

	"github.com/scionproto/scion/pkg/snet"
)

type a3Capture struct {
	mu  sync.Mutex
	via []string
}

func (h *a3Capture) Enabled(context.Context, slog.Level) bool { return true }
func (h *a3Capture) Handle(_ context.Context, r slog.Record) error {
	if r.Message != "measuring clock offset" {
		return nil
	}
	r.Attrs(func(a slog.Attr) bool {
		if a.Key == "via" {
			h.mu.Lock()
			h.via = append(h.via, a.Value.String())
			h.mu.Unlock()
		}
		return true
	})
	return nil
}
func (h *a3Capture) WithAttrs([]slog.Attr) slog.Handler { return h }
func (h *a3Capture) WithGroup(string) slog.Handler      { return h }

// Distribution of the set of paths handed to the clients that are not in
// interleaved mode, and of each client's own path.
func TestAudit3C15Distribution(t *testing.T) {
	e := a3NewEnv(t, 3, 5, "1-ff00:0:112")
	sets := map[string]int{}
	const rounds = 6000
	for i := 0; i < rounds; i++ {
		h := &a3Capture{}
		ctx, cancel := context.WithDeadline(context.Background(), time.Now().Add(-time.Second))
		ps := append([]snet.Path(nil), e.paths...)
		_, _, err := MeasureClockOffsetSCION(ctx, slog.New(h), e.clients, e.laddr, e.raddr, ps)
		cancel()
		if err == nil {
			t.Fatal("no error")
		}
		// wait for the goroutines to have logged
		for {
			h.mu.Lock()
			n := len(h.via)
			h.mu.Unlock()
			if n == 3 {
				break
			}
			time.Sleep(100 * time.Microsecond)
		}
		var ks []string
		for _, v := range h.via {
			ks = append(ks, string(rune('0'+e.pathIdx(v))))
		}
		sort.Strings(ks)
		sets[strings.Join(ks, "")]++
	}
	t.Logf("%d subsets: %v", len(sets), sets)
	exp := float64(rounds) / 10
	chi := 0.0
	for _, n := range sets {
		d := float64(n) - exp
		chi += d * d / exp
	}
	t.Logf("chi^2 (9 dof) = %.2f", chi)
	if len(sets) != 10 || chi > 33.7 { // p = 0.0001
		t.Errorf("subset distribution not uniform")
	}
}
