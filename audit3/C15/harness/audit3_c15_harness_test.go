package client

// Audit round 3, property C15: end-to-end harness on loopback.
//
// One real SCION server (core/server) on 127.0.0.1, one UDP relay per offered
// path (the relay is the path's underlay next hop, so it sees which client --
// told apart by its DSCP -- probes over which path), seven clients as in
// timeservice.go.

import (
	"context"
	"fmt"
	"log/slog"
	"math/rand"
	"net"
	"net/netip"
	"sort"
	"sync"
	"testing"
	"time"

	"github.com/scionproto/scion/pkg/addr"
	"github.com/scionproto/scion/pkg/snet"
	spath "github.com/scionproto/scion/pkg/snet/path"

	"example.com/scion-time/core/measurements"
	"example.com/scion-time/core/server"
	"example.com/scion-time/core/timebase"
	"example.com/scion-time/net/ntske"
	"example.com/scion-time/net/udp"
)

type a3Clock struct{}

func (a3Clock) Epoch() uint64                                { return 0 }
func (a3Clock) Now() time.Time                               { return time.Now() }
func (a3Clock) Drift(d time.Duration) time.Duration          { return d / 10000 }
func (a3Clock) Step(time.Duration)                           { panic("no") }
func (a3Clock) Adjust(time.Duration, time.Duration, float64) { panic("no") }
func (a3Clock) Sleep(d time.Duration)                        { time.Sleep(d) }

var a3Once sync.Once
var a3ServerPort int

func a3Setup(t *testing.T) {
	a3Once.Do(func() {
		timebase.RegisterClock(a3Clock{})
		// find a free port
		l, err := net.ListenUDP("udp", &net.UDPAddr{IP: net.IPv4(127, 0, 0, 1)})
		if err != nil {
			t.Fatal(err)
		}
		a3ServerPort = l.LocalAddr().(*net.UDPAddr).Port
		l.Close()
		log := slog.New(slog.DiscardHandler)
		server.StartSCIONServer(context.Background(), log, "",
			&net.UDPAddr{IP: net.IPv4(127, 0, 0, 1), Port: a3ServerPort}, 0, ntske.NewProvider())
	})
}

type a3Probe struct {
	client  int // DSCP of the client
	path    int
	dropped bool
}

type a3Relay struct {
	idx    int
	conn   *net.UDPConn
	mu     *sync.Mutex
	probes *[]a3Probe
	// behaviour
	drop  func(client, path, nth int) bool
	delay func(client, path, nth int) time.Duration
	count map[int]int
}

func (r *a3Relay) run(server netip.AddrPort) {
	buf := make([]byte, 65536)
	for {
		n, from, err := r.conn.ReadFromUDPAddrPort(buf)
		if err != nil {
			return
		}
		pkt := append([]byte(nil), buf[:n]...)
		tc := int((pkt[0]&0x0f)<<4|pkt[1]>>4) >> 2
		r.mu.Lock()
		nth := r.count[tc]
		r.count[tc]++
		drop := r.drop != nil && r.drop(tc, r.idx, nth)
		*r.probes = append(*r.probes, a3Probe{client: tc, path: r.idx, dropped: drop})
		var d time.Duration
		if r.delay != nil {
			d = r.delay(tc, r.idx, nth)
		}
		r.mu.Unlock()
		if drop {
			continue
		}
		go func() {
			up, err := net.DialUDP("udp", nil, net.UDPAddrFromAddrPort(server))
			if err != nil {
				return
			}
			defer up.Close()
			_, _ = up.Write(pkt)
			_ = up.SetReadDeadline(time.Now().Add(time.Second))
			rb := make([]byte, 65536)
			m, err := up.Read(rb)
			if err != nil {
				return
			}
			if d != 0 {
				time.Sleep(d)
			}
			_, _ = r.conn.WriteToUDPAddrPort(rb[:m], from)
		}()
	}
}

type a3Filter struct {
	mu    sync.Mutex
	inner measurements.Filter
	outs  []time.Duration
	nrst  int
}

func (f *a3Filter) Do(a, b, c, d time.Time) time.Duration {
	o := f.inner.Do(a, b, c, d)
	f.mu.Lock()
	f.outs = append(f.outs, o)
	f.mu.Unlock()
	return o
}

func (f *a3Filter) Reset() {
	f.inner.Reset()
	f.mu.Lock()
	f.nrst++
	f.mu.Unlock()
}

type a3Env struct {
	t        *testing.T
	localIA  addr.IA
	remoteIA addr.IA
	laddr    udp.UDPAddr
	raddr    udp.UDPAddr
	relays   []*a3Relay
	paths    []snet.Path
	fps      []string
	mu       sync.Mutex
	probes   []a3Probe
	clients  []*SCIONClient
	filters  []*a3Filter
}

func a3NewEnv(t *testing.T, nclients, npaths int, remoteIA string) *a3Env {
	a3Setup(t)
	e := &a3Env{t: t}
	e.localIA = addr.MustParseIA("1-ff00:0:111")
	e.remoteIA = addr.MustParseIA(remoteIA)
	e.laddr = udp.UDPAddr{IA: e.localIA, Host: &net.UDPAddr{IP: net.IPv4(127, 0, 0, 1)}}
	e.raddr = udp.UDPAddr{IA: e.remoteIA, Host: &net.UDPAddr{IP: net.IPv4(127, 0, 0, 1), Port: a3ServerPort}}
	srv := netip.AddrPortFrom(netip.MustParseAddr("127.0.0.1"), uint16(a3ServerPort))
	for k := 0; k < npaths; k++ {
		conn, err := net.ListenUDP("udp", &net.UDPAddr{IP: net.IPv4(127, 0, 0, 1)})
		if err != nil {
			t.Fatal(err)
		}
		r := &a3Relay{idx: k, conn: conn, mu: &e.mu, probes: &e.probes, count: map[int]int{}}
		e.relays = append(e.relays, r)
		go r.run(srv)
		p := spath.Path{
			Src:           e.localIA,
			Dst:           e.remoteIA,
			DataplanePath: spath.Empty{},
			NextHop:       conn.LocalAddr().(*net.UDPAddr),
		}
		p.Meta.Interfaces = []snet.PathInterface{
			{IA: e.localIA, ID: 100 + 0},
			{IA: e.remoteIA, ID: 200 + 0},
		}
		for x := 0; x < k; x++ {
			p.Meta.Interfaces[0].ID++
			p.Meta.Interfaces[1].ID++
		}
		e.paths = append(e.paths, p)
		e.fps = append(e.fps, snet.Fingerprint(p).String())
	}
	log := slog.New(slog.DiscardHandler)
	for i := 0; i < nclients; i++ {
		f := &a3Filter{inner: NewNtimedFilter(nil)}
		c := &SCIONClient{Log: log, DSCP: uint8(i + 1), InterleavedMode: true, Filter: f}
		e.clients = append(e.clients, c)
		e.filters = append(e.filters, f)
	}
	t.Cleanup(func() {
		for _, r := range e.relays {
			r.conn.Close()
		}
	})
	return e
}

func (e *a3Env) pathIdx(fp string) int {
	for k, f := range e.fps {
		if f == fp {
			return k
		}
	}
	return -1
}

type a3Round struct {
	ts      time.Time
	off     time.Duration
	err     error
	probes  []a3Probe   // all requests seen by the relays
	used    map[int]int // client (0-based) -> path
	outs    map[int][]time.Duration
	resets  map[int]int
	before  []a3ClientState
	offered []int
}

var a3Keeps int

type a3ClientState struct {
	inMode bool
	path   int
}

func (e *a3Env) round(offered []int, timeout time.Duration) a3Round {
	var r a3Round
	r.offered = offered
	for _, c := range e.clients {
		r.before = append(r.before, a3ClientState{inMode: c.InInterleavedMode(), path: e.pathIdx(c.InterleavedModePath())})
	}
	e.mu.Lock()
	e.probes = nil
	e.mu.Unlock()
	nouts := make([]int, len(e.clients))
	nrst := make([]int, len(e.clients))
	for i, f := range e.filters {
		f.mu.Lock()
		nouts[i], nrst[i] = len(f.outs), f.nrst
		f.mu.Unlock()
	}
	ps := make([]snet.Path, 0, len(offered))
	for _, k := range offered {
		ps = append(ps, e.paths[k])
	}
	ctx, cancel := context.WithTimeout(context.Background(), timeout)
	r.ts, r.off, r.err = MeasureClockOffsetSCION(ctx, slog.New(slog.DiscardHandler), e.clients, e.laddr, e.raddr, ps)
	// let stragglers finish (as the service's pause between rounds does)
	<-ctx.Done()
	cancel()
	time.Sleep(20 * time.Millisecond)
	e.mu.Lock()
	r.probes = append([]a3Probe(nil), e.probes...)
	e.mu.Unlock()
	r.used = map[int]int{}
	r.outs = map[int][]time.Duration{}
	r.resets = map[int]int{}
	for i, f := range e.filters {
		f.mu.Lock()
		r.outs[i] = append([]time.Duration(nil), f.outs[nouts[i]:]...)
		r.resets[i] = f.nrst - nrst[i]
		f.mu.Unlock()
	}
	return r
}

// check verifies the clauses of C15 that can be observed from outside.
func (e *a3Env) check(r a3Round) []string {
	var errs []string
	perClient := map[int]map[int]bool{}
	perPath := map[int]map[int]bool{}
	for _, p := range r.probes {
		c := p.client - 1
		if perClient[c] == nil {
			perClient[c] = map[int]bool{}
		}
		perClient[c][p.path] = true
		if perPath[p.path] == nil {
			perPath[p.path] = map[int]bool{}
		}
		perPath[p.path][c] = true
	}
	for c, m := range perClient {
		if len(m) > 1 {
			errs = append(errs, fmt.Sprintf("client %d probed over %d paths", c, len(m)))
		}
	}
	for p, m := range perPath {
		if len(m) > 1 {
			errs = append(errs, fmt.Sprintf("path %d probed by %d clients", p, len(m)))
		}
		ok := false
		for _, k := range r.offered {
			ok = ok || k == p
		}
		if !ok {
			errs = append(errs, fmt.Sprintf("path %d probed but not offered", p))
		}
	}
	want := min(len(e.clients), len(r.offered))
	if len(perClient) != want {
		errs = append(errs, fmt.Sprintf("%d clients took part, want %d", len(perClient), want))
	}
	// keepers
	taken := map[int]bool{}
	for c, st := range r.before {
		keep := false
		if st.inMode && st.path >= 0 && !taken[st.path] {
			for _, k := range r.offered {
				keep = keep || k == st.path
			}
		}
		if keep {
			a3Keeps++
			taken[st.path] = true
			if !perClient[c][st.path] {
				errs = append(errs, fmt.Sprintf("client %d in interleaved mode did not keep path %d: %v", c, st.path, perClient[c]))
			}
			if r.resets[c] != 0 {
				errs = append(errs, fmt.Sprintf("client %d kept its path but its filter was reset", c))
			}
		} else {
			if r.resets[c] == 0 {
				errs = append(errs, fmt.Sprintf("client %d did not keep a path but its filter was not reset", c))
			}
		}
	}
	// fault-tolerant midpoint over one value per participating client
	var vals []time.Duration
	var optional []time.Duration // clients that were still busy when the round ended
	dropped := map[int]bool{}
	for _, p := range r.probes {
		if p.dropped {
			dropped[p.client-1] = true
		}
	}
	for c := range e.clients {
		if o := r.outs[c]; len(o) != 0 {
			if dropped[c] {
				optional = append(optional, o...)
			} else {
				vals = append(vals, o[len(o)-1])
			}
		}
	}
	if len(r.offered) == 0 {
		if r.err == nil {
			errs = append(errs, "no path offered but no error")
		}
	} else if len(vals) == 0 && len(optional) == 0 {
		if r.err == nil {
			errs = append(errs, "no value but no error")
		}
	} else if len(optional) != 0 {
		// not checked: which of the busy clients delivered is a matter of timing
	} else {
		sort.Slice(vals, func(i, j int) bool { return vals[i] < vals[j] })
		f := (len(vals) - 1) / 3
		x, y := vals[f], vals[len(vals)-1-f]
		wantOff := x + (y-x)/2
		if r.err != nil {
			errs = append(errs, fmt.Sprintf("error %v although %d clients have values", r.err, len(vals)))
		} else if r.off != wantOff {
			errs = append(errs, fmt.Sprintf("offset %v, want %v (values %v)", r.off, wantOff, vals))
		}
	}
	return errs
}

func TestAudit3C15Harness(t *testing.T) {
	seed := time.Now().UnixNano()
	rng := rand.New(rand.NewSource(seed))
	t.Logf("seed %d", seed)
	defer func() { t.Logf("keeps checked: %d", a3Keeps) }()
	for iter := 0; iter < 6; iter++ {
		nclients := 1 + rng.Intn(7)
		npaths := rng.Intn(10)
		e := a3NewEnv(t, nclients, npaths, "1-ff00:0:112")
		dropP := []float64{0, 0.1, 0.3}[rng.Intn(3)]
		for _, rl := range e.relays {
			rl.drop = func(c, p, n int) bool { return rng.Float64() < dropP }
		}
		avail := make([]bool, npaths)
		for k := range avail {
			avail[k] = rng.Intn(4) != 0
		}
		for rd := 0; rd < 12; rd++ {
			// change availability a bit
			for k := range avail {
				if rng.Intn(8) == 0 {
					avail[k] = !avail[k]
				}
			}
			var offered []int
			for k, a := range avail {
				if a {
					offered = append(offered, k)
				}
			}
			rng.Shuffle(len(offered), func(i, j int) { offered[i], offered[j] = offered[j], offered[i] })
			// occasionally give a client the previous path of another one
			if nclients > 1 && rng.Intn(5) == 0 {
				i, j := rng.Intn(nclients), rng.Intn(nclients)
				if i != j {
					e.clients[j].prev = e.clients[i].prev
				}
			}
			r := e.round(offered, 150*time.Millisecond)
			if errs := e.check(r); len(errs) != 0 {
				t.Errorf("iter %d round %d (clients %d, offered %v, before %+v, probes %v, err %v): %v",
					iter, rd, nclients, offered, r.before, r.probes, r.err, errs)
			}
		}
	}
}
