package client

import (
	"testing"
	"time"

	"github.com/scionproto/scion/pkg/snet"
	spath "github.com/scionproto/scion/pkg/snet/path"
)

// local AS: one path without interfaces (fingerprint ""), seven clients
func TestAudit3C15LocalAS(t *testing.T) {
	e := a3NewEnv(t, 7, 1, "1-ff00:0:111")
	p := e.paths[0].(spath.Path)
	p.Meta = snet.PathMetadata{}
	e.paths[0] = p
	e.fps[0] = snet.Fingerprint(p).String()
	if e.fps[0] != "" {
		t.Fatal("fingerprint not empty")
	}
	for rd := 0; rd < 6; rd++ {
		offered := []int{0}
		if rd == 3 {
			offered = nil
		}
		r := e.round(offered, 150*time.Millisecond)
		t.Logf("round %d: before %+v probes %v err %v off %v resets %v", rd, r.before, r.probes, r.err, r.off, r.resets)
		if errs := e.check(r); len(errs) != 0 {
			t.Errorf("round %d: %v", rd, errs)
		}
	}
}

// late responses: the response to the follow-up request of every client arrives
// after the round is over
func TestAudit3C15Late(t *testing.T) {
	e := a3NewEnv(t, 4, 6, "1-ff00:0:112")
	for _, rl := range e.relays {
		rl.delay = func(c, p, n int) time.Duration {
			if n%3 == 1 {
				return 200 * time.Millisecond
			}
			return 0
		}
	}
	for rd := 0; rd < 8; rd++ {
		r := e.round([]int{0, 1, 2, 3, 4, 5}, 100*time.Millisecond)
		t.Logf("round %d: before %+v probes %v err %v off %v resets %v outs %v", rd, r.before, r.probes, r.err, r.off, r.resets, r.outs)
		if errs := e.check(r); len(errs) != 0 {
			t.Errorf("round %d: %v", rd, errs)
		}
		time.Sleep(150 * time.Millisecond)
	}
}
