package ntske

// Audit round 3, property C08 - defect in the repair 0e523a2 ("bound the NTS
// key exchange by the caller's context ...").
//
// Since 0e523a2, dialQUIC connects to the SCION daemon with the context of
// the measurement (before: context.Background()). scion.NewDaemonConnector
// dials with grpc.WithBlock() and returns a nil daemon.Connector when the
// dial fails, i.e., now also when the daemon does not accept the connection
// before the deadline of the synchronization round. For a key-exchange server
// in another AS, dialQUIC goes on to call dc.Paths(...) on that nil interface:
// nil pointer dereference in the goroutine of the measurement, nothing
// recovers it, the time service terminates.
//
// History: the local SCION daemon is not reachable (it is being restarted,
// its listen backlog is full, a firewall rule drops the SYN, ...) for the
// length of one synchronization round in which one of the NTS clients of a
// SCION reference clock or peer has no cookie left (first round, or after
// eight requests without a response).
//
// The panic is raised in a goroutine of its own in the service
// (client.MeasureClockOffsetSCION starts one per path), so the test runs the
// key exchange in a child process and looks at how it ends.

import (
	"context"
	"crypto/tls"
	"fmt"
	"log/slog"
	"net"
	"os"
	"os/exec"
	"strings"
	"testing"
	"time"

	"google.golang.org/grpc"

	"github.com/scionproto/scion/pkg/addr"

	"example.com/scion-time/net/udp"
)

const audit3NoDaemonChildEnv = "AUDIT3_C08_NODAEMON_CHILD"

func TestAudit3KeyExchangeWithoutDaemonChild(t *testing.T) {
	if os.Getenv(audit3NoDaemonChildEnv) == "" {
		t.Skip("helper process of TestAudit3KeyExchangeWithoutDaemonPanics")
	}

	// a port nobody listens on: the daemon is down
	tcp, err := net.Listen("tcp", "127.0.0.1:0")
	if err != nil {
		t.Fatal(err)
	}
	daemonAddr := tcp.Addr().String()
	_ = tcp.Close()

	// the fetcher of a SCION client, as timeservice.go configures it
	// (configureSCIONClientNTS), for a server in another AS
	var f Fetcher
	f.Log = slog.New(slog.DiscardHandler)
	f.TLSConfig = tls.Config{
		NextProtos:         []string{"ntske/1"},
		InsecureSkipVerify: true,
		ServerName:         "audit3",
		MinVersion:         tls.VersionTLS13,
	}
	f.Port = "14460"
	f.QUIC.Enabled = true
	f.QUIC.DaemonAddr = daemonAddr
	f.QUIC.LocalAddr = udp.UDPAddr{IA: addr.MustParseIA("1-ff00:0:111"),
		Host: &net.UDPAddr{IP: net.IPv4(127, 0, 0, 1)}}
	f.QUIC.RemoteAddr = udp.UDPAddr{IA: addr.MustParseIA("1-ff00:0:112"),
		Host: &net.UDPAddr{IP: net.IPv4(127, 0, 0, 1), Port: 14460}}

	// the context of a synchronization round (sync_timeout)
	ctx, cancel := context.WithTimeout(context.Background(), 500*time.Millisecond)
	defer cancel()

	// what measureClockOffsetSCION does first when NTS is enabled; like there,
	// in a goroutine of its own
	done := make(chan struct{})
	go func() {
		_, err := f.FetchData(ctx)
		t.Logf("FetchData returned: %v", err)
		close(done)
	}()
	<-done
	t.Log("CHILD ALIVE AT END")
}

// TestAudit3KeyExchangeNearDeadlineChild: the daemon is up and healthy (a gRPC
// server on the loopback interface), but the key exchange starts shortly
// before the deadline of the round - which a remote NTS server can arrange:
// it answers a request (validly, but without new cookies, so that the pool
// runs empty) just before the deadline; the client, not yet in interleaved
// mode, starts its next attempt at once (up to three per round), finds its
// context still alive and its pool empty and starts a key exchange, whose
// blocking dial to the daemon is then cut short by the deadline.
func TestAudit3KeyExchangeNearDeadlineChild(t *testing.T) {
	if os.Getenv(audit3NoDaemonChildEnv) == "" {
		t.Skip("helper process of TestAudit3KeyExchangeNearDeadlinePanics")
	}
	tcp, err := net.Listen("tcp", "127.0.0.1:0")
	if err != nil {
		t.Fatal(err)
	}
	gs := grpc.NewServer()
	go func() { _ = gs.Serve(tcp) }()
	defer gs.Stop()

	var f Fetcher
	f.Log = slog.New(slog.DiscardHandler)
	f.TLSConfig = tls.Config{
		NextProtos:         []string{"ntske/1"},
		InsecureSkipVerify: true,
		ServerName:         "audit3",
		MinVersion:         tls.VersionTLS13,
	}
	f.Port = "14460"
	f.QUIC.Enabled = true
	f.QUIC.DaemonAddr = tcp.Addr().String()
	f.QUIC.LocalAddr = udp.UDPAddr{IA: addr.MustParseIA("1-ff00:0:111"),
		Host: &net.UDPAddr{IP: net.IPv4(127, 0, 0, 1)}}
	f.QUIC.RemoteAddr = udp.UDPAddr{IA: addr.MustParseIA("1-ff00:0:112"),
		Host: &net.UDPAddr{IP: net.IPv4(127, 0, 0, 1), Port: 14460}}

	for left := 3000 * time.Microsecond; left >= 20*time.Microsecond; left -= 20 * time.Microsecond {
		ctx, cancel := context.WithTimeout(context.Background(), left)
		fmt.Printf("key exchange started %v before the deadline\n", left)
		_, err := f.FetchData(ctx)
		fmt.Printf("  -> %v\n", err)
		cancel()
	}
	fmt.Println("CHILD ALIVE AT END")
}

func TestAudit3KeyExchangeNearDeadlinePanics(t *testing.T) {
	cmd := exec.Command(os.Args[0], "-test.run", "^TestAudit3KeyExchangeNearDeadlineChild$", "-test.v")
	cmd.Env = append(os.Environ(), audit3NoDaemonChildEnv+"=1")
	out, err := cmd.CombinedOutput()
	if err != nil || !strings.Contains(string(out), "CHILD ALIVE AT END") {
		s := string(out)
		if i := strings.Index(s, "panic:"); i >= 0 {
			j := max(0, i-400)
			s = "[...]\n" + s[j:min(len(s), i+1800)] + "\n[...]"
		}
		t.Fatalf("C08 violated: with the SCION daemon up, a key exchange that starts shortly before the "+
			"deadline of its round terminates the process (exit: %v); its output:\n%s", err, s)
	}
}

func TestAudit3KeyExchangeWithoutDaemonPanics(t *testing.T) {
	cmd := exec.Command(os.Args[0], "-test.run", "^TestAudit3KeyExchangeWithoutDaemonChild$", "-test.v")
	cmd.Env = append(os.Environ(), audit3NoDaemonChildEnv+"=1")
	out, err := cmd.CombinedOutput()
	if err != nil || !strings.Contains(string(out), "CHILD ALIVE AT END") {
		s := string(out)
		if len(s) > 2500 {
			s = s[:2500] + "\n[...]"
		}
		t.Fatalf("C08 violated: the process did not survive a key exchange while the SCION daemon was "+
			"unreachable (exit: %v); its output:\n%s", err, s)
	}
	t.Logf("the key exchange failed with an error, the process went on:\n%s", out)
}
