package client

// Audit round 3, property C08, finding d1 - end to end: a remote NTS server
// terminates the time service of a client, with nothing but the content and
// the timing of its (valid) responses. The SCION daemon of the client is up
// and healthy all the time.
//
// Cast, all on the loopback interface:
//   - the client: one SCIONClient as timeservice.go configures it (interleaved
//     mode, NTS over SCION/QUIC, daemon address set), driven like core/sync
//     drives it: client.MeasureClockOffsetSCION once per round, with a
//     context of syncTimeout;
//   - the client's SCION daemon: a gRPC server that answers Paths;
//   - the remote side, AS 1-ff00:0:112: the NTS-KE server of this code base
//     (server.StartNTSKEServerSCION) and an NTP/NTS server over SCION that
//     shares its cookie keys - the attacker. It answers every request
//     correctly and at once, but puts no new cookies into its responses. It
//     counts the requests since the last key exchange; the response to the
//     eighth (the client's last cookie; always the second attempt of a round,
//     as long as the client is not in interleaved mode) it holds back until
//     shortly before the client's deadline, which it knows from the arrival
//     of the first request of that round and the (default) sync timeout.
//
// The client accepts that response, is still not in interleaved mode, and
// starts its third attempt at once: the context is alive, the pool is empty,
// FetchData starts a key exchange, the blocking dial to the daemon is cut
// short by the deadline, NewDaemonConnector returns nil, dialQUIC calls Paths
// on it.
//
// The attacker does not know the client's deadline to the microsecond; it
// tries margins from 3 ms down to 0.2 ms, one try every three rounds.

import (
	"bytes"
	"context"
	"crypto/ecdsa"
	"crypto/elliptic"
	"crypto/rand"
	"crypto/tls"
	"crypto/x509"
	"crypto/x509/pkix"
	"fmt"
	"log/slog"
	"math/big"
	"net"
	"os"
	"os/exec"
	"strings"
	"sync"
	"sync/atomic"
	"testing"
	"time"

	"github.com/google/gopacket"
	"google.golang.org/grpc"
	"google.golang.org/protobuf/types/known/timestamppb"

	"github.com/scionproto/scion/pkg/addr"
	sdpb "github.com/scionproto/scion/pkg/proto/daemon"
	"github.com/scionproto/scion/pkg/slayers"
	"github.com/scionproto/scion/pkg/slayers/path"
	scionpath "github.com/scionproto/scion/pkg/slayers/path/scion"
	"github.com/scionproto/scion/pkg/snet"
	spath "github.com/scionproto/scion/pkg/snet/path"

	"example.com/scion-time/core/server"
	"example.com/scion-time/core/timebase"
	"example.com/scion-time/driver/clocks"
	"example.com/scion-time/net/ntp"
	"example.com/scion-time/net/nts"
	"example.com/scion-time/net/ntske"
	"example.com/scion-time/net/udp"
)

const (
	a3ChildEnv    = "AUDIT3_C08_REMOTE_CHILD"
	a3SyncTimeout = 200 * time.Millisecond
)

var (
	a3LocalIA  = addr.MustParseIA("1-ff00:0:111")
	a3RemoteIA = addr.MustParseIA("1-ff00:0:112")
)

func a3RawPath(t testing.TB) []byte {
	d := &scionpath.Decoded{
		Base: scionpath.Base{
			PathMeta: scionpath.MetaHdr{SegLen: [3]uint8{2, 0, 0}},
			NumINF:   1,
			NumHops:  2,
		},
		InfoFields: []path.InfoField{{ConsDir: true, SegID: 1, Timestamp: uint32(time.Now().Unix())}},
		HopFields: []path.HopField{
			{ExpTime: 63, ConsIngress: 0, ConsEgress: 1},
			{ExpTime: 63, ConsIngress: 2, ConsEgress: 0},
		},
	}
	raw := make([]byte, d.Len())
	if err := d.SerializeTo(raw); err != nil {
		t.Fatal(err)
	}
	return raw
}

// the client's daemon
type a3Daemon struct {
	sdpb.UnimplementedDaemonServiceServer
	raw      []byte
	nextHop  string
	numPaths atomic.Int64
	onPaths  func()
}

func (d *a3Daemon) Paths(ctx context.Context, req *sdpb.PathsRequest) (*sdpb.PathsResponse, error) {
	d.numPaths.Add(1)
	if d.onPaths != nil {
		d.onPaths()
	}
	return &sdpb.PathsResponse{Paths: []*sdpb.Path{{
		Raw:       d.raw,
		Interface: &sdpb.Interface{Address: &sdpb.Underlay{Address: d.nextHop}},
		Interfaces: []*sdpb.PathInterface{
			{IsdAs: uint64(a3LocalIA), Id: 1},
			{IsdAs: uint64(a3RemoteIA), Id: 2},
		},
		Mtu:        1400,
		Expiration: timestamppb.New(time.Now().Add(time.Hour)),
	}}}, nil
}

func a3TLSConfig(t testing.TB) *tls.Config {
	key, err := ecdsa.GenerateKey(elliptic.P256(), rand.Reader)
	if err != nil {
		t.Fatal(err)
	}
	tmpl := x509.Certificate{
		SerialNumber: big.NewInt(1),
		Subject:      pkix.Name{CommonName: "audit3"},
		NotBefore:    time.Now().Add(-time.Hour),
		NotAfter:     time.Now().Add(time.Hour),
		DNSNames:     []string{"audit3"},
	}
	der, err := x509.CreateCertificate(rand.Reader, &tmpl, &tmpl, &key.PublicKey, key)
	if err != nil {
		t.Fatal(err)
	}
	return &tls.Config{
		ServerName:   "audit3",
		Certificates: []tls.Certificate{{Certificate: [][]byte{der}, PrivateKey: key}},
		NextProtos:   []string{"ntske/1"},
		MinVersion:   tls.VersionTLS13,
	}
}

// the attacker's NTP/NTS server over SCION
type a3Attacker struct {
	conn     *net.UDPConn
	provider *ntske.Provider

	mu         sync.Mutex
	sinceKE    int           // requests since the last key exchange
	prevArr    time.Time     // arrival of the previous request
	margin     time.Duration // how long before the assumed deadline the held-back response is sent
	heldBack   int
	lastMargin time.Duration
}

func (a *a3Attacker) keyExchanged() {
	a.mu.Lock()
	a.sinceKE = 0
	a.mu.Unlock()
}

func (a *a3Attacker) run() {
	buf := make([]byte, 10000)
	for {
		n, from, err := a.conn.ReadFromUDP(buf)
		if err != nil {
			return
		}
		arr := time.Now()
		resp := a.respond(bytes.Clone(buf[:n]))
		if resp == nil {
			continue
		}
		a.mu.Lock()
		a.sinceKE++
		k := a.sinceKE
		prev := a.prevArr
		a.prevArr = arr
		margin := a.margin
		a.mu.Unlock()
		if k == 8 {
			// The client's last cookie. The previous request was the first of
			// this round: the client's deadline is syncTimeout after it (a
			// little less, the client needs a moment to get its request out).
			at := prev.Add(a3SyncTimeout - margin)
			a.mu.Lock()
			a.heldBack++
			a.lastMargin = margin
			if a.margin > 200*time.Microsecond {
				a.margin -= 100 * time.Microsecond
			}
			a.mu.Unlock()
			fmt.Printf("attacker: holding back the response to the client's last cookie until %v before the assumed deadline\n", margin)
			go func(resp []byte, from *net.UDPAddr) {
				time.Sleep(time.Until(at))
				_, _ = a.conn.WriteToUDP(resp, from)
			}(resp, from)
			continue
		}
		_, _ = a.conn.WriteToUDP(resp, from)
	}
}

// respond builds a correct NTS response without cookies.
func (a *a3Attacker) respond(req []byte) []byte {
	var (
		s   slayers.SCION
		hbh slayers.HopByHopExtnSkipper
		e2e slayers.EndToEndExtnSkipper
		u   slayers.UDP
	)
	u.SetNetworkLayerForChecksum(&s)
	parser := gopacket.NewDecodingLayerParser(slayers.LayerTypeSCION, &s, &hbh, &e2e, &u)
	parser.IgnoreUnsupported = true
	decoded := make([]gopacket.LayerType, 4)
	if err := parser.DecodeLayers(req, &decoded); err != nil ||
		decoded[len(decoded)-1] != slayers.LayerTypeSCIONUDP {
		return nil
	}
	rxt := time.Now()
	var ntpreq ntp.Packet
	if err := ntp.DecodePacket(&ntpreq, u.Payload); err != nil {
		return nil
	}
	var ntsreq nts.Packet
	if err := nts.DecodePacket(&ntsreq, u.Payload); err != nil {
		return nil
	}
	cookie, err := ntsreq.FirstCookie()
	if err != nil {
		return nil
	}
	var ec ntske.EncryptedServerCookie
	if err := ec.Decode(cookie); err != nil {
		return nil
	}
	key, ok := a.provider.Get(int(ec.ID))
	if !ok {
		return nil
	}
	sc, err := ec.Decrypt(key.Value)
	if err != nil {
		return nil
	}
	if err := nts.ProcessRequest(u.Payload, sc.C2S, &ntsreq); err != nil {
		return nil
	}

	var ntpresp ntp.Packet
	ntpresp.SetVersion(ntp.VersionMax)
	ntpresp.SetMode(ntp.ModeServer)
	ntpresp.Stratum = 1
	ntpresp.OriginTime = ntpreq.TransmitTime
	ntpresp.ReceiveTime = ntp.Time64FromTime(rxt)
	ntpresp.TransmitTime = ntp.Time64FromTime(rxt.Add(time.Microsecond))
	var pl []byte
	ntp.EncodePacket(&pl, &ntpresp)
	// a valid NTS response - without cookies
	ntsresp := nts.NewResponsePacket(nil, sc.S2C, ntsreq.UniqueID.ID)
	nts.EncodePacket(&pl, &ntsresp)

	s.DstIA, s.SrcIA = s.SrcIA, s.DstIA
	s.DstAddrType, s.SrcAddrType = s.SrcAddrType, s.DstAddrType
	s.RawDstAddr, s.RawSrcAddr = s.RawSrcAddr, s.RawDstAddr
	s.Path, err = s.Path.Reverse()
	if err != nil {
		return nil
	}
	s.PathType = s.Path.Type()
	s.NextHdr = slayers.L4UDP
	u.SrcPort, u.DstPort = u.DstPort, u.SrcPort
	buffer := gopacket.NewSerializeBuffer()
	options := gopacket.SerializeOptions{ComputeChecksums: true, FixLengths: true}
	if err := gopacket.SerializeLayers(buffer, options, &s, &u, gopacket.Payload(pl)); err != nil {
		return nil
	}
	return bytes.Clone(buffer.Bytes())
}

func TestAudit3RemoteServerChild(t *testing.T) {
	if os.Getenv(a3ChildEnv) == "" {
		t.Skip("helper process of TestAudit3RemoteServerTerminatesClient")
	}
	timebase.RegisterClock(clocks.NewSystemClock(slog.New(slog.DiscardHandler), clocks.UnknownDrift))
	ctx := context.Background()
	log := slog.New(slog.DiscardHandler)
	raw := a3RawPath(t)

	// the remote side: NTP/NTS server (the attacker) and NTS-KE server
	ntpConn, err := net.ListenUDP("udp", &net.UDPAddr{IP: net.IPv4(127, 0, 0, 1)})
	if err != nil {
		t.Fatal(err)
	}
	ntpAddr := ntpConn.LocalAddr().(*net.UDPAddr)
	provider := ntske.NewProvider()
	attacker := &a3Attacker{conn: ntpConn, provider: provider, margin: 3 * time.Millisecond}
	go attacker.run()
	server.StartNTSKEServerSCION(ctx, log,
		udp.UDPAddr{IA: a3RemoteIA, Host: &net.UDPAddr{IP: net.IPv4(127, 0, 0, 1), Port: ntpAddr.Port}},
		a3TLSConfig(t), provider)

	// the client's daemon: up and healthy
	tcp, err := net.Listen("tcp", "127.0.0.1:0")
	if err != nil {
		t.Fatal(err)
	}
	daemon := &a3Daemon{raw: raw, nextHop: "127.0.0.1:14460", onPaths: attacker.keyExchanged}
	gs := grpc.NewServer()
	sdpb.RegisterDaemonServiceServer(gs, daemon)
	go func() { _ = gs.Serve(tcp) }()

	// the client, as timeservice.go sets it up
	localAddr := udp.UDPAddr{IA: a3LocalIA, Host: &net.UDPAddr{IP: net.IPv4(127, 0, 0, 1)}}
	remoteAddr := udp.UDPAddr{IA: a3RemoteIA, Host: &net.UDPAddr{IP: net.IPv4(127, 0, 0, 1), Port: ntpAddr.Port}}
	c := &SCIONClient{Log: log, InterleavedMode: true}
	c.Filter = NewNtimedFilter(log)
	c.Auth.NTSEnabled = true
	c.Auth.NTSKEFetcher.TLSConfig = tls.Config{
		NextProtos:         []string{"ntske/1"},
		InsecureSkipVerify: true,
		ServerName:         "audit3",
		MinVersion:         tls.VersionTLS13,
	}
	c.Auth.NTSKEFetcher.Port = "14460"
	c.Auth.NTSKEFetcher.Log = log
	c.Auth.NTSKEFetcher.QUIC.Enabled = true
	c.Auth.NTSKEFetcher.QUIC.DaemonAddr = tcp.Addr().String()
	c.Auth.NTSKEFetcher.QUIC.LocalAddr = udp.UDPAddr{IA: a3LocalIA, Host: &net.UDPAddr{IP: net.IPv4(127, 0, 0, 1)}}
	c.Auth.NTSKEFetcher.QUIC.RemoteAddr = udp.UDPAddr{IA: a3RemoteIA, Host: &net.UDPAddr{IP: net.IPv4(127, 0, 0, 1), Port: 14460}}

	// the synchronization loop (core/sync.Run): one measurement per round
	rounds, okRounds := 0, 0
	for rounds < 120 {
		ps := []snet.Path{spath.Path{
			Src: a3LocalIA, Dst: a3RemoteIA,
			DataplanePath: spath.SCION{Raw: bytes.Clone(raw)},
			NextHop:       ntpAddr, // "border router"
		}}
		rctx, cancel := context.WithTimeout(ctx, a3SyncTimeout)
		_, _, err := MeasureClockOffsetSCION(rctx, log, []*SCIONClient{c}, localAddr, remoteAddr, ps)
		cancel()
		rounds++
		if err == nil {
			okRounds++
		}
		fmt.Printf("round %d: err=%v (key exchanges so far: %d)\n", rounds, err, daemon.numPaths.Load())
		time.Sleep(20 * time.Millisecond)
	}
	fmt.Printf("CHILD ALIVE AT END: %d rounds, %d with a measurement, %d key exchanges, %d responses held back\n",
		rounds, okRounds, daemon.numPaths.Load(), attacker.heldBack)
}

func TestAudit3RemoteServerTerminatesClient(t *testing.T) {
	cmd := exec.Command(os.Args[0], "-test.run", "^TestAudit3RemoteServerChild$", "-test.v")
	cmd.Env = append(os.Environ(), a3ChildEnv+"=1")
	out, err := cmd.CombinedOutput()
	s := string(out)
	if err != nil || !strings.Contains(s, "CHILD ALIVE AT END") {
		if i := strings.Index(s, "panic:"); i >= 0 {
			s = "[...]\n" + s[max(0, i-900):min(len(s), i+1700)] + "\n[...]"
		}
		t.Fatalf("C08 violated: the responses of a remote NTS server terminated the client's process, "+
			"its SCION daemon being up all the time (exit: %v); output of the process:\n%s", err, s)
	}
	if i := strings.Index(s, "CHILD ALIVE AT END"); i >= 0 {
		t.Logf("%s", s[i:])
	}
}
