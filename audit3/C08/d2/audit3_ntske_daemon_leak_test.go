package server

// Audit round 3, property C08: the NTS key exchange over SCION/QUIC and the
// connection to the SCION daemon it opens.
//
// ntske.dialQUIC opens a new connection to the SCION daemon for every key
// exchange (scion.NewDaemonConnector: a blocking gRPC dial) and never closes
// it - not on success, not on failure, and also not when the server is in the
// local AS and the daemon is not even asked for paths. Every key exchange
// leaves one established TCP connection to the daemon behind, with the
// goroutines and buffers of a gRPC client (and of a gRPC server connection in
// the daemon).
//
// How often a client exchanges keys is up to its peers: a server that does
// not answer NTS requests, or answers them without new cookies, or hands out
// one cookie per key exchange, makes each of the seven clients of a SCION
// reference clock (or peer) run a new exchange every few requests, for as long
// as the service runs. The file descriptors (the limit of the process, and
// that of the daemon) and the memory run out; from then on no client can open
// a socket and the listeners cannot accept key exchanges.
//
// The test uses the NTS-KE server of this code base over SCION/QUIC on the
// loopback interface, a gRPC server as the "daemon", and an ntske.Fetcher
// configured like timeservice.go does (configureSCIONClientNTS). It models the
// silent NTP server by asking the fetcher for a cookie per request and never
// storing one.

import (
	"context"
	"crypto/ecdsa"
	"crypto/elliptic"
	"crypto/rand"
	"crypto/tls"
	"crypto/x509"
	"crypto/x509/pkix"
	"log/slog"
	"math/big"
	"net"
	"os"
	"runtime"
	"sync/atomic"
	"testing"
	"time"

	"google.golang.org/grpc"

	"github.com/scionproto/scion/pkg/addr"

	"example.com/scion-time/net/ntske"
	"example.com/scion-time/net/udp"
)

func audit3LeakTLSConfig(t testing.TB) *tls.Config {
	key, err := ecdsa.GenerateKey(elliptic.P256(), rand.Reader)
	if err != nil {
		t.Fatal(err)
	}
	tmpl := x509.Certificate{
		SerialNumber: big.NewInt(1),
		Subject:      pkix.Name{CommonName: "audit3"},
		NotBefore:    time.Now().Add(-time.Hour),
		NotAfter:     time.Now().Add(time.Hour),
		DNSNames:     []string{"audit3"},
	}
	der, err := x509.CreateCertificate(rand.Reader, &tmpl, &tmpl, &key.PublicKey, key)
	if err != nil {
		t.Fatal(err)
	}
	return &tls.Config{
		ServerName:   "audit3",
		Certificates: []tls.Certificate{{Certificate: [][]byte{der}, PrivateKey: key}},
		NextProtos:   []string{"ntske/1"},
		MinVersion:   tls.VersionTLS13,
	}
}

// audit3CountingListener counts the TCP connections the fake daemon has
// accepted and how many of them are still open.
type audit3CountingListener struct {
	net.Listener
	accepted atomic.Int64
	open     atomic.Int64
}

type audit3CountingConn struct {
	net.Conn
	l      *audit3CountingListener
	closed atomic.Bool
}

func (l *audit3CountingListener) Accept() (net.Conn, error) {
	c, err := l.Listener.Accept()
	if err != nil {
		return nil, err
	}
	l.accepted.Add(1)
	l.open.Add(1)
	return &audit3CountingConn{Conn: c, l: l}, nil
}

func (c *audit3CountingConn) Close() error {
	if c.closed.CompareAndSwap(false, true) {
		c.l.open.Add(-1)
	}
	return c.Conn.Close()
}

func audit3OpenFDs(t testing.TB) int {
	es, err := os.ReadDir("/proc/self/fd")
	if err != nil {
		t.Fatal(err)
	}
	return len(es)
}

func TestAudit3KeyExchangeLeaksDaemonConnections(t *testing.T) {
	ctx := context.Background()
	log := slog.New(slog.DiscardHandler)

	// the "daemon": a gRPC server the connector can connect to (a key exchange
	// with a server in the local AS asks the daemon for nothing)
	tcp, err := net.Listen("tcp", "127.0.0.1:0")
	if err != nil {
		t.Fatal(err)
	}
	cl := &audit3CountingListener{Listener: tcp}
	gs := grpc.NewServer()
	go func() { _ = gs.Serve(cl) }()
	defer gs.Stop()
	daemonAddr := tcp.Addr().String()

	// the NTS-KE server of this code base, over SCION/QUIC, on 127.0.0.1:14460
	ia := addr.MustParseIA("1-ff00:0:111")
	provider := ntske.NewProvider()
	StartNTSKEServerSCION(ctx, log,
		udp.UDPAddr{IA: ia, Host: &net.UDPAddr{IP: net.IPv4(127, 0, 0, 1), Port: 10123}},
		audit3LeakTLSConfig(t), provider)

	var f ntske.Fetcher
	f.Log = log
	f.TLSConfig = tls.Config{
		NextProtos:         []string{"ntske/1"},
		InsecureSkipVerify: true,
		ServerName:         "audit3",
		MinVersion:         tls.VersionTLS13,
	}
	f.Port = "14460"
	f.QUIC.Enabled = true
	f.QUIC.DaemonAddr = daemonAddr
	f.QUIC.LocalAddr = udp.UDPAddr{IA: ia, Host: &net.UDPAddr{IP: net.IPv4(127, 0, 0, 1)}}
	f.QUIC.RemoteAddr = udp.UDPAddr{IA: ia, Host: &net.UDPAddr{IP: net.IPv4(127, 0, 0, 1), Port: 14460}}

	fetch := func() {
		ctx, cancel := context.WithTimeout(ctx, 3*time.Second)
		defer cancel()
		_, err := f.FetchData(ctx)
		if err != nil {
			t.Fatalf("FetchData: %v", err)
		}
	}

	// warm up: one exchange, then use up its cookies
	for range 8 {
		fetch()
	}
	time.Sleep(300 * time.Millisecond)
	mem := func() uint64 {
		runtime.GC()
		var ms runtime.MemStats
		runtime.ReadMemStats(&ms)
		return ms.HeapInuse + ms.StackInuse
	}
	fds0, open0, acc0, gor0, mem0 := audit3OpenFDs(t), cl.open.Load(), cl.accepted.Load(), runtime.NumGoroutine(), mem()

	// The NTP server does not answer: every request uses up a cookie, none
	// comes back, every eighth request needs a new key exchange.
	const exchanges = 40
	for range exchanges * 8 {
		fetch()
	}
	time.Sleep(1 * time.Second)
	fds1, open1, acc1, gor1, mem1 := audit3OpenFDs(t), cl.open.Load(), cl.accepted.Load(), runtime.NumGoroutine(), mem()

	t.Logf("%d key exchanges: daemon connections accepted %d -> %d, still open %d -> %d; "+
		"open file descriptors of the process %d -> %d; goroutines %d -> %d; heap and stacks in use %d -> %d KiB "+
		"(this process holds both ends of the daemon connections)",
		exchanges, acc0, acc1, open0, open1, fds0, fds1, gor0, gor1, mem0/1024, mem1/1024)
	if open1-open0 >= exchanges/2 {
		t.Fatalf("C08 violated: %d key exchanges left %d more connections to the SCION daemon open "+
			"(%d more file descriptors in this process, client and daemon side): every exchange leaks one",
			exchanges, open1-open0, fds1-fds0)
	}
}
