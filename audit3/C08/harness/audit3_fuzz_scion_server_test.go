package server

// Scratch harness (audit round 3): structure-aware random SCION datagrams with
// valid SPAO (mock keys) and valid NTS against runSCIONServer.
// Run with USE_MOCK_KEYS=true.

import (
	"bytes"
	"context"
	crand "crypto/rand"
	"fmt"
	"log/slog"
	"math/rand"
	"net"
	"os"
	"testing"
	"time"

	"github.com/google/gopacket"

	"github.com/scionproto/scion/pkg/addr"
	"github.com/scionproto/scion/pkg/slayers"
	"github.com/scionproto/scion/pkg/slayers/path"
	"github.com/scionproto/scion/pkg/slayers/path/empty"
	"github.com/scionproto/scion/pkg/slayers/path/epic"
	"github.com/scionproto/scion/pkg/slayers/path/onehop"
	scionpath "github.com/scionproto/scion/pkg/slayers/path/scion"
	"github.com/scionproto/scion/pkg/spao"

	"example.com/scion-time/net/ntp"
	"example.com/scion-time/net/nts"
	"example.com/scion-time/net/ntske"
	"example.com/scion-time/net/scion"
)

type fz struct {
	r        *rand.Rand
	provider *ntske.Provider
	c2s, s2c []byte
}

func (f *fz) cookie() []byte {
	sc := ntske.ServerCookie{Algo: ntske.AES_SIV_CMAC_256, S2C: f.s2c, C2S: f.c2s}
	k := f.provider.Current()
	ec, err := sc.EncryptWithNonce(k.Value, k.ID)
	if err != nil {
		panic(err)
	}
	return ec.Encode()
}

func (f *fz) ntpPayload() []byte {
	r := f.r
	var p ntp.Packet
	p.SetVersion(uint8(1 + r.Intn(4)))
	p.SetMode(ntp.ModeClient)
	if r.Intn(10) == 0 {
		p.LVM = uint8(r.Intn(256))
	}
	p.TransmitTime = ntp.Time64{Seconds: r.Uint32(), Fraction: r.Uint32()}
	if r.Intn(2) == 0 {
		p.OriginTime = ntp.Time64{Seconds: r.Uint32(), Fraction: r.Uint32()}
		p.ReceiveTime = ntp.Time64{Seconds: r.Uint32(), Fraction: r.Uint32()}
	}
	var b []byte
	ntp.EncodePacket(&b, &p)
	switch r.Intn(4) {
	case 0:
		return b
	case 1:
		// random tail
		t := make([]byte, r.Intn(200))
		r.Read(t)
		return append(b, t...)
	}
	// NTS
	var pkt nts.Packet
	idlen := 32
	switch r.Intn(4) {
	case 0:
		idlen = 32 + r.Intn(40)
	case 1:
		idlen = 32 + r.Intn(900)
	}
	pkt.UniqueID.ID = make([]byte, idlen)
	r.Read(pkt.UniqueID.ID)
	nc := 1 + r.Intn(2)
	budget := 1232 - 48 - 4 - idlen - 8 - 48
	for i := 0; i < nc; i++ {
		c := f.cookie()
		if r.Intn(8) == 0 {
			c = c[:r.Intn(len(c))]
		}
		if budget < len(c)+8 {
			break
		}
		budget -= len(c) + 8
		pkt.Cookies = append(pkt.Cookies, nts.Cookie{Cookie: c})
	}
	np := r.Intn(12)
	for i := 0; i < np; i++ {
		l := r.Intn(140)
		if budget < l+8 {
			break
		}
		budget -= l + 8
		pkt.CookiePlaceholders = append(pkt.CookiePlaceholders, nts.CookiePlaceholder{Cookie: make([]byte, l)})
	}
	pkt.Auth.Key = f.c2s
	if r.Intn(3) == 0 && budget > 8 {
		pt := make([]byte, r.Intn(budget-4))
		r.Read(pt)
		if r.Intn(2) == 0 && len(pt) >= 8 {
			// a sequence of well-formed encrypted fields
			pos := 0
			for len(pt)-pos >= 4 {
				l := 4 + r.Intn(40)
				if pos+l > len(pt) {
					l = len(pt) - pos
				}
				typ := []uint16{0x204, 0x304, 0x104, 0x404, uint16(r.Intn(65536))}[r.Intn(5)]
				pt[pos], pt[pos+1] = byte(typ>>8), byte(typ)
				pt[pos+2], pt[pos+3] = byte(l>>8), byte(l)
				pos += l
			}
		}
		pkt.Auth.PlainText = pt
	}
	func() {
		defer func() {
			if e := recover(); e != nil {
				b = b[:48]
			}
		}()
		nts.EncodePacket(&b, &pkt)
	}()
	b = bytes.Clone(b)
	if r.Intn(6) == 0 && len(b) > 48 {
		// damage after authentication
		b[48+r.Intn(len(b)-48)] ^= byte(1 << r.Intn(8))
	}
	if r.Intn(10) == 0 {
		b = b[:48+r.Intn(len(b)-48+1)]
	}
	return b
}

func (f *fz) scionPath() (path.Type, path.Path) {
	r := f.r
	mkDecoded := func() *scionpath.Decoded {
		ninf := 1 + r.Intn(3)
		d := &scionpath.Decoded{}
		d.NumINF = ninf
		for i := 0; i < ninf; i++ {
			n := 1 + r.Intn(6)
			if r.Intn(10) == 0 {
				n = 1 + r.Intn(20)
			}
			d.PathMeta.SegLen[i] = uint8(n)
			d.NumHops += n
		}
		if d.NumHops > 64 {
			d.PathMeta.SegLen = [3]uint8{2, 0, 0}
			d.NumINF, d.NumHops = 1, 2
		}
		d.PathMeta.CurrINF = uint8(r.Intn(d.NumINF))
		d.PathMeta.CurrHF = uint8(r.Intn(d.NumHops))
		if r.Intn(5) == 0 {
			d.PathMeta.CurrINF = uint8(r.Intn(4))
			d.PathMeta.CurrHF = uint8(r.Intn(64))
		}
		d.InfoFields = make([]path.InfoField, d.NumINF)
		for i := range d.InfoFields {
			d.InfoFields[i] = path.InfoField{ConsDir: r.Intn(2) == 0, Peer: r.Intn(4) == 0,
				SegID: uint16(r.Intn(65536)), Timestamp: r.Uint32()}
		}
		d.HopFields = make([]path.HopField, d.NumHops)
		for i := range d.HopFields {
			d.HopFields[i] = path.HopField{ExpTime: uint8(r.Intn(256)), ConsIngress: uint16(r.Intn(65536)),
				ConsEgress: uint16(r.Intn(65536)), IngressRouterAlert: r.Intn(8) == 0, EgressRouterAlert: r.Intn(8) == 0}
			r.Read(d.HopFields[i].Mac[:])
		}
		return d
	}
	switch r.Intn(5) {
	case 0:
		return empty.PathType, empty.Path{}
	case 1, 2:
		return scionpath.PathType, mkDecoded()
	case 3:
		p := &onehop.Path{}
		p.Info = path.InfoField{ConsDir: r.Intn(2) == 0, SegID: uint16(r.Intn(65536)), Timestamp: r.Uint32()}
		p.FirstHop = path.HopField{ExpTime: 63, ConsIngress: uint16(r.Intn(3)), ConsEgress: uint16(r.Intn(65536))}
		if r.Intn(2) == 0 {
			p.SecondHop = path.HopField{ExpTime: 63, ConsIngress: uint16(r.Intn(65536)), ConsEgress: uint16(r.Intn(3))}
		}
		return onehop.PathType, p
	default:
		d := mkDecoded()
		raw := make([]byte, d.Len())
		if err := d.SerializeTo(raw); err != nil {
			panic(err)
		}
		rp := &scionpath.Raw{}
		if err := rp.DecodeFromBytes(raw); err != nil {
			return scionpath.PathType, d
		}
		p := &epic.Path{PktID: epic.PktID{Timestamp: r.Uint32(), Counter: r.Uint32()},
			PHVF: make([]byte, 4), LHVF: make([]byte, 4), ScionPath: rp}
		return epic.PathType, p
	}
}

func (f *fz) hostAddr() (slayers.AddrType, []byte) {
	r := f.r
	switch r.Intn(6) {
	case 0:
		b := make([]byte, 16)
		r.Read(b)
		return slayers.T16Ip, b
	case 1:
		return slayers.T16Ip, net.ParseIP("127.0.0.1").To16()
	case 2:
		return slayers.T4Svc, []byte{0, byte(r.Intn(4)), 0, 0}
	case 3:
		b := make([]byte, 4)
		r.Read(b)
		return slayers.T4Ip, b
	default:
		return slayers.T4Ip, []byte{127, 0, 0, 1}
	}
}

// packet builds one datagram; dstPort is the UDP destination port.
func (f *fz) packet(dstPort, srcPort uint16) []byte {
	r := f.r
	var s slayers.SCION
	s.Version = 0
	s.TrafficClass = uint8(r.Intn(256))
	s.FlowID = uint32(r.Intn(1 << 20))
	s.DstIA = addr.MustParseIA("1-ff00:0:111")
	s.SrcIA = addr.MustParseIA("1-ff00:0:112")
	if r.Intn(4) == 0 {
		s.SrcIA = addr.IA(r.Uint64())
	}
	s.DstAddrType, s.RawDstAddr = f.hostAddr()
	s.SrcAddrType, s.RawSrcAddr = f.hostAddr()
	s.PathType, s.Path = f.scionPath()

	scmp := r.Intn(8) == 0
	var l4 []byte
	var l4type slayers.L4ProtocolType
	{
		buffer := gopacket.NewSerializeBuffer()
		options := gopacket.SerializeOptions{ComputeChecksums: true, FixLengths: true}
		if scmp {
			l4type = slayers.L4SCMP
			var m slayers.SCMP
			m.SetNetworkLayerForChecksum(&s)
			typ := []slayers.SCMPType{slayers.SCMPTypeEchoRequest, slayers.SCMPTypeTracerouteRequest,
				slayers.SCMPTypeEchoReply, slayers.SCMPTypeDestinationUnreachable, slayers.SCMPType(r.Intn(256))}[r.Intn(5)]
			m.TypeCode = slayers.CreateSCMPTypeCode(typ, slayers.SCMPCode(r.Intn(3)))
			pl := make([]byte, r.Intn(64))
			r.Read(pl)
			if err := gopacket.SerializeLayers(buffer, options, &m, gopacket.Payload(pl)); err != nil {
				panic(err)
			}
		} else {
			l4type = slayers.L4UDP
			var u slayers.UDP
			u.SrcPort, u.DstPort = srcPort, dstPort
			if r.Intn(10) == 0 {
				u.DstPort = uint16(r.Intn(65536))
			}
			u.SetNetworkLayerForChecksum(&s)
			if err := gopacket.SerializeLayers(buffer, options, &u, gopacket.Payload(f.ntpPayload())); err != nil {
				panic(err)
			}
		}
		l4 = bytes.Clone(buffer.Bytes())
		if !scmp && r.Intn(12) == 0 {
			// UDP length field games
			v := []int{0, 7, 8, len(l4) - 1, len(l4) + 1, 65535}[r.Intn(6)]
			l4[4], l4[5] = byte(v>>8), byte(v)
		}
	}

	// end-to-end options
	var e2eOpts []*slayers.EndToEndOption
	withAuth := !scmp && r.Intn(2) == 0
	validAuth := false
	if withAuth {
		opt := &slayers.EndToEndOption{OptType: slayers.OptTypeAuthenticator}
		switch r.Intn(8) {
		case 0:
			opt.OptData = make([]byte, r.Intn(60))
			r.Read(opt.OptData)
		case 1:
			// the time service's label, wrong size
			opt.OptData = make([]byte, 5+r.Intn(40))
			spi := scion.PacketAuthSPIClient
			opt.OptData[0], opt.OptData[1], opt.OptData[2], opt.OptData[3] = byte(spi>>24), byte(spi>>16), byte(spi>>8), byte(spi)
		default:
			opt.OptData = make([]byte, scion.PacketAuthOptDataLen)
			scion.PreparePacketAuthOpt(opt, scion.PacketAuthSPIClient, scion.PacketAuthAlgorithm)
			if r.Intn(4) == 0 {
				// timestamp / sequence number
				r.Read(opt.OptData[5:12])
			}
			s.NextHdr = slayers.End2EndClass // as the server will see it? (not part of the MAC input)
			_, err := spao.ComputeAuthCMAC(spao.MACInput{
				Key:        make([]byte, 16),
				Header:     slayers.PacketAuthOption{EndToEndOption: opt},
				ScionLayer: &s,
				PldType:    slayers.L4UDP,
				Pld:        l4,
			}, make([]byte, spao.MACBufferSize), scion.PacketAuthOptMAC(opt))
			if err == nil {
				validAuth = true
			}
			if r.Intn(6) == 0 {
				opt.OptData[12+r.Intn(16)] ^= 1
				validAuth = false
			}
			opt.OptAlign = [2]uint8{0, 0}
			if r.Intn(2) == 0 {
				opt.OptAlign = [2]uint8{4, 2}
			}
		}
		e2eOpts = append(e2eOpts, opt)
	}
	_ = validAuth
	nextra := r.Intn(4)
	for i := 0; i < nextra; i++ {
		opt := &slayers.EndToEndOption{}
		switch r.Intn(5) {
		case 0:
			opt.OptType = slayers.OptTypePad1
		case 1:
			opt.OptType = slayers.OptTypePadN
			opt.OptData = make([]byte, r.Intn(6))
		case 2:
			opt.OptType = scion.OptTypeTimestamp
			opt.OptData = make([]byte, []int{0, 15, 16, 32, 63, 64, 65, 100}[r.Intn(8)])
			r.Read(opt.OptData)
			if len(opt.OptData) >= 16 && r.Intn(2) == 0 {
				copy(opt.OptData, []byte{byte(len(opt.OptData)), 0, 0, 0, 0, 0, 0, 0, 1, 0, 0, 0, byte([]int{35, 65, 37}[r.Intn(3)]), 0, 0, 0})
			}
		case 3:
			opt.OptType = slayers.OptTypeAuthenticator
			opt.OptData = make([]byte, []int{0, 4, 5, 12, 27, 28, 29, 44}[r.Intn(8)])
			r.Read(opt.OptData)
		default:
			opt.OptType = slayers.OptionType(r.Intn(256))
			opt.OptData = make([]byte, r.Intn(40))
			r.Read(opt.OptData)
		}
		if r.Intn(2) == 0 {
			e2eOpts = append(e2eOpts, opt)
		} else {
			e2eOpts = append([]*slayers.EndToEndOption{opt}, e2eOpts...)
		}
	}
	if r.Intn(30) == 0 {
		// a header that is (nearly) full
		for {
			n := 0
			for _, o := range e2eOpts {
				n += 2 + len(o.OptData)
			}
			if n > 1024-2-258 {
				break
			}
			e2eOpts = append(e2eOpts, &slayers.EndToEndOption{OptType: slayers.OptionType(200), OptData: make([]byte, 200+r.Intn(56))})
		}
	}

	buffer := gopacket.NewSerializeBuffer()
	options := gopacket.SerializeOptions{ComputeChecksums: true, FixLengths: true}
	if err := gopacket.Payload(l4).SerializeTo(buffer, options); err != nil {
		panic(err)
	}
	next := l4type
	if len(e2eOpts) != 0 {
		e := slayers.EndToEndExtn{Options: e2eOpts}
		e.NextHdr = next
		if err := e.SerializeTo(buffer, options); err == nil {
			next = slayers.End2EndClass
		}
	}
	if r.Intn(4) == 0 {
		h := slayers.HopByHopExtn{}
		h.NextHdr = next
		n := r.Intn(3)
		for i := 0; i < n; i++ {
			d := make([]byte, r.Intn(20))
			r.Read(d)
			h.Options = append(h.Options, &slayers.HopByHopOption{OptType: slayers.OptionType(r.Intn(256)), OptData: d})
		}
		if err := h.SerializeTo(buffer, options); err == nil {
			next = slayers.HopByHopClass
		}
	}
	s.NextHdr = next
	if err := s.SerializeTo(buffer, options); err != nil {
		return nil
	}
	pkt := bytes.Clone(buffer.Bytes())
	switch r.Intn(12) {
	case 0:
		// random damage
		n := 1 + r.Intn(4)
		for i := 0; i < n; i++ {
			pkt[r.Intn(len(pkt))] ^= byte(1 << r.Intn(8))
		}
	case 1:
		// damage in the common/address header
		pkt[r.Intn(12)] = byte(r.Intn(256))
	case 2:
		pkt = pkt[:r.Intn(len(pkt)+1)]
	case 3:
		t := make([]byte, r.Intn(50))
		r.Read(t)
		pkt = append(pkt, t...)
	}
	return pkt
}

func TestAudit3FuzzSCIONServer(t *testing.T) {
	if !scion.UseMockKeys() {
		t.Skip("run with USE_MOCK_KEYS=true")
	}
	seed := time.Now().UnixNano()
	if s := os.Getenv("AUDIT3_SEED"); s != "" {
		fmt.Sscan(s, &seed)
	}
	t.Logf("seed %d", seed)
	f := &fz{r: rand.New(rand.NewSource(seed)), provider: ntske.NewProvider(),
		c2s: make([]byte, 32), s2c: make([]byte, 32)}
	crand.Read(f.c2s)
	crand.Read(f.s2c)

	ctx := context.Background()
	log := slog.New(slog.DiscardHandler)
	mtrcs := newSCIONServerMetrics()

	lc := net.ListenConfig{}
	pc, err := lc.ListenPacket(ctx, "udp", "127.0.0.1:0")
	if err != nil {
		t.Fatal(err)
	}
	port := pc.LocalAddr().(*net.UDPAddr).Port
	go runSCIONServer(ctx, log, mtrcs, pc.(*net.UDPConn), "", port, 0, scion.NewFetcher(nil), f.provider)

	pc2, err := lc.ListenPacket(ctx, "udp", "127.0.0.1:30041")
	var port2 int
	if err == nil {
		port2 = 30041
		go runSCIONServer(ctx, log, mtrcs, pc2.(*net.UDPConn), "", port, 0, scion.NewFetcher(nil), f.provider)
		// and a dispatcher-like instance would need the same port; skip
	} else {
		t.Logf("no end-host port: %v", err)
	}

	conn, err := net.ListenUDP("udp", &net.UDPAddr{IP: net.IPv4(127, 0, 0, 1)})
	if err != nil {
		t.Fatal(err)
	}
	defer conn.Close()
	srcPort := uint16(conn.LocalAddr().(*net.UDPAddr).Port)

	probe := func(to int) bool {
		// canonical request over the empty path
		var s slayers.SCION
		s.DstIA = addr.MustParseIA("1-ff00:0:111")
		s.SrcIA = addr.MustParseIA("1-ff00:0:112")
		s.DstAddrType, s.RawDstAddr = slayers.T4Ip, []byte{127, 0, 0, 1}
		s.SrcAddrType, s.RawSrcAddr = slayers.T4Ip, []byte{127, 0, 0, 1}
		s.PathType, s.Path = empty.PathType, empty.Path{}
		s.NextHdr = slayers.L4UDP
		var u slayers.UDP
		u.SrcPort, u.DstPort = srcPort, uint16(port)
		u.SetNetworkLayerForChecksum(&s)
		var p ntp.Packet
		p.SetVersion(4)
		p.SetMode(ntp.ModeClient)
		p.TransmitTime = ntp.Time64{Seconds: f.r.Uint32(), Fraction: f.r.Uint32()}
		var b []byte
		ntp.EncodePacket(&b, &p)
		buffer := gopacket.NewSerializeBuffer()
		options := gopacket.SerializeOptions{ComputeChecksums: true, FixLengths: true}
		if err := gopacket.SerializeLayers(buffer, options, &s, &u, gopacket.Payload(b)); err != nil {
			t.Fatal(err)
		}
		for try := 0; try < 3; try++ {
			// drain
			_ = conn.SetReadDeadline(time.Now().Add(time.Millisecond))
			rb := make([]byte, 10000)
			for {
				if _, _, err := conn.ReadFromUDP(rb); err != nil {
					break
				}
			}
			_, _ = conn.WriteToUDP(buffer.Bytes(), &net.UDPAddr{IP: net.IPv4(127, 0, 0, 1), Port: to})
			_ = conn.SetReadDeadline(time.Now().Add(500 * time.Millisecond))
			for {
				n, _, err := conn.ReadFromUDP(rb)
				if err != nil {
					break
				}
				// the answer to the probe: origin == our transmit time
				if n >= 48 && bytes.Contains(rb[:n], b[40:48]) {
					return true
				}
			}
		}
		return false
	}

	if !probe(port) {
		t.Fatal("no answer to begin with")
	}
	dur := 20 * time.Second
	if s := os.Getenv("AUDIT3_DUR"); s != "" {
		if d, err := time.ParseDuration(s); err == nil {
			dur = d
		}
	}
	end := time.Now().Add(dur)
	n := 0
	answers := 0
	rb := make([]byte, 10000)
	for time.Now().Before(end) {
		var batch [][]byte
		for i := 0; i < 200; i++ {
			to := port
			if port2 != 0 && f.r.Intn(4) == 0 {
				to = port2
			}
			pkt := f.packet(uint16(port), srcPort)
			if pkt == nil {
				continue
			}
			batch = append(batch, pkt)
			_, _ = conn.WriteToUDP(pkt, &net.UDPAddr{IP: net.IPv4(127, 0, 0, 1), Port: to})
			n++
			if i%20 == 19 {
				_ = conn.SetReadDeadline(time.Now().Add(2 * time.Millisecond))
				for {
					if _, _, err := conn.ReadFromUDP(rb); err != nil {
						break
					}
					answers++
				}
			}
		}
		if !probe(port) {
			for i, p := range batch {
				_ = os.WriteFile(fmt.Sprintf("/tmp/audit3-C08/out/batch-%03d.bin", i), p, 0o644)
			}
			t.Fatalf("listener on %d stopped answering after %d datagrams", port, n)
		}
		if port2 != 0 && !probe(port2) {
			t.Fatalf("listener on %d stopped answering after %d datagrams", port2, n)
		}
	}
	t.Logf("%d datagrams, %d answers, listeners alive", n, answers)
}
