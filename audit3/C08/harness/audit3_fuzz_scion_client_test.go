package client

// Scratch harness (audit round 3): a SCION "server" on the loopback interface
// that answers the requests of SCIONClient with structure-aware random
// responses (valid SPAO with mock keys). Run with USE_MOCK_KEYS=true.

import (
	"bytes"
	"context"
	"encoding/binary"
	"fmt"
	"log/slog"
	"math/rand"
	"net"
	"os"
	"testing"
	"time"

	"github.com/google/gopacket"

	"github.com/scionproto/scion/pkg/addr"
	"github.com/scionproto/scion/pkg/slayers"
	"github.com/scionproto/scion/pkg/slayers/path"
	"github.com/scionproto/scion/pkg/slayers/path/empty"
	"github.com/scionproto/scion/pkg/slayers/path/epic"
	"github.com/scionproto/scion/pkg/slayers/path/onehop"
	scionpath "github.com/scionproto/scion/pkg/slayers/path/scion"
	"github.com/scionproto/scion/pkg/snet"
	spath "github.com/scionproto/scion/pkg/snet/path"
	"github.com/scionproto/scion/pkg/spao"

	"example.com/scion-time/core/timebase"
	"example.com/scion-time/driver/clocks"
	"example.com/scion-time/net/ntp"
	"example.com/scion-time/net/scion"
	"example.com/scion-time/net/udp"
)

func init() {
	timebase.RegisterClock(clocks.NewSystemClock(slog.New(slog.DiscardHandler), clocks.UnknownDrift))
}

func a3path(r *rand.Rand) (path.Type, path.Path) {
	mkDecoded := func() *scionpath.Decoded {
		ninf := 1 + r.Intn(3)
		d := &scionpath.Decoded{}
		d.NumINF = ninf
		for i := 0; i < ninf; i++ {
			n := 1 + r.Intn(6)
			d.PathMeta.SegLen[i] = uint8(n)
			d.NumHops += n
		}
		d.PathMeta.CurrINF = uint8(r.Intn(d.NumINF))
		d.PathMeta.CurrHF = uint8(r.Intn(d.NumHops))
		d.InfoFields = make([]path.InfoField, d.NumINF)
		d.HopFields = make([]path.HopField, d.NumHops)
		for i := range d.HopFields {
			d.HopFields[i] = path.HopField{ExpTime: uint8(r.Intn(256)), ConsIngress: uint16(r.Intn(65536)),
				ConsEgress: uint16(r.Intn(65536))}
		}
		return d
	}
	switch r.Intn(6) {
	case 0, 1, 2:
		return empty.PathType, empty.Path{}
	case 3:
		return scionpath.PathType, mkDecoded()
	case 4:
		p := &onehop.Path{}
		p.FirstHop = path.HopField{ExpTime: 63, ConsEgress: uint16(r.Intn(65536))}
		if r.Intn(2) == 0 {
			p.SecondHop = path.HopField{ExpTime: 63, ConsIngress: uint16(r.Intn(65536))}
		}
		return onehop.PathType, p
	default:
		d := mkDecoded()
		raw := make([]byte, d.Len())
		_ = d.SerializeTo(raw)
		rp := &scionpath.Raw{}
		if err := rp.DecodeFromBytes(raw); err != nil {
			return scionpath.PathType, d
		}
		return epic.PathType, &epic.Path{PHVF: make([]byte, 4), LHVF: make([]byte, 4), ScionPath: rp}
	}
}

func a3tsopt(r *rand.Rand, rxt time.Time) []byte {
	l := []int{0, 15, 16, 32, 63, 64, 65, 100}[r.Intn(8)]
	b := make([]byte, l)
	r.Read(b)
	if l >= 64 && r.Intn(3) != 0 {
		binary.LittleEndian.PutUint64(b[0:], 64)
		binary.LittleEndian.PutUint32(b[8:], 1)
		binary.LittleEndian.PutUint32(b[12:], 65)
		for i := 16; i < 64; i++ {
			b[i] = 0
		}
		t := rxt.Add(time.Duration(r.Intn(2000)-1000) * time.Microsecond)
		switch r.Intn(6) {
		case 0:
			t = time.Unix(r.Int63(), r.Int63())
		case 1:
			t = time.Unix(-r.Int63(), 0)
		}
		slot := []int{16, 48, 32}[r.Intn(3)]
		binary.LittleEndian.PutUint64(b[slot:], uint64(t.Unix()))
		binary.LittleEndian.PutUint64(b[slot+8:], uint64(t.Nanosecond()))
		if r.Intn(8) == 0 {
			binary.LittleEndian.PutUint64(b[slot+8:], r.Uint64())
		}
	} else if l >= 32 && r.Intn(2) == 0 {
		binary.LittleEndian.PutUint64(b[0:], 32)
		binary.LittleEndian.PutUint32(b[8:], 1)
		binary.LittleEndian.PutUint32(b[12:], 35)
		binary.LittleEndian.PutUint64(b[16:], uint64(rxt.Unix()))
		binary.LittleEndian.PutUint64(b[24:], uint64(rxt.Nanosecond()))
	}
	return b
}

// a3respond builds a response to the request req (a SCION datagram).
func a3respond(r *rand.Rand, req []byte) [][]byte {
	var (
		s   slayers.SCION
		hbh slayers.HopByHopExtnSkipper
		e2e slayers.EndToEndExtn
		u   slayers.UDP
	)
	parser := gopacket.NewDecodingLayerParser(slayers.LayerTypeSCION, &s, &hbh, &e2e, &u)
	parser.IgnoreUnsupported = true
	decoded := make([]gopacket.LayerType, 4)
	if err := parser.DecodeLayers(req, &decoded); err != nil || decoded[len(decoded)-1] != slayers.LayerTypeSCIONUDP {
		return nil
	}
	var ntpreq ntp.Packet
	if err := ntp.DecodePacket(&ntpreq, u.Payload); err != nil {
		return nil
	}
	now := time.Now()

	var out [][]byte
	nresp := 1
	if r.Intn(4) == 0 {
		nresp = 2 + r.Intn(2)
	}
	for k := 0; k < nresp; k++ {
		var rs slayers.SCION
		rs.TrafficClass = uint8(r.Intn(256))
		rs.FlowID = uint32(r.Intn(1 << 20))
		rs.DstIA, rs.SrcIA = s.SrcIA, s.DstIA
		rs.DstAddrType, rs.RawDstAddr = s.SrcAddrType, bytes.Clone(s.RawSrcAddr)
		rs.SrcAddrType, rs.RawSrcAddr = s.DstAddrType, bytes.Clone(s.RawDstAddr)
		switch r.Intn(12) {
		case 0:
			rs.SrcAddrType = slayers.T4Svc
		case 1:
			rs.SrcAddrType, rs.RawSrcAddr = slayers.T16Ip, net.IP(rs.RawSrcAddr).To16()
		case 2:
			rs.DstAddrType, rs.RawDstAddr = slayers.T16Ip, net.IP(rs.RawDstAddr).To16()
		case 3:
			rs.SrcIA = addr.IA(r.Uint64())
		}
		rs.PathType, rs.Path = a3path(r)

		var resp ntp.Packet
		resp.SetVersion(4)
		resp.SetMode(ntp.ModeServer)
		resp.Stratum = 1
		resp.OriginTime = ntpreq.TransmitTime
		if ntpreq.ReceiveTime != ntpreq.TransmitTime && r.Intn(2) == 0 {
			resp.OriginTime = ntpreq.ReceiveTime // interleaved
		}
		rx := now.Add(time.Duration(r.Intn(2000)-1000) * time.Microsecond)
		tx := rx.Add(time.Duration(r.Intn(100)) * time.Microsecond)
		switch r.Intn(10) {
		case 0:
			rx = time.Unix(r.Int63n(1<<33), 0)
		case 1:
			tx = rx.Add(-time.Duration(r.Intn(100)) * time.Microsecond)
		case 2:
			rx, tx = time.Unix(r.Int63n(1<<33), 0), time.Unix(r.Int63n(1<<33), 0)
		}
		resp.ReceiveTime = ntp.Time64FromTime(rx)
		resp.TransmitTime = ntp.Time64FromTime(tx)
		switch r.Intn(16) {
		case 0:
			resp.OriginTime.Fraction++
		case 1:
			resp.Stratum = uint8(r.Intn(256))
		case 2:
			resp.LVM = uint8(r.Intn(256))
		}
		var pl []byte
		ntp.EncodePacket(&pl, &resp)
		switch r.Intn(10) {
		case 0:
			pl = pl[:r.Intn(48)]
		case 1:
			t := make([]byte, r.Intn(300))
			r.Read(t)
			pl = append(pl, t...)
		}

		var ru slayers.UDP
		ru.SrcPort, ru.DstPort = u.DstPort, u.SrcPort
		ru.SetNetworkLayerForChecksum(&rs)
		buffer := gopacket.NewSerializeBuffer()
		options := gopacket.SerializeOptions{ComputeChecksums: true, FixLengths: true}
		if err := gopacket.SerializeLayers(buffer, options, &ru, gopacket.Payload(pl)); err != nil {
			continue
		}
		l4 := bytes.Clone(buffer.Bytes())
		if r.Intn(16) == 0 {
			v := []int{0, 7, 8, len(l4) - 1, len(l4) + 1, 65535}[r.Intn(6)]
			l4[4], l4[5] = byte(v>>8), byte(v)
		}
		trailer := 0
		if r.Intn(10) == 0 {
			trailer = r.Intn(40)
		}

		var opts []*slayers.EndToEndOption
		if r.Intn(3) != 0 {
			opt := &slayers.EndToEndOption{OptType: slayers.OptTypeAuthenticator}
			switch r.Intn(8) {
			case 0:
				opt.OptData = make([]byte, r.Intn(60))
				r.Read(opt.OptData)
			default:
				opt.OptData = make([]byte, scion.PacketAuthOptDataLen)
				spi := scion.PacketAuthSPIServer
				if r.Intn(8) == 0 {
					spi = scion.PacketAuthSPIClient
				}
				scion.PreparePacketAuthOpt(opt, spi, scion.PacketAuthAlgorithm)
				if r.Intn(4) == 0 {
					r.Read(opt.OptData[5:12])
				}
				_, _ = spao.ComputeAuthCMAC(spao.MACInput{
					Key:        make([]byte, 16),
					Header:     slayers.PacketAuthOption{EndToEndOption: opt},
					ScionLayer: &rs,
					PldType:    slayers.L4UDP,
					Pld:        l4,
				}, make([]byte, spao.MACBufferSize), scion.PacketAuthOptMAC(opt))
				if r.Intn(6) == 0 {
					opt.OptData[12+r.Intn(16)] ^= 1
				}
			}
			opts = append(opts, opt)
		}
		if r.Intn(2) == 0 {
			o := &slayers.EndToEndOption{OptType: scion.OptTypeTimestamp, OptData: a3tsopt(r, now)}
			if r.Intn(2) == 0 {
				opts = append(opts, o)
			} else {
				opts = append([]*slayers.EndToEndOption{o}, opts...)
			}
		}
		if r.Intn(4) == 0 {
			d := make([]byte, r.Intn(40))
			r.Read(d)
			opts = append(opts, &slayers.EndToEndOption{OptType: slayers.OptionType(r.Intn(256)), OptData: d})
		}

		buffer = gopacket.NewSerializeBuffer()
		tl := make([]byte, trailer)
		r.Read(tl)
		_ = gopacket.Payload(append(bytes.Clone(l4), tl...)).SerializeTo(buffer, options)
		next := slayers.L4UDP
		if r.Intn(20) == 0 {
			next = slayers.L4SCMP
		}
		if len(opts) != 0 {
			e := slayers.EndToEndExtn{Options: opts}
			e.NextHdr = next
			if err := e.SerializeTo(buffer, options); err == nil {
				next = slayers.End2EndClass
			}
		}
		if r.Intn(6) == 0 {
			h := slayers.HopByHopExtn{}
			h.NextHdr = next
			if err := h.SerializeTo(buffer, options); err == nil {
				next = slayers.HopByHopClass
			}
		}
		rs.NextHdr = next
		if err := rs.SerializeTo(buffer, options); err != nil {
			continue
		}
		pkt := bytes.Clone(buffer.Bytes())
		switch r.Intn(16) {
		case 0:
			pkt[r.Intn(len(pkt))] ^= byte(1 << r.Intn(8))
		case 1:
			pkt = pkt[:r.Intn(len(pkt)+1)]
		case 2:
			pkt[8] = byte(r.Intn(256)) // path type
		}
		out = append(out, pkt)
	}
	return out
}

func TestAudit3FuzzSCIONClient(t *testing.T) {
	if !scion.UseMockKeys() {
		t.Skip("run with USE_MOCK_KEYS=true")
	}
	seed := time.Now().UnixNano()
	if s := os.Getenv("AUDIT3_SEED"); s != "" {
		fmt.Sscan(s, &seed)
	}
	t.Logf("seed %d", seed)
	r := rand.New(rand.NewSource(seed))

	srv, err := net.ListenUDP("udp", &net.UDPAddr{IP: net.IPv4(127, 0, 0, 1)})
	if err != nil {
		t.Fatal(err)
	}
	defer srv.Close()
	go func() {
		buf := make([]byte, 10000)
		for {
			n, from, err := srv.ReadFromUDP(buf)
			if err != nil {
				return
			}
			for _, p := range a3respond(r, bytes.Clone(buf[:n])) {
				_, _ = srv.WriteToUDP(p, from)
			}
		}
	}()

	ia := addr.MustParseIA("1-ff00:0:111")
	log := slog.New(slog.DiscardHandler)
	fetcher := scion.NewFetcher(nil)
	var cs []*SCIONClient
	for i := 0; i < 3; i++ {
		c := &SCIONClient{Log: log, InterleavedMode: true}
		c.Auth.Enabled = i != 2
		c.Auth.DRKeyFetcher = fetcher
		if i == 0 {
			c.Filter = NewNtimedFilter(log)
		}
		cs = append(cs, c)
	}
	localAddr := udp.UDPAddr{IA: ia, Host: &net.UDPAddr{IP: net.IPv4(127, 0, 0, 1)}}
	remoteAddr := udp.UDPAddr{IA: ia, Host: srv.LocalAddr().(*net.UDPAddr)}

	dur := 20 * time.Second
	if s := os.Getenv("AUDIT3_DUR"); s != "" {
		if d, err := time.ParseDuration(s); err == nil {
			dur = d
		}
	}
	end := time.Now().Add(dur)
	n, ok := 0, 0
	for time.Now().Before(end) {
		ps := []snet.Path{spath.Path{Src: ia, Dst: ia, DataplanePath: spath.Empty{}, NextHop: remoteAddr.Host}}
		ctx, cancel := context.WithTimeout(context.Background(), 20*time.Millisecond)
		t0 := time.Now()
		_, _, err := MeasureClockOffsetSCION(ctx, log, cs[n%3:n%3+1], localAddr, remoteAddr, ps)
		cancel()
		if d := time.Since(t0); d > 500*time.Millisecond {
			t.Fatalf("measurement took %v", d)
		}
		if err == nil {
			ok++
		}
		n++
	}
	t.Logf("%d measurements, %d successful", n, ok)
}
