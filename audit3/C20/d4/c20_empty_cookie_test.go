package ntske

// C20 / audit round 3: a cookie record with an empty body counts as "a cookie":
// the exchange succeeds although the server supplied no cookie a request could
// carry.

import (
	"bufio"
	"bytes"
	"context"
	"crypto/ecdsa"
	"crypto/elliptic"
	"crypto/rand"
	"crypto/tls"
	"crypto/x509"
	"crypto/x509/pkix"
	"encoding/binary"
	"io"
	"log/slog"
	"math/big"
	"net"
	"testing"
	"time"
)

func c20d4Rec(typ uint16, critical bool, body []byte) []byte {
	if critical {
		typ |= 1 << 15
	}
	b := make([]byte, 4+len(body))
	binary.BigEndian.PutUint16(b[0:], typ)
	binary.BigEndian.PutUint16(b[2:], uint16(len(body)))
	copy(b[4:], body)
	return b
}

func TestC20EmptyCookieRecordCountsAsCookie(t *testing.T) {
	key, err := ecdsa.GenerateKey(elliptic.P256(), rand.Reader)
	if err != nil {
		t.Fatal(err)
	}
	tmpl := x509.Certificate{
		SerialNumber: big.NewInt(1),
		Subject:      pkix.Name{CommonName: "localhost"},
		NotBefore:    time.Now().Add(-time.Hour),
		NotAfter:     time.Now().Add(time.Hour),
		IPAddresses:  []net.IP{net.ParseIP("127.0.0.1")},
	}
	der, err := x509.CreateCertificate(rand.Reader, &tmpl, &tmpl, &key.PublicKey, key)
	if err != nil {
		t.Fatal(err)
	}
	l, err := tls.Listen("tcp", "127.0.0.1:0", &tls.Config{
		Certificates: []tls.Certificate{{Certificate: [][]byte{der}, PrivateKey: key}},
		NextProtos:   []string{"ntske/1"},
		MinVersion:   tls.VersionTLS13,
	})
	if err != nil {
		t.Fatal(err)
	}
	defer l.Close()
	response := bytes.Join([][]byte{
		c20d4Rec(RecNextproto, true, []byte{0, 0}),
		c20d4Rec(RecAead, true, []byte{0, AES_SIV_CMAC_256}),
		c20d4Rec(RecCookie, false, nil), // a cookie record without a cookie
		c20d4Rec(RecEom, true, nil),
	}, nil)
	go func() {
		for {
			c, err := l.Accept()
			if err != nil {
				return
			}
			go func() {
				defer c.Close()
				var d Data
				_ = ReadData(context.Background(), slog.Default(), bufio.NewReader(c), &d)
				_, _ = c.Write(response)
				_, _ = io.Copy(io.Discard, c)
			}()
		}
	}()
	host, port, _ := net.SplitHostPort(l.Addr().String())

	f := &Fetcher{Log: slog.New(slog.NewTextHandler(io.Discard, nil))}
	f.TLSConfig = tls.Config{InsecureSkipVerify: true, ServerName: host, MinVersion: tls.VersionTLS13}
	f.Port = port
	ctx, cancel := context.WithTimeout(context.Background(), 2*time.Second)
	defer cancel()
	d, err := f.FetchData(ctx)
	if err == nil {
		t.Fatalf("key exchange succeeded without a usable cookie: %d cookie(s), length of the one handed to the request: %d bytes",
			len(d.Cookie), len(d.Cookie[0]))
	}
	t.Logf("refused: %v", err)
}
