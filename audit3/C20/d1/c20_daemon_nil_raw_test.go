package ntske

// The same history as in c20_daemon_nil_test.go without the recover(): shows
// the stack of the crash (run it alone; it takes the test binary down).

import (
	"context"
	"crypto/tls"
	"io"
	"log/slog"
	"net"
	"os"
	"testing"
	"time"

	"github.com/scionproto/scion/pkg/addr"

	"example.com/scion-time/net/udp"
)

func TestC20KeyExchangeQUICDaemonUnreachableRaw(t *testing.T) {
	if os.Getenv("C20_RAW") == "" {
		t.Skip("set C20_RAW=1 to see the unrecovered panic")
	}
	l, err := net.Listen("tcp", "127.0.0.1:0")
	if err != nil {
		t.Fatal(err)
	}
	daemonAddr := l.Addr().String()
	l.Close()
	f := &Fetcher{Log: slog.New(slog.NewTextHandler(io.Discard, nil))}
	f.TLSConfig = tls.Config{InsecureSkipVerify: true, ServerName: "127.0.0.1", MinVersion: tls.VersionTLS13}
	f.Port = "14460"
	f.QUIC.Enabled = true
	f.QUIC.DaemonAddr = daemonAddr
	f.QUIC.LocalAddr = udp.UDPAddr{IA: addr.MustParseIA("1-ff00:0:111"), Host: &net.UDPAddr{IP: net.IPv4(127, 0, 0, 1)}}
	f.QUIC.RemoteAddr = udp.UDPAddr{IA: addr.MustParseIA("1-ff00:0:112"), Host: &net.UDPAddr{IP: net.IPv4(127, 0, 0, 1), Port: 14460}}
	ctx, cancel := context.WithTimeout(context.Background(), 500*time.Millisecond)
	defer cancel()
	_, err = f.FetchData(ctx)
	t.Logf("err=%v", err)
}
