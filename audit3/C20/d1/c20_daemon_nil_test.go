package ntske

// C20 / audit round 3: a key exchange over SCION/QUIC with a server in another
// AS dereferences a nil daemon connector when the SCION daemon cannot be
// reached within the caller's deadline (sibling of the repair 5e72527, which
// covered only the DRKey fetcher).

import (
	"context"
	"crypto/tls"
	"io"
	"log/slog"
	"net"
	"testing"
	"time"

	"github.com/scionproto/scion/pkg/addr"

	"example.com/scion-time/net/udp"
)

func TestC20KeyExchangeQUICDaemonUnreachable(t *testing.T) {
	// a TCP port on which nothing listens: the SCION daemon is down (restarting)
	l, err := net.Listen("tcp", "127.0.0.1:0")
	if err != nil {
		t.Fatal(err)
	}
	daemonAddr := l.Addr().String()
	l.Close()

	// wired as timeservice.go:configureSCIONClientNTS does
	f := &Fetcher{Log: slog.New(slog.NewTextHandler(io.Discard, nil))}
	f.TLSConfig = tls.Config{
		NextProtos:         []string{"ntske/1"},
		InsecureSkipVerify: true,
		ServerName:         "127.0.0.1",
		MinVersion:         tls.VersionTLS13,
	}
	f.Port = "14460"
	f.QUIC.Enabled = true
	f.QUIC.DaemonAddr = daemonAddr
	f.QUIC.LocalAddr = udp.UDPAddr{
		IA:   addr.MustParseIA("1-ff00:0:111"),
		Host: &net.UDPAddr{IP: net.IPv4(127, 0, 0, 1)},
	}
	f.QUIC.RemoteAddr = udp.UDPAddr{
		IA:   addr.MustParseIA("1-ff00:0:112"), // key-exchange server in another AS
		Host: &net.UDPAddr{IP: net.IPv4(127, 0, 0, 1), Port: 14460},
	}

	defer func() {
		if r := recover(); r != nil {
			t.Fatalf("FetchData panicked instead of failing the exchange: %v", r)
		}
	}()
	// the deadline of a synchronization round (sync timeout, default 500 ms)
	ctx, cancel := context.WithTimeout(context.Background(), 500*time.Millisecond)
	defer cancel()
	_, err = f.FetchData(ctx)
	if err == nil {
		t.Fatal("exchange cannot succeed without a path")
	}
	t.Logf("exchange failed as it should: %v", err)

	// and the next attempt must be possible
	ctx2, cancel2 := context.WithTimeout(context.Background(), 500*time.Millisecond)
	defer cancel2()
	_, err = f.FetchData(ctx2)
	if err == nil {
		t.Fatal("exchange cannot succeed without a path")
	}
}
