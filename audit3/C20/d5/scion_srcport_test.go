package client

// Audit round 3 (found while reading core/client/client_scion.go for C20):
// sibling of the repair 0fb4ba6 ("accept NTP responses only from the port that
// was queried"), which changed the IP client only. The SCION client compares
// the source IA and the source host address of a response with the queried
// server, but not the SCION/UDP source port (nor the underlay sender).

import (
	"context"
	"io"
	"log/slog"
	"net"
	"net/netip"
	"testing"
	"time"

	"github.com/google/gopacket"
	"github.com/scionproto/scion/pkg/addr"
	"github.com/scionproto/scion/pkg/slayers"
	"github.com/scionproto/scion/pkg/slayers/path/empty"
	"github.com/scionproto/scion/pkg/snet"
	spath "github.com/scionproto/scion/pkg/snet/path"

	"example.com/scion-time/core/timebase"
	"example.com/scion-time/net/ntp"
	"example.com/scion-time/net/udp"
)

type d5Clock struct{}

func (d5Clock) Epoch() uint64                                { return 0 }
func (d5Clock) Now() time.Time                               { return time.Now() }
func (d5Clock) Drift(time.Duration) time.Duration            { return 0 }
func (d5Clock) Step(time.Duration)                           { panic("not in this test") }
func (d5Clock) Adjust(time.Duration, time.Duration, float64) { panic("not in this test") }
func (d5Clock) Sleep(d time.Duration)                        { time.Sleep(d) }

func TestSCIONClientAcceptsResponseFromOtherPort(t *testing.T) {
	timebase.RegisterClock(d5Clock{})

	ia := addr.MustParseIA("1-ff00:0:111")
	lo := net.IPv4(127, 0, 0, 1)

	// the queried server's socket: receives the request, never answers
	srv, err := net.ListenUDP("udp", &net.UDPAddr{IP: lo})
	if err != nil {
		t.Fatal(err)
	}
	defer srv.Close()
	srvPort := srv.LocalAddr().(*net.UDPAddr).Port
	// another socket on the same host: some other process
	other, err := net.ListenUDP("udp", &net.UDPAddr{IP: lo})
	if err != nil {
		t.Fatal(err)
	}
	defer other.Close()
	otherPort := other.LocalAddr().(*net.UDPAddr).Port

	go func() {
		buf := make([]byte, 2048)
		for {
			n, from, err := srv.ReadFromUDPAddrPort(buf)
			if err != nil {
				return
			}
			var (
				scn slayers.SCION
				u   slayers.UDP
			)
			parser := gopacket.NewDecodingLayerParser(slayers.LayerTypeSCION, &scn, &u)
			parser.IgnoreUnsupported = true
			decoded := make([]gopacket.LayerType, 0, 4)
			if parser.DecodeLayers(buf[:n], &decoded) != nil || len(decoded) < 2 {
				continue
			}
			var req ntp.Packet
			if ntp.DecodePacket(&req, u.Payload) != nil {
				continue
			}
			now := time.Now()
			var resp ntp.Packet
			resp.SetVersion(4)
			resp.SetMode(ntp.ModeServer)
			resp.Stratum = 1
			resp.OriginTime = req.TransmitTime
			resp.ReceiveTime = ntp.Time64FromTime(now.Add(3 * time.Second)) // a clock 3 s off
			resp.TransmitTime = ntp.Time64FromTime(now.Add(3 * time.Second))
			pld := make([]byte, ntp.PacketLen)
			ntp.EncodePacket(&pld, &resp)

			var rs slayers.SCION
			rs.SrcIA, rs.DstIA = scn.DstIA, scn.SrcIA
			src, _ := scn.DstAddr()
			dst, _ := scn.SrcAddr()
			_ = rs.SetSrcAddr(src)
			_ = rs.SetDstAddr(dst)
			rs.PathType = empty.PathType
			rs.Path = empty.Path{}
			rs.NextHdr = slayers.L4UDP
			var ru slayers.UDP
			ru.SrcPort = uint16(otherPort) // NOT the port that was queried
			ru.DstPort = u.SrcPort
			ru.SetNetworkLayerForChecksum(&rs)
			sb := gopacket.NewSerializeBuffer()
			err = gopacket.SerializeLayers(sb,
				gopacket.SerializeOptions{ComputeChecksums: true, FixLengths: true},
				&rs, &ru, gopacket.Payload(pld))
			if err != nil {
				panic(err)
			}
			// sent from the other socket
			_, _ = other.WriteToUDPAddrPort(sb.Bytes(), from)
		}
	}()

	log := slog.New(slog.NewTextHandler(io.Discard, nil))
	c := &SCIONClient{Log: log}
	laddr := udp.UDPAddr{IA: ia, Host: &net.UDPAddr{IP: lo}}
	raddr := udp.UDPAddr{IA: ia, Host: &net.UDPAddr{IP: lo, Port: srvPort}}
	ps := []snet.Path{spath.Path{Src: ia, Dst: ia, DataplanePath: spath.Empty{}, NextHop: raddr.Host}}

	ctx, cancel := context.WithTimeout(context.Background(), 500*time.Millisecond)
	defer cancel()
	_, off, err := MeasureClockOffsetSCION(ctx, log, []*SCIONClient{c}, laddr, raddr, ps)
	if err == nil {
		t.Fatalf("queried %v, the answer came from SCION/UDP port %d (underlay port %d, too) and was accepted: offset %v",
			netip.AddrPortFrom(netip.MustParseAddr("127.0.0.1"), uint16(srvPort)), otherPort, otherPort, off)
	}
	t.Logf("refused: %v", err)
}
