package ntske

// C20 / audit round 3: every key exchange over SCION/QUIC (successful or
// failed, also to a server in the local AS, where the daemon is not needed at
// all) opens a new gRPC connection to the SCION daemon and never closes it.

import (
	"context"
	"crypto/tls"
	"io"
	"log/slog"
	"net"
	"os"
	"runtime"
	"sync/atomic"
	"testing"
	"time"

	"github.com/scionproto/scion/pkg/addr"

	"example.com/scion-time/net/udp"
)

// fakeDaemon accepts TCP connections and answers with an (empty) HTTP/2
// SETTINGS frame, which is all a gRPC client waits for before it reports the
// connection as established. It counts the connections that the peer has not
// closed yet.
type fakeDaemon struct {
	l        net.Listener
	accepted atomic.Int64
	open     atomic.Int64
}

func startFakeDaemon(t *testing.T) *fakeDaemon {
	l, err := net.Listen("tcp", "127.0.0.1:0")
	if err != nil {
		t.Fatal(err)
	}
	d := &fakeDaemon{l: l}
	go func() {
		for {
			c, err := l.Accept()
			if err != nil {
				return
			}
			d.accepted.Add(1)
			d.open.Add(1)
			go func() {
				defer c.Close()
				defer d.open.Add(-1)
				_, _ = c.Write([]byte{0, 0, 0, 4, 0, 0, 0, 0, 0}) // SETTINGS, no parameters
				_, _ = io.Copy(io.Discard, c)                      // until the client closes
			}()
		}
	}()
	t.Cleanup(func() { l.Close() })
	return d
}

func numFDs() int {
	es, _ := os.ReadDir("/proc/self/fd")
	return len(es)
}

func TestC20KeyExchangeQUICLeavesDaemonConnections(t *testing.T) {
	d := startFakeDaemon(t)

	// the key-exchange server is down: a UDP port on which nobody answers
	pc, err := net.ListenUDP("udp", &net.UDPAddr{IP: net.IPv4(127, 0, 0, 1)})
	if err != nil {
		t.Fatal(err)
	}
	defer pc.Close()

	ia := addr.MustParseIA("1-ff00:0:111")
	f := &Fetcher{Log: slog.New(slog.NewTextHandler(io.Discard, nil))}
	f.TLSConfig = tls.Config{
		NextProtos:         []string{"ntske/1"},
		InsecureSkipVerify: true,
		ServerName:         "127.0.0.1",
		MinVersion:         tls.VersionTLS13,
	}
	f.Port = "14460"
	f.QUIC.Enabled = true
	f.QUIC.DaemonAddr = d.l.Addr().String()
	f.QUIC.LocalAddr = udp.UDPAddr{IA: ia, Host: &net.UDPAddr{IP: net.IPv4(127, 0, 0, 1)}}
	f.QUIC.RemoteAddr = udp.UDPAddr{IA: ia, // same AS: no path lookup, the daemon is not needed
		Host: &net.UDPAddr{IP: net.IPv4(127, 0, 0, 1), Port: pc.LocalAddr().(*net.UDPAddr).Port}}

	fd0, g0 := numFDs(), runtime.NumGoroutine()
	const n = 40
	for i := 0; i < n; i++ {
		ctx, cancel := context.WithTimeout(context.Background(), 50*time.Millisecond)
		_, err := f.FetchData(ctx)
		cancel()
		if err == nil {
			t.Fatal("unexpected success: there is no key-exchange server")
		}
	}
	time.Sleep(time.Second) // let everything that is going to close, close
	t.Logf("%d failed exchanges: daemon connections accepted %d, still open %d; "+
		"open files %d -> %d; goroutines %d -> %d",
		n, d.accepted.Load(), d.open.Load(), fd0, numFDs(), g0, runtime.NumGoroutine())
	if open := d.open.Load(); open != 0 {
		t.Fatalf("%d failed key exchanges left %d connections to the SCION daemon open", n, open)
	}
}
