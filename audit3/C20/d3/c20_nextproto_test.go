package ntske

// C20 / audit round 3: the client never looks at the NTS Next Protocol
// Negotiation record of the response. An answer in which the server names no
// protocol at all (RFC 8915, 4.1.2: "no protocol in common"), only a protocol
// the client did not offer, or that lacks the record altogether, is accepted;
// the client exports its keys for protocol 0 (NTPv4) although NTPv4 was never
// agreed on.

import (
	"bufio"
	"bytes"
	"context"
	"crypto/ecdsa"
	"crypto/elliptic"
	"crypto/rand"
	"crypto/tls"
	"crypto/x509"
	"crypto/x509/pkix"
	"encoding/binary"
	"io"
	"log/slog"
	"math/big"
	"net"
	"testing"
	"time"
)

func c20d3Cert(t *testing.T) tls.Certificate {
	key, err := ecdsa.GenerateKey(elliptic.P256(), rand.Reader)
	if err != nil {
		t.Fatal(err)
	}
	tmpl := x509.Certificate{
		SerialNumber: big.NewInt(1),
		Subject:      pkix.Name{CommonName: "localhost"},
		NotBefore:    time.Now().Add(-time.Hour),
		NotAfter:     time.Now().Add(time.Hour),
		IPAddresses:  []net.IP{net.ParseIP("127.0.0.1")},
	}
	der, err := x509.CreateCertificate(rand.Reader, &tmpl, &tmpl, &key.PublicKey, key)
	if err != nil {
		t.Fatal(err)
	}
	return tls.Certificate{Certificate: [][]byte{der}, PrivateKey: key}
}

func c20d3Rec(typ uint16, critical bool, body []byte) []byte {
	if critical {
		typ |= 1 << 15
	}
	b := make([]byte, 4+len(body))
	binary.BigEndian.PutUint16(b[0:], typ)
	binary.BigEndian.PutUint16(b[2:], uint16(len(body)))
	copy(b[4:], body)
	return b
}

func c20d3U16(v ...uint16) []byte {
	b := make([]byte, 2*len(v))
	for i, x := range v {
		binary.BigEndian.PutUint16(b[2*i:], x)
	}
	return b
}

// c20d3Serve runs a TLS server (ALPN ntske/1, TLS 1.3) that reads the client's
// request and answers every connection with response.
func c20d3Serve(t *testing.T, response []byte) (host, port string) {
	l, err := tls.Listen("tcp", "127.0.0.1:0", &tls.Config{
		Certificates: []tls.Certificate{c20d3Cert(t)},
		NextProtos:   []string{"ntske/1"},
		MinVersion:   tls.VersionTLS13,
	})
	if err != nil {
		t.Fatal(err)
	}
	t.Cleanup(func() { l.Close() })
	go func() {
		for {
			c, err := l.Accept()
			if err != nil {
				return
			}
			go func() {
				defer c.Close()
				var d Data
				_ = ReadData(context.Background(), slog.Default(), bufio.NewReader(c), &d)
				_, _ = c.Write(response)
				_, _ = io.Copy(io.Discard, c)
			}()
		}
	}()
	host, port, _ = net.SplitHostPort(l.Addr().String())
	return host, port
}

func TestC20NextProtocolNotNegotiated(t *testing.T) {
	cookie := bytes.Repeat([]byte{0xc0}, 100)
	tail := bytes.Join([][]byte{
		c20d3Rec(RecAead, true, c20d3U16(AES_SIV_CMAC_256)),
		c20d3Rec(RecCookie, false, cookie),
		c20d3Rec(RecCookie, false, cookie),
		c20d3Rec(RecEom, true, nil),
	}, nil)
	cases := []struct {
		name string
		head []byte
	}{
		{"next protocol record with an empty list (no protocol in common)", c20d3Rec(RecNextproto, true, nil)},
		{"next protocol record naming only protocol 0x7fff, which was not offered", c20d3Rec(RecNextproto, true, c20d3U16(0x7fff))},
		{"no next protocol record at all", nil},
	}
	for _, tc := range cases {
		t.Run(tc.name, func(t *testing.T) {
			host, port := c20d3Serve(t, append(append([]byte{}, tc.head...), tail...))
			f := &Fetcher{Log: slog.New(slog.NewTextHandler(io.Discard, nil))}
			f.TLSConfig = tls.Config{InsecureSkipVerify: true, ServerName: host, MinVersion: tls.VersionTLS13}
			f.Port = port
			ctx, cancel := context.WithTimeout(context.Background(), 2*time.Second)
			defer cancel()
			d, err := f.FetchData(ctx)
			if err == nil {
				t.Errorf("key exchange succeeded although NTPv4 was not negotiated: "+
					"algo %d, %d cookies, c2s key %x..., NTP server %s:%d",
					d.Algo, len(d.Cookie), d.C2sKey[:4], d.Server, d.Port)
			} else {
				t.Logf("refused: %v", err)
			}
		})
	}
}
