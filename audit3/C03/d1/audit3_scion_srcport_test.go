package client

// Audit round 3, C03, d1: the SCION client evaluates a datagram from another UDP
// port of the queried server's host address (sibling of repair 0fb4ba6, which
// made the IP client refuse exactly this).
//
// Place in core/client/ and run
//   go test ./core/client -run TestAudit3SCIONResponseFromOtherPort -count=1 -v

import (
	"context"
	"log/slog"
	"net"
	"sync"
	"testing"
	"time"

	"github.com/google/gopacket"
	"github.com/scionproto/scion/pkg/addr"
	"github.com/scionproto/scion/pkg/slayers"
	spath "github.com/scionproto/scion/pkg/snet/path"

	"example.com/scion-time/core/timebase"
	"example.com/scion-time/net/ntp"
	"example.com/scion-time/net/udp"
)

type audit3Clock struct{}

func (audit3Clock) Epoch() uint64                                { return 0 }
func (audit3Clock) Now() time.Time                               { return time.Now().UTC() }
func (audit3Clock) Drift(time.Duration) time.Duration            { return 0 }
func (audit3Clock) Step(time.Duration)                           { panic("not in a test") }
func (audit3Clock) Adjust(time.Duration, time.Duration, float64) { panic("not in a test") }
func (audit3Clock) Sleep(d time.Duration)                        { time.Sleep(d) }

var audit3Once sync.Once

func TestAudit3SCIONResponseFromOtherPort(t *testing.T) {
	audit3Once.Do(func() { timebase.RegisterClock(audit3Clock{}) })
	log := slog.New(slog.DiscardHandler)
	ia, _ := addr.ParseIA("1-ff00:0:110")

	const queriedPort = 10123
	const otherClock = 1000 * time.Second

	// another socket on the server's host address: not the queried port
	other, err := net.ListenUDP("udp", &net.UDPAddr{IP: net.IPv4(127, 0, 0, 1)})
	if err != nil {
		t.Fatal(err)
	}
	defer other.Close()
	otherPort := other.LocalAddr().(*net.UDPAddr).Port
	if otherPort == queriedPort {
		t.Skip("ephemeral port equals the queried port")
	}

	go func() {
		buf := make([]byte, 4096)
		for {
			n, src, err := other.ReadFromUDPAddrPort(buf)
			if err != nil {
				return
			}
			var (
				scionLayer slayers.SCION
				hbh        slayers.HopByHopExtnSkipper
				e2e        slayers.EndToEndExtn
				udpLayer   slayers.UDP
			)
			parser := gopacket.NewDecodingLayerParser(slayers.LayerTypeSCION, &scionLayer, &hbh, &e2e, &udpLayer)
			parser.IgnoreUnsupported = true
			decoded := make([]gopacket.LayerType, 4)
			if parser.DecodeLayers(buf[:n], &decoded) != nil {
				continue
			}
			var req, resp ntp.Packet
			if ntp.DecodePacket(&req, udpLayer.Payload) != nil {
				continue
			}
			now := time.Now().Add(otherClock)
			resp.SetVersion(4)
			resp.SetMode(ntp.ModeServer)
			resp.Stratum = 1
			resp.OriginTime = req.TransmitTime
			resp.ReceiveTime = ntp.Time64FromTime(now)
			resp.TransmitTime = ntp.Time64FromTime(now.Add(time.Microsecond))
			var pld []byte
			ntp.EncodePacket(&pld, &resp)

			scionLayer.DstIA, scionLayer.SrcIA = scionLayer.SrcIA, scionLayer.DstIA
			scionLayer.DstAddrType, scionLayer.SrcAddrType = scionLayer.SrcAddrType, scionLayer.DstAddrType
			scionLayer.RawDstAddr, scionLayer.RawSrcAddr = scionLayer.RawSrcAddr, scionLayer.RawDstAddr
			scionLayer.NextHdr = slayers.L4UDP
			clientPort := udpLayer.SrcPort
			udpLayer.SrcPort = uint16(otherPort) // NOT the queried port
			udpLayer.DstPort = clientPort
			udpLayer.SetNetworkLayerForChecksum(&scionLayer)
			sb := gopacket.NewSerializeBuffer()
			opts := gopacket.SerializeOptions{ComputeChecksums: true, FixLengths: true}
			_ = gopacket.Payload(pld).SerializeTo(sb, opts)
			sb.PushLayer(gopacket.LayerTypePayload)
			if udpLayer.SerializeTo(sb, opts) != nil {
				continue
			}
			sb.PushLayer(udpLayer.LayerType())
			if scionLayer.SerializeTo(sb, opts) != nil {
				continue
			}
			_, _ = other.WriteToUDPAddrPort(sb.Bytes(), src)
		}
	}()

	c := &SCIONClient{Log: log}
	ctx, cancel := context.WithTimeout(context.Background(), 500*time.Millisecond)
	defer cancel()
	laddr := udp.UDPAddr{IA: ia, Host: &net.UDPAddr{IP: net.IPv4(127, 0, 0, 1)}}
	raddr := udp.UDPAddr{IA: ia, Host: &net.UDPAddr{IP: net.IPv4(127, 0, 0, 1), Port: queriedPort}}
	// the underlay hands the request to the other socket; nobody listens on the
	// queried port, the queried server never answers
	pth := spath.Path{Src: ia, Dst: ia, DataplanePath: spath.Empty{},
		NextHop: &net.UDPAddr{IP: net.IPv4(127, 0, 0, 1), Port: otherPort}}
	_, off, err := c.measureClockOffsetSCION(ctx, scionMetrics.Load(), laddr, raddr, pth)
	if err == nil {
		t.Errorf("the SCION client queried %v (UDP port %d), the queried server never answered, "+
			"and a datagram with UDP source port %d was evaluated as its response: offset %v",
			raddr, queriedPort, otherPort, off)
	} else {
		t.Logf("refused: %v", err)
	}
}
