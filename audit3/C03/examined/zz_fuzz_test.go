package client

import (
	"context"
	"fmt"
	"log/slog"
	"math/rand"
	"net"
	"net/netip"
	"os"
	"strconv"
	"sync"
	"testing"
	"time"

	"example.com/scion-time/net/ntp"
)

// simulated conformant server with a clock that changes between exchanges and a
// faulty network in front of it

type simRec struct {
	rx, tx ntp.Time64
	idx    int
}

type simServer struct {
	t        *testing.T
	conn     *net.UDPConn
	rng      *rand.Rand
	mu       sync.Mutex
	recs     []simRec
	thetas   []time.Duration // per request copy handled
	realRx   []time.Time
	realTx   []time.Time
	lastPort netip.AddrPort
	base     time.Duration
	step     time.Duration
	pDropReq, pDupReq, pDropResp, pDupResp, pDelay, pBasic, pStale float64
	maxDelay time.Duration
	nInter   int
}

func (s *simServer) run() {
	buf := make([]byte, 2048)
	for {
		n, src, err := s.conn.ReadFromUDPAddrPort(buf)
		if err != nil {
			return
		}
		var req ntp.Packet
		if ntp.DecodePacket(&req, buf[:n]) != nil {
			continue
		}
		s.mu.Lock()
		s.lastPort = src
		if s.rng.Float64() < s.pDropReq {
			s.mu.Unlock()
			continue
		}
		copies := 1
		if s.rng.Float64() < s.pDupReq {
			copies = 2
		}
		for c := 0; c < copies; c++ {
			d := time.Duration(0)
			if c > 0 || s.rng.Float64() < s.pDelay {
				d = time.Duration(s.rng.Int63n(int64(s.maxDelay)))
			}
			req := req
			if d == 0 {
				s.handleLocked(req, src)
			} else {
				time.AfterFunc(d, func() {
					s.mu.Lock()
					s.handleLocked(req, src)
					s.mu.Unlock()
				})
			}
		}
		s.mu.Unlock()
	}
}

func (s *simServer) handleLocked(req ntp.Packet, src netip.AddrPort) {
	idx := len(s.thetas)
	theta := s.base + time.Duration(idx+1)*s.step
	s.thetas = append(s.thetas, theta)
	rrx := time.Now()
	s.realRx = append(s.realRx, rrx)
	s.realTx = append(s.realTx, time.Time{})
	rx64 := ntp.Time64FromTime(rrx.Add(theta))

	var resp ntp.Packet
	resp.SetVersion(4)
	resp.SetMode(ntp.ModeServer)
	resp.Stratum = 1
	resp.ReceiveTime = rx64
	o := -1
	for i := range s.recs {
		if s.recs[i].rx == req.OriginTime {
			o = i
		}
	}
	inter := o != -1 && req.ReceiveTime != req.TransmitTime && s.rng.Float64() >= s.pBasic
	var prevTx ntp.Time64
	if inter {
		prevTx = s.recs[o].tx
		s.nInter++
	}
	// record now, tx filled at send time of the first copy
	if o != -1 {
		s.recs[o] = simRec{rx: rx64, idx: idx}
	} else {
		if len(s.recs) >= 8 {
			s.recs = s.recs[1:]
		}
		s.recs = append(s.recs, simRec{rx: rx64, idx: idx})
	}

	if s.rng.Float64() < s.pDropResp {
		// never sent: drop record
		for i := range s.recs {
			if s.recs[i].idx == idx {
				s.recs = append(s.recs[:i], s.recs[i+1:]...)
				break
			}
		}
		return
	}
	copies := 1
	if s.rng.Float64() < s.pDupResp {
		copies = 2
	}
	// the first transmission defines the tx timestamp; duplicates are made by the network
	var first sync.Once
	var pkt []byte
	send := func() {
		// called with s.mu held
		first.Do(func() {
			rtx := time.Now()
			s.realTx[idx] = rtx
			tx64 := ntp.Time64FromTime(rtx.Add(theta))
			if !tx64.After(rx64) {
				tx64 = rx64
				tx64.Fraction += 5
			}
			for i := range s.recs {
				if s.recs[i].idx == idx {
					s.recs[i].tx = tx64
				}
			}
			if inter {
				resp.OriginTime = req.ReceiveTime
				resp.TransmitTime = prevTx
			} else {
				resp.OriginTime = req.TransmitTime
				resp.TransmitTime = tx64
			}
			ntp.EncodePacket(&pkt, &resp)
		})
		dst := src
		if s.rng.Float64() < s.pStale {
			dst = s.lastPort
		}
		_, _ = s.conn.WriteToUDPAddrPort(pkt, dst)
	}
	for c := 0; c < copies; c++ {
		d := time.Duration(0)
		if c > 0 || s.rng.Float64() < s.pDelay {
			d = time.Duration(s.rng.Int63n(int64(s.maxDelay)))
		}
		if d == 0 {
			send()
		} else {
			time.AfterFunc(d, func() {
				s.mu.Lock()
				send()
				s.mu.Unlock()
			})
		}
	}
}

func runSim(t *testing.T, seed int64, rounds int, base, step time.Duration, gap time.Duration) (bad int) {
	auditInit()
	log := slog.New(slog.DiscardHandler)
	conn, err := net.ListenUDP("udp", &net.UDPAddr{IP: net.IPv4(127, 0, 0, 1)})
	if err != nil {
		t.Fatal(err)
	}
	defer conn.Close()
	rng := rand.New(rand.NewSource(seed))
	s := &simServer{t: t, conn: conn, rng: rng, base: base, step: step,
		pDropReq: 0.05, pDupReq: 0.15, pDropResp: 0.08, pDupResp: 0.2, pDelay: 0.3, pBasic: 0.1, pStale: 0.7,
		maxDelay: 60 * time.Millisecond}
	go s.run()
	port := conn.LocalAddr().(*net.UDPAddr).Port

	f := &recFilter{}
	c := &IPClient{Log: log, InterleavedMode: true, Filter: f}
	crng := rand.New(rand.NewSource(seed + 1))
	nOK := 0
	for i := 0; i < rounds; i++ {
		if crng.Intn(4) == 0 {
			auditLateTX(1 + crng.Intn(2))
		}
		cctx, cancel := context.WithTimeout(context.Background(), 40*time.Millisecond)
		laddr := &net.UDPAddr{IP: net.IPv4(127, 0, 0, 1)}
		raddr := &net.UDPAddr{IP: net.IPv4(127, 0, 0, 1), Port: port}
		_, _, err := MeasureClockOffsetIP(cctx, log, c, laddr, raddr)
		cancel()
		if err == nil {
			nOK++
		}
		if gap > 0 {
			time.Sleep(time.Duration(crng.Int63n(int64(gap))))
		}
	}
	time.Sleep(100 * time.Millisecond)
	s.mu.Lock()
	defer s.mu.Unlock()
	f.mu.Lock()
	defer f.mu.Unlock()
	for k, r := range f.recs {
		t0, t1, t2, t3 := r[0], r[1], r[2], r[3]
		// identify the exchange by the offset of t1
		raw := t1.Sub(t0) - s.base
		j := int((raw+s.step/2)/s.step) - 1
		if s.step < 0 {
			j = int((raw+s.step/2)/s.step) - 1
		}
		if j < 0 || j >= len(s.thetas) {
			bad++
			t.Errorf("seed %d sample %d: cannot identify exchange: t1-t0=%v", seed, k, t1.Sub(t0))
			continue
		}
		th := s.thetas[j]
		b := t1.Add(-th)
		cc := t2.Add(-th)
		const eps = 3 * time.Nanosecond
		if b.Sub(t0) < -eps || cc.Sub(b) < 0 || t3.Sub(cc) < -eps {
			bad++
			t.Errorf("seed %d sample %d (exchange %d): not one exchange: b-t0=%v c-b=%v t3-c=%v", seed, k, j,
				b.Sub(t0), cc.Sub(b), t3.Sub(cc))
		}
	}
	t.Logf("seed %d: %d rounds, %d ok, %d samples, %d server exchanges, %d interleaved served, %d bad",
		seed, rounds, nOK, len(f.recs), len(s.thetas), s.nInter, bad)
	return bad
}

func TestAuditSim(t *testing.T) {
	n := 10
	if v := os.Getenv("AUDIT_SEEDS"); v != "" {
		n, _ = strconv.Atoi(v)
	}
	rounds := 150
	if v := os.Getenv("AUDIT_ROUNDS"); v != "" {
		rounds, _ = strconv.Atoi(v)
	}
	for seed := int64(1); seed <= int64(n); seed++ {
		base := time.Duration(0)
		step := 1000 * time.Second
		switch seed % 4 {
		case 1:
			base = 15 * 365 * 24 * time.Hour // beyond the era boundary
		case 2:
			base = -40 * 365 * 24 * time.Hour
		case 3:
			step = -777 * time.Second
			base = 3 * time.Hour
		}
		t.Run(fmt.Sprint(seed), func(t *testing.T) {
			runSim(t, seed, rounds, base, step, 5*time.Millisecond)
		})
	}
}
