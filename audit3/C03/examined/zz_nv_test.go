//go:build !verif

package client

func auditLateTX(n int) {}
