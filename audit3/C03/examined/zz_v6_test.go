package client

import (
	"context"
	"log/slog"
	"net"
	"sync/atomic"
	"testing"
	"time"

	"example.com/scion-time/core/server"
	"example.com/scion-time/net/ntske"
)

type countHandler struct{ n *atomic.Int64 }

func (h countHandler) Enabled(context.Context, slog.Level) bool { return true }
func (h countHandler) Handle(_ context.Context, r slog.Record) error {
	if r.Message == "failed to read packet tx timestamp" {
		h.n.Add(1)
	}
	return nil
}
func (h countHandler) WithAttrs([]slog.Attr) slog.Handler { return h }
func (h countHandler) WithGroup(string) slog.Handler      { return h }

func TestAuditV6(t *testing.T) {
	auditInit()
	var n atomic.Int64
	log := slog.New(countHandler{&n})
	ctx := context.Background()
	srv := &net.UDPAddr{IP: net.IPv6loopback, Port: 23126}
	server.StartIPServer(ctx, log, srv, 0, ntske.NewProvider())
	time.Sleep(100 * time.Millisecond)
	f := &recFilter{}
	c := &IPClient{Log: log, InterleavedMode: true, Filter: f}
	ok, inter := 0, 0
	for i := 0; i < 100; i++ {
		cctx, cancel := context.WithTimeout(ctx, 200*time.Millisecond)
		_, _, err := MeasureClockOffsetIP(cctx, log, c, &net.UDPAddr{IP: net.IPv6loopback}, &net.UDPAddr{IP: net.IPv6loopback, Port: 23126})
		cancel()
		if err == nil {
			ok++
			if c.InInterleavedMode() {
				inter++
			}
		} else {
			t.Log(err)
		}
	}
	bad := 0
	for _, r := range f.recs {
		if r[1].Sub(r[0]) < -2 || r[2].Sub(r[1]) < 0 || r[3].Sub(r[2]) < -2 {
			bad++
		}
	}
	t.Logf("ok=%d interleaved=%d samples=%d bad=%d txTimestampFailures=%d", ok, inter, len(f.recs), bad, n.Load())
}
