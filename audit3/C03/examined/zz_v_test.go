//go:build verif

package client

import "example.com/scion-time/net/udp"

func auditLateTX(n int) { udp.VerifLateTXTimestamps(n) }
