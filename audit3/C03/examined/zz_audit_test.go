package client

import (
	"context"
	"log/slog"
	"net"
	"sync"
	"testing"
	"time"

	"example.com/scion-time/core/server"
	"example.com/scion-time/core/timebase"
	"example.com/scion-time/net/ntske"
)

type auditClock struct{}

func (auditClock) Epoch() uint64                                 { return 0 }
func (auditClock) Now() time.Time                                { return time.Now().UTC() }
func (auditClock) Drift(d time.Duration) time.Duration           { return 0 }
func (auditClock) Step(time.Duration)                            { panic("no") }
func (auditClock) Adjust(time.Duration, time.Duration, float64)  { panic("no") }
func (auditClock) Sleep(d time.Duration)                         { time.Sleep(d) }

var auditOnce sync.Once

func auditInit() {
	auditOnce.Do(func() { timebase.RegisterClock(auditClock{}) })
}

type recFilter struct {
	mu   sync.Mutex
	recs [][4]time.Time
}

func (f *recFilter) Do(t0, t1, t2, t3 time.Time) time.Duration {
	f.mu.Lock()
	f.recs = append(f.recs, [4]time.Time{t0, t1, t2, t3})
	f.mu.Unlock()
	return (t1.Sub(t0) + t2.Sub(t3)) / 2
}
func (f *recFilter) Reset() {}

func TestAuditLoopbackStress(t *testing.T) {
	auditInit()
	log := slog.New(slog.DiscardHandler)
	ctx := context.Background()
	srv := &net.UDPAddr{IP: net.IPv4(127, 0, 0, 1), Port: 23123}
	server.StartIPServer(ctx, log, srv, 0, ntske.NewProvider())
	time.Sleep(100 * time.Millisecond)

	const nClients = 12
	var wg sync.WaitGroup
	for ci := 0; ci < nClients; ci++ {
		wg.Add(1)
		go func(ci int) {
			defer wg.Done()
			f := &recFilter{}
			c := &IPClient{Log: log, InterleavedMode: true, Filter: f}
			nInter := 0
			for i := 0; i < 400; i++ {
				cctx, cancel := context.WithTimeout(ctx, 200*time.Millisecond)
				laddr := &net.UDPAddr{IP: net.IPv4(127, 0, 0, 1)}
				raddr := &net.UDPAddr{IP: net.IPv4(127, 0, 0, 1), Port: 23123}
				_, off, err := MeasureClockOffsetIP(cctx, log, c, laddr, raddr)
				cancel()
				if err != nil {
					t.Logf("client %d round %d: %v", ci, i, err)
					continue
				}
				if c.InInterleavedMode() {
					nInter++
				}
				_ = off
			}
			bad := 0
			for _, r := range f.recs {
				if r[1].Sub(r[0]) < -2 || r[2].Sub(r[1]) < 0 || r[3].Sub(r[2]) < -2 {
					bad++
					if bad < 5 {
						t.Errorf("client %d: causality violated: t1-t0=%v t2-t1=%v t3-t2=%v", ci,
							r[1].Sub(r[0]), r[2].Sub(r[1]), r[3].Sub(r[2]))
					}
				}
			}
			t.Logf("client %d: %d samples, %d interleaved rounds, %d bad", ci, len(f.recs), nInter, bad)
		}(ci)
	}
	wg.Wait()
}
