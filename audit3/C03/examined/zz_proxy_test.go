package client

import (
	"context"
	"log/slog"
	"math/rand"
	"net"
	"net/netip"
	"os"
	"strconv"
	"sync"
	"testing"
	"time"

	"example.com/scion-time/core/server"
	"example.com/scion-time/net/ntske"
)

// NAT-like proxy with faults between the real client and the real server

type natProxy struct {
	front    *net.UDPConn
	srv      netip.AddrPort
	mu       sync.Mutex
	rng      *rand.Rand
	ups      map[netip.AddrPort]*net.UDPConn
	last     netip.AddrPort
	pDrop    float64
	pDup     float64
	pDelay   float64
	pStale   float64
	maxDelay time.Duration
}

func (p *natProxy) sched(f func()) {
	// p.mu held
	if p.rng.Float64() < p.pDrop {
		return
	}
	n := 1
	if p.rng.Float64() < p.pDup {
		n = 2
	}
	for i := 0; i < n; i++ {
		if i > 0 || p.rng.Float64() < p.pDelay {
			time.AfterFunc(time.Duration(p.rng.Int63n(int64(p.maxDelay))), f)
		} else {
			go f()
		}
	}
}

func (p *natProxy) run() {
	buf := make([]byte, 2048)
	for {
		n, src, err := p.front.ReadFromUDPAddrPort(buf)
		if err != nil {
			return
		}
		pkt := append([]byte(nil), buf[:n]...)
		p.mu.Lock()
		p.last = src
		up, ok := p.ups[src]
		if !ok {
			c, err := net.ListenUDP("udp", &net.UDPAddr{IP: net.IPv4(127, 0, 0, 1)})
			if err != nil {
				p.mu.Unlock()
				continue
			}
			up = c
			p.ups[src] = up
			go p.back(up, src)
		}
		p.sched(func() { _, _ = up.WriteToUDPAddrPort(pkt, p.srv) })
		p.mu.Unlock()
	}
}

func (p *natProxy) back(up *net.UDPConn, client netip.AddrPort) {
	buf := make([]byte, 2048)
	for {
		_ = up.SetReadDeadline(time.Now().Add(2 * time.Second))
		n, _, err := up.ReadFromUDPAddrPort(buf)
		if err != nil {
			up.Close()
			return
		}
		pkt := append([]byte(nil), buf[:n]...)
		p.mu.Lock()
		p.sched(func() {
			dst := client
			p.mu.Lock()
			if p.rng.Float64() < p.pStale {
				dst = p.last
			}
			p.mu.Unlock()
			_, _ = p.front.WriteToUDPAddrPort(pkt, dst)
		})
		p.mu.Unlock()
	}
}

type winFilter struct {
	recs [][4]time.Time
	att  []int
	cur  int
}

func (f *winFilter) Do(t0, t1, t2, t3 time.Time) time.Duration {
	f.recs = append(f.recs, [4]time.Time{t0, t1, t2, t3})
	f.att = append(f.att, f.cur)
	return (t1.Sub(t0) + t2.Sub(t3)) / 2
}
func (f *winFilter) Reset() {}

var proxySrvOnce sync.Once

func TestAuditProxy(t *testing.T) {
	auditInit()
	log := slog.New(slog.DiscardHandler)
	ctx := context.Background()
	proxySrvOnce.Do(func() {
		srv := &net.UDPAddr{IP: net.IPv4(127, 0, 0, 1), Port: 23124}
		server.StartIPServer(ctx, log, srv, 0, ntske.NewProvider())
		time.Sleep(100 * time.Millisecond)
	})
	seeds := 6
	if v := os.Getenv("AUDIT_SEEDS"); v != "" {
		seeds, _ = strconv.Atoi(v)
	}
	for seed := int64(1); seed <= int64(seeds); seed++ {
		front, err := net.ListenUDP("udp", &net.UDPAddr{IP: net.IPv4(127, 0, 0, 1)})
		if err != nil {
			t.Fatal(err)
		}
		p := &natProxy{front: front, srv: netip.MustParseAddrPort("127.0.0.1:23124"),
			rng: rand.New(rand.NewSource(seed)), ups: map[netip.AddrPort]*net.UDPConn{},
			pDrop: 0.06, pDup: 0.2, pDelay: 0.3, pStale: 0.7, maxDelay: 50 * time.Millisecond}
		go p.run()
		port := front.LocalAddr().(*net.UDPAddr).Port

		f := &winFilter{}
		c := &IPClient{Log: log, InterleavedMode: true, Filter: f}
		mtrcs := ipMetrics.Load()
		type win struct{ a, b time.Time }
		var wins []win
		crng := rand.New(rand.NewSource(seed + 100))
		nOK := 0
		for i := 0; i < 300; i++ {
			if crng.Intn(4) == 0 {
				auditLateTX(1 + crng.Intn(2))
			}
			cctx, cancel := context.WithTimeout(ctx, 30*time.Millisecond)
			laddr := &net.UDPAddr{IP: net.IPv4(127, 0, 0, 1)}
			raddr := &net.UDPAddr{IP: net.IPv4(127, 0, 0, 1), Port: port}
			f.cur = len(wins)
			a := time.Now()
			_, _, err := c.measureClockOffsetIP(cctx, mtrcs, laddr, raddr)
			b := time.Now()
			cancel()
			wins = append(wins, win{a, b})
			if err == nil {
				nOK++
			}
			time.Sleep(time.Duration(200+crng.Intn(3000)) * time.Microsecond)
		}
		bad := 0
		for k, r := range f.recs {
			okc := r[1].Sub(r[0]) >= -2 && r[2].Sub(r[1]) >= 0 && r[3].Sub(r[2]) >= -2
			found := false
			for w := f.att[k]; w >= 0 && w >= f.att[k]-8; w-- {
				if !r[0].Before(wins[w].a) && !r[3].After(wins[w].b) {
					found = true
					break
				}
			}
			if !okc || !found {
				bad++
				t.Errorf("seed %d sample %d (attempt %d): causal=%v oneAttempt=%v t1-t0=%v t2-t1=%v t3-t2=%v",
					seed, k, f.att[k], okc, found, r[1].Sub(r[0]), r[2].Sub(r[1]), r[3].Sub(r[2]))
			}
		}
		t.Logf("seed %d: %d ok attempts, %d samples, %d bad", seed, nOK, len(f.recs), bad)
		front.Close()
	}
}
