package client

import (
	"context"
	"log/slog"
	"math/rand"
	"net"
	"net/netip"
	"os"
	"strconv"
	"sync"
	"testing"
	"time"

	"github.com/scionproto/scion/pkg/addr"
	spath "github.com/scionproto/scion/pkg/snet/path"

	"example.com/scion-time/core/server"
	"example.com/scion-time/net/ntske"
	"example.com/scion-time/net/udp"
)

var proxySCIONSrvOnce sync.Once

func TestAuditProxySCION(t *testing.T) {
	auditInit()
	log := slog.New(slog.DiscardHandler)
	ctx := context.Background()
	proxySCIONSrvOnce.Do(func() {
		srv := &net.UDPAddr{IP: net.IPv4(127, 0, 0, 1), Port: 23125}
		server.StartSCIONServer(ctx, log, "", srv, 0, ntske.NewProvider())
		time.Sleep(100 * time.Millisecond)
	})
	ia, _ := addr.ParseIA("1-ff00:0:110")
	seeds := 6
	if v := os.Getenv("AUDIT_SEEDS"); v != "" {
		seeds, _ = strconv.Atoi(v)
	}
	for seed := int64(1); seed <= int64(seeds); seed++ {
		front, err := net.ListenUDP("udp", &net.UDPAddr{IP: net.IPv4(127, 0, 0, 1)})
		if err != nil {
			t.Fatal(err)
		}
		p := &natProxy{front: front, srv: netip.MustParseAddrPort("127.0.0.1:23125"),
			rng: rand.New(rand.NewSource(seed)), ups: map[netip.AddrPort]*net.UDPConn{},
			pDrop: 0.06, pDup: 0.2, pDelay: 0.3, pStale: 0.7, maxDelay: 50 * time.Millisecond}
		go p.run()
		port := front.LocalAddr().(*net.UDPAddr).Port

		f := &winFilter{}
		c := &SCIONClient{Log: log, InterleavedMode: true, Filter: f}
		mtrcs := scionMetrics.Load()
		type win struct{ a, b time.Time }
		var wins []win
		crng := rand.New(rand.NewSource(seed + 100))
		nOK, nInter := 0, 0
		for i := 0; i < 300; i++ {
			if crng.Intn(4) == 0 {
				auditLateTX(1 + crng.Intn(2))
			}
			cctx, cancel := context.WithTimeout(ctx, 30*time.Millisecond)
			laddr := udp.UDPAddr{IA: ia, Host: &net.UDPAddr{IP: net.IPv4(127, 0, 0, 1)}}
			raddr := udp.UDPAddr{IA: ia, Host: &net.UDPAddr{IP: net.IPv4(127, 0, 0, 1), Port: 23125}}
			pth := spath.Path{Src: ia, Dst: ia, DataplanePath: spath.Empty{},
				NextHop: &net.UDPAddr{IP: net.IPv4(127, 0, 0, 1), Port: port}}
			f.cur = len(wins)
			a := time.Now()
			_, _, err := c.measureClockOffsetSCION(cctx, mtrcs, laddr, raddr, pth)
			b := time.Now()
			cancel()
			wins = append(wins, win{a, b})
			if err == nil {
				nOK++
				if c.InInterleavedMode() {
					nInter++
				}
			}
			time.Sleep(time.Duration(200+crng.Intn(3000)) * time.Microsecond)
		}
		bad := 0
		for k, r := range f.recs {
			okc := r[1].Sub(r[0]) >= -2 && r[2].Sub(r[1]) >= 0 && r[3].Sub(r[2]) >= -2
			found := false
			for w := f.att[k]; w >= 0 && w >= f.att[k]-8; w-- {
				if !r[0].Before(wins[w].a) && !r[3].After(wins[w].b) {
					found = true
					break
				}
			}
			if !okc || !found {
				bad++
				t.Errorf("seed %d sample %d (attempt %d): causal=%v oneAttempt=%v t1-t0=%v t2-t1=%v t3-t2=%v",
					seed, k, f.att[k], okc, found, r[1].Sub(r[0]), r[2].Sub(r[1]), r[3].Sub(r[2]))
			}
		}
		t.Logf("seed %d: %d ok attempts (%d interleaved), %d samples, %d bad", seed, nOK, nInter, len(f.recs), bad)
		front.Close()
	}
}
