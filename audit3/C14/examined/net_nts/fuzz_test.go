package nts

import (
	mrand "math/rand"
	"testing"

	"example.com/scion-time/net/ntske"
)

func TestExploreFuzz(t *testing.T) {
	key := rnd(32)
	for trial := 0; trial < 200000; trial++ {
		var buf []byte
		if trial%2 == 0 {
			var data ntske.Data
			data.C2sKey = key
			for i := 0; i < 1+mrand.Intn(8); i++ {
				data.Cookie = append(data.Cookie, rnd(mrand.Intn(133)))
			}
			pkt, _ := NewRequestPacket(data)
			buf = make([]byte, 48)
			EncodePacket(&buf, &pkt)
		} else {
			var cookies [][]byte
			for i := 0; i < mrand.Intn(9); i++ {
				cookies = append(cookies, rnd(mrand.Intn(120)))
			}
			pkt := NewResponsePacket(cookies, key, rnd(32+mrand.Intn(40)))
			buf = make([]byte, 48)
			EncodePacket(&buf, &pkt)
		}
		// mutate
		for k := 0; k < 1+mrand.Intn(4); k++ {
			switch mrand.Intn(3) {
			case 0:
				buf[48+mrand.Intn(len(buf)-48)] = byte(mrand.Intn(256))
			case 1:
				buf = buf[:48+mrand.Intn(len(buf)-48+1)]
				if len(buf) == 48 {
					buf = append(buf, 0)
				}
			case 2:
				p := 48 + mrand.Intn(len(buf)-48)
				buf[p] = []byte{0, 1, 2, 3, 4, 0xff}[mrand.Intn(6)]
			}
		}
		var dec Packet
		if err := DecodePacket(&dec, buf); err == nil {
			_ = dec.authenticate(buf, key)
		}
	}
}
