package nts

import (
	"bytes"
	"crypto/rand"
	"fmt"
	"testing"

	"example.com/scion-time/net/ntske"
)

func rnd(n int) []byte {
	b := make([]byte, n)
	_, _ = rand.Read(b)
	return b
}

// request round trip: cookies of every length, pool sizes 1..8
func TestExploreRequest(t *testing.T) {
	key := rnd(32)
	for clen := 0; clen <= 132; clen++ {
		for pool := 1; pool <= 8; pool++ {
			var data ntske.Data
			data.C2sKey = key
			for i := 0; i < pool; i++ {
				data.Cookie = append(data.Cookie, rnd(clen))
			}
			func() {
				defer func() {
					if r := recover(); r != nil {
						t.Errorf("clen=%d pool=%d panic %v", clen, pool, r)
					}
				}()
				pkt, id := NewRequestPacket(data)
				buf := make([]byte, 48)
				EncodePacket(&buf, &pkt)
				if len(buf)%4 != 0 {
					t.Errorf("clen=%d pool=%d: len %d not aligned", clen, pool, len(buf))
				}
				var dec Packet
				err := DecodePacket(&dec, buf)
				if err != nil {
					t.Errorf("clen=%d pool=%d: decode %v", clen, pool, err)
					return
				}
				if !bytes.Equal(dec.UniqueID.ID, id) {
					t.Errorf("clen=%d pool=%d: uid", clen, pool)
				}
				if len(dec.Cookies) != 1 || len(dec.CookiePlaceholders) != 8-pool {
					t.Errorf("clen=%d pool=%d: cookies %d placeholders %d", clen, pool, len(dec.Cookies), len(dec.CookiePlaceholders))
					return
				}
				pad := (clen + 3) &^ 3
				if !bytes.Equal(dec.Cookies[0].Cookie[:clen], data.Cookie[0]) || len(dec.Cookies[0].Cookie) != pad {
					t.Errorf("clen=%d pool=%d: cookie differs", clen, pool)
				}
				err = ProcessRequest(buf, key, &dec)
				if err != nil {
					t.Errorf("clen=%d pool=%d: auth %v", clen, pool, err)
				}
				if len(dec.Cookies) != 1 {
					t.Errorf("clen=%d pool=%d: cookies after auth %d", clen, pool, len(dec.Cookies))
				}
			}()
		}
	}
}

// response round trip
func TestExploreResponse(t *testing.T) {
	key := rnd(32)
	for _, uidLen := range []int{32, 33, 36, 64, 100, 500, 1000, 1012} {
		for clen := 0; clen <= 200; clen++ {
			capy := ResponseCookieCapacity(uidLen, clen)
			for _, n := range []int{0, 1, 2, 7, 8, capy - 1, capy} {
				if n < 0 || n > capy {
					continue
				}
				var cookies [][]byte
				for i := 0; i < n; i++ {
					cookies = append(cookies, rnd(clen))
				}
				uid := rnd(uidLen)
				func() {
					defer func() {
						if r := recover(); r != nil {
							t.Errorf("uid=%d clen=%d n=%d panic %v", uidLen, clen, n, r)
						}
					}()
					pkt := NewResponsePacket(cookies, key, uid)
					buf := make([]byte, 48, 2048)
					EncodePacket(&buf, &pkt)
					if len(buf) > MaxPacketLen || len(buf)%4 != 0 {
						t.Errorf("uid=%d clen=%d n=%d len=%d", uidLen, clen, n, len(buf))
					}
					var dec Packet
					err := DecodePacket(&dec, buf)
					if err != nil {
						t.Errorf("uid=%d clen=%d n=%d decode %v", uidLen, clen, n, err)
						return
					}
					if !bytes.Equal(dec.UniqueID.ID[:uidLen], uid) {
						t.Errorf("uid differs")
					}
					err = dec.authenticate(buf, key)
					if err != nil {
						t.Errorf("uid=%d clen=%d n=%d auth %v", uidLen, clen, n, err)
						return
					}
					if len(dec.Cookies) != n {
						t.Errorf("uid=%d clen=%d n=%d: got %d cookies", uidLen, clen, n, len(dec.Cookies))
						return
					}
					for i := range cookies {
						if !bytes.Equal(dec.Cookies[i].Cookie[:clen], cookies[i]) || len(dec.Cookies[i].Cookie) != (clen+3)&^3 {
							t.Errorf("uid=%d clen=%d n=%d: cookie %d differs", uidLen, clen, n, i)
						}
					}
				}()
			}
		}
	}
}

// mixed cookie lengths
func TestExploreResponseMixed(t *testing.T) {
	key := rnd(32)
	for trial := 0; trial < 3000; trial++ {
		r := rnd(16)
		n := int(r[0])%9 + 0
		var cookies [][]byte
		total := 0
		for i := 0; i < n; i++ {
			l := int(r[1+i]) % 133
			cookies = append(cookies, rnd(l))
			total += 4 + (l+3)&^3
		}
		if total > 1232-48-36-40 {
			continue
		}
		uid := rnd(32)
		pkt := NewResponsePacket(cookies, key, uid)
		buf := make([]byte, 48)
		EncodePacket(&buf, &pkt)
		var dec Packet
		if err := DecodePacket(&dec, buf); err != nil {
			t.Fatalf("%v", err)
		}
		if err := dec.authenticate(buf, key); err != nil {
			t.Fatalf("%v %v", err, fmt.Sprint(n))
		}
		if len(dec.Cookies) != n {
			t.Fatalf("n=%d got %d", n, len(dec.Cookies))
		}
		for i := range cookies {
			if !bytes.Equal(dec.Cookies[i].Cookie[:len(cookies[i])], cookies[i]) {
				t.Fatalf("cookie %d differs", i)
			}
		}
	}
}
