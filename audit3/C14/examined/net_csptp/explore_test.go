package csptp

import (
	"bytes"
	"crypto/rand"
	"testing"
)

func TestExploreBytes(t *testing.T) {
	for trial := 0; trial < 200000; trial++ {
		b := make([]byte, 98)
		rand.Read(b)
		var m Message
		if err := DecodeMessage(&m, b[:44]); err != nil {
			t.Fatal(err)
		}
		o := make([]byte, 44)
		EncodeMessage(o, &m)
		if !bytes.Equal(o, b[:44]) {
			t.Fatalf("msg differs")
		}
		var m2 Message
		DecodeMessage(&m2, o)
		if m2 != m {
			t.Fatal("msg value differs")
		}
		var r ResponseTLV
		// dirty target
		rand.Read(o)
		DecodeResponseTLV(&r, append(o[:36:36], make([]byte, 18)...))
		if err := DecodeResponseTLV(&r, b[44:]); err != nil {
			t.Fatal(err)
		}
		n := EncodedResponseTLVLength(&r)
		o2 := make([]byte, n)
		EncodeResponseTLV(o2, &r)
		if !bytes.Equal(o2, b[44:44+n]) {
			t.Fatalf("resp tlv differs")
		}
		var r2 ResponseTLV
		if err := DecodeResponseTLV(&r2, o2); err != nil {
			t.Fatal(err)
		}
		if r2 != r {
			t.Fatalf("resp tlv value differs %v %v", r, r2)
		}
		var q RequestTLV
		if err := DecodeRequestTLV(&q, b[44:]); err != nil {
			t.Fatal(err)
		}
		n = EncodedRequestTLVLength(&q)
		o3 := make([]byte, n)
		rand.Read(o3)
		EncodeRequestTLV(o3, &q)
		if !bytes.Equal(o3[:14], b[44:58]) || !bytes.Equal(o3[14:], make([]byte, n-14)) {
			t.Fatalf("req tlv differs")
		}
		var q2 RequestTLV
		if err := DecodeRequestTLV(&q2, o3); err != nil || q2 != q {
			t.Fatalf("req tlv value differs")
		}
		// short buffers
		for l := 0; l < 54; l++ {
			var x ResponseTLV
			err := DecodeResponseTLV(&x, b[44:44+l])
			need := 36
			if l >= 14 && b[44+13]&1 == 1 {
				need = 54
			}
			if (err == nil) != (l >= need) {
				t.Fatalf("resp l=%d err=%v", l, err)
			}
			var y RequestTLV
			err = DecodeRequestTLV(&y, b[44:44+l])
			if (err == nil) != (l >= need) {
				t.Fatalf("req l=%d err=%v", l, err)
			}
		}
	}
}
