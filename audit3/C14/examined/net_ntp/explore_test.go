package ntp

import (
	"bytes"
	"crypto/rand"
	"testing"
)

func TestExploreBytes(t *testing.T) {
	for trial := 0; trial < 300000; trial++ {
		b := make([]byte, 48)
		rand.Read(b)
		if trial < 256 {
			b[0] = byte(trial)
		}
		var p Packet
		if err := DecodePacket(&p, b); err != nil {
			t.Fatal(err)
		}
		if p.LeapIndicator() != b[0]>>6 || p.Version() != (b[0]>>3)&7 || p.Mode() != b[0]&7 {
			t.Fatal("lvm")
		}
		var o []byte
		EncodePacket(&o, &p)
		if !bytes.Equal(o, b) {
			t.Fatal("differs")
		}
		o2 := make([]byte, 10, 100)
		EncodePacket(&o2, &p)
		if !bytes.Equal(o2, b) {
			t.Fatal("differs 2")
		}
		q := p
		for l := uint8(0); l < 4; l++ {
			for v := uint8(0); v < 8; v++ {
				for m := uint8(0); m < 8; m++ {
					q.SetMode(m)
					q.SetLeapIndicator(l)
					q.SetVersion(v)
					if q.LVM != l<<6|v<<3|m || q.Mode() != m || q.Version() != v || q.LeapIndicator() != l {
						t.Fatal("set")
					}
				}
			}
		}
	}
}
