package ntske

import (
	"bufio"
	"bytes"
	"context"
	"crypto/ecdsa"
	"crypto/elliptic"
	"crypto/rand"
	"crypto/tls"
	"crypto/x509"
	"crypto/x509/pkix"
	"io"
	"log/slog"
	"math/big"
	"net"
	"testing"
	"time"
)

func selfSigned(t *testing.T) tls.Certificate {
	key, _ := ecdsa.GenerateKey(elliptic.P256(), rand.Reader)
	tmpl := x509.Certificate{SerialNumber: big.NewInt(1), Subject: pkix.Name{CommonName: "x"},
		NotBefore: time.Now().Add(-time.Hour), NotAfter: time.Now().Add(time.Hour),
		IPAddresses: []net.IP{net.ParseIP("127.0.0.1")}}
	der, err := x509.CreateCertificate(rand.Reader, &tmpl, &tmpl, &key.PublicKey, key)
	if err != nil {
		t.Fatal(err)
	}
	return tls.Certificate{Certificate: [][]byte{der}, PrivateKey: key}
}

func TestExploreTLSSegmented(t *testing.T) {
	log := slog.New(slog.NewTextHandler(io.Discard, nil))
	cert := selfSigned(t)
	l, err := tls.Listen("tcp", "127.0.0.1:0", &tls.Config{Certificates: []tls.Certificate{cert}, NextProtos: []string{"ntske/1"}})
	if err != nil {
		t.Fatal(err)
	}
	defer l.Close()
	var cookies [][]byte
	for i := 0; i < 8; i++ {
		cookies = append(cookies, rnd(100+i))
	}
	go func() {
		for {
			c, err := l.Accept()
			if err != nil {
				return
			}
			go func() {
				defer c.Close()
				var d Data
				if err := ReadData(context.Background(), log, bufio.NewReader(c), &d); err != nil {
					return
				}
				var msg ExchangeMsg
				msg.AddRecord(NextProto{NextProto: NTPv4})
				msg.AddRecord(Algorithm{Algo: []uint16{15}})
				msg.AddRecord(Server{Addr: []byte("127.0.0.9")})
				msg.AddRecord(Port{Port: 4123})
				for _, ck := range cookies {
					msg.AddRecord(Cookie{Cookie: ck})
				}
				msg.AddRecord(End{})
				b, _ := msg.Pack()
				for _, x := range b.Bytes() {
					c.Write([]byte{x}) // one TLS record per byte
				}
			}()
		}
	}()
	_, port, _ := net.SplitHostPort(l.Addr().String())
	f := &Fetcher{Log: log, Port: port}
	f.TLSConfig = tls.Config{InsecureSkipVerify: true, ServerName: "127.0.0.1"}
	ctx, cancel := context.WithTimeout(context.Background(), 5*time.Second)
	defer cancel()
	d, err := f.FetchData(ctx)
	if err != nil {
		t.Fatal(err)
	}
	if d.Server != "127.0.0.9" || d.Port != 4123 || d.Algo != 15 || len(d.Cookie) != 8 {
		t.Fatalf("%+v", d)
	}
	for i := range cookies {
		if !bytes.Equal(cookies[i], d.Cookie[i]) {
			t.Fatalf("cookie %d", i)
		}
	}
}
