package ntske

import (
	"bufio"
	"bytes"
	"context"
	"io"
	"log/slog"
	"testing"
)

type zr struct {
	r io.Reader
	k int
}

func (z *zr) Read(p []byte) (int, error) {
	z.k++
	if z.k%3 != 0 {
		return 0, nil
	}
	if len(p) > 1 {
		p = p[:1]
	}
	return z.r.Read(p)
}

func TestExploreEdge(t *testing.T) {
	log := slog.New(slog.NewTextHandler(io.Discard, nil))
	var msg ExchangeMsg
	msg.AddRecord(NextProto{NextProto: 0xffff})
	msg.AddRecord(Algorithm{Algo: []uint16{15}})
	msg.AddRecord(Server{Addr: nil})
	msg.AddRecord(Cookie{Cookie: nil})
	msg.AddRecord(Port{Port: 0})
	msg.AddRecord(End{})
	buf, err := msg.Pack()
	if err != nil {
		t.Fatal(err)
	}
	t.Logf("%x", buf.Bytes())
	var d Data
	err = ReadData(context.Background(), log, bufio.NewReader(&zr{r: bytes.NewReader(buf.Bytes())}), &d)
	t.Logf("%v %+v", err, d)
	// empty next proto list, unknown record of zero length, unknown of max length
	raw := []byte{0x80, 1, 0, 0, 0x00, 9, 0, 0, 0x00, 10, 0xff, 0xff}
	raw = append(raw, make([]byte, 65535)...)
	raw = append(raw, 0x80, 4, 0, 2, 0, 15, 0x80, 0, 0, 0)
	var d2 Data
	err = ReadData(context.Background(), log, bufio.NewReader(bytes.NewReader(raw)), &d2)
	t.Logf("%v %+v", err, d2)
	// warning
	var m2 ExchangeMsg
	m2.AddRecord(Warning{Code: 7})
	m2.AddRecord(End{})
	b2, _ := m2.Pack()
	err = ReadData(context.Background(), log, bufio.NewReader(bytes.NewReader(b2.Bytes())), &d2)
	t.Logf("warning: %v", err)
}
