package ntske

import (
	"bufio"
	"bytes"
	"context"
	"crypto/rand"
	"io"
	"log/slog"
	mrand "math/rand"
	"reflect"
	"testing"
	"testing/iotest"
)

func rnd(n int) []byte {
	b := make([]byte, n)
	_, _ = rand.Read(b)
	return b
}

type segReader struct {
	b    []byte
	cuts []int
	pos  int
	k    int
}

func (s *segReader) Read(p []byte) (int, error) {
	if s.pos >= len(s.b) {
		return 0, io.EOF
	}
	end := len(s.b)
	if s.k < len(s.cuts) {
		end = s.cuts[s.k]
	}
	n := copy(p, s.b[s.pos:end])
	s.pos += n
	if s.pos == end {
		s.k++
	}
	return n, nil
}

func TestExploreKE(t *testing.T) {
	log := slog.New(slog.NewTextHandler(io.Discard, nil))
	for trial := 0; trial < 300; trial++ {
		var msg ExchangeMsg
		var want Data
		msg.AddRecord(NextProto{NextProto: NTPv4})
		nalgo := 1 + mrand.Intn(3)
		var algos []uint16
		for i := 0; i < nalgo; i++ {
			algos = append(algos, uint16(mrand.Intn(65536)))
		}
		msg.AddRecord(Algorithm{Algo: algos})
		want.Algo = algos[0]
		if mrand.Intn(2) == 0 {
			a := rnd(mrand.Intn(300))
			msg.AddRecord(Server{Addr: a, Critical: mrand.Intn(2) == 0})
			want.Server = string(a)
		}
		if mrand.Intn(2) == 0 {
			p := uint16(mrand.Intn(65536))
			msg.AddRecord(Port{Port: p, Critical: mrand.Intn(2) == 0})
			want.Port = p
		}
		nc := mrand.Intn(20)
		for i := 0; i < nc; i++ {
			var c []byte
			switch mrand.Intn(4) {
			case 0:
				c = rnd(mrand.Intn(8))
			case 1:
				c = rnd(mrand.Intn(200))
			case 2:
				c = rnd(4000 + mrand.Intn(5000))
			case 3:
				c = rnd(65535 - mrand.Intn(3))
			}
			msg.AddRecord(Cookie{Cookie: c})
			want.Cookie = append(want.Cookie, c)
		}
		msg.AddRecord(End{})
		buf, err := msg.Pack()
		if err != nil {
			t.Fatal(err)
		}
		b := buf.Bytes()

		readers := []io.Reader{
			bytes.NewReader(b),
			iotest.OneByteReader(bytes.NewReader(b)),
			iotest.HalfReader(bytes.NewReader(b)),
			iotest.DataErrReader(bytes.NewReader(b)),
		}
		for k := 0; k < 5; k++ {
			var cuts []int
			p := 0
			for p < len(b) {
				p += 1 + mrand.Intn(1+mrand.Intn(6000))
				if p < len(b) {
					cuts = append(cuts, p)
				}
			}
			readers = append(readers, &segReader{b: b, cuts: cuts})
		}
		for i, r := range readers {
			var got Data
			err := ReadData(context.Background(), log, bufio.NewReader(r), &got)
			if err != nil {
				t.Fatalf("trial %d reader %d: %v", trial, i, err)
			}
			if got.Server != want.Server || got.Port != want.Port || got.Algo != want.Algo || len(got.Cookie) != len(want.Cookie) {
				t.Fatalf("trial %d reader %d: differs", trial, i)
			}
			for j := range want.Cookie {
				if !bytes.Equal(got.Cookie[j], want.Cookie[j]) {
					t.Fatalf("trial %d reader %d: cookie %d differs", trial, i, j)
				}
			}
		}
	}
}

func TestExploreCookies(t *testing.T) {
	for trial := 0; trial < 2000; trial++ {
		c := ServerCookie{Algo: uint16(mrand.Intn(65536)), S2C: rnd(mrand.Intn(100)), C2S: rnd(mrand.Intn(100))}
		var d ServerCookie
		if err := d.Decode(c.Encode()); err != nil {
			t.Fatal(err)
		}
		if d.Algo != c.Algo || !bytes.Equal(d.S2C, c.S2C) || !bytes.Equal(d.C2S, c.C2S) {
			t.Fatalf("differs %v %v", c, d)
		}
		key := rnd(32)
		e, err := c.EncryptWithNonce(key, mrand.Intn(65536))
		if err != nil {
			t.Fatal(err)
		}
		var e2 EncryptedServerCookie
		if err := e2.Decode(e.Encode()); err != nil {
			t.Fatal(err)
		}
		if !reflect.DeepEqual(e, e2) {
			t.Fatalf("enc differs")
		}
		d2, err := e2.Decrypt(key)
		if err != nil {
			t.Fatal(err)
		}
		if d2.Algo != c.Algo || !bytes.Equal(d2.S2C, c.S2C) || !bytes.Equal(d2.C2S, c.C2S) {
			t.Fatalf("differs %v %v", c, d2)
		}
	}
}
