package client_test

// C11 d1: the cap of eight cookies (eb01d6f) covers only the cookies of NTS
// responses. The cookies of the key exchange itself are not capped: ReadData
// accepts up to 64 cookie records and the fetcher keeps all of them.

import (
	"bufio"
	"context"
	"crypto/tls"
	"log/slog"
	"net"
	"strconv"
	"testing"
	"time"

	"example.com/scion-time/net/ntske"
)

// startGenerousKEServer runs an NTS-KE server that behaves like this
// project's, except that it hands out n cookies instead of eight (RFC 8915
// lets a server send any number). The cookies are genuine: sealed under the
// provider's current key, they are accepted by the project's NTP server.
func startGenerousKEServer(t *testing.T, port, n int) {
	l, err := tls.Listen("tcp", net.JoinHostPort(auditIP, strconv.Itoa(port)), auditTLS)
	if err != nil {
		t.Fatal(err)
	}
	t.Cleanup(func() { l.Close() })
	go func() {
		for {
			c, err := l.Accept()
			if err != nil {
				return
			}
			go func(conn *tls.Conn) {
				defer conn.Close()
				var data ntske.Data
				err := ntske.ReadData(context.Background(), slog.New(slog.DiscardHandler), bufio.NewReader(conn), &data)
				if err != nil {
					return
				}
				err = ntske.ExportKeys(conn.ConnectionState(), &data)
				if err != nil {
					return
				}
				var msg ntske.ExchangeMsg
				msg.AddRecord(ntske.NextProto{NextProto: ntske.NTPv4})
				msg.AddRecord(ntske.Algorithm{Algo: []uint16{ntske.AES_SIV_CMAC_256}})
				msg.AddRecord(ntske.Server{Addr: []byte(auditIP)})
				msg.AddRecord(ntske.Port{Port: auditRelayPort})
				sc := ntske.ServerCookie{Algo: ntske.AES_SIV_CMAC_256, C2S: data.C2sKey, S2C: data.S2cKey}
				key := auditProvider.Current()
				for range n {
					ec, err := sc.EncryptWithNonce(key.Value, key.ID)
					if err != nil {
						return
					}
					msg.AddRecord(ntske.Cookie{Cookie: ec.Encode()})
				}
				msg.AddRecord(ntske.End{})
				buf, err := msg.Pack()
				if err != nil {
					return
				}
				_, _ = conn.Write(buf.Bytes())
			}(c.(*tls.Conn))
		}
	}()
}

func TestAuditC11KeyExchangeCookiesNotCapped(t *testing.T) {
	auditSetup(t)
	for i, n := range []int{9, 16, 64} {
		port := 24460 + i
		startGenerousKEServer(t, port, n)
		c := newAuditClient(false, strconv.Itoa(port))
		failed := false
		prev := -1
		for x := 0; x < n-6; x++ {
			auditRelay.reset()
			err := measure(c, 500*time.Millisecond)
			if err != nil {
				t.Fatalf("n=%d exchange %d: %v", n, x, err)
			}
			pool := len(poolOf(&c.Auth.NTSKEFetcher).Cookie)
			reqs, resps := auditRelay.snapshot()
			t.Logf("key exchange with %d cookies, successful loss-free exchange %d (requests %d, responses %d): pool = %d",
				n, x, len(reqs), len(resps), pool)
			if pool > ntske.MaxStoredCookies {
				failed = true
			}
			if prev != -1 && pool < prev {
				t.Errorf("n=%d: successful exchange %d shrank the pool from %d to %d", n, x, prev, pool)
			}
			prev = pool
		}
		if failed {
			t.Errorf("n=%d: the pool held more than %d cookies", n, ntske.MaxStoredCookies)
		}
	}
}
