package client_test

import (
	"bytes"
	"math/rand"
	"testing"
	"time"
)

func TestAuditExplore(t *testing.T) {
	auditSetup(t)
	for _, interleaved := range []bool{false, true} {
		c := newAuditClient(interleaved, "4460")
		rng := rand.New(rand.NewSource(7))
		seen := map[string]int{}
		nreq := 0
		for step := 0; step < 200; step++ {
			auditRelay.reset()
			mode := rng.Intn(6)
			auditRelay.mu.Lock()
			switch mode {
			case 0:
				auditRelay.onReq = func(int, []byte) int { return 0 }
			case 1:
				auditRelay.onResp = func(int, []byte) int { return 0 }
			case 2:
				auditRelay.onResp = func(int, []byte) int { return 2 }
			case 3:
				auditRelay.onReq = func(int, []byte) int { return 2 }
			}
			auditRelay.mu.Unlock()
			before := len(poolOf(&c.Auth.NTSKEFetcher).Cookie)
			err := measure(c, 150*time.Millisecond)
			time.Sleep(20 * time.Millisecond)
			after := len(poolOf(&c.Auth.NTSKEFetcher).Cookie)
			reqs, resps := auditRelay.snapshot()
			for _, r := range reqs {
				fs := fields(r.data)
				nc, np := 0, 0
				for _, f := range fs {
					switch f.typ {
					case 0x204:
						nc++
						k := string(f.body)
						if prev, ok := seen[k]; ok {
							t.Fatalf("step %d: cookie of request %d sent again in request %d", step, prev, nreq)
						}
						seen[k] = nreq
					case 0x304:
						np++
						if !bytes.Equal(f.body, make([]byte, len(f.body))) {
							t.Errorf("placeholder not zero")
						}
					}
				}
				if nc != 1 || len(r.data) > 1232 {
					t.Fatalf("step %d: %d cookies, %d placeholders, len %d", step, nc, np, len(r.data))
				}
				nreq++
			}
			for _, r := range resps {
				if len(r.data) > 1232 {
					t.Fatalf("response too long: %d", len(r.data))
				}
			}
			t.Logf("il=%v step %d mode %d: pool %d -> %d, reqs %d resps %d err=%v", interleaved, step, mode, before, after, len(reqs), len(resps), err)
			if err == nil && (after < before || after > 8) {
				t.Fatalf("step %d: pool %d -> %d on success", step, before, after)
			}
			if after > 8 {
				t.Fatalf("step %d: pool %d", step, after)
			}
		}
	}
}
