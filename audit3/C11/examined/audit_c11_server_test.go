package client_test

import (
	"context"
	"net"
	"testing"
	"time"

	"example.com/scion-time/net/ntp"
	"example.com/scion-time/net/nts"
	"example.com/scion-time/net/ntske"
)

func TestAuditServerEdges(t *testing.T) {
	auditSetup(t)
	c := newAuditClient(false, "4460")
	f := &c.Auth.NTSKEFetcher
	conn, err := net.DialUDP("udp", &net.UDPAddr{IP: net.ParseIP(auditIP)}, &net.UDPAddr{IP: net.ParseIP(auditIP), Port: auditServerPort})
	if err != nil {
		t.Fatal(err)
	}
	defer conn.Close()
	try := func(uidLen, nph, phLen int) (ncookies, respLen int, ok bool) {
		ctx, cancel := context.WithTimeout(context.Background(), time.Second)
		defer cancel()
		data, err := f.FetchData(ctx)
		if err != nil {
			t.Fatal(err)
		}
		// discard the rest of the pool so that the next call re-keys or uses fresh ones
		req, id := nts.NewRequestPacket(data)
		if uidLen != 32 {
			id = make([]byte, uidLen)
			for i := range id {
				id[i] = byte(i)
			}
			req.UniqueID.ID = id
		}
		req.CookiePlaceholders = nil
		for range nph {
			req.CookiePlaceholders = append(req.CookiePlaceholders, nts.CookiePlaceholder{Cookie: make([]byte, phLen)})
		}
		var p ntp.Packet
		p.SetVersion(4)
		p.SetMode(ntp.ModeClient)
		p.TransmitTime = ntp.Time64FromTime(time.Now())
		buf := make([]byte, 48)
		ntp.EncodePacket(&buf, &p)
		func() {
			defer func() {
				if r := recover(); r != nil {
					ok = false
					buf = nil
				}
			}()
			nts.EncodePacket(&buf, &req)
		}()
		if buf == nil {
			return 0, 0, false
		}
		_, err = conn.Write(buf)
		if err != nil {
			t.Fatal(err)
		}
		rb := make([]byte, 4096)
		_ = conn.SetReadDeadline(time.Now().Add(100 * time.Millisecond))
		n, err := conn.Read(rb)
		if err != nil {
			return 0, 0, false
		}
		rb = rb[:n]
		var resp nts.Packet
		err = nts.DecodePacket(&resp, rb)
		if err != nil {
			t.Errorf("uid %d nph %d phLen %d: decode: %v", uidLen, nph, phLen, err)
			return 0, n, false
		}
		var tmp ntske.Fetcher
		err = nts.ProcessResponse(rb, data.S2cKey, &tmp, &resp, id)
		if err != nil {
			t.Errorf("uid %d nph %d phLen %d: process: %v", uidLen, nph, phLen, err)
			return 0, n, false
		}
		for _, ck := range resp.Cookies {
			var ec ntske.EncryptedServerCookie
			if err := ec.Decode(ck.Cookie); err != nil {
				t.Errorf("cookie decode: %v", err)
				continue
			}
			k, ok := auditProvider.Get(int(ec.ID))
			if !ok {
				t.Errorf("no key")
				continue
			}
			sc, err := ec.Decrypt(k.Value)
			if err != nil || string(sc.C2S) != string(data.C2sKey) || string(sc.S2C) != string(data.S2cKey) {
				t.Errorf("cookie does not open to the session keys: %v", err)
			}
		}
		return len(resp.Cookies), n, true
	}
	for _, uidLen := range []int{32, 33, 35, 36, 100, 116, 117, 120, 244, 245, 500, 884, 885, 1008, 1012, 1013, 1016, 1100} {
		for _, nph := range []int{0, 1, 7, 8, 20} {
			for _, phLen := range []int{0, 4, 124} {
				if 48+4+uidLen+128+nph*(4+phLen)+40 > 1232 {
					continue
				}
				nc, rl, ok := try(uidLen, nph, phLen)
				want := min(1+nph, nts.ResponseCookieCapacity(uidLen, 124))
				t.Logf("uid %d, %d placeholders of %d: ok=%v cookies=%d (want %d) len=%d", uidLen, nph, phLen, ok, nc, want, rl)
				if rl > 1232 {
					t.Errorf("response of %d bytes", rl)
				}
				if ok && nc != want {
					t.Errorf("uid %d nph %d: %d cookies, want %d", uidLen, nph, nc, want)
				}
				if !ok && want > 0 {
					t.Errorf("uid %d nph %d phLen %d: no (valid) reply, want %d cookies", uidLen, nph, phLen, want)
				}
			}
		}
	}
}
