package client_test

// C11 d2: FetchData's guard against callers whose round is over (0e523a2)
// tests ctx.Err(). The socket deadline of the measurement that just timed out
// is the very instant at which the context's own timer fires; the next attempt
// of the same round (MeasureClockOffsetIP makes up to three in interleaved
// mode) reaches FetchData before the context's timer goroutine has run, is
// handed a cookie, and fails to send ("i/o timeout": the socket deadline is
// the context's deadline and lies in the past). The cookie is discarded
// without ever having been on the wire.

import (
	"testing"
	"time"
)

func TestAuditC11CookiesSpentAfterDeadline(t *testing.T) {
	auditSetup(t)
	c := newAuditClient(true /* interleaved, as configured by timeservice.go */, "4460")
	// fill the pool
	if err := measure(c, 500*time.Millisecond); err != nil {
		t.Fatal(err)
	}
	wasted, rounds := 0, 0
	for rounds < 300 {
		// top up: loss-free rounds until the pool is back at eight
		for len(poolOf(&c.Auth.NTSKEFetcher).Cookie) < 8 {
			auditRelay.reset()
			if err := measure(c, 500*time.Millisecond); err != nil {
				t.Fatal(err)
			}
		}
		// one round whose response is lost
		auditRelay.reset()
		auditRelay.mu.Lock()
		auditRelay.onResp = func(int, []byte) int { return 0 }
		auditRelay.mu.Unlock()
		before := len(poolOf(&c.Auth.NTSKEFetcher).Cookie)
		err := measure(c, 20*time.Millisecond)
		time.Sleep(5 * time.Millisecond)
		after := len(poolOf(&c.Auth.NTSKEFetcher).Cookie)
		reqs, _ := auditRelay.snapshot()
		rounds++
		if err == nil {
			t.Fatalf("round %d: unexpected success", rounds)
		}
		if before-after != len(reqs) {
			wasted += before - after - len(reqs)
			t.Logf("round %d: %d request(s) on the wire, pool %d -> %d (%v)", rounds, len(reqs), before, after, err)
		}
	}
	if wasted != 0 {
		t.Errorf("%d cookies were taken from the pool after the deadline of their round and never sent (%d rounds with a lost response)", wasted, rounds)
	}
}
