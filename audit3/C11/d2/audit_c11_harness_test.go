package client_test

// Harness of the C11 audit (round 3): an NTS-KE server (TLS), an NTS-capable
// NTP server and an IP client of this project on loopback, with a UDP relay
// between client and NTP server that records, drops and duplicates packets.

import (
	"context"
	"crypto/ecdsa"
	"crypto/elliptic"
	"crypto/rand"
	"crypto/tls"
	"crypto/x509"
	"crypto/x509/pkix"
	"encoding/binary"
	"log/slog"
	"math/big"
	"net"
	"net/netip"
	"reflect"
	"sync"
	"testing"
	"time"
	"unsafe"

	"example.com/scion-time/core/client"
	"example.com/scion-time/core/server"
	"example.com/scion-time/core/timebase"
	"example.com/scion-time/net/ntske"
)

type fakeClock struct{}

func (fakeClock) Epoch() uint64                                { return 0 }
func (fakeClock) Now() time.Time                               { return time.Now() }
func (fakeClock) Drift(time.Duration) time.Duration            { return 0 }
func (fakeClock) Step(time.Duration)                           {}
func (fakeClock) Adjust(time.Duration, time.Duration, float64) {}
func (fakeClock) Sleep(d time.Duration)                        { time.Sleep(d) }

const (
	auditIP         = "127.11.3.7"
	auditServerPort = 20123
	auditRelayPort  = 20124
)

var (
	auditOnce     sync.Once
	auditProvider *ntske.Provider
	auditRelay    *relay
	auditTLS      *tls.Config
)

func selfSigned(t testing.TB) tls.Certificate {
	key, err := ecdsa.GenerateKey(elliptic.P256(), rand.Reader)
	if err != nil {
		t.Fatal(err)
	}
	tmpl := x509.Certificate{
		SerialNumber: big.NewInt(1),
		Subject:      pkix.Name{CommonName: "localhost"},
		NotBefore:    time.Now().Add(-time.Hour),
		NotAfter:     time.Now().Add(time.Hour),
		DNSNames:     []string{"localhost"},
		IPAddresses:  []net.IP{net.ParseIP(auditIP)},
	}
	der, err := x509.CreateCertificate(rand.Reader, &tmpl, &tmpl, &key.PublicKey, key)
	if err != nil {
		t.Fatal(err)
	}
	return tls.Certificate{Certificate: [][]byte{der}, PrivateKey: key}
}

type pktRec struct {
	at   time.Time
	data []byte
}

type relay struct {
	mu    sync.Mutex
	conn  *net.UDPConn
	up    map[netip.AddrPort]*net.UDPConn
	reqs  []pktRec
	resps []pktRec
	// number of copies of the next request/response to deliver (default 1)
	onReq  func(i int, b []byte) int
	onResp func(i int, b []byte) int
}

func (r *relay) reset() {
	r.mu.Lock()
	defer r.mu.Unlock()
	r.reqs, r.resps = nil, nil
	r.onReq, r.onResp = nil, nil
}

func (r *relay) snapshot() (reqs, resps []pktRec) {
	r.mu.Lock()
	defer r.mu.Unlock()
	return append([]pktRec(nil), r.reqs...), append([]pktRec(nil), r.resps...)
}

func (r *relay) run(serverAddr *net.UDPAddr) {
	buf := make([]byte, 65536)
	for {
		n, src, err := r.conn.ReadFromUDPAddrPort(buf)
		if err != nil {
			return
		}
		b := append([]byte(nil), buf[:n]...)
		r.mu.Lock()
		i := len(r.reqs)
		r.reqs = append(r.reqs, pktRec{time.Now(), b})
		copies := 1
		if r.onReq != nil {
			copies = r.onReq(i, b)
		}
		u := r.up[src]
		if u == nil {
			u, err = net.DialUDP("udp", &net.UDPAddr{IP: net.ParseIP(auditIP)}, serverAddr)
			if err != nil {
				panic(err)
			}
			r.up[src] = u
			go r.back(u, src)
		}
		r.mu.Unlock()
		for ; copies > 0; copies-- {
			_, _ = u.Write(b)
		}
	}
}

func (r *relay) back(u *net.UDPConn, dst netip.AddrPort) {
	defer u.Close()
	buf := make([]byte, 65536)
	for {
		_ = u.SetReadDeadline(time.Now().Add(5 * time.Second))
		n, err := u.Read(buf)
		if err != nil {
			r.mu.Lock()
			delete(r.up, dst)
			r.mu.Unlock()
			return
		}
		b := append([]byte(nil), buf[:n]...)
		r.mu.Lock()
		i := len(r.resps)
		r.resps = append(r.resps, pktRec{time.Now(), b})
		copies := 1
		if r.onResp != nil {
			copies = r.onResp(i, b)
		}
		r.mu.Unlock()
		for ; copies > 0; copies-- {
			_, _ = r.conn.WriteToUDPAddrPort(b, dst)
		}
	}
}

func auditSetup(t testing.TB) {
	auditOnce.Do(func() {
		timebase.RegisterClock(fakeClock{})
		log := slog.New(slog.DiscardHandler)
		ctx := context.Background()
		cert := selfSigned(t)
		auditTLS = &tls.Config{
			Certificates: []tls.Certificate{cert},
			NextProtos:   []string{"ntske/1"},
			MinVersion:   tls.VersionTLS13,
		}
		auditProvider = ntske.NewProvider()
		ip := net.ParseIP(auditIP)
		// the key exchange names the relay's port as the NTP port
		server.StartNTSKEServerIP(ctx, log, ip, auditRelayPort, auditTLS, auditProvider)
		server.StartIPServer(ctx, log, &net.UDPAddr{IP: ip, Port: auditServerPort}, 0, auditProvider)
		c, err := net.ListenUDP("udp", &net.UDPAddr{IP: ip, Port: auditRelayPort})
		if err != nil {
			t.Fatal(err)
		}
		auditRelay = &relay{conn: c, up: make(map[netip.AddrPort]*net.UDPConn)}
		go auditRelay.run(&net.UDPAddr{IP: ip, Port: auditServerPort})
		time.Sleep(100 * time.Millisecond)
	})
	auditRelay.reset()
}

func newAuditClient(interleaved bool, kePort string) *client.IPClient {
	c := &client.IPClient{
		Log:             slog.New(slog.DiscardHandler),
		InterleavedMode: interleaved,
	}
	c.Auth.Enabled = true
	c.Auth.NTSKEFetcher.TLSConfig = tls.Config{
		NextProtos:         []string{"ntske/1"},
		InsecureSkipVerify: true,
		ServerName:         auditIP,
		MinVersion:         tls.VersionTLS13,
	}
	c.Auth.NTSKEFetcher.Port = kePort
	c.Auth.NTSKEFetcher.Log = slog.New(slog.DiscardHandler)
	return c
}

// poolOf reads the fetcher's cached key-exchange data (unexported field).
func poolOf(f *ntske.Fetcher) ntske.Data {
	v := reflect.ValueOf(f).Elem().FieldByName("data")
	return *(*ntske.Data)(unsafe.Pointer(v.UnsafeAddr()))
}

func measure(c *client.IPClient, timeout time.Duration) error {
	ctx, cancel := context.WithTimeout(context.Background(), timeout)
	defer cancel()
	laddr := &net.UDPAddr{IP: net.ParseIP(auditIP)}
	raddr := &net.UDPAddr{IP: net.ParseIP(auditIP), Port: 4460}
	_, _, err := client.MeasureClockOffsetIP(ctx, slog.New(slog.DiscardHandler), c, laddr, raddr)
	return err
}

type extField struct {
	typ  uint16
	body []byte
}

// fields splits the extension fields of an NTS packet.
func fields(b []byte) (fs []extField) {
	pos := 48
	for len(b)-pos >= 4 {
		typ := binary.BigEndian.Uint16(b[pos:])
		l := int(binary.BigEndian.Uint16(b[pos+2:]))
		if l < 4 || pos+l > len(b) {
			break
		}
		fs = append(fs, extField{typ, b[pos+4 : pos+l]})
		pos += l
	}
	return fs
}
