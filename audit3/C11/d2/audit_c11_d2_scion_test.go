package client_test

import (
	"context"
	"crypto/tls"
	"log/slog"
	"net"
	"net/netip"
	"sync"
	"testing"
	"time"

	"github.com/scionproto/scion/pkg/addr"
	"github.com/scionproto/scion/pkg/snet"
	"github.com/scionproto/scion/pkg/snet/path"

	"example.com/scion-time/core/client"
	"example.com/scion-time/core/server"
	"example.com/scion-time/net/ntske"
	"example.com/scion-time/net/udp"
)

const (
	scionKEIP     = "127.11.3.8" // key exchange server and relay
	scionServerIP = "127.11.3.9" // NTP server
	scionClientIP = "127.11.3.10"
	scionPort     = 20223
)

var (
	scionOnce     sync.Once
	scionProvider *ntske.Provider
	scionRelay    *relay
	scionIA       = addr.MustParseIA("1-ff00:0:110")
)

func scionSetup(t testing.TB) {
	auditSetup(t)
	scionOnce.Do(func() {
		log := slog.New(slog.DiscardHandler)
		ctx := context.Background()
		scionProvider = ntske.NewProvider()
		server.StartNTSKEServerSCION(ctx, log,
			udp.UDPAddr{IA: scionIA, Host: &net.UDPAddr{IP: net.ParseIP(scionKEIP), Port: scionPort}},
			auditTLS, scionProvider)
		server.StartSCIONServer(ctx, log, "", &net.UDPAddr{IP: net.ParseIP(scionServerIP), Port: scionPort}, 0, scionProvider)
		c, err := net.ListenUDP("udp", &net.UDPAddr{IP: net.ParseIP(scionKEIP), Port: scionPort})
		if err != nil {
			t.Fatal(err)
		}
		scionRelay = &relay{conn: c, up: make(map[netip.AddrPort]*net.UDPConn)}
		go scionRelay.run(&net.UDPAddr{IP: net.ParseIP(scionServerIP), Port: scionPort})
		time.Sleep(100 * time.Millisecond)
	})
	scionRelay.reset()
}

func newSCIONAuditClient(interleaved bool) (*client.SCIONClient, udp.UDPAddr, udp.UDPAddr) {
	laddr := udp.UDPAddr{IA: scionIA, Host: &net.UDPAddr{IP: net.ParseIP(scionClientIP)}}
	raddr := udp.UDPAddr{IA: scionIA, Host: &net.UDPAddr{IP: net.ParseIP(scionKEIP), Port: ntske.ServerPortSCION}}
	c := &client.SCIONClient{
		Log:             slog.New(slog.DiscardHandler),
		InterleavedMode: interleaved,
	}
	c.Auth.NTSEnabled = true
	c.Auth.NTSKEFetcher.TLSConfig = tls.Config{
		NextProtos:         []string{"ntske/1"},
		InsecureSkipVerify: true,
		ServerName:         scionKEIP,
		MinVersion:         tls.VersionTLS13,
	}
	c.Auth.NTSKEFetcher.Log = slog.New(slog.DiscardHandler)
	c.Auth.NTSKEFetcher.QUIC.Enabled = true
	c.Auth.NTSKEFetcher.QUIC.LocalAddr = laddr
	c.Auth.NTSKEFetcher.QUIC.RemoteAddr = raddr
	return c, laddr, raddr
}

func measureSCION(c *client.SCIONClient, laddr, raddr udp.UDPAddr, timeout time.Duration) error {
	ctx, cancel := context.WithTimeout(context.Background(), timeout)
	defer cancel()
	ps := []snet.Path{path.Path{
		Src:           laddr.IA,
		Dst:           raddr.IA,
		DataplanePath: path.Empty{},
		NextHop:       raddr.Host,
	}}
	_, _, err := client.MeasureClockOffsetSCION(ctx, slog.New(slog.DiscardHandler), []*client.SCIONClient{c}, laddr, raddr, ps)
	return err
}

// SCION/QUIC sibling of TestAuditC11CookiesSpentAfterDeadline: the late attempts
// of a round run in the goroutine that MeasureClockOffsetSCION leaves behind at
// the deadline of the round.
func TestAuditC11CookiesSpentAfterDeadlineSCION(t *testing.T) {
	scionSetup(t)
	c, laddr, raddr := newSCIONAuditClient(true)
	// key exchange, fill the pool
	for i := 0; i < 3 && len(poolOf(&c.Auth.NTSKEFetcher).Cookie) < 8; i++ {
		_ = measureSCION(c, laddr, raddr, 500*time.Millisecond)
	}
	wasted, rounds := 0, 0
	for rounds < 300 {
		for len(poolOf(&c.Auth.NTSKEFetcher).Cookie) < 8 {
			scionRelay.reset()
			if err := measureSCION(c, laddr, raddr, 500*time.Millisecond); err != nil {
				t.Fatal(err)
			}
		}
		scionRelay.reset()
		scionRelay.mu.Lock()
		scionRelay.onResp = func(int, []byte) int { return 0 }
		scionRelay.mu.Unlock()
		before := len(poolOf(&c.Auth.NTSKEFetcher).Cookie)
		err := measureSCION(c, laddr, raddr, 20*time.Millisecond)
		time.Sleep(10 * time.Millisecond) // the round's goroutine makes its late attempts
		after := len(poolOf(&c.Auth.NTSKEFetcher).Cookie)
		reqs, _ := scionRelay.snapshot()
		rounds++
		if err == nil {
			t.Fatalf("round %d: unexpected success", rounds)
		}
		if before-after != len(reqs) {
			wasted += before - after - len(reqs)
			t.Logf("round %d: %d request(s) on the wire, pool %d -> %d", rounds, len(reqs), before, after)
		}
	}
	if wasted != 0 {
		t.Errorf("%d cookies were taken from the pool after the deadline of their round and never sent (%d rounds with a lost response)", wasted, rounds)
	}
}
