package adjustments

import (
	"log/slog"
	"io"
	"math"
	"math/rand"
	"testing"
	"time"
)

type mockClk struct {
	epoch uint64
	now   time.Time
	steps []time.Duration
	adjs  [][3]float64
	bump  bool
}

func (c *mockClk) Epoch() uint64 { return c.epoch }
func (c *mockClk) Now() time.Time { return c.now }
func (c *mockClk) Drift(d time.Duration) time.Duration { return 0 }
func (c *mockClk) Step(o time.Duration) { c.steps = append(c.steps, o); if c.bump { c.epoch++ } }
func (c *mockClk) Adjust(o, d time.Duration, f float64) {
	c.adjs = append(c.adjs, [3]float64{float64(o), float64(d), f})
}
func (c *mockClk) Sleep(d time.Duration) {}

func TestAudit5Random(t *testing.T) {
	log := slog.New(slog.NewTextHandler(io.Discard, nil))
	for seed := int64(0); seed < 3000; seed++ {
		r := rand.New(rand.NewSource(seed))
		clk := &mockClk{now: time.Unix(1e9, 0), bump: r.Intn(2) == 0}
		pll := NewPLL(log, clk); defer func(s int64) { if s%500 == 0 { t.Log(s, len(clk.steps), len(clk.adjs)) } }(seed)
		var epochStart time.Time
		firstOfEpoch := true
		lastEpoch := clk.epoch
		tracking := false
		var prev time.Time
		for k := 0; k < 400; k++ {
			// advance
			var adv time.Duration
			switch r.Intn(6) {
			case 0:
				adv = 0
			case 1:
				adv = time.Duration(r.Int63n(int64(3 * time.Second)))
			case 2:
				adv = time.Duration(r.Int63n(5)) * time.Second
			case 3:
				adv = time.Duration(r.Int63n(int64(400 * time.Second)))
			case 4:
				adv = time.Duration(r.Int63n(1 << 55))
			case 5:
				adv = time.Duration(r.Int63n(3)) + 2*time.Second - 1
			}
			clk.now = clk.now.Add(adv)
			if r.Intn(40) == 0 {
				clk.epoch++
			}
			var off time.Duration
			switch r.Intn(6) {
			case 0:
				off = time.Duration(r.Int63n(3)-1) + time.Millisecond
			case 1:
				off = -(time.Duration(r.Int63n(3)-1) + time.Millisecond)
			case 2:
				off = time.Duration(r.Uint64())
			case 3:
				off = time.Duration(r.Int63n(int64(time.Second))) - time.Second/2
			case 4:
				off = []time.Duration{math.MinInt64, math.MaxInt64, 0, math.MinInt64 + 1}[r.Intn(4)]
			case 5:
				off = time.Duration(r.Int63n(int64(time.Hour)))
			}
			var w float64
			switch r.Intn(8) {
			case 0:
				w = 3
			case 1:
				w = math.Nextafter(3, 4)
			case 2:
				w = math.NaN()
			case 3:
				w = math.Inf(1 - 2*r.Intn(2))
			case 4:
				w = r.Float64() * 200
			case 5:
				w = 50
			case 6:
				w = 150
			case 7:
				w = 1000
			}
			ns, na := len(clk.steps), len(clk.adjs)
			epochBefore := clk.epoch
			if epochBefore != lastEpoch {
				firstOfEpoch = true
				tracking = false
				lastEpoch = epochBefore
			}
			if firstOfEpoch {
				epochStart = clk.now
			}
			pll.Do(off, w)
			if len(clk.steps) > ns {
				if len(clk.steps) != ns+1 || clk.steps[ns] != off {
					t.Fatalf("seed %d k %d: step %v for off %v", seed, k, clk.steps[ns:], off)
				}
				if firstOfEpoch || !(clk.now.Sub(epochStart) > 2*time.Second) || !(w > 3) || !(off > time.Millisecond || off < -time.Millisecond) || tracking {
					t.Fatalf("seed %d k %d: unexpected step off %v w %v since %v mode %d", seed, k, off, w, clk.now.Sub(epochStart), pll.mode)
				}
			}
			if len(clk.adjs) > na {
				a := clk.adjs[na]
				el := clk.now.Sub(prev)
				whole := math.Ceil(el.Seconds())
				if len(clk.adjs) != na+1 || a[1] <= 0 || math.IsNaN(a[2]) || math.IsInf(a[2], 0) || math.Abs(a[0]) > whole*500e3 || a[1] != whole*1e9 {
					t.Fatalf("seed %d k %d: adj %v elapsed %v", seed, k, a, el)
				}
				if pll.mode != 3 {
					t.Fatalf("adjust outside tracking")
				}
			}
			if pll.mode == 3 {
				tracking = true
			}
			if clk.epoch != lastEpoch { // own step
				lastEpoch = clk.epoch
				firstOfEpoch = true
				tracking = false
			} else {
				firstOfEpoch = false
			}
			prev = clk.now
		}
	}
}
