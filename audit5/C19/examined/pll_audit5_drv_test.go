//go:build linux

package adjustments

import (
	"io"
	"log/slog"
	"testing"
	"time"

	"golang.org/x/sys/unix"

	"example.com/scion-time/driver/clocks"
)

func TestAudit5PllDriver(t *testing.T) {
	tx := unix.Timex{
		Modes: unix.ADJ_SETOFFSET | unix.ADJ_NANO,
		Time:  unix.Timeval{Sec: 0, Usec: 2000000000},
	}
	if _, err := unix.ClockAdjtime(unix.CLOCK_REALTIME, &tx); err != nil {
		t.Skip("clock_adjtime is not intercepted")
	}
	log := slog.New(slog.NewTextHandler(io.Discard, nil))
	c := clocks.NewSystemClock(log, 0)
	pll := NewPLL(log, c)
	off := -5 * time.Millisecond
	for k := 0; k < 40; k++ {
		e := c.Epoch()
		pll.Do(off, 10)
		if c.Epoch() != e {
			off = 200 * time.Microsecond
		}
		t.Log(k, pll.mode, c.Epoch())
		time.Sleep(400 * time.Millisecond)
	}
	c.Step(time.Second)
	pll.Do(off, 10)
	t.Log(pll.mode)
	time.Sleep(1500 * time.Millisecond)
}
