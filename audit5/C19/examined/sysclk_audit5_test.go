//go:build linux

package clocks

import (
	"io"
	"log/slog"
	"testing"
	"time"

	"golang.org/x/sys/unix"
)

func canary(t *testing.T) {
	tx := unix.Timex{
		Modes: unix.ADJ_SETOFFSET | unix.ADJ_NANO,
		Time:  unix.Timeval{Sec: 0, Usec: 2000000000},
	}
	_, err := unix.ClockAdjtime(unix.CLOCK_REALTIME, &tx)
	if err != nil {
		t.Skip("clock_adjtime is not intercepted")
	}
}

func marker(n int64) {
	tx := unix.Timex{
		Modes: unix.ADJ_SETOFFSET | unix.ADJ_NANO,
		Time:  unix.Timeval{Sec: 0, Usec: 2000000000 + n},
	}
	unix.ClockAdjtime(unix.CLOCK_REALTIME, &tx)
}

func TestAudit5Driver(t *testing.T) {
	canary(t)
	log := slog.New(slog.NewTextHandler(io.Discard, nil))
	c := NewSystemClock(log, 0)
	marker(1)
	c.Adjust(250*time.Microsecond, time.Second, 10e-6)
	time.Sleep(1500 * time.Millisecond)
	marker(2)
	c.Step(-1500 * time.Millisecond) // after ended adjustment
	marker(3)
	c.Adjust(-500*time.Microsecond, 2*time.Second, -20e-6)
	time.Sleep(500 * time.Millisecond)
	c.Step(1500*time.Millisecond + 1)
	marker(4)
	time.Sleep(2 * time.Second)
	marker(5)
	c.Adjust(500*time.Microsecond, 3*time.Second, 1e-6)
	time.Sleep(1 * time.Second)
	c.Adjust(400*time.Microsecond, 1*time.Second, 2e-6)
	time.Sleep(3 * time.Second)
	marker(6)
	if c.Epoch() != 2 {
		t.Fatal("epoch")
	}
}
