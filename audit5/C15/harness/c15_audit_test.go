package client

// Audit harness for property C15: randomized multi-round runs of
// MeasureClockOffsetSCION against the repository's own SCION server on
// loopback, through one UDP relay per offered path. The relay identifies the
// client by the DSCP value it puts into the SCION traffic class.

import (
	"context"
	"encoding/binary"
	"fmt"
	"log/slog"
	"math/rand"
	"net"
	"net/netip"
	"os"
	"sort"
	"sync"
	"testing"
	"time"

	"github.com/scionproto/scion/pkg/addr"
	"github.com/scionproto/scion/pkg/segment/iface"
	"github.com/scionproto/scion/pkg/slayers/path"
	spathscion "github.com/scionproto/scion/pkg/slayers/path/scion"
	"github.com/scionproto/scion/pkg/snet"
	spath "github.com/scionproto/scion/pkg/snet/path"

	"example.com/scion-time/core/measurements"
	"example.com/scion-time/core/server"
	"example.com/scion-time/core/timebase"
	"example.com/scion-time/net/ntske"
	"example.com/scion-time/net/udp"
)

type auditClock struct{}

func (auditClock) Epoch() uint64                                { return 0 }
func (auditClock) Now() time.Time                               { return time.Now() }
func (auditClock) Drift(d time.Duration) time.Duration          { return d / 1000 }
func (auditClock) Step(time.Duration)                           { panic("no") }
func (auditClock) Adjust(time.Duration, time.Duration, float64) { panic("no") }
func (auditClock) Sleep(d time.Duration)                        { time.Sleep(d) }

var registerOnce sync.Once

var (
	auditServerOnce sync.Once
	auditServerPort int
)

func startAuditServer(t *testing.T, log *slog.Logger) int {
	auditServerOnce.Do(func() {
		auditServerPort = freePort(t)
		srvHost := &net.UDPAddr{IP: net.IPv4(127, 0, 0, 1), Port: auditServerPort}
		server.StartSCIONServer(context.Background(), log, "", srvHost, 0, ntske.NewProvider())
	})
	return auditServerPort
}

var pCorrupt = 0.03

func registerAuditClock() {
	registerOnce.Do(func() { timebase.RegisterClock(auditClock{}) })
}

type auditFilter struct {
	mu     sync.Mutex
	resets int
	dos    int
	last   time.Duration
}

func (f *auditFilter) Do(t0, t1, t2, t3 time.Time) time.Duration {
	f.mu.Lock()
	defer f.mu.Unlock()
	f.dos++
	f.last = (t1.Sub(t0) + t2.Sub(t3)) / 2
	return f.last
}

func (f *auditFilter) Reset() {
	f.mu.Lock()
	defer f.mu.Unlock()
	f.resets++
}

var _ measurements.Filter = (*auditFilter)(nil)

type reqRecord struct {
	round       int
	client      int
	path        int
	interleaved bool
}

type relay struct {
	idx    int
	conn   *net.UDPConn
	server netip.AddrPort
	mu     sync.Mutex
	up     map[netip.AddrPort]*net.UDPConn
	net    *auditNet
}

type auditNet struct {
	mu       sync.Mutex
	round    int
	recs     []reqRecord
	dropReq  func(round, client, path int) bool
	dropResp func(round, client, path int) bool
}

func (n *auditNet) setRound(r int) {
	n.mu.Lock()
	n.round = r
	n.mu.Unlock()
}

func (n *auditNet) records(r int) []reqRecord {
	n.mu.Lock()
	defer n.mu.Unlock()
	var out []reqRecord
	for _, x := range n.recs {
		if x.round == r {
			out = append(out, x)
		}
	}
	return out
}

func startRelay(t *testing.T, an *auditNet, idx int, srv netip.AddrPort) *relay {
	c, err := net.ListenUDP("udp", &net.UDPAddr{IP: net.IPv4(127, 0, 0, 1)})
	if err != nil {
		t.Fatal(err)
	}
	r := &relay{idx: idx, conn: c, server: srv, up: map[netip.AddrPort]*net.UDPConn{}, net: an}
	go r.run()
	return r
}

func (r *relay) run() {
	buf := make([]byte, 2048)
	for {
		n, from, err := r.conn.ReadFromUDPAddrPort(buf)
		if err != nil {
			return
		}
		pkt := append([]byte(nil), buf[:n]...)
		if n < 48+8 {
			continue
		}
		tc := (pkt[0]&0x0f)<<4 | pkt[1]>>4
		client := int(tc >> 2)
		ntpb := pkt[n-48:]
		origin := binary.BigEndian.Uint64(ntpb[24:32])
		r.net.mu.Lock()
		round := r.net.round
		r.net.recs = append(r.net.recs, reqRecord{round: round, client: client, path: r.idx, interleaved: origin != 0})
		dq := r.net.dropReq
		dp := r.net.dropResp
		r.net.mu.Unlock()
		if dq != nil && dq(round, client, r.idx) {
			continue
		}
		r.mu.Lock()
		uc, ok := r.up[from]
		if !ok {
			uc, err = net.ListenUDP("udp", &net.UDPAddr{IP: net.IPv4(127, 0, 0, 1)})
			if err != nil {
				r.mu.Unlock()
				continue
			}
			r.up[from] = uc
			go func(uc *net.UDPConn, to netip.AddrPort, round, client int) {
				b := make([]byte, 2048)
				for {
					_ = uc.SetReadDeadline(time.Now().Add(2 * time.Second))
					m, _, err := uc.ReadFromUDPAddrPort(b)
					if err != nil {
						r.mu.Lock()
						delete(r.up, to)
						r.mu.Unlock()
						uc.Close()
						return
					}
					if dp != nil && dp(round, client, r.idx) {
						continue
					}
					if m >= 48 && rand.Float64() < pCorrupt {
						b[m-48+1] = 0 // stratum 0: response fails validation at once
					}
					_, _ = r.conn.WriteToUDPAddrPort(b[:m], to)
				}
			}(uc, from, round, client)
		}
		r.mu.Unlock()
		_, _ = uc.WriteToUDPAddrPort(pkt, r.server)
	}
}

var (
	auditLocalIA  = addr.MustParseIA("1-ff00:0:111")
	auditRemoteIA = addr.MustParseIA("1-ff00:0:112")
)

func makePath(t *testing.T, idx int, nextHop netip.AddrPort) snet.Path {
	dec := spathscion.Decoded{
		Base: spathscion.Base{
			PathMeta: spathscion.MetaHdr{CurrINF: 0, CurrHF: 0, SegLen: [3]uint8{2, 0, 0}},
			NumINF:   1,
			NumHops:  2,
		},
		InfoFields: []path.InfoField{{ConsDir: true, SegID: uint16(idx + 1), Timestamp: 1}},
		HopFields: []path.HopField{
			{ExpTime: 63, ConsIngress: 0, ConsEgress: uint16(100 + idx)},
			{ExpTime: 63, ConsIngress: uint16(200 + idx), ConsEgress: 0},
		},
	}
	dp, err := spath.NewSCIONFromDecoded(dec)
	if err != nil {
		t.Fatal(err)
	}
	return spath.Path{
		Src:           auditLocalIA,
		Dst:           auditRemoteIA,
		DataplanePath: dp,
		NextHop:       net.UDPAddrFromAddrPort(nextHop),
		Meta: snet.PathMetadata{
			Interfaces: []snet.PathInterface{
				{IA: auditLocalIA, ID: 0},
			},
		},
	}
}

func withIfID(p snet.Path, id int) snet.Path {
	pp := p.(spath.Path)
	pp.Meta.Interfaces = []snet.PathInterface{
		{IA: auditLocalIA, ID: ifid(100 + id)},
		{IA: auditRemoteIA, ID: ifid(200 + id)},
	}
	return pp
}

func ftm(vs []time.Duration) time.Duration {
	sort.Slice(vs, func(i, j int) bool { return vs[i] < vs[j] })
	n := len(vs)
	f := (n - 1) / 3
	return vs[f] + (vs[n-1-f]-vs[f])/2
}

func freePort(t *testing.T) int {
	c, err := net.ListenUDP("udp", &net.UDPAddr{IP: net.IPv4(127, 0, 0, 1)})
	if err != nil {
		t.Fatal(err)
	}
	defer c.Close()
	return c.LocalAddr().(*net.UDPAddr).Port
}

func TestAuditC15Random(t *testing.T) {
	registerAuditClock()
	seed := time.Now().UnixNano()
	if s := os.Getenv("C15_SEED"); s != "" {
		fmt.Sscan(s, &seed)
	}
	rng := rand.New(rand.NewSource(seed))
	t.Logf("seed %d", seed)

	log := slog.New(slog.NewTextHandler(os.Stderr, &slog.HandlerOptions{Level: slog.LevelError + 1}))
	ctx := context.Background()

	srvPort := startAuditServer(t, log)
	srvAP := netip.AddrPortFrom(netip.MustParseAddr("127.0.0.1"), uint16(srvPort))

	numPaths := 9
	numClients := 7
	if s := os.Getenv("C15_PATHS"); s != "" {
		fmt.Sscan(s, &numPaths)
	}
	if s := os.Getenv("C15_CLIENTS"); s != "" {
		fmt.Sscan(s, &numClients)
	}
	an := &auditNet{}
	var relays []*relay
	var allPaths []snet.Path
	fpOf := map[string]int{}
	for i := 0; i < numPaths; i++ {
		r := startRelay(t, an, i, srvAP)
		relays = append(relays, r)
		p := withIfID(makePath(t, i, r.conn.LocalAddr().(*net.UDPAddr).AddrPort()), i)
		allPaths = append(allPaths, p)
		fpOf[snet.Fingerprint(p).String()] = i
	}

	var cs []*SCIONClient
	var fs []*auditFilter
	for i := 0; i < numClients; i++ {
		f := &auditFilter{}
		fs = append(fs, f)
		cs = append(cs, &SCIONClient{Log: log, DSCP: uint8(i), InterleavedMode: true, Filter: f})
	}
	localAddr := udp.UDPAddr{IA: auditLocalIA, Host: &net.UDPAddr{IP: net.IPv4(127, 0, 0, 1)}}
	remoteAddr := udp.UDPAddr{IA: auditRemoteIA, Host: &net.UDPAddr{IP: net.IPv4(127, 0, 0, 1), Port: srvPort}}

	pDropReq, pDropResp := 0.05, 0.05
	if s := os.Getenv("C15_DROP"); s != "" {
		fmt.Sscan(s, &pDropReq)
		pDropResp = pDropReq
	}
	an.dropReq = func(round, client, path int) bool { return rand.Float64() < pDropReq }
	an.dropResp = func(round, client, path int) bool { return rand.Float64() < pDropResp }

	rounds := 300
	if s := os.Getenv("C15_ROUNDS"); s != "" {
		fmt.Sscan(s, &rounds)
	}
	offered := make([]bool, numPaths)
	for i := range offered {
		offered[i] = true
	}
	violations := 0
	for r := 1; r <= rounds; r++ {
		an.setRound(r)
		// evolve the offered set
		for i := range offered {
			if rng.Float64() < 0.1 {
				offered[i] = !offered[i]
			}
		}
		if rng.Float64() < 0.03 {
			for i := range offered {
				offered[i] = false
			}
		}
		var ps []snet.Path
		var offIdx []int
		for _, i := range rng.Perm(numPaths) {
			if offered[i] {
				ps = append(ps, allPaths[i])
				offIdx = append(offIdx, i)
			}
		}
		nc := numClients
		if rng.Float64() < 0.2 {
			nc = 1 + rng.Intn(numClients)
		}
		ntpcs := cs[:nc]

		if rng.Float64() < 0.15 && nc >= 2 {
			a, b := rng.Intn(nc), rng.Intn(nc)
			if a != b && cs[a].InInterleavedMode() {
				cs[b].prev = cs[a].prev // duplicate previous path
			}
		}
		// expectation
		type pre struct {
			inIM   bool
			pf     string
			resets int
			dos    int
		}
		pres := make([]pre, nc)
		taken := map[int]bool{}
		expKeep := make([]int, nc)
		for i, c := range ntpcs {
			pres[i] = pre{c.InInterleavedMode(), c.InterleavedModePath(), fs[i].resets, fs[i].dos}
			expKeep[i] = -1
			if pres[i].inIM {
				if pi, ok := fpOf[pres[i].pf]; ok && offered[pi] && !taken[pi] {
					expKeep[i] = pi
					taken[pi] = true
				}
			}
		}

		cctx, cancel := context.WithTimeout(ctx, 60*time.Millisecond)
		_, off, err := MeasureClockOffsetSCION(cctx, log, ntpcs, localAddr, remoteAddr, ps)
		cancel()
		time.Sleep(5 * time.Millisecond)

		recs := an.records(r)
		byClient := map[int][]reqRecord{}
		byPath := map[int]map[int]bool{}
		for _, x := range recs {
			byClient[x.client] = append(byClient[x.client], x)
			if byPath[x.path] == nil {
				byPath[x.path] = map[int]bool{}
			}
			byPath[x.path][x.client] = true
		}
		bad := func(format string, args ...any) {
			violations++
			t.Errorf("round %d: "+format, append([]any{r}, args...)...)
		}
		for p, cl := range byPath {
			if len(cl) > 1 {
				bad("path %d probed by clients %v", p, cl)
			}
			if !offered[p] {
				bad("path %d probed but not offered", p)
			}
		}
		if len(byClient) > len(ps) {
			bad("%d clients took part, %d paths", len(byClient), len(ps))
		}
		want := nc
		if len(ps) < want {
			want = len(ps)
		}
		if len(byClient) != want {
			bad("%d clients took part, want %d (clients %d, paths %d)", len(byClient), want, nc, len(ps))
		}
		for i := 0; i < nc; i++ {
			xs := byClient[i]
			for _, x := range xs {
				if x.path != xs[0].path {
					bad("client %d probed paths %d and %d", i, xs[0].path, x.path)
				}
			}
			if expKeep[i] >= 0 {
				if len(xs) == 0 {
					bad("client %d in interleaved mode did not take part (path %d offered)", i, expKeep[i])
				} else {
					if xs[0].path != expKeep[i] {
						bad("client %d in interleaved mode moved from path %d to %d", i, expKeep[i], xs[0].path)
					}
					if !xs[0].interleaved {
						bad("client %d kept path %d but sent a basic request first", i, expKeep[i])
					}
				}
				if fs[i].resets != pres[i].resets {
					bad("client %d kept its path but its filter was reset", i)
				}
			} else {
				if fs[i].resets != pres[i].resets+1 {
					bad("client %d not keeping a path: filter resets %d -> %d", i, pres[i].resets, fs[i].resets)
				}
				if len(xs) != 0 && xs[0].interleaved {
					bad("client %d was reset but sent an interleaved request first", i)
				}
			}
		}
		var vals []time.Duration
		for i := 0; i < nc; i++ {
			if fs[i].dos != pres[i].dos {
				vals = append(vals, fs[i].last)
			}
		}
		if len(ps) == 0 {
			if err != errNoPath {
				bad("no path offered: err = %v", err)
			}
		} else if len(vals) == 0 {
			if err == nil {
				bad("no client measured but no error")
			}
		} else {
			if err != nil {
				// possible at the deadline only
				t.Logf("round %d: %d values but err %v", r, len(vals), err)
			} else if w := ftm(vals); w != off {
				t.Logf("round %d: offset %v, FTM over %d filter values %v (deadline race possible)", r, off, len(vals), w)
				for i := 0; i < nc; i++ {
					t.Logf("   client %d: reqs %v dos +%d last %v inIM(before) %v", i, byClient[i], fs[i].dos-pres[i].dos, fs[i].last, pres[i].inIM)
				}
			}
		}
		if violations > 20 {
			t.Fatal("too many violations")
		}
	}
}

type ifid = iface.ID

// Observation: a client that is not yet in interleaved mode measures
// successfully in basic mode, sends the interleaved follow-up in the same
// round, and that follow-up is lost: the value of the successful exchange is
// delivered only at the deadline, where the collector has already left.
func TestAuditC15ObsHeldBackValue(t *testing.T) {
	registerAuditClock()
	log := slog.New(slog.NewTextHandler(os.Stderr, &slog.HandlerOptions{Level: slog.LevelError + 1}))
	ctx := context.Background()
	srvPort := startAuditServer(t, log)
	srvAP := netip.AddrPortFrom(netip.MustParseAddr("127.0.0.1"), uint16(srvPort))
	an := &auditNet{}
	var mu sync.Mutex
	seen := 0
	an.dropReq = func(round, client, path int) bool {
		mu.Lock()
		defer mu.Unlock()
		seen++
		return seen == 2 // the interleaved follow-up of round 1
	}
	r := startRelay(t, an, 0, srvAP)
	p := withIfID(makePath(t, 0, r.conn.LocalAddr().(*net.UDPAddr).AddrPort()), 0)
	f := &auditFilter{}
	c := &SCIONClient{Log: log, DSCP: 0, InterleavedMode: true, Filter: f}
	localAddr := udp.UDPAddr{IA: auditLocalIA, Host: &net.UDPAddr{IP: net.IPv4(127, 0, 0, 1)}}
	remoteAddr := udp.UDPAddr{IA: auditRemoteIA, Host: &net.UDPAddr{IP: net.IPv4(127, 0, 0, 1), Port: srvPort}}
	an.setRound(1)
	cctx, cancel := context.WithTimeout(ctx, 100*time.Millisecond)
	defer cancel()
	_, off, err := MeasureClockOffsetSCION(cctx, log, []*SCIONClient{c}, localAddr, remoteAddr, []snet.Path{p})
	time.Sleep(10 * time.Millisecond)
	t.Logf("requests seen: %v; filter samples: %d (value %v); round result: off=%v err=%v",
		an.records(1), f.dos, f.last, off, err)
	if f.dos == 1 && err != nil {
		t.Logf("OBSERVATION: the client measured %v, the round reports %q", f.last, err)
	}
}

// Observation: rounds 3 s or more apart (sync_interval is configurable): a
// client in interleaved mode keeps its path and is not reset, but its first
// request of the round is a basic-mode request.
func TestAuditC15ObsStaleInterleaved(t *testing.T) {
	registerAuditClock()
	log := slog.New(slog.NewTextHandler(os.Stderr, &slog.HandlerOptions{Level: slog.LevelError + 1}))
	ctx := context.Background()
	srvPort := startAuditServer(t, log)
	srvAP := netip.AddrPortFrom(netip.MustParseAddr("127.0.0.1"), uint16(srvPort))
	an := &auditNet{}
	r := startRelay(t, an, 0, srvAP)
	p := withIfID(makePath(t, 0, r.conn.LocalAddr().(*net.UDPAddr).AddrPort()), 0)
	f := &auditFilter{}
	c := &SCIONClient{Log: log, DSCP: 0, InterleavedMode: true, Filter: f}
	localAddr := udp.UDPAddr{IA: auditLocalIA, Host: &net.UDPAddr{IP: net.IPv4(127, 0, 0, 1)}}
	remoteAddr := udp.UDPAddr{IA: auditRemoteIA, Host: &net.UDPAddr{IP: net.IPv4(127, 0, 0, 1), Port: srvPort}}
	for round := 1; round <= 2; round++ {
		an.setRound(round)
		inIM := c.InInterleavedMode()
		cctx, cancel := context.WithTimeout(ctx, 100*time.Millisecond)
		_, _, err := MeasureClockOffsetSCION(cctx, log, []*SCIONClient{c}, localAddr, remoteAddr, []snet.Path{p})
		cancel()
		time.Sleep(10 * time.Millisecond)
		t.Logf("round %d: in interleaved mode before: %v; requests %v; filter resets %d samples %d; err %v",
			round, inIM, an.records(round), f.resets, f.dos, err)
		if round == 1 {
			time.Sleep(3100 * time.Millisecond)
		}
	}
}
