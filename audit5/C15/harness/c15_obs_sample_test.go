package crypto

import (
	"context"
	"testing"
)

func TestObsSampleMarginals(t *testing.T) {
	const k, n, N = 2, 3, 300000
	var slot0 [n]int
	subsets := map[[2]int]int{}
	for r := 0; r < N; r++ {
		ps := []int{0, 1, 2}
		m, err := Sample(context.Background(), k, n, func(dst, src int) { ps[dst] = ps[src] })
		if err != nil || m != k {
			t.Fatal(m, err)
		}
		slot0[ps[0]]++
		a, b := ps[0], ps[1]
		if a > b {
			a, b = b, a
		}
		subsets[[2]int{a, b}]++
	}
	t.Logf("client 0 receives path 0/1/2: %v; subsets: %v", slot0, subsets)
}
