//go:build verif

package client

// C03, audit round 5: a delayed duplicate of an interleaved request is served
// from the record of ANOTHER exchange that was stamped with the same receive
// time after the record the request refers to had left the store.
//
// Place this file in core/client/ and run
//
//	go test -tags verif ./core/client -run TestC03ReissuedRxTimestamp -count=1 -v
//
// The real IPClient talks over loopback to a listener that is a copy of the
// loop of runIPServer, except that it takes the receive time from a scripted
// server clock (real time + theta, theta changes between exchanges only) and
// that it plays the network faults of the history. The timestamp store and the
// request handler are the real ones (server.VerifHandleRequest /
// server.VerifUpdateTXTimestamp).

import (
	"context"
	"log/slog"
	"net"
	"net/netip"
	"os"
	"runtime"
	"strings"
	"sync"
	"sync/atomic"
	"testing"
	"time"

	"example.com/scion-time/core/server"
	"example.com/scion-time/core/timebase"
	"example.com/scion-time/net/ntp"
)

// server clock = client clock + c03Theta; the client clock is the real time
var c03Theta atomic.Int64

type c03Clock struct{}

func (c03Clock) Epoch() uint64 { return 0 }
func (c03Clock) Now() time.Time {
	// handleRequest reads the *server's* clock, everything else in this
	// process (the clients) reads the client's clock
	var pcs [16]uintptr
	n := runtime.Callers(2, pcs[:])
	fr := runtime.CallersFrames(pcs[:n])
	for {
		f, more := fr.Next()
		if strings.HasSuffix(f.Function, "server.handleRequest") {
			return time.Now().UTC().Add(time.Duration(c03Theta.Load()))
		}
		if !more {
			break
		}
	}
	return time.Now().UTC()
}
func (c03Clock) Drift(time.Duration) time.Duration            { return 0 }
func (c03Clock) Step(time.Duration)                           { panic("not used") }
func (c03Clock) Adjust(time.Duration, time.Duration, float64) { panic("not used") }
func (c03Clock) Sleep(d time.Duration)                        { time.Sleep(d) }

type c03Rec struct {
	mu  sync.Mutex
	all [][4]time.Time
}

func (r *c03Rec) Do(t0, t1, t2, t3 time.Time) time.Duration {
	r.mu.Lock()
	r.all = append(r.all, [4]time.Time{t0, t1, t2, t3})
	r.mu.Unlock()
	return ntp.ClockOffset(t0, t1, t2, t3)
}
func (r *c03Rec) Reset() {}

const c03ClientID = "127.0.0.1"

func TestC03ReissuedRxTimestamp(t *testing.T) {
	timebase.RegisterClock(c03Clock{})
	log := slog.New(slog.NewTextHandler(os.Stderr, &slog.HandlerOptions{Level: slog.LevelError + 4}))

	conn, err := net.ListenUDP("udp", &net.UDPAddr{IP: net.IPv4(127, 0, 0, 1)})
	if err != nil {
		t.Fatal(err)
	}
	defer conn.Close()
	srvPort := conn.LocalAddr().(*net.UDPAddr).Port

	const theta1 = 5 * time.Second // server clock during A1 and B1
	const procA2 = 20 * time.Millisecond

	var (
		rA1        time.Time  // receive time of A1 (server clock) ...
		rA164      ntp.Time64 // ... and as the server put it into its reply
		txA1, txA2 ntp.Time64
		theta2     time.Duration
	)
	startClient2 := make(chan struct{})

	// one request: the loop body of runIPServer with a scripted clock
	serve := func(req *ntp.Packet, src netip.AddrPort, rxt time.Time, theta, proc time.Duration, send bool) (ntp.Packet, time.Time) {
		c03Theta.Store(int64(theta))
		var txt0 time.Time
		var resp ntp.Packet
		server.VerifHandleRequest(c03ClientID, req, &rxt, &txt0, &resp)
		time.Sleep(proc) // the server is busy
		buf := make([]byte, ntp.PacketLen)
		ntp.EncodePacket(&buf, &resp)
		txt1 := time.Now().UTC().Add(theta) // "kernel" tx timestamp: when the reply leaves
		if send {
			conn.WriteToUDPAddrPort(buf, src)
		}
		server.VerifUpdateTXTimestamp(c03ClientID, rxt, txt0, &txt1)
		return resp, rxt
	}
	recTx := func(rx ntp.Time64) ntp.Time64 {
		recs, _, _ := server.VerifSnapshot(c03ClientID)
		for _, r := range recs {
			if r.RX == rx {
				return r.TX
			}
		}
		t.Fatalf("no record with rx %v", rx)
		return ntp.Time64{}
	}

	go func() {
		buf := make([]byte, 2048)
		var dupB1 ntp.Packet
		var dupB1Src netip.AddrPort
		for i := 1; ; i++ {
			n, src, err := conn.ReadFromUDPAddrPort(buf)
			if err != nil {
				return
			}
			now := time.Now().UTC()
			var req ntp.Packet
			if ntp.DecodePacket(&req, buf[:n]) != nil {
				continue
			}
			switch i {
			case 1: // A1: basic request of client 1
				var resp ntp.Packet
				resp, rA1 = serve(&req, src, now.Add(theta1), theta1, 0, true)
				rA164 = resp.ReceiveTime
				txA1 = recTx(resp.ReceiveTime)
			case 2: // B1: interleaved request of client 1, duplicated by the network;
				// the reply to the first copy is lost
				if req.OriginTime != rA164 {
					t.Errorf("B1 is not the interleaved follow-up of A1")
				}
				dupB1, dupB1Src = req, src
				serve(&req, src, now.Add(theta1), theta1, 0, false)
				close(startClient2)
			case 3: // A2: basic request of client 2 (same host, same client id).
				// Between the exchanges the server's clock was set back: it reads
				// rA1 again when A2 arrives. A1's record left the store with B1.
				theta2 = rA1.Sub(now)
				resp, _ := serve(&req, src, rA1, theta2, procA2, true)
				if resp.ReceiveTime != rA164 {
					t.Errorf("A2 was not kept under A1's receive time")
				}
				txA2 = recTx(resp.ReceiveTime)
				// now the second copy of B1 arrives
				now = time.Now().UTC()
				serve(&dupB1, dupB1Src, now.Add(theta2), theta2, 0, true)
			}
		}
	}()

	laddr := &net.UDPAddr{IP: net.IPv4(127, 0, 0, 1)}
	rec1, rec2 := &c03Rec{}, &c03Rec{}
	c1 := &IPClient{Log: log, InterleavedMode: true, Filter: rec1}
	c2 := &IPClient{Log: log, InterleavedMode: false, Filter: rec2}

	var wg sync.WaitGroup
	var off1, off2 time.Duration
	var err1, err2 error
	wg.Add(2)
	go func() {
		defer wg.Done()
		ctx, cancel := context.WithTimeout(context.Background(), 3*time.Second)
		defer cancel()
		_, off1, err1 = MeasureClockOffsetIP(ctx, log, c1, laddr, &net.UDPAddr{IP: net.IPv4(127, 0, 0, 1), Port: srvPort})
	}()
	go func() {
		defer wg.Done()
		<-startClient2
		ctx, cancel := context.WithTimeout(context.Background(), 3*time.Second)
		defer cancel()
		_, off2, err2 = MeasureClockOffsetIP(ctx, log, c2, laddr, &net.UDPAddr{IP: net.IPv4(127, 0, 0, 1), Port: srvPort})
	}()
	wg.Wait()
	if err1 != nil || err2 != nil {
		t.Fatalf("measurements failed: %v, %v", err1, err2)
	}
	if len(rec1.all) != 2 || len(rec2.all) != 1 {
		t.Fatalf("unexpected number of evaluated responses: %d, %d", len(rec1.all), len(rec2.all))
	}

	// client 2: one basic exchange with the server at theta2
	x := rec2.all[0]
	t.Logf("client 2: offset %v, true offset %v, error %v, rtd/2 %v", off2, theta2, off2-theta2,
		ntp.RoundTripDelay(x[0], x[1], x[2], x[3])/2)

	// client 1: A1 evaluated in basic mode, then again from the interleaved reply
	a, b := rec1.all[0], rec1.all[1]
	t.Logf("client 1, A1 from its basic reply:       t0 %v t1 %v t2 %v t3 %v", a[0].UnixNano(), a[1].UnixNano(), a[2].UnixNano(), a[3].UnixNano())
	t.Logf("client 1, A1 from the interleaved reply: t0 %v t1 %v t2 %v t3 %v", b[0].UnixNano(), b[1].UnixNano(), b[2].UnixNano(), b[3].UnixNano())
	rtd := ntp.RoundTripDelay(b[0], b[1], b[2], b[3])
	t.Logf("client 1 reports offset %v; true offset of the exchange it names (A1) %v; error %v; rtd %v",
		off1, theta1, off1-theta1, rtd)
	ref := time.Now()
	if b[1].UnixNano() != ntp.TimeFromTime64(rA164, ref).UnixNano() {
		t.Fatalf("t1 is not A1's receive time")
	}
	if b[2].UnixNano() != ntp.TimeFromTime64(txA1, ref).UnixNano() {
		t.Errorf("t2 = %v is not the transmit time of the reply to A1 (%v): it is the transmit time of the reply to client 2's A2 (%v)",
			b[2].UnixNano(), ntp.TimeFromTime64(txA1, ref).UnixNano(), ntp.TimeFromTime64(txA2, ref).UnixNano())
	}
	if (off1 - theta1).Abs() > rtd.Abs()/2+2 {
		t.Errorf("offset error %v exceeds half the round-trip delay of the exchange (|rtd|/2 = %v)", off1-theta1, rtd.Abs()/2)
	}
}
