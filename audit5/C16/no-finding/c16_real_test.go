package client

import (
	"context"
	"log/slog"
	"io"
	"net"
	"runtime"
	"testing"
	"time"

	"github.com/scionproto/scion/pkg/addr"
	"github.com/scionproto/scion/pkg/snet"
	"github.com/scionproto/scion/pkg/snet/path"

	"example.com/scion-time/core/measurements"
	"example.com/scion-time/core/timebase"
	"example.com/scion-time/net/ntp"
	"example.com/scion-time/net/udp"
)

type fakeSysClk struct{}

func (fakeSysClk) Epoch() uint64                                  { return 0 }
func (fakeSysClk) Now() time.Time                                 { return time.Now().UTC() }
func (fakeSysClk) Drift(d time.Duration) time.Duration            { return 0 }
func (fakeSysClk) Step(time.Duration)                             {}
func (fakeSysClk) Adjust(time.Duration, time.Duration, float64)   {}
func (fakeSysClk) Sleep(d time.Duration)                          { time.Sleep(d) }

type ipClk struct {
	log *slog.Logger
	c   *IPClient
	l, r *net.UDPAddr
}

func (c *ipClk) MeasureClockOffset(ctx context.Context) (time.Time, time.Duration, error) {
	return MeasureClockOffsetIP(ctx, c.log, c.c, c.l, c.r)
}

type scionClk struct {
	log *slog.Logger
	cs  []*SCIONClient
	l, r udp.UDPAddr
}

func (c *scionClk) MeasureClockOffset(ctx context.Context) (time.Time, time.Duration, error) {
	ps := []snet.Path{path.Path{Src: c.l.IA, Dst: c.r.IA, DataplanePath: path.Empty{}, NextHop: c.r.Host}}
	return MeasureClockOffsetSCION(ctx, c.log, c.cs, c.l, c.r, ps)
}

// mode 0: silent, 1: answer NTP correctly (IP only), 2: answer junk
func startSrv(t *testing.T, mode int, delay time.Duration) *net.UDPAddr {
	conn, err := net.ListenUDP("udp", &net.UDPAddr{IP: net.IPv4(127, 0, 0, 1)})
	if err != nil {
		t.Fatal(err)
	}
	t.Cleanup(func() { conn.Close() })
	go func() {
		buf := make([]byte, 2048)
		for {
			n, src, err := conn.ReadFromUDPAddrPort(buf)
			if err != nil {
				return
			}
			rx := time.Now().UTC()
			switch mode {
			case 0:
			case 1:
				var req ntp.Packet
				if ntp.DecodePacket(&req, buf[:n]) != nil {
					continue
				}
				go func() {
					time.Sleep(delay)
					var resp ntp.Packet
					resp.SetVersion(ntp.VersionMax)
					resp.SetMode(ntp.ModeServer)
					resp.Stratum = 1
					resp.OriginTime = req.TransmitTime
					resp.ReceiveTime = ntp.Time64FromTime(rx)
					resp.TransmitTime = ntp.Time64FromTime(time.Now().UTC())
					resp.ReferenceTime = resp.ReceiveTime
					b := make([]byte, ntp.PacketLen)
					ntp.EncodePacket(&b, &resp)
					conn.WriteToUDPAddrPort(b, src)
				}()
			case 2:
				conn.WriteToUDPAddrPort([]byte("junkjunkjunk"), src)
			}
		}
	}()
	return conn.LocalAddr().(*net.UDPAddr)
}

func TestC16Real(t *testing.T) {
	timebase.RegisterClock(fakeSysClk{})
	log := slog.New(slog.NewTextHandler(io.Discard, nil))
	ia := addr.MustParseIA("1-ff00:0:110")
	lip := &net.UDPAddr{IP: net.IPv4(127, 0, 0, 1)}
	var clks []ReferenceClock
	mk := func(il bool) *IPClient { return &IPClient{Log: log, InterleavedMode: il} }
	clks = append(clks,
		&ipClk{log, mk(true), lip, startSrv(t, 0, 0)},
		&ipClk{log, mk(true), lip, startSrv(t, 1, 0)},
		&ipClk{log, mk(false), lip, startSrv(t, 1, 5*time.Millisecond)},
		&ipClk{log, mk(true), lip, startSrv(t, 1, 60*time.Millisecond)},
		&ipClk{log, mk(true), lip, startSrv(t, 2, 0)},
	)
	for _, mode := range []int{0, 2} {
		cs := make([]*SCIONClient, 7)
		for i := range cs {
			cs[i] = &SCIONClient{Log: log, InterleavedMode: true}
		}
		clks = append(clks, &scionClk{log, cs, udp.UDPAddr{IA: ia, Host: lip}, udp.UDPAddr{IA: ia, Host: startSrv(t, mode, 0)}})
	}
	time.Sleep(10 * time.Millisecond)
	base := runtime.NumGoroutine()
	var cl ReferenceClockClient
	ms := make([]measurements.Measurement, len(clks))
	for round := 0; round < 10; round++ {
		timeout := 50 * time.Millisecond
		ctx, cancel := context.WithTimeout(context.Background(), timeout)
		dl, _ := ctx.Deadline()
		n := cl.MeasureClockOffsets(ctx, clks, ms)
		late := time.Since(dl)
		cancel()
		t.Logf("round %d: n=%d returned %v rel. deadline, goroutines now %d (base %d)", round, n, late, runtime.NumGoroutine(), base)
		if late > 5*time.Millisecond {
			t.Errorf("late")
		}
		if n != 2 {
			t.Errorf("n=%d, want 2", n)
		}
		time.Sleep(30 * time.Millisecond)
		if g := runtime.NumGoroutine(); g > base+1 { // +1: delayed responder may be sleeping
			buf := make([]byte, 1<<16)
			buf = buf[:runtime.Stack(buf, true)]
			t.Fatalf("round %d: %d goroutines left (base %d)\n%s", round, g, base, buf)
		}
	}
}
