package client

import (
	"context"
	"errors"
	"math/rand"
	"runtime"
	"sync"
	"testing"
	"time"

	"example.com/scion-time/core/measurements"
)

type fakeClk struct {
	delay   time.Duration // <0: wait for ctx.Done, then -delay-1 more
	err     error
	off     time.Duration
	wg      *sync.WaitGroup
}

func (c *fakeClk) MeasureClockOffset(ctx context.Context) (time.Time, time.Duration, error) {
	defer c.wg.Done()
	if c.delay < 0 {
		<-ctx.Done()
		time.Sleep(-c.delay - 1)
	} else {
		time.Sleep(c.delay)
	}
	return time.Unix(int64(c.off), 0), c.off, c.err
}

func TestC16Stress(t *testing.T) {
	rng := rand.New(rand.NewSource(1))
	base := runtime.NumGoroutine()
	var cl ReferenceClockClient
	for round := 0; round < 300; round++ {
		n := rng.Intn(40)
		timeout := time.Duration(rng.Intn(20)+1) * time.Millisecond
		var wg sync.WaitGroup
		wg.Add(n)
		clks := make([]ReferenceClock, n)
		fcs := make([]*fakeClk, n)
		for i := range clks {
			fc := &fakeClk{off: time.Duration(i + 1), wg: &wg}
			switch rng.Intn(5) {
			case 0:
				fc.delay = 0
			case 1:
				fc.delay = time.Duration(rng.Int63n(int64(timeout)))
			case 2:
				fc.delay = timeout + time.Duration(rng.Int63n(int64(3*time.Millisecond))) - time.Millisecond
			case 3:
				fc.delay = timeout + time.Duration(rng.Int63n(int64(10*time.Millisecond)))
			case 4:
				fc.delay = -1 - time.Duration(rng.Int63n(int64(5*time.Millisecond)))
			}
			if rng.Intn(3) == 0 {
				fc.err = errors.New("x")
			}
			fcs[i] = fc
			clks[i] = fc
		}
		ms := make([]measurements.Measurement, n)
		for i := range ms {
			ms[i] = measurements.Measurement{Offset: -1}
		}
		ctx, cancel := context.WithTimeout(context.Background(), timeout)
		t0 := time.Now()
		dl, _ := ctx.Deadline()
		j := cl.MeasureClockOffsets(ctx, clks, ms)
		t1 := time.Now()
		if t1.Sub(dl) > 5*time.Millisecond {
			t.Errorf("round %d: returned %v after deadline", round, t1.Sub(dl))
		}
		_ = t0
		lo, hi := 0, 0
		for _, fc := range fcs {
			if fc.err != nil {
				continue
			}
			if fc.delay >= 0 && fc.delay < timeout-3*time.Millisecond {
				lo++
			}
			if fc.delay >= 0 && fc.delay < timeout+3*time.Millisecond {
				hi++
			}
			if fc.delay < 0 && -fc.delay-1 < 3*time.Millisecond {
				hi++
			}
		}
		if j < lo || j > hi {
			t.Errorf("round %d: j=%d not in [%d,%d] n=%d timeout=%v", round, j, lo, hi, n, timeout)
		}
		seen := map[time.Duration]bool{}
		for k := 0; k < j; k++ {
			o := ms[k].Offset
			if o < 1 || int(o) > n || seen[o] || fcs[o-1].err != nil || ms[k].Error != nil {
				t.Errorf("round %d: bad entry %d: %+v", round, k, ms[k])
			}
			seen[o] = true
		}
		for k := j; k < n; k++ {
			if ms[k].Offset != -1 {
				t.Errorf("round %d: entry %d behind front touched: %+v", round, k, ms[k])
			}
		}
		cancel()
		wg.Wait()
		ok := false
		for w := 0; w < 200; w++ {
			if runtime.NumGoroutine() <= base {
				ok = true
				break
			}
			time.Sleep(time.Millisecond)
		}
		if !ok {
			t.Fatalf("round %d: goroutines %d > base %d", round, runtime.NumGoroutine(), base)
		}
	}
}
