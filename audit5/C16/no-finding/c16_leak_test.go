package ntske

import (
	"context"
	"io"
	"log/slog"
	"net"
	"runtime"
	"testing"
	"time"

	"github.com/scionproto/scion/pkg/addr"

	"example.com/scion-time/net/udp"
)

func TestC16QUICLeak(t *testing.T) {
	silent, err := net.ListenUDP("udp", &net.UDPAddr{IP: net.IPv4(127, 0, 0, 1)})
	if err != nil {
		t.Fatal(err)
	}
	defer silent.Close()
	ia := addr.MustParseIA("1-ff00:0:110")
	var f Fetcher
	f.Log = slog.New(slog.NewTextHandler(io.Discard, nil))
	f.TLSConfig.InsecureSkipVerify = true
	f.TLSConfig.ServerName = "x"
	f.Port = "4460"
	f.QUIC.Enabled = true
	f.QUIC.LocalAddr = udp.UDPAddr{IA: ia, Host: &net.UDPAddr{IP: net.IPv4(127, 0, 0, 1)}}
	f.QUIC.RemoteAddr = udp.UDPAddr{IA: ia, Host: silent.LocalAddr().(*net.UDPAddr)}
	base := runtime.NumGoroutine()
	for i := 0; i < 20; i++ {
		ctx, cancel := context.WithTimeout(context.Background(), 30*time.Millisecond)
		t0 := time.Now()
		_, err := f.FetchData(ctx)
		cancel()
		if i == 0 {
			t.Logf("err=%v after %v", err, time.Since(t0))
		}
	}
	time.Sleep(200 * time.Millisecond)
	t.Logf("goroutines: base %d, now %d", base, runtime.NumGoroutine())
	if runtime.NumGoroutine() > base+2 {
		buf := make([]byte, 1<<16)
		t.Errorf("leak:\n%s", buf[:runtime.Stack(buf, true)])
	}
}
