package sync

import (
	"context"
	"errors"
	"io"
	"log/slog"
	"runtime"
	gosync "sync"
	"testing"
	"time"

	"example.com/scion-time/core/client"
)

type tClk struct {
	mu     *gosync.Mutex
	starts *[]time.Time
	delay  func(round int) time.Duration // <0: until ctx done
	off    func(round int) (time.Duration, error)
	round  int
}

func (c *tClk) MeasureClockOffset(ctx context.Context) (time.Time, time.Duration, error) {
	c.mu.Lock()
	r := c.round
	c.round++
	*c.starts = append(*c.starts, time.Now())
	c.mu.Unlock()
	d := c.delay(r)
	if d < 0 {
		<-ctx.Done()
	} else {
		time.Sleep(d)
	}
	o, e := c.off(r)
	return time.Now(), o, e
}

type tSys struct {
	rounds chan struct{}
	max    int
	n      int
}

func (s *tSys) Epoch() uint64                                { return 0 }
func (s *tSys) Now() time.Time                               { return time.Now() }
func (s *tSys) Drift(d time.Duration) time.Duration          { return time.Hour }
func (s *tSys) Step(time.Duration)                           {}
func (s *tSys) Adjust(time.Duration, time.Duration, float64) {}
func (s *tSys) Sleep(d time.Duration) {
	s.n++
	s.rounds <- struct{}{}
	if s.n == s.max {
		select {}
	}
	time.Sleep(d)
}

type tAdj struct {
	mu    *gosync.Mutex
	at    []time.Time
	corrs []time.Duration
}

func (a *tAdj) Do(o time.Duration) {
	a.mu.Lock()
	a.at = append(a.at, time.Now())
	a.corrs = append(a.corrs, o)
	a.mu.Unlock()
}

func TestC16Run(t *testing.T) {
	var mu gosync.Mutex
	var starts []time.Time
	mk := func(delay func(int) time.Duration, off func(int) (time.Duration, error)) client.ReferenceClock {
		return &tClk{mu: &mu, starts: &starts, delay: delay, off: off}
	}
	timeout := 40 * time.Millisecond
	refs := []client.ReferenceClock{
		// answers 10ms in round 0, then never again in time
		mk(func(r int) time.Duration {
			if r == 0 {
				return 0
			}
			return -1
		}, func(r int) (time.Duration, error) { return 10 * time.Millisecond, nil }),
		// always fails
		mk(func(r int) time.Duration { return time.Millisecond }, func(r int) (time.Duration, error) { return 0, errors.New("x") }),
		// slow: 3x timeout, ignores ctx
		mk(func(r int) time.Duration { return 3 * timeout }, func(r int) (time.Duration, error) { return time.Second, nil }),
		// answers 2ms in rounds 1.., late in round 0
		mk(func(r int) time.Duration {
			if r == 0 {
				return 2 * timeout
			}
			return time.Millisecond
		}, func(r int) (time.Duration, error) { return 2 * time.Millisecond, nil }),
	}
	sys := &tSys{rounds: make(chan struct{}), max: 5}
	adj := &tAdj{mu: &mu}
	cfg := Config{ReferenceClockImpact: 1.25, PeerClockImpact: 2.5, PeerClockCutoff: 50 * time.Microsecond,
		SyncTimeout: timeout, SyncInterval: 4 * timeout}
	go Run(slog.New(slog.NewTextHandler(io.Discard, nil)), cfg, sys, adj, refs, nil)
	for i := 0; i < 5; i++ {
		<-sys.rounds
	}
	time.Sleep(4 * timeout)
	mu.Lock()
	defer mu.Unlock()
	for i, c := range adj.corrs {
		first := starts[i*4]
		for _, s := range starts[i*4 : i*4+4] {
			if s.Before(first) {
				first = s
			}
		}
		t.Logf("round %d: corr %v, adjusted %v after first clock call", i, c, adj.at[i].Sub(first))
		want := 2 * time.Millisecond
		if i == 0 {
			want = 10 * time.Millisecond
		}
		if c != want {
			t.Errorf("round %d: corr %v, want %v", i, c, want)
		}
		if adj.at[i].Sub(first) > timeout+5*time.Millisecond {
			t.Errorf("round %d: late", i)
		}
	}
	t.Logf("goroutines at end: %d", runtime.NumGoroutine())
}
