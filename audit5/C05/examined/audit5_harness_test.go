package client

import (
	"context"
	"log/slog"
	"net"
	"net/netip"
	"sync"
	"testing"
	"time"

	"github.com/google/gopacket"
	"github.com/scionproto/scion/pkg/addr"
	"github.com/scionproto/scion/pkg/slayers"
	"github.com/scionproto/scion/pkg/slayers/path"
	"github.com/scionproto/scion/pkg/slayers/path/scion"
	"github.com/scionproto/scion/pkg/snet"
	"github.com/scionproto/scion/pkg/spao"
	spath "github.com/scionproto/scion/pkg/snet/path"

	"example.com/scion-time/core/timebase"
	"example.com/scion-time/net/ntp"
	tscion "example.com/scion-time/net/scion"
	"example.com/scion-time/net/udp"
)

type a5Clock struct{}

func (a5Clock) Epoch() uint64                                 { return 0 }
func (a5Clock) Now() time.Time                                { return time.Now().UTC() }
func (a5Clock) Drift(time.Duration) time.Duration             { return 0 }
func (a5Clock) Step(time.Duration)                            { panic("no") }
func (a5Clock) Adjust(time.Duration, time.Duration, float64)  { panic("no") }
func (a5Clock) Sleep(d time.Duration)                         { time.Sleep(d) }

var a5Once sync.Once

func a5Init() {
	a5Once.Do(func() { timebase.RegisterClock(a5Clock{}) })
}

// a5Req is a decoded request as seen by the fake server.
type a5Req struct {
	raw   []byte
	from  netip.AddrPort
	scion slayers.SCION
	udp   slayers.UDP
	ntp   ntp.Packet
	rx    time.Time
}

// a5Resp describes the response to build.
type a5Resp struct {
	scion   slayers.SCION
	hbh     *slayers.HopByHopExtn
	e2e     *slayers.EndToEndExtn
	udp     slayers.UDP
	ntp     ntp.Packet
	payload []byte // if non-nil, used instead of ntp
	spao    bool   // add a valid authenticator option (mock key: all zero)
}

func a5RawPath(t testing.TB) []byte {
	p := scion.Decoded{
		Base: scion.Base{
			PathMeta: scion.MetaHdr{CurrINF: 0, CurrHF: 0, SegLen: [3]uint8{2, 0, 0}},
			NumINF:   1, NumHops: 2,
		},
		InfoFields: []path.InfoField{{ConsDir: true, SegID: 0x1111, Timestamp: 1000}},
		HopFields: []path.HopField{
			{ConsIngress: 0, ConsEgress: 1, ExpTime: 63, Mac: [6]byte{1, 2, 3, 4, 5, 6}},
			{ConsIngress: 2, ConsEgress: 0, ExpTime: 63, Mac: [6]byte{1, 2, 3, 4, 5, 6}},
		},
	}
	b := make([]byte, p.Len())
	if err := p.SerializeTo(b); err != nil {
		t.Fatal(err)
	}
	return b
}

func a5Decode(b []byte, from netip.AddrPort) (*a5Req, error) {
	r := &a5Req{raw: append([]byte(nil), b...), from: from, rx: time.Now().UTC()}
	var hbh slayers.HopByHopExtnSkipper
	var e2e slayers.EndToEndExtn
	parser := gopacket.NewDecodingLayerParser(slayers.LayerTypeSCION, &r.scion, &hbh, &e2e, &r.udp)
	parser.IgnoreUnsupported = true
	decoded := make([]gopacket.LayerType, 4)
	if err := parser.DecodeLayers(r.raw, &decoded); err != nil {
		return nil, err
	}
	if err := ntp.DecodePacket(&r.ntp, r.udp.Payload); err != nil {
		return nil, err
	}
	return r, nil
}

// a5Genuine fills in a genuine response to r.
func a5Genuine(t testing.TB, r *a5Req) *a5Resp {
	var s a5Resp
	s.scion.Version = 0
	s.scion.TrafficClass = r.scion.TrafficClass
	s.scion.FlowID = 1
	s.scion.SrcIA, s.scion.DstIA = r.scion.DstIA, r.scion.SrcIA
	s.scion.SrcAddrType, s.scion.DstAddrType = r.scion.DstAddrType, r.scion.SrcAddrType
	s.scion.RawSrcAddr = append([]byte(nil), r.scion.RawDstAddr...)
	s.scion.RawDstAddr = append([]byte(nil), r.scion.RawSrcAddr...)
	s.scion.PathType = r.scion.PathType
	if rp, ok := r.scion.Path.(*scion.Raw); ok {
		var d scion.Decoded
		if err := d.DecodeFromBytes(rp.Raw); err != nil {
			t.Fatal(err)
		}
		rev, err := d.Reverse()
		if err != nil {
			t.Fatal(err)
		}
		s.scion.Path = rev
	} else {
		s.scion.Path = r.scion.Path
	}
	s.scion.NextHdr = slayers.L4UDP
	s.udp.SrcPort, s.udp.DstPort = r.udp.DstPort, r.udp.SrcPort
	s.ntp.SetVersion(4)
	s.ntp.SetMode(ntp.ModeServer)
	s.ntp.Stratum = 1
	s.ntp.OriginTime = r.ntp.TransmitTime
	s.ntp.ReceiveTime = ntp.Time64FromTime(r.rx)
	s.ntp.TransmitTime = ntp.Time64FromTime(time.Now().UTC())
	return &s
}

func a5Serialize(t testing.TB, s *a5Resp) []byte {
	buf := gopacket.NewSerializeBuffer()
	opts := gopacket.SerializeOptions{ComputeChecksums: true, FixLengths: true}
	pld := s.payload
	if pld == nil {
		ntp.EncodePacket(&pld, &s.ntp)
	}
	if err := gopacket.Payload(pld).SerializeTo(buf, opts); err != nil {
		t.Fatal(err)
	}
	s.udp.SetNetworkLayerForChecksum(&s.scion)
	if err := s.udp.SerializeTo(buf, opts); err != nil {
		t.Fatal(err)
	}
	next := slayers.L4UDP
	if s.spao {
		opt := &slayers.EndToEndOption{OptData: make([]byte, tscion.PacketAuthOptDataLen)}
		tscion.PreparePacketAuthOpt(opt, tscion.PacketAuthSPIServer, tscion.PacketAuthAlgorithm)
		s.scion.NextHdr = slayers.End2EndClass
		_, err := spao.ComputeAuthCMAC(spao.MACInput{
			Key:        make([]byte, 16),
			Header:     slayers.PacketAuthOption{EndToEndOption: opt},
			ScionLayer: &s.scion,
			PldType:    slayers.L4UDP,
			Pld:        buf.Bytes(),
		}, make([]byte, spao.MACBufferSize), tscion.PacketAuthOptMAC(opt))
		if err != nil {
			t.Fatal(err)
		}
		if s.e2e == nil {
			s.e2e = &slayers.EndToEndExtn{}
		}
		s.e2e.Options = append(s.e2e.Options, opt)
	}
	if s.e2e != nil {
		s.e2e.NextHdr = next
		if err := s.e2e.SerializeTo(buf, opts); err != nil {
			t.Fatal(err)
		}
		next = slayers.End2EndClass
	}
	if s.hbh != nil {
		s.hbh.NextHdr = next
		if err := s.hbh.SerializeTo(buf, opts); err != nil {
			t.Fatal(err)
		}
		next = slayers.HopByHopClass
	}
	s.scion.NextHdr = next
	if err := s.scion.SerializeTo(buf, opts); err != nil {
		t.Fatal(err)
	}
	return append([]byte(nil), buf.Bytes()...)
}

// a5Server runs a fake SCION "next hop + server": for every request it calls
// respond, which returns the datagrams to send back (in order).
type a5Server struct {
	conn *net.UDPConn
	wg   sync.WaitGroup
}

func a5StartServer(t testing.TB, respond func(r *a5Req) [][]byte) *a5Server {
	conn, err := net.ListenUDP("udp", &net.UDPAddr{IP: net.IPv4(127, 0, 0, 1)})
	if err != nil {
		t.Fatal(err)
	}
	s := &a5Server{conn: conn}
	s.wg.Add(1)
	go func() {
		defer s.wg.Done()
		buf := make([]byte, 65536)
		for {
			n, from, err := conn.ReadFromUDPAddrPort(buf)
			if err != nil {
				return
			}
			r, err := a5Decode(buf[:n], from)
			if err != nil {
				continue
			}
			for _, d := range respond(r) {
				_, _ = conn.WriteToUDPAddrPort(d, from)
			}
		}
	}()
	return s
}

func (s *a5Server) Close() {
	_ = s.conn.Close()
	s.wg.Wait()
}

func (s *a5Server) Addr() *net.UDPAddr { return s.conn.LocalAddr().(*net.UDPAddr) }

type a5Setup struct {
	local, remote udp.UDPAddr
	path          snet.Path
}

func a5NewSetup(t testing.TB, srv *a5Server, emptyPath bool) a5Setup {
	var st a5Setup
	st.local = udp.UDPAddr{IA: addr.MustParseIA("1-ff00:0:111"), Host: &net.UDPAddr{IP: net.IPv4(127, 0, 0, 1)}}
	st.remote = udp.UDPAddr{IA: addr.MustParseIA("1-ff00:0:112"), Host: &net.UDPAddr{IP: net.IPv4(10, 1, 1, 2), Port: 10123}}
	var dp snet.DataplanePath
	if emptyPath {
		dp = spath.Empty{}
	} else {
		dp = spath.SCION{Raw: a5RawPath(t)}
	}
	st.path = spath.Path{Src: st.local.IA, Dst: st.remote.IA, DataplanePath: dp, NextHop: srv.Addr()}
	return st
}

func a5Measure(c *SCIONClient, st a5Setup, timeout time.Duration) (time.Time, time.Duration, error) {
	ctx, cancel := context.WithTimeout(context.Background(), timeout)
	defer cancel()
	return c.measureClockOffsetSCION(ctx, scionMetrics.Load(), st.local, st.remote, st.path)
}

func a5Log() *slog.Logger { return slog.New(slog.DiscardHandler) }
