package nts

import (
	"bytes"
	"math/rand"
	"testing"
	"time"

	"example.com/scion-time/net/ntske"
)

func TestA5FuzzNTS(t *testing.T) {
	rng := rand.New(rand.NewSource(time.Now().UnixNano()))
	key := make([]byte, 32)
	rng.Read(key)
	uid := make([]byte, 32)
	rng.Read(uid)
	cookies := [][]byte{make([]byte, 100), make([]byte, 100)}
	acc := 0
	for i := 0; i < 300000; i++ {
		resp := NewResponsePacket(cookies, key, uid)
		b := make([]byte, 48)
		b[0] = 0x24
		EncodePacket(&b, &resp)
		g := append([]byte(nil), b...)
		k := 1 + rng.Intn(3)
		for j := 0; j < k; j++ {
			switch rng.Intn(4) {
			case 0:
				b[rng.Intn(len(b))] ^= 1 << uint(rng.Intn(8))
			case 1:
				if len(b) > 49 { b[48+rng.Intn(len(b)-48)] = byte(rng.Intn(256)) }
			case 2:
				b = b[:rng.Intn(len(b)+1)]
				if len(b) == 0 {
					b = []byte{0}
				}
			case 3:
				b = append(b, byte(rng.Intn(256)))
			}
		}
		if len(b) < 48 {
			continue
		}
		var p Packet
		err := DecodePacket(&p, b)
		if err != nil {
			continue
		}
		var f ntske.Fetcher
		err = ProcessResponse(b, key, &f, &p, uid)
		if err != nil {
			continue
		}
		acc++
		// accepted: everything in front of the authenticator must be genuine
		if !bytes.Equal(b[:p.Auth.pos], g[:p.Auth.pos]) || p.Auth.pos != 48+36 {
			t.Fatalf("accepted a datagram with a modified authenticated part\n%x\n%x", b, g)
		}
	}
	t.Logf("accepted %d", acc)
}
