package client

import (
	"bytes"
	"net/netip"
	"math/rand"
	"os"
	"strconv"
	"testing"
	"time"

	tscion "example.com/scion-time/net/scion"
)

// random byte mutations of a genuine (optionally SPAO-authenticated) response:
// looks for panics and for accepted datagrams that break an independent check
func TestA5FuzzSCION(t *testing.T) {
	a5Init()
	n := 3000
	if v := os.Getenv("A5N"); v != "" {
		n, _ = strconv.Atoi(v)
	}
	rng := rand.New(rand.NewSource(time.Now().UnixNano()))
	var last []byte
	var lastGen []byte
	srv := a5StartServer(t, func(r *a5Req) [][]byte {
		s := a5Genuine(t, r)
		s.spao = tscion.UseMockKeys()
		if rng.Intn(2) == 0 {
			s.hbh = nil
		}
		b := a5Serialize(t, s)
		lastGen = append([]byte(nil), b...)
		k := 1 + rng.Intn(3)
		for i := 0; i < k; i++ {
			switch rng.Intn(4) {
			case 0:
				b[rng.Intn(len(b))] ^= 1 << uint(rng.Intn(8))
			case 1:
				b[rng.Intn(len(b))] = byte(rng.Intn(256))
			case 2:
				b = b[:rng.Intn(len(b)+1)]
				if len(b) == 0 {
					b = []byte{0}
				}
			case 3:
				// header region more likely
				m := len(b) - 56
				if m > 0 {
					b[rng.Intn(m)] = byte(rng.Intn(256))
				}
			}
		}
		last = b
		return [][]byte{b}
	})
	defer srv.Close()
	acc := 0
	for i := 0; i < n; i++ {
		st := a5NewSetup(t, srv, i%2 == 0)
		c := &SCIONClient{Log: a5Log(), InterleavedMode: false}
		if tscion.UseMockKeys() {
			c.Auth.Enabled = true
			c.Auth.DRKeyFetcher = tscion.NewFetcher(nil)
		}
		_, _, err := a5Measure(c, st, 20*time.Millisecond)
		if err == nil {
			acc++
			// independent check of the accepted datagram
			r, derr := a5Decode(last, netip.AddrPort{})
			if derr != nil {
				t.Errorf("accepted datagram does not decode: %v\n%x\n%x", derr, last, lastGen)
				continue
			}
			g, _ := a5Decode(lastGen, netip.AddrPort{})
			bad := ""
			if r.scion.SrcIA != g.scion.SrcIA || r.scion.DstIA != g.scion.DstIA {
				bad += " IA"
			}
			if r.scion.SrcAddrType != g.scion.SrcAddrType || r.scion.DstAddrType != g.scion.DstAddrType ||
				!bytes.Equal(r.scion.RawSrcAddr, g.scion.RawSrcAddr) || !bytes.Equal(r.scion.RawDstAddr, g.scion.RawDstAddr) {
				bad += " host"
			}
			if r.udp.SrcPort != g.udp.SrcPort || r.udp.DstPort != g.udp.DstPort {
				bad += " port"
			}
			if r.ntp.OriginTime != g.ntp.OriginTime {
				bad += " origin"
			}
			if r.ntp.Mode() != 4 || (r.ntp.Version() != 3 && r.ntp.Version() != 4) || r.ntp.LeapIndicator() == 3 ||
				r.ntp.Stratum == 0 || r.ntp.Stratum > 15 {
				bad += " meta"
			}
			if bad != "" {
				t.Errorf("accepted datagram violates:%s\n%x\n%x", bad, last, lastGen)
			}
		}
	}
	t.Logf("accepted %d of %d", acc, n)
}
