package client

import (
	"net/netip"
	"testing"
	"time"

	"github.com/scionproto/scion/pkg/slayers"
	"github.com/scionproto/scion/pkg/slayers/path/empty"
	"github.com/scionproto/scion/pkg/slayers/path/onehop"
)

func TestA5Probe(t *testing.T) {
	a5Init()
	type probe struct {
		name string
		mut  func(r *a5Req, s *a5Resp) [][]byte // nil: default serialize
	}
	ser := func(s *a5Resp) [][]byte { return [][]byte{a5Serialize(t, s)} }
	probes := []probe{
		{"genuine", func(r *a5Req, s *a5Resp) [][]byte { return ser(s) }},
		{"hbh+e2e", func(r *a5Req, s *a5Resp) [][]byte {
			s.hbh = &slayers.HopByHopExtn{}
			s.hbh.Options = []*slayers.HopByHopOption{{OptType: 77, OptData: []byte{1, 2, 3, 4}}}
			s.e2e = &slayers.EndToEndExtn{}
			s.e2e.Options = []*slayers.EndToEndOption{{OptType: 78, OptData: []byte{1, 2, 3, 4}}}
			return ser(s)
		}},
		{"src T16Ip v4-mapped", func(r *a5Req, s *a5Resp) [][]byte {
			a := netip.AddrFrom4([4]byte{10, 1, 1, 2})
			m := netip.AddrFrom16(a.As16())
			s.scion.SrcAddrType = slayers.T16Ip
			s.scion.RawSrcAddr = m.AsSlice()
			return ser(s)
		}},
		{"empty path in response", func(r *a5Req, s *a5Resp) [][]byte {
			s.scion.PathType = empty.PathType
			s.scion.Path = empty.Path{}
			return ser(s)
		}},
		{"onehop path in response", func(r *a5Req, s *a5Resp) [][]byte {
			s.scion.PathType = onehop.PathType
			s.scion.Path = &onehop.Path{}
			return ser(s)
		}},
		{"udp length 0", func(r *a5Req, s *a5Resp) [][]byte {
			b := a5Serialize(t, s)
			// UDP header is the 8 bytes before the 48 byte payload
			o := len(b) - 48 - 8
			b[o+4], b[o+5] = 0, 0
			return [][]byte{b}
		}},
		{"trailing bytes", func(r *a5Req, s *a5Resp) [][]byte {
			b := a5Serialize(t, s)
			b = append(b, make([]byte, 100)...)
			return [][]byte{b}
		}},
		{"version 3", func(r *a5Req, s *a5Resp) [][]byte { s.ntp.SetVersion(3); return ser(s) }},
		{"version 2", func(r *a5Req, s *a5Resp) [][]byte { s.ntp.SetVersion(2); return ser(s) }},
		{"stratum 16", func(r *a5Req, s *a5Resp) [][]byte { s.ntp.Stratum = 16; return ser(s) }},
		{"bad then genuine", func(r *a5Req, s *a5Resp) [][]byte {
			g := a5Serialize(t, s)
			s.ntp.OriginTime.Fraction++
			return [][]byte{a5Serialize(t, s), g}
		}},
		{"bad bad genuine", func(r *a5Req, s *a5Resp) [][]byte {
			g := a5Serialize(t, s)
			s.ntp.OriginTime.Fraction++
			b := a5Serialize(t, s)
			return [][]byte{b, b, g}
		}},
	}
	for _, emptyPath := range []bool{true, false} {
		for _, p := range probes {
			p := p
			srv := a5StartServer(t, func(r *a5Req) [][]byte {
				return p.mut(r, a5Genuine(t, r))
			})
			st := a5NewSetup(t, srv, emptyPath)
			c := &SCIONClient{Log: a5Log(), InterleavedMode: false}
			ts, off, err := a5Measure(c, st, 300*time.Millisecond)
			t.Logf("emptyPath=%v %-28s ts=%v off=%v err=%v", emptyPath, p.name, !ts.IsZero(), off, err)
			srv.Close()
		}
	}
}
