package client

import (
	"context"
	"testing"
	"time"

	"github.com/scionproto/scion/pkg/snet"
	spath "github.com/scionproto/scion/pkg/snet/path"

	tscion "example.com/scion-time/net/scion"
)

func TestA5Rounds(t *testing.T) {
	a5Init()
	srv := a5StartServer(t, func(r *a5Req) [][]byte {
		s := a5Genuine(t, r)
		s.spao = tscion.UseMockKeys()
		return [][]byte{a5Serialize(t, s)}
	})
	defer srv.Close()
	st := a5NewSetup(t, srv, false)
	cs := make([]*SCIONClient, 3)
	for i := range cs {
		cs[i] = &SCIONClient{Log: a5Log(), InterleavedMode: true}
		cs[i].Filter = NewNtimedFilter(nil)
		if tscion.UseMockKeys() {
			cs[i].Auth.Enabled = true
			cs[i].Auth.DRKeyFetcher = tscion.NewFetcher(nil)
		}
	}
	for round := 0; round < 5; round++ {
		ps := make([]snet.Path, 3)
		for i := range ps {
			raw := a5RawPath(t)
			raw[4+2] = byte(i) // different SegID: no effect on fingerprint (no metadata)
			ps[i] = spath.Path{Src: st.local.IA, Dst: st.remote.IA, DataplanePath: spath.SCION{Raw: raw}, NextHop: srv.Addr()}
		}
		ctx, cancel := context.WithTimeout(context.Background(), 200*time.Millisecond)
		ts, off, err := MeasureClockOffsetSCION(ctx, a5Log(), cs, st.local, st.remote, ps)
		cancel()
		t.Logf("round %d: ts=%v off=%v err=%v il=%v", round, !ts.IsZero(), off, err, cs[0].InInterleavedMode())
	}
}
