package server

import (
	"context"
	"crypto/subtle"
	"log/slog"
	"math/rand"
	"net"
	"net/netip"
	"sync"
	"testing"
	"time"

	"github.com/google/gopacket"
	"github.com/scionproto/scion/pkg/addr"
	"github.com/scionproto/scion/pkg/slayers"
	"github.com/scionproto/scion/pkg/snet"
	spath "github.com/scionproto/scion/pkg/snet/path"
	"github.com/scionproto/scion/pkg/spao"

	"example.com/scion-time/core/client"
	"example.com/scion-time/net/scion"
	"example.com/scion-time/net/udp"
)

func a5RespOracle(b []byte, key []byte) (carries, verifies bool) {
	var (
		scn slayers.SCION
		hbh slayers.HopByHopExtnSkipper
		e2e slayers.EndToEndExtn
		u   slayers.UDP
		scm slayers.SCMP
	)
	parser := gopacket.NewDecodingLayerParser(slayers.LayerTypeSCION, &scn, &hbh, &e2e, &u, &scm)
	parser.IgnoreUnsupported = true
	var decoded []gopacket.LayerType
	if err := parser.DecodeLayers(b, &decoded); err != nil {
		return false, false
	}
	if len(decoded) < 3 || decoded[len(decoded)-1] != slayers.LayerTypeSCIONUDP ||
		decoded[len(decoded)-2] != slayers.LayerTypeEndToEndExtn {
		return false, false
	}
	opt, err := e2e.FindOption(slayers.OptTypeAuthenticator)
	if err != nil {
		return false, false
	}
	if !scion.PacketAuthOptIsFor(opt, scion.PacketAuthSPIServer) {
		return false, false
	}
	if len(opt.OptData) != scion.PacketAuthOptDataLen {
		return true, false
	}
	mac := make([]byte, 16)
	_, err = spao.ComputeAuthCMAC(spao.MACInput{
		Key: key, Header: slayers.PacketAuthOption{EndToEndOption: opt},
		ScionLayer: &scn, PldType: slayers.L4UDP,
		Pld: u.Contents[:len(u.Contents)+len(u.Payload)],
	}, make([]byte, spao.MACBufferSize), mac)
	if err != nil {
		return true, false
	}
	return true, subtle.ConstantTimeCompare(mac, scion.PacketAuthOptMAC(opt)) == 1
}

func TestA5MITMResponses(t *testing.T) {
	srv := startA5Server(t, "127.0.0.7", false)
	srvAddr := netip.MustParseAddr("127.0.0.7")
	cliAddr := netip.MustParseAddr("127.0.0.8")
	cliIA := addr.MustParseIA("1-ff00:0:111")
	srvIA := addr.MustParseIA("2-ff00:0:222")
	key := a5Key(t, srv.fd, srvIA, cliIA, srvAddr, cliAddr)

	relay, err := net.ListenUDP("udp", &net.UDPAddr{IP: net.ParseIP("127.0.0.9")})
	if err != nil {
		t.Fatal(err)
	}
	defer relay.Close()
	rnd := rand.New(rand.NewSource(11))
	var mu sync.Mutex
	var lastMutated []byte
	var cliPort int
	go func() {
		b := make([]byte, 65536)
		for {
			n, from, err := relay.ReadFromUDP(b)
			if err != nil {
				return
			}
			if from.IP.Equal(net.ParseIP("127.0.0.8")) {
				mu.Lock()
				cliPort = from.Port
				mu.Unlock()
				_, _ = relay.WriteToUDP(b[:n], &net.UDPAddr{IP: net.ParseIP("127.0.0.7"), Port: srv.port})
			} else {
				raw := append([]byte(nil), b[:n]...)
				nm := 1 + rnd.Intn(2)
				for i := 0; i < nm; i++ {
					pos := rnd.Intn(len(raw))
					if rnd.Intn(2) == 0 {
						raw[pos] ^= 1 << uint(rnd.Intn(8))
					} else {
						raw[pos] = byte(rnd.Intn(256))
					}
				}
				mu.Lock()
				lastMutated = raw
				p := cliPort
				mu.Unlock()
				_, _ = relay.WriteToUDP(raw, &net.UDPAddr{IP: net.ParseIP("127.0.0.8"), Port: p})
			}
		}
	}()

	accepted, acceptedUnauth := 0, 0
	for it := 0; it < 6000; it++ {
		h := &a5Handler{}
		c := &client.SCIONClient{Log: slog.New(h), DSCP: 46}
		c.Auth.Enabled = true
		c.Auth.DRKeyFetcher = scion.NewFetcher(srv.fd)
		la := udp.UDPAddr{IA: cliIA, Host: &net.UDPAddr{IP: net.ParseIP("127.0.0.8")}}
		ra := udp.UDPAddr{IA: srvIA, Host: &net.UDPAddr{IP: net.ParseIP("127.0.0.7"), Port: srv.port}}
		var dp snet.DataplanePath = spath.SCION{Raw: a5RawPath(2, 3).Raw}
		if it%3 == 1 {
			dp = spath.Empty{}
		} else if it%3 == 2 {
			o := a5OneHop()
			dp = spath.OneHop{Info: o.Info, FirstHop: o.FirstHop, SecondHop: o.SecondHop}
		}
		sp := spath.Path{Src: cliIA, Dst: srvIA, DataplanePath: dp, NextHop: relay.LocalAddr().(*net.UDPAddr)}
		ctx, cancel := context.WithTimeout(context.Background(), 4*time.Millisecond)
		_, _, err := client.MeasureClockOffsetSCION(ctx, slog.New(h), []*client.SCIONClient{c}, la, ra, []snet.Path{sp})
		cancel()
		if err != nil {
			continue
		}
		accepted++
		mu.Lock()
		raw := lastMutated
		mu.Unlock()
		carries, verifies := a5RespOracle(raw, key)
		rs := h.find("received response")
		if len(rs) != 1 {
			t.Fatalf("responses: %v", rs)
		}
		if carries && !verifies {
			t.Errorf("accepted (auth=%s) a response whose MAC does not verify: % x", rs[0].attrs["auth"], raw)
		}
		if rs[0].attrs["auth"] == "true" && !verifies {
			t.Errorf("reported authenticated, oracle disagrees")
		}
		if rs[0].attrs["auth"] != "true" {
			acceptedUnauth++
		}
	}
	t.Logf("accepted %d (unauthenticated %d) of 6000", accepted, acceptedUnauth)
}
