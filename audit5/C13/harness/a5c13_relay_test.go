package server

import (
	"context"
	"fmt"
	"log/slog"
	"net"
	"testing"
	"time"

	"github.com/scionproto/scion/pkg/addr"
	"github.com/scionproto/scion/pkg/snet"
	spath "github.com/scionproto/scion/pkg/snet/path"

	"example.com/scion-time/core/client"
	"example.com/scion-time/net/scion"
	"example.com/scion-time/net/udp"
)

// A "border router" on loopback: what the client sends is handed to the server,
// what the server answers is delivered to the end-host port of the client's host,
// where the listener under test forwards it to the client's port.
func TestA5ThroughForwarder(t *testing.T) {
	srv := startA5Server(t, "127.0.0.4", false)
	// the client's host: a dispatcher as StartSCIONDispatcher runs it
	a5Once.Do(func() { a5Mtrcs = newSCIONServerMetrics() })
	dconn, err := net.ListenUDP("udp", &net.UDPAddr{IP: net.ParseIP("127.0.0.5"), Port: scion.EndhostPort})
	if err != nil {
		t.Fatal(err)
	}
	go runSCIONServer(context.Background(), slog.New(slog.DiscardHandler), a5Mtrcs, dconn, "", scion.EndhostPort, 0, nil, nil)

	relay, err := net.ListenUDP("udp", &net.UDPAddr{IP: net.ParseIP("127.0.0.6")})
	if err != nil {
		t.Fatal(err)
	}
	defer relay.Close()
	go func() {
		b := make([]byte, 65536)
		for {
			n, from, err := relay.ReadFromUDP(b)
			if err != nil {
				return
			}
			if from.IP.Equal(net.ParseIP("127.0.0.5")) {
				_, _ = relay.WriteToUDP(b[:n], &net.UDPAddr{IP: net.ParseIP("127.0.0.4"), Port: srv.port})
			} else {
				_, _ = relay.WriteToUDP(b[:n], &net.UDPAddr{IP: net.ParseIP("127.0.0.5"), Port: scion.EndhostPort})
			}
		}
	}()

	cliIA := addr.MustParseIA("1-ff00:0:111")
	srvIA := addr.MustParseIA("2-ff00:0:222")
	for _, auth := range []bool{false, true} {
		for i := 0; i < 3; i++ {
			h := &a5Handler{}
			c := &client.SCIONClient{Log: slog.New(h), DSCP: 46}
			if auth {
				c.Auth.Enabled = true
				c.Auth.DRKeyFetcher = scion.NewFetcher(srv.fd)
			}
			la := udp.UDPAddr{IA: cliIA, Host: &net.UDPAddr{IP: net.ParseIP("127.0.0.5")}}
			ra := udp.UDPAddr{IA: srvIA, Host: &net.UDPAddr{IP: net.ParseIP("127.0.0.4"), Port: srv.port}}
			sp := spath.Path{Src: cliIA, Dst: srvIA, DataplanePath: spath.SCION{Raw: a5RawPath(2, 3).Raw},
				NextHop: relay.LocalAddr().(*net.UDPAddr)}
			ctx, cancel := context.WithTimeout(context.Background(), time.Second)
			_, off, err := client.MeasureClockOffsetSCION(ctx, slog.New(h), []*client.SCIONClient{c}, la, ra, []snet.Path{sp})
			cancel()
			if err != nil {
				t.Errorf("auth=%v: %v", auth, err)
				for _, r := range h.recs {
					t.Logf("%s %v", r.msg, r.attrs)
				}
				continue
			}
			rs := h.find("received response")
			if len(rs) != 1 || rs[0].attrs["auth"] != fmt.Sprint(auth) {
				t.Errorf("auth=%v: responses %v", auth, rs)
			}
			t.Logf("auth=%v off=%v", auth, off)
		}
	}
}
