package server

import (
	"crypto/subtle"
	"math/rand"
	"net"
	"net/netip"
	"testing"
	"time"

	"github.com/google/gopacket"
	"github.com/scionproto/scion/pkg/addr"
	"github.com/scionproto/scion/pkg/slayers"
	"github.com/scionproto/scion/pkg/slayers/path"
	"github.com/scionproto/scion/pkg/slayers/path/empty"
	"github.com/scionproto/scion/pkg/spao"

	"example.com/scion-time/net/scion"
)

// oracle: does the packet carry (as first authenticator option) a time-service
// authenticator, and does its MAC verify under key?
func a5Oracle(b []byte, key []byte) (decodes, carries, verifies bool) {
	var (
		scn slayers.SCION
		hbh slayers.HopByHopExtnSkipper
		e2e slayers.EndToEndExtn
		udp slayers.UDP
		scm slayers.SCMP
	)
	parser := gopacket.NewDecodingLayerParser(slayers.LayerTypeSCION, &scn, &hbh, &e2e, &udp, &scm)
	parser.IgnoreUnsupported = true
	var decoded []gopacket.LayerType
	if err := parser.DecodeLayers(b, &decoded); err != nil {
		return false, false, false
	}
	if len(decoded) < 2 || decoded[len(decoded)-1] != slayers.LayerTypeSCIONUDP {
		return false, false, false
	}
	if len(decoded) < 3 || decoded[len(decoded)-2] != slayers.LayerTypeEndToEndExtn {
		return true, false, false
	}
	opt, err := e2e.FindOption(slayers.OptTypeAuthenticator)
	if err != nil {
		return true, false, false
	}
	if !scion.PacketAuthOptIsFor(opt, scion.PacketAuthSPIClient) {
		return true, false, false
	}
	if len(opt.OptData) != scion.PacketAuthOptDataLen {
		return true, true, false
	}
	mac := make([]byte, 16)
	_, err = spao.ComputeAuthCMAC(spao.MACInput{
		Key: key, Header: slayers.PacketAuthOption{EndToEndOption: opt},
		ScionLayer: &scn, PldType: slayers.L4UDP,
		Pld: udp.Contents[:len(udp.Contents)+len(udp.Payload)],
	}, make([]byte, spao.MACBufferSize), mac)
	if err != nil {
		return true, true, false
	}
	return true, true, subtle.ConstantTimeCompare(mac, scion.PacketAuthOptMAC(opt)) == 1
}

func TestA5Mutations(t *testing.T) {
	srv := startA5Server(t, "127.0.0.1", false)
	srvAddr := netip.MustParseAddr("127.0.0.1")
	cliIA := addr.MustParseIA("1-ff00:0:111")
	srvIA := addr.MustParseIA("2-ff00:0:222")
	conn, err := net.ListenUDP("udp", &net.UDPAddr{IP: srv.ip})
	if err != nil {
		t.Fatal(err)
	}
	defer conn.Close()
	cliPort := uint16(conn.LocalAddr().(*net.UDPAddr).Port)
	key := a5Key(t, srv.fd, srvIA, cliIA, srvAddr, srvAddr)
	paths := []func() path.Path{
		func() path.Path { return empty.Path{} },
		func() path.Path { return a5RawPath(2, 3) },
		func() path.Path { return a5OneHop() },
		func() path.Path { return a5EPIC(2, 3) },
	}
	rnd := rand.New(rand.NewSource(5))
	served, bad := 0, 0
	dst := &net.UDPAddr{IP: srv.ip, Port: srv.port}
	buf := make([]byte, 65536)
	for it := 0; it < 40000; it++ {
		pkt := &a5Pkt{srcIA: cliIA, dstIA: srvIA, src: srvAddr, dst: srvAddr,
			srcPort: cliPort, dstPort: uint16(srv.port), path: paths[it%len(paths)](),
			payload: a5NTPRequest(), hbh: it%8 >= 4, tc: 0xb8, flowID: 0xabcde}
		raw := pkt.serialize(key)
		nm := 1 + rnd.Intn(2)
		for i := 0; i < nm; i++ {
			pos := rnd.Intn(len(raw))
			if rnd.Intn(2) == 0 {
				raw[pos] ^= 1 << uint(rnd.Intn(8))
			} else {
				raw[pos] = byte(rnd.Intn(256))
			}
		}
		if _, err := conn.WriteToUDP(raw, dst); err != nil {
			t.Fatal(err)
		}
		_ = conn.SetReadDeadline(time.Now().Add(3 * time.Millisecond))
		n, _, err := conn.ReadFromUDP(buf)
		if err != nil {
			continue
		}
		served++
		_, carries, verifies := a5Oracle(raw, key)
		if carries && !verifies {
			bad++
			t.Errorf("served although MAC does not verify: % x", raw)
		}
		d := a5Decode(t, buf[:n])
		if d.isUDP {
			present, ok := a5VerifyReplyAuth(t, d, key)
			if carries && verifies && (!present || !ok) {
				t.Errorf("reply to verified request: authenticator present=%v ok=%v", present, ok)
			}
			if present && !ok && !carries {
				t.Errorf("reply carries bad authenticator")
			}
		}
	}
	t.Logf("served %d of 40000, bad %d", served, bad)
}
