package server

import (
	"math/rand"
	"net"
	"net/netip"
	"testing"
	"time"

	"github.com/google/gopacket"
	"github.com/scionproto/scion/pkg/addr"
	"github.com/scionproto/scion/pkg/slayers"
	"github.com/scionproto/scion/pkg/slayers/path"
	"github.com/scionproto/scion/pkg/slayers/path/empty"
)

func a5SCMP(p *a5Pkt, typ slayers.SCMPType, data []byte, e2e bool) []byte {
	s := p.scionLayer()
	s.NextHdr = slayers.L4SCMP
	m := &slayers.SCMP{TypeCode: slayers.CreateSCMPTypeCode(typ, 0)}
	m.SetNetworkLayerForChecksum(s)
	buffer := gopacket.NewSerializeBuffer()
	options := gopacket.SerializeOptions{ComputeChecksums: true, FixLengths: true}
	pl := gopacket.Payload(data)
	_ = pl.SerializeTo(buffer, options)
	buffer.PushLayer(pl.LayerType())
	if err := m.SerializeTo(buffer, options); err != nil {
		panic(err)
	}
	if e2e {
		e := slayers.EndToEndExtn{}
		e.NextHdr = slayers.L4SCMP
		e.Options = []*slayers.EndToEndOption{{OptType: 2, OptData: make([]byte, 28), OptAlign: [2]uint8{4, 2}}}
		if err := e.SerializeTo(buffer, options); err != nil {
			panic(err)
		}
		s.NextHdr = slayers.End2EndClass
	}
	if err := s.SerializeTo(buffer, options); err != nil {
		panic(err)
	}
	out := make([]byte, len(buffer.Bytes()))
	copy(out, buffer.Bytes())
	return out
}

func TestA5CrashFuzz(t *testing.T) {
	srv := startA5Server(t, "127.0.0.3", true)
	srvAddr := netip.MustParseAddr("127.0.0.3")
	cliIA := addr.MustParseIA("1-ff00:0:111")
	srvIA := addr.MustParseIA("2-ff00:0:222")
	conn, err := net.ListenUDP("udp", &net.UDPAddr{IP: srv.ip})
	if err != nil {
		t.Fatal(err)
	}
	defer conn.Close()
	cliPort := uint16(conn.LocalAddr().(*net.UDPAddr).Port)
	key := a5Key(t, srv.fd, srvIA, cliIA, srvAddr, srvAddr)
	paths := []func() path.Path{
		func() path.Path { return empty.Path{} },
		func() path.Path { return a5RawPath(2, 3) },
		func() path.Path { return a5RawPath(1) },
		func() path.Path { return a5OneHop() },
		func() path.Path { return a5EPIC(2, 3) },
		func() path.Path { return a5EPIC(1) },
	}
	rnd := rand.New(rand.NewSource(77))
	dsts := []*net.UDPAddr{{IP: srv.ip, Port: srv.port}, {IP: srv.ip, Port: 30041}}
	go func() { // drain
		b := make([]byte, 65536)
		for {
			if _, _, err := conn.ReadFromUDP(b); err != nil {
				return
			}
		}
	}()
	for it := 0; it < 300000; it++ {
		pkt := &a5Pkt{srcIA: cliIA, dstIA: srvIA, src: srvAddr, dst: srvAddr,
			srcPort: cliPort, dstPort: uint16(srv.port), path: paths[rnd.Intn(len(paths))](),
			payload: a5NTPRequest(), hbh: rnd.Intn(4) == 0, tc: 0xb8, flowID: 0xabcde}
		var raw []byte
		switch rnd.Intn(5) {
		case 0:
			raw = pkt.serialize(key)
		case 1:
			raw = pkt.serialize(nil)
		case 2:
			raw = a5SCMP(pkt, slayers.SCMPTypeEchoRequest, []byte{0, 1, 0, 2, 9, 9, 9}, rnd.Intn(2) == 0)
		case 3:
			raw = a5SCMP(pkt, slayers.SCMPTypeTracerouteRequest, make([]byte, 20), rnd.Intn(2) == 0)
		case 4:
			pkt.dstPort = cliPort // forwarded when sent to 30041
			raw = pkt.serialize(key)
		}
		nm := rnd.Intn(4)
		for i := 0; i < nm; i++ {
			// concentrate on the headers
			lim := len(raw)
			if rnd.Intn(3) != 0 && lim > 120 {
				lim = 120
			}
			pos := rnd.Intn(lim)
			if rnd.Intn(2) == 0 {
				raw[pos] ^= 1 << uint(rnd.Intn(8))
			} else {
				raw[pos] = byte(rnd.Intn(256))
			}
		}
		if rnd.Intn(10) == 0 {
			raw = raw[:rnd.Intn(len(raw)+1)]
		}
		if len(raw) == 0 {
			continue
		}
		if _, err := conn.WriteToUDP(raw, dsts[rnd.Intn(2)]); err != nil {
			t.Fatal(err)
		}
		if it%64 == 0 {
			time.Sleep(200 * time.Microsecond)
		}
	}
	time.Sleep(300 * time.Millisecond)
}
