package server

import (
	"context"
	"fmt"
	"log/slog"
	"net"
	"sync"
	"testing"
	"time"

	"github.com/scionproto/scion/pkg/addr"
	"github.com/scionproto/scion/pkg/snet"
	spath "github.com/scionproto/scion/pkg/snet/path"

	"example.com/scion-time/core/client"
	"example.com/scion-time/net/scion"
	"example.com/scion-time/net/udp"
)

type a5LogRec struct {
	msg   string
	attrs map[string]string
}

type a5Handler struct {
	mu   sync.Mutex
	recs []a5LogRec
}

func (h *a5Handler) Enabled(context.Context, slog.Level) bool { return true }
func (h *a5Handler) Handle(_ context.Context, r slog.Record) error {
	rec := a5LogRec{msg: r.Message, attrs: map[string]string{}}
	r.Attrs(func(a slog.Attr) bool {
		if a.Key == "auth" || a.Key == "error" || a.Key == "cause" || a.Key == "clock offset" {
			rec.attrs[a.Key] = a.Value.String()
		}
		return true
	})
	h.mu.Lock()
	h.recs = append(h.recs, rec)
	h.mu.Unlock()
	return nil
}
func (h *a5Handler) WithAttrs([]slog.Attr) slog.Handler { return h }
func (h *a5Handler) WithGroup(string) slog.Handler      { return h }
func (h *a5Handler) find(msg string) []a5LogRec {
	h.mu.Lock()
	defer h.mu.Unlock()
	var out []a5LogRec
	for _, r := range h.recs {
		if r.msg == msg {
			out = append(out, r)
		}
	}
	return out
}

func TestA5ClientE2E(t *testing.T) {
	for _, fam := range []string{"127.0.0.1", "::1"} {
		srv := startA5Server(t, fam, false)
		cliIA := addr.MustParseIA("1-ff00:0:111")
		srvIA := addr.MustParseIA("2-ff00:0:222")
		type pc struct {
			name string
			dp   func() snet.DataplanePath
		}
		paths := []pc{
			{"empty", func() snet.DataplanePath { return spath.Empty{} }},
			{"scion", func() snet.DataplanePath { return spath.SCION{Raw: a5RawPath(2, 3).Raw} }},
			{"onehop", func() snet.DataplanePath {
				o := a5OneHop()
				return spath.OneHop{Info: o.Info, FirstHop: o.FirstHop, SecondHop: o.SecondHop}
			}},
		}
		for _, p := range paths {
			for _, auth := range []bool{false, true} {
				for _, ip16 := range []bool{false, true} {
					name := fmt.Sprintf("%s/%s/auth=%v/ip16=%v", fam, p.name, auth, ip16)
					h := &a5Handler{}
					c := &client.SCIONClient{Log: slog.New(h), DSCP: 46}
					if auth {
						c.Auth.Enabled = true
						c.Auth.DRKeyFetcher = scion.NewFetcher(srv.fd)
					}
					ip := srv.ip
					if ip16 {
						ip = ip.To16()
					} else if ip4 := ip.To4(); ip4 != nil {
						ip = ip4
					}
					la := udp.UDPAddr{IA: cliIA, Host: &net.UDPAddr{IP: ip}}
					ra := udp.UDPAddr{IA: srvIA, Host: &net.UDPAddr{IP: ip, Port: srv.port}}
					sp := spath.Path{Src: cliIA, Dst: srvIA, DataplanePath: p.dp(),
						NextHop: &net.UDPAddr{IP: srv.ip, Port: srv.port}}
					ctx, cancel := context.WithTimeout(context.Background(), time.Second)
					_, off, err := client.MeasureClockOffsetSCION(ctx, slog.New(h), []*client.SCIONClient{c}, la, ra, []snet.Path{sp})
					cancel()
					if err != nil {
						t.Errorf("%s: %v", name, err)
						continue
					}
					if off < -time.Second || off > time.Second {
						t.Errorf("%s: offset %v", name, off)
					}
					rs := h.find("received response")
					if len(rs) != 1 {
						t.Errorf("%s: %d responses", name, len(rs))
						continue
					}
					if rs[0].attrs["auth"] != fmt.Sprint(auth) {
						t.Errorf("%s: auth = %s", name, rs[0].attrs["auth"])
					}
				}
			}
		}
	}
}
