package server

// audit-5 / C13 harness: runs the real SCION listener (runSCIONServer) on
// loopback sockets, with a fake SCION daemon that hands out DRKeys.

import (
	"context"
	"crypto/sha256"
	"encoding/binary"
	"log/slog"
	"net"
	"net/netip"
	"sync"
	"testing"
	"time"

	"github.com/google/gopacket"

	"github.com/scionproto/scion/pkg/addr"
	"github.com/scionproto/scion/pkg/daemon"
	"github.com/scionproto/scion/pkg/drkey"
	"github.com/scionproto/scion/pkg/scrypto/cppki"
	"github.com/scionproto/scion/pkg/slayers"
	"github.com/scionproto/scion/pkg/slayers/path"
	"github.com/scionproto/scion/pkg/slayers/path/empty"
	"github.com/scionproto/scion/pkg/slayers/path/epic"
	"github.com/scionproto/scion/pkg/slayers/path/onehop"
	scionpath "github.com/scionproto/scion/pkg/slayers/path/scion"
	"github.com/scionproto/scion/pkg/spao"

	"example.com/scion-time/core/timebase"
	"example.com/scion-time/net/ntp"
	"example.com/scion-time/net/ntske"
	"example.com/scion-time/net/scion"
)

type fakeDaemon struct {
	daemon.Connector
	mu    sync.Mutex
	calls int
	fail  bool
}

func (d *fakeDaemon) hostAS(meta drkey.HostASMeta) drkey.HostASKey {
	h := sha256.New()
	var b [8]byte
	binary.BigEndian.PutUint64(b[:], uint64(meta.SrcIA))
	h.Write(b[:])
	binary.BigEndian.PutUint64(b[:], uint64(meta.DstIA))
	h.Write(b[:])
	a, err := netip.ParseAddr(meta.SrcHost)
	if err != nil {
		panic(err)
	}
	h.Write(a.Unmap().AsSlice())
	sum := h.Sum(nil)
	var k drkey.Key
	copy(k[:], sum)
	now := time.Now()
	return drkey.HostASKey{
		ProtoId: meta.ProtoId,
		SrcIA:   meta.SrcIA,
		DstIA:   meta.DstIA,
		SrcHost: meta.SrcHost,
		Epoch: drkey.Epoch{Validity: cppki.Validity{
			NotBefore: now.Add(-time.Hour), NotAfter: now.Add(time.Hour)}},
		Key: k,
	}
}

func (d *fakeDaemon) DRKeyGetHostASKey(ctx context.Context, meta drkey.HostASMeta) (drkey.HostASKey, error) {
	d.mu.Lock()
	d.calls++
	fail := d.fail
	d.mu.Unlock()
	if fail {
		return drkey.HostASKey{}, context.DeadlineExceeded
	}
	return d.hostAS(meta), nil
}

func (d *fakeDaemon) DRKeyGetHostHostKey(ctx context.Context, meta drkey.HostHostMeta) (drkey.HostHostKey, error) {
	hak := d.hostAS(drkey.HostASMeta{ProtoId: meta.ProtoId, Validity: meta.Validity,
		SrcIA: meta.SrcIA, DstIA: meta.DstIA, SrcHost: meta.SrcHost})
	return scion.DeriveHostHostKey(hak, meta.DstHost)
}

func (d *fakeDaemon) Close() error { return nil }

var (
	a5Once  sync.Once
	a5Mtrcs *scionServerMetrics
)

type a5Server struct {
	ip       net.IP
	port     int // the time service's port
	fd       *fakeDaemon
	provider *ntske.Provider
}

// startA5Server starts one listener on ip:<free port> and, if withEndhost, one
// on ip:30041 (both with localHostPort = the free port), like StartSCIONServer.
func startA5Server(t *testing.T, ip string, withEndhost bool) *a5Server {
	t.Helper()
	a5Once.Do(func() { a5Mtrcs = newSCIONServerMetrics() })
	log := slog.New(slog.DiscardHandler)
	if testing.Verbose() {
		log = slog.Default()
	}
	ctx := context.Background()
	fd := &fakeDaemon{}
	provider := ntske.NewProvider()
	conn, err := net.ListenUDP("udp", &net.UDPAddr{IP: net.ParseIP(ip)})
	if err != nil {
		t.Fatal(err)
	}
	port := conn.LocalAddr().(*net.UDPAddr).Port
	go runSCIONServer(ctx, log, a5Mtrcs, conn, "", port, 0, scion.NewFetcher(fd), provider)
	if withEndhost {
		conn2, err := net.ListenUDP("udp", &net.UDPAddr{IP: net.ParseIP(ip), Port: scion.EndhostPort})
		if err != nil {
			t.Fatal(err)
		}
		go runSCIONServer(ctx, log, a5Mtrcs, conn2, "", port, 0, scion.NewFetcher(fd), provider)
	}
	return &a5Server{ip: net.ParseIP(ip), port: port, fd: fd, provider: provider}
}

// ---- packet construction ----

func a5SCIONPath(segLens ...int) *scionpath.Decoded {
	p := &scionpath.Decoded{}
	hop := 0
	for i, l := range segLens {
		p.PathMeta.SegLen[i] = uint8(l)
		p.InfoFields = append(p.InfoFields, path.InfoField{ConsDir: i%2 == 0, SegID: uint16(0x1111 * (i + 1)), Timestamp: 1700000000})
		for j := 0; j < l; j++ {
			hop++
			p.HopFields = append(p.HopFields, path.HopField{ExpTime: 63,
				ConsIngress: uint16(hop), ConsEgress: uint16(hop + 100),
				Mac: [6]byte{byte(hop), 2, 3, 4, 5, 6}})
		}
		p.NumHops += l
	}
	p.NumINF = len(segLens)
	return p
}

func a5RawPath(segLens ...int) *scionpath.Raw {
	d := a5SCIONPath(segLens...)
	b := make([]byte, d.Len())
	if err := d.SerializeTo(b); err != nil {
		panic(err)
	}
	r := &scionpath.Raw{}
	if err := r.DecodeFromBytes(b); err != nil {
		panic(err)
	}
	return r
}

func a5OneHop() *onehop.Path {
	return &onehop.Path{
		Info:      path.InfoField{ConsDir: true, SegID: 0x2222, Timestamp: 1700000000},
		FirstHop:  path.HopField{ExpTime: 63, ConsEgress: 7, Mac: [6]byte{1, 2, 3, 4, 5, 6}},
		SecondHop: path.HopField{ExpTime: 63, ConsIngress: 9, Mac: [6]byte{6, 5, 4, 3, 2, 1}},
	}
}

func a5EPIC(segLens ...int) *epic.Path {
	return &epic.Path{
		PktID:     epic.PktID{Timestamp: 1234, Counter: 99},
		PHVF:      []byte{1, 2, 3, 4},
		LHVF:      []byte{5, 6, 7, 8},
		ScionPath: a5RawPath(segLens...),
	}
}

type a5Pkt struct {
	srcIA, dstIA     addr.IA
	src, dst         netip.Addr
	srcPort, dstPort uint16
	path             path.Path
	payload          []byte
	// end-to-end options in front of the UDP header; nil = no end-to-end header
	e2eOpts []*slayers.EndToEndOption
	hbh     bool
	tc      uint8
	flowID  uint32
}

func a5NTPRequest() []byte {
	var buf []byte
	req := ntp.Packet{}
	req.SetVersion(ntp.VersionMax)
	req.SetMode(ntp.ModeClient)
	req.TransmitTime = ntp.Time64FromTime(timebase.Now())
	ntp.EncodePacket(&buf, &req)
	return buf
}

func (p *a5Pkt) scionLayer() *slayers.SCION {
	s := &slayers.SCION{}
	s.TrafficClass = p.tc
	s.FlowID = p.flowID
	s.SrcIA, s.DstIA = p.srcIA, p.dstIA
	if err := s.SetSrcAddr(addr.HostIP(p.src)); err != nil {
		panic(err)
	}
	if err := s.SetDstAddr(addr.HostIP(p.dst)); err != nil {
		panic(err)
	}
	s.Path = p.path
	s.PathType = p.path.Type()
	return s
}

// a5AuthOpt returns a time-service authenticator option for the packet with
// the MAC computed under key (client -> server direction).
func a5AuthOpt(s *slayers.SCION, key []byte, spi uint32, udpDatagram []byte) *slayers.EndToEndOption {
	opt := &slayers.EndToEndOption{OptData: make([]byte, scion.PacketAuthOptDataLen)}
	scion.PreparePacketAuthOpt(opt, spi, scion.PacketAuthAlgorithm)
	_, err := spao.ComputeAuthCMAC(spao.MACInput{
		Key:        key,
		Header:     slayers.PacketAuthOption{EndToEndOption: opt},
		ScionLayer: s,
		PldType:    slayers.L4UDP,
		Pld:        udpDatagram,
	}, make([]byte, spao.MACBufferSize), scion.PacketAuthOptMAC(opt))
	if err != nil {
		panic(err)
	}
	return opt
}

// serialize builds the packet; if authKey != nil a valid authenticator is put
// in front of p.e2eOpts.
func (p *a5Pkt) serialize(authKey []byte) []byte {
	s := p.scionLayer()
	s.NextHdr = slayers.L4UDP
	u := &slayers.UDP{}
	u.SrcPort, u.DstPort = p.srcPort, p.dstPort
	u.SetNetworkLayerForChecksum(s)
	buffer := gopacket.NewSerializeBuffer()
	options := gopacket.SerializeOptions{ComputeChecksums: true, FixLengths: true}
	pl := gopacket.Payload(p.payload)
	if err := pl.SerializeTo(buffer, options); err != nil {
		panic(err)
	}
	buffer.PushLayer(pl.LayerType())
	if err := u.SerializeTo(buffer, options); err != nil {
		panic(err)
	}
	buffer.PushLayer(u.LayerType())
	opts := p.e2eOpts
	if authKey != nil {
		opt := a5AuthOpt(s, authKey, scion.PacketAuthSPIClient, buffer.Bytes())
		opts = append([]*slayers.EndToEndOption{opt}, opts...)
	}
	next := slayers.L4UDP
	if opts != nil {
		e := slayers.EndToEndExtn{}
		e.NextHdr = next
		e.Options = opts
		if err := e.SerializeTo(buffer, options); err != nil {
			panic(err)
		}
		buffer.PushLayer(e.LayerType())
		next = slayers.End2EndClass
	}
	if p.hbh {
		h := slayers.HopByHopExtn{}
		h.NextHdr = next
		h.Options = []*slayers.HopByHopOption{{OptType: 77, OptData: []byte{1, 2, 3, 4, 5, 6}}}
		if err := h.SerializeTo(buffer, options); err != nil {
			panic(err)
		}
		buffer.PushLayer(h.LayerType())
		next = slayers.HopByHopClass
	}
	s.NextHdr = next
	if err := s.SerializeTo(buffer, options); err != nil {
		panic(err)
	}
	out := make([]byte, len(buffer.Bytes()))
	copy(out, buffer.Bytes())
	return out
}

type a5Decoded struct {
	scn     slayers.SCION
	e2e     slayers.EndToEndExtn
	udp     slayers.UDP
	scmp    slayers.SCMP
	hasE2E  bool
	hasHBH  bool
	isUDP   bool
	isSCMP  bool
	decoded []gopacket.LayerType
}

func a5Decode(t *testing.T, b []byte) *a5Decoded {
	t.Helper()
	d := &a5Decoded{}
	var hbh slayers.HopByHopExtnSkipper
	parser := gopacket.NewDecodingLayerParser(slayers.LayerTypeSCION, &d.scn, &hbh, &d.e2e, &d.udp, &d.scmp)
	parser.IgnoreUnsupported = true
	if err := parser.DecodeLayers(b, &d.decoded); err != nil {
		t.Fatalf("reply does not decode: %v", err)
	}
	for _, l := range d.decoded {
		switch l {
		case slayers.LayerTypeEndToEndExtn:
			d.hasE2E = true
		case slayers.LayerTypeHopByHopExtn:
			d.hasHBH = true
		case slayers.LayerTypeSCIONUDP:
			d.isUDP = true
		case slayers.LayerTypeSCMP:
			d.isSCMP = true
		}
	}
	return d
}

// exchange sends pkt from a fresh socket on ip to dst and waits for one reply.
func a5Exchange(t *testing.T, conn *net.UDPConn, dst *net.UDPAddr, pkt []byte, wait time.Duration) []byte {
	t.Helper()
	if _, err := conn.WriteToUDP(pkt, dst); err != nil {
		t.Fatal(err)
	}
	buf := make([]byte, 65536)
	_ = conn.SetReadDeadline(time.Now().Add(wait))
	n, _, err := conn.ReadFromUDP(buf)
	if err != nil {
		return nil
	}
	return buf[:n]
}

var _ = empty.Path{}
