package server

import (
	"bytes"
	"crypto/subtle"
	"fmt"
	"net"
	"net/netip"
	"testing"
	"time"

	"github.com/scionproto/scion/pkg/addr"
	"github.com/scionproto/scion/pkg/drkey"
	"github.com/scionproto/scion/pkg/slayers"
	"github.com/scionproto/scion/pkg/slayers/path"
	"github.com/scionproto/scion/pkg/slayers/path/empty"
	"github.com/scionproto/scion/pkg/spao"

	"example.com/scion-time/net/scion"
)

func a5Key(t *testing.T, fd *fakeDaemon, srvIA, cliIA addr.IA, srv, cli netip.Addr) []byte {
	k, err := fd.DRKeyGetHostHostKey(nil, drkey.HostHostMeta{
		ProtoId: scion.DRKeyProtocolTS, Validity: time.Now(),
		SrcIA: srvIA, DstIA: cliIA, SrcHost: srv.String(), DstHost: cli.String()})
	if err != nil {
		t.Fatal(err)
	}
	return k.Key[:]
}

func a5VerifyReplyAuth(t *testing.T, d *a5Decoded, key []byte) (present, ok bool) {
	if !d.hasE2E {
		return false, false
	}
	opt, err := d.e2e.FindOption(slayers.OptTypeAuthenticator)
	if err != nil {
		return false, false
	}
	if len(opt.OptData) != scion.PacketAuthOptDataLen {
		return true, false
	}
	spi, algo := scion.PacketAuthOptMetadata(opt)
	if spi != scion.PacketAuthSPIServer || algo != scion.PacketAuthAlgorithm {
		return true, false
	}
	mac := make([]byte, 16)
	_, err = spao.ComputeAuthCMAC(spao.MACInput{
		Key: key, Header: slayers.PacketAuthOption{EndToEndOption: opt},
		ScionLayer: &d.scn, PldType: slayers.L4UDP,
		Pld: d.udp.Contents[:len(d.udp.Contents)+len(d.udp.Payload)],
	}, make([]byte, spao.MACBufferSize), mac)
	if err != nil {
		t.Fatalf("mac: %v", err)
	}
	return true, subtle.ConstantTimeCompare(mac, scion.PacketAuthOptMAC(opt)) == 1
}

func TestA5Matrix(t *testing.T) {
	checked := 0
	defer func() { t.Logf("checked %d replies", checked) }()
	for _, fam := range []string{"127.0.0.1", "::1"} {
		srv := startA5Server(t, fam, false)
		srvAddr, _ := netip.AddrFromSlice(srv.ip)
		srvAddr = srvAddr.Unmap()
		cliIA := addr.MustParseIA("1-ff00:0:111")
		srvIA := addr.MustParseIA("2-ff00:0:222")
		conn, err := net.ListenUDP("udp", &net.UDPAddr{IP: srv.ip})
		if err != nil {
			t.Fatal(err)
		}
		defer conn.Close()
		cliPort := uint16(conn.LocalAddr().(*net.UDPAddr).Port)
		type pc struct {
			name string
			mk   func() path.Path
		}
		paths := []pc{
			{"empty", func() path.Path { return empty.Path{} }},
			{"scion1x2", func() path.Path { return a5RawPath(2) }},
			{"scion3segs", func() path.Path { return a5RawPath(3, 2, 4) }},
			{"scionmax", func() path.Path { return a5RawPath(21, 21, 22) }},
			{"scion63", func() path.Path { return a5RawPath(63) }},
			{"onehop", func() path.Path { return a5OneHop() }},
			{"epic", func() path.Path { return a5EPIC(2, 3) }},
		}
		for _, p := range paths {
			for _, auth := range []bool{false, true} {
				for _, hbh := range []bool{false, true} {
					name := fmt.Sprintf("%s/%s/auth=%v/hbh=%v", fam, p.name, auth, hbh)
					pkt := &a5Pkt{srcIA: cliIA, dstIA: srvIA, src: srvAddr, dst: srvAddr,
						srcPort: cliPort, dstPort: uint16(srv.port), path: p.mk(),
						payload: a5NTPRequest(), hbh: hbh, tc: 0xb8, flowID: 0xabcde}
					var key []byte
					if auth {
						key = a5Key(t, srv.fd, srvIA, cliIA, srvAddr, srvAddr)
					}
					raw := pkt.serialize(key)
					reply := a5Exchange(t, conn, &net.UDPAddr{IP: srv.ip, Port: srv.port}, raw, 500*time.Millisecond)
					if reply == nil {
						t.Errorf("%s: no reply", name)
						continue
					}
					d := a5Decode(t, reply)
					if !d.isUDP {
						t.Errorf("%s: reply is not UDP", name)
						continue
					}
					if d.scn.SrcIA != srvIA || d.scn.DstIA != cliIA {
						t.Errorf("%s: IA not exchanged", name)
					}
					if d.udp.SrcPort != uint16(srv.port) || d.udp.DstPort != cliPort {
						t.Errorf("%s: ports not exchanged", name)
					}
					// expected path
					exp := p.mk()
					if ep, ok := exp.(interface{ Type() path.Type }); ok && ep.Type() == 3 {
						exp = a5RawPath(2, 3)
					}
					rev, err := exp.Reverse()
					if err != nil {
						t.Fatal(err)
					}
					eb := make([]byte, rev.Len())
					if err := rev.SerializeTo(eb); err != nil {
						t.Fatal(err)
					}
					gb := make([]byte, d.scn.Path.Len())
					if err := d.scn.Path.SerializeTo(gb); err != nil {
						t.Fatal(err)
					}
					if d.scn.PathType != rev.Type() || !bytes.Equal(eb, gb) {
						t.Errorf("%s: path type %v (want %v) or bytes differ", name, d.scn.PathType, rev.Type())
					}
					checked++
					present, ok := a5VerifyReplyAuth(t, d, key)
					if auth && (!present || !ok) {
						t.Errorf("%s: reply authenticator present=%v ok=%v", name, present, ok)
					}
					if !auth && present {
						t.Errorf("%s: unexpected authenticator", name)
					}
				}
			}
		}
	}
}
