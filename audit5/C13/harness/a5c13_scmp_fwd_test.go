package server

import (
	"bytes"
	"fmt"
	"net"
	"net/netip"
	"testing"
	"time"

	"github.com/scionproto/scion/pkg/addr"
	"github.com/scionproto/scion/pkg/slayers"
	"github.com/scionproto/scion/pkg/slayers/path"
	"github.com/scionproto/scion/pkg/slayers/path/empty"

	"example.com/scion-time/net/scion"
)

func TestA5SCMPAndForward(t *testing.T) {
	for _, fam := range []string{"127.0.0.14", "::1"} {
		if fam == "::1" {
			// 30041 on ::1 may be taken by another test's server: only one family binds it
		}
		srv := startA5Server(t, fam, fam != "::1")
		srvAddr, _ := netip.AddrFromSlice(srv.ip)
		srvAddr = srvAddr.Unmap()
		cliIA := addr.MustParseIA("1-ff00:0:111")
		srvIA := addr.MustParseIA("2-ff00:0:222")
		conn, err := net.ListenUDP("udp", &net.UDPAddr{IP: srv.ip})
		if err != nil {
			t.Fatal(err)
		}
		defer conn.Close()
		cliPort := uint16(conn.LocalAddr().(*net.UDPAddr).Port)
		key := a5Key(t, srv.fd, srvIA, cliIA, srvAddr, srvAddr)
		type pc struct {
			name string
			mk   func() path.Path
			rev  func() path.Path
		}
		paths := []pc{
			{"empty", func() path.Path { return empty.Path{} }, nil},
			{"scion", func() path.Path { return a5RawPath(3, 2, 4) }, nil},
			{"onehop", func() path.Path { return a5OneHop() }, nil},
			{"epic", func() path.Path { return a5EPIC(2, 3) }, func() path.Path { return a5RawPath(2, 3) }},
		}
		ports := []int{srv.port}
		if fam != "::1" {
			ports = append(ports, scion.EndhostPort)
		}
		for _, p := range paths {
			for _, port := range ports {
				for _, typ := range []slayers.SCMPType{slayers.SCMPTypeEchoRequest, slayers.SCMPTypeTracerouteRequest} {
					for _, e2e := range []bool{false, true} {
						name := fmt.Sprintf("%s/%s/port=%d/type=%d/e2e=%v", fam, p.name, port, typ, e2e)
						pkt := &a5Pkt{srcIA: cliIA, dstIA: srvIA, src: srvAddr, dst: srvAddr, path: p.mk(), hbh: e2e, tc: 0x44, flowID: 7}
						data := []byte{0xab, 0xcd, 0, 9, 1, 2, 3, 4, 5, 6, 7, 8, 9, 10, 11, 12, 13, 14, 15, 16, 17}
						raw := a5SCMP(pkt, typ, data, e2e)
						reply := a5Exchange(t, conn, &net.UDPAddr{IP: srv.ip, Port: port}, raw, 300*time.Millisecond)
						if reply == nil {
							t.Errorf("%s: no reply", name)
							continue
						}
						d := a5Decode(t, reply)
						if !d.isSCMP {
							t.Errorf("%s: not SCMP", name)
							continue
						}
						if d.scmp.TypeCode.Type() != typ+1 || !bytes.Equal(d.scmp.Payload, data) {
							t.Errorf("%s: type %v payload % x", name, d.scmp.TypeCode, d.scmp.Payload)
						}
						if d.scn.SrcIA != srvIA || d.scn.DstIA != cliIA {
							t.Errorf("%s: IA", name)
						}
						exp := p.mk()
						if p.rev != nil {
							exp = p.rev()
						}
						rev, _ := exp.Reverse()
						eb := make([]byte, rev.Len())
						_ = rev.SerializeTo(eb)
						gb := make([]byte, d.scn.Path.Len())
						_ = d.scn.Path.SerializeTo(gb)
						if d.scn.PathType != rev.Type() || !bytes.Equal(eb, gb) {
							t.Errorf("%s: path", name)
						}
					}
				}
			}
			if fam == "::1" {
				continue
			}
			// forwarding: a second socket plays the application on another port
			app, err := net.ListenUDP("udp", &net.UDPAddr{IP: srv.ip})
			if err != nil {
				t.Fatal(err)
			}
			appPort := uint16(app.LocalAddr().(*net.UDPAddr).Port)
			for _, auth := range []bool{false, true} {
				for _, hbh := range []bool{false, true} {
					name := fmt.Sprintf("fwd/%s/auth=%v/hbh=%v", p.name, auth, hbh)
					pl := []byte("payload of another application, not NTP")
					pkt := &a5Pkt{srcIA: cliIA, dstIA: srvIA, src: srvAddr, dst: srvAddr,
						srcPort: cliPort, dstPort: appPort, path: p.mk(), payload: pl, hbh: hbh, tc: 0x44, flowID: 7}
					var k []byte
					if auth {
						k = key
					}
					raw := pkt.serialize(k)
					// on the service port: never forwarded
					_, _ = conn.WriteToUDP(raw, &net.UDPAddr{IP: srv.ip, Port: srv.port})
					_, _ = conn.WriteToUDP(raw, &net.UDPAddr{IP: srv.ip, Port: scion.EndhostPort})
					buf := make([]byte, 65536)
					_ = app.SetReadDeadline(time.Now().Add(300 * time.Millisecond))
					n, from, err := app.ReadFromUDP(buf)
					if err != nil {
						t.Errorf("%s: not forwarded", name)
						continue
					}
					if from.Port != scion.EndhostPort {
						t.Errorf("%s: forwarded from port %d", name, from.Port)
					}
					d := a5Decode(t, buf[:n])
					if !d.isUDP || !bytes.Equal(d.udp.Payload, pl) || d.udp.SrcPort != cliPort || d.udp.DstPort != appPort {
						t.Errorf("%s: datagram changed", name)
					}
					if auth {
						_, c, v := a5Oracle(buf[:n], key)
						if !c || !v {
							t.Errorf("%s: authenticator carries=%v verifies=%v", name, c, v)
						}
					}
					_ = app.SetReadDeadline(time.Now().Add(30 * time.Millisecond))
					if _, _, err := app.ReadFromUDP(buf); err == nil {
						t.Errorf("%s: forwarded twice (also from the service port?)", name)
					}
				}
			}
			app.Close()
		}
	}
}
