package server

import (
	"net"
	"net/netip"
	"testing"
	"time"

	"github.com/scionproto/scion/pkg/addr"
)

// the MAC does not cover IA and host addresses: they must be bound by the key
func TestA5AddressBinding(t *testing.T) {
	srv := startA5Server(t, "127.0.0.10", false)
	srvAddr := netip.MustParseAddr("127.0.0.10")
	cliAddr := netip.MustParseAddr("127.0.0.11")
	cliIA := addr.MustParseIA("1-ff00:0:111")
	srvIA := addr.MustParseIA("2-ff00:0:222")
	conn, err := net.ListenUDP("udp", &net.UDPAddr{IP: net.ParseIP("127.0.0.11")})
	if err != nil {
		t.Fatal(err)
	}
	defer conn.Close()
	cliPort := uint16(conn.LocalAddr().(*net.UDPAddr).Port)
	key := a5Key(t, srv.fd, srvIA, cliIA, srvAddr, cliAddr)
	dst := &net.UDPAddr{IP: srv.ip, Port: srv.port}

	mk := func(mod func(p *a5Pkt)) []byte {
		pkt := &a5Pkt{srcIA: cliIA, dstIA: srvIA, src: cliAddr, dst: srvAddr,
			srcPort: cliPort, dstPort: uint16(srv.port), path: a5RawPath(2, 3),
			payload: a5NTPRequest()}
		// MAC for the genuine addresses, header with the modified ones
		genuine := *pkt
		_ = genuine
		raw0 := pkt.serialize(key)
		mod(pkt)
		raw1 := pkt.serialize(key) // same MAC input (addresses are not covered)...
		_ = raw0
		return raw1
	}
	if r := a5Exchange(t, conn, dst, mk(func(p *a5Pkt) {}), 200*time.Millisecond); r == nil {
		t.Fatal("genuine request not served")
	}
	cases := map[string]func(p *a5Pkt){
		"other source host":    func(p *a5Pkt) { p.src = netip.MustParseAddr("127.0.0.12") },
		"other source IA":      func(p *a5Pkt) { p.srcIA = addr.MustParseIA("1-ff00:0:112") },
		"other destination":    func(p *a5Pkt) { p.dst = netip.MustParseAddr("127.0.0.13") },
		"other destination IA": func(p *a5Pkt) { p.dstIA = addr.MustParseIA("2-ff00:0:223") },
	}
	for name, mod := range cases {
		if r := a5Exchange(t, conn, dst, mk(mod), 100*time.Millisecond); r != nil {
			t.Errorf("%s: served", name)
		}
	}
}
