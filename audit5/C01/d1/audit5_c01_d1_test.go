package sync

// Audit round 5, property C01, finding d1.
//
// Place this file in core/sync/ and run
//   go test -count=1 -run TestAudit5C01PeerWithinCutoffContributes ./core/sync/
//
// Two peers report offsets at the two ends of the int64 range (inside the
// quantifier: "offsets over the whole int64 range"). Together with the local
// clock (0) their fault-tolerant midpoint is -0.5 ns, i.e. a peer offset
// well within the cutoff (50 us): the peers must contribute nothing and the
// correction must be the bounded reference-clock value, |corr| <= reference
// factor x drift x interval = 12.5 us. core/measurements.midpoint wraps
// (x + (y-x)/2 with y-x = 2^64-1), reports MinInt64 as the peer offset, the
// peers contribute -peerMax, and the correction handed to the clock
// discipline is -18.75 us: larger than the bound that applies to this round,
// and in round 3 even of the wrong sign.

import (
	"context"
	"log/slog"
	"math"
	"sync/atomic"
	"testing"
	"time"

	"example.com/scion-time/core/client"
)

type a5Src struct {
	round *atomic.Int64
	offs  []time.Duration // by round
}

func (s *a5Src) MeasureClockOffset(ctx context.Context) (time.Time, time.Duration, error) {
	r := s.round.Load()
	return time.Unix(1700000000+r, 0), s.offs[r], nil
}

type a5Clk struct {
	slept chan struct{}
	wake  chan struct{}
}

func (c *a5Clk) Epoch() uint64                                { return 0 }
func (c *a5Clk) Now() time.Time                               { return time.Now() }
func (c *a5Clk) Drift(d time.Duration) time.Duration          { return 10 * time.Microsecond } // 10 us/s x 1 s
func (c *a5Clk) Step(time.Duration)                           { panic("not used") }
func (c *a5Clk) Adjust(time.Duration, time.Duration, float64) { panic("not used") }
func (c *a5Clk) Sleep(time.Duration) {
	c.slept <- struct{}{}
	<-c.wake
}

type a5Adj struct{ ch chan time.Duration }

func (a *a5Adj) Do(d time.Duration) { a.ch <- d }

func TestAudit5C01PeerWithinCutoffContributes(t *testing.T) {
	cfg := Config{
		ReferenceClockImpact: 1.25,
		PeerClockImpact:      2.5,
		PeerClockCutoff:      50 * time.Microsecond,
		SyncTimeout:          500 * time.Millisecond,
		SyncInterval:         time.Second,
	}
	const refMax = 12500 * time.Nanosecond  // 1.25 x 10 us
	const peerMax = 25000 * time.Nanosecond // 2.5 x 10 us
	_ = peerMax

	var round atomic.Int64
	//                                   round 0          round 1          round 2          round 3
	ref := &a5Src{&round, []time.Duration{-time.Second, -time.Second, -time.Second, +5 * time.Microsecond}}
	p1 := &a5Src{&round, []time.Duration{-1, math.MinInt64, -(1 << 62) - 1, math.MinInt64}}
	p2 := &a5Src{&round, []time.Duration{+1, math.MaxInt64, +(1 << 62), math.MaxInt64}}
	// exact peer offset (fault-tolerant midpoint of p1, p2 and the local
	// clock's 0; n = 3, f = 0: midpoint of smallest and largest):
	//   round 0: 0        round 1: -0.5 ns     round 2: -0.5 ns    round 3: -0.5 ns
	// all within the cutoff -> correction = bounded reference value
	want := []time.Duration{-refMax, -refMax, -refMax, +5 * time.Microsecond}

	clk := &a5Clk{slept: make(chan struct{}), wake: make(chan struct{})}
	adj := &a5Adj{ch: make(chan time.Duration, 16)}
	go Run(slog.New(slog.DiscardHandler), cfg, clk, adj,
		[]client.ReferenceClock{ref}, []client.ReferenceClock{p1, p2})

	for r := range want {
		<-clk.slept
		if len(adj.ch) != 1 {
			t.Fatalf("round %d: %d corrections handed over", r, len(adj.ch))
		}
		corr := <-adj.ch
		t.Logf("round %d: ref %v, peers %d / %d ns, correction handed over %v (want %v, bound of the round %v)",
			r, ref.offs[r], int64(p1.offs[r]), int64(p2.offs[r]), corr, want[r], refMax)
		if corr != want[r] {
			t.Errorf("round %d: correction %v, want %v: peers whose offset (-0.5 ns) is within the cutoff contributed", r, corr, want[r])
		}
		if corr.Abs() > refMax {
			t.Errorf("round %d: |correction| %v exceeds reference factor x drift x interval = %v although the peer offset is within the cutoff", r, corr.Abs(), refMax)
		}
		round.Store(int64(r + 1))
		if r+1 < len(want) {
			clk.wake <- struct{}{}
		}
	}
}
