#!/usr/bin/env python3
"""Regenerates /verif/MANIFEST.json from the table below (run after adding a monitor)."""
import json, os, subprocess

ROOT = os.path.dirname(os.path.abspath(__file__))

# id -> (level, technique, level text, level note, design ref)
CHECKS = {
 "C02": ("exploration", "runtime oracle (math/big) over seeded adversarial multisets and permutations of the real functions",
         "Held on every generated multiset/permutation: result inside the range implied for every choice of faulty positions, order independent, slice only permuted. Exploration is the right level: the input space is unbounded, the oracle is exact.",
         "trusts math/big, slices.Sort of the harness, the seeded generator's coverage of boundary magnitudes (|v|<2^62)", "3/C02"),
 "C04": ("exploration", "runtime oracle on the real conversion functions: boundary-dense (reference,time) pairs across four era boundaries, exhaustive sub-second and fraction sweeps in the thorough tier",
         "Held on every generated pair; thorough enumerates all 10^9 nanosecond values and all 2^32 fractions. Exploration over (t0,t) pairs with exhaustive sub-spaces; exactness oracle, no tolerance.",
         "trusts package time's arithmetic; window taken at whole-second granularity (see evidence assumptions)", "3/C04"),
 "C18": ("exploration", "runtime oracle (math/big, exact rationals) on the exported conversion functions; exhaustive scaled-ppm range in the thorough tier",
         "Held on all generated values including every int64 boundary class; the kernel's scaled-ppm range is enumerated completely in thorough.",
         "trusts math/big; CSPTP offset and delay each within int64 ns (one-way terms and raw timestamp differences may exceed it), corrections within the 48 bits of a correction field", "3/C18"),
 "C16": ("fault_enumeration", "runtime monitor in testing/synctest bubbles (virtual time) under the race detector: enumerated completion-time x outcome fault scripts for scripted reference clocks",
         "Every (completion time relative to the deadline) x (success/error) pattern for small n is enumerated, random scripts extend to 16 clocks; the oracle reads only the virtual clock, the result slice and bubble quiescence.",
         "trusts testing/synctest's virtual time and deadlock detection (go1.24 experiment); a result completing exactly at the deadline may go either way", "3/C16"),
 "C17": ("exploration", "runtime oracle over seeded sample histories of the real filters: reference model for the lucky-packet selection, property-derived necessary conditions and a reset-independence metamorphic check for Ntimed, with the filter's own log record as probe",
         "Held on all generated histories for all 144 (cap,pick) configurations and on Ntimed histories with resets/epoch changes at every position.",
         "trusts the harness's reference selection (distinct round-trip delays only), float tolerance of 4 ulp + 2 ns for the Ntimed raw-offset clause", "3/C17"),
 "C19": ("exploration", "runtime monitor of Step/Adjust calls on a scripted clock while the real PLL is fed seeded (offset, weight, time, epoch) histories; plus the real clock driver (and the PLL on it) in child processes under strace, whose clock_adjtime calls are logged and answered by injection, replayed against the Step/Adjust calls a recording wrapper saw",
         "Necessary conditions from the statement evaluated on every actuation of every generated history (both epoch-bumping and non-bumping clocks); on the driver: every kernel call accounted for by a request, frequency = f + offset/duration, restored after the duration (never before, unless a step cuts it short), steps in normalised nanosecond form and one new epoch per step.",
         "non-decreasing clock readings; for gaps >= 2^23 s the duration is accepted within float rounding; the kernel leg runs in real time (whole-second durations of 1..2 s) and needs strace's syscall injection — where the canary call is not intercepted the leg does not run and says so in the evidence", "3/C19"),
 "C01": ("exploration", "runtime monitor of Do/Sleep/measure events of the real sync.Run inside testing/synctest bubbles (virtual time) with scripted clock, adjustment and sources; plus a leg compiled into the service's own package (overlay build) that checks that timeservice.go hands the configured factors, cutoff, timeout, interval and drift on unchanged and that its defaults are admissible",
         "Held on every generated configuration x source script: event grammar, timing on the virtual clock, magnitude bound, and the composition clause in rounds determined by their own measurements; inadmissible configurations refused before any measurement.",
         "trusts testing/synctest; correction caps < 2^63 ns; composition clause for |offset| >= 2^62 only where all answers of a side agree", "3/C01"),
 "C12": ("exploration", "runtime monitor of Provider.Current/Get under testing/synctest virtual time from 1..16 goroutines with the race detector; per-call oracle at the exact virtual instant plus scheduled Get probes",
         "Held on all generated call schedules over up to ~100 virtual days incl. idle gaps at every boundary (24 h, 72 h +-1 ns); race reports in net/ntske are violations.",
         "trusts testing/synctest and the race detector; validity bounds inclusive as implemented", "3/C12"),
 "C06": ("exploration", "runtime monitor at the verif hook: transition predicates from the statement over (store snapshot, operation, reply, snapshot) on seeded sequential histories under a scripted clock, with a shadow map of every reply's true transmit time",
         "Held on all generated histories (colliding/decreasing receive times, clock before/at/after rx, own/foreign/unknown origins, reordered and lost transmit timestamps).",
         "hook level (build tag verif); double updates and a kernel stamp equal to the software time are outside the generated domain", "3/C06"),
 "C07": ("exploration", "store invariants walked under the store's own lock after every operation; capacity/eviction at exactly 2^20 clients; concurrent histories under the race detector checked for linearizability with porcupine against the code's own sequential behaviour",
         "Held on all histories: structure and ranking after every operation (exact for clients whose receive timestamps never decrease, repeated timestamps included), eviction exactly as stated at capacity, no race report in core/server, every recorded concurrent history linearizable.",
         "hook level; linearizability below capacity (partition by client); porcupine timeout = inconclusive; reach of the race detector = interleavings the scheduler produced (counted in the evidence)", "3/C07"),
 "C09": ("exploration", "runtime monitor on real sockets: raw UDP peer against the real IP and SCION listeners in a child process, 'no reply' decided by the ordering of a sentinel request, replies attributed by unique origin timestamps",
         "Complete first-byte space x boundary lengths x remainder kinds plus valid/invalid NTS requests over IP and SCION (service port and end-host port, empty and hand-built paths); every datagram's reply count and every reply's header and addressing checked.",
         "loopback only; SO_REUSEPORT 4-tuple affinity and in-order handling per socket (sentinel discipline); cookies from a real key exchange with the target", "3/C09"),
 "C08": ("fault_enumeration", "runtime monitoring of child processes (race build => checkptr) hosting the real listeners and clients: structure-aware fault enumeration per receiving loop, every input logged before sending, liveness by sentinel request, RSS watchdog, goroutine census of the receive loops",
         "Enumerates malformed-input classes x positions for NTP/NTS, SCION (headers, paths, options, SCMP), CSPTP and NTS-KE record streams plus hostile responses to the real clients; the oracle is process survival, an answered sentinel after every batch and an unchanged number of receive-loop goroutines.",
         "loopback; hang = sentinel unanswered 3 x 5 s with the child alive; absence of crashes only for generated inputs", "3/C08"),
 "C10": ("exploration", "runtime oracle over every single-bit and single-field mutation of encoded NTS requests, responses and cookies produced by the project's own encoder; calls under recover with a watchdog, hang-prone classes probed in a child process",
         "Completeness on every generated packet, soundness on every bit of the authenticated/nonce/ciphertext regions (framing bytes not asserted), key/direction/id mix-ups, cookie sealing; panics and hangs are reported with their own signatures.",
         "byte classification by the harness's knowledge of the layout it asked the encoder for; miscreant AES-SIV as trusted primitive", "3/C10"),
 "C14": ("exploration", "runtime round-trip oracles on the exported codecs (exhaustive 8/16-bit fields, boundary-dense wider fields, random values and byte strings) and NTS-KE streams delivered through every single cut point, one-byte/half readers, multi-cut and small bufio readers",
         "decode(encode(v)) = v, encode(decode(b)) = b for headers, extension-field kinds preserved and 4-byte aligned, segmentation-independence of ReadData at every cut point of generated server messages.",
         "iotest/bufio readers stand in for transport segmentation (same read boundaries as TLS records); request sizes kept within the 1024-byte NTS packet limit", "3/C14"),
 "C20": ("fault_enumeration", "runtime monitor of the real Fetcher (and IP client) against a scripted TLS NTS-KE server: enumerated record-stream faults (record x position, truncation at every byte, segmentation at every byte, ALPN offers) sequences of failed and successful exchanges, and a late response of a superseded session arriving after the next exchange; keys compared with the server side's exporter values; plus a leg compiled into the service's own package (overlay build) that checks what timeservice.go hands to the key-exchange fetchers of its IP and SCION clients",
         "Every fault class is enumerated over every position of a conformant message; verdict per stream derived from the statement (must fail / must succeed / either); state after failures observed through connection counts and tagged cookies.",
         "IP-literal server records only; TLS library and exporter trusted; warning records and non-canonical record lengths are judged only for crash-freedom and, if accepted, for the rest of the stream", "3/C20"),
 "C05": ("exploration", "runtime monitor of the real IP and SCION clients against a scripted loopback peer that answers each request with a script of crafted datagrams, each tagged by a distinct huge clock offset so that the returned offset identifies the datagram it was computed from",
         "Every single-field mutation of a genuine reply (and NTS / SCION addressing defects) alone and in random scripts before a genuine terminator; acceptance judged by a predicate taken from the statement; a floor on genuine-only successes guards against 'rejects everything'.",
         "loopback; datagrams from the queried address but another port and sub-nanosecond transmit/receive inversions are not judged; SPAO is C13's subject", "3/C05"),
 "C11": ("fault_enumeration", "runtime monitor on the wire: the real NTS client under exhaustively enumerated loss patterns against a scripted NTS-KE + NTS peer that parses every request and tracks the pool level; and the monitor as NTS client of the real listeners (child process) using every cookie it is handed",
         "All loss patterns up to length 7 (quick) / 10 (thorough), drains to an empty pool with re-keying, long random patterns; every request's cookie tag, field types, placeholder count and length checked; server replies checked for size, authentication, cookie count, freshness and later acceptance.",
         "124-byte cookies (the project's size); a lost exchange is a withheld response; cookie validity under server keys observed by spending the cookies, not by opening them", "3/C11"),
 "C13": ("exploration", "runtime monitor on real sockets: SCION requests with independently computed packet authenticators (scion library spao) against the real listeners and dispatcher in child processes, with the project's mock DRKey for the byte-level cases and with real DRKey fetching from a scripted SCION daemon (gRPC) for key binding; the real authenticated SCION client against a scripted peer and against the real listener; forwarding observed on application sockets",
         "Authenticated requests served iff the MAC is intact over definitely covered bytes; replies checked for server SPI, a verifying MAC, exchanged addressing, library path reversal, intact SCMP payload; forwarding exactly on the end-host port and never to it; bad MACs never accepted by the client. With real key fetching: served iff signed under the host-to-host key of exactly the packet's ISD-ASes, hosts and epoch, for every order of identities (level-2 key cache); real client and listener agree on the key.",
         "a scripted daemon instead of a control plane (keys are a deterministic function of identity and epoch, derived with the scion library's generic derivation); hand-built paths", "3/C13"),
 "C15": ("exploration", "runtime monitors: crypto.Sample/RandIntn with crypto/rand.Reader replaced by a scripted word source (structure, rejection threshold, chi-square uniformity, full 2^32-word enumeration for n=3 in thorough), and rounds of the real MeasureClockOffsetSCION observed on the wire by per-path scripted servers, race detector on; plus a leg compiled into the service's own package (go test -c -overlay, nothing written to the repository) that asserts the wiring of a SCION reference clock: seven clients, each with a filter of its own",
         "Client->path relation per round reconstructed from the requests each path's server received (clients told apart by DSCP): injective, within the offer, sticky for interleaved clients, reset on withdrawal; result compared with the fault-tolerant midpoint of the participants' known offsets.",
         "hand-built paths and scripted servers instead of a SCION network; uniformity is statistical (p ~ 1e-9) plus exhaustive only for n=3; race reports are observations (O1), the property does not claim race freedom", "3/C15"),
 "C03": ("exploration", "runtime monitor of the real IP and SCION clients (basic and interleaved) against scripted loopback servers with per-exchange clock offsets, delays, loss, duplicates, stale replays and server switching; a spy filter exposes the four timestamps combined, kernel timestamps and the peer's clock readings share one machine clock; plus a leg with the repository's own request handler and store behind a scripted listener (duplicate of an interleaved request after its receive timestamp was issued again: known finding K2) and a leg with a coarse client clock (readings repeat within an exchange), late kernel transmit timestamps (failpoint), every response duplicated and the server clock stepped after every exchange",
         "For every successful measurement the four timestamps are attributed to one recorded exchange, bracketed by causality against the server's readings and the next request, and the offset is compared with that exchange's true offset within half the round-trip delay; interleaved requests are checked on the wire for reference and age.",
         "loopback, software kernel timestamps; client clock in NTP era 0 (the mirror era case is C04's); tolerance of a few ns for NTP-timestamp truncation", "3/C03"),
}

NOT_APPLICABLE = {
}

def main():
    hooks_commits = []
    try:
        out = subprocess.run(["git", "-C", "/repo", "log", "--format=%H %s"], capture_output=True, text=True).stdout
        for line in out.splitlines():
            h, _, s = line.partition(" ")
            if s.startswith("verif-hook:"):
                hooks_commits.append(h)
    except Exception:
        pass
    props = [json.loads(l)["id"] for l in open(os.path.join(ROOT, "properties.jsonl"))]
    checks = []
    for pid in props:
        if pid not in CHECKS:
            continue
        level, tech, text, note, ref = CHECKS[pid]
        checks.append({
            "property_id": pid,
            "quick_cmd": f"./check {pid} quick",
            "thorough_cmd": f"./check {pid} thorough",
            "evidence_file": f"/verif/evidence/{pid}.json",
            "replay_cmd_template": "./check --replay {path}",
            "engine": "mon",
            "level_claimed": {"category": level, "text": text, "design_ref": "DESIGN.md " + ref},
            "level_note": note,
            "technique": tech,
        })
    na = [{"property_id": p, "reason": NOT_APPLICABLE.get(p, "monitor not built yet in this round (runtime monitoring applies; see DESIGN.md section 3)")}
          for p in props if p not in CHECKS]
    m = {
        "version": 1,
        "setup_cmd": "./check --build",
        "hooks": {
            "guard": "verif",
            "enable": "go build -tags verif (the harness module replaces example.com/scion-time by /repo, so /repo's working tree is recompiled on every check)",
            "baseline_off_cmd": "cd /repo && GOFLAGS=-mod=mod go test -vet=off -count=1 -timeout 25m ./...",
            "source_commits": hooks_commits,
            "add_only": True,
        },
        "engines": [{"name": "mon", "path": "/verif/harness", "serves_properties": [c["property_id"] for c in checks],
                     "kind_free_text": "Go monitor driver (runtime monitors, scripted peers, child-process targets, race detector, synctest virtual time, porcupine)"}],
        "checks": checks,
        "notes": "Technique family: runtime monitoring and sanitizers. Exit 0 held / 1 VIOLATION / 2 INCONCLUSIVE. Known findings in /verif/known_findings.json.",
        "not_applicable": na,
    }
    json.dump(m, open(os.path.join(ROOT, "MANIFEST.json"), "w"), indent=1)
    print("checks:", [c["property_id"] for c in checks], "not claimed:", [x["property_id"] for x in na])

main()
