package adjustments

// Audit round 2, property C19, finding d1.
// Place in core/sync/adjustments/ and run:
//   go test ./core/sync/adjustments/ -run TestC19StepNotExactForMinInt64 -count=1 -v

import (
	"io"
	"log/slog"
	"math"
	"testing"
	"time"
)

type d1Clk struct {
	epoch uint64
	now   time.Time
	steps []time.Duration
}

func (c *d1Clk) Epoch() uint64                          { return c.epoch }
func (c *d1Clk) Now() time.Time                         { return c.now }
func (c *d1Clk) Drift(time.Duration) time.Duration      { return 0 }
func (c *d1Clk) Sleep(time.Duration)                    {}
func (c *d1Clk) Adjust(_, _ time.Duration, _ float64)   {}
func (c *d1Clk) Step(o time.Duration)                   { c.steps = append(c.steps, o); c.epoch++ }

func TestC19StepNotExactForMinInt64(t *testing.T) {
	log := slog.New(slog.NewTextHandler(io.Discard, nil))
	for _, off := range []time.Duration{math.MaxInt64, math.MinInt64 + 1, math.MinInt64} {
		c := &d1Clk{now: time.Unix(1_000_000_000, 0).UTC()}
		l := NewPLL(log, c)
		l.Do(off, 10) // mode 0 -> 1
		c.now = c.now.Add(3 * time.Second)
		l.Do(off, 10) // awaiting step: > 2 s, weight > 3, |offset| > 1 ms
		if len(c.steps) != 1 {
			t.Fatalf("offset %d: expected exactly one step, got %v", off, c.steps)
		}
		if c.steps[0] != off {
			t.Errorf("measured offset %d ns, clock stepped by %d ns (difference %d ns)",
				off, c.steps[0], int64(c.steps[0])-int64(off))
		} else {
			t.Logf("offset %d: stepped exactly", off)
		}
	}
}
