package adjustments

// Audit round 2, property C19, side observation (NOT a violation of the C19 statement).
// Place in core/sync/adjustments/ and run:
//   go test ./core/sync/adjustments/ -run TestC19ObsStiffeningCollapse -count=1 -v

import (
	"io"
	"log/slog"
	"testing"
	"time"
)

type obsClk struct {
	now  time.Time
	offs []time.Duration
}

func (c *obsClk) Epoch() uint64                        { return 0 }
func (c *obsClk) Now() time.Time                       { return c.now }
func (c *obsClk) Drift(time.Duration) time.Duration    { return 0 }
func (c *obsClk) Sleep(time.Duration)                  {}
func (c *obsClk) Step(time.Duration)                   {}
func (c *obsClk) Adjust(o, _ time.Duration, _ float64) { c.offs = append(c.offs, o) }

func TestC19ObsStiffeningCollapse(t *testing.T) {
	log := slog.New(slog.NewTextHandler(io.Discard, nil))
	c := &obsClk{now: time.Unix(1_000_000_000, 0).UTC()}
	l := NewPLL(log, c)
	tick := func(dt, off time.Duration) { c.now = c.now.Add(dt); l.Do(off, 200) }
	tick(0, 0)
	tick(3*time.Second, 0) // no step needed
	tick(7*time.Second, 0) // -> tracking
	for i := 0; i < 400; i++ { // > captureTime (300 s) of regular updates
		tick(time.Second, 0)
	}
	t.Logf("after 400 s of 1 s updates: a=%g b=%g (pLimit is 0.03)", l.a, l.b)
	tick(8*time.Hour, 0) // one gap, e.g. all servers unreachable over night
	t.Logf("after one 8 h gap:           a=%g b=%g", l.a, l.b)
	iBefore := l.i
	for i := 0; i < 1000; i++ {
		tick(time.Second, 10*time.Millisecond) // clock is 10 ms off, best weight
	}
	t.Logf("1000 updates with offset 10 ms: last slew request %v, integrator moved by %g", c.offs[len(c.offs)-1], l.i-iBefore)
	if l.a < 0.03/2 {
		t.Errorf("proportional gain %g fell far below its limit 0.03 and can never recover (only an epoch change resets it); the loop no longer corrects a 10 ms offset", l.a)
	}
}
