package client_test

// C16 / d2: a SCION reference clock is itself a collector (one measurement per
// path, MeasureClockOffsetSCION) nested in the round's collector
// (ReferenceClockClient.MeasureClockOffsets), and both wait on the same context.
// As soon as one of the clock's paths stays silent, the inner collector returns
// at the round's deadline and the clock's result - the fault-tolerant midpoint
// of the paths that answered within a millisecond - reaches the outer collector
// just after it has given up. On an idle multi-core machine the clock is counted
// in no round at all; under load it is a race between two timers set to the same
// instant (the socket's read deadline and the context's), and some rounds get it.

import (
	"context"
	"io"
	"log/slog"
	"net"
	"sync"
	"testing"
	"time"

	"github.com/scionproto/scion/pkg/addr"
	"github.com/scionproto/scion/pkg/snet"
	"github.com/scionproto/scion/pkg/snet/path"

	"example.com/scion-time/core/client"
	"example.com/scion-time/core/measurements"
	"example.com/scion-time/core/server"
	"example.com/scion-time/core/timebase"
	"example.com/scion-time/net/ntske"
	"example.com/scion-time/net/udp"
)

type d2Clock struct{}

func (d2Clock) Epoch() uint64                                { return 0 }
func (d2Clock) Now() time.Time                               { return time.Now() }
func (d2Clock) Drift(d time.Duration) time.Duration          { return d / 10000 }
func (d2Clock) Step(time.Duration)                           {}
func (d2Clock) Adjust(time.Duration, time.Duration, float64) {}
func (d2Clock) Sleep(d time.Duration)                        { time.Sleep(d) }

func d2RegisterClock() {
	defer func() { _ = recover() }() // another test file of the package may have done it
	timebase.RegisterClock(d2Clock{})
}

// scionRefClk is timeservice.go's ntpReferenceClockSCION with the paths given
// instead of taken from the pather.
type scionRefClk struct {
	log        *slog.Logger
	ntpcs      []*client.SCIONClient
	localAddr  udp.UDPAddr
	remoteAddr udp.UDPAddr
	paths      []snet.Path

	mu      sync.Mutex
	lastOff time.Duration
	lastErr error
	lastDur time.Duration
}

func (c *scionRefClk) MeasureClockOffset(ctx context.Context) (time.Time, time.Duration, error) {
	ps := append([]snet.Path(nil), c.paths...) // what Pather.Paths hands out: a copy
	t0 := time.Now()
	ts, off, err := client.MeasureClockOffsetSCION(ctx, c.log, c.ntpcs, c.localAddr, c.remoteAddr, ps)
	c.mu.Lock()
	c.lastOff, c.lastErr, c.lastDur = off, err, time.Since(t0)
	c.mu.Unlock()
	return ts, off, err
}

func newSCIONRefClk(log *slog.Logger, n int, localAddr, remoteAddr udp.UDPAddr, ps []snet.Path) *scionRefClk {
	c := &scionRefClk{log: log, localAddr: localAddr, remoteAddr: remoteAddr, paths: ps}
	for range n {
		ntpc := &client.SCIONClient{Log: log, InterleavedMode: true}
		ntpc.Filter = client.NewNtimedFilter(log)
		c.ntpcs = append(c.ntpcs, ntpc)
	}
	return c
}

func TestC16SCIONClockWithOneSilentPathIsNeverCounted(t *testing.T) {
	d2RegisterClock()
	log := slog.New(slog.NewTextHandler(io.Discard, nil))
	ctx := context.Background()

	ip := net.IPv4(127, 0, 16, 2)

	// a free port for the server
	l, err := net.ListenUDP("udp", &net.UDPAddr{IP: ip})
	if err != nil {
		t.Fatal(err)
	}
	srvPort := l.LocalAddr().(*net.UDPAddr).Port
	l.Close()
	server.StartSCIONServer(ctx, log, "" /* no daemon */, &net.UDPAddr{IP: ip, Port: srvPort},
		0 /* DSCP */, ntske.NewProvider())

	// a next hop that swallows everything: a path on which packets get lost
	hole, err := net.ListenUDP("udp", &net.UDPAddr{IP: ip})
	if err != nil {
		t.Fatal(err)
	}
	defer hole.Close()

	ia := addr.MustParseIA("1-ff00:0:110")
	localAddr := udp.UDPAddr{IA: ia, Host: &net.UDPAddr{IP: ip}}
	remoteAddr := udp.UDPAddr{IA: ia, Host: &net.UDPAddr{IP: ip, Port: srvPort}}
	good := func() snet.Path {
		return path.Path{Src: ia, Dst: ia, DataplanePath: path.Empty{},
			NextHop: &net.UDPAddr{IP: ip, Port: srvPort}}
	}
	silent := path.Path{Src: ia, Dst: ia, DataplanePath: path.Empty{},
		NextHop: hole.LocalAddr().(*net.UDPAddr)}

	const (
		syncTimeout  = 500 * time.Millisecond // service default
		syncInterval = 1000 * time.Millisecond
		rounds       = 10
	)

	run := func(name string, clk *scionRefClk) (counted int) {
		refclks := []client.ReferenceClock{clk}
		ms := make([]measurements.Measurement, 1)
		var rcc client.ReferenceClockClient
		for r := 1; r <= rounds; r++ {
			ctx, cancel := context.WithTimeout(context.Background(), syncTimeout)
			t0 := time.Now()
			n := rcc.MeasureClockOffsets(ctx, refclks, ms)
			d := time.Since(t0)
			time.Sleep(syncInterval - d) // the clock's call has long returned by now
			cancel()
			clk.mu.Lock()
			t.Logf("%s round %d: collector returned %d result(s) after %v; "+
				"the clock's own call returned (off=%v, err=%v) after %v",
				name, r, n, d.Round(time.Millisecond), clk.lastOff, clk.lastErr,
				clk.lastDur.Round(100*time.Microsecond))
			clk.mu.Unlock()
			counted += n
		}
		return counted
	}

	// control: 3 clients, 3 working paths
	ctl := run("control   (3 paths answer)         ",
		newSCIONRefClk(log, 3, localAddr, remoteAddr, []snet.Path{good(), good(), good()}))
	if ctl != rounds {
		t.Fatalf("control: clock counted in %d of %d rounds (test set-up broken?)", ctl, rounds)
	}

	// 3 clients, 2 working paths and one on which nothing comes back
	clk := newSCIONRefClk(log, 3, localAddr, remoteAddr, []snet.Path{good(), good(), silent})
	got := run("experiment (2 answer, 1 is silent)", clk)
	clk.mu.Lock()
	defer clk.mu.Unlock()
	if got < rounds && clk.lastErr == nil {
		t.Errorf("C16 violated: with one silent path out of three the clock measured an offset in every round "+
			"(two answers within a millisecond, combined without error) but was counted in only %d of %d rounds: "+
			"its call returns at the deadline the nested collector shares with the round, and whether the result "+
			"still gets through is a race between the socket's deadline timer and the context's timer "+
			"(0 of %d on an idle machine)", got, rounds, rounds)
	}
}
