package sync

// C16 / d3: core/sync hands its collector to measureOffsetToRefClks by value.
// ReferenceClockClient's "one collection at a time" guard is a counter inside
// the struct, so every call checks and sets the counter of a fresh copy: a
// second collection started through the same collector variable while the first
// is in progress is not refused.

import (
	"context"
	"testing"
	"time"

	"example.com/scion-time/core/client"
	"example.com/scion-time/core/measurements"
)

type slowClock struct {
	started chan struct{}
	release chan struct{}
}

func (c *slowClock) MeasureClockOffset(ctx context.Context) (time.Time, time.Duration, error) {
	c.started <- struct{}{}
	<-c.release
	return time.Now(), 0, nil
}

func refused(f func()) (r any) {
	defer func() { r = recover() }()
	f()
	return nil
}

func TestC16SecondCollectionOnSameCollectorIsNotRefused(t *testing.T) {
	clk := &slowClock{started: make(chan struct{}, 2), release: make(chan struct{})}
	refClks := []client.ReferenceClock{clk}

	// control: the collector itself refuses
	{
		var c client.ReferenceClockClient
		done := make(chan struct{})
		go func() {
			defer close(done)
			ctx, cancel := context.WithTimeout(context.Background(), 2*time.Second)
			defer cancel()
			c.MeasureClockOffsets(ctx, refClks, make([]measurements.Measurement, 1))
		}()
		<-clk.started // first collection is in progress
		r := refused(func() {
			c.MeasureClockOffsets(context.Background(), refClks, make([]measurements.Measurement, 1))
		})
		t.Logf("ReferenceClockClient.MeasureClockOffsets, second call while first in progress: %v", r)
		if r == nil {
			t.Fatal("control: second collection on the collector itself was not refused")
		}
		clk.release <- struct{}{}
		<-done
	}

	// core/sync: same collector variable, same result slice, two overlapping rounds
	var c client.ReferenceClockClient
	offs := make([]measurements.Measurement, 1)
	done := make(chan struct{})
	go func() {
		defer close(done)
		measureOffsetToRefClks(c, refClks, offs, 2*time.Second)
	}()
	<-clk.started // first collection is in progress
	secondStarted := false
	r := refused(func() {
		go func() {
			<-clk.started // the second collection has called the clock as well
			secondStarted = true
			clk.release <- struct{}{}
			clk.release <- struct{}{}
		}()
		measureOffsetToRefClks(c, refClks, offs, 2*time.Second)
	})
	<-done
	t.Logf("sync.measureOffsetToRefClks, second call while first in progress: recovered %v, "+
		"second collection ran: %v", r, secondStarted)
	if r == nil && secondStarted {
		t.Errorf("C16 violated: a second collection on the same collector (and into the same result slice) " +
			"was started while the first was in progress and was not refused: " +
			"measureOffsetToRefClks takes client.ReferenceClockClient by value, " +
			"the guard counts on a copy")
	}
}
