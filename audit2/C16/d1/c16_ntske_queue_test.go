package client_test

// C16 / d1: a reference clock whose NTS key-exchange server stalls (TCP
// connection accepted or SYN dropped, no TLS handshake) makes every round leave
// a measurement goroutine and a UDP socket behind, and they pile up faster than
// they go away: Fetcher.FetchData serialises the key exchanges behind a mutex,
// dialTLS ignores the round's context (5 s dial/handshake timeout of its own),
// and the callers queued on the mutex start yet another 5 s exchange with their
// long-expired context when their turn comes.

import (
	"context"
	"crypto/tls"
	"io"
	"log/slog"
	"net"
	"os"
	"runtime"
	"strconv"
	"testing"
	"time"

	"example.com/scion-time/core/client"
	"example.com/scion-time/core/measurements"
	"example.com/scion-time/core/timebase"
)

type d1Clock struct{}

func (d1Clock) Epoch() uint64                                { return 0 }
func (d1Clock) Now() time.Time                               { return time.Now() }
func (d1Clock) Drift(d time.Duration) time.Duration          { return d / 10000 }
func (d1Clock) Step(time.Duration)                           {}
func (d1Clock) Adjust(time.Duration, time.Duration, float64) {}
func (d1Clock) Sleep(d time.Duration)                        { time.Sleep(d) }

func d1RegisterClock() {
	defer func() { _ = recover() }() // another test file of the package may have done it
	timebase.RegisterClock(d1Clock{})
}

type ipRefClk struct {
	log   *slog.Logger
	ntpc  *client.IPClient
	laddr *net.UDPAddr
	raddr *net.UDPAddr
}

func (c *ipRefClk) MeasureClockOffset(ctx context.Context) (time.Time, time.Duration, error) {
	return client.MeasureClockOffsetIP(ctx, c.log, c.ntpc, c.laddr, c.raddr)
}

func numFDs(t *testing.T) int {
	es, err := os.ReadDir("/proc/self/fd")
	if err != nil {
		t.Fatal(err)
	}
	return len(es)
}

// the service's default sync_timeout and sync_interval (timeservice.go:syncConfig)
func TestC16StalledKeyExchangePilesUp(t *testing.T) {
	stalledKeyExchange(t, 500*time.Millisecond, 1000*time.Millisecond, 40)
}

func stalledKeyExchange(t *testing.T, syncTimeout, syncInterval time.Duration, rounds int) {
	d1RegisterClock()
	log := slog.New(slog.NewTextHandler(io.Discard, nil))

	// NTS-KE "server": accepts TCP connections and never says a word.
	ln, err := net.Listen("tcp", "127.0.0.1:0")
	if err != nil {
		t.Fatal(err)
	}
	defer ln.Close()
	go func() {
		for {
			c, err := ln.Accept()
			if err != nil {
				return
			}
			go func(c net.Conn) { // silent; closed when the client gives up
				_, _ = io.Copy(io.Discard, c)
				_ = c.Close()
			}(c)
		}
	}()
	kePort := ln.Addr().(*net.TCPAddr).Port

	// the clock is wired exactly as timeservice.go:newNTPReferenceClockIP does
	c := &ipRefClk{
		log:   log,
		laddr: &net.UDPAddr{IP: net.IPv4(127, 0, 0, 1)},
		raddr: &net.UDPAddr{IP: net.IPv4(127, 0, 0, 1), Port: 123},
	}
	c.ntpc = &client.IPClient{Log: log, InterleavedMode: true}
	c.ntpc.Filter = client.NewNtimedFilter(log)
	c.ntpc.Auth.Enabled = true
	c.ntpc.Auth.NTSKEFetcher.TLSConfig = tls.Config{
		NextProtos:         []string{"ntske/1"},
		InsecureSkipVerify: true,
		ServerName:         "127.0.0.1",
		MinVersion:         tls.VersionTLS13,
	}
	c.ntpc.Auth.NTSKEFetcher.Port = strconv.Itoa(kePort)
	c.ntpc.Auth.NTSKEFetcher.Log = log

	refclks := []client.ReferenceClock{c}
	ms := make([]measurements.Measurement, 1)
	var rcc client.ReferenceClockClient

	g0, fd0 := runtime.NumGoroutine(), numFDs(t)
	t.Logf("before: %d goroutines, %d fds", g0, fd0)
	start := time.Now()
	var gH, fdH int
	for r := 1; r <= rounds; r++ {
		ctx, cancel := context.WithTimeout(context.Background(), syncTimeout)
		t0 := time.Now()
		n := rcc.MeasureClockOffsets(ctx, refclks, ms)
		d := time.Since(t0)
		cancel()
		if n != 0 {
			t.Fatalf("round %d: unexpected result", r)
		}
		if d > syncTimeout+200*time.Millisecond {
			t.Fatalf("round %d returned after %v", r, d)
		}
		time.Sleep(syncInterval - d)
		if r == rounds/2 {
			gH, fdH = runtime.NumGoroutine()-g0, numFDs(t)-fd0
		}
		if r%10 == 0 {
			t.Logf("after round %2d (%4.1fs): +%d goroutines, +%d fds", r,
				time.Since(start).Seconds(), runtime.NumGoroutine()-g0, numFDs(t)-fd0)
		}
	}
	gN, fdN := runtime.NumGoroutine()-g0, numFDs(t)-fd0

	// Every measurement call of the rounds above is given another 3 s after
	// the last round. They are still there.
	time.Sleep(3 * time.Second)
	gL, fdL := runtime.NumGoroutine()-g0, numFDs(t)-fd0
	t.Logf("3s after the last round: +%d goroutines, +%d fds", gL, fdL)

	// In the second half of the run (20 s to 40 s: every call of the first
	// seconds has had the 3 x 5 s its three attempts can take) the numbers still
	// grow by one measurement goroutine, one drain goroutine of the collector
	// waiting for it and one UDP socket per round: nothing goes away.
	if gN-gH >= rounds/2*3/2 && fdN-fdH >= rounds/2*3/4 && gL >= gN-2 {
		t.Errorf("C16 violated: %d rounds left %d goroutines and %d file descriptors behind "+
			"(%d and %d at half time: still growing by one call and one socket per round); "+
			"3 s later %d goroutines and %d descriptors are still there",
			rounds, gN, fdN, gH, fdH, gL, fdL)
	} else {
		t.Logf("not reproduced: +%d goroutines, +%d fds at half time, +%d, +%d at the end", gH, fdH, gN, fdN)
	}
}
