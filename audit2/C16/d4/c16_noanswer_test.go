package sync

// C16 / d4: a round in which none of the reference clocks answered is counted
// by Run as a measurement "offset 0" of the reference clocks: refClkOk depends
// only on reference clocks being configured, not on the number of results the
// collector returned. With peers configured, the invented 0 is averaged with
// what the peers measured.

import (
	"context"
	"errors"
	"io"
	"log/slog"
	"testing"
	"time"

	"example.com/scion-time/core/client"
)

type testClk struct{ wake chan struct{} }

func (testClk) Epoch() uint64                                { return 0 }
func (testClk) Now() time.Time                               { return time.Now() }
func (testClk) Drift(d time.Duration) time.Duration          { return d / 10 } // no clamping in this test
func (testClk) Step(time.Duration)                           {}
func (testClk) Adjust(time.Duration, time.Duration, float64) {}
func (c testClk) Sleep(time.Duration)                        { <-c.wake } // next round on demand

type recAdj struct{ corr chan time.Duration }

func (a recAdj) Do(corr time.Duration) { a.corr <- corr }

type fixedClock struct {
	off time.Duration
	err error
}

func (c fixedClock) MeasureClockOffset(context.Context) (time.Time, time.Duration, error) {
	if c.err != nil {
		return time.Time{}, 0, c.err
	}
	return time.Now(), c.off, nil
}

func TestC16RoundWithoutAnyAnswerCountsAsOffsetZero(t *testing.T) {
	log := slog.New(slog.NewTextHandler(io.Discard, nil))
	cfg := Config{
		ReferenceClockImpact: 1.25,
		PeerClockImpact:      2.5,
		PeerClockCutoff:      50 * time.Microsecond,
		SyncTimeout:          100 * time.Millisecond,
		SyncInterval:         time.Second,
	}
	clk := testClk{wake: make(chan struct{})}
	adj := recAdj{corr: make(chan time.Duration)}

	// the only reference clock fails in every round; the only peer says we are 20 ms off
	// (with the local clock's 0 next to it the peers' combined offset is 10 ms)
	refClks := []client.ReferenceClock{fixedClock{err: errors.New("receiver lost its signal")}}
	peerClks := []client.ReferenceClock{fixedClock{off: 20 * time.Millisecond}}

	go Run(log, cfg, clk, adj, refClks, peerClks) // never returns; registers its gauge once
	var corr time.Duration
	for r := 1; r <= 3; r++ {
		corr = <-adj.corr
		t.Logf("round %d: correction %v (no reference clock answered, peers measured 10ms)", r, corr)
		if r != 3 {
			clk.wake <- struct{}{}
		}
	}
	if corr != 10*time.Millisecond {
		t.Errorf("C16 violated: no reference clock result was collected in the round, yet the round's "+
			"correction is %v instead of the peers' 10ms: the empty collection was counted as a "+
			"reference measurement of offset 0", corr)
	}
}
