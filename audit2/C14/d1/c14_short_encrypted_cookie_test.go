package nts_test

// C14: NTS response round trip loses encrypted cookie fields shorter than 28 bytes.
//
// Place in net/nts/ and run:
//   go test ./net/nts/ -run TestC14ShortEncryptedCookies -v

import (
	"bytes"
	"testing"

	"example.com/scion-time/net/nts"
	"example.com/scion-time/net/ntske"
)

func respRoundTrip(t *testing.T, cookies [][]byte) [][]byte {
	t.Helper()
	key := bytes.Repeat([]byte{0x42}, 32)
	uid := bytes.Repeat([]byte{0x17}, 32)

	pkt := nts.NewResponsePacket(cookies, key, uid)
	buf := make([]byte, 48)
	nts.EncodePacket(&buf, &pkt)

	var dec nts.Packet
	if err := nts.DecodePacket(&dec, buf); err != nil {
		t.Fatalf("DecodePacket: %v", err)
	}
	var f ntske.Fetcher
	if err := nts.ProcessResponse(buf, key, &f, &dec, uid); err != nil {
		t.Fatalf("ProcessResponse: %v", err)
	}
	var got [][]byte
	for _, c := range dec.Cookies {
		got = append(got, c.Cookie)
	}
	return got
}

func mkCookies(n, l int) [][]byte {
	var cs [][]byte
	for i := 0; i < n; i++ {
		cs = append(cs, bytes.Repeat([]byte{byte(0xa0 + i)}, l))
	}
	return cs
}

func TestC14ShortEncryptedCookies(t *testing.T) {
	failed := false
	// 4-byte aligned cookie lengths only, so that no padding is involved.
	for _, l := range []int{8, 16, 20, 24, 28, 124} {
		for _, n := range []int{1, 2, 8} {
			in := mkCookies(n, l)
			out := respRoundTrip(t, in)
			ok := len(in) == len(out)
			for i := 0; ok && i < len(in); i++ {
				ok = bytes.Equal(in[i], out[i])
			}
			if !ok {
				failed = true
				t.Errorf("cookie length %3d: encoded %d cookies, decoded %d", l, len(in), len(out))
			} else {
				t.Logf("cookie length %3d: encoded %d cookies, decoded %d (ok)", l, len(in), len(out))
			}
		}
	}
	if failed {
		t.Log("encrypted cookie fields in the last 27 bytes of the authenticator's plaintext are not decoded")
	}
}

// The same cookie values survive the request direction (unencrypted cookie
// field followed by the authenticator), i.e. they are values the codec accepts.
func TestC14ShortCookieRequestDirection(t *testing.T) {
	for _, l := range []int{8, 16, 20} {
		d := ntske.Data{C2sKey: bytes.Repeat([]byte{1}, 32), Cookie: mkCookies(8, l)}
		pkt, _ := nts.NewRequestPacket(d)
		buf := make([]byte, 48)
		nts.EncodePacket(&buf, &pkt)
		var dec nts.Packet
		if err := nts.DecodePacket(&dec, buf); err != nil {
			t.Fatalf("DecodePacket: %v", err)
		}
		c, err := dec.FirstCookie()
		if err != nil || !bytes.Equal(c, d.Cookie[0]) {
			t.Errorf("request direction, cookie length %d: not decoded (%v)", l, err)
		}
	}
}
