package nts_test

// C14: NewResponsePacket sizes the authenticator's plaintext from the unpadded
// length of the first cookie; cookies whose length is not a multiple of four
// (or that are longer than the first) are cut off or make it panic.
//
// Place in net/nts/ and run:
//   go test ./net/nts/ -run TestC14ResponseCookie -v

import (
	"bytes"
	"fmt"
	"testing"

	"example.com/scion-time/net/nts"
	"example.com/scion-time/net/ntske"
)

func respRoundTrip2(cookies [][]byte) (got [][]byte, err error) {
	defer func() {
		if r := recover(); r != nil {
			err = fmt.Errorf("panic: %v", r)
		}
	}()
	key := bytes.Repeat([]byte{0x42}, 32)
	uid := bytes.Repeat([]byte{0x17}, 32)

	pkt := nts.NewResponsePacket(cookies, key, uid)
	buf := make([]byte, 48)
	nts.EncodePacket(&buf, &pkt)

	var dec nts.Packet
	if err := nts.DecodePacket(&dec, buf); err != nil {
		return nil, err
	}
	var f ntske.Fetcher
	if err := nts.ProcessResponse(buf, key, &f, &dec, uid); err != nil {
		return nil, err
	}
	for _, c := range dec.Cookies {
		got = append(got, c.Cookie)
	}
	return got, nil
}

func mkCookies2(n, l int) [][]byte {
	var cs [][]byte
	for i := 0; i < n; i++ {
		cs = append(cs, bytes.Repeat([]byte{byte(0xa0 + i)}, l))
	}
	return cs
}

// a decoded cookie is the encoded one plus zero padding to a multiple of four
func sameUpToPadding(in, out []byte) bool {
	if len(out) != (len(in)+3)&^3 || !bytes.Equal(out[:len(in)], in) {
		return false
	}
	return bytes.Equal(out[len(in):], make([]byte, len(out)-len(in)))
}

func check(t *testing.T, name string, in [][]byte) {
	t.Helper()
	if n := nts.ResponseCookieCapacity(32, len(in[0])); len(in) > n {
		t.Fatalf("%s: test error, only %d cookies fit", name, n)
	}
	out, err := respRoundTrip2(in)
	if err != nil {
		t.Errorf("%s: %v", name, err)
		return
	}
	if len(out) != len(in) {
		t.Errorf("%s: encoded %d cookies, decoded %d", name, len(in), len(out))
		return
	}
	for i := range in {
		if !sameUpToPadding(in[i], out[i]) {
			t.Errorf("%s: cookie %d differs:\n  in  %x\n  out %x", name, i, in[i], out[i])
		}
	}
}

func TestC14ResponseCookiePadding(t *testing.T) {
	check(t, "8 x 124 (control)", mkCookies2(8, 124))
	check(t, "8 x 101", mkCookies2(8, 101))
	check(t, "8 x 122", mkCookies2(8, 122))
	check(t, "2 x 30", mkCookies2(2, 30))
	check(t, "8 x 33", mkCookies2(8, 33))
	check(t, "first 100, then 7 x 124", append(mkCookies2(1, 100), mkCookies2(7, 124)...))
}

// The request direction pads the same cookie values correctly.
func TestC14ResponseCookiePaddingRequestControl(t *testing.T) {
	for _, l := range []int{101, 122, 33} {
		d := ntske.Data{C2sKey: bytes.Repeat([]byte{1}, 32), Cookie: mkCookies2(1, l)}
		pkt, _ := nts.NewRequestPacket(d)
		buf := make([]byte, 48)
		nts.EncodePacket(&buf, &pkt)
		var dec nts.Packet
		if err := nts.DecodePacket(&dec, buf); err != nil {
			t.Fatalf("DecodePacket: %v", err)
		}
		c, err := dec.FirstCookie()
		if err != nil || !sameUpToPadding(d.Cookie[0], c) || len(dec.CookiePlaceholders) != 7 {
			t.Errorf("request direction, cookie length %d: not decoded (%v)", l, err)
		}
	}
}
