package csptp_test

// C18 audit round 2, d1: MeanPathDelay adds the two one-way terms before
// halving. Their sum is twice the delay and wraps around for a symmetric delay
// of 2^62 ns and more, although the delay itself and both one-way terms fit
// into int64 nanoseconds. It is the sibling of the ClockOffset defect repaired
// by 93d087d; that commit left MeanPathDelay as it was.

import (
	"testing"
	"time"

	"example.com/scion-time/net/csptp"
)

func TestC18MeanPathDelayOverflow(t *testing.T) {
	cases := []struct {
		name          string
		offset, delay time.Duration
		c1, c3        time.Duration
	}{
		{"offset 0, delay 2^62", 0, 1 << 62, 0, 0},
		{"offset 0, delay 2^62 + 12345, corrections 1us/2us", 0, 1<<62 + 12345, 1000, 2000},
		{"offset +1h, delay 2^62 + 1", time.Hour, 1<<62 + 1, 0, 0},
		{"offset -1h, delay 150 years", -time.Hour, 150 * 365 * 24 * time.Hour, 0, 0},
		// negative "delay": both terms negative, sum wraps the other way
		{"offset 0, delay -(2^62) - 1", 0, -(1 << 62) - 1, 0, 0},
	}
	for _, tc := range cases {
		// client clock C, server clock S = C + offset
		t0 := time.Unix(1<<33, 0).UTC()                   // client tx (client clock)
		t1 := t0.Add(tc.offset).Add(tc.delay).Add(tc.c1)  // server rx (server clock), incl. residence time c1
		t2 := t1.Add(time.Millisecond)                    // server tx (server clock)
		t3 := t2.Add(-tc.offset).Add(tc.delay).Add(tc.c3) // client rx (client clock), incl. residence time c3
		x := t1.Sub(t0) - tc.c1
		y := t3.Sub(t2) - tc.c3
		if x != tc.offset+tc.delay || y != tc.delay-tc.offset {
			t.Fatalf("%s: test set-up is wrong: the one-way terms %d, %d do not fit", tc.name, x, y)
		}
		if got := csptp.ClockOffset(t0, t1, t2, t3, tc.c1, tc.c3); got != tc.offset {
			t.Errorf("%s: ClockOffset = %d, want %d", tc.name, got, tc.offset)
		}
		if got := csptp.MeanPathDelay(t0, t1, t2, t3, tc.c1, tc.c3); got != tc.delay {
			t.Errorf("%s: MeanPathDelay = %d (%v), want %d (%v); one-way terms %d and %d both fit into int64",
				tc.name, got, got, tc.delay, tc.delay, x, y)
		}
	}
}
