package clocks_test

// C18 audit round 2, d3: SystemClock.Drift (and timemath.Duration, through
// which it and the configuration values go) converts seconds -> nanoseconds by
// TRUNCATING the float64 product. The product of two exactly known quantities
// (whole ns/s drift, whole-second interval) is frequently a hair below the
// integer and comes out 1 ns short, so that Drift is not proportional to the
// interval. Drift() only reads a field; the kernel is not touched.

import (
	"strconv"
	"testing"
	"time"

	"example.com/scion-time/base/timemath"
	"example.com/scion-time/driver/clocks"
)

func TestC18DriftProportional(t *testing.T) {
	for _, tc := range []struct {
		drift    time.Duration // per second
		interval time.Duration
		want     time.Duration
	}{
		{3 * time.Nanosecond, 5 * time.Second, 15 * time.Nanosecond},
		{3 * time.Nanosecond, 10 * time.Second, 30 * time.Nanosecond},
		{11 * time.Microsecond, 5 * time.Second, 55 * time.Microsecond},
		{11 * time.Microsecond, 10 * time.Second, 110 * time.Microsecond},
		{35 * time.Microsecond, 3 * time.Second, 105 * time.Microsecond},
	} {
		c := clocks.NewSystemClock(nil, tc.drift)
		unit := c.Drift(time.Second)
		if unit != tc.drift {
			t.Errorf("drift %v/s: Drift(1s) = %v", tc.drift, unit)
		}
		got := c.Drift(tc.interval)
		n := int64(tc.interval / time.Second)
		if got != tc.want || int64(got) != n*int64(unit) {
			t.Errorf("drift %v/s: Drift(%v) = %dns, want %dns = %d x Drift(1s)",
				tc.drift, tc.interval, got, tc.want, n)
		}
	}
	// not even proportional to itself: Drift(10s) != 2 x Drift(5s)
	c := clocks.NewSystemClock(nil, 3*time.Nanosecond)
	if a, b := c.Drift(5*time.Second), c.Drift(10*time.Second); b != 2*a {
		t.Errorf("drift 3ns/s: Drift(5s) = %dns but Drift(10s) = %dns", a, b)
	}
}

func TestC18DriftSweep(t *testing.T) {
	bad, total := 0, 0
	for k := int64(1); k <= 2000; k++ { // drift in ns/s
		c := clocks.NewSystemClock(nil, time.Duration(k))
		for n := int64(1); n <= 200; n++ { // interval in s
			total++
			if int64(c.Drift(time.Duration(n)*time.Second)) != k*n {
				bad++
			}
		}
	}
	if bad != 0 {
		t.Errorf("%d of %d (drift in whole ns/s, interval in whole s) combinations are 1 ns short", bad, total)
	}
}

// The same truncation on the way in: the value of clock_drift (seconds, as a
// decimal number in the configuration file) goes through timemath.Duration in
// timeservice.go:clockDrift.
func TestC18ConfigValueTruncated(t *testing.T) {
	for _, s := range []string{"0.000065", "0.00013", "0.000000015", "15e-9"} {
		f, err := strconv.ParseFloat(s, 64)
		if err != nil {
			t.Fatal(err)
		}
		wantNs := int64(f*1e9 + 0.5) // nearest nanosecond
		if got := timemath.Duration(f); int64(got) != wantNs {
			t.Errorf("timemath.Duration(%s) = %dns, want %dns", s, got, wantNs)
		}
	}
}
