package csptp_test

// C18 audit round 2, d2: ClockOffset, MeanPathDelay, C2SDelay and S2CDelay take
// the raw timestamp differences with time.Time.Sub, which does not wrap but
// SATURATES at +-(2^63-1) ns, and subtract the correction afterwards. When the
// raw difference t1-t0 (= offset + delay + correction) is beyond the range but
// the corrected one-way term (offset + delay) is inside, the result is off by
// the part that was cut off. The overflow test added by 93d087d works on the
// already saturated terms and does not see it.

import (
	"math"
	"testing"
	"time"

	"example.com/scion-time/net/csptp"
)

func TestC18SubSaturation(t *testing.T) {
	t0 := time.Unix(1790000000, 0).UTC()          // client tx, client clock (2026)
	offset := time.Duration(math.MaxInt64 - 1000) // server is ~292 years ahead
	delay := 400 * time.Nanosecond                // symmetric one-way delay
	c1 := time.Hour                               // correction of the request (fits into a correction field: < 2^47 ns)
	c3 := time.Duration(0)
	t1 := t0.Add(offset).Add(delay).Add(c1) // server rx, server clock
	t2 := t1.Add(time.Millisecond)          // server tx, server clock
	// client rx, client clock: t2 - offset + delay + c3 (written without the huge intermediate)
	t3 := t0.Add(delay).Add(c1).Add(time.Millisecond).Add(delay).Add(c3)

	// every quantity of the model fits into int64 nanoseconds
	_ = offset + delay // = MaxInt64 - 600
	_ = delay - offset

	// t1 and t2 are ordinary 48-bit CSPTP timestamps
	if !csptp.TimeFromTimestamp(csptp.TimestampFromTime(t1)).Equal(t1) ||
		!csptp.TimeFromTimestamp(csptp.TimestampFromTime(t2)).Equal(t2) {
		t.Fatal("timestamps do not round-trip")
	}
	// and c1 is what DurationFromTimeInterval yields for a valid correction field
	if csptp.DurationFromTimeInterval(int64(c1)<<16) != c1 {
		t.Fatal("correction does not round-trip")
	}

	if got := csptp.ClockOffset(t0, t1, t2, t3, c1, c3); got != offset {
		t.Errorf("ClockOffset = %d, want %d (off by %v)", got, offset, offset-got)
	}
	if got := csptp.MeanPathDelay(t0, t1, t2, t3, c1, c3); got != delay {
		t.Errorf("MeanPathDelay = %v, want %v", got, delay)
	}
	if got := csptp.C2SDelay(t0, t1, c1, 0); got != offset+delay {
		t.Errorf("C2SDelay = %d, want %d (off by %v)", got, offset+delay, offset+delay-got)
	}

	// mirror image on the way back: client ~292 years ahead of the server
	offset = -offset
	c1, c3 = 0, time.Hour
	t1 = t0.Add(offset).Add(delay).Add(c1)
	t2 = t1.Add(time.Millisecond)
	t3 = t0.Add(delay).Add(c1).Add(time.Millisecond).Add(delay).Add(c3)
	if got := csptp.ClockOffset(t0, t1, t2, t3, c1, c3); got != offset {
		t.Errorf("mirror: ClockOffset = %d, want %d (off by %v)", got, offset, offset-got)
	}
	if got := csptp.MeanPathDelay(t0, t1, t2, t3, c1, c3); got != delay {
		t.Errorf("mirror: MeanPathDelay = %v, want %v", got, delay)
	}
	if got := csptp.S2CDelay(t2, t3, c3, 0); got != delay-offset {
		t.Errorf("mirror: S2CDelay = %d, want %d (off by %v)", got, delay-offset, delay-offset-got)
	}
}
