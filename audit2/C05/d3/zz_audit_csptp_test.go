//go:build verif

package client

import (
	"context"
	"net"
	"net/netip"
	"sync"
	"testing"
	"time"

	"example.com/scion-time/net/csptp"
	"example.com/scion-time/net/ntp"
	"example.com/scion-time/net/udp"
)

// a minimal CSPTP server on addr:319 and addr:320 whose clock is the system clock
func auditCSPTPServer(t *testing.T, addr netip.Addr) {
	e, err := net.ListenUDP("udp", net.UDPAddrFromAddrPort(netip.AddrPortFrom(addr, csptp.EventPortIP)))
	if err != nil {
		t.Skipf("cannot listen on the PTP event port: %v", err)
	}
	g, err := net.ListenUDP("udp", net.UDPAddrFromAddrPort(netip.AddrPortFrom(addr, csptp.GeneralPortIP)))
	if err != nil {
		t.Skipf("cannot listen on the PTP general port: %v", err)
	}
	t.Cleanup(func() { e.Close(); g.Close() })
	var mu sync.Mutex
	syncRx := map[netip.AddrPort]time.Time{}
	go func() {
		buf := make([]byte, 256)
		for {
			_, from, err := e.ReadFromUDPAddrPort(buf)
			if err != nil {
				return
			}
			mu.Lock()
			syncRx[from] = time.Now().UTC()
			mu.Unlock()
		}
	}()
	go func() {
		buf := make([]byte, 256)
		for {
			n, from, err := g.ReadFromUDPAddrPort(buf)
			if err != nil {
				return
			}
			var req csptp.Message
			if n < csptp.MinMessageLength || csptp.DecodeMessage(&req, buf[:csptp.MinMessageLength]) != nil {
				continue
			}
			// the Sync message is handled by the other goroutine: wait for it
			var rx time.Time
			var ok bool
			for i := 0; i < 100 && !ok; i++ {
				mu.Lock()
				rx, ok = syncRx[from]
				delete(syncRx, from)
				mu.Unlock()
				if !ok {
					time.Sleep(time.Millisecond)
				}
			}
			if !ok {
				continue
			}
			msg := csptp.Message{
				SdoIDMessageType: csptp.MessageTypeSync, PTPVersion: csptp.PTPVersion,
				MessageLength: csptp.MinMessageLength, FlagField: csptp.FlagTwoStep | csptp.FlagUnicast,
				SourcePortIdentity: csptp.PortID{ClockID: 1, Port: 1}, SequenceID: req.SequenceID,
				ControlField: csptp.ControlSync, LogMessageInterval: csptp.LogMessageInterval,
			}
			b := make([]byte, csptp.MinMessageLength)
			csptp.EncodeMessage(b, &msg)
			tx := time.Now().UTC()
			e.WriteToUDPAddrPort(b, from)

			msg.SdoIDMessageType = csptp.MessageTypeFollowUp
			msg.FlagField = csptp.FlagUnicast
			msg.ControlField = csptp.ControlFollowUp
			msg.Timestamp = csptp.TimestampFromTime(tx)
			tlv := csptp.ResponseTLV{
				Type: csptp.TLVTypeOrganizationExtension,
				OrganizationID: [3]uint8{csptp.OrganizationIDMeinberg0,
					csptp.OrganizationIDMeinberg1, csptp.OrganizationIDMeinberg2},
				OrganizationSubType: [3]uint8{csptp.OrganizationSubTypeResponse0,
					csptp.OrganizationSubTypeResponse1, csptp.OrganizationSubTypeResponse2},
				FlagField:               csptp.TLVFlagServerStateDS,
				RequestIngressTimestamp: csptp.TimestampFromTime(rx),
			}
			msg.MessageLength += uint16(csptp.EncodedResponseTLVLength(&tlv))
			tlv.Length = uint16(csptp.EncodedResponseTLVLength(&tlv))
			b = make([]byte, msg.MessageLength)
			csptp.EncodeMessage(b[:csptp.MinMessageLength], &msg)
			csptp.EncodeResponseTLV(b[csptp.MinMessageLength:], &tlv)
			g.WriteToUDPAddrPort(b, from)
		}
	}()
}

// Client and server read the same clock, so the true offset is zero. With the
// kernel transmit timestamp of the request missing (late), the NTP client falls
// back on a reading taken before the request left (fix 60c5915/37279f7); the
// CSPTP client still takes a reading after ReadTXTimestamp has given up.
func TestAuditCSPTPLateTXTimestamp(t *testing.T) {
	auditInit()
	srv := netip.MustParseAddr("127.5.5.5")
	auditCSPTPServer(t, srv)
	ntpSrv := auditServe(t, func(conn *net.UDPConn, req []byte, from netip.AddrPort, rx time.Time) {
		r := auditBasicResponse(req, rx)
		var b []byte
		ntp.EncodePacket(&b, &r)
		conn.WriteToUDPAddrPort(b, from)
	})

	measureCSPTP := func(late bool) time.Duration {
		c := &CSPTPClientIP{Log: auditLog()}
		ctx, cancel := context.WithTimeout(context.Background(), time.Second)
		defer cancel()
		if late {
			udp.VerifLateTXTimestamps(1)
		}
		_, off, err := c.MeasureClockOffset(ctx, netip.MustParseAddr("127.0.0.1"), srv)
		udp.VerifLateTXTimestamps(0)
		if err != nil {
			t.Fatalf("CSPTP measurement failed: %v", err)
		}
		return off
	}
	measureNTP := func(late bool) time.Duration {
		c := &IPClient{Log: auditLog()}
		ctx, cancel := context.WithTimeout(context.Background(), time.Second)
		defer cancel()
		if late {
			udp.VerifLateTXTimestamps(1)
		}
		_, off, err := c.measureClockOffsetIP(ctx, ipMetrics.Load(), &net.UDPAddr{IP: net.IPv4(127, 0, 0, 1)}, ntpSrv)
		udp.VerifLateTXTimestamps(0)
		if err != nil {
			t.Fatalf("NTP measurement failed: %v", err)
		}
		return off
	}
	const tolerance = 300 * time.Microsecond
	for i := 0; i < 5; i++ {
		n0, n1 := measureNTP(false), measureNTP(true)
		c0, c1 := measureCSPTP(false), measureCSPTP(true)
		t.Logf("NTP offset: %v, with late tx timestamp %v; CSPTP offset: %v, with late tx timestamp %v", n0, n1, c0, c1)
		if n0.Abs() > tolerance || n1.Abs() > tolerance || c0.Abs() > tolerance {
			t.Logf("noisy run")
		}
		if c1.Abs() > tolerance {
			t.Errorf("CSPTP client, kernel tx timestamp late: offset %v reported for a server on the same clock", c1)
		}
	}
}
