package client

import (
	"log/slog"
	"net"
	"net/netip"
	"os"
	"sync"
	"testing"
	"time"

	"example.com/scion-time/core/timebase"
	"example.com/scion-time/net/ntp"
)

type auditClock struct{}

func (auditClock) Epoch() uint64                        { return 0 }
func (auditClock) Now() time.Time                       { return time.Now().UTC() }
func (auditClock) Drift(time.Duration) time.Duration    { return 0 }
func (auditClock) Step(time.Duration)                   {}
func (auditClock) Adjust(_, _ time.Duration, _ float64) {}
func (auditClock) Sleep(d time.Duration)                { time.Sleep(d) }

var auditOnce sync.Once

func auditInit() {
	auditOnce.Do(func() { timebase.RegisterClock(auditClock{}) })
}

func auditLog() *slog.Logger {
	return slog.New(slog.NewTextHandler(os.Stderr, &slog.HandlerOptions{Level: slog.LevelDebug}))
}

// fake server: handler gets the request and the socket
func auditServe(t *testing.T, handler func(conn *net.UDPConn, req []byte, from netip.AddrPort, rx time.Time)) *net.UDPAddr {
	conn, err := net.ListenUDP("udp", &net.UDPAddr{IP: net.IPv4(127, 0, 0, 1)})
	if err != nil {
		t.Fatal(err)
	}
	t.Cleanup(func() { conn.Close() })
	go func() {
		buf := make([]byte, 2048)
		for {
			n, from, err := conn.ReadFromUDPAddrPort(buf)
			if err != nil {
				return
			}
			rx := time.Now().UTC()
			req := append([]byte(nil), buf[:n]...)
			handler(conn, req, from, rx)
		}
	}()
	return conn.LocalAddr().(*net.UDPAddr)
}

func auditBasicResponse(req []byte, rx time.Time) ntp.Packet {
	var q ntp.Packet
	_ = ntp.DecodePacket(&q, req)
	var r ntp.Packet
	r.SetVersion(4)
	r.SetMode(ntp.ModeServer)
	r.Stratum = 1
	r.OriginTime = q.TransmitTime
	r.ReceiveTime = ntp.Time64FromTime(rx)
	r.TransmitTime = ntp.Time64FromTime(time.Now().UTC())
	return r
}
