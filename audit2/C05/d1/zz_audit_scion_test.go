package client

import (
	"context"
	"net"
	"net/netip"
	"testing"
	"time"

	"github.com/google/gopacket"
	"github.com/scionproto/scion/pkg/addr"
	"github.com/scionproto/scion/pkg/slayers"
	spath "github.com/scionproto/scion/pkg/snet/path"

	"example.com/scion-time/net/ntp"
	"example.com/scion-time/net/udp"
)

// auditSCIONReply builds a SCION/UDP reply to the SCION request req, then lets
// mutate alter the layers before serialization.
func auditSCIONReply(t *testing.T, req []byte, rx time.Time,
	mutate func(s *slayers.SCION, u *slayers.UDP, p *ntp.Packet)) []byte {
	var (
		s   slayers.SCION
		hbh slayers.HopByHopExtnSkipper
		e2e slayers.EndToEndExtn
		u   slayers.UDP
	)
	parser := gopacket.NewDecodingLayerParser(slayers.LayerTypeSCION, &s, &hbh, &e2e, &u)
	parser.IgnoreUnsupported = true
	decoded := make([]gopacket.LayerType, 4)
	if err := parser.DecodeLayers(req, &decoded); err != nil {
		t.Errorf("fake server: %v", err)
		return nil
	}
	r := auditBasicResponse(u.Payload, rx)

	var rs slayers.SCION
	rs.Version = s.Version
	rs.FlowID = 1
	rs.SrcIA, rs.DstIA = s.DstIA, s.SrcIA
	rs.SrcAddrType, rs.DstAddrType = s.DstAddrType, s.SrcAddrType
	rs.RawSrcAddr = append([]byte(nil), s.RawDstAddr...)
	rs.RawDstAddr = append([]byte(nil), s.RawSrcAddr...)
	rs.PathType = s.PathType
	rs.Path = s.Path // empty path
	rs.NextHdr = slayers.L4UDP
	var ru slayers.UDP
	ru.SrcPort, ru.DstPort = u.DstPort, u.SrcPort
	if mutate != nil {
		mutate(&rs, &ru, &r)
	}
	ru.SetNetworkLayerForChecksum(&rs)
	var pld []byte
	ntp.EncodePacket(&pld, &r)
	buffer := gopacket.NewSerializeBuffer()
	opts := gopacket.SerializeOptions{ComputeChecksums: true, FixLengths: true}
	if err := gopacket.Payload(pld).SerializeTo(buffer, opts); err != nil {
		t.Error(err)
	}
	if err := ru.SerializeTo(buffer, opts); err != nil {
		t.Error(err)
	}
	if err := rs.SerializeTo(buffer, opts); err != nil {
		t.Error(err)
	}
	return append([]byte(nil), buffer.Bytes()...)
}

func TestAuditSCIONSrcAddrTypeSVC(t *testing.T) {
	auditInit()
	ia := addr.MustParseIA("1-ff00:0:110")
	for _, tc := range []struct {
		name   string
		mutate func(s *slayers.SCION, u *slayers.UDP, p *ntp.Packet)
	}{
		{"genuine", nil},
		{"src host address of type SVC", func(s *slayers.SCION, u *slayers.UDP, p *ntp.Packet) {
			s.SrcAddrType = slayers.T4Svc
		}},
		{"dst host address of type SVC", func(s *slayers.SCION, u *slayers.UDP, p *ntp.Packet) {
			s.DstAddrType = slayers.T4Svc
		}},
	} {
		t.Run(tc.name, func(t *testing.T) {
			raddr := auditServe(t, func(conn *net.UDPConn, req []byte, from netip.AddrPort, rx time.Time) {
				b := auditSCIONReply(t, req, rx, tc.mutate)
				conn.WriteToUDPAddrPort(b, from)
			})
			c := &SCIONClient{Log: auditLog(), InterleavedMode: true}
			ctx, cancel := context.WithTimeout(context.Background(), 300*time.Millisecond)
			defer cancel()
			local := udp.UDPAddr{IA: ia, Host: &net.UDPAddr{IP: net.IPv4(127, 0, 0, 1)}}
			remote := udp.UDPAddr{IA: ia, Host: raddr}
			p := spath.Path{Src: ia, Dst: ia, DataplanePath: spath.Empty{}, NextHop: raddr}
			ts, off, err := c.measureClockOffsetSCION(ctx, scionMetrics.Load(), local, remote, p)
			t.Logf("ts=%v off=%v err=%v", ts, off, err)
			if tc.mutate != nil && err == nil {
				t.Errorf("%s: response accepted, offset %v reported", tc.name, off)
			}
		})
	}
}
