package client

import (
	"context"
	"net"
	"net/netip"
	"testing"
	"time"

	"example.com/scion-time/net/ntp"
)

// The queried server 127.0.0.1:P never answers. Another socket on the same
// host, 127.0.0.1:Q, sends a well-formed response; the client reports an offset.
func TestAuditIPResponseFromOtherPort(t *testing.T) {
	auditInit()
	other, err := net.ListenUDP("udp", &net.UDPAddr{IP: net.IPv4(127, 0, 0, 1)})
	if err != nil {
		t.Fatal(err)
	}
	defer other.Close()
	raddr := auditServe(t, func(conn *net.UDPConn, req []byte, from netip.AddrPort, rx time.Time) {
		r := auditBasicResponse(req, rx)
		// a server whose clock is one hour ahead
		r.ReceiveTime = ntp.Time64FromTime(rx.Add(time.Hour))
		r.TransmitTime = ntp.Time64FromTime(time.Now().UTC().Add(time.Hour))
		var b []byte
		ntp.EncodePacket(&b, &r)
		other.WriteToUDPAddrPort(b, from) // not from the queried socket
	})
	if other.LocalAddr().(*net.UDPAddr).Port == raddr.Port {
		t.Fatal("ports must differ")
	}
	c := &IPClient{Log: auditLog()}
	ctx, cancel := context.WithTimeout(context.Background(), 300*time.Millisecond)
	defer cancel()
	ts, off, err := c.measureClockOffsetIP(ctx, ipMetrics.Load(), &net.UDPAddr{IP: net.IPv4(127, 0, 0, 1)}, raddr)
	t.Logf("queried %v, response sent from %v: ts=%v off=%v err=%v", raddr, other.LocalAddr(), ts, off, err)
	if err == nil {
		t.Errorf("offset %v reported on the basis of a datagram from %v; the queried server is %v",
			off, other.LocalAddr(), raddr)
	}
}
