package main

// C15 / d2: `timeservice tool` over SCION never gives up on a lost response.
//
// Place in the repository root (package main) and run
//   go test . -run TestC15D2 -count=1 -v
//
// runToolSCION calls MeasureClockOffsetSCION with context.Background(): the
// per-path measurement sets no socket deadline and collectMeasurements has no
// ctx.Done() to wake up on, so one lost datagram blocks the tool forever.
// runToolIP, its sibling, bounds every measurement by 1 s.

import (
	"net"
	"testing"
	"time"

	"github.com/scionproto/scion/pkg/addr"
	"github.com/scionproto/scion/pkg/snet"
)

func TestC15D2ToolSCIONHangsOnLostResponse(t *testing.T) {
	// a "server" that receives the request and never answers
	sink, err := net.ListenUDP("udp", &net.UDPAddr{IP: net.IPv4(127, 0, 0, 1)})
	if err != nil {
		t.Fatal(err)
	}
	defer sink.Close()
	got := make(chan struct{}, 16)
	go func() {
		buf := make([]byte, 2048)
		for {
			_, _, err := sink.ReadFromUDP(buf)
			if err != nil {
				return
			}
			got <- struct{}{}
		}
	}()

	ia := addr.MustParseIA("1-ff00:0:111")
	local := &snet.UDPAddr{IA: ia, Host: &net.UDPAddr{IP: net.IPv4(127, 0, 0, 1).To4()}}
	remote := &snet.UDPAddr{IA: ia, Host: &net.UDPAddr{IP: net.IPv4(127, 0, 0, 1).To4(),
		Port: sink.LocalAddr().(*net.UDPAddr).Port}}

	done := make(chan struct{})
	go func() {
		// same AS: no daemon needed, the only path is the empty path
		runToolSCION("" /* daemon */, dispatcherModeExternal, local, remote, 0, /* dscp */
			nil /* auth modes */, "" /* ntske server */, false)
		close(done)
	}()

	select {
	case <-got:
	case <-time.After(5 * time.Second):
		t.Fatal("request never arrived")
	}
	select {
	case <-done:
		t.Log("runToolSCION returned")
	case <-time.After(10 * time.Second):
		t.Errorf("runToolSCION still blocked 10 s after its request was received and not answered " +
			"(runToolIP gives up after 1 s)")
	}
}
