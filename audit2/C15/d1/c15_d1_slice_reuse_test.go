package client

// C15 / d1: MeasureClockOffsetSCION writes into the caller's path slice.
//
// Place in core/client/ and run
//   go test ./core/client/ -run TestC15D1 -count=1 -v
//
// The test does what benchmark/client_scion.go does (look the paths up once,
// then call MeasureClockOffsetSCION in a loop with the same slice), and then
// the same with two clients.

import (
	"context"
	"log/slog"
	"net"
	"sync"
	"testing"
	"time"

	"github.com/scionproto/scion/pkg/addr"
	"github.com/scionproto/scion/pkg/segment/iface"
	"github.com/scionproto/scion/pkg/snet"
	spath "github.com/scionproto/scion/pkg/snet/path"

	"example.com/scion-time/core/server"
	"example.com/scion-time/core/timebase"
	"example.com/scion-time/net/ntske"
	"example.com/scion-time/net/udp"
)

type d1Clock struct{}

func (d1Clock) Epoch() uint64                                { return 0 }
func (d1Clock) Now() time.Time                               { return time.Now().UTC() }
func (d1Clock) Drift(time.Duration) time.Duration            { return 0 }
func (d1Clock) Step(time.Duration)                           {}
func (d1Clock) Adjust(time.Duration, time.Duration, float64) {}
func (d1Clock) Sleep(d time.Duration)                        { time.Sleep(d) }

const d1SrvPort = 10323

var (
	d1Once sync.Once
	d1IA   = addr.MustParseIA("1-ff00:0:111")
)

func d1Start() {
	d1Once.Do(func() {
		timebase.RegisterClock(d1Clock{})
		server.StartSCIONServer(context.Background(), slog.New(slog.DiscardHandler), "",
			&net.UDPAddr{IP: net.IPv4(127, 0, 0, 1).To4(), Port: d1SrvPort}, 0, ntske.NewProvider())
		time.Sleep(100 * time.Millisecond)
	})
}

// a path to the server on loopback; the interface list only serves to give
// every path a fingerprint of its own
func d1Path(id int) snet.Path {
	return spath.Path{
		Src:           d1IA,
		Dst:           d1IA,
		DataplanePath: spath.Empty{},
		NextHop:       &net.UDPAddr{IP: net.IPv4(127, 0, 0, 1).To4(), Port: d1SrvPort},
		Meta: snet.PathMetadata{
			Interfaces: []snet.PathInterface{
				{IA: d1IA, ID: iface.ID(1000 + id)},
				{IA: d1IA, ID: iface.ID(2000 + id)},
			},
		},
	}
}

type d1Handler struct {
	mu   *sync.Mutex
	vias *[]string
}

func (h d1Handler) Enabled(context.Context, slog.Level) bool { return true }
func (h d1Handler) Handle(_ context.Context, r slog.Record) error {
	if r.Message != "evaluated response" {
		return nil
	}
	r.Attrs(func(a slog.Attr) bool {
		if a.Key == "via" {
			h.mu.Lock()
			*h.vias = append(*h.vias, a.Value.String())
			h.mu.Unlock()
		}
		return true
	})
	return nil
}
func (h d1Handler) WithAttrs([]slog.Attr) slog.Handler { return h }
func (h d1Handler) WithGroup(string) slog.Handler      { return h }

func d1Fingerprints(ps []snet.Path) []string {
	var fs []string
	for _, p := range ps {
		fs = append(fs, snet.Fingerprint(p).String()[:8])
	}
	return fs
}

// One client, the slice of offered paths is reused from call to call, as in
// benchmark/client_scion.go.
func TestC15D1OneClient(t *testing.T) {
	d1Start()
	const numPaths = 4
	const numRounds = 200
	ps := make([]snet.Path, numPaths)
	name := map[string]int{}
	for i := range ps {
		ps[i] = d1Path(i)
		name[snet.Fingerprint(ps[i]).String()] = i
	}
	t.Logf("offered before: %v", d1Fingerprints(ps))

	var mu sync.Mutex
	var vias []string
	c := &SCIONClient{Log: slog.New(d1Handler{&mu, &vias})}
	laddr := udp.UDPAddr{IA: d1IA, Host: &net.UDPAddr{IP: net.IPv4(127, 0, 0, 1).To4()}}
	raddr := udp.UDPAddr{IA: d1IA, Host: &net.UDPAddr{IP: net.IPv4(127, 0, 0, 1).To4(), Port: d1SrvPort}}

	for range numRounds {
		ctx, cancel := context.WithTimeout(context.Background(), time.Second)
		_, _, err := MeasureClockOffsetSCION(ctx, slog.New(slog.DiscardHandler),
			[]*SCIONClient{c}, laddr, raddr, ps)
		cancel()
		if err != nil {
			t.Fatalf("unexpected error: %v", err)
		}
	}
	t.Logf("offered after:  %v", d1Fingerprints(ps))

	hist := make([]int, numPaths)
	firstUse := make([]int, numPaths)
	lastUse := make([]int, numPaths)
	for i := range firstUse {
		firstUse[i], lastUse[i] = -1, -1
	}
	for r, v := range vias {
		i := name[v]
		hist[i]++
		if firstUse[i] == -1 {
			firstUse[i] = r
		}
		lastUse[i] = r
	}
	t.Logf("rounds in which path i was probed: %v (last round it was probed: %v)", hist, lastUse)

	left := map[string]bool{}
	for _, p := range ps {
		left[snet.Fingerprint(p).String()] = true
	}
	if len(left) != numPaths {
		t.Errorf("the caller offered %d distinct paths in every call; after %d calls its slice holds %d distinct paths",
			numPaths, numRounds, len(left))
	}
	for i, n := range hist {
		// uniform: 50 of 200, standard deviation 6.1
		if n < 20 || n > 80 {
			t.Errorf("path %d probed in %d of %d rounds, expected about %d", i, n, numRounds, numRounds/numPaths)
		}
	}
}

// Two clients, same calling pattern: a later round hands the same path to
// both clients.
func TestC15D1TwoClients(t *testing.T) {
	d1Start()
	const numPaths = 3
	ps := make([]snet.Path, numPaths)
	for i := range ps {
		ps[i] = d1Path(100 + i)
	}
	var mu sync.Mutex
	var vias [2][]string
	cs := []*SCIONClient{
		{Log: slog.New(d1Handler{&mu, &vias[0]})},
		{Log: slog.New(d1Handler{&mu, &vias[1]})},
	}
	laddr := udp.UDPAddr{IA: d1IA, Host: &net.UDPAddr{IP: net.IPv4(127, 0, 0, 1).To4()}}
	raddr := udp.UDPAddr{IA: d1IA, Host: &net.UDPAddr{IP: net.IPv4(127, 0, 0, 1).To4(), Port: d1SrvPort}}
	for round := range 50 {
		vias[0], vias[1] = nil, nil
		ctx, cancel := context.WithTimeout(context.Background(), time.Second)
		_, _, err := MeasureClockOffsetSCION(ctx, slog.New(slog.DiscardHandler), cs, laddr, raddr, ps)
		cancel()
		if err != nil {
			t.Fatalf("unexpected error: %v", err)
		}
		mu.Lock()
		if len(vias[0]) == 1 && len(vias[1]) == 1 && vias[0][0] == vias[1][0] {
			t.Errorf("round %d: both clients probed over path %s; caller's slice is now %v",
				round, vias[0][0][:8], d1Fingerprints(ps))
			mu.Unlock()
			return
		}
		mu.Unlock()
	}
}
