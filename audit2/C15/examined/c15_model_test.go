package client

import (
	"context"
	"fmt"
	"log/slog"
	"math/rand"
	"net"
	"sync"
	"testing"
	"time"

	"github.com/scionproto/scion/pkg/addr"
	"github.com/scionproto/scion/pkg/segment/iface"
	"github.com/scionproto/scion/pkg/snet"
	spath "github.com/scionproto/scion/pkg/snet/path"

	"example.com/scion-time/core/server"
	"example.com/scion-time/core/timebase"
	"example.com/scion-time/net/ntske"
	"example.com/scion-time/net/udp"
)

type fakeClock struct{}

func (fakeClock) Epoch() uint64                              { return 0 }
func (fakeClock) Now() time.Time                             { return time.Now().UTC() }
func (fakeClock) Drift(d time.Duration) time.Duration        { return 0 }
func (fakeClock) Step(time.Duration)                         {}
func (fakeClock) Adjust(time.Duration, time.Duration, float64) {}
func (fakeClock) Sleep(d time.Duration)                      { time.Sleep(d) }

var harnessOnce sync.Once

const srvPort = 10123

func startHarness() {
	harnessOnce.Do(func() {
		timebase.RegisterClock(fakeClock{})
		log := slog.New(slog.DiscardHandler)
		server.StartSCIONServer(context.Background(), log, "",
			&net.UDPAddr{IP: net.IPv4(127, 0, 0, 1).To4(), Port: srvPort}, 0, ntske.NewProvider())
		time.Sleep(100 * time.Millisecond)
	})
}

type cntFilter struct {
	resets int
	dos    int
}

func (f *cntFilter) Do(t0, t1, t2, t3 time.Time) time.Duration {
	f.dos++
	return (t1.Sub(t0) + t2.Sub(t3)) / 2
}
func (f *cntFilter) Reset() { f.resets++ }

// per-client log handler
type recHandler struct {
	mu   *sync.Mutex
	recs *[]map[string]any
}

func (h recHandler) Enabled(context.Context, slog.Level) bool { return true }
func (h recHandler) Handle(_ context.Context, r slog.Record) error {
	m := map[string]any{"msg": r.Message}
	r.Attrs(func(a slog.Attr) bool {
		m[a.Key] = a.Value.Any()
		return true
	})
	h.mu.Lock()
	*h.recs = append(*h.recs, m)
	h.mu.Unlock()
	return nil
}
func (h recHandler) WithAttrs([]slog.Attr) slog.Handler { return h }
func (h recHandler) WithGroup(string) slog.Handler      { return h }

var ia = addr.MustParseIA("1-ff00:0:111")

func mkPath(id int) snet.Path {
	return spath.Path{
		Src:           ia,
		Dst:           ia,
		DataplanePath: spath.Empty{},
		NextHop:       &net.UDPAddr{IP: net.IPv4(127, 0, 0, 1).To4(), Port: srvPort},
		Meta: snet.PathMetadata{
			Interfaces: []snet.PathInterface{
				{IA: ia, ID: iface.ID(1)},
				{IA: ia, ID: iface.ID(2)},
			}[:0:0],
		},
	}
}

func mkPathFP(id int) snet.Path {
	p := mkPath(id).(spath.Path)
	p.Meta.Interfaces = []snet.PathInterface{
		{IA: ia, ID: iface.ID(1000 + id)},
		{IA: ia, ID: iface.ID(2000 + id)},
	}
	return p
}

func TestC15Model(t *testing.T) {
	startHarness()
	rng := rand.New(rand.NewSource(1))
	nKeep, nRounds := 0, 0
	for trial := 0; trial < 300; trial++ {
		K := 1 + rng.Intn(5)
		M := 1 + rng.Intn(7)
		universe := make([]snet.Path, M)
		for i := range universe {
			universe[i] = mkPathFP(trial*100 + i)
		}
		cs := make([]*SCIONClient, K)
		fs := make([]*cntFilter, K)
		logs := make([][]map[string]any, K)
		var mu sync.Mutex
		for i := range cs {
			fs[i] = &cntFilter{}
			cs[i] = &SCIONClient{
				Log:             slog.New(recHandler{mu: &mu, recs: &logs[i]}),
				InterleavedMode: rng.Intn(4) != 0,
				Filter:          fs[i],
			}
		}
		laddr := udp.UDPAddr{IA: ia, Host: &net.UDPAddr{IP: net.IPv4(127, 0, 0, 1).To4()}}
		raddr := udp.UDPAddr{IA: ia, Host: &net.UDPAddr{IP: net.IPv4(127, 0, 0, 1).To4(), Port: srvPort}}
		for round := 0; round < 6; round++ {
			// offered subset
			var ps []snet.Path
			for _, p := range universe {
				if rng.Intn(3) != 0 {
					ps = append(ps, p)
				}
			}
			rng.Shuffle(len(ps), func(i, j int) { ps[i], ps[j] = ps[j], ps[i] })
			offered := map[string]bool{}
			for _, p := range ps {
				offered[snet.Fingerprint(p).String()] = true
			}
			type pre struct {
				in     bool
				pf     string
				resets int
				path   string
			}
			pres := make([]pre, K)
			claimed := map[string]bool{}
			expectKeep := make([]bool, K)
			for i, c := range cs {
				pres[i] = pre{c.InInterleavedMode(), c.InterleavedModePath(), fs[i].resets, c.prev.path}
				if pres[i].in && offered[pres[i].pf] && !claimed[pres[i].pf] {
					claimed[pres[i].pf] = true
					expectKeep[i] = true
					nKeep++
				}
				mu.Lock()
				logs[i] = nil
				mu.Unlock()
			}
			nRounds++
			ctx, cancel := context.WithTimeout(context.Background(), 2*time.Second)
			_, _, err := MeasureClockOffsetSCION(ctx, slog.New(slog.DiscardHandler), cs, laddr, raddr,
				append([]snet.Path(nil), ps...))
			cancel()
			if len(ps) == 0 {
				if err == nil {
					t.Fatalf("trial %d round %d: no path but no error", trial, round)
				}
			} else if err != nil {
				t.Fatalf("trial %d round %d: unexpected error %v", trial, round, err)
			}
			used := map[string]int{}
			part := 0
			mu.Lock()
			for i := range cs {
				vias := map[string]bool{}
				firstInterleavedReq := false
				_ = firstInterleavedReq
				for _, r := range logs[i] {
					if r["msg"] == "evaluated response" {
						vias[r["via"].(string)] = true
					}
				}
				if len(vias) > 1 {
					t.Fatalf("trial %d round %d client %d used several paths: %v", trial, round, i, vias)
				}
				if len(vias) == 1 {
					part++
					for v := range vias {
						used[v]++
						if !offered[v] {
							t.Fatalf("client %d used path not offered", i)
						}
						if expectKeep[i] && v != pres[i].pf {
							t.Fatalf("trial %d round %d client %d in interleaved mode did not keep path", trial, round, i)
						}
					}
				}
				if expectKeep[i] {
					if fs[i].resets != pres[i].resets {
						t.Fatalf("trial %d round %d client %d kept path but filter reset", trial, round, i)
					}
					// first evaluated response must be interleaved
					for _, r := range logs[i] {
						if r["msg"] == "evaluated response" {
							if r["interleaved"] != true {
								t.Errorf("trial %d round %d client %d kept path but first response not interleaved", trial, round, i)
							}
							break
						}
					}
				} else {
					if fs[i].resets != pres[i].resets+1 {
						t.Fatalf("trial %d round %d client %d not kept but filter resets %d -> %d", trial, round, i, pres[i].resets, fs[i].resets)
					}
				}
			}
			mu.Unlock()
			for v, n := range used {
				if n > 1 {
					t.Fatalf("trial %d round %d: path %s used by %d clients", trial, round, v, n)
				}
			}
			want := min(K, len(ps))
			if part != want {
				t.Fatalf("trial %d round %d: %d participants, want %d (K=%d, paths=%d)", trial, round, part, want, K, len(ps))
			}
		}
	}
	fmt.Println("model ok", nKeep, nRounds)
}
