package sync

// C01 audit round 2, finding d1: the midpoint of the two BOUNDED contributions
// (timemath.Midpoint in sync.Run) overflows int64 when the two bounds add up to
// more than 2^63 ns; the correction handed to the clock discipline then exceeds
// both bounds and has the wrong sign.

import (
	"context"
	"io"
	"log/slog"
	"math"
	"testing"
	"time"

	"github.com/prometheus/client_golang/prometheus"

	"example.com/scion-time/core/client"
)

type d1Src struct{ off time.Duration }

func (c d1Src) MeasureClockOffset(context.Context) (time.Time, time.Duration, error) {
	return time.Unix(1, 0), c.off, nil
}

type d1Clock struct {
	drift  time.Duration
	rounds int
	done   chan struct{}
}

func (c *d1Clock) Epoch() uint64                                { return 0 }
func (c *d1Clock) Now() time.Time                               { return time.Unix(0, 0) }
func (c *d1Clock) Drift(time.Duration) time.Duration            { return c.drift }
func (c *d1Clock) Step(time.Duration)                           { panic("not used") }
func (c *d1Clock) Adjust(time.Duration, time.Duration, float64) { panic("not used") }
func (c *d1Clock) Sleep(time.Duration) {
	c.rounds--
	if c.rounds == 0 {
		close(c.done)
		select {} // park sync.Run
	}
}

type d1Adj struct{ corrs []time.Duration }

func (a *d1Adj) Do(off time.Duration) { a.corrs = append(a.corrs, off) }

func TestD1MidpointOfBoundedContributionsOverflows(t *testing.T) {
	prometheus.DefaultRegisterer = prometheus.NewRegistry()
	cfg := Config{
		ReferenceClockImpact: 4.5e15,
		PeerClockImpact:      5e15, // exceeds the reference factor by more than 1
		PeerClockCutoff:      50 * time.Microsecond,
		SyncTimeout:          100 * time.Millisecond,
		SyncInterval:         time.Second,
	}
	// drift 1 us/s over the 1 s interval
	clk := &d1Clock{drift: 1000, rounds: 2, done: make(chan struct{})}
	refMax := 4.5e15 * 1000.0 // 4.5e18 ns
	peerMax := 5e15 * 1000.0  // 5.0e18 ns
	adj := &d1Adj{}
	refs := []client.ReferenceClock{d1Src{math.MinInt64}}
	// four peers + the local clock (0): fault-tolerant midpoint = MaxInt64
	peers := []client.ReferenceClock{d1Src{math.MaxInt64}, d1Src{math.MaxInt64},
		d1Src{math.MaxInt64}, d1Src{math.MaxInt64}}
	go Run(slog.New(slog.NewTextHandler(io.Discard, nil)), cfg, clk, adj, refs, peers)
	<-clk.done
	// bounded contributions: ref = -4.5e18, peer = +5e18, midpoint = +0.25e18
	wantExact := (peerMax - refMax) / 2
	for i, c := range adj.corrs {
		t.Logf("round %d: correction %d ns (refMax %.0f, peerMax %.0f, midpoint of bounded values %.0f)",
			i, c, refMax, peerMax, wantExact)
		if math.Abs(float64(c)) > peerMax {
			t.Errorf("round %d: |correction| = %.4g ns exceeds the largest bound %.4g ns", i, math.Abs(float64(c)), peerMax)
		}
		if math.Abs(float64(c)-wantExact) > 1e4 {
			t.Errorf("round %d: correction %d is not the midpoint %.0f of the bounded contributions", i, c, wantExact)
		}
	}
}
