package sync

// C01 audit round 2, finding d2: measurements.midpoint (used by
// measurements.FaultTolerantMidpoint to combine the reference clocks, and the
// peers, of one round) computes x + (y-x)/2 in int64; y-x overflows when the
// two selected offsets are more than 2^63 ns apart. The contribution then has
// the wrong sign, and peers whose midpoint lies within the cutoff contribute
// the peer maximum.

import (
	"context"
	"io"
	"log/slog"
	"testing"
	"time"

	"github.com/prometheus/client_golang/prometheus"

	"example.com/scion-time/core/client"
)

type d2Src struct{ off time.Duration }

func (c d2Src) MeasureClockOffset(context.Context) (time.Time, time.Duration, error) {
	return time.Unix(1, 0), c.off, nil
}

type d2Clock struct {
	drift  time.Duration
	rounds int
	done   chan struct{}
}

func (c *d2Clock) Epoch() uint64                                { return 0 }
func (c *d2Clock) Now() time.Time                               { return time.Unix(0, 0) }
func (c *d2Clock) Drift(time.Duration) time.Duration            { return c.drift }
func (c *d2Clock) Step(time.Duration)                           { panic("not used") }
func (c *d2Clock) Adjust(time.Duration, time.Duration, float64) { panic("not used") }
func (c *d2Clock) Sleep(time.Duration) {
	c.rounds--
	if c.rounds == 0 {
		close(c.done)
		select {} // park sync.Run
	}
}

type d2Adj struct{ corrs []time.Duration }

func (a *d2Adj) Do(off time.Duration) { a.corrs = append(a.corrs, off) }

func d2Run(refOffs, peerOffs []time.Duration, rounds int) []time.Duration {
	prometheus.DefaultRegisterer = prometheus.NewRegistry()
	cfg := Config{ // the service's defaults
		ReferenceClockImpact: 1.25,
		PeerClockImpact:      2.5,
		PeerClockCutoff:      50 * time.Microsecond,
		SyncTimeout:          500 * time.Millisecond,
		SyncInterval:         time.Second,
	}
	clk := &d2Clock{drift: 1000, rounds: rounds, done: make(chan struct{})} // 1 us/s: refMax 1250 ns, peerMax 2500 ns
	adj := &d2Adj{}
	var refs, peers []client.ReferenceClock
	for _, o := range refOffs {
		refs = append(refs, d2Src{o})
	}
	for _, o := range peerOffs {
		peers = append(peers, d2Src{o})
	}
	go Run(slog.New(slog.NewTextHandler(io.Discard, nil)), cfg, clk, adj, refs, peers)
	<-clk.done
	return adj.corrs
}

const d2Big = time.Duration(5e18) // ~158 years

// two reference clocks whose errors cancel: midpoint 0, correction must be 0
func TestD2RefClocksMirrored(t *testing.T) {
	for i, c := range d2Run([]time.Duration{+d2Big, -d2Big}, nil, 3) {
		t.Logf("round %d: correction %d ns", i, c)
		if c != 0 {
			t.Errorf("round %d: reference offsets %d and %d have midpoint 0, correction is %d", i, +d2Big, -d2Big, c)
		}
	}
}

// one honest and one wildly fast reference clock: the midpoint is positive
// (+146 years), so the bounded contribution must be +1250 ns, not -1250 ns
func TestD2RefClocksSignFlip(t *testing.T) {
	for i, c := range d2Run([]time.Duration{-543, 1<<63 - 2}, nil, 3) {
		t.Logf("round %d: correction %d ns", i, c)
		if c != 1250 {
			t.Errorf("round %d: want +1250 (bounded positive midpoint), got %d", i, c)
		}
	}
}

// reference clock reports 0; the peers' (and the local clock's) midpoint is 0,
// i.e. within the cutoff: the peers must contribute nothing, correction 0
func TestD2PeersWithinCutoffContribute(t *testing.T) {
	for i, c := range d2Run([]time.Duration{0}, []time.Duration{+d2Big, -d2Big}, 3) {
		t.Logf("round %d: correction %d ns", i, c)
		if c != 0 {
			t.Errorf("round %d: peer offsets %d, %d and local 0 have midpoint 0 (within the 50us cutoff), "+
				"reference offset is 0, but the correction is %d", i, +d2Big, -d2Big, c)
		}
	}
}
