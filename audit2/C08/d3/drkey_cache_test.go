package server

// C08 / d3: the SCION listener's DRKey cache (net/scion.Fetcher.haks) is keyed by
// the source ISD-AS of the datagram and never evicts. Every datagram that
// carries a packet authenticator option labelled for the time service makes
// the listener fetch the Host-AS key for (local host -> claimed source AS)
// BEFORE the authenticator can be checked, and keep it for good - so
// unauthenticated datagrams with ever new source ASes grow the map without
// bound (2^64 possible keys), one entry and one daemon round trip each.
//
// The listener runs unmodified (runSCIONServer); the SCION daemon is replaced
// by a stub that answers DRKeyGetHostASKey like the control service does for
// its own hosts (a key for whatever destination AS is asked for).

import (
	"context"
	"log/slog"
	"net"
	"reflect"
	"runtime"
	"sync/atomic"
	"testing"
	"time"

	"github.com/google/gopacket"
	"github.com/scionproto/scion/pkg/addr"
	"github.com/scionproto/scion/pkg/daemon"
	"github.com/scionproto/scion/pkg/drkey"
	"github.com/scionproto/scion/pkg/scrypto/cppki"
	"github.com/scionproto/scion/pkg/slayers"
	"github.com/scionproto/scion/pkg/slayers/path/empty"

	"example.com/scion-time/net/ntp"
	"example.com/scion-time/net/ntske"
	"example.com/scion-time/net/scion"
)

type d3Daemon struct {
	daemon.Connector // nil: only the DRKey call is used by the listener
	calls            atomic.Int64
}

func (d *d3Daemon) DRKeyGetHostASKey(ctx context.Context, meta drkey.HostASMeta) (drkey.HostASKey, error) {
	d.calls.Add(1)
	now := time.Now()
	return drkey.HostASKey{
		ProtoId: meta.ProtoId,
		Epoch: drkey.Epoch{Validity: cppki.Validity{
			NotBefore: now.Add(-time.Hour), NotAfter: now.Add(23 * time.Hour)}},
		SrcIA:   meta.SrcIA,
		DstIA:   meta.DstIA,
		SrcHost: meta.SrcHost,
		Key:     drkey.Key{1, 2, 3, 4, 5, 6, 7, 8, 9, 10, 11, 12, 13, 14, 15, 16},
	}, nil
}

func d3Packet(t *testing.T, srcIA addr.IA, dstPort int, withAuthOpt bool) []byte {
	var s slayers.SCION
	s.SrcIA = srcIA
	s.DstIA = addr.MustParseIA("1-ff00:0:110")
	s.SrcAddrType, s.RawSrcAddr = slayers.T4Ip, []byte{127, 0, 0, 1}
	s.DstAddrType, s.RawDstAddr = slayers.T4Ip, []byte{127, 0, 0, 1}
	s.Path, s.PathType = empty.Path{}, empty.PathType

	var req ntp.Packet
	req.SetVersion(ntp.VersionMax)
	req.SetMode(ntp.ModeClient)
	req.TransmitTime = ntp.Time64FromTime(time.Now())
	var payload []byte
	ntp.EncodePacket(&payload, &req)

	buffer := gopacket.NewSerializeBuffer()
	opts := gopacket.SerializeOptions{ComputeChecksums: true, FixLengths: true}
	if err := gopacket.Payload(payload).SerializeTo(buffer, opts); err != nil {
		t.Fatal(err)
	}
	udp := slayers.UDP{SrcPort: 40000, DstPort: uint16(dstPort)}
	udp.SetNetworkLayerForChecksum(&s)
	if err := udp.SerializeTo(buffer, opts); err != nil {
		t.Fatal(err)
	}
	s.NextHdr = slayers.L4UDP
	if withAuthOpt {
		// the option the time service's clients send, with a MAC of zeros: the
		// sender knows no key
		opt := &slayers.EndToEndOption{OptData: make([]byte, scion.PacketAuthOptDataLen)}
		scion.PreparePacketAuthOpt(opt, scion.PacketAuthSPIClient, scion.PacketAuthAlgorithm)
		e2e := slayers.EndToEndExtn{}
		e2e.NextHdr = slayers.L4UDP
		e2e.Options = []*slayers.EndToEndOption{opt}
		if err := e2e.SerializeTo(buffer, opts); err != nil {
			t.Fatal(err)
		}
		s.NextHdr = slayers.End2EndClass
	}
	if err := s.SerializeTo(buffer, opts); err != nil {
		t.Fatal(err)
	}
	return append([]byte(nil), buffer.Bytes()...)
}

func d3CacheLen(f *scion.Fetcher) int {
	// scion.Fetcher.haks is not exported: read its length only
	return reflect.ValueOf(f).Elem().FieldByName("haks").Len()
}

func TestD3DRKeyCacheGrowsWithUnauthenticatedDatagrams(t *testing.T) {
	if scion.UseMockKeys() {
		t.Skip("USE_MOCK_KEYS is set")
	}
	ctx := context.Background()
	log := slog.New(slog.DiscardHandler)
	conn, err := net.ListenUDP("udp", &net.UDPAddr{IP: net.IPv4(127, 0, 0, 1)})
	if err != nil {
		t.Fatal(err)
	}
	port := conn.LocalAddr().(*net.UDPAddr).Port
	dmn := &d3Daemon{}
	fetcher := scion.NewFetcher(dmn) // as StartSCIONServer does, per listener goroutine
	go runSCIONServer(ctx, log, newSCIONServerMetrics(), conn, "", port, 0, fetcher, ntske.NewProvider())

	cl, err := net.DialUDP("udp", nil, &net.UDPAddr{IP: net.IPv4(127, 0, 0, 1), Port: port})
	if err != nil {
		t.Fatal(err)
	}
	defer cl.Close()

	var m0 runtime.MemStats
	runtime.GC()
	runtime.ReadMemStats(&m0)

	const n = 200000
	answered := 0
	buf := make([]byte, 2048)
	for i := 1; i <= n; i++ {
		srcIA := addr.MustIAFrom(addr.ISD(1+i>>32), addr.AS(i&0xffffffff)) // a new source AS each time
		_, err := cl.Write(d3Packet(t, srcIA, port, true))
		if err != nil {
			t.Fatal(err)
		}
		if i%64 == 0 {
			// pace the sender by the listener: a plain request is answered once
			// the datagrams before it have been handled
			_, _ = cl.Write(d3Packet(t, addr.MustParseIA("1-ff00:0:111"), port, false))
			_ = cl.SetReadDeadline(time.Now().Add(2 * time.Second))
			if _, err := cl.Read(buf); err != nil {
				t.Fatalf("listener does not answer any more after %d datagrams: %v", i, err)
			}
			answered++
		}
		if i == 1000 || i%50000 == 0 {
			t.Logf("%6d datagrams with a forged authenticator option sent: %d daemon calls, %d keys cached", i, dmn.calls.Load(), d3CacheLen(fetcher))
		}
	}
	var m1 runtime.MemStats
	runtime.GC()
	runtime.ReadMemStats(&m1)
	got := d3CacheLen(fetcher)
	t.Logf("none of the %d datagrams was authentic (all were dropped); heap in use grew by %d KiB, i.e. %d bytes per datagram",
		n, (int64(m1.HeapAlloc)-int64(m0.HeapAlloc))/1024, (int64(m1.HeapAlloc)-int64(m0.HeapAlloc))/int64(n))
	if got > 1000 {
		t.Fatalf("the listener's DRKey cache holds %d keys for %d unauthenticated datagrams and nothing ever removes them", got, n)
	}
}
