package client_test

// C08 / d1: a key-exchange server that stalls one TLS handshake and an NTP/NTS
// server that answers late are enough to take the time service's client down:
// nts.EncodePacket panics with "siv: bad key size".
//
// The test plays both servers on loopback and drives the client exactly as
// core/sync.Run does with its defaults: one call of
// ReferenceClockClient.MeasureClockOffsets per round, 500 ms timeout, 1 s pause,
// the reference clock being the three-line wrapper timeservice.go uses
// (ntpReferenceClockIP). Only the wrapper adds a recover(), so that the panic
// is reported as a test failure instead of killing the test binary.

import (
	"bufio"
	"context"
	"crypto/ecdsa"
	"crypto/elliptic"
	"crypto/rand"
	"crypto/tls"
	"crypto/x509"
	"crypto/x509/pkix"
	"fmt"
	"log/slog"
	"math/big"
	"net"
	"runtime/debug"
	"strconv"
	"sync"
	"testing"
	"time"

	"example.com/scion-time/core/client"
	"example.com/scion-time/core/measurements"
	"example.com/scion-time/core/timebase"
	"example.com/scion-time/net/ntp"
	"example.com/scion-time/net/nts"
	"example.com/scion-time/net/ntske"
)

type d1Clock struct{}

func (d1Clock) Epoch() uint64                               { return 0 }
func (d1Clock) Now() time.Time                              { return time.Now().UTC() }
func (d1Clock) Drift(time.Duration) time.Duration           { return 0 }
func (d1Clock) Step(time.Duration)                          { panic("not to be called") }
func (d1Clock) Adjust(time.Duration, time.Duration, float64) { panic("not to be called") }
func (d1Clock) Sleep(d time.Duration)                       { time.Sleep(d) }

func d1RegisterClock() {
	defer func() { _ = recover() }() // another test file of the package may have done it
	timebase.RegisterClock(d1Clock{})
}

type d1Keys struct{ c2s, s2c []byte }

// d1Adversary is what the two servers share: the keys behind every cookie they
// handed out and the script of the attack.
type d1Adversary struct {
	mu         sync.Mutex
	keys       map[string]d1Keys
	roundStart time.Time
	arming     bool // this round: drop the requests, stall the first late key exchange
	stalled    bool
	nKE, nNTP  int
	events     []string
}

func (a *d1Adversary) logf(format string, args ...any) {
	a.events = append(a.events, time.Now().Format("15:04:05.000 ")+fmt.Sprintf(format, args...))
}

func (a *d1Adversary) newCookie(k d1Keys) []byte {
	c := make([]byte, 100)
	_, _ = rand.Read(c)
	a.keys[string(c)] = k
	return c
}

func d1TLSConfig(t *testing.T) *tls.Config {
	priv, err := ecdsa.GenerateKey(elliptic.P256(), rand.Reader)
	if err != nil {
		t.Fatal(err)
	}
	tmpl := x509.Certificate{
		SerialNumber: big.NewInt(1),
		Subject:      pkix.Name{CommonName: "d1"},
		NotBefore:    time.Now().Add(-time.Hour),
		NotAfter:     time.Now().Add(time.Hour),
		KeyUsage:     x509.KeyUsageDigitalSignature,
		ExtKeyUsage:  []x509.ExtKeyUsage{x509.ExtKeyUsageServerAuth},
		IPAddresses:  []net.IP{net.IPv4(127, 0, 0, 1)},
	}
	der, err := x509.CreateCertificate(rand.Reader, &tmpl, &tmpl, &priv.PublicKey, priv)
	if err != nil {
		t.Fatal(err)
	}
	return &tls.Config{
		Certificates: []tls.Certificate{{Certificate: [][]byte{der}, PrivateKey: priv}},
		NextProtos:   []string{"ntske/1"},
		MinVersion:   tls.VersionTLS13,
	}
}

// The key-exchange server: a correct NTS-KE server that hands out ONE cookie per
// exchange and, once per episode, takes 1.05 s to start the TLS handshake.
func (a *d1Adversary) serveKE(l net.Listener, cfg *tls.Config, ntpPort int) {
	log := slog.New(slog.DiscardHandler)
	for {
		raw, err := l.Accept()
		if err != nil {
			return
		}
		go func() {
			defer raw.Close()
			a.mu.Lock()
			a.nKE++
			n := a.nKE
			late := time.Since(a.roundStart) > 450*time.Millisecond
			stall := a.arming && late && !a.stalled
			if stall {
				a.stalled = true
			}
			a.logf("KE  #%d accepted (late=%v stall=%v)", n, late, stall)
			a.mu.Unlock()
			if stall {
				time.Sleep(1050 * time.Millisecond)
			}
			conn := tls.Server(raw, cfg)
			_ = conn.SetDeadline(time.Now().Add(3 * time.Second))
			var data ntske.Data
			err := ntske.ReadData(context.Background(), log, bufio.NewReader(conn), &data)
			if err != nil {
				a.mu.Lock()
				a.logf("KE  #%d no request: %v", n, err)
				a.mu.Unlock()
				return
			}
			err = ntske.ExportKeys(conn.ConnectionState(), &data)
			if err != nil {
				return
			}
			a.mu.Lock()
			cookie := a.newCookie(d1Keys{c2s: data.C2sKey, s2c: data.S2cKey})
			a.logf("KE  #%d answered with 1 cookie", n)
			a.mu.Unlock()
			var msg ntske.ExchangeMsg
			msg.AddRecord(ntske.NextProto{NextProto: ntske.NTPv4})
			msg.AddRecord(ntske.Algorithm{Algo: []uint16{ntske.AES_SIV_CMAC_256}})
			msg.AddRecord(ntske.Server{Addr: []byte("127.0.0.1")})
			msg.AddRecord(ntske.Port{Port: uint16(ntpPort)})
			msg.AddRecord(ntske.Cookie{Cookie: cookie})
			msg.AddRecord(ntske.End{})
			buf, err := msg.Pack()
			if err != nil {
				return
			}
			_, _ = conn.Write(buf.Bytes())
			_ = conn.CloseWrite()
			time.Sleep(50 * time.Millisecond)
		}()
	}
}

// The NTP server: a correct NTS-protected NTP server (one fresh cookie per
// response) that drops the requests of an arming round and answers the others
// 150 ms late.
func (a *d1Adversary) serveNTP(conn *net.UDPConn) {
	for {
		buf := make([]byte, 2048)
		n, src, err := conn.ReadFromUDPAddrPort(buf)
		if err != nil {
			return
		}
		buf = buf[:n]
		rx := time.Now().UTC()
		var req ntp.Packet
		if ntp.DecodePacket(&req, buf) != nil {
			continue
		}
		var ntsreq nts.Packet
		if nts.DecodePacket(&ntsreq, buf) != nil {
			continue
		}
		cookie, err := ntsreq.FirstCookie()
		if err != nil {
			continue
		}
		a.mu.Lock()
		a.nNTP++
		k, ok := a.keys[string(cookie)]
		drop := a.arming
		a.logf("NTP #%d received (known cookie=%v drop=%v)", a.nNTP, ok, drop)
		a.mu.Unlock()
		if !ok || drop {
			continue
		}
		if nts.ProcessRequest(buf, k.c2s, &ntsreq) != nil {
			continue
		}
		go func() {
			time.Sleep(150 * time.Millisecond)
			var resp ntp.Packet
			resp.SetVersion(ntp.VersionMax)
			resp.SetMode(ntp.ModeServer)
			resp.Stratum = 1
			resp.OriginTime = req.TransmitTime
			resp.ReceiveTime = ntp.Time64FromTime(rx)
			resp.TransmitTime = ntp.Time64FromTime(time.Now().UTC())
			var out []byte
			ntp.EncodePacket(&out, &resp)
			a.mu.Lock()
			fresh := a.newCookie(k)
			a.mu.Unlock()
			ntsresp := nts.NewResponsePacket([][]byte{fresh}, k.s2c, ntsreq.UniqueID.ID)
			nts.EncodePacket(&out, &ntsresp)
			_, _ = conn.WriteToUDPAddrPort(out, src)
		}()
	}
}

// What timeservice.go wraps an IP client in (ntpReferenceClockIP), plus recover().
type d1RefClock struct {
	log        *slog.Logger
	ntpc       *client.IPClient
	localAddr  *net.UDPAddr
	remoteAddr *net.UDPAddr
	mu         sync.Mutex
	panicked   any
	stack      []byte
}

func (c *d1RefClock) MeasureClockOffset(ctx context.Context) (ts time.Time, off time.Duration, err error) {
	defer func() {
		if r := recover(); r != nil {
			c.mu.Lock()
			if c.panicked == nil {
				c.panicked, c.stack = r, debug.Stack()
			}
			c.mu.Unlock()
			err = fmt.Errorf("panic: %v", r)
		}
	}()
	return client.MeasureClockOffsetIP(ctx, c.log, c.ntpc, c.localAddr, c.remoteAddr)
}

func TestD1LateKeyExchangeFailureEmptiesKeysUnderStoredCookie(t *testing.T) {
	d1RegisterClock()

	adv := &d1Adversary{keys: make(map[string]d1Keys)}

	ntpConn, err := net.ListenUDP("udp", &net.UDPAddr{IP: net.IPv4(127, 0, 0, 1)})
	if err != nil {
		t.Fatal(err)
	}
	defer ntpConn.Close()
	ntpPort := ntpConn.LocalAddr().(*net.UDPAddr).Port
	go adv.serveNTP(ntpConn)

	keListener, err := net.Listen("tcp", "127.0.0.1:0")
	if err != nil {
		t.Fatal(err)
	}
	defer keListener.Close()
	kePort := keListener.Addr().(*net.TCPAddr).Port
	go adv.serveKE(keListener, d1TLSConfig(t), ntpPort)

	log := slog.New(slog.DiscardHandler)
	// as newNTPReferenceClockIP / configureIPClientNTS set the client up
	ntpc := &client.IPClient{Log: log, InterleavedMode: true}
	ntpc.Filter = client.NewNtimedFilter(log)
	ntpc.Auth.Enabled = true
	ntpc.Auth.NTSKEFetcher.TLSConfig = tls.Config{
		NextProtos:         []string{"ntske/1"},
		InsecureSkipVerify: true,
		ServerName:         "127.0.0.1",
		MinVersion:         tls.VersionTLS13,
	}
	ntpc.Auth.NTSKEFetcher.Port = strconv.Itoa(kePort)
	ntpc.Auth.NTSKEFetcher.Log = log
	rc := &d1RefClock{
		log:        log,
		ntpc:       ntpc,
		localAddr:  &net.UDPAddr{IP: net.IPv4(127, 0, 0, 1)},
		remoteAddr: &net.UDPAddr{IP: net.IPv4(127, 0, 0, 1), Port: ntpPort},
	}

	const (
		syncTimeout  = 500 * time.Millisecond // defaults of timeservice.go
		syncInterval = 1000 * time.Millisecond
	)
	var rcc client.ReferenceClockClient
	ms := make([]measurements.Measurement, 1)
	refClks := []client.ReferenceClock{rc}

	for round := 0; round < 60; round++ {
		adv.mu.Lock()
		adv.roundStart = time.Now()
		adv.arming = round%2 == 0
		if adv.arming {
			adv.stalled = false
		}
		adv.logf("--- round %d (arming=%v)", round, adv.arming)
		adv.mu.Unlock()

		ctx, cancel := context.WithTimeout(context.Background(), syncTimeout)
		n := rcc.MeasureClockOffsets(ctx, refClks, ms)
		cancel()
		adv.mu.Lock()
		adv.logf("--- round %d returned %d measurement(s)", round, n)
		adv.mu.Unlock()

		time.Sleep(syncInterval)

		rc.mu.Lock()
		p, stack := rc.panicked, rc.stack
		rc.mu.Unlock()
		if p != nil {
			adv.mu.Lock()
			for _, e := range adv.events {
				t.Log(e)
			}
			adv.mu.Unlock()
			t.Fatalf("the client panicked in round %d: %v\n%s", round, p, stack)
		}
	}
	t.Log("no panic in 60 rounds")
}
