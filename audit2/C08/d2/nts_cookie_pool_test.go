package client_test

// C08 / d2: the client's NTS cookie pool has no upper bound. An NTS server that
// puts 252 cookie fields into every (correctly authenticated) response makes
// the pool of the time service's IP client grow by 251 entries per exchange (753 per round),
// for as long as the service runs; over SCION, where the client's receive
// buffer is 9188 bytes, it is about 2280 entries per exchange.
//
// The test plays the key-exchange server and the NTP server on loopback and
// calls client.MeasureClockOffsetIP the way timeservice.go does.

import (
	"bufio"
	"context"
	"crypto/ecdsa"
	"crypto/elliptic"
	"crypto/rand"
	"crypto/tls"
	"crypto/x509"
	"crypto/x509/pkix"
	"encoding/binary"
	"log/slog"
	"math/big"
	"net"
	"reflect"
	"runtime"
	"strconv"
	"sync"
	"testing"
	"time"

	"example.com/scion-time/core/client"
	"example.com/scion-time/core/timebase"
	"example.com/scion-time/net/ntp"
	"example.com/scion-time/net/nts"
	"example.com/scion-time/net/ntske"
)

type d2Clock struct{}

func (d2Clock) Epoch() uint64                               { return 0 }
func (d2Clock) Now() time.Time                              { return time.Now().UTC() }
func (d2Clock) Drift(time.Duration) time.Duration           { return 0 }
func (d2Clock) Step(time.Duration)                          { panic("not to be called") }
func (d2Clock) Adjust(time.Duration, time.Duration, float64) { panic("not to be called") }
func (d2Clock) Sleep(d time.Duration)                       { time.Sleep(d) }

func d2RegisterClock() {
	defer func() { _ = recover() }() // another test file of the package may have done it
	timebase.RegisterClock(d2Clock{})
}

type d2Keys struct{ c2s, s2c []byte }

type d2Servers struct {
	mu   sync.Mutex
	keys map[string]d2Keys
	last d2Keys // the keys of the one client there is: what a cookie without body stands for
	nKE  int
	nNTP int
}

func d2TLSConfig(t *testing.T) *tls.Config {
	priv, err := ecdsa.GenerateKey(elliptic.P256(), rand.Reader)
	if err != nil {
		t.Fatal(err)
	}
	tmpl := x509.Certificate{
		SerialNumber: big.NewInt(1),
		Subject:      pkix.Name{CommonName: "d2"},
		NotBefore:    time.Now().Add(-time.Hour),
		NotAfter:     time.Now().Add(time.Hour),
		KeyUsage:     x509.KeyUsageDigitalSignature,
		ExtKeyUsage:  []x509.ExtKeyUsage{x509.ExtKeyUsageServerAuth},
		IPAddresses:  []net.IP{net.IPv4(127, 0, 0, 1)},
	}
	der, err := x509.CreateCertificate(rand.Reader, &tmpl, &tmpl, &priv.PublicKey, priv)
	if err != nil {
		t.Fatal(err)
	}
	return &tls.Config{
		Certificates: []tls.Certificate{{Certificate: [][]byte{der}, PrivateKey: priv}},
		NextProtos:   []string{"ntske/1"},
		MinVersion:   tls.VersionTLS13,
	}
}

func (s *d2Servers) serveKE(l net.Listener, ntpPort int) {
	log := slog.New(slog.DiscardHandler)
	for {
		c, err := l.Accept()
		if err != nil {
			return
		}
		go func(conn *tls.Conn) {
			defer conn.Close()
			_ = conn.SetDeadline(time.Now().Add(3 * time.Second))
			var data ntske.Data
			if ntske.ReadData(context.Background(), log, bufio.NewReader(conn), &data) != nil {
				return
			}
			if ntske.ExportKeys(conn.ConnectionState(), &data) != nil {
				return
			}
			cookie := make([]byte, 100)
			_, _ = rand.Read(cookie)
			s.mu.Lock()
			s.nKE++
			s.keys[string(cookie)] = d2Keys{c2s: data.C2sKey, s2c: data.S2cKey}
			s.last = d2Keys{c2s: data.C2sKey, s2c: data.S2cKey}
			s.mu.Unlock()
			var msg ntske.ExchangeMsg
			msg.AddRecord(ntske.NextProto{NextProto: ntske.NTPv4})
			msg.AddRecord(ntske.Algorithm{Algo: []uint16{ntske.AES_SIV_CMAC_256}})
			msg.AddRecord(ntske.Server{Addr: []byte("127.0.0.1")})
			msg.AddRecord(ntske.Port{Port: uint16(ntpPort)})
			msg.AddRecord(ntske.Cookie{Cookie: cookie})
			msg.AddRecord(ntske.End{})
			buf, err := msg.Pack()
			if err != nil {
				return
			}
			_, _ = conn.Write(buf.Bytes())
			_ = conn.CloseWrite()
			time.Sleep(20 * time.Millisecond)
		}(c.(*tls.Conn))
	}
}

// every response: 251 cookie fields without a body and one cookie of 100 bytes
// (with which the next request is recognised), encrypted in the authenticator;
// 48 + 36 + 4+4+16 + (251*4 + 104 + 16) = 1232 bytes, the client's buffer size
func (s *d2Servers) serveNTP(conn *net.UDPConn) {
	for {
		buf := make([]byte, 2048)
		n, src, err := conn.ReadFromUDPAddrPort(buf)
		if err != nil {
			return
		}
		buf = buf[:n]
		rx := time.Now().UTC()
		var req ntp.Packet
		if ntp.DecodePacket(&req, buf) != nil {
			continue
		}
		var ntsreq nts.Packet
		if nts.DecodePacket(&ntsreq, buf) != nil {
			continue
		}
		cookie, err := ntsreq.FirstCookie()
		if err != nil {
			continue
		}
		s.mu.Lock()
		k, ok := s.keys[string(cookie)]
		if !ok {
			k = s.last
		}
		s.mu.Unlock()
		if nts.ProcessRequest(buf, k.c2s, &ntsreq) != nil {
			continue
		}
		fresh := make([]byte, 100)
		_, _ = rand.Read(fresh)
		s.mu.Lock()
		s.nNTP++
		s.keys[string(fresh)] = k
		s.mu.Unlock()

		var plaintext []byte
		for range 251 {
			plaintext = binary.BigEndian.AppendUint16(plaintext, 0x0204) // cookie
			plaintext = binary.BigEndian.AppendUint16(plaintext, 4)      // header only
		}
		plaintext = binary.BigEndian.AppendUint16(plaintext, 0x0204)
		plaintext = binary.BigEndian.AppendUint16(plaintext, 104)
		plaintext = append(plaintext, fresh...)

		var resp ntp.Packet
		resp.SetVersion(ntp.VersionMax)
		resp.SetMode(ntp.ModeServer)
		resp.Stratum = 1
		resp.OriginTime = req.TransmitTime
		resp.ReceiveTime = ntp.Time64FromTime(rx)
		resp.TransmitTime = ntp.Time64FromTime(time.Now().UTC())
		var out []byte
		ntp.EncodePacket(&out, &resp)
		var ntsresp nts.Packet
		ntsresp.UniqueID.ID = ntsreq.UniqueID.ID
		ntsresp.Auth.Key = k.s2c
		ntsresp.Auth.PlainText = plaintext
		nts.EncodePacket(&out, &ntsresp)
		_, _ = conn.WriteToUDPAddrPort(out, src)
	}
}

func d2PoolLen(c *client.IPClient) int {
	// IPClient.Auth.NTSKEFetcher.data.Cookie (data is not exported: read its length only)
	return reflect.ValueOf(c).Elem().FieldByName("Auth").FieldByName("NTSKEFetcher").
		FieldByName("data").FieldByName("Cookie").Len()
}

func TestD2CookiePoolGrowsWithoutBound(t *testing.T) {
	d2RegisterClock()

	srv := &d2Servers{keys: make(map[string]d2Keys)}
	ntpConn, err := net.ListenUDP("udp", &net.UDPAddr{IP: net.IPv4(127, 0, 0, 1)})
	if err != nil {
		t.Fatal(err)
	}
	defer ntpConn.Close()
	ntpPort := ntpConn.LocalAddr().(*net.UDPAddr).Port
	go srv.serveNTP(ntpConn)
	keListener, err := tls.Listen("tcp", "127.0.0.1:0", d2TLSConfig(t))
	if err != nil {
		t.Fatal(err)
	}
	defer keListener.Close()
	go srv.serveKE(keListener, ntpPort)

	log := slog.New(slog.DiscardHandler)
	// as newNTPReferenceClockIP / configureIPClientNTS set the client up
	ntpc := &client.IPClient{Log: log, InterleavedMode: true}
	ntpc.Filter = client.NewNtimedFilter(log)
	ntpc.Auth.Enabled = true
	ntpc.Auth.NTSKEFetcher.TLSConfig = tls.Config{
		NextProtos:         []string{"ntske/1"},
		InsecureSkipVerify: true,
		ServerName:         "127.0.0.1",
		MinVersion:         tls.VersionTLS13,
	}
	ntpc.Auth.NTSKEFetcher.Port = strconv.Itoa(keListener.Addr().(*net.TCPAddr).Port)
	ntpc.Auth.NTSKEFetcher.Log = log
	localAddr := &net.UDPAddr{IP: net.IPv4(127, 0, 0, 1)}
	remoteAddr := &net.UDPAddr{IP: net.IPv4(127, 0, 0, 1), Port: ntpPort}

	var m0 runtime.MemStats
	runtime.GC()
	runtime.ReadMemStats(&m0)
	const rounds = 100
	ok := 0
	for round := 1; round <= rounds; round++ {
		ctx, cancel := context.WithTimeout(context.Background(), 500*time.Millisecond)
		_, _, err := client.MeasureClockOffsetIP(ctx, log, ntpc, localAddr, remoteAddr)
		cancel()
		if err == nil {
			ok++
		}
		if round == 1 || round%20 == 0 {
			srv.mu.Lock()
			nKE, nNTP := srv.nKE, srv.nNTP
			srv.mu.Unlock()
			t.Logf("after %3d rounds (%d key exchange(s), %d NTP exchanges): %d cookies in the client's pool",
				round, nKE, nNTP, d2PoolLen(ntpc))
		}
	}
	var m1 runtime.MemStats
	runtime.GC()
	runtime.ReadMemStats(&m1)
	n := d2PoolLen(ntpc)
	t.Logf("%d of %d measurements succeeded; heap in use grew by %d KiB", ok, rounds, (int64(m1.HeapAlloc)-int64(m0.HeapAlloc))/1024)
	if n > 8 {
		t.Fatalf("the cookie pool holds %d cookies after %d rounds (RFC 8915 5.7: a client keeps at most 8); "+
			"it grows by 251 per exchange for as long as the server keeps answering", n, rounds)
	}
}
