package server

import (
	"bytes"
	"net"
	"net/netip"
	"testing"
	"time"

	"github.com/scionproto/scion/pkg/addr"

	"example.com/scion-time/net/scion"
)

// The forwarder on the end-host port sends a packet on to whatever host the SCION
// destination address names, not only to ports of the host it runs on.
func TestAuditForwardToOtherHost(t *testing.T) {
	srvIA := addr.MustParseIA("1-ff00:0:111")
	cliIA := addr.MustParseIA("1-ff00:0:112")
	disp := auditStartServer(t, "127.13.1.1", scion.EndhostPort, scion.EndhostPort, nil) // as StartSCIONDispatcher

	other, err := net.ListenUDP("udp", &net.UDPAddr{IP: net.ParseIP("127.13.1.2")})
	if err != nil {
		t.Fatal(err)
	}
	defer other.Close()
	port := uint16(other.LocalAddr().(*net.UDPAddr).Port)

	payload := []byte("datagram for a host the dispatcher does not run on")
	p := &auditPkt{srcIA: srvIA, dstIA: cliIA,
		src: netip.MustParseAddr("10.1.2.3"), dst: netip.MustParseAddr("127.13.1.2"),
		srcPort: 5555, dstPort: port, payload: payload}
	snd, err := net.ListenUDP("udp", &net.UDPAddr{IP: net.ParseIP("127.0.0.1")})
	if err != nil {
		t.Fatal(err)
	}
	defer snd.Close()
	if _, err := snd.WriteToUDPAddrPort(p.build(t), disp); err != nil {
		t.Fatal(err)
	}
	_ = other.SetReadDeadline(time.Now().Add(500 * time.Millisecond))
	buf := make([]byte, 65536)
	n, from, err := other.ReadFromUDPAddrPort(buf)
	if err != nil {
		t.Logf("not forwarded: %v", err)
		return
	}
	d, err := auditDecode(buf[:n])
	t.Errorf("dispatcher on 127.13.1.1:%d forwarded a packet for SCION host 127.13.1.2 to %v from %v (decodes: %v, payload intact: %v)",
		scion.EndhostPort, other.LocalAddr(), from, err == nil, err == nil && bytes.Equal(d.udp.Payload, payload))
}
