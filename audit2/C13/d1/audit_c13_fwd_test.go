package server

import (
	"bytes"
	"net"
	"net/netip"
	"testing"
	"time"

	"github.com/scionproto/scion/pkg/addr"
	"github.com/scionproto/scion/pkg/slayers"

	"example.com/scion-time/net/scion"
)

// A packet for another end-host port whose end-to-end extension header is 960
// to 1024 bytes long is forwarded with a corrupt end-to-end header: the
// forwarder appends its receive-timestamp option (66 bytes) and the header's
// one-byte length field wraps around.
func TestAuditForwardLargeE2E(t *testing.T) {
	srvIA := addr.MustParseIA("1-ff00:0:111")
	cliIA := addr.MustParseIA("1-ff00:0:112")
	disp := auditStartServer(t, "127.13.0.1", scion.EndhostPort, 10123, nil)

	rcv, err := net.ListenUDP("udp", &net.UDPAddr{IP: net.ParseIP("127.13.0.1")})
	if err != nil {
		t.Fatal(err)
	}
	defer rcv.Close()
	rcvPort := uint16(rcv.LocalAddr().(*net.UDPAddr).Port)

	snd, err := net.ListenUDP("udp", &net.UDPAddr{IP: net.ParseIP("127.0.0.1")})
	if err != nil {
		t.Fatal(err)
	}
	defer snd.Close()

	payload := []byte("the quick brown fox jumps over the lazy dog 0123456789")
	key := make([]byte, 16)

	for _, e2eLen := range []int{64, 512, 952, 956, 960, 1000, 1024} {
		// e2eLen bytes of extension header: 2 (NextHdr, ExtLen) + options;
		// the authenticator takes 2+28 bytes after alignment, the rest is padding options
		var opts []*slayers.EndToEndOption
		rest := e2eLen - 2 - 32 // room for PadN options in front of the authenticator
		for rest > 0 {
			n := rest
			if n > 256 {
				n = 256
			}
			if n == 1 || rest-n == 1 {
				t.Fatalf("bad split")
			}
			opts = append(opts, &slayers.EndToEndOption{OptType: slayers.OptTypePadN, OptData: make([]byte, n-2)})
			rest -= n
		}
		p := &auditPkt{srcIA: srvIA, dstIA: cliIA,
			src: netip.MustParseAddr("127.0.0.7"), dst: netip.MustParseAddr("127.13.0.1"),
			srcPort: 10123, dstPort: rcvPort, path: auditRawPath(auditSCIONPath(3, 2)),
			e2eOpts: opts, authKey: key, authSPI: scion.PacketAuthSPIServer, payload: payload}
		pkt := p.build(t)
		in, err := auditDecode(pkt)
		if err != nil || !in.hasE2E {
			t.Fatalf("input does not decode: %v", err)
		}
		if in.e2e.ActualLen != e2eLen {
			t.Fatalf("e2e header is %d bytes, want %d", in.e2e.ActualLen, e2eLen)
		}
		if _, ok := in.verifies(scion.PacketAuthSPIServer, key); !ok {
			t.Fatalf("input authenticator does not verify")
		}

		var out []byte
		for try := 0; try < 3; try++ { // first packet may lack the rx timestamp
			if _, err := snd.WriteToUDPAddrPort(pkt, disp); err != nil {
				t.Fatal(err)
			}
			_ = rcv.SetReadDeadline(time.Now().Add(500 * time.Millisecond))
			buf := make([]byte, 65536)
			n, _, err := rcv.ReadFromUDPAddrPort(buf)
			if err != nil {
				t.Errorf("e2e %d bytes: nothing forwarded: %v", e2eLen, err)
				break
			}
			out = buf[:n]
			d, err := auditDecode(out)
			if err == nil && d.hasE2E {
				if _, err := d.e2e.FindOption(scion.OptTypeTimestamp); err != nil {
					continue // no timestamp option added (no rx timestamp yet): try again
				}
			}
			break
		}
		if out == nil {
			continue
		}
		d, err := auditDecode(out)
		if err != nil {
			t.Errorf("e2e %4d bytes: forwarded packet (%d bytes, ExtLen byte %d) does not decode: %v",
				e2eLen, len(out), out[in.scn.HdrLen*4+1], err)
			continue
		}
		last := d.decoded[len(d.decoded)-1]
		if last != slayers.LayerTypeSCIONUDP || !bytes.Equal(d.udp.Payload, payload) {
			t.Errorf("e2e %4d bytes: forwarded packet decodes to %v, UDP %d->%d, payload %d bytes (equal: %v), e2e now %d bytes",
				e2eLen, d.decoded, d.udp.SrcPort, d.udp.DstPort, len(d.udp.Payload), bytes.Equal(d.udp.Payload, payload), d.e2e.ActualLen)
			continue
		}
		_, ok := d.verifies(scion.PacketAuthSPIServer, key)
		t.Logf("e2e %4d bytes: forwarded intact, e2e now %d bytes, authenticator verifies: %v", e2eLen, d.e2e.ActualLen, ok)
		if !ok {
			t.Errorf("e2e %4d bytes: authenticator of the forwarded packet does not verify", e2eLen)
		}
	}
}

// With option contents chosen by the sender, the forwarded packet still decodes,
// but to another UDP datagram than the one that was received: the wrapped length
// makes the end-to-end header end inside the original options, and the bytes of
// the next option are taken for the UDP header and payload.
func TestAuditForwardLargeE2EOtherDatagram(t *testing.T) {
	srvIA := addr.MustParseIA("1-ff00:0:111")
	cliIA := addr.MustParseIA("1-ff00:0:112")
	disp := auditStartServer(t, "127.13.2.1", scion.EndhostPort, 10123, nil)

	rcv, err := net.ListenUDP("udp", &net.UDPAddr{IP: net.ParseIP("127.13.2.1")})
	if err != nil {
		t.Fatal(err)
	}
	defer rcv.Close()
	rcvPort := uint16(rcv.LocalAddr().(*net.UDPAddr).Port)
	snd, err := net.ListenUDP("udp", &net.UDPAddr{IP: net.ParseIP("127.0.0.1")})
	if err != nil {
		t.Fatal(err)
	}
	defer snd.Close()

	payload := []byte("the datagram the sender's SCION/UDP header carries")
	other := []byte("what the receiver gets instead")
	hidden := make([]byte, 250)
	hidden[0], hidden[1] = byte(rcvPort>>8), byte(rcvPort) // "destination port"
	hidden[2], hidden[3] = 0, byte(8+len(other))           // "length"
	copy(hidden[6:], other)
	opts := []*slayers.EndToEndOption{
		{OptType: slayers.OptTypePadN, OptData: make([]byte, 64)}, // 66 bytes: header now ends here
		{OptType: 0x1e, OptData: hidden},                          // 0x1e, 0xfa: "source port" 7930
		{OptType: slayers.OptTypePadN, OptData: make([]byte, 254)},
		{OptType: slayers.OptTypePadN, OptData: make([]byte, 254)},
		{OptType: slayers.OptTypePadN, OptData: make([]byte, 190)},
	}
	p := &auditPkt{srcIA: srvIA, dstIA: cliIA,
		src: netip.MustParseAddr("127.0.0.7"), dst: netip.MustParseAddr("127.13.2.1"),
		srcPort: 10123, dstPort: rcvPort, e2eOpts: opts, payload: payload}
	pkt := p.build(t)
	in, err := auditDecode(pkt)
	if err != nil || in.e2e.ActualLen != 1024 || !bytes.Equal(in.udp.Payload, payload) {
		t.Fatalf("input: %v, e2e %d bytes", err, in.e2e.ActualLen)
	}
	for try := 0; try < 3; try++ {
		if _, err := snd.WriteToUDPAddrPort(pkt, disp); err != nil {
			t.Fatal(err)
		}
		_ = rcv.SetReadDeadline(time.Now().Add(500 * time.Millisecond))
		buf := make([]byte, 65536)
		n, _, err := rcv.ReadFromUDPAddrPort(buf)
		if err != nil {
			t.Fatalf("nothing forwarded: %v", err)
		}
		d, err := auditDecode(buf[:n])
		if err != nil {
			t.Fatalf("forwarded packet does not decode: %v", err)
		}
		if bytes.Equal(d.udp.Payload, payload) && d.udp.SrcPort == 10123 {
			continue // forwarded without timestamp option (first packet on the socket)
		}
		t.Errorf("received UDP %d->%d %q, forwarded packet decodes to %v with a %d byte e2e header, UDP %d->%d %q",
			in.udp.SrcPort, in.udp.DstPort, in.udp.Payload, d.decoded, d.e2e.ActualLen, d.udp.SrcPort, d.udp.DstPort, d.udp.Payload)
		return
	}
	t.Logf("forwarded intact")
}
