package server

import (
	"bytes"
	"net/netip"
	"testing"
	"time"

	"github.com/scionproto/scion/pkg/addr"
	libepic "github.com/scionproto/scion/pkg/experimental/epic"
	"github.com/scionproto/scion/pkg/slayers"
	"github.com/scionproto/scion/pkg/slayers/path/epic"
	scionpath "github.com/scionproto/scion/pkg/slayers/path/scion"
	"github.com/scionproto/scion/pkg/snet"

	"example.com/scion-time/net/scion"
)

// A request (NTP or SCMP echo) that arrives over an EPIC-HP path (path type 3) is
// answered over path type 3 again: the inner SCION path is reversed, but packet
// identifier and both hop validation fields are those of the request. The
// border routers of the last two ASes of the reply's path verify these fields
// (router/dataplane.go, processEPIC) with keys only they have, over the
// *reply's* source address and payload length, so the reply is discarded.
// The reference end host (snet.DefaultReplyPather, used by this repository's own
// SCION/QUIC connection in net/scion/quic.go) answers over the reversed SCION
// path (path type 1).
func TestAuditEPICReply(t *testing.T) {
	srvIA := addr.MustParseIA("1-ff00:0:111")
	cliIA := addr.MustParseIA("1-ff00:0:112")
	f := scion.NewFetcher(&auditDaemon{})
	srv := auditStartServer(t, "127.0.0.1", 0, 0, f)

	src, dst := netip.MustParseAddr("127.0.0.9"), netip.MustParseAddr("127.0.0.1")

	// full 16-byte hop field MACs, known only to the AS of each hop
	hopAuth := [][]byte{
		bytes.Repeat([]byte{0x11}, 16), // first AS (client's)
		bytes.Repeat([]byte{0x22}, 16), // penultimate AS on the way to the server
		bytes.Repeat([]byte{0x33}, 16), // last AS (server's)
	}
	dec := auditSCIONPath(3, 2)
	tsInfo := dec.InfoFields[0].Timestamp
	pktTS, err := libepic.CreateTimestamp(time.Unix(int64(tsInfo), 0), time.Now())
	if err != nil {
		t.Fatal(err)
	}
	ep := &epic.Path{PktID: epic.PktID{Timestamp: pktTS, Counter: 0x01000001}, ScionPath: auditRawPath(dec)}

	for _, scmp := range []bool{false, true} {
		p := &auditPkt{srcIA: cliIA, dstIA: srvIA, src: src, dst: dst, srcPort: 4444, dstPort: srv.Port(),
			path: ep, payload: auditNTPRequest()}
		ep.PHVF, ep.LHVF = []byte{0, 0, 0, 0}, []byte{0, 0, 0, 0}
		pkt := p.build(t)
		if scmp {
			pkt = auditSCMPEcho(t, p, []byte("ping-payload"))
		}
		// the sender fills in the validation fields over the final header
		d0, err := auditDecode(pkt)
		if err != nil {
			t.Fatal(err)
		}
		phvf, _ := libepic.CalcMac(hopAuth[1], ep.PktID, &d0.scn, tsInfo, nil)
		ep.PHVF = append([]byte(nil), phvf...)
		lhvf, _ := libepic.CalcMac(hopAuth[2], ep.PktID, &d0.scn, tsInfo, nil)
		ep.LHVF = append([]byte(nil), lhvf...)
		if scmp {
			pkt = auditSCMPEcho(t, p, []byte("ping-payload"))
		} else {
			pkt = p.build(t)
		}
		d0, _ = auditDecode(pkt)
		if err := libepic.VerifyHVF(hopAuth[2], ep.PktID, &d0.scn, tsInfo, d0.scn.Path.(*epic.Path).LHVF, nil); err != nil {
			t.Fatalf("request's LHVF does not verify at the last hop: %v", err)
		}

		resp, ok := auditExchange(t, "127.0.0.1", srv, pkt, 500*time.Millisecond)
		if !ok {
			t.Fatalf("no reply")
		}
		d, err := auditDecode(resp)
		if err != nil {
			t.Fatalf("reply does not decode: %v", err)
		}
		t.Logf("scmp=%v: reply has path type %d (%T)", scmp, d.scn.PathType, d.scn.Path)

		// what the reference end host sends
		want, err := snet.DefaultReplyPather{}.ReplyPath(snet.RawPath{PathType: epic.PathType, Raw: auditPathBytes(ep)})
		if err != nil {
			t.Fatal(err)
		}
		var ws slayers.SCION
		_ = want.SetPath(&ws)
		t.Logf("scmp=%v: snet.DefaultReplyPather replies over path type %d (%T)", scmp, ws.PathType, ws.Path)

		rep, isEPIC := d.scn.Path.(*epic.Path)
		if !isEPIC {
			continue
		}
		t.Logf("scmp=%v: reply PktID=%+v PHVF=%x LHVF=%x (request: PktID=%+v PHVF=%x LHVF=%x)",
			scmp, rep.PktID, rep.PHVF, rep.LHVF, ep.PktID, ep.PHVF, ep.LHVF)
		// the routers' check on the reply: penultimate hop of the reply is the request's
		// hop 1, last hop of the reply is the request's hop 0
		info, _ := rep.ScionPath.GetInfoField(0)
		errP := libepic.VerifyHVF(hopAuth[1], rep.PktID, &d.scn, info.Timestamp, rep.PHVF, nil)
		errL := libepic.VerifyHVF(hopAuth[0], rep.PktID, &d.scn, info.Timestamp, rep.LHVF, nil)
		if errP != nil || errL != nil {
			t.Errorf("scmp=%v: reply over path type %d is discarded by the routers: PHVF at penultimate hop: %v; LHVF at last hop: %v",
				scmp, d.scn.PathType, errP != nil, errL != nil)
		}
		if ws.PathType != d.scn.PathType {
			t.Errorf("scmp=%v: reply path type %d, reference end host replies with path type %d", scmp, d.scn.PathType, ws.PathType)
		}
	}
	_ = scionpath.PathType
}
