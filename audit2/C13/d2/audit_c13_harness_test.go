package server

// Audit harness for property C13 (in-package: drives runSCIONServer over
// loopback sockets with a fake SCION daemon that hands out real, address
// dependent DRKeys).

import (
	"context"
	"crypto/sha256"
	"log/slog"
	"net"
	"net/netip"
	"sync"
	"testing"
	"time"

	"github.com/google/gopacket"

	"github.com/scionproto/scion/pkg/addr"
	"github.com/scionproto/scion/pkg/daemon"
	"github.com/scionproto/scion/pkg/drkey"
	"github.com/scionproto/scion/pkg/scrypto/cppki"
	"github.com/scionproto/scion/pkg/slayers"
	"github.com/scionproto/scion/pkg/slayers/path"
	"github.com/scionproto/scion/pkg/slayers/path/empty"
	"github.com/scionproto/scion/pkg/slayers/path/epic"
	"github.com/scionproto/scion/pkg/slayers/path/onehop"
	scionpath "github.com/scionproto/scion/pkg/slayers/path/scion"
	"github.com/scionproto/scion/pkg/spao"

	"example.com/scion-time/net/ntp"
	"example.com/scion-time/net/ntske"
	"example.com/scion-time/net/scion"
)

type auditDaemon struct {
	daemon.Connector
	mu    sync.Mutex
	calls int
}

func (d *auditDaemon) DRKeyGetHostASKey(ctx context.Context, meta drkey.HostASMeta) (drkey.HostASKey, error) {
	d.mu.Lock()
	d.calls++
	d.mu.Unlock()
	return auditHostASKey(meta), nil
}

func auditHostASKey(meta drkey.HostASMeta) drkey.HostASKey {
	h := sha256.Sum256([]byte(meta.SrcIA.String() + "|" + meta.DstIA.String() + "|" + meta.SrcHost))
	var k drkey.Key
	copy(k[:], h[:16])
	now := time.Now()
	return drkey.HostASKey{
		ProtoId: meta.ProtoId,
		SrcIA:   meta.SrcIA,
		DstIA:   meta.DstIA,
		SrcHost: meta.SrcHost,
		Epoch: drkey.Epoch{Validity: cppki.Validity{
			NotBefore: now.Add(-6 * time.Hour), NotAfter: now.Add(6 * time.Hour)}},
		Key: k,
	}
}

// auditHostHostKey is the key client cliIA,cliHost shares with server srvIA,srvHost.
func auditHostHostKey(srvIA addr.IA, srvHost string, cliIA addr.IA, cliHost string) []byte {
	hak := auditHostASKey(drkey.HostASMeta{ProtoId: scion.DRKeyProtocolTS, SrcIA: srvIA, DstIA: cliIA, SrcHost: srvHost})
	hhk, err := scion.DeriveHostHostKey(hak, cliHost)
	if err != nil {
		panic(err)
	}
	return hhk.Key[:]
}

var (
	auditMtrcsOnce sync.Once
	auditMtrcs     *scionServerMetrics
)

// auditStartServer runs one runSCIONServer goroutine on ip:connPort that serves
// hostPort. It returns the socket's address.
func auditStartServer(t *testing.T, ip string, connPort, hostPort int, fetcher *scion.Fetcher) netip.AddrPort {
	t.Helper()
	auditMtrcsOnce.Do(func() { auditMtrcs = newSCIONServerMetrics() })
	conn, err := net.ListenUDP("udp", &net.UDPAddr{IP: net.ParseIP(ip), Port: connPort})
	if err != nil {
		t.Fatalf("listen %s:%d: %v", ip, connPort, err)
	}
	if hostPort == 0 {
		hostPort = conn.LocalAddr().(*net.UDPAddr).Port
	}
	log := slog.New(slog.NewTextHandler(testWriter{t}, &slog.HandlerOptions{Level: slog.LevelDebug}))
	go runSCIONServer(context.Background(), log, auditMtrcs, conn, "", hostPort, 0, fetcher, ntske.NewProvider())
	return conn.LocalAddr().(*net.UDPAddr).AddrPort()
}

type testWriter struct{ t *testing.T }

func (w testWriter) Write(p []byte) (int, error) {
	defer func() { _ = recover() }() // logging after the test ended
	w.t.Logf("server: %s", p)
	return len(p), nil
}

type auditPkt struct {
	srcIA, dstIA     addr.IA
	src, dst         netip.Addr
	srcPort, dstPort uint16
	path             path.Path
	hbh              bool
	e2eOpts          []*slayers.EndToEndOption // options before the authenticator
	authKey          []byte                    // nil: no authenticator
	authSPI          uint32
	payload          []byte
	trafficClass     uint8
}

func auditNTPRequest() []byte {
	var p ntp.Packet
	p.SetVersion(ntp.VersionMax)
	p.SetMode(ntp.ModeClient)
	p.TransmitTime = ntp.Time64FromTime(time.Now())
	var b []byte
	ntp.EncodePacket(&b, &p)
	return b
}

func auditSCIONPath(numHops int, curr int) *scionpath.Decoded {
	p := &scionpath.Decoded{
		Base: scionpath.Base{
			PathMeta: scionpath.MetaHdr{CurrINF: 0, CurrHF: uint8(curr), SegLen: [3]uint8{uint8(numHops), 0, 0}},
			NumINF:   1, NumHops: numHops,
		},
		InfoFields: []path.InfoField{{ConsDir: true, SegID: 0x1234, Timestamp: uint32(time.Now().Unix())}},
	}
	for i := 0; i < numHops; i++ {
		p.HopFields = append(p.HopFields, path.HopField{
			ExpTime: 63, ConsIngress: uint16(i), ConsEgress: uint16(i + 1),
			Mac: [6]byte{byte(i), 1, 2, 3, 4, 5}})
	}
	return p
}

func auditRawPath(p *scionpath.Decoded) *scionpath.Raw {
	b := make([]byte, p.Len())
	if err := p.SerializeTo(b); err != nil {
		panic(err)
	}
	r := &scionpath.Raw{}
	if err := r.DecodeFromBytes(b); err != nil {
		panic(err)
	}
	return r
}

func auditOneHopPath() *onehop.Path {
	return &onehop.Path{
		Info:      path.InfoField{ConsDir: true, SegID: 0x77, Timestamp: uint32(time.Now().Unix())},
		FirstHop:  path.HopField{ExpTime: 63, ConsIngress: 0, ConsEgress: 5, Mac: [6]byte{1, 2, 3, 4, 5, 6}},
		SecondHop: path.HopField{ExpTime: 63, ConsIngress: 7, ConsEgress: 0, Mac: [6]byte{6, 5, 4, 3, 2, 1}},
	}
}

func auditEPICPath() *epic.Path {
	return &epic.Path{
		PktID:     epic.PktID{Timestamp: 0x01020304, Counter: 0x0a0b0c0d},
		PHVF:      []byte{0xa1, 0xa2, 0xa3, 0xa4},
		LHVF:      []byte{0xb1, 0xb2, 0xb3, 0xb4},
		ScionPath: auditRawPath(auditSCIONPath(3, 2)),
	}
}

func (p *auditPkt) build(t *testing.T) []byte {
	t.Helper()
	var s slayers.SCION
	s.Version = 0
	s.TrafficClass = p.trafficClass
	s.FlowID = 0xabcde
	s.SrcIA, s.DstIA = p.srcIA, p.dstIA
	if err := s.SetSrcAddr(addr.HostIP(p.src)); err != nil {
		t.Fatal(err)
	}
	if err := s.SetDstAddr(addr.HostIP(p.dst)); err != nil {
		t.Fatal(err)
	}
	if p.path == nil {
		p.path = empty.Path{}
	}
	s.Path = p.path
	s.PathType = p.path.Type()
	s.NextHdr = slayers.L4UDP

	var u slayers.UDP
	u.SrcPort, u.DstPort = p.srcPort, p.dstPort
	u.SetNetworkLayerForChecksum(&s)

	buffer := gopacket.NewSerializeBuffer()
	options := gopacket.SerializeOptions{ComputeChecksums: true, FixLengths: true}
	pl := gopacket.Payload(p.payload)
	if err := pl.SerializeTo(buffer, options); err != nil {
		t.Fatal(err)
	}
	if err := u.SerializeTo(buffer, options); err != nil {
		t.Fatal(err)
	}
	opts := append([]*slayers.EndToEndOption(nil), p.e2eOpts...)
	if p.authKey != nil {
		ao := &slayers.EndToEndOption{OptData: make([]byte, scion.PacketAuthOptDataLen)}
		scion.PreparePacketAuthOpt(ao, p.authSPI, scion.PacketAuthAlgorithm)
		_, err := spao.ComputeAuthCMAC(spao.MACInput{
			Key: p.authKey, Header: slayers.PacketAuthOption{EndToEndOption: ao},
			ScionLayer: &s, PldType: slayers.L4UDP, Pld: buffer.Bytes(),
		}, make([]byte, spao.MACBufferSize), scion.PacketAuthOptMAC(ao))
		if err != nil {
			t.Fatal(err)
		}
		opts = append(opts, ao)
	}
	if len(opts) != 0 {
		e := slayers.EndToEndExtn{}
		e.NextHdr = slayers.L4UDP
		e.Options = opts
		if err := e.SerializeTo(buffer, options); err != nil {
			t.Fatal(err)
		}
		s.NextHdr = slayers.End2EndClass
	}
	if p.hbh {
		h := slayers.HopByHopExtn{}
		h.NextHdr = s.NextHdr
		h.Options = []*slayers.HopByHopOption{{OptType: slayers.OptTypePadN, OptData: make([]byte, 4)}}
		if err := h.SerializeTo(buffer, options); err != nil {
			t.Fatal(err)
		}
		s.NextHdr = slayers.HopByHopClass
	}
	if err := s.SerializeTo(buffer, options); err != nil {
		t.Fatal(err)
	}
	return append([]byte(nil), buffer.Bytes()...)
}

type auditDecoded struct {
	scn     slayers.SCION
	e2e     slayers.EndToEndExtn
	udp     slayers.UDP
	scmp    slayers.SCMP
	decoded []gopacket.LayerType
	hasE2E  bool
}

func auditDecode(b []byte) (*auditDecoded, error) {
	d := &auditDecoded{}
	var hbh slayers.HopByHopExtnSkipper
	parser := gopacket.NewDecodingLayerParser(slayers.LayerTypeSCION, &d.scn, &hbh, &d.e2e, &d.udp, &d.scmp)
	parser.IgnoreUnsupported = true
	err := parser.DecodeLayers(b, &d.decoded)
	if err != nil {
		return d, err
	}
	for _, l := range d.decoded {
		if l == slayers.LayerTypeEndToEndExtn {
			d.hasE2E = true
		}
	}
	return d, nil
}

// auditVerify reports whether the (decoded) packet carries an authenticator of the
// given SPI that verifies under key.
func (d *auditDecoded) verifies(spi uint32, key []byte) (present, ok bool) {
	if !d.hasE2E {
		return false, false
	}
	ao, err := d.e2e.FindOption(slayers.OptTypeAuthenticator)
	if err != nil || len(ao.OptData) != scion.PacketAuthOptDataLen {
		return false, false
	}
	s, a := scion.PacketAuthOptMetadata(ao)
	if s != spi || a != scion.PacketAuthAlgorithm {
		return false, false
	}
	mac := make([]byte, 16)
	_, err = spao.ComputeAuthCMAC(spao.MACInput{
		Key: key, Header: slayers.PacketAuthOption{EndToEndOption: ao},
		ScionLayer: &d.scn, PldType: slayers.L4UDP,
		Pld: d.udp.Contents[:len(d.udp.Contents)+len(d.udp.Payload)],
	}, make([]byte, spao.MACBufferSize), mac)
	if err != nil {
		return true, false
	}
	return true, string(mac) == string(scion.PacketAuthOptMAC(ao))
}

// auditExchange sends pkt from a fresh socket bound to srcIP to srv and waits for
// one datagram in return.
func auditExchange(t *testing.T, srcIP string, srv netip.AddrPort, pkt []byte, wait time.Duration) ([]byte, bool) {
	t.Helper()
	c, err := net.ListenUDP("udp", &net.UDPAddr{IP: net.ParseIP(srcIP)})
	if err != nil {
		t.Fatal(err)
	}
	defer c.Close()
	return auditExchangeOn(t, c, srv, pkt, wait)
}

func auditExchangeOn(t *testing.T, c *net.UDPConn, srv netip.AddrPort, pkt []byte, wait time.Duration) ([]byte, bool) {
	t.Helper()
	if _, err := c.WriteToUDPAddrPort(pkt, srv); err != nil {
		t.Fatal(err)
	}
	_ = c.SetReadDeadline(time.Now().Add(wait))
	buf := make([]byte, 65536)
	n, _, err := c.ReadFromUDPAddrPort(buf)
	if err != nil {
		return nil, false
	}
	return buf[:n], true
}

func auditPathBytes(p path.Path) []byte {
	b := make([]byte, p.Len())
	if err := p.SerializeTo(b); err != nil {
		panic(err)
	}
	return b
}

// auditSCMPEcho builds an SCMP echo request with the addressing and path of p.
func auditSCMPEcho(t *testing.T, p *auditPkt, data []byte) []byte {
	t.Helper()
	var s slayers.SCION
	s.TrafficClass = p.trafficClass
	s.FlowID = 0xabcde
	s.SrcIA, s.DstIA = p.srcIA, p.dstIA
	if err := s.SetSrcAddr(addr.HostIP(p.src)); err != nil {
		t.Fatal(err)
	}
	if err := s.SetDstAddr(addr.HostIP(p.dst)); err != nil {
		t.Fatal(err)
	}
	if p.path == nil {
		p.path = empty.Path{}
	}
	s.Path, s.PathType = p.path, p.path.Type()
	s.NextHdr = slayers.L4SCMP
	var m slayers.SCMP
	m.TypeCode = slayers.CreateSCMPTypeCode(slayers.SCMPTypeEchoRequest, 0)
	m.SetNetworkLayerForChecksum(&s)
	echo := slayers.SCMPEcho{Identifier: 0x4242, SeqNumber: 7}
	buffer := gopacket.NewSerializeBuffer()
	options := gopacket.SerializeOptions{ComputeChecksums: true, FixLengths: true}
	if err := gopacket.SerializeLayers(buffer, options, &s, &m, &echo, gopacket.Payload(data)); err != nil {
		t.Fatal(err)
	}
	return append([]byte(nil), buffer.Bytes()...)
}
