package client

import (
	"context"
	"crypto/sha256"
	"io"
	"log/slog"
	"math/rand"
	"net"
	"net/netip"
	"testing"
	"time"

	"github.com/google/gopacket"

	"github.com/scionproto/scion/pkg/addr"
	"github.com/scionproto/scion/pkg/daemon"
	"github.com/scionproto/scion/pkg/drkey"
	"github.com/scionproto/scion/pkg/scrypto/cppki"
	"github.com/scionproto/scion/pkg/slayers"
	"github.com/scionproto/scion/pkg/slayers/path"
	scionpath "github.com/scionproto/scion/pkg/slayers/path/scion"
	spath "github.com/scionproto/scion/pkg/snet/path"
	"github.com/scionproto/scion/pkg/spao"

	"example.com/scion-time/core/timebase"
	"example.com/scion-time/driver/clocks"
	"example.com/scion-time/net/ntp"
	"example.com/scion-time/net/scion"
	"example.com/scion-time/net/udp"
)

func init() {
	timebase.RegisterClock(clocks.NewSystemClock(slog.New(slog.DiscardHandler), clocks.UnknownDrift))
}

type auditDaemon struct{ daemon.Connector }

func auditKey(meta drkey.HostHostMeta) drkey.Key {
	h := sha256.Sum256([]byte(meta.SrcIA.String() + "|" + meta.DstIA.String() + "|" + meta.SrcHost + "|" + meta.DstHost))
	var k drkey.Key
	copy(k[:], h[:16])
	return k
}

func (d *auditDaemon) DRKeyGetHostHostKey(ctx context.Context, meta drkey.HostHostMeta) (drkey.HostHostKey, error) {
	now := time.Now()
	return drkey.HostHostKey{ProtoId: meta.ProtoId, SrcIA: meta.SrcIA, DstIA: meta.DstIA,
		SrcHost: meta.SrcHost, DstHost: meta.DstHost,
		Epoch: drkey.Epoch{Validity: cppki.Validity{NotBefore: now.Add(-time.Hour), NotAfter: now.Add(time.Hour)}},
		Key:   auditKey(meta)}, nil
}

type auditDec struct {
	scn     slayers.SCION
	e2e     slayers.EndToEndExtn
	udp     slayers.UDP
	scmp    slayers.SCMP
	decoded []gopacket.LayerType
}

func auditDecode(b []byte) (*auditDec, error) {
	d := &auditDec{}
	var hbh slayers.HopByHopExtnSkipper
	parser := gopacket.NewDecodingLayerParser(slayers.LayerTypeSCION, &d.scn, &hbh, &d.e2e, &d.udp, &d.scmp)
	parser.IgnoreUnsupported = true
	return d, parser.DecodeLayers(b, &d.decoded)
}

// carriesTSAuth: does the packet, by the client's own rule, carry a time-service
// server authenticator, and does it verify under key?
func (d *auditDec) carriesTSAuth(key []byte) (present, ok bool) {
	if len(d.decoded) < 3 || d.decoded[len(d.decoded)-2] != slayers.LayerTypeEndToEndExtn {
		return false, false
	}
	ao, err := d.e2e.FindOption(slayers.OptTypeAuthenticator)
	if err != nil || len(ao.OptData) != scion.PacketAuthOptDataLen {
		return false, false
	}
	s, a := scion.PacketAuthOptMetadata(ao)
	if s != scion.PacketAuthSPIServer || a != scion.PacketAuthAlgorithm {
		return false, false
	}
	mac := make([]byte, 16)
	_, err = spao.ComputeAuthCMAC(spao.MACInput{
		Key: key, Header: slayers.PacketAuthOption{EndToEndOption: ao},
		ScionLayer: &d.scn, PldType: slayers.L4UDP,
		Pld: d.udp.Contents[:len(d.udp.Contents)+len(d.udp.Payload)],
	}, make([]byte, spao.MACBufferSize), mac)
	return true, err == nil && string(mac) == string(scion.PacketAuthOptMAC(ao))
}

// auditRespond builds the genuine authenticated response to request req.
func auditRespond(t *testing.T, req []byte, key []byte) []byte {
	d, err := auditDecode(req)
	if err != nil {
		t.Fatalf("request does not decode: %v", err)
	}
	var q, r ntp.Packet
	if err := ntp.DecodePacket(&q, d.udp.Payload); err != nil {
		t.Fatal(err)
	}
	now := time.Now()
	r.SetVersion(4)
	r.SetMode(ntp.ModeServer)
	r.Stratum = 1
	r.OriginTime = q.TransmitTime
	r.ReceiveTime = ntp.Time64FromTime(now)
	r.TransmitTime = ntp.Time64FromTime(now)
	var pl []byte
	ntp.EncodePacket(&pl, &r)

	s := d.scn
	s.SrcIA, s.DstIA = s.DstIA, s.SrcIA
	s.SrcAddrType, s.DstAddrType = s.DstAddrType, s.SrcAddrType
	s.RawSrcAddr, s.RawDstAddr = s.RawDstAddr, s.RawSrcAddr
	s.Path, err = s.Path.Reverse()
	if err != nil {
		t.Fatal(err)
	}
	s.PathType = s.Path.Type()
	s.NextHdr = slayers.L4UDP
	var u slayers.UDP
	u.SrcPort, u.DstPort = d.udp.DstPort, d.udp.SrcPort
	u.SetNetworkLayerForChecksum(&s)
	buffer := gopacket.NewSerializeBuffer()
	options := gopacket.SerializeOptions{ComputeChecksums: true, FixLengths: true}
	_ = gopacket.Payload(pl).SerializeTo(buffer, options)
	_ = u.SerializeTo(buffer, options)
	ao := &slayers.EndToEndOption{OptData: make([]byte, scion.PacketAuthOptDataLen)}
	scion.PreparePacketAuthOpt(ao, scion.PacketAuthSPIServer, scion.PacketAuthAlgorithm)
	_, err = spao.ComputeAuthCMAC(spao.MACInput{Key: key, Header: slayers.PacketAuthOption{EndToEndOption: ao},
		ScionLayer: &s, PldType: slayers.L4UDP, Pld: buffer.Bytes()},
		make([]byte, spao.MACBufferSize), scion.PacketAuthOptMAC(ao))
	if err != nil {
		t.Fatal(err)
	}
	e := slayers.EndToEndExtn{}
	e.NextHdr = slayers.L4UDP
	e.Options = []*slayers.EndToEndOption{ao}
	if err := e.SerializeTo(buffer, options); err != nil {
		t.Fatal(err)
	}
	s.NextHdr = slayers.End2EndClass
	if err := s.SerializeTo(buffer, options); err != nil {
		t.Fatal(err)
	}
	return append([]byte(nil), buffer.Bytes()...)
}

func auditSCIONRaw(numHops int) []byte {
	p := &scionpath.Decoded{
		Base:       scionpath.Base{PathMeta: scionpath.MetaHdr{SegLen: [3]uint8{uint8(numHops), 0, 0}}, NumINF: 1, NumHops: numHops},
		InfoFields: []path.InfoField{{ConsDir: true, SegID: 0x1234, Timestamp: uint32(time.Now().Unix())}},
	}
	for i := 0; i < numHops; i++ {
		p.HopFields = append(p.HopFields, path.HopField{ExpTime: 63, ConsIngress: uint16(i), ConsEgress: uint16(i + 1), Mac: [6]byte{byte(i), 1, 2, 3, 4, 5}})
	}
	b := make([]byte, p.Len())
	if err := p.SerializeTo(b); err != nil {
		panic(err)
	}
	return b
}

func TestAuditFuzzClient(t *testing.T) {
	srvIA := addr.MustParseIA("1-ff00:0:111")
	cliIA := addr.MustParseIA("1-ff00:0:112")
	srvConn, err := net.ListenUDP("udp", &net.UDPAddr{IP: net.ParseIP("127.0.0.1")})
	if err != nil {
		t.Fatal(err)
	}
	defer srvConn.Close()
	srvPort := srvConn.LocalAddr().(*net.UDPAddr).Port

	localAddr := udp.UDPAddr{IA: cliIA, Host: &net.UDPAddr{IP: net.ParseIP("127.0.0.1")}}
	remoteAddr := udp.UDPAddr{IA: srvIA, Host: &net.UDPAddr{IP: net.ParseIP("127.0.0.1"), Port: srvPort}}
	key := auditKey(drkey.HostHostMeta{SrcIA: srvIA, DstIA: cliIA, SrcHost: "127.0.0.1", DstHost: "127.0.0.1"})

	rng := rand.New(rand.NewSource(7))
	type sent struct{ pkts [][]byte }
	sentc := make(chan sent, 1)
	mode := make(chan int, 1)
	go func() {
		buf := make([]byte, 65536)
		for {
			n, from, err := srvConn.ReadFromUDPAddrPort(buf)
			if err != nil {
				return
			}
			good := auditRespond(t, buf[:n], key[:])
			var m int
			select {
			case m = <-mode:
			default:
				continue // stale request of an earlier iteration
			}
			var out [][]byte
			mut := append([]byte(nil), good...)
			switch m {
			case 0:
			case 1:
				j := rng.Intn(len(mut))
				mut[j] ^= byte(1 << rng.Intn(8))
			case 2:
				for k := rng.Intn(4) + 1; k > 0; k-- {
					mut[rng.Intn(len(mut))] = byte(rng.Intn(256))
				}
			case 3:
				mut = append(mut, make([]byte, rng.Intn(40))...)
			}
			out = append(out, mut)
			_, _ = srvConn.WriteToUDPAddrPort(mut, from)
			sentc <- sent{out}
		}
	}()

	mtrcs := scionMetrics.Load()
	log := slog.New(slog.NewTextHandler(io.Discard, nil))
	accepted, rejected := 0, 0
	for i := 0; i < 4000; i++ {
		c := &SCIONClient{Log: log}
		c.Auth.Enabled = true
		c.Auth.DRKeyFetcher = scion.NewFetcher(&auditDaemon{})
		var p spath.Path
		if i%2 == 0 {
			p = spath.Path{Src: cliIA, Dst: srvIA, DataplanePath: spath.Empty{}, NextHop: &net.UDPAddr{IP: net.ParseIP("127.0.0.1"), Port: srvPort}}
		} else {
			p = spath.Path{Src: cliIA, Dst: srvIA, DataplanePath: spath.SCION{Raw: auditSCIONRaw(2 + i%5)}, NextHop: &net.UDPAddr{IP: net.ParseIP("127.0.0.1"), Port: srvPort}}
		}
		m := rng.Intn(4)
		mode <- m
		ctx, cancel := context.WithTimeout(context.Background(), 20*time.Millisecond)
		_, _, err := c.measureClockOffsetSCION(ctx, mtrcs, localAddr, remoteAddr, p)
		cancel()
		var s sent
		select {
		case s = <-sentc:
		case <-time.After(100 * time.Millisecond):
			select {
			case <-mode:
			default:
			}
			t.Logf("#%d request not seen by the server: %v", i, err)
			continue
		}
		if err != nil {
			rejected++
			if m == 0 {
				t.Errorf("#%d genuine response rejected: %v", i, err)
			}
			continue
		}
		accepted++
		d, derr := auditDecode(s.pkts[0])
		if derr != nil {
			t.Errorf("#%d accepted a response that does not decode: %v", i, derr)
			continue
		}
		present, ok := d.carriesTSAuth(key[:])
		if present && !ok {
			t.Errorf("#%d accepted a response whose time-service authenticator does not verify: % x", i, s.pkts[0])
		}
	}
	t.Logf("accepted %d rejected %d", accepted, rejected)
	_ = netip.Addr{}
}
