package server

import (
	"bytes"
	"math/rand"
	"net"
	"net/netip"
	"testing"
	"time"

	"github.com/scionproto/scion/pkg/addr"
	"github.com/scionproto/scion/pkg/slayers"
	"github.com/scionproto/scion/pkg/slayers/path"

	"example.com/scion-time/net/scion"
)

func TestAuditFuzzServer(t *testing.T) {
	srvIA := addr.MustParseIA("1-ff00:0:111")
	cliIA := addr.MustParseIA("1-ff00:0:112")
	f := scion.NewFetcher(&auditDaemon{})
	srv := auditStartServer(t, "127.0.0.1", 0, 0, f)
	rng := rand.New(rand.NewSource(1))
	c, err := net.ListenUDP("udp", &net.UDPAddr{IP: net.ParseIP("127.0.0.1")})
	if err != nil {
		t.Fatal(err)
	}
	defer c.Close()

	paths := []func() path.Path{
		func() path.Path { return nil },
		func() path.Path { return auditRawPath(auditSCIONPath(2, 1)) },
		func() path.Path { return auditRawPath(auditSCIONPath(4, 3)) },
		func() path.Path { return auditOneHopPath() },
		func() path.Path { return auditEPICPath() },
	}
	fams := [][2]string{{"127.0.0.9", "127.0.0.1"}, {"fd00::9", "fd00::1"}}

	served, dropped, servedUnauth := 0, 0, 0
	N := 6000
	for i := 0; i < N; i++ {
		fam := fams[rng.Intn(len(fams))]
		src, dst := netip.MustParseAddr(fam[0]), netip.MustParseAddr(fam[1])
		key := auditHostHostKey(srvIA, dst.String(), cliIA, src.String())
		p := &auditPkt{srcIA: cliIA, dstIA: srvIA, src: src, dst: dst, srcPort: 4444, dstPort: srv.Port(),
			path: paths[rng.Intn(len(paths))](), authKey: key, authSPI: scion.PacketAuthSPIClient,
			payload: auditNTPRequest(), hbh: rng.Intn(4) == 0}
		if rng.Intn(4) == 0 {
			p.e2eOpts = []*slayers.EndToEndOption{{OptType: slayers.OptTypePadN, OptData: make([]byte, rng.Intn(8))}}
		}
		pkt := p.build(t)
		// mutate
		switch rng.Intn(5) {
		case 0: // nothing
		case 1, 2: // one byte
			j := rng.Intn(len(pkt))
			pkt[j] ^= byte(1 << rng.Intn(8))
		case 3: // several
			for k := rng.Intn(4) + 1; k > 0; k-- {
				j := rng.Intn(len(pkt))
				pkt[j] = byte(rng.Intn(256))
			}
		case 4: // append / truncate
			if rng.Intn(2) == 0 {
				pkt = append(pkt, make([]byte, rng.Intn(64))...)
			} else {
				pkt = pkt[:len(pkt)-rng.Intn(8)]
			}
		}
		resp, ok := auditExchangeOn(t, c, srv, pkt, 4*time.Millisecond)
		if !ok {
			dropped++
			continue
		}
		served++
		// oracle over the mutated request
		d, err := auditDecode(pkt)
		if err != nil {
			t.Errorf("#%d served a packet that does not decode: %v", i, err)
			continue
		}
		last := d.decoded[len(d.decoded)-1]
		if last == slayers.LayerTypeSCMP {
			continue
		}
		reqSrc, _ := netip.AddrFromSlice(d.scn.RawSrcAddr)
		reqDst, _ := netip.AddrFromSlice(d.scn.RawDstAddr)
		k2 := auditHostHostKey(d.scn.DstIA, reqDst.String(), d.scn.SrcIA, reqSrc.String())
		present, vok := d.verifies(scion.PacketAuthSPIClient, k2)
		// "present" by the server's rule: first authenticator option, 28 bytes, SPI, algorithm,
		// and the end-to-end header directly in front of the UDP header
		r, err := auditDecode(resp)
		if err != nil {
			t.Errorf("#%d reply does not decode: %v", i, err)
			continue
		}
		if present && !vok {
			t.Errorf("#%d request with a time-service authenticator that does not verify was served: % x", i, pkt)
			continue
		}
		if !present {
			servedUnauth++
			continue
		}
		rp, rok := r.verifies(scion.PacketAuthSPIServer, k2)
		if !rp || !rok {
			t.Errorf("#%d reply authenticator present=%v verifies=%v; request % x", i, rp, rok, pkt)
		}
		if r.scn.SrcIA != d.scn.DstIA || r.scn.DstIA != d.scn.SrcIA ||
			!bytes.Equal(r.scn.RawSrcAddr, d.scn.RawDstAddr) || !bytes.Equal(r.scn.RawDstAddr, d.scn.RawSrcAddr) ||
			r.scn.SrcAddrType != d.scn.DstAddrType || r.scn.DstAddrType != d.scn.SrcAddrType ||
			r.udp.SrcPort != d.udp.DstPort || r.udp.DstPort != d.udp.SrcPort {
			t.Errorf("#%d reply addressing wrong", i)
		}
	}
	t.Logf("served %d (unauthenticated %d), dropped %d", served, servedUnauth, dropped)
}
