package server

import (
	"fmt"
	"net/netip"
	"testing"
	"time"

	"github.com/scionproto/scion/pkg/addr"
	"github.com/scionproto/scion/pkg/slayers/path"

	"example.com/scion-time/net/scion"
)

func TestAuditSanity(t *testing.T) {
	srvIA := addr.MustParseIA("1-ff00:0:111")
	cliIA := addr.MustParseIA("1-ff00:0:112")
	f := scion.NewFetcher(&auditDaemon{})
	srv := auditStartServer(t, "127.0.0.1", 0, 0, f)
	cases := []struct {
		name string
		p    func() path.Path
	}{
		{"empty", func() path.Path { return nil }},
		{"scion2", func() path.Path { return auditRawPath(auditSCIONPath(2, 1)) }},
		{"scion5", func() path.Path { return auditRawPath(auditSCIONPath(5, 4)) }},
		{"onehop", func() path.Path { return auditOneHopPath() }},
		{"epic", func() path.Path { return auditEPICPath() }},
	}
	for _, fam := range []struct{ src, dst string }{
		{"127.0.0.9", "127.0.0.1"},
		{"fd00::9", "fd00::1"},
		{"::ffff:127.0.0.9", "127.0.0.1"},
	} {
		for _, c := range cases {
			src, dst := netip.MustParseAddr(fam.src), netip.MustParseAddr(fam.dst)
			key := auditHostHostKey(srvIA, dst.String(), cliIA, src.String())
			p := &auditPkt{srcIA: cliIA, dstIA: srvIA, src: src, dst: dst, srcPort: 4444, dstPort: srv.Port(),
				path: c.p(), authKey: key, authSPI: scion.PacketAuthSPIClient, payload: auditNTPRequest()}
			resp, ok := auditExchange(t, "127.0.0.1", srv, p.build(t), 500*time.Millisecond)
			if !ok {
				t.Errorf("%s %s: no reply", fam.src, c.name)
				continue
			}
			d, err := auditDecode(resp)
			if err != nil {
				t.Errorf("%s %s: reply does not decode: %v", fam.src, c.name, err)
				continue
			}
			pr, vok := d.verifies(scion.PacketAuthSPIServer, key)
			fmt.Printf("%s %s: reply pathtype=%d path=%T present=%v verifies=%v src=%v dst=%v sport=%d dport=%d\n",
				fam.src, c.name, d.scn.PathType, d.scn.Path, pr, vok,
				netip.Addr{}, d.scn.RawDstAddr, d.udp.SrcPort, d.udp.DstPort)
			if !pr || !vok {
				t.Errorf("%s %s: authenticator present=%v verifies=%v", fam.src, c.name, pr, vok)
			}
		}
	}
}
