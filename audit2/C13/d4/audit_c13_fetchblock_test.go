package server

import (
	"context"
	"net"
	"net/netip"
	"testing"
	"time"

	"github.com/scionproto/scion/pkg/addr"
	"github.com/scionproto/scion/pkg/drkey"

	"example.com/scion-time/net/scion"
)

type auditStuckDaemon struct {
	auditDaemon
	entered chan struct{}
}

func (d *auditStuckDaemon) DRKeyGetHostASKey(ctx context.Context, meta drkey.HostASMeta) (drkey.HostASKey, error) {
	d.entered <- struct{}{}
	<-ctx.Done() // as a gRPC call without deadline to a daemon that does not answer
	return drkey.HostASKey{}, ctx.Err()
}

// One request with a time-service authenticator from an AS whose key is not cached
// blocks the receiving goroutine in the DRKey fetch for as long as the daemon takes
// (no deadline: the server's context is context.Background()); no other packet on
// that socket is handled meanwhile, neither plain NTP nor SCMP echo nor forwarding.
func TestAuditKeyFetchBlocksListener(t *testing.T) {
	srvIA := addr.MustParseIA("1-ff00:0:111")
	cliIA := addr.MustParseIA("1-ff00:0:112")
	sd := &auditStuckDaemon{entered: make(chan struct{}, 16)}
	srv := auditStartServer(t, "127.0.0.1", 0, 0, scion.NewFetcher(sd))

	src, dst := netip.MustParseAddr("127.0.0.9"), netip.MustParseAddr("127.0.0.1")
	plain := &auditPkt{srcIA: cliIA, dstIA: srvIA, src: src, dst: dst, srcPort: 4444, dstPort: srv.Port(), payload: auditNTPRequest()}
	if _, ok := auditExchange(t, "127.0.0.1", srv, plain.build(t), 500*time.Millisecond); !ok {
		t.Fatalf("plain request not served")
	}
	authd := &auditPkt{srcIA: cliIA, dstIA: srvIA, src: src, dst: dst, srcPort: 4444, dstPort: srv.Port(),
		authKey: make([]byte, 16), authSPI: scion.PacketAuthSPIClient, payload: auditNTPRequest()}
	c, _ := net.ListenUDP("udp", &net.UDPAddr{IP: net.ParseIP("127.0.0.1")})
	defer c.Close()
	_, _ = c.WriteToUDPAddrPort(authd.build(t), srv)
	select {
	case <-sd.entered:
	case <-time.After(time.Second):
		t.Fatalf("key fetch not started")
	}
	plain.payload = auditNTPRequest()
	if _, ok := auditExchange(t, "127.0.0.1", srv, plain.build(t), 3*time.Second); !ok {
		t.Errorf("plain request not served within 3 s while the key fetch for another packet is pending")
	}
}
