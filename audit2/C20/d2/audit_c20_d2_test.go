package ntske_test

// Audit C20, finding d2 (minor).
//
// timeservice.go (newNTPReferenceClockSCION/configureSCIONClientNTS) gives every
// client of a SCION reference clock the same udp.UDPAddr value as
// NTSKEFetcher.QUIC.LocalAddr; the value contains the pointer Host. dialQUIC hands
// it to scion.DialQUIC, whose dialUDP writes the ephemeral port of ITS socket
// through that pointer (localAddr.Host.Port = ...), and every packet of the
// connection takes its SCION/UDP source port from there (baseConn.writePkt). The
// clients of a round measure concurrently (MeasureClockOffsetSCION), so in the
// first round, when all cookie pools are empty, their key exchanges run
// concurrently: the packets of all connections carry the port of whichever
// fetcher dialled last.
//
// The observer below plays the key-exchange server's socket: it decodes the SCION
// and UDP headers of what the fetchers send and compares the SCION/UDP source port
// with the port the datagram really came from. It never answers, so that the
// fetchers keep (re)transmitting until the QUIC handshake times out.

import (
	"context"
	"crypto/tls"
	"io"
	"log/slog"
	"net"
	"sync"
	"testing"
	"time"

	"github.com/google/gopacket"
	"github.com/scionproto/scion/pkg/addr"
	"github.com/scionproto/scion/pkg/slayers"

	"example.com/scion-time/net/ntske"
	"example.com/scion-time/net/udp"
)

func TestAuditC20D2ConcurrentQUICExchangesShareTheSourcePort(t *testing.T) {
	log := slog.New(slog.NewTextHandler(io.Discard, nil))
	ia, err := addr.ParseIA("1-ff00:0:111")
	if err != nil {
		t.Fatal(err)
	}
	obs, err := net.ListenUDP("udp", &net.UDPAddr{IP: net.ParseIP("127.0.0.1")})
	if err != nil {
		t.Fatal(err)
	}
	defer obs.Close()

	type stat struct{ pkts, wrong int }
	var mu sync.Mutex
	stats := map[int]*stat{} // by the port the datagrams really come from
	go func() {
		buf := make([]byte, 2048)
		for {
			n, from, err := obs.ReadFromUDP(buf)
			if err != nil {
				return
			}
			var (
				scionLayer slayers.SCION
				udpLayer   slayers.UDP
			)
			parser := gopacket.NewDecodingLayerParser(slayers.LayerTypeSCION, &scionLayer, &udpLayer)
			parser.IgnoreUnsupported = true
			decoded := make([]gopacket.LayerType, 0, 2)
			if err := parser.DecodeLayers(buf[:n], &decoded); err != nil || len(decoded) != 2 {
				continue
			}
			mu.Lock()
			s := stats[from.Port]
			if s == nil {
				s = &stat{}
				stats[from.Port] = s
			}
			s.pkts++
			if int(udpLayer.SrcPort) != from.Port {
				s.wrong++
			}
			mu.Unlock()
		}
	}()

	// as in timeservice.go: ONE local and ONE remote address value for all clients
	localAddr := udp.UDPAddr{IA: ia, Host: &net.UDPAddr{IP: net.ParseIP("127.0.0.1")}}
	remoteAddr := udp.UDPAddr{IA: ia, Host: obs.LocalAddr().(*net.UDPAddr)}
	const numClients = 5
	fetchers := make([]*ntske.Fetcher, numClients)
	for i := range fetchers {
		f := &ntske.Fetcher{}
		f.TLSConfig = tls.Config{
			NextProtos:         []string{"ntske/1"},
			InsecureSkipVerify: true,
			ServerName:         "127.0.0.1",
			MinVersion:         tls.VersionTLS13,
		}
		f.Log = log
		f.QUIC.Enabled = true
		f.QUIC.LocalAddr = localAddr
		f.QUIC.RemoteAddr = remoteAddr
		fetchers[i] = f
	}

	// first round: all pools are empty, the clients measure concurrently
	var wg sync.WaitGroup
	for _, f := range fetchers {
		wg.Add(1)
		go func() {
			defer wg.Done()
			ctx, cancel := context.WithTimeout(context.Background(), 500*time.Millisecond)
			defer cancel()
			_, _ = f.FetchData(ctx) // fails: the observer does not answer
		}()
	}
	wg.Wait()

	mu.Lock()
	defer mu.Unlock()
	affected := 0
	for port, s := range stats {
		t.Logf("fetcher socket :%d sent %d packet(s), %d of them with another socket's port as SCION/UDP source port",
			port, s.pkts, s.wrong)
		if s.wrong != 0 {
			affected++
		}
	}
	if affected != 0 {
		t.Errorf("%d of %d concurrent key exchanges sent packets carrying the source port of another exchange",
			affected, len(stats))
	}
}
