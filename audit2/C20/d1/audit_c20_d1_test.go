package client_test

// Audit C20, finding d1.
//
// A stale measurement goroutine (left over from a round whose key exchange hung in
// the TLS dial) fails its key exchange while the measurement of the current round
// waits for the NTP response to a request built from the last cookie of the pool.
// FetchData wipes the fetcher's data (keys included) on the failed exchange; the
// response of the current round then stores its fresh cookies next to the wiped
// keys. The next request finds a non-empty pool, performs NO key exchange, is built
// with empty keys and panics in the AEAD ("siv: bad key size").
//
// The client is wired like timeservice.go wires it (newNTPReferenceClockIP +
// configureIPClientNTS) and driven like core/sync drives it
// (ReferenceClockClient.MeasureClockOffsets with a timeout per round).

import (
	"bufio"
	"context"
	"crypto/ecdsa"
	"crypto/elliptic"
	"crypto/rand"
	"crypto/tls"
	"crypto/x509"
	"crypto/x509/pkix"
	"fmt"
	"io"
	"log/slog"
	"math/big"
	"net"
	"net/netip"
	"strconv"
	"sync"
	"testing"
	"time"

	"example.com/scion-time/core/client"
	"example.com/scion-time/core/measurements"
	"example.com/scion-time/core/timebase"
	"example.com/scion-time/net/ntp"
	"example.com/scion-time/net/nts"
	"example.com/scion-time/net/ntske"
)

// ---- a clock that only reads the system time (never steps or adjusts) ----

type d1Clock struct{}

func (d1Clock) Epoch() uint64                                { return 0 }
func (d1Clock) Now() time.Time                               { return time.Now() }
func (d1Clock) Drift(time.Duration) time.Duration            { return 0 }
func (d1Clock) Step(time.Duration)                           {}
func (d1Clock) Adjust(time.Duration, time.Duration, float64) {}
func (d1Clock) Sleep(d time.Duration)                        { time.Sleep(d) }

var d1ClockOnce sync.Once

// ---- key material shared by the fake NTS-KE server and the fake NTP server ----

type d1Keys struct{ c2s, s2c []byte }

type d1KeyStore struct {
	mu   sync.Mutex
	keys map[string]d1Keys
}

func (s *d1KeyStore) newCookie(k d1Keys) []byte {
	c := make([]byte, 100)
	_, _ = rand.Read(c)
	s.mu.Lock()
	s.keys[string(c)] = k
	s.mu.Unlock()
	return c
}

func (s *d1KeyStore) lookup(c []byte) (d1Keys, bool) {
	s.mu.Lock()
	defer s.mu.Unlock()
	k, ok := s.keys[string(c)]
	return k, ok
}

// ---- fake NTS-KE server: conformant, issues ONE cookie per exchange; while the
// gate is closed it accepts TCP connections but does not start the TLS handshake
// (a hung server) ----

type d1KEServer struct {
	ln      net.Listener
	tlsCfg  *tls.Config
	gate    chan struct{}
	ntpPort uint16
	cookies int // cookie records per exchange
	store   *d1KeyStore
	log     *slog.Logger

	mu        sync.Mutex
	accepted  int
	completed int
}

func (s *d1KEServer) run() {
	for {
		c, err := s.ln.Accept()
		if err != nil {
			return
		}
		s.mu.Lock()
		s.accepted++
		s.mu.Unlock()
		go s.handle(c)
	}
}

func (s *d1KEServer) counts() (int, int) {
	s.mu.Lock()
	defer s.mu.Unlock()
	return s.accepted, s.completed
}

func (s *d1KEServer) handle(c net.Conn) {
	defer c.Close()
	<-s.gate
	_ = c.SetDeadline(time.Now().Add(2 * time.Second))
	tc := tls.Server(c, s.tlsCfg)
	if err := tc.Handshake(); err != nil {
		return
	}
	ctx := context.Background()
	var req ntske.Data
	if err := ntske.ReadData(ctx, s.log, bufio.NewReader(tc), &req); err != nil {
		return // client gave up (its deadline had passed)
	}
	var d ntske.Data
	if err := ntske.ExportKeys(tc.ConnectionState(), &d); err != nil {
		return
	}
	var msg ntske.ExchangeMsg
	msg.AddRecord(ntske.NextProto{NextProto: ntske.NTPv4})
	msg.AddRecord(ntske.Algorithm{Algo: []uint16{ntske.AES_SIV_CMAC_256}})
	msg.AddRecord(ntske.Server{Addr: []byte("127.0.0.1")})
	msg.AddRecord(ntske.Port{Port: s.ntpPort})
	for i := 0; i < s.cookies; i++ {
		msg.AddRecord(ntske.Cookie{Cookie: s.store.newCookie(d1Keys{d.C2sKey, d.S2cKey})})
	}
	msg.AddRecord(ntske.End{})
	buf, err := msg.Pack()
	if err != nil {
		return
	}
	if _, err := tc.Write(buf.Bytes()); err != nil {
		return
	}
	s.mu.Lock()
	s.completed++
	s.mu.Unlock()
	_, _ = io.Copy(io.Discard, tc) // until the client closes
}

// ---- fake NTS-protected NTP server: authenticates the request with the keys of
// its cookie, answers after a delay with as many fresh cookies as the request asks
// for ----

type d1NTPServer struct {
	conn  *net.UDPConn
	store *d1KeyStore
	delay time.Duration

	mu       sync.Mutex
	requests int
}

func (s *d1NTPServer) run() {
	for {
		buf := make([]byte, 2048)
		n, addr, err := s.conn.ReadFromUDPAddrPort(buf)
		if err != nil {
			return
		}
		go s.handle(buf[:n], addr)
	}
}

func (s *d1NTPServer) handle(b []byte, addr netip.AddrPort) {
	rxt := time.Now()
	var req ntp.Packet
	if ntp.DecodePacket(&req, b) != nil {
		return
	}
	var nreq nts.Packet
	if nts.DecodePacket(&nreq, b) != nil {
		return
	}
	cookie, err := nreq.FirstCookie()
	if err != nil {
		return
	}
	k, ok := s.store.lookup(cookie)
	if !ok {
		return
	}
	if nts.ProcessRequest(b, k.c2s, &nreq) != nil {
		return
	}
	s.mu.Lock()
	s.requests++
	s.mu.Unlock()

	time.Sleep(s.delay)

	var resp ntp.Packet
	resp.SetVersion(ntp.VersionMax)
	resp.SetMode(ntp.ModeServer)
	resp.Stratum = 1
	resp.OriginTime = req.TransmitTime
	resp.ReceiveTime = ntp.Time64FromTime(rxt)
	resp.TransmitTime = ntp.Time64FromTime(time.Now())
	out := make([]byte, ntp.PacketLen)
	ntp.EncodePacket(&out, &resp)

	var cookies [][]byte
	for i := 0; i < 1+len(nreq.CookiePlaceholders); i++ {
		cookies = append(cookies, s.store.newCookie(k))
	}
	nresp := nts.NewResponsePacket(cookies, k.s2c, nreq.UniqueID.ID)
	nts.EncodePacket(&out, &nresp)
	_, _ = s.conn.WriteToUDPAddrPort(out, addr)
}

// ---- the reference clock as timeservice.go builds it (ntpReferenceClockIP); the
// only addition is the recover(), which lets the test report the panic that takes
// the real service down ----

type d1RefClock struct {
	log        *slog.Logger
	ntpc       *client.IPClient
	localAddr  *net.UDPAddr
	remoteAddr *net.UDPAddr

	mu     sync.Mutex
	panics []string
}

func (c *d1RefClock) MeasureClockOffset(ctx context.Context) (ts time.Time, off time.Duration, err error) {
	defer func() {
		if r := recover(); r != nil {
			c.mu.Lock()
			c.panics = append(c.panics, fmt.Sprint(r))
			c.mu.Unlock()
			err = fmt.Errorf("panic: %v", r)
		}
	}()
	return client.MeasureClockOffsetIP(ctx, c.log, c.ntpc, c.localAddr, c.remoteAddr)
}

func d1SelfSignedCert(t *testing.T) tls.Certificate {
	t.Helper()
	key, err := ecdsa.GenerateKey(elliptic.P256(), rand.Reader)
	if err != nil {
		t.Fatal(err)
	}
	tmpl := &x509.Certificate{
		SerialNumber: big.NewInt(1),
		Subject:      pkix.Name{CommonName: "127.0.0.1"},
		NotBefore:    time.Now().Add(-time.Hour),
		NotAfter:     time.Now().Add(time.Hour),
		IPAddresses:  []net.IP{net.ParseIP("127.0.0.1")},
		KeyUsage:     x509.KeyUsageDigitalSignature,
		ExtKeyUsage:  []x509.ExtKeyUsage{x509.ExtKeyUsageServerAuth},
	}
	der, err := x509.CreateCertificate(rand.Reader, tmpl, tmpl, &key.PublicKey, key)
	if err != nil {
		t.Fatal(err)
	}
	return tls.Certificate{Certificate: [][]byte{der}, PrivateKey: key}
}

// A key-exchange server that issues one cookie per exchange ("at least one cookie")
// and hangs for one round.
func TestAuditC20D1StaleFailedExchangeWipesKeysUnderRequestInFlight(t *testing.T) {
	d1Run(t, 1, 1)
}

// A key-exchange server that issues eight cookies per exchange (as core/server does)
// and hangs for six rounds: the leftover goroutines of these rounds burn seven
// cookies and then fail an exchange of their own.
func TestAuditC20D1EightCookies(t *testing.T) {
	d1Run(t, 8, 6)
}

func d1Run(t *testing.T, cookiesPerExchange, hungRounds int) {
	d1ClockOnce.Do(func() { timebase.RegisterClock(d1Clock{}) })
	log := slog.New(slog.NewTextHandler(io.Discard, nil))

	store := &d1KeyStore{keys: map[string]d1Keys{}}

	uc, err := net.ListenUDP("udp", &net.UDPAddr{IP: net.ParseIP("127.0.0.1")})
	if err != nil {
		t.Fatal(err)
	}
	defer uc.Close()
	ntpSrv := &d1NTPServer{conn: uc, store: store, delay: 100 * time.Millisecond}
	go ntpSrv.run()

	ln, err := net.Listen("tcp", "127.0.0.1:0")
	if err != nil {
		t.Fatal(err)
	}
	defer ln.Close()
	keSrv := &d1KEServer{
		ln: ln,
		tlsCfg: &tls.Config{
			Certificates: []tls.Certificate{d1SelfSignedCert(t)},
			NextProtos:   []string{"ntske/1"},
			MinVersion:   tls.VersionTLS13,
		},
		gate:    make(chan struct{}),
		ntpPort: uint16(uc.LocalAddr().(*net.UDPAddr).Port),
		cookies: cookiesPerExchange,
		store:   store,
		log:     log,
	}
	go keSrv.run()
	kePort := ln.Addr().(*net.TCPAddr).Port

	// timeservice.go: newNTPReferenceClockIP + configureIPClientNTS
	ntpc := &client.IPClient{Log: log, InterleavedMode: true}
	ntpc.Auth.Enabled = true
	ntpc.Auth.NTSKEFetcher.TLSConfig = tls.Config{
		NextProtos:         []string{"ntske/1"},
		InsecureSkipVerify: true,
		ServerName:         "127.0.0.1",
		MinVersion:         tls.VersionTLS13,
	}
	ntpc.Auth.NTSKEFetcher.Port = strconv.Itoa(kePort)
	ntpc.Auth.NTSKEFetcher.Log = log
	refclk := &d1RefClock{
		log:        log,
		ntpc:       ntpc,
		localAddr:  &net.UDPAddr{IP: net.ParseIP("127.0.0.1")},
		remoteAddr: &net.UDPAddr{IP: net.ParseIP("127.0.0.1"), Port: kePort},
	}

	// core/sync: one round = MeasureClockOffsets with a timeout; the rounds follow
	// each other at a fixed interval (timeout <= interval/2)
	const (
		syncTimeout  = 300 * time.Millisecond
		syncInterval = 600 * time.Millisecond
	)
	var rcc client.ReferenceClockClient
	refclks := []client.ReferenceClock{refclk}
	ms := make([]measurements.Measurement, 1)
	round := func(i int) {
		ctx, cancel := context.WithTimeout(context.Background(), syncTimeout)
		defer cancel()
		n := rcc.MeasureClockOffsets(ctx, refclks, ms)
		acc, compl := keSrv.counts()
		t.Logf("round %d: %d measurement(s); NTS-KE connections accepted=%d, exchanges completed=%d",
			i, n, acc, compl)
	}

	start := time.Now()
	at := func(d time.Duration) { time.Sleep(time.Until(start.Add(d))) }

	// The NTS-KE server hangs (accepts, no TLS handshake) for hungRounds rounds and
	// until 100 ms into the next one.
	time.AfterFunc(time.Duration(hungRounds)*syncInterval+100*time.Millisecond, func() { close(keSrv.gate) })

	// rounds 1..hungRounds: the key exchange hangs in the dial; the round gives up,
	// its goroutine goes on.
	// round hungRounds+1: waits for the old exchange, then does its own one and
	// gets an authenticated response.
	for i := 1; i <= hungRounds+2; i++ {
		round(i)
		at(time.Duration(i) * syncInterval)
	}

	acc, compl := keSrv.counts()
	refclk.mu.Lock()
	panics := append([]string(nil), refclk.panics...)
	refclk.mu.Unlock()
	t.Logf("NTS-KE connections accepted=%d, exchanges completed=%d, NTP requests authenticated=%d",
		acc, compl, ntpSrv.requests)

	// What the next request of the client is going to use.
	accBefore, _ := keSrv.counts()
	ctx, cancel := context.WithTimeout(context.Background(), syncTimeout)
	defer cancel()
	data, err := ntpc.Auth.NTSKEFetcher.FetchData(ctx)
	accAfter, _ := keSrv.counts()
	if err == nil && (len(data.C2sKey) != 32 || len(data.S2cKey) != 32) {
		t.Errorf("FetchData after a failed exchange: no error, %d new NTS-KE connection(s), "+
			"C2S key %d bytes, S2C key %d bytes, server %q, port %d, algorithm %d, %d cookie(s) in the pool",
			accAfter-accBefore, len(data.C2sKey), len(data.S2cKey), data.Server, data.Port, data.Algo, len(data.Cookie))
	}
	for i, p := range panics {
		t.Errorf("measurement %d panicked (the service has no recover: the process dies): %s", i+1, p)
	}
}
