//go:build verif

// Property C06, audit round 2, finding d1.
//
// updateTXTimestamp finds the exchange it belongs to by (client id, receive
// timestamp) only. Receive timestamps are kept distinct only among the
// exchanges *currently on record*. When the record of an exchange has left the
// store (its client sent the interleaved follow-up, or it was the oldest of
// eight) while the listener that sent the reply is still waiting for the
// kernel transmit timestamp, and a later request of the same client is stamped
// with the same receive time (equal / decreasing receive timestamps, e.g. after
// a backward clock step), the late update of the FIRST exchange is applied to
// the record of the LATER one.
//
// Place this file in core/server/c06d1/ and run
//
//	go test -tags verif -v ./core/server/c06d1/
package c06d1_test

import (
	"testing"
	"time"

	"example.com/scion-time/core/server"
	"example.com/scion-time/core/timebase"
	"example.com/scion-time/net/ntp"
)

type fakeClock struct{ now time.Time }

func (c *fakeClock) Epoch() uint64                                { return 0 }
func (c *fakeClock) Now() time.Time                               { return c.now }
func (c *fakeClock) Drift(time.Duration) time.Duration            { return 0 }
func (c *fakeClock) Step(time.Duration)                           {}
func (c *fakeClock) Adjust(time.Duration, time.Duration, float64) {}
func (c *fakeClock) Sleep(time.Duration)                          {}

var clk = &fakeClock{}

func init() { timebase.RegisterClock(clk) }

const us = time.Microsecond

var base = time.Unix(1790000000, 0).UTC()

func at(d time.Duration) time.Time   { return base.Add(d) }
func t64(d time.Duration) ntp.Time64 { return ntp.Time64FromTime(at(d)) }

// handle runs handleRequest like a listener does and returns the reply and the
// (rxt, txt0) pair the listener keeps for its later updateTXTimestamp call.
func handle(client string, rx, clock time.Duration, origin ntp.Time64, interleaved bool) (
	resp ntp.Packet, rxt, txt0 time.Time) {
	var req ntp.Packet
	req.SetVersion(4)
	req.SetMode(ntp.ModeClient)
	req.OriginTime = origin
	req.TransmitTime = ntp.Time64{Seconds: 7, Fraction: 7}
	req.ReceiveTime = req.TransmitTime
	if interleaved {
		req.ReceiveTime = ntp.Time64{Seconds: 5, Fraction: 5}
	}
	rxt = at(rx)
	clk.now = at(clock)
	server.VerifHandleRequest(client, &req, &rxt, &txt0, &resp)
	return
}

func update(client string, rxt, txt time.Time) { server.VerifUpdateTXTimestamp(client, rxt, &txt) }

func isInterleaved(resp ntp.Packet) bool {
	return resp.OriginTime == ntp.Time64{Seconds: 5, Fraction: 5}
}

// Exchange 3 never gets a kernel transmit timestamp, is kept nevertheless and
// served in interleaved mode with its software time.
func TestLostTimestampKeptAfterStaleUpdate(t *testing.T) {
	server.VerifReset()
	const A = "client-A"
	R := 100 * us

	// listener 1: exchange 1, rx = R; the reply is sent, the listener waits for
	// the kernel transmit timestamp
	_, rxt1, _ := handle(A, R, R+10*us, ntp.Time64{}, false)
	// listener 2: the client's interleaved follow-up to exchange 1 (exchange 2)
	resp2, rxt2, _ := handle(A, R+300*us, R+310*us, t64(R), true)
	if !isInterleaved(resp2) {
		t.Fatal("setup: exchange 2 not interleaved")
	}
	update(A, rxt2, at(R+330*us)) // kernel time of reply 2
	// listener 2: exchange 3 is stamped with the same receive time R again
	// (the record of exchange 1 is gone, so R is not recognized as a collision)
	resp3, rxt3, txt03 := handle(A, R, R+500*us, ntp.Time64{}, false)
	if resp3.ReceiveTime != t64(R) {
		t.Fatal("setup: exchange 3 does not have rx = R")
	}
	// listener 1: the kernel transmit timestamp of reply 1 turns up
	K1 := R + 20*us
	update(A, rxt1, at(K1))
	// listener 2: no kernel transmit timestamp for reply 3 -> software time passed back
	update(A, rxt3, txt03)

	recs, _, _ := server.VerifSnapshot(A)
	t.Logf("records of %s: %+v", A, recs)
	for _, r := range recs {
		if r.RX == t64(R) {
			t.Errorf("exchange 3 (rx=%v) is still on record with tx=%v although no kernel transmit timestamp could be read for it",
				r.RX, r.TX)
		}
	}
	// the client's follow-up to exchange 3
	resp4, _, _ := handle(A, R+900*us, R+910*us, t64(R), true)
	if isInterleaved(resp4) {
		t.Errorf("interleaved reply served from the exchange without kernel transmit timestamp: tx=%v (software time of exchange 3 = %v)",
			resp4.TransmitTime, ntp.Time64FromTime(txt03))
	}
}

// Exchange 3 is served in interleaved mode with the kernel transmit time of
// reply 1, i.e. of another packet, sent before request 3 was even handled.
func TestTransmitTimeOfAnotherReplyServed(t *testing.T) {
	server.VerifReset()
	const A = "client-A"
	R := 100 * us

	_, rxt1, _ := handle(A, R, R+10*us, ntp.Time64{}, false)  // listener 1, exchange 1
	_, rxt2, _ := handle(A, R+300*us, R+310*us, t64(R), true) // listener 2, exchange 2 (interleaved)
	update(A, rxt2, at(R+330*us))
	_, rxt3, txt03 := handle(A, R, R+500*us, ntp.Time64{}, false) // listener 2, exchange 3, rx = R again
	K1, K3 := R+20*us, R+520*us
	update(A, rxt3, at(K3)) // listener 2 reads the kernel time of reply 3
	update(A, rxt1, at(K1)) // listener 1 at last reads the kernel time of reply 1

	resp4, _, _ := handle(A, R+900*us, R+910*us, t64(R), true)
	if !isInterleaved(resp4) {
		t.Fatal("no interleaved reply")
	}
	t.Logf("reply 3: software tx %v, kernel tx %v; reply 1: kernel tx %v; served: %v",
		ntp.Time64FromTime(txt03), t64(K3), t64(K1), resp4.TransmitTime)
	if resp4.TransmitTime != t64(K3) {
		t.Errorf("interleaved reply to the follow-up of exchange 3 carries tx=%v, the kernel transmit time of reply 1, not %v, that of reply 3 (off by %v)",
			resp4.TransmitTime, t64(K3), K3-K1)
	}
}

// Same defect without any interleaved request: the record of exchange 1 leaves
// the store as the oldest of eight.
func TestStaleUpdateAfterOldestReplaced(t *testing.T) {
	server.VerifReset()
	const A = "client-A"
	R := 100 * us
	_, rxt1, _ := handle(A, R, R+10*us, ntp.Time64{}, false) // listener 1, exchange 1, update pending
	for i := 1; i <= server.VerifTSSItemCap; i++ {           // listener 2: eight more exchanges
		d := R + time.Duration(i)*20*us
		_, rxt, _ := handle(A, d, d+5*us, ntp.Time64{}, false)
		update(A, rxt, at(d+8*us))
	}
	_, rxt10, txt010 := handle(A, R, R+400*us, ntp.Time64{}, false) // rx = R again
	update(A, rxt1, at(R+15*us))                                    // stale update of exchange 1
	update(A, rxt10, txt010)                                        // exchange 10: timestamp lost
	recs, _, _ := server.VerifSnapshot(A)
	for _, r := range recs {
		if r.RX == t64(R) {
			t.Errorf("exchange 10 (rx=%v) kept with tx=%v although its kernel transmit timestamp was lost", r.RX, r.TX)
		}
	}
}
