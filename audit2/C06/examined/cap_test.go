//go:build verif

package audit2c06_test

import (
	"fmt"
	"testing"
	"time"

	"example.com/scion-time/core/server"
	"example.com/scion-time/net/ntp"
)

func TestCapacity(t *testing.T) {
	server.VerifReset()
	base := time.Unix(1790000000, 0)
	for i := 0; i < server.VerifTSSCap; i++ {
		c := fmt.Sprintf("c%d", i)
		rxt := base.Add(time.Duration(i) * time.Microsecond)
		clk.now = rxt.Add(10)
		var req, resp ntp.Packet
		var txt time.Time
		server.VerifHandleRequest(c, &req, &rxt, &txt, &resp)
	}
	if n := server.VerifLen(); n != server.VerifTSSCap {
		t.Fatal(n)
	}
	// older than everyone: not admitted
	rxt := base.Add(-time.Second)
	clk.now = rxt.Add(10)
	var req, resp ntp.Packet
	req.TransmitTime = ntp.Time64{Seconds: 1, Fraction: 2}
	var txt time.Time
	server.VerifHandleRequest("old", &req, &rxt, &txt, &resp)
	if _, _, ok := server.VerifSnapshot("old"); ok {
		t.Error("admitted")
	}
	if resp.OriginTime != req.TransmitTime || !resp.TransmitTime.After(resp.ReceiveTime) {
		t.Error("bad reply")
	}
	server.VerifUpdateTXTimestamp("old", rxt, &txt)
	// newer: evicts c0
	rxt = base.Add(10 * time.Second)
	clk.now = rxt.Add(10)
	server.VerifHandleRequest("new", &req, &rxt, &txt, &resp)
	if _, _, ok := server.VerifSnapshot("new"); !ok {
		t.Error("not admitted")
	}
	if _, _, ok := server.VerifSnapshot("c0"); ok {
		t.Error("c0 not evicted")
	}
	// c0 asks interleaved with its old rx: must be basic now
	req.OriginTime = ntp.Time64FromTime(base)
	req.ReceiveTime = ntp.Time64{Seconds: 5}
	rxt = base.Add(11 * time.Second)
	clk.now = rxt.Add(10)
	server.VerifHandleRequest("c0", &req, &rxt, &txt, &resp)
	if resp.OriginTime != req.TransmitTime {
		t.Error("interleaved from evicted state")
	}
	if _, _, err := server.VerifCheckStore(); err != nil {
		t.Error(err)
	}
	server.VerifReset()
}
