//go:build verif

package audit2c06b_test

import (
	"context"
	"log/slog"
	"net"
	"os"
	"sync"
	"testing"
	"time"

	"example.com/scion-time/core/server"
	"example.com/scion-time/core/timebase"
	"example.com/scion-time/driver/clocks"
	"example.com/scion-time/net/ntp"
	"example.com/scion-time/net/ntske"
	"example.com/scion-time/net/udp"
)

func init() {
	timebase.RegisterClock(clocks.NewSystemClock(slog.New(slog.DiscardHandler), clocks.UnknownDrift))
}

type reply struct {
	resp ntp.Packet
	at   time.Time
}

func exchange(t *testing.T, c *net.UDPConn, req *ntp.Packet) (reply, bool) {
	var b []byte
	ntp.EncodePacket(&b, req)
	if _, err := c.Write(b); err != nil {
		t.Fatal(err)
	}
	buf := make([]byte, 512)
	c.SetReadDeadline(time.Now().Add(300 * time.Millisecond))
	n, err := c.Read(buf)
	at := timebase.Now()
	if err != nil {
		return reply{}, false
	}
	var r reply
	if err := ntp.DecodePacket(&r.resp, buf[:n]); err != nil {
		t.Fatal(err)
	}
	r.at = at
	return r, true
}

func runClient(t *testing.T, addr *net.UDPAddr, rounds int, late bool, errs chan<- string) {
	c, err := net.DialUDP("udp", nil, addr)
	if err != nil {
		t.Fatal(err)
	}
	defer c.Close()
	var prev reply
	havePrev := false
	var prevSent time.Time
	for i := 0; i < rounds; i++ {
		var req ntp.Packet
		req.SetVersion(4)
		req.SetMode(ntp.ModeClient)
		sent := timebase.Now()
		req.TransmitTime = ntp.Time64FromTime(sent)
		if havePrev {
			req.OriginTime = prev.resp.ReceiveTime
			req.ReceiveTime = ntp.Time64FromTime(prev.at)
		}
		if late && i%5 == 2 {
			udp.VerifLateTXTimestamps(1)
		}
		r, ok := exchange(t, c, &req)
		if !ok {
			errs <- "no reply"
			havePrev = false
			continue
		}
		rx := ntp.TimeFromTime64(r.resp.ReceiveTime, sent)
		tx := ntp.TimeFromTime64(r.resp.TransmitTime, sent)
		if rx.Before(sent.Add(-time.Microsecond)) || rx.After(r.at) {
			errs <- "rx outside [sent, received]"
		}
		if havePrev && r.resp.OriginTime == req.ReceiveTime && req.ReceiveTime != req.TransmitTime {
			errs <- "(info) interleaved reply"
			prx := ntp.TimeFromTime64(prev.resp.ReceiveTime, sent)
			if !tx.After(prx) {
				errs <- "interleaved tx not after the previous rx"
			}
			if tx.After(prev.at.Add(time.Microsecond)) {
				errs <- "interleaved tx " + tx.String() + " after the previous reply was received " + prev.at.String()
			}
			if tx.Before(prevSent) {
				errs <- "interleaved tx before previous request sent"
			}
		} else {
			if r.resp.OriginTime != req.TransmitTime {
				errs <- "basic origin mismatch"
			}
			if !tx.After(rx) || tx.After(r.at.Add(time.Microsecond)) {
				errs <- "basic tx not in (rx, received]"
			}
		}
		prev, havePrev, prevSent = r, true, sent
	}
}

func TestLoopback(t *testing.T) {
	for _, host := range []string{hostEnv()} {
		addr := &net.UDPAddr{IP: net.ParseIP(host), Port: 41123}
		server.StartIPServer(context.Background(), slog.New(slog.DiscardHandler), addr, 0, ntske.NewProvider())
		time.Sleep(50 * time.Millisecond)
		for _, late := range []bool{false, true} {
			errs := make(chan string, 100000)
			var wg sync.WaitGroup
			for k := 0; k < 6; k++ {
				wg.Add(1)
				go func() { defer wg.Done(); runClient(t, addr, 300, late, errs) }()
			}
			wg.Wait()
			close(errs)
			cnt := map[string]int{}
			for e := range errs {
				if len(e) > 60 {
					e = e[:60]
				}
				cnt[e]++
			}
			t.Logf("%s late=%v: %v", host, late, cnt)
			recs, _, _ := server.VerifSnapshot(host)
			t.Logf("records: %d", len(recs))
		}
	}
}

func hostEnv() string {
	if h := os.Getenv("C06HOST"); h != "" {
		return h
	}
	return "127.0.0.1"
}
