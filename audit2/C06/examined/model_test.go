//go:build verif

package audit2c06_test

import (
	"fmt"
	"math/rand"
	"testing"
	"time"

	"example.com/scion-time/core/server"
	"example.com/scion-time/core/timebase"
	"example.com/scion-time/net/ntp"
)

type fakeClock struct{ now time.Time }

func (c *fakeClock) Epoch() uint64                                  { return 0 }
func (c *fakeClock) Now() time.Time                                 { return c.now }
func (c *fakeClock) Drift(time.Duration) time.Duration              { return 0 }
func (c *fakeClock) Step(time.Duration)                             {}
func (c *fakeClock) Adjust(time.Duration, time.Duration, float64)   {}
func (c *fakeClock) Sleep(time.Duration)                            {}

var clk = &fakeClock{}
var staleHits int
var bigJumps bool
const era = time.Duration(1<<32) * time.Second

func init() { timebase.RegisterClock(clk) }

type mrec struct {
	exch  int
	tx    ntp.Time64
	tainted bool
	lost  bool // update with lost timestamp has been applied to this exchange (must not be on record)
}

type pending struct {
	active bool
	client string
	rxt    time.Time
	txt0   time.Time
	exch   int
}

func snap(c string) map[ntp.Time64]ntp.Time64 {
	m := map[ntp.Time64]ntp.Time64{}
	recs, _, _ := server.VerifSnapshot(c)
	for _, r := range recs {
		if _, dup := m[r.RX]; dup {
			panic("duplicate rx in store")
		}
		m[r.RX] = r.TX
	}
	return m
}

func runHistory(seed int64, base time.Time, steps int, span int) (trace []string, err error) {
	rng := rand.New(rand.NewSource(seed))
	server.VerifReset()
	clients := []string{"A", "B"}
	model := map[string]map[ntp.Time64]*mrec{"A": {}, "B": {}}
	seenRx := map[string][]ntp.Time64{}
	var ls [3]pending
	exch := 0
	logf := func(f string, a ...any) { trace = append(trace, fmt.Sprintf(f, a...)) }
	compare := func(c string) error {
		real := snap(c)
		m := model[c]
		if len(real) != len(m) {
			return fmt.Errorf("client %s: store has %d records, model %d: real=%v", c, len(real), len(m), real)
		}
		for rx, tx := range real {
			e, ok := m[rx]
			if !ok {
				return fmt.Errorf("client %s: store has record rx=%v unknown to model", c, rx)
			}
			if e.tainted {
				e.tx = tx
				continue
			}
			if e.tx != tx {
				return fmt.Errorf("client %s: record rx=%v (exchange %d) has tx=%v, expected %v", c, rx, e.exch, tx, e.tx)
			}
			if e.lost {
				return fmt.Errorf("client %s: record rx=%v of exchange %d kept although its tx timestamp was lost", c, rx, e.exch)
			}
		}
		return nil
	}
	for s := 0; s < steps; s++ {
		l := rng.Intn(len(ls))
		p := &ls[l]
		if !p.active {
			c := clients[rng.Intn(len(clients))]
			rxIn := base.Add(time.Duration(rng.Intn(span)))
			clk.now = base.Add(time.Duration(rng.Intn(span)))
			if bigJumps {
				switch rng.Intn(8) {
				case 0:
					rxIn = rxIn.Add(era)
				case 1:
					rxIn = rxIn.Add(-era)
				case 2:
					clk.now = clk.now.Add(era)
				case 3:
					rxIn = rxIn.Add(era / 2)
				case 4:
					clk.now = clk.now.Add(era / 2)
				}
			}
			var req ntp.Packet
			req.SetVersion(4)
			req.SetMode(ntp.ModeClient)
			switch rng.Intn(4) {
			case 0:
			case 1, 2:
				if n := len(seenRx[c]); n > 0 {
					req.OriginTime = seenRx[c][rng.Intn(n)]
				}
			case 3:
				o := clients[rng.Intn(len(clients))]
				if n := len(seenRx[o]); n > 0 {
					req.OriginTime = seenRx[o][rng.Intn(n)]
				}
			}
			req.TransmitTime = ntp.Time64{Seconds: 77, Fraction: uint32(rng.Intn(3))}
			if rng.Intn(3) == 0 {
				req.ReceiveTime = req.TransmitTime
			} else {
				req.ReceiveTime = ntp.Time64{Seconds: 55, Fraction: uint32(rng.Intn(3))}
			}
			pre := snap(c)
			rxt := rxIn
			var txt time.Time
			var resp ntp.Packet
			server.VerifHandleRequest(c, &req, &rxt, &txt, &resp)
			exch++
			logf("L%d h%d %s rx=%d clk=%d org=%v rxf=%v txf=%v -> rx'=%d txt'=%d resp{o=%v r=%v t=%v}", l, exch, c,
				rxIn.Sub(base), clk.now.Sub(base), req.OriginTime, req.ReceiveTime, req.TransmitTime,
				rxt.Sub(base), txt.Sub(base), resp.OriginTime, resp.ReceiveTime, resp.TransmitTime)
			if resp.ReceiveTime != ntp.Time64FromTime(rxt) {
				return trace, fmt.Errorf("reply rx != rxt")
			}
			if rxt.Before(rxIn) {
				return trace, fmt.Errorf("rxt moved back")
			}
			if _, dup := pre[resp.ReceiveTime]; dup {
				return trace, fmt.Errorf("reply rx %v equals a receive timestamp on record", resp.ReceiveTime)
			}
			otx, have := pre[req.OriginTime]
			allowed := have && req.ReceiveTime != req.TransmitTime
			basicOK := resp.OriginTime == req.TransmitTime &&
				(bigJumps || !clk.now.After(rxIn) || resp.TransmitTime.After(resp.ReceiveTime)) &&
				resp.TransmitTime == ntp.Time64FromTime(txt)
			if allowed {
				e := model[c][req.OriginTime]
				if resp.OriginTime != req.ReceiveTime || resp.TransmitTime != otx {
					return trace, fmt.Errorf("expected interleaved reply")
				}
				if !bigJumps && !otx.After(req.OriginTime) {
					return trace, fmt.Errorf("interleaved tx %v not after rx %v", otx, req.OriginTime)
				}
				if e == nil || !e.tainted && (e.tx != otx || e.lost) {
					return trace, fmt.Errorf("interleaved reply served from a record the model does not back: %+v", e)
				}
			} else if !basicOK {
				return trace, fmt.Errorf("invalid basic reply")
			}
			if !txt.After(rxt) {
				return trace, fmt.Errorf("txt not after rxt")
			}
			// reconcile
			post := snap(c)
			for rx := range model[c] {
				if _, ok := post[rx]; !ok {
					delete(model[c], rx)
				}
			}
			if _, ok := post[resp.ReceiveTime]; ok {
				model[c][resp.ReceiveTime] = &mrec{exch: exch, tx: ntp.Time64FromTime(txt)}
			}
			seenRx[c] = append(seenRx[c], resp.ReceiveTime)
			if err := compare(c); err != nil {
				return trace, err
			}
			*p = pending{true, c, rxt, txt, exch}
		} else {
			c := p.client
			rx64 := ntp.Time64FromTime(p.rxt)
			e := model[c][rx64]
			mine := e != nil && e.exch == p.exch
			var txt time.Time
			lost := rng.Intn(3) == 0
			if lost {
				txt = p.txt0
			} else {
				txt = base.Add(time.Duration(rng.Intn(span + 8)))
			}
			in := txt
			server.VerifUpdateTXTimestamp(c, p.rxt, &txt)
			logf("L%d u%d %s rx=%d txt=%d lost=%v -> %d", l, p.exch, c, p.rxt.Sub(base), in.Sub(base), lost, txt.Sub(base))
			if mine {
				if lost {
					e.lost = true
				} else {
					k := in
					if !k.After(p.rxt) {
						k = p.rxt.Add(1)
					}
					if ntp.Time64FromTime(in) == e.tx {
						// kernel time equal to the software time: the code drops the record; tolerated
						if _, ok := snap(c)[rx64]; !ok {
							delete(model[c], rx64)
						}
					}
					e.tx = ntp.Time64FromTime(k)
				}
				if lost {
					if _, ok := snap(c)[rx64]; !ok {
						delete(model[c], rx64)
					}
				}
			}
			if !mine && e != nil {
				// stale update hitting a later exchange with an equal rx timestamp: adopt
				staleHits++
				e.tainted = true
				if tx, ok := snap(c)[rx64]; ok {
					e.tx = tx
				} else {
					delete(model[c], rx64)
				}
			}
			if err := compare(c); err != nil {
				return trace, err
			}
			p.active = false
		}
		if _, _, err := server.VerifCheckStore(); err != nil && !bigJumps {
			return trace, fmt.Errorf("store: %v", err)
		}
	}
	return trace, nil
}

func TestModel(t *testing.T) {
	bases := []time.Time{
		time.Unix(1790000000, 500),
		time.Unix(2085978496, 0).Add(-6), // era boundary 2036-02-07T06:28:16Z
	}
	found := map[string]bool{}
	defer func() { t.Logf("stale hits: %d", staleHits) }()
	for _, base := range bases {
		for seed := int64(0); seed < 20000; seed++ {
			trace, err := runHistory(seed, base, 120, 24)
			if err != nil && !found[errKey(err)] {
				found[errKey(err)] = true
				t.Errorf("base %v seed %d: %v", base.UTC(), seed, err)
				for _, l := range trace {
					t.Log(l)
				}
			}
		}
	}
}

func init() { _ = staleHits }
func errKey(err error) string {
	s := err.Error()
	if len(s) > 25 {
		s = s[:25]
	}
	return s
}

func TestModelBigJumps(t *testing.T) {
	bigJumps = true
	defer func() { bigJumps = false }()
	TestModel(t)
}
