package measurements_test

import (
	"math"
	"math/rand"
	"testing"
	"time"

	"example.com/scion-time/core/measurements"
)

func pickTS(r *rand.Rand) time.Time {
	base := time.Unix(1700000000, 0)
	switch r.Intn(10) {
	case 0:
		return time.Time{}
	case 1:
		return base.Add(time.Duration(r.Intn(3)))
	case 2:
		return time.Unix(r.Int63n(1<<40)-(1<<39), int64(r.Intn(1e9)))
	case 3:
		return time.Date(9999, 12, 31, 23, 59, 59, 999999999, time.UTC)
	case 4:
		return base.In(time.FixedZone("x", 3600))
	case 5:
		return time.Unix(math.MaxInt32, 0).Add(time.Duration(r.Intn(3) - 1)) // 2038
	case 6:
		return time.Unix(2085978496, 0).Add(time.Duration(r.Intn(3) - 1)) // 2036 era
	default:
		return base.Add(time.Duration(r.Int63n(int64(40*time.Second))) - 20*time.Second)
	}
}

func TestAuditTS(t *testing.T) {
	r := rand.New(rand.NewSource(3))
	for it := 0; it < 300000; it++ {
		n := 1 + r.Intn(9)
		in := make([]measurements.Measurement, n)
		for i := range in {
			in[i] = measurements.Measurement{Offset: time.Duration(r.Intn(3)), Timestamp: pickTS(r)}
		}
		var first [2]measurements.Measurement
		for p := 0; p < 5; p++ {
			r.Shuffle(n, func(i, j int) { in[i], in[j] = in[j], in[i] })
			for k, fn := range []func([]measurements.Measurement) measurements.Measurement{measurements.FaultTolerantMidpoint, measurements.Median} {
				ms := append([]measurements.Measurement(nil), in...)
				g := fn(ms)
				// selected
				var a, b measurements.Measurement
				if k == 0 {
					f := (n - 1) / 3
					a, b = ms[f], ms[n-1-f]
				} else if n%2 == 1 {
					a, b = ms[n/2], ms[n/2]
				} else {
					a, b = ms[n/2-1], ms[n/2]
				}
				lo, hi := a.Timestamp, b.Timestamp
				if lo.After(hi) {
					lo, hi = hi, lo
				}
				if g.Timestamp.Before(lo) || g.Timestamp.After(hi) {
					t.Fatalf("k=%d ts %v not in [%v,%v]", k, g.Timestamp, lo, hi)
				}
				if g.Error != nil {
					t.Fatal("err")
				}
				// multiset preserved
				cnt := map[measurements.Measurement]int{}
				for _, m := range in {
					cnt[m]++
				}
				for _, m := range ms {
					cnt[m]--
				}
				for _, c := range cnt {
					if c != 0 {
						t.Fatal("multiset changed")
					}
				}
				if p == 0 {
					first[k] = g
				} else if !g.Timestamp.Equal(first[k].Timestamp) || g.Offset != first[k].Offset {
					t.Fatalf("k=%d order dependence %v vs %v; in=%v", k, g, first[k], in)
				}
			}
		}
	}
}
