package measurements_test

import (
	"math/rand"
	"testing"
	"time"

	"example.com/scion-time/base/timemath"
	"example.com/scion-time/core/measurements"
)

const lim = int64(1)<<62 - 1

func pick(r *rand.Rand) int64 {
	switch r.Intn(8) {
	case 0:
		return lim - int64(r.Intn(3))
	case 1:
		return -lim + int64(r.Intn(3))
	case 2:
		return int64(r.Intn(5)) - 2
	case 3:
		return r.Int63n(lim) - r.Int63n(lim)
	case 4:
		return lim/2 + int64(r.Intn(5)) - 2
	default:
		v := r.Int63n(2*lim+1) - lim
		return v
	}
}

func pickFaulty(r *rand.Rand) int64 {
	switch r.Intn(4) {
	case 0:
		return -1 << 63
	case 1:
		return 1<<63 - 1
	default:
		return int64(r.Uint64())
	}
}

func TestAuditFTM(t *testing.T) {
	r := rand.New(rand.NewSource(1))
	base := time.Unix(1700000000, 0)
	for it := 0; it < 300000; it++ {
		n := 1 + r.Intn(13)
		f := (n - 1) / 3
		nf := r.Intn(f + 1)
		vals := make([]int64, n)
		lo, hi := int64(1<<63-1), int64(-1<<63)
		for i := range vals {
			if i < nf {
				vals[i] = pickFaulty(r)
			} else {
				vals[i] = pick(r)
				lo = min(lo, vals[i])
				hi = max(hi, vals[i])
			}
		}
		var first time.Duration
		var firstM measurements.Measurement
		for p := 0; p < 4; p++ {
			r.Shuffle(n, func(i, j int) { vals[i], vals[j] = vals[j], vals[i] })
			ds := make([]time.Duration, n)
			ms := make([]measurements.Measurement, n)
			for i, v := range vals {
				ds[i] = time.Duration(v)
				// timestamp derived from value so the multiset is the same
				ms[i] = measurements.Measurement{Offset: time.Duration(v), Timestamp: base.Add(time.Duration(uint64(v) % 1000)), Error: nil}
			}
			got := timemath.FaultTolerantMidpoint(ds)
			if int64(got) < lo || int64(got) > hi {
				t.Fatalf("ftm %v out of [%v,%v] for %v", int64(got), lo, hi, vals)
			}
			gm := measurements.FaultTolerantMidpoint(ms)
			if gm.Offset != got || gm.Error != nil {
				t.Fatalf("ms ftm %v vs %v", gm, got)
			}
			if p == 0 {
				first, firstM = got, gm
			} else if got != first || gm != firstM {
				t.Fatalf("order dependence: %v %v / %v %v", got, first, gm, firstM)
			}
		}
	}
}

func TestAuditMedian(t *testing.T) {
	r := rand.New(rand.NewSource(2))
	base := time.Unix(1700000000, 0)
	for it := 0; it < 300000; it++ {
		n := 1 + r.Intn(13)
		vals := make([]int64, n)
		lo, hi := int64(1<<63-1), int64(-1<<63)
		for i := range vals {
			vals[i] = pick(r)
			lo = min(lo, vals[i])
			hi = max(hi, vals[i])
		}
		var first time.Duration
		var firstM measurements.Measurement
		for p := 0; p < 4; p++ {
			r.Shuffle(n, func(i, j int) { vals[i], vals[j] = vals[j], vals[i] })
			ds := make([]time.Duration, n)
			ms := make([]measurements.Measurement, n)
			for i, v := range vals {
				ds[i] = time.Duration(v)
				ms[i] = measurements.Measurement{Offset: time.Duration(v), Timestamp: base.Add(time.Duration(uint64(v) % 1000))}
			}
			got := timemath.Median(ds)
			if int64(got) < lo || int64(got) > hi {
				t.Fatalf("median %v out of [%v,%v] for %v", int64(got), lo, hi, vals)
			}
			gm := measurements.Median(ms)
			if gm.Offset != got || gm.Error != nil {
				t.Fatalf("ms median %v vs %v", gm, got)
			}
			if p == 0 {
				first, firstM = got, gm
			} else if got != first || gm != firstM {
				t.Fatalf("order dependence")
			}
		}
	}
}
