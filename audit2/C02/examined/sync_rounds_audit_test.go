package sync

import (
	"context"
	"errors"
	"math/rand"
	"testing"
	"time"

	"example.com/scion-time/core/client"
	"example.com/scion-time/core/measurements"
)

type fakeClk struct {
	off   time.Duration
	mode  int // 0 ok, 1 error, 2 silent until ctx done then returns ok(!), 3 late error
	delay time.Duration
}

func (c *fakeClk) MeasureClockOffset(ctx context.Context) (time.Time, time.Duration, error) {
	time.Sleep(c.delay)
	switch c.mode {
	case 0:
		return time.Unix(1700000000, 0), c.off, nil
	case 1:
		return time.Time{}, c.off, errors.New("x")
	case 2:
		<-ctx.Done()
		time.Sleep(5 * time.Millisecond)
		return time.Unix(1700000000, 0), c.off, nil
	}
	<-ctx.Done()
	return time.Time{}, 0, errors.New("late")
}

func TestAuditRounds(t *testing.T) {
	r := rand.New(rand.NewSource(7))
	const N = 7
	clks := make([]*fakeClk, N)
	refs := make([]client.ReferenceClock, N)
	for i := range clks {
		clks[i] = &fakeClk{}
		refs[i] = clks[i]
	}
	var cl client.ReferenceClockClient
	offs := make([]measurements.Measurement, N)
	for round := 0; round < 200; round++ {
		var answering []int
		for i := range clks {
			clks[i] = &fakeClk{}
			refs[i] = clks[i]
			clks[i].mode = r.Intn(4)
			clks[i].delay = time.Duration(r.Intn(3)) * time.Millisecond
			clks[i].off = time.Duration(r.Intn(1000)) * time.Microsecond
			if clks[i].mode == 0 {
				answering = append(answering, i)
			}
		}
		n := len(answering)
		lo, hi := time.Duration(1<<62), time.Duration(-1<<62)
		if n > 0 {
			f := (n - 1) / 3
			r.Shuffle(n, func(i, j int) { answering[i], answering[j] = answering[j], answering[i] })
			for k, i := range answering {
				if k < f {
					if r.Intn(2) == 0 {
						clks[i].off = 1<<63 - 1
					} else {
						clks[i].off = -1 << 63
					}
				} else {
					lo = min(lo, clks[i].off)
					hi = max(hi, clks[i].off)
				}
			}
		}
		_, off := measureOffsetToRefClks(cl, refs, offs, 20*time.Millisecond)
		if n == 0 {
			if off != 0 {
				t.Fatalf("round %d: no answers but off=%v", round, off)
			}
			continue
		}
		if off < lo || off > hi {
			t.Fatalf("round %d: off=%v not in [%v,%v] n=%d", round, off, lo, hi, n)
		}
	}
}
