package server

import (
	"context"
	"net"
	"testing"
	"time"

	"github.com/scionproto/scion/pkg/slayers"

	"example.com/scion-time/net/ntske"
	"example.com/scion-time/net/scion"
)

func TestAuditEndhostPort(t *testing.T) {
	provider := ntske.NewProvider()
	conn, err := net.ListenUDP("udp", &net.UDPAddr{IP: net.IPv4(127, 0, 0, 1), Port: scion.EndhostPort})
	if err != nil {
		t.Skip(err)
	}
	const hostPort = 10123
	go runSCIONServer(context.Background(), auditLog(), &scionServerMetrics{
		pktsReceived: dummyCounter(), pktsForwarded: dummyCounter(), pktsAuthenticated: dummyCounter(),
		reqsAccepted: dummyCounter(), reqsServed: dummyCounter(),
	}, conn, "", hostPort, 0, scion.NewFetcher(nil), provider)
	srv := conn.LocalAddr().(*net.UDPAddr)
	c, _ := net.ListenUDP("udp", &net.UDPAddr{IP: net.IPv4(127, 0, 0, 1)})
	defer c.Close()
	cport := c.LocalAddr().(*net.UDPAddr).Port
	for i, o := range fuzzBases(t, hostPort) {
		r := exchange(t, c, srv, buildSCION(t, o), 300*time.Millisecond)
		t.Logf("base %d direct: %d replies", i, len(r))
		o.dstPort = uint16(cport) // to be forwarded to us
		o.e2eOpts = []*slayers.EndToEndOption{{OptType: 200, OptData: make([]byte, 10)}}
		r = exchange(t, c, srv, buildSCION(t, o), 300*time.Millisecond)
		t.Logf("base %d forward: %d packets", i, len(r))
		for _, x := range r {
			s, e, u, ok := decodeSCIONReply(t, x)
			if ok {
				t.Logf("    fwd: dst=%x ports %d->%d e2e=%v nopts=%d plen=%d b0=%#x", s.RawDstAddr, u.SrcPort, u.DstPort, e != nil, len(e.Options), len(u.Payload), u.Payload[0])
			}
		}
	}
}
