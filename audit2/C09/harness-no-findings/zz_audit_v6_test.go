package server

import (
	"context"
	"net"
	"testing"
	"time"

	"example.com/scion-time/net/ntske"
)

func TestAuditV6(t *testing.T) {
	provider := ntske.NewProvider()
	for _, la := range []string{"[::1]:0", "[::]:0", "0.0.0.0:0"} {
		pc, err := net.ListenPacket("udp", la)
		if err != nil {
			t.Fatal(err)
		}
		conn := pc.(*net.UDPConn)
		go runIPServer(context.Background(), auditLog(), &ipServerMetrics{
			pktsReceived: dummyCounter(), reqsAccepted: dummyCounter(), reqsServed: dummyCounter(),
		}, conn, "", 0, provider)
		port := conn.LocalAddr().(*net.UDPAddr).Port
		for _, ca := range []string{"[::1]", "127.0.0.1"} {
			c, err := net.ListenPacket("udp", ca+":0")
			if err != nil {
				t.Fatal(err)
			}
			dst := &net.UDPAddr{IP: c.LocalAddr().(*net.UDPAddr).IP, Port: port}
			for i := 0; i < 3; i++ {
				r := exchange(t, c.(*net.UDPConn), dst, validReq(), 200*time.Millisecond)
				t.Logf("listen %s client %s: %d replies", la, ca, len(r))
			}
			c.Close()
		}
	}
}
