//go:build verif

package server

import (
	"net"
	"testing"
	"time"

	"example.com/scion-time/net/ntske"
	"example.com/scion-time/net/udp"
)

func TestAuditLateTX(t *testing.T) {
	provider := ntske.NewProvider()
	srv := auditStartIP(t, provider)
	ssrv := auditStartSCION(t, provider)
	c, _ := net.ListenUDP("udp", &net.UDPAddr{IP: net.IPv4(127, 0, 0, 1)})
	defer c.Close()
	sp := buildSCION(t, fuzzBases(t, ssrv.Port)[1])
	for round := 0; round < 300; round++ {
		if round%3 == 0 {
			udp.VerifLateTXTimestamps(1 + round%4)
		}
		r := exchange(t, c, srv, validReq(), 300*time.Millisecond)
		if len(r) != 1 {
			t.Fatalf("round %d: ip replies %d", round, len(r))
		}
		r = exchange(t, c, ssrv, sp, 300*time.Millisecond)
		if len(r) != 1 {
			t.Fatalf("round %d: scion replies %d", round, len(r))
		}
	}
}
