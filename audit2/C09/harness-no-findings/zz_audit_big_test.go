package server

import (
	"net"
	"testing"
	"time"

	"example.com/scion-time/net/ntske"
)

func TestAuditBig(t *testing.T) {
	provider := ntske.NewProvider()
	srv := auditStartIP(t, provider)
	ssrv := auditStartSCION(t, provider)
	c, _ := net.ListenUDP("udp", &net.UDPAddr{IP: net.IPv4(127, 0, 0, 1)})
	defer c.Close()
	cookie, c2s, _ := newCookie(t, provider)
	for _, total := range []int{2040, 2044, 2048, 2052} {
		// 48 + (4+32) + (4+124) + unknown + (4+4+16+16)=40 => unknown = total-252
		req, _ := buildNTSReq(ntsReqOpts{uidLen: 32, cookie: cookie, c2s: c2s, unknownMid: total - 252})
		r := exchange(t, c, srv, req, 300*time.Millisecond)
		t.Logf("ip total %d (len %d): %d replies", total, len(req), len(r))
	}
	base := fuzzBases(t, ssrv.Port)[0]
	for _, total := range []int{9000, 9096, 9100, 9104} {
		req, _ := buildNTSReq(ntsReqOpts{uidLen: 32, cookie: cookie, c2s: c2s, unknownMid: total - 252})
		base.payload = req
		pkt := buildSCION(t, base)
		r := exchange(t, c, ssrv, pkt, 300*time.Millisecond)
		t.Logf("scion payload %d (pkt %d): %d replies", total, len(pkt), len(r))
	}
	// plain with trailing junk beyond UDP length over SCION
	base.payload = validReq()
	pkt := buildSCION(t, base)
	pkt = append(pkt, make([]byte, 100)...)
	r := exchange(t, c, ssrv, pkt, 300*time.Millisecond)
	t.Logf("scion trailing junk: %d replies", len(r))
}
