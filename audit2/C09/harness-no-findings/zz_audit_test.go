package server

import (
	"context"
	"crypto/rand"
	"encoding/binary"
	"fmt"
	"log/slog"
	"net"
	"net/netip"
	"os"
	"testing"
	"time"

	"github.com/google/gopacket"
	"github.com/miscreant/miscreant.go"
	"github.com/scionproto/scion/pkg/addr"
	"github.com/scionproto/scion/pkg/slayers"
	"github.com/scionproto/scion/pkg/slayers/path"
	"github.com/scionproto/scion/pkg/slayers/path/empty"
	"github.com/scionproto/scion/pkg/slayers/path/onehop"
	spath "github.com/scionproto/scion/pkg/slayers/path/scion"

	"example.com/scion-time/net/ntp"
	"example.com/scion-time/net/nts"
	"example.com/scion-time/net/ntske"
	"example.com/scion-time/net/scion"
)

var _ = fmt.Sprintf
var _ = os.Getenv
var _ = nts.MaxPacketLen
var _ = path.InfoLen
var _ = onehop.PathLen
var _ = spath.MetaLen
var _ = empty.PathLen
var _ = addr.IA(0)
var _ = gopacket.Payload(nil)
var _ = slayers.CmnHdrLen
var _ = scion.MTU
var _ = netip.Addr{}

func auditLog() *slog.Logger {
	if os.Getenv("AUDIT_VERBOSE") != "" {
		return slog.New(slog.NewTextHandler(os.Stderr, &slog.HandlerOptions{Level: slog.LevelDebug}))
	}
	return slog.New(slog.DiscardHandler)
}

func auditStartIP(t *testing.T, provider *ntske.Provider) *net.UDPAddr {
	t.Helper()
	conn, err := net.ListenUDP("udp", &net.UDPAddr{IP: net.IPv4(127, 0, 0, 1)})
	if err != nil {
		t.Fatal(err)
	}
	go runIPServer(context.Background(), auditLog(), &ipServerMetrics{
		pktsReceived: dummyCounter(), reqsAccepted: dummyCounter(), reqsServed: dummyCounter(),
	}, conn, "", 0, provider)
	return conn.LocalAddr().(*net.UDPAddr)
}

func validReq() []byte {
	var p ntp.Packet
	p.SetVersion(4)
	p.SetMode(ntp.ModeClient)
	p.TransmitTime = ntp.Time64FromTime(time.Now())
	var b []byte
	ntp.EncodePacket(&b, &p)
	return b
}

func exchange(t *testing.T, c *net.UDPConn, dst *net.UDPAddr, req []byte, wait time.Duration) [][]byte {
	t.Helper()
	_, err := c.WriteToUDP(req, dst)
	if err != nil {
		t.Fatalf("write: %v", err)
	}
	var res [][]byte
	deadline := time.Now().Add(wait)
	for {
		c.SetReadDeadline(deadline)
		buf := make([]byte, 65536)
		n, _, err := c.ReadFromUDP(buf)
		if err != nil {
			break
		}
		res = append(res, buf[:n])
		deadline = time.Now().Add(50 * time.Millisecond)
	}
	return res
}

type ntsReqOpts struct {
	uidLen        int
	placeholders  int
	unknownBefore int // length of unknown ext field before uid (0 = none)
	unknownMid    int
	encExt        []byte // plaintext inside authenticator
	cookie        []byte
	c2s           []byte
	trailing      []byte
}

func ext(typ uint16, body []byte) []byte {
	l := (len(body) + 3) &^ 3
	b := make([]byte, 4+l)
	binary.BigEndian.PutUint16(b, typ)
	binary.BigEndian.PutUint16(b[2:], uint16(4+l))
	copy(b[4:], body)
	return b
}

func buildNTSReq(o ntsReqOpts) (pkt []byte, uid []byte) {
	b := validReq()
	if o.unknownBefore > 0 {
		b = append(b, ext(0x4999, make([]byte, o.unknownBefore-4))...)
	}
	uid = make([]byte, o.uidLen)
	rand.Read(uid)
	b = append(b, ext(0x104, uid)...)
	b = append(b, ext(0x204, o.cookie)...)
	if o.unknownMid > 0 {
		b = append(b, ext(0x4999, make([]byte, o.unknownMid-4))...)
	}
	for i := 0; i < o.placeholders; i++ {
		b = append(b, ext(0x304, make([]byte, len(o.cookie)))...)
	}
	aead, err := miscreant.NewAEAD("AES-CMAC-SIV", o.c2s, 16)
	if err != nil {
		panic(err)
	}
	nonce := make([]byte, 16)
	rand.Read(nonce)
	ct := aead.Seal(nil, nonce, o.encExt, b)
	body := make([]byte, 4)
	binary.BigEndian.PutUint16(body, 16)
	binary.BigEndian.PutUint16(body[2:], uint16(len(ct)))
	body = append(body, nonce...)
	body = append(body, ct...)
	b = append(b, ext(0x404, body)...)
	b = append(b, o.trailing...)
	return b, uid
}

func newCookie(t *testing.T, provider *ntske.Provider) (cookie, c2s, s2c []byte) {
	c2s = make([]byte, 32)
	s2c = make([]byte, 32)
	rand.Read(c2s)
	rand.Read(s2c)
	sc := ntske.ServerCookie{Algo: ntske.AES_SIV_CMAC_256, C2S: c2s, S2C: s2c}
	k := provider.Current()
	ec, err := sc.EncryptWithNonce(k.Value, k.ID)
	if err != nil {
		t.Fatal(err)
	}
	return ec.Encode(), c2s, s2c
}

func TestAuditIPNTSVariants(t *testing.T) {
	provider := ntske.NewProvider()
	srv := auditStartIP(t, provider)
	c, _ := net.ListenUDP("udp", &net.UDPAddr{IP: net.IPv4(127, 0, 0, 1)})
	defer c.Close()

	r := exchange(t, c, srv, validReq(), 300*time.Millisecond)
	if len(r) != 1 {
		t.Fatalf("plain: %d replies", len(r))
	}
	cookie, c2s, _ := newCookie(t, provider)
	t.Logf("cookie len %d", len(cookie))
	cases := []ntsReqOpts{
		{uidLen: 32, placeholders: 0},
		{uidLen: 32, placeholders: 7},
		{uidLen: 32, placeholders: 8},
		{uidLen: 32, placeholders: 12},
		{uidLen: 32, unknownBefore: 16},
		{uidLen: 32, unknownBefore: 28},
		{uidLen: 32, unknownMid: 16},
		{uidLen: 32, unknownMid: 8},
		{uidLen: 32, unknownMid: 4},
		{uidLen: 32, unknownMid: 400},
		{uidLen: 33},
		{uidLen: 64},
		{uidLen: 500},
		{uidLen: 900},
		{uidLen: 1008},
		{uidLen: 1012},
		{uidLen: 32, encExt: ext(0x4999, make([]byte, 24))},
		{uidLen: 32, encExt: ext(0x204, make([]byte, 124))},
		{uidLen: 32, encExt: make([]byte, 30)},
		{uidLen: 32, trailing: make([]byte, 40)},
		{uidLen: 32, trailing: make([]byte, 3)},
		{uidLen: 32, placeholders: 1, unknownMid: 1000},
	}
	for i, o := range cases {
		o.cookie, o.c2s = cookie, c2s
		req, _ := buildNTSReq(o)
		r := exchange(t, c, srv, req, 300*time.Millisecond)
		t.Logf("case %d %+v reqlen=%d: %d replies", i, struct{ u, p, ub, um, e, tr int }{o.uidLen, o.placeholders, o.unknownBefore, o.unknownMid, len(o.encExt), len(o.trailing)}, len(req), len(r))
		for _, x := range r {
			t.Logf("   reply len %d first=%#x", len(x), x[0])
		}
	}
	r = exchange(t, c, srv, validReq(), 300*time.Millisecond)
	if len(r) != 1 {
		t.Fatalf("plain after: %d replies", len(r))
	}
}

func dummyCounter() prometheusCounter {
	return prometheusNewCounter()
}
