package server

import (
	"math/rand"
	"net"
	"os"
	"testing"
	"time"

	"github.com/scionproto/scion/pkg/slayers"
	"github.com/scionproto/scion/pkg/slayers/path"
	"github.com/scionproto/scion/pkg/slayers/path/empty"
	"github.com/scionproto/scion/pkg/slayers/path/epic"
	"github.com/scionproto/scion/pkg/slayers/path/onehop"
	spath "github.com/scionproto/scion/pkg/slayers/path/scion"
	"github.com/scionproto/scion/pkg/spao"

	"example.com/scion-time/net/ntske"
	"example.com/scion-time/net/scion"
)

// builds an authenticated (mock key = zero key) request
func buildAuthSCION(t *testing.T, o scionPktOpts, extra []*slayers.EndToEndOption) []byte {
	authOpt := &slayers.EndToEndOption{OptType: slayers.OptTypeAuthenticator, OptData: make([]byte, scion.PacketAuthOptDataLen)}
	scion.PreparePacketAuthOpt(authOpt, scion.PacketAuthSPIClient, scion.PacketAuthAlgorithm)
	o.e2eOpts = append([]*slayers.EndToEndOption{authOpt}, extra...)
	// first pass to get the UDP datagram bytes
	pkt := buildSCION(t, o)
	var s slayers.SCION
	if err := s.DecodeFromBytes(pkt, nopFeedback{}); err != nil {
		t.Fatal(err)
	}
	var e slayers.EndToEndExtn
	e2eData := s.Payload
	if o.hbh {
		var h slayers.HopByHopExtnSkipper
		if err := h.DecodeFromBytes(s.Payload, nopFeedback{}); err != nil {
			t.Fatal(err)
		}
		e2eData = h.Payload
	}
	if err := e.DecodeFromBytes(e2eData, nopFeedback{}); err != nil {
		t.Fatal(err)
	}
	ao, err := e.FindOption(slayers.OptTypeAuthenticator)
	if err != nil {
		t.Fatal(err)
	}
	key := make([]byte, 16)
	_, err = spao.ComputeAuthCMAC(spao.MACInput{
		Key: key, Header: slayers.PacketAuthOption{EndToEndOption: ao}, ScionLayer: &s,
		PldType: slayers.L4UDP, Pld: e.Payload,
	}, make([]byte, spao.MACBufferSize), scion.PacketAuthOptMAC(ao))
	if err != nil {
		t.Fatal(err)
	}
	return pkt
}

type nopFeedback struct{}

func (nopFeedback) SetTruncated() {}

func fuzzBases(t *testing.T, srvPort int) []scionPktOpts {
	base := scionPktOpts{
		path: empty.Path{}, pathType: empty.PathType,
		srcHost: []byte{127, 0, 0, 9}, srcType: slayers.T4Ip,
		dstHost: []byte{127, 0, 0, 1}, dstType: slayers.T4Ip,
		srcPort: 4444, dstPort: uint16(srvPort), payload: validReq(),
	}
	var res []scionPktOpts
	res = append(res, base)
	o := base
	o.path, o.pathType = scionPath2(), spath.PathType
	res = append(res, o)
	o = base
	o.path = &onehop.Path{Info: path.InfoField{ConsDir: true, SegID: 1, Timestamp: 5},
		FirstHop:  path.HopField{ConsEgress: 3, ExpTime: 63},
		SecondHop: path.HopField{ConsIngress: 4, ExpTime: 63}}
	o.pathType = onehop.PathType
	res = append(res, o)
	o = base
	r, _ := scionPath2().ToRaw()
	o.path = &epic.Path{PHVF: []byte{1, 2, 3, 4}, LHVF: []byte{5, 6, 7, 8}, ScionPath: r}
	o.pathType = epic.PathType
	res = append(res, o)
	o = base
	o.hbh = true
	res = append(res, o)
	return res
}

func TestAuditSCIONAuth(t *testing.T) {
	if !scion.UseMockKeys() {
		t.Skip("USE_MOCK_KEYS=true needed")
	}
	provider := ntske.NewProvider()
	srv := auditStartSCION(t, provider)
	c, _ := net.ListenUDP("udp", &net.UDPAddr{IP: net.IPv4(127, 0, 0, 1)})
	defer c.Close()
	for i, o := range fuzzBases(t, srv.Port) {
		pkt := buildAuthSCION(t, o, nil)
		r := exchange(t, c, srv, pkt, 300*time.Millisecond)
		t.Logf("base %d: replies=%d", i, len(r))
		for _, x := range r {
			s, e, u, ok := decodeSCIONReply(t, x)
			if ok {
				t.Logf("   reply: ptype=%v ports %d->%d e2e=%v plen=%d", s.PathType, u.SrcPort, u.DstPort, e != nil, len(u.Payload))
				if e != nil {
					ao, err := e.FindOption(slayers.OptTypeAuthenticator)
					if err == nil {
						mac := make([]byte, 16)
						_, err = spao.ComputeAuthCMAC(spao.MACInput{
							Key: make([]byte, 16), Header: slayers.PacketAuthOption{EndToEndOption: ao}, ScionLayer: &s,
							PldType: slayers.L4UDP, Pld: e.Payload,
						}, make([]byte, spao.MACBufferSize), mac)
						t.Logf("   mac ok=%v err=%v", string(mac) == string(scion.PacketAuthOptMAC(ao)), err)
					}
				}
			}
		}
	}
}

func TestAuditSCIONFuzz(t *testing.T) {
	provider := ntske.NewProvider()
	srv := auditStartSCION(t, provider)
	c, _ := net.ListenUDP("udp", &net.UDPAddr{IP: net.IPv4(127, 0, 0, 1)})
	defer c.Close()
	seed := time.Now().UnixNano()
	if s := os.Getenv("AUDIT_SEED"); s != "" {
		seed = 1
	}
	rng := rand.New(rand.NewSource(seed))
	t.Logf("seed %d", seed)
	var pkts [][]byte
	for _, o := range fuzzBases(t, srv.Port) {
		pkts = append(pkts, buildSCION(t, o))
		if scion.UseMockKeys() {
			pkts = append(pkts, buildAuthSCION(t, o, nil))
			pkts = append(pkts, buildAuthSCION(t, o, []*slayers.EndToEndOption{{OptType: 200, OptData: make([]byte, 9)}}))
		}
		o.e2eOpts = []*slayers.EndToEndOption{{OptType: slayers.OptTypeAuthenticator, OptData: make([]byte, 28)}}
		pkts = append(pkts, buildSCION(t, o))
	}
	good := pkts[0]
	dur := 20 * time.Second
	end := time.Now().Add(dur)
	n := 0
	for time.Now().Before(end) {
		for k := 0; k < 200; k++ {
			p := append([]byte(nil), pkts[rng.Intn(len(pkts))]...)
			hdr := len(p) - 48
			m := 1 + rng.Intn(3)
			for j := 0; j < m; j++ {
				i := rng.Intn(hdr)
				switch rng.Intn(3) {
				case 0:
					p[i] ^= 1 << uint(rng.Intn(8))
				case 1:
					p[i] = byte(rng.Intn(256))
				case 2:
					p[i] = []byte{0, 1, 0xff, 0x7f, 0x80}[rng.Intn(5)]
				}
			}
			if rng.Intn(10) == 0 {
				p = p[:rng.Intn(len(p)+1)]
			}
			c.WriteToUDP(p, srv)
			n++
		}
		// drain
		for {
			c.SetReadDeadline(time.Now().Add(20 * time.Millisecond))
			buf := make([]byte, 65536)
			_, _, err := c.ReadFromUDP(buf)
			if err != nil {
				break
			}
		}
		r := exchange(t, c, srv, good, 500*time.Millisecond)
		if len(r) < 1 {
			t.Fatalf("server stopped answering after %d packets", n)
		}
	}
	t.Logf("sent %d", n)
}
