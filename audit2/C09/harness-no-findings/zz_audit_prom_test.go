package server

import "github.com/prometheus/client_golang/prometheus"

type prometheusCounter = prometheus.Counter

func prometheusNewCounter() prometheus.Counter {
	return prometheus.NewCounter(prometheus.CounterOpts{Name: "x"})
}
