package server

import (
	"math/rand"
	"net"
	"sync"
	"sync/atomic"
	"testing"
	"time"

	"example.com/scion-time/net/ntp"
	"example.com/scion-time/net/ntske"
)

func TestAuditSweepIP(t *testing.T) {
	provider := ntske.NewProvider()
	srv := auditStartIP(t, provider)
	c, _ := net.ListenUDP("udp", &net.UDPAddr{IP: net.IPv4(127, 0, 0, 1)})
	defer c.Close()
	rng := rand.New(rand.NewSource(1))
	bad := 0
	for _, l := range []int{0, 1, 47, 48} {
		for fb := 0; fb < 256; fb++ {
			p := make([]byte, l)
			rng.Read(p)
			if l > 0 {
				p[0] = byte(fb)
			}
			li, vn, mode := fb>>6, (fb>>3)&7, fb&7
			want := 0
			if l >= 48 && (li == 0 || li == 3) && ((vn >= 2 && vn <= 4 && mode == 3) || (vn == 1 && mode == 0)) {
				want = 1
			}
			w := 15 * time.Millisecond
			if want == 1 {
				w = 300 * time.Millisecond
			}
			c.WriteToUDP(p, srv)
			got := 0
			for {
				c.SetReadDeadline(time.Now().Add(w))
				buf := make([]byte, 4096)
				n, from, err := c.ReadFromUDP(buf)
				if err != nil {
					break
				}
				got++
				w = 15 * time.Millisecond
				if n != 48 || buf[0] != 0x24 || buf[1] != 1 || from.Port != srv.Port {
					t.Errorf("len %d fb %#x: odd reply n=%d b0=%#x stratum=%d", l, fb, n, buf[0], buf[1])
				}
			}
			if got != want {
				bad++
				t.Errorf("len %d fb %#x: got %d replies want %d", l, fb, got, want)
			}
		}
	}
	t.Logf("bad=%d", bad)
}

func TestAuditStressShared(t *testing.T) {
	provider := ntske.NewProvider()
	var srvs []*net.UDPAddr
	for i := 0; i < 4; i++ {
		srvs = append(srvs, auditStartIP(t, provider))
	}
	var wg sync.WaitGroup
	var sent, recvd atomic.Int64
	stop := time.Now().Add(8 * time.Second)
	for g := 0; g < 8; g++ {
		wg.Add(1)
		go func(g int) {
			defer wg.Done()
			c, _ := net.ListenUDP("udp", &net.UDPAddr{IP: net.IPv4(127, 0, 0, byte(1+g%3))})
			defer c.Close()
			rng := rand.New(rand.NewSource(int64(g)))
			var lastRx, lastTx ntp.Time64
			for time.Now().Before(stop) {
				var p ntp.Packet
				p.SetVersion(4)
				p.SetMode(ntp.ModeClient)
				p.TransmitTime = ntp.Time64FromTime(time.Now())
				if rng.Intn(2) == 0 {
					p.OriginTime = lastRx
					p.ReceiveTime = lastTx
				}
				var b []byte
				ntp.EncodePacket(&b, &p)
				c.WriteToUDP(b, srvs[rng.Intn(len(srvs))])
				sent.Add(1)
				c.SetReadDeadline(time.Now().Add(200 * time.Millisecond))
				buf := make([]byte, 4096)
				n, _, err := c.ReadFromUDP(buf)
				if err == nil {
					recvd.Add(1)
					var r ntp.Packet
					ntp.DecodePacket(&r, buf[:n])
					lastRx, lastTx = r.ReceiveTime, r.TransmitTime
					if buf[0] != 0x24 || r.Stratum != 1 {
						t.Errorf("odd reply")
					}
				}
			}
		}(g)
	}
	wg.Wait()
	t.Logf("sent %d recvd %d", sent.Load(), recvd.Load())
	if sent.Load() != recvd.Load() {
		t.Errorf("missing replies")
	}
}
