package server

import (
	"context"
	"math/rand"
	"net"
	"sync"
	"sync/atomic"
	"testing"
	"time"

	"example.com/scion-time/net/ntp"
	"example.com/scion-time/net/ntske"
)

func TestAuditRealStart(t *testing.T) {
	provider := ntske.NewProvider()
	ctx := context.Background()
	StartIPServer(ctx, auditLog(), &net.UDPAddr{IP: net.IPv4(127, 0, 0, 1), Port: 31123}, 0, provider)
	StartSCIONServer(ctx, auditLog(), "", &net.UDPAddr{IP: net.IPv4(127, 0, 0, 1), Port: 31124}, 0, provider)
	time.Sleep(100 * time.Millisecond)
	cookie, c2s, _ := newCookie(t, provider)
	var wg sync.WaitGroup
	var sent, recvd atomic.Int64
	stop := time.Now().Add(8 * time.Second)
	for g := 0; g < 16; g++ {
		wg.Add(1)
		go func(g int) {
			defer wg.Done()
			c, _ := net.ListenUDP("udp", &net.UDPAddr{IP: net.IPv4(127, 0, 0, 1)})
			defer c.Close()
			rng := rand.New(rand.NewSource(int64(g)))
			bases := fuzzBases(t, 31124)
			var lastRx, lastTx ntp.Time64
			for time.Now().Before(stop) {
				var p ntp.Packet
				p.SetVersion(4)
				p.SetMode(ntp.ModeClient)
				p.TransmitTime = ntp.Time64FromTime(time.Now())
				if rng.Intn(2) == 0 {
					p.OriginTime = lastRx
					p.ReceiveTime = lastTx
				}
				var b []byte
				ntp.EncodePacket(&b, &p)
				var dst *net.UDPAddr
				scn := false
				switch rng.Intn(4) {
				case 0:
					dst = &net.UDPAddr{IP: net.IPv4(127, 0, 0, 1), Port: 31123}
				case 1:
					dst = &net.UDPAddr{IP: net.IPv4(127, 0, 0, 1), Port: 31123}
					b, _ = buildNTSReq(ntsReqOpts{uidLen: 32, cookie: cookie, c2s: c2s, placeholders: rng.Intn(8)})
				case 2:
					o := bases[rng.Intn(len(bases))]
					o.payload = b
					b = buildSCION(t, o)
					dst = &net.UDPAddr{IP: net.IPv4(127, 0, 0, 1), Port: 31124}
					scn = true
				case 3:
					o := bases[rng.Intn(len(bases))]
					o.payload = b
					b = buildSCION(t, o)
					dst = &net.UDPAddr{IP: net.IPv4(127, 0, 0, 1), Port: 30041}
					scn = true
				}
				c.WriteToUDP(b, dst)
				sent.Add(1)
				c.SetReadDeadline(time.Now().Add(500 * time.Millisecond))
				buf := make([]byte, 65536)
				n, _, err := c.ReadFromUDP(buf)
				if err == nil {
					recvd.Add(1)
					if !scn {
						var r ntp.Packet
						ntp.DecodePacket(&r, buf[:n])
						lastRx, lastTx = r.ReceiveTime, r.TransmitTime
					}
				}
			}
		}(g)
	}
	wg.Wait()
	t.Logf("sent %d recvd %d", sent.Load(), recvd.Load())
	if sent.Load() != recvd.Load() {
		t.Errorf("missing replies")
	}
}
