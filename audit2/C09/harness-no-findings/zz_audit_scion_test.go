package server

import (
	"context"
	"net"
	"testing"
	"time"

	"github.com/google/gopacket"
	"github.com/scionproto/scion/pkg/addr"
	"github.com/scionproto/scion/pkg/slayers"
	"github.com/scionproto/scion/pkg/slayers/path"
	"github.com/scionproto/scion/pkg/slayers/path/empty"
	"github.com/scionproto/scion/pkg/slayers/path/epic"
	"github.com/scionproto/scion/pkg/slayers/path/onehop"
	spath "github.com/scionproto/scion/pkg/slayers/path/scion"

	"example.com/scion-time/net/ntske"
	"example.com/scion-time/net/scion"
)

func auditStartSCION(t *testing.T, provider *ntske.Provider) *net.UDPAddr {
	t.Helper()
	conn, err := net.ListenUDP("udp", &net.UDPAddr{IP: net.IPv4(127, 0, 0, 1)})
	if err != nil {
		t.Fatal(err)
	}
	port := conn.LocalAddr().(*net.UDPAddr).Port
	fetcher := scion.NewFetcher(nil)
	go runSCIONServer(context.Background(), auditLog(), &scionServerMetrics{
		pktsReceived: dummyCounter(), pktsForwarded: dummyCounter(), pktsAuthenticated: dummyCounter(),
		reqsAccepted: dummyCounter(), reqsServed: dummyCounter(),
	}, conn, "", port, 0, fetcher, provider)
	return conn.LocalAddr().(*net.UDPAddr)
}

type scionPktOpts struct {
	path     path.Path
	pathType path.Type
	hbh      bool
	e2eOpts  []*slayers.EndToEndOption
	srcHost  []byte
	srcType  slayers.AddrType
	dstHost  []byte
	dstType  slayers.AddrType
	srcPort  uint16
	dstPort  uint16
	payload  []byte
}

func buildSCION(t *testing.T, o scionPktOpts) []byte {
	t.Helper()
	var s slayers.SCION
	s.Version = 0
	s.FlowID = 0x12345
	s.SrcIA = addr.MustParseIA("1-ff00:0:111")
	s.DstIA = addr.MustParseIA("1-ff00:0:112")
	s.SrcAddrType, s.RawSrcAddr = o.srcType, o.srcHost
	s.DstAddrType, s.RawDstAddr = o.dstType, o.dstHost
	s.Path = o.path
	s.PathType = o.pathType
	s.NextHdr = slayers.L4UDP
	var u slayers.UDP
	u.SrcPort, u.DstPort = o.srcPort, o.dstPort
	u.SetNetworkLayerForChecksum(&s)
	buf := gopacket.NewSerializeBuffer()
	opts := gopacket.SerializeOptions{ComputeChecksums: true, FixLengths: true}
	pl := gopacket.Payload(o.payload)
	if err := pl.SerializeTo(buf, opts); err != nil {
		t.Fatal(err)
	}
	if err := u.SerializeTo(buf, opts); err != nil {
		t.Fatal(err)
	}
	next := slayers.L4UDP
	if len(o.e2eOpts) > 0 {
		e := slayers.EndToEndExtn{}
		e.NextHdr = next
		e.Options = o.e2eOpts
		if err := e.SerializeTo(buf, opts); err != nil {
			t.Fatal(err)
		}
		next = slayers.End2EndClass
	}
	if o.hbh {
		h := slayers.HopByHopExtn{}
		h.NextHdr = next
		h.Options = []*slayers.HopByHopOption{{OptType: 77, OptData: []byte{1, 2, 3, 4}}}
		if err := h.SerializeTo(buf, opts); err != nil {
			t.Fatal(err)
		}
		next = slayers.HopByHopClass
	}
	s.NextHdr = next
	if err := s.SerializeTo(buf, opts); err != nil {
		t.Fatal(err)
	}
	return append([]byte(nil), buf.Bytes()...)
}

func scionPath2() *spath.Decoded {
	return &spath.Decoded{
		Base: spath.Base{
			PathMeta: spath.MetaHdr{CurrINF: 0, CurrHF: 1, SegLen: [3]uint8{2, 0, 0}},
			NumINF:   1, NumHops: 2,
		},
		InfoFields: []path.InfoField{{ConsDir: true, SegID: 0x1111, Timestamp: 100}},
		HopFields: []path.HopField{
			{ConsIngress: 0, ConsEgress: 5, ExpTime: 63, Mac: [6]byte{1, 2, 3, 4, 5, 6}},
			{ConsIngress: 7, ConsEgress: 0, ExpTime: 63, Mac: [6]byte{6, 5, 4, 3, 2, 1}},
		},
	}
}

func decodeSCIONReply(t *testing.T, b []byte) (s slayers.SCION, e *slayers.EndToEndExtn, u slayers.UDP, ok bool) {
	var hbh slayers.HopByHopExtnSkipper
	var e2e slayers.EndToEndExtn
	var scmp slayers.SCMP
	u.SetNetworkLayerForChecksum(&s)
	p := gopacket.NewDecodingLayerParser(slayers.LayerTypeSCION, &s, &hbh, &e2e, &u, &scmp)
	p.IgnoreUnsupported = true
	dec := make([]gopacket.LayerType, 4)
	err := p.DecodeLayers(b, &dec)
	if err != nil {
		t.Logf("reply decode error: %v", err)
		return
	}
	if dec[len(dec)-1] != slayers.LayerTypeSCIONUDP {
		t.Logf("reply not UDP: %v", dec)
		return
	}
	for _, d := range dec {
		if d == slayers.LayerTypeEndToEndExtn {
			e = &e2e
		}
	}
	ok = true
	return
}

func TestAuditSCIONVariants(t *testing.T) {
	provider := ntske.NewProvider()
	srv := auditStartSCION(t, provider)
	c, _ := net.ListenUDP("udp", &net.UDPAddr{IP: net.IPv4(127, 0, 0, 1)})
	defer c.Close()
	base := scionPktOpts{
		path: empty.Path{}, pathType: empty.PathType,
		srcHost: []byte{127, 0, 0, 9}, srcType: slayers.T4Ip,
		dstHost: []byte{127, 0, 0, 1}, dstType: slayers.T4Ip,
		srcPort: 4444, dstPort: uint16(srv.Port), payload: validReq(),
	}
	type tc struct {
		name string
		mod  func(o *scionPktOpts)
	}
	cases := []tc{
		{"empty", func(o *scionPktOpts) {}},
		{"scion2", func(o *scionPktOpts) { o.path = scionPath2(); o.pathType = spath.PathType }},
		{"onehop", func(o *scionPktOpts) {
			o.path = &onehop.Path{Info: path.InfoField{ConsDir: true, SegID: 1, Timestamp: 5},
				FirstHop:  path.HopField{ConsEgress: 3, ExpTime: 63},
				SecondHop: path.HopField{ConsIngress: 4, ExpTime: 63}}
			o.pathType = onehop.PathType
		}},
		{"epic", func(o *scionPktOpts) {
			r, err := scionPath2().ToRaw()
			if err != nil {
				t.Fatal(err)
			}
			o.path = &epic.Path{PHVF: []byte{1, 2, 3, 4}, LHVF: []byte{5, 6, 7, 8}, ScionPath: r}
			o.pathType = epic.PathType
		}},
		{"hbh", func(o *scionPktOpts) { o.hbh = true }},
		{"e2e-other", func(o *scionPktOpts) {
			o.e2eOpts = []*slayers.EndToEndOption{{OptType: 200, OptData: make([]byte, 10)}}
		}},
		{"hbh+e2e", func(o *scionPktOpts) {
			o.hbh = true
			o.e2eOpts = []*slayers.EndToEndOption{{OptType: 200, OptData: make([]byte, 10)}}
		}},
		{"src16", func(o *scionPktOpts) { o.srcHost = net.ParseIP("::1").To16(); o.srcType = slayers.T16Ip }},
		{"srcSVC", func(o *scionPktOpts) { o.srcHost = []byte{0, 2, 0, 0}; o.srcType = slayers.T4Svc }},
		{"src8", func(o *scionPktOpts) { o.srcHost = make([]byte, 8); o.srcType = 1 }},
		{"srcport0", func(o *scionPktOpts) { o.srcPort = 0 }},
	}
	for _, k := range cases {
		o := base
		k.mod(&o)
		pkt := buildSCION(t, o)
		r := exchange(t, c, srv, pkt, 300*time.Millisecond)
		t.Logf("%s: len=%d replies=%d", k.name, len(pkt), len(r))
		for _, x := range r {
			s, e, u, ok := decodeSCIONReply(t, x)
			if ok {
				t.Logf("   reply: src=%v,%x(%d) dst=%v,%x(%d) ptype=%v path=%+v ports %d->%d e2e=%v plen=%d first=%#x",
					s.SrcIA, s.RawSrcAddr, s.SrcAddrType, s.DstIA, s.RawDstAddr, s.DstAddrType, s.PathType, s.Path, u.SrcPort, u.DstPort, e != nil, len(u.Payload), u.Payload[0])
			}
		}
	}
}
