package server

import (
	"math/rand"
	"net"
	"testing"
	"time"

	"example.com/scion-time/net/ntske"
)

func TestAuditSCMPFuzz(t *testing.T) {
	provider := ntske.NewProvider()
	srv := auditStartSCION(t, provider)
	c, _ := net.ListenUDP("udp", &net.UDPAddr{IP: net.IPv4(127, 0, 0, 1)})
	defer c.Close()
	rng := rand.New(rand.NewSource(time.Now().UnixNano()))
	var pkts [][]byte
	for _, o := range fuzzBases(t, srv.Port) {
		for _, typ := range []byte{128, 130, 129, 1, 4} {
			for _, pl := range []int{0, 4, 20} {
				o.payload = make([]byte, pl)
				p := buildSCION(t, o)
				// locate UDP header: last 8+pl bytes; turn into SCMP
				off := len(p) - 8 - pl
				scmp := append([]byte{typ, 0, 0, 0}, make([]byte, pl+4)...)
				q := append(append([]byte(nil), p[:off]...), scmp...)
				// patch next-header fields: find byte 17 (UDP) candidates
				if q[4] == 17 {
					q[4] = 202
				}
				for i := 12; i < off; i++ {
					_ = i
				}
				pkts = append(pkts, q)
			}
		}
	}
	good := buildSCION(t, fuzzBases(t, srv.Port)[0])
	n := 0
	end := time.Now().Add(10 * time.Second)
	replies := 0
	for time.Now().Before(end) {
		for k := 0; k < 200; k++ {
			p := append([]byte(nil), pkts[rng.Intn(len(pkts))]...)
			if rng.Intn(3) > 0 {
				m := 1 + rng.Intn(3)
				for j := 0; j < m; j++ {
					p[rng.Intn(len(p))] = byte(rng.Intn(256))
				}
			}
			c.WriteToUDP(p, srv)
			n++
		}
		for {
			c.SetReadDeadline(time.Now().Add(20 * time.Millisecond))
			buf := make([]byte, 65536)
			_, _, err := c.ReadFromUDP(buf)
			if err != nil {
				break
			}
			replies++
		}
		r := exchange(t, c, srv, good, 500*time.Millisecond)
		if len(r) < 1 {
			t.Fatalf("server stopped answering after %d packets", n)
		}
	}
	t.Logf("sent %d, scmp replies %d", n, replies)
}
