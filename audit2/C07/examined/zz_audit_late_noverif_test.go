//go:build !verif

package server

func auditLate(n int) {}
