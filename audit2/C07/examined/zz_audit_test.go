package server

import (
	"fmt"
	"math/rand"
	"sync"
	"testing"
	"time"

	"example.com/scion-time/net/ntp"
)

func auditReset() {
	tssMu.Lock()
	defer tssMu.Unlock()
	tss = make(map[string]*tssItem)
	tssQ = tssQ[:0]
}

func auditCheck(exact map[string]bool) error {
	tssMu.Lock()
	defer tssMu.Unlock()
	if len(tss) != len(tssQ) {
		return fmt.Errorf("map %d queue %d", len(tss), len(tssQ))
	}
	if len(tss) > tssCap {
		return fmt.Errorf("too many")
	}
	for i, it := range tssQ {
		if it == nil || it.qidx != i || tss[it.key] != it {
			return fmt.Errorf("slot %d broken", i)
		}
		if i > 0 && it.qval.Before(tssQ[(i-1)/2].qval) {
			return fmt.Errorf("heap order at %d", i)
		}
		if it.len < 1 || it.len > tssItemCap {
			return fmt.Errorf("len %d", it.len)
		}
		mx := it.buf[0].rxt
		for j := 0; j < it.len; j++ {
			if it.buf[j].rxt.After(mx) {
				mx = it.buf[j].rxt
			}
			for k := j + 1; k < it.len; k++ {
				if it.buf[j].rxt == it.buf[k].rxt {
					return fmt.Errorf("dup rxt")
				}
			}
			if !it.buf[j].rxt.Before(it.buf[j].txt) {
				return fmt.Errorf("txt not after rxt for %s", it.key)
			}
		}
		if it.qval.Before(mx) {
			return fmt.Errorf("client %s ranked older than max: qval %v max %v", it.key, it.qval, mx)
		}
		if exact != nil && exact[it.key] && it.qval != mx {
			return fmt.Errorf("client %s in-order but qval %v != max %v", it.key, it.qval, mx)
		}
	}
	return nil
}

type pending struct {
	id  string
	rxt time.Time
	txt time.Time
}

func TestAuditRandom(t *testing.T) {
	for seed := int64(0); seed < 300; seed++ {
		auditReset()
		rng := rand.New(rand.NewSource(seed))
		base := time.Date(2036, 2, 7, 6, 28, 0, 0, time.UTC).Add(time.Duration(rng.Intn(40)) * time.Second)
		inorder := seed%2 == 0
		nclients := 1 + rng.Intn(6)
		last := map[string]time.Time{}
		exact := map[string]bool{}
		var pend []pending
		for step := 0; step < 400; step++ {
			if len(pend) > 0 && rng.Intn(3) == 0 {
				i := rng.Intn(len(pend))
				p := pend[i]
				pend = append(pend[:i], pend[i+1:]...)
				txt := p.txt
				switch rng.Intn(4) {
				case 0: // unchanged
				case 1:
					txt = p.rxt.Add(time.Duration(rng.Intn(2000)-100) * time.Nanosecond)
				case 2:
					txt = p.txt.Add(time.Duration(rng.Intn(100000)))
				case 3:
					txt = p.rxt
				}
				updateTXTimestamp(p.id, p.rxt, &txt)
			} else {
				id := fmt.Sprintf("c%d", rng.Intn(nclients))
				var rxt time.Time
				if inorder {
					l, ok := last[id]
					if !ok {
						l = base
					}
					rxt = l.Add(time.Duration(rng.Intn(3)) * time.Nanosecond * time.Duration(1+rng.Intn(1000000000)))
					exact[id] = true
				} else {
					rxt = base.Add(time.Duration(rng.Int63n(int64(200*time.Second))) - 100*time.Second)
					if rng.Intn(4) == 0 {
						// near collision
						if l, ok := last[id]; ok {
							rxt = l.Add(time.Duration(rng.Intn(5)-2) * time.Nanosecond)
						}
					}
				}
				var req ntp.Packet
				req.SetVersion(ntp.VersionMax)
				req.SetMode(ntp.ModeClient)
				req.TransmitTime = ntp.Time64{Seconds: rng.Uint32(), Fraction: rng.Uint32()}
				req.ReceiveTime = req.TransmitTime
				if rng.Intn(2) == 0 {
					req.ReceiveTime = ntp.Time64{Seconds: rng.Uint32(), Fraction: rng.Uint32()}
				}
				tssMu.Lock()
				if it, ok := tss[id]; ok && rng.Intn(2) == 0 {
					req.OriginTime = it.buf[rng.Intn(it.len)].rxt
				}
				tssMu.Unlock()
				var txt time.Time
				var resp ntp.Packet
				handleRequest(id, &req, &rxt, &txt, &resp)
				if inorder {
					last[id] = rxt
				} else {
					last[id] = rxt
				}
				pend = append(pend, pending{id, rxt, txt})
			}
			if err := auditCheck(exact); err != nil {
				t.Fatalf("seed %d step %d: %v", seed, step, err)
			}
		}
	}
}

func TestAuditFull(t *testing.T) {
	auditReset()
	rng := rand.New(rand.NewSource(1))
	base := time.Date(2036, 2, 7, 6, 20, 0, 0, time.UTC)
	mk := func(id string, rxt time.Time) (time.Time, time.Time) {
		var req ntp.Packet
		req.SetVersion(ntp.VersionMax)
		req.SetMode(ntp.ModeClient)
		var txt time.Time
		var resp ntp.Packet
		handleRequest(id, &req, &rxt, &txt, &resp)
		return rxt, txt
	}
	for i := 0; i < tssCap; i++ {
		mk(fmt.Sprintf("f%d", i), base.Add(time.Duration(rng.Int63n(int64(20*time.Minute)))))
	}
	if err := auditCheck(nil); err != nil {
		t.Fatal(err)
	}
	scanMin := func() ntp.Time64 {
		var m ntp.Time64
		first := true
		for _, it := range tss {
			if first || it.qval.Before(m) {
				m = it.qval
				first = false
			}
		}
		return m
	}
	for k := 0; k < 300; k++ {
		m := scanMin()
		if tssQ[0].qval != m {
			t.Fatalf("queue head is not min")
		}
		minKey := tssQ[0].key
		wasFull := len(tss) == tssCap
		id := fmt.Sprintf("n%d", k)
		rxt := base.Add(time.Duration(rng.Int63n(int64(25*time.Minute))) - 2*time.Minute)
		if k%5 == 0 {
			rxt = ntp.TimeFromTime64(m, base).Add(time.Duration(rng.Intn(3)-1) * time.Nanosecond)
		}
		r64 := ntp.Time64FromTime(rxt)
		rxt2, txt := mk(id, rxt)
		_, in := tss[id]
		_, minStill := tss[minKey]
		if !wasFull {
			if !in || !minStill {
				t.Fatalf("not full: newcomer must be admitted without eviction")
			}
			continue
		}
		if len(tss) != tssCap {
			t.Fatalf("len %d", len(tss))
		}
		if m.After(r64) {
			if in || !minStill {
				t.Fatalf("older newcomer admitted")
			}
		} else {
			if !in || minStill {
				t.Fatalf("newer newcomer not admitted / min not evicted: in=%v minStill=%v m=%v r=%v", in, minStill, m, r64)
			}
		}
		if rng.Intn(2) == 0 {
			updateTXTimestamp(id, rxt2, &txt)
		}
	}
	if err := auditCheck(nil); err != nil {
		t.Fatal(err)
	}
}

func TestAuditConcurrent(t *testing.T) {
	auditReset()
	var wg sync.WaitGroup
	for g := 0; g < 16; g++ {
		wg.Add(1)
		go func(g int) {
			defer wg.Done()
			rng := rand.New(rand.NewSource(int64(g)))
			for k := 0; k < 20000; k++ {
				id := fmt.Sprintf("c%d", rng.Intn(5))
				rxt := time.Now().UTC().Add(time.Duration(rng.Intn(2000)-1000) * time.Nanosecond)
				var req ntp.Packet
				req.TransmitTime = ntp.Time64{Seconds: rng.Uint32(), Fraction: rng.Uint32()}
				if rng.Intn(2) == 0 {
					if recs, _, ok := snapshot(id); ok {
						req.OriginTime = recs[rng.Intn(len(recs))]
					}
				}
				var txt time.Time
				var resp ntp.Packet
				handleRequest(id, &req, &rxt, &txt, &resp)
				if rng.Intn(4) != 0 {
					if rng.Intn(3) != 0 {
						txt = time.Now().UTC()
					}
					updateTXTimestamp(id, rxt, &txt)
				}
				if k%1000 == 0 {
					if err := auditCheck(nil); err != nil {
						t.Error(err)
						return
					}
				}
			}
		}(g)
	}
	wg.Wait()
	if err := auditCheck(nil); err != nil {
		t.Fatal(err)
	}
}

func snapshot(id string) ([]ntp.Time64, ntp.Time64, bool) {
	tssMu.Lock()
	defer tssMu.Unlock()
	it, ok := tss[id]
	if !ok {
		return nil, ntp.Time64{}, false
	}
	var r []ntp.Time64
	for i := 0; i < it.len; i++ {
		r = append(r, it.buf[i].rxt)
	}
	return r, it.qval, true
}
