package server

import (
	"context"
	"fmt"
	"log/slog"
	"net"
	"sync"
	"testing"
	"time"

	"example.com/scion-time/net/ntp"
	"example.com/scion-time/net/ntske"
	"example.com/scion-time/net/udp"
)

func TestAuditLoopback(t *testing.T) {
	auditReset()
	ctx := context.Background()
	log := slog.New(slog.DiscardHandler)
	StartIPServer(ctx, log, &net.UDPAddr{IP: net.IPv4(127, 0, 0, 1), Port: 41233}, 0, ntske.NewProvider())
	time.Sleep(100 * time.Millisecond)
	srv := &net.UDPAddr{IP: net.IPv4(127, 0, 0, 1), Port: 41233}

	var wg sync.WaitGroup
	var mu sync.Mutex
	served, lost := 0, 0
	for g := 0; g < 32; g++ {
		wg.Add(1)
		go func(g int) {
			defer wg.Done()
			for k := 0; k < 40; k++ {
				// few distinct addresses, many sockets => same clientID on several listeners
				ip := net.IPv4(127, 1, byte(g%4), byte(k%3+1))
				c, err := net.DialUDP("udp", &net.UDPAddr{IP: ip}, srv)
				if err != nil {
					t.Error(err)
					return
				}
				var prev ntp.Packet
				have := false
				for r := 0; r < 6; r++ {
					var req ntp.Packet
					req.SetVersion(ntp.VersionMax)
					req.SetMode(ntp.ModeClient)
					req.TransmitTime = ntp.Time64FromTime(time.Now())
					if have && r%2 == 1 {
						req.OriginTime = prev.ReceiveTime
						req.ReceiveTime = ntp.Time64FromTime(time.Now().Add(time.Microsecond))
					}
					var b []byte
					ntp.EncodePacket(&b, &req)
					c.Write(b)
					c.SetReadDeadline(time.Now().Add(200 * time.Millisecond))
					rb := make([]byte, 128)
					n, err := c.Read(rb)
					mu.Lock()
					if err != nil {
						lost++
						mu.Unlock()
						continue
					}
					served++
					mu.Unlock()
					var resp ntp.Packet
					if err := ntp.DecodePacket(&resp, rb[:n]); err != nil {
						t.Error(err)
					}
					prev, have = resp, true
				}
				c.Close()
			}
		}(g)
	}
	// inject late tx timestamps now and then
	stop := make(chan struct{})
	go func() {
		for {
			select {
			case <-stop:
				return
			case <-time.After(3 * time.Millisecond):
				auditLate(3)
			}
		}
	}()
	wg.Wait()
	close(stop)
	time.Sleep(50 * time.Millisecond)
	if err := auditCheck(nil); err != nil {
		t.Fatal(err)
	}
	tssMu.Lock()
	n := len(tss)
	for k, it := range tss {
		fmt.Println(k, it.len)
	}
	tssMu.Unlock()
	t.Logf("served %d lost %d clients %d", served, lost, n)
	_ = udp.HdrLen
}
