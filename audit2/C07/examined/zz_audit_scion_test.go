//go:build verif

package server_test

import (
	"context"
	"log/slog"
	"net"
	"sync"
	"testing"
	"time"

	"github.com/scionproto/scion/pkg/addr"
	"github.com/scionproto/scion/pkg/snet"
	"github.com/scionproto/scion/pkg/snet/path"

	"example.com/scion-time/core/client"
	"example.com/scion-time/core/server"
	"example.com/scion-time/net/ntske"
	"example.com/scion-time/net/udp"
)

func TestAuditSCIONLoopback(t *testing.T) {
	ctx := context.Background()
	log := slog.New(slog.DiscardHandler)
	server.StartSCIONServer(ctx, log, "", &net.UDPAddr{IP: net.IPv4(127, 0, 0, 1), Port: 10123}, 0, ntske.NewProvider())
	time.Sleep(100 * time.Millisecond)
	ia, _ := addr.ParseIA("1-ff00:0:110")
	raddr := udp.UDPAddr{IA: ia, Host: &net.UDPAddr{IP: net.IPv4(127, 0, 0, 1), Port: 10123}}
	var wg sync.WaitGroup
	var mu sync.Mutex
	ok, bad, il := 0, 0, 0
	for g := 0; g < 16; g++ {
		wg.Add(1)
		go func(g int) {
			defer wg.Done()
			laddr := udp.UDPAddr{IA: ia, Host: &net.UDPAddr{IP: net.IPv4(127, 2, 0, byte(g%3+1))}}
			c := &client.SCIONClient{Log: log, InterleavedMode: true}
			for k := 0; k < 30; k++ {
				ps := []snet.Path{path.Path{Src: ia, Dst: ia, DataplanePath: path.Empty{}, NextHop: raddr.Host}}
				cctx, cancel := context.WithTimeout(ctx, time.Second)
				_, _, err := client.MeasureClockOffsetSCION(cctx, log, []*client.SCIONClient{c}, laddr, raddr, ps)
				cancel()
				mu.Lock()
				if err != nil {
					bad++
					if bad < 3 {
						t.Log(err)
					}
				} else {
					ok++
					if c.InInterleavedMode() {
						il++
					}
				}
				mu.Unlock()
				if k%7 == 0 {
					udp.VerifLateTXTimestamps(2)
				}
			}
		}(g)
	}
	wg.Wait()
	clients, values, err := server.VerifCheckStore()
	t.Logf("ok %d bad %d interleaved %d clients %d values %d", ok, bad, il, clients, values)
	if err != nil {
		t.Fatal(err)
	}
}
