//go:build verif

package server

import "example.com/scion-time/net/udp"

func auditLate(n int) { udp.VerifLateTXTimestamps(n) }
