//go:build verif

package zzaudit

import (
	"testing"
	"time"

	"example.com/scion-time/core/server"
	"example.com/scion-time/net/ntp"
)

func TestZeroSentinel(t *testing.T) {
	server.VerifReset()
	era1 := time.Date(2036, 2, 7, 6, 28, 16, 0, time.UTC)
	clk.now = era1.Add(-time.Millisecond)
	mk := func(tx time.Time) ntp.Packet {
		p := ntp.Packet{}
		p.SetVersion(4)
		p.SetMode(ntp.ModeClient)
		p.TransmitTime = ntp.Time64FromTime(tx)
		return p
	}
	req := mk(era1.Add(-time.Microsecond))
	rxt := era1
	clk.now = era1.Add(1000)
	var txt time.Time
	var resp ntp.Packet
	server.VerifHandleRequest("z", &req, &rxt, &txt, &resp)
	txt1 := clk.Now()
	server.VerifUpdateTXTimestamp("z", rxt, &txt1)
	t.Logf("resp1 origin=%v rx=%v", resp.OriginTime, resp.ReceiveTime)
	for i := 0; i < 3; i++ {
		clk.now = clk.now.Add(time.Second)
		req2 := mk(clk.now)
		rxt2 := clk.Now()
		var resp2 ntp.Packet
		server.VerifHandleRequest("z", &req2, &rxt2, &txt, &resp2)
		txt1 = clk.Now()
		server.VerifUpdateTXTimestamp("z", rxt2, &txt1)
		t.Logf("req%d tx=%v resp origin=%v ok=%v", i+2, req2.TransmitTime, resp2.OriginTime, resp2.OriginTime == req2.TransmitTime)
	}
}
