package ntp_test

import (
	"testing"
	"time"

	"example.com/scion-time/net/ntp"
)

func TestAuditExhaustiveNs(t *testing.T) {
	ref := time.Unix(2085978496, 0) // era 1 start
	base := int64(2085978495)
	prev := ntp.Time64{}
	for ns := int64(0); ns < 1000000000; ns++ {
		tt := time.Unix(base, ns)
		x := ntp.Time64FromTime(tt)
		if ns > 0 && !prev.Before(x) {
			t.Fatalf("order ns=%d", ns)
		}
		prev = x
		b := ntp.TimeFromTime64(x, ref)
		if d := tt.Sub(b); d < 0 || d > 1 {
			t.Fatalf("ns=%d d=%v", ns, d)
		}
	}
}

func TestAuditExhaustiveFrac(t *testing.T) {
	ref := time.Unix(2085978496, 0)
	last := int64(-1)
	for f := uint64(0); f < 1<<32; f++ {
		b := ntp.TimeFromTime64(ntp.Time64{Seconds: 0xffffffff, Fraction: uint32(f)}, ref)
		if b.Unix() != 2085978495 {
			t.Fatalf("f=%d sec=%d", f, b.Unix())
		}
		n := int64(b.Nanosecond())
		if n < last || n-last > 1 {
			t.Fatalf("f=%d n=%d last=%d", f, n, last)
		}
		// never later, within 1ns of real value f/2^32 s
		lo := n * (1 << 32)
		if lo > int64(f)*1000000000 || int64(f)*1000000000-lo >= 1<<32 {
			t.Fatalf("f=%d n=%d", f, n)
		}
		last = n
	}
}
