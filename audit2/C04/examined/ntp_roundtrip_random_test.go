package ntp_test

import (
	"math/rand"
	"testing"
	"time"

	"example.com/scion-time/net/ntp"
)

func TestAuditRoundTrip(t *testing.T) {
	rng := rand.New(rand.NewSource(1))
	refs := []int64{0, 1, 2085978495, 2085978496, 2085978497, 2085978496 + 1<<32, 2085978496 + 2<<32, 2085978496 + 3<<32 - 1, 14000000000, 20000000000}
	for i := 0; i < 200; i++ {
		refs = append(refs, rng.Int63n(20000000000))
	}
	bad := 0
	for _, rs := range refs {
		for _, rns := range []int64{0, 1, 500000000, 999999999} {
			ref := time.Unix(rs, rns)
			ds := []int64{-1 << 31, -1<<31 + 1, -1, 0, 1, 1<<31 - 2, 1<<31 - 1}
			for i := 0; i < 200; i++ {
				ds = append(ds, rng.Int63n(1<<32)-1<<31)
			}
			for _, d := range ds {
				for _, ns := range []int64{0, 1, 2, 3, 4, 232830643, 999999998, 999999999, rng.Int63n(1000000000)} {
					tt := time.Unix(rs+d, ns)
					dd := tt.Sub(ref)
					_ = dd
					// restrict to whole-second window (O16 known)
					if tt.Unix()-ref.Unix() < -1<<31 || tt.Unix()-ref.Unix() >= 1<<31 {
						continue
					}
					back := ntp.TimeFromTime64(ntp.Time64FromTime(tt), ref)
					diff := tt.Sub(back)
					if diff < 0 || diff > 1 {
						bad++
						if bad < 20 {
							t.Errorf("ref=%v t=%v back=%v", ref.UTC(), tt.UTC(), back)
						}
					}
				}
			}
		}
	}
}
