//go:build verif

package zzaudit

import (
	"fmt"
	"math/rand"
	"testing"
	"time"

	"example.com/scion-time/core/server"
	"example.com/scion-time/core/timebase"
	"example.com/scion-time/net/ntp"
)

type fakeClock struct{ now time.Time }

func (c *fakeClock) Epoch() uint64                                 { return 0 }
func (c *fakeClock) Now() time.Time                                { c.now = c.now.Add(137); return c.now }
func (c *fakeClock) Drift(time.Duration) time.Duration             { return 0 }
func (c *fakeClock) Step(time.Duration)                            {}
func (c *fakeClock) Adjust(time.Duration, time.Duration, float64)  {}
func (c *fakeClock) Sleep(time.Duration)                           {}

var clk = &fakeClock{}

func init() { timebase.RegisterClock(clk) }

// model of the client (mirrors client_ip.go), client clock = server clock + coff
type client struct {
	id                     string
	coff                   time.Duration
	have                   bool
	cTx, cRx, sRx          ntp.Time64
}

func (c *client) round(t *testing.T, interleaved bool) {
	cnow := func() time.Time { return clk.Now().Add(c.coff) }
	cTxTime0 := cnow()
	req := ntp.Packet{}
	req.SetVersion(4)
	req.SetMode(ntp.ModeClient)
	il := false
	if interleaved && c.have && cTxTime0.Sub(ntp.TimeFromTime64(c.cTx, cTxTime0)) <= 3*time.Second {
		il = true
		req.OriginTime, req.ReceiveTime, req.TransmitTime = c.sRx, c.cRx, c.cTx
	} else {
		req.TransmitTime = ntp.Time64FromTime(cTxTime0)
	}
	cTxTime1 := cnow()
	rxt := clk.Now()
	rxtTrue := rxt
	var txt time.Time
	var resp ntp.Packet
	server.VerifHandleRequest(c.id, &req, &rxt, &txt, &resp)
	txt1 := clk.Now()
	txtTrue := txt1
	server.VerifUpdateTXTimestamp(c.id, rxt, &txt1)
	cRxTime := cnow()

	ilr := false
	if il && resp.OriginTime == req.ReceiveTime {
		ilr = true
	} else if resp.OriginTime != req.TransmitTime {
		t.Fatalf("%s: unexpected origin", c.id)
	}
	sRxTime := ntp.TimeFromTime64(resp.ReceiveTime, cTxTime0)
	sTxTime := ntp.TimeFromTime64(resp.TransmitTime, cTxTime0)
	var t0, t1, t2, t3 time.Time
	if ilr {
		t0 = ntp.TimeFromTime64(c.cTx, cTxTime0)
		t1 = ntp.TimeFromTime64(c.sRx, cTxTime0)
		t2 = sTxTime
		t3 = ntp.TimeFromTime64(c.cRx, cTxTime0)
	} else {
		t0, t1, t2, t3 = cTxTime1, sRxTime, sTxTime, cRxTime
		if d := rxtTrue.Sub(sRxTime); d < 0 || d > 10 {
			t.Fatalf("%s: sRx %v vs %v", c.id, sRxTime, rxtTrue)
		}
		_ = txtTrue
	}
	if t3.Sub(t0) < 0 || t2.Sub(t1) < 0 {
		t.Fatalf("%s: il=%v order t0=%v t1=%v t2=%v t3=%v", c.id, ilr, t0, t1, t2, t3)
	}
	off := ntp.ClockOffset(t0, t1, t2, t3)
	if d := off + c.coff; d < -2000 || d > 2000 {
		t.Fatalf("%s: il=%v at %v: offset %v, want %v", c.id, ilr, cTxTime0, off, -c.coff)
	}
	c.have = true
	c.cTx = ntp.Time64FromTime(cTxTime1)
	c.cRx = ntp.Time64FromTime(cRxTime)
	c.sRx = resp.ReceiveTime
}

func TestEraSim(t *testing.T) {
	for _, start := range []time.Time{
		time.Date(2036, 2, 7, 6, 28, 6, 0, time.UTC),
		time.Date(2172, 3, 15, 12, 56, 22, 0, time.UTC),
		time.Date(2444, 5, 29, 1, 52, 54, 0, time.UTC),
	} {
		server.VerifReset()
		clk.now = start
		rng := rand.New(rand.NewSource(2))
		var cs []*client
		offs := []time.Duration{0, 5 * time.Second, -5 * time.Second, 20 * time.Second, -20 * time.Second, 1<<31*time.Second - 60*time.Second, -(1<<31*time.Second - 60*time.Second)}
		for i, o := range offs {
			cs = append(cs, &client{id: fmt.Sprint("c", i), coff: o})
		}
		for step := 0; step < 40000; step++ {
			clk.now = clk.now.Add(time.Duration(rng.Intn(1000000)))
			c := cs[rng.Intn(len(cs))]
			c.round(t, rng.Intn(4) != 0)
			if _, _, err := server.VerifCheckStore(); err != nil {
				t.Fatalf("store: %v at %v", err, clk.now)
			}
		}
		t.Logf("end %v", clk.now)
	}
}
