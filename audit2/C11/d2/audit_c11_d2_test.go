package main

// Audit C11, finding d2: since e0ed74a every FetchData waits for the fetcher's
// lock without regard to its context, and a key exchange holds the lock for as
// long as the dial takes (5 s dial timeout, not bound by the caller's deadline).
// While the NTS-KE server is unreachable the measurements of successive rounds
// queue up on the lock: one measurement (goroutine + open UDP socket) is added
// per synchronization round (1 s), one is finished per 15 s (three attempts of
// 5 s each in interleaved mode). Before the lock each measurement ended by itself
// 15 s after it had started, i.e. at most 15 were alive at any time.
//
// The service's own reference clock object (newNTPReferenceClockIP, auth mode
// "nts") is driven like core/sync.Run drives it (1 s interval, 500 ms timeout)
// against an NTS-KE address that accepts TCP connections and never answers.

import (
	"context"
	"io"
	"log/slog"
	"net"
	"os"
	"sync/atomic"
	"testing"
	"time"

	"example.com/scion-time/core/client"
	"example.com/scion-time/core/measurements"
	"example.com/scion-time/core/timebase"
	"example.com/scion-time/driver/clocks"
)

type d2Clock struct {
	inner    *ntpReferenceClockIP
	inFlight atomic.Int64
}

func (c *d2Clock) MeasureClockOffset(ctx context.Context) (time.Time, time.Duration, error) {
	c.inFlight.Add(1)
	defer c.inFlight.Add(-1)
	return c.inner.MeasureClockOffset(ctx)
}

func d2OpenFDs() int {
	es, err := os.ReadDir("/proc/self/fd")
	if err != nil {
		return -1
	}
	return len(es)
}

func TestAuditC11D2MeasurementsPileUpOnFetcherLock(t *testing.T) {
	quiet := slog.New(slog.DiscardHandler)
	func() {
		defer func() { _ = recover() }() // another test of this binary may have registered it
		timebase.RegisterClock(clocks.NewSystemClock(quiet, clocks.UnknownDrift))
	}()

	// unreachable NTS-KE server: connections are accepted, nothing is answered
	ln, err := net.Listen("tcp", "127.77.12.1:0")
	if err != nil {
		t.Fatal(err)
	}
	defer ln.Close()
	go func() {
		for {
			c, err := ln.Accept()
			if err != nil {
				return
			}
			go func() { _, _ = io.Copy(io.Discard, c); _ = c.Close() }()
		}
	}()

	refclk := newNTPReferenceClockIP(quiet,
		&net.UDPAddr{IP: net.ParseIP("127.0.0.1")},
		&net.UDPAddr{IP: net.ParseIP("127.77.12.1"), Port: 123},
		0, []string{authModeNTS}, ln.Addr().String(), true)
	clk := &d2Clock{inner: refclk}

	var rcc client.ReferenceClockClient
	refClks := []client.ReferenceClock{clk}
	offs := make([]measurements.Measurement, 1)

	const (
		interval = 1000 * time.Millisecond // defaultSyncInterval
		timeout  = 500 * time.Millisecond  // defaultSyncTimeout
		rounds   = 40
		// three attempts per measurement (interleaved mode), 5 s dial timeout
		// each: without the lock a measurement is gone 15 s after its start
		boundWithoutLock = 16
	)
	fd0 := d2OpenFDs()
	t0 := time.Now()
	for round := 0; round < rounds; round++ {
		time.Sleep(time.Until(t0.Add(time.Duration(round) * interval)))
		rctx, cancel := context.WithTimeout(context.Background(), timeout)
		_ = rcc.MeasureClockOffsets(rctx, refClks, offs)
		cancel()
		if round%5 == 4 {
			t.Logf("after round %2d (%5.1fs): measurements still alive = %2d, open file descriptors = %d (start: %d)",
				round+1, time.Since(t0).Seconds(), clk.inFlight.Load(), d2OpenFDs(), fd0)
		}
	}
	alive := clk.inFlight.Load()
	if alive > boundWithoutLock {
		t.Errorf("%d measurements of past rounds are still alive after %d rounds (one more per round, "+
			"each with an open socket); without the lock it was at most %d at any time",
			alive, rounds, boundWithoutLock)
	}
}
