package main

// Audit C11, finding d3: NTS key exchanges over SCION/QUIC that run at the same
// time corrupt each other's packets. scion.dialUDP stores the port of the new
// socket through localAddr.Host (quic.go: localAddr.Host.Port = ...), a pointer;
// every packet a connection sends takes its SCION/UDP source port from there
// (writePkt: udpLayer.SrcPort = c.localAddr.Host.Port). The time service hands
// ONE local address object to the fetchers of all seven clients of a SCION
// reference clock (newNTPReferenceClockSCION -> configureSCIONClientNTS), so the
// connection dialled last overwrites the source port of all others. Replies are
// delivered by border router / end host to the SCION/UDP destination port, i.e.
// to the wrong socket: of n concurrent exchanges one completes, the others run
// into the QUIC handshake timeout (5 s) - under the fetcher lock.
// Same class as a6944a2 (remoteAddr.Host in measureClockOffsetSCION), sibling
// not covered.
//
// Set-up, all on loopback, unchanged service code:
//   - servers (AS 1-ff00:0:112): server.StartNTSKEServerSCION + StartSCIONServer
//   - client (AS 1-ff00:0:111): newNTPReferenceClockSCION(auth "nts") + scion.StartPather,
//     driven like core/sync.Run (1 s interval, 500 ms timeout)
//   - a stand-in SCION daemon (gRPC) that answers AS and Paths requests, and a
//     stand-in border router that delivers every SCION packet to <destination
//     host address>:<SCION/UDP destination port>, which is what routers and the
//     receiving host do with a SCION/UDP packet.

import (
	"context"
	"crypto/ecdsa"
	"crypto/elliptic"
	"crypto/rand"
	"crypto/tls"
	"crypto/x509"
	"crypto/x509/pkix"
	"fmt"
	"log/slog"
	"math/big"
	"net"
	"strings"
	"sync"
	"sync/atomic"
	"testing"
	"time"

	"github.com/google/gopacket"
	"google.golang.org/grpc"
	"google.golang.org/protobuf/types/known/timestamppb"

	"github.com/scionproto/scion/pkg/addr"
	sdpb "github.com/scionproto/scion/pkg/proto/daemon"
	"github.com/scionproto/scion/pkg/slayers"
	spath "github.com/scionproto/scion/pkg/slayers/path"
	scionpath "github.com/scionproto/scion/pkg/slayers/path/scion"

	"example.com/scion-time/core/client"
	"example.com/scion-time/core/measurements"
	"example.com/scion-time/core/server"
	"example.com/scion-time/core/timebase"
	"example.com/scion-time/driver/clocks"
	"example.com/scion-time/net/ntske"
	"example.com/scion-time/net/scion"
	"example.com/scion-time/net/udp"
)

const (
	d3ServerIP = "127.77.14.2"
	d3RouterIP = "127.77.14.3"
	d3DaemonIP = "127.77.14.1"
	d3ClientIP = "127.0.0.1"
	d3NTPPort  = 10123
)

var (
	d3LocalIA  = addr.MustParseIA("1-ff00:0:111")
	d3RemoteIA = addr.MustParseIA("1-ff00:0:112")
)

func d3TLSConfig(t *testing.T) *tls.Config {
	priv, err := ecdsa.GenerateKey(elliptic.P256(), rand.Reader)
	if err != nil {
		t.Fatal(err)
	}
	tmpl := x509.Certificate{
		SerialNumber: big.NewInt(1),
		Subject:      pkix.Name{CommonName: "audit"},
		NotBefore:    time.Now().Add(-time.Hour),
		NotAfter:     time.Now().Add(time.Hour),
		KeyUsage:     x509.KeyUsageDigitalSignature,
		ExtKeyUsage:  []x509.ExtKeyUsage{x509.ExtKeyUsageServerAuth},
		IPAddresses:  []net.IP{net.ParseIP(d3ServerIP)},
	}
	der, err := x509.CreateCertificate(rand.Reader, &tmpl, &tmpl, &priv.PublicKey, priv)
	if err != nil {
		t.Fatal(err)
	}
	return &tls.Config{
		Certificates: []tls.Certificate{{Certificate: [][]byte{der}, PrivateKey: priv}},
		NextProtos:   []string{"ntske/1"},
		MinVersion:   tls.VersionTLS13,
	}
}

// ---- stand-in SCION daemon ----

type d3Daemon struct {
	sdpb.UnimplementedDaemonServiceServer
	numPaths   atomic.Int32
	routerAddr string
}

func (d *d3Daemon) AS(context.Context, *sdpb.ASRequest) (*sdpb.ASResponse, error) {
	return &sdpb.ASResponse{IsdAs: uint64(d3LocalIA), Mtu: 1472}, nil
}

func (d *d3Daemon) Paths(_ context.Context, req *sdpb.PathsRequest) (*sdpb.PathsResponse, error) {
	resp := &sdpb.PathsResponse{}
	for i := 0; i < int(d.numPaths.Load()); i++ {
		dp := scionpath.Decoded{
			Base: scionpath.Base{
				PathMeta: scionpath.MetaHdr{SegLen: [3]uint8{2, 0, 0}},
				NumINF:   1,
				NumHops:  2,
			},
			InfoFields: []spath.InfoField{{ConsDir: true, SegID: uint16(i + 1), Timestamp: uint32(time.Now().Unix())}},
			HopFields: []spath.HopField{
				{ExpTime: 63, ConsIngress: 0, ConsEgress: uint16(i + 1)},
				{ExpTime: 63, ConsIngress: uint16(100 + i), ConsEgress: 0},
			},
		}
		raw := make([]byte, dp.Len())
		if err := dp.SerializeTo(raw); err != nil {
			return nil, err
		}
		resp.Paths = append(resp.Paths, &sdpb.Path{
			Raw:       raw,
			Interface: &sdpb.Interface{Address: &sdpb.Underlay{Address: d.routerAddr}},
			Interfaces: []*sdpb.PathInterface{
				{IsdAs: req.SourceIsdAs, Id: uint64(i + 1)},
				{IsdAs: req.DestinationIsdAs, Id: uint64(100 + i)},
			},
			Mtu:        1472,
			Expiration: timestamppb.New(time.Now().Add(time.Hour)),
		})
	}
	return resp, nil
}

func d3StartDaemon(t *testing.T, routerAddr string) (*d3Daemon, string) {
	ln, err := net.Listen("tcp", net.JoinHostPort(d3DaemonIP, "0"))
	if err != nil {
		t.Fatal(err)
	}
	d := &d3Daemon{routerAddr: routerAddr}
	s := grpc.NewServer()
	sdpb.RegisterDaemonServiceServer(s, d)
	go func() { _ = s.Serve(ln) }()
	return d, ln.Addr().String()
}

// ---- stand-in border router ----

type d3Router struct {
	forwarded  atomic.Int64
	mislabeled atomic.Int64 // client packets whose SCION/UDP source port is not that of the sending socket
}

func d3StartRouter(t *testing.T) (*d3Router, string) {
	conn, err := net.ListenUDP("udp", &net.UDPAddr{IP: net.ParseIP(d3RouterIP)})
	if err != nil {
		t.Fatal(err)
	}
	r := &d3Router{}
	go func() {
		buf := make([]byte, 65536)
		for {
			n, from, err := conn.ReadFromUDP(buf)
			if err != nil {
				return
			}
			var (
				scionLayer slayers.SCION
				hbhLayer   slayers.HopByHopExtnSkipper
				e2eLayer   slayers.EndToEndExtnSkipper
				udpLayer   slayers.UDP
			)
			parser := gopacket.NewDecodingLayerParser(
				slayers.LayerTypeSCION, &scionLayer, &hbhLayer, &e2eLayer, &udpLayer)
			parser.IgnoreUnsupported = true
			decoded := make([]gopacket.LayerType, 0, 4)
			if err := parser.DecodeLayers(buf[:n], &decoded); err != nil {
				continue
			}
			if len(decoded) < 2 || decoded[len(decoded)-1] != slayers.LayerTypeSCIONUDP {
				continue
			}
			dst, err := scionLayer.DstAddr()
			if err != nil || dst.Type() != addr.HostTypeIP {
				continue
			}
			if scionLayer.SrcIA == d3LocalIA && int(udpLayer.SrcPort) != from.Port {
				r.mislabeled.Add(1)
			}
			r.forwarded.Add(1)
			_, _ = conn.WriteToUDP(buf[:n], &net.UDPAddr{IP: dst.IP().AsSlice(), Port: int(udpLayer.DstPort)})
		}
	}()
	return r, conn.LocalAddr().String()
}

// ---- log capture ----

type d3LogHandler struct {
	mu    *sync.Mutex
	t0    *time.Time
	lines *[]string
	ok    *atomic.Int64
	fail  *atomic.Int64
}

func (h d3LogHandler) Enabled(context.Context, slog.Level) bool { return true }
func (h d3LogHandler) WithAttrs([]slog.Attr) slog.Handler       { return h }
func (h d3LogHandler) WithGroup(string) slog.Handler            { return h }
func (h d3LogHandler) Handle(_ context.Context, r slog.Record) error {
	switch r.Message {
	case "NTS-KE data":
		h.ok.Add(1)
	case "failed to fetch key exchange data":
		h.fail.Add(1)
	default:
		if r.Level < slog.LevelInfo {
			return nil
		}
	}
	var sb strings.Builder
	fmt.Fprintf(&sb, "%8.3fs %s", time.Since(*h.t0).Seconds(), r.Message)
	r.Attrs(func(a slog.Attr) bool {
		if a.Key == "error" || a.Key == "via" || a.Key == "server" || a.Key == "port" {
			v := a.Value.String()
			if a.Key == "via" && len(v) > 8 {
				v = v[:8]
			}
			fmt.Fprintf(&sb, " %s=%q", a.Key, v)
		}
		return true
	})
	line := sb.String()
	if strings.Contains(line, "deadline exceeded") || strings.Contains(line, "i/o timeout") {
		// attempts of measurements whose round is long over (counted above, not listed)
		return nil
	}
	h.mu.Lock()
	*h.lines = append(*h.lines, line)
	h.mu.Unlock()
	return nil
}

func TestAuditC11D3ConcurrentQUICKeyExchangesShareSourcePort(t *testing.T) {
	quiet := slog.New(slog.DiscardHandler)
	func() {
		defer func() { _ = recover() }()
		timebase.RegisterClock(clocks.NewSystemClock(quiet, clocks.UnknownDrift))
	}()
	ctx := context.Background()

	router, routerAddr := d3StartRouter(t)
	daemon, daemonAddr := d3StartDaemon(t, routerAddr)

	// servers, as in runServer()
	provider := ntske.NewProvider()
	srvAddr := udp.UDPAddr{IA: d3RemoteIA, Host: &net.UDPAddr{IP: net.ParseIP(d3ServerIP), Port: d3NTPPort}}
	server.StartNTSKEServerSCION(ctx, quiet, srvAddr, d3TLSConfig(t), provider)
	server.StartSCIONServer(ctx, quiet, "", &net.UDPAddr{IP: net.ParseIP(d3ServerIP), Port: d3NTPPort}, 0, provider)
	time.Sleep(200 * time.Millisecond)

	run := func(name string, numPaths, rounds int) (ok, fail int64, firstRoundMeasurements int) {
		daemon.numPaths.Store(int32(numPaths))
		var mu sync.Mutex
		var lines []string
		var nOK, nFail atomic.Int64
		t0 := time.Now()
		clog := slog.New(d3LogHandler{mu: &mu, t0: &t0, lines: &lines, ok: &nOK, fail: &nFail})

		// client, as in createClocks(): the reference clock address names the
		// NTS-KE server, which names the NTP server in the exchange
		ntskeServer := net.JoinHostPort(d3ServerIP, "14460")
		refclk := newNTPReferenceClockSCION(clog, daemonAddr,
			udp.UDPAddr{IA: d3LocalIA, Host: &net.UDPAddr{IP: net.ParseIP(d3ClientIP)}},
			udp.UDPAddr{IA: d3RemoteIA, Host: &net.UDPAddr{IP: net.ParseIP(d3ServerIP), Port: 14460}},
			0, []string{authModeNTS}, ntskeServer, true)
		refclk.pather = scion.StartPather(ctx, quiet, daemonAddr, []addr.IA{d3RemoteIA})
		if n := len(refclk.pather.Paths(d3RemoteIA)); n != numPaths {
			t.Fatalf("%s: pather has %d paths, want %d", name, n, numPaths)
		}

		var rcc client.ReferenceClockClient
		refClks := []client.ReferenceClock{refclk}
		offs := make([]measurements.Measurement, 1)
		mis0 := router.mislabeled.Load()
		t0 = time.Now()
		for round := 0; round < rounds; round++ {
			time.Sleep(time.Until(t0.Add(time.Duration(round) * time.Second)))
			rctx, cancel := context.WithTimeout(context.Background(), 500*time.Millisecond)
			n := rcc.MeasureClockOffsets(rctx, refClks, offs)
			cancel()
			mu.Lock()
			lines = append(lines, fmt.Sprintf("%8.3fs -- round %d done: measurement=%v, key exchanges so far: %d ok, %d failed",
				time.Since(t0).Seconds(), round, n == 1, nOK.Load(), nFail.Load()))
			mu.Unlock()
			if round == 0 {
				firstRoundMeasurements = n
			}
		}
		time.Sleep(300 * time.Millisecond)
		mu.Lock()
		t.Logf("---- %s: %d path(s) to the server, i.e. %d client(s) measuring per round ----", name, numPaths, numPaths)
		for _, l := range lines {
			t.Log(l)
		}
		mu.Unlock()
		t.Logf("%s: client packets with a SCION/UDP source port other than that of the sending socket: %d",
			name, router.mislabeled.Load()-mis0)
		return nOK.Load(), nFail.Load(), firstRoundMeasurements
	}

	// control: one path, one client, one key exchange at a time
	ok1, fail1, m1 := run("control", 1, 2)
	if ok1 != 1 || fail1 != 0 || m1 != 1 {
		t.Fatalf("control run did not work: %d ok, %d failed key exchanges, first round measurements %d", ok1, fail1, m1)
	}

	// seven paths: the seven clients of the reference clock exchange keys at once
	ok7, fail7, _ := run("seven paths", 7, 34)
	if fail7 != 0 {
		t.Errorf("with seven clients exchanging keys concurrently %d key exchanges failed (%d succeeded) "+
			"against a server and network that answered the control run at once", fail7, ok7)
	}
}
