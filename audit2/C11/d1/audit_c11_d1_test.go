package main

// Audit C11, finding d1: the repair e0ed74a (lock around FetchData/StoreCookie)
// does not remove the crash it was written for. The fetcher is still reset
// (f.data = Data{}) by a *failed* key exchange of a measurement that outlived
// its round while a measurement of the current round has a request in flight;
// the cookie of that request's response is then stored next to nil keys and
// the next request panics in the AEAD.
//
// Everything below is the unchanged service wiring on loopback:
//   - server.StartNTSKEServerIP + server.StartIPServer with one key provider,
//   - the time service's own reference clock object (newNTPReferenceClockIP with
//     auth mode "nts", i.e. interleaved mode, Ntimed filter, NTS),
//   - client.ReferenceClockClient.MeasureClockOffsets driven like core/sync.Run
//     does it (one round per second, 500 ms timeout, both defaults).
// Between client and servers sit a TCP and a UDP relay that model the network:
// an outage (TCP connections are accepted but nothing answers, UDP datagrams are
// dropped) followed by normal operation with a few milliseconds of latency.

import (
	"context"
	"crypto/ecdsa"
	"crypto/elliptic"
	"crypto/rand"
	"crypto/tls"
	"crypto/x509"
	"crypto/x509/pkix"
	"fmt"
	"io"
	"log/slog"
	"math/big"
	"net"
	"runtime/debug"
	"strings"
	"sync"
	"sync/atomic"
	"testing"
	"time"

	"example.com/scion-time/core/client"
	"example.com/scion-time/core/measurements"
	"example.com/scion-time/core/server"
	"example.com/scion-time/core/timebase"
	"example.com/scion-time/driver/clocks"
	"example.com/scion-time/net/ntske"
)

const (
	d1ServerIP = "127.77.11.2" // NTS-KE server (port 4460) and NTP server
	d1RelayIP  = "127.77.11.1" // address the client is configured with for NTS-KE
	d1ClientIP = "127.0.0.1"

	d1SyncInterval = 1000 * time.Millisecond // defaultSyncInterval
	d1SyncTimeout  = 500 * time.Millisecond  // defaultSyncTimeout

	d1TCPLatency = 15 * time.Millisecond // added once per NTS-KE connection
	d1UDPLatency = 50 * time.Millisecond // added per direction
)

type d1LogHandler struct {
	mu    *sync.Mutex
	t0    time.Time
	lines *[]string
}

func (h d1LogHandler) Enabled(context.Context, slog.Level) bool { return true }
func (h d1LogHandler) WithAttrs([]slog.Attr) slog.Handler       { return h }
func (h d1LogHandler) WithGroup(string) slog.Handler            { return h }
func (h d1LogHandler) Handle(_ context.Context, r slog.Record) error {
	keep := r.Message == "NTS-KE data" ||
		r.Message == "failed to fetch key exchange data" ||
		r.Message == "evaluated response"
	if !keep {
		return nil
	}
	var sb strings.Builder
	fmt.Fprintf(&sb, "%8.3fs %s", time.Since(h.t0).Seconds(), r.Message)
	r.Attrs(func(a slog.Attr) bool {
		switch a.Key {
		case "error":
			fmt.Fprintf(&sb, " error=%q", a.Value.String())
		case "cookies":
			if cs, ok := a.Value.Any().([][]byte); ok {
				fmt.Fprintf(&sb, " cookies=%d", len(cs))
			}
		}
		return true
	})
	h.mu.Lock()
	*h.lines = append(*h.lines, sb.String())
	h.mu.Unlock()
	return nil
}

func d1TLSConfig(t *testing.T) *tls.Config {
	priv, err := ecdsa.GenerateKey(elliptic.P256(), rand.Reader)
	if err != nil {
		t.Fatal(err)
	}
	tmpl := x509.Certificate{
		SerialNumber: big.NewInt(1),
		Subject:      pkix.Name{CommonName: "audit"},
		NotBefore:    time.Now().Add(-time.Hour),
		NotAfter:     time.Now().Add(time.Hour),
		KeyUsage:     x509.KeyUsageDigitalSignature,
		ExtKeyUsage:  []x509.ExtKeyUsage{x509.ExtKeyUsageServerAuth},
		IPAddresses:  []net.IP{net.ParseIP(d1ServerIP), net.ParseIP(d1RelayIP)},
	}
	der, err := x509.CreateCertificate(rand.Reader, &tmpl, &tmpl, &priv.PublicKey, priv)
	if err != nil {
		t.Fatal(err)
	}
	return &tls.Config{
		Certificates: []tls.Certificate{{Certificate: [][]byte{der}, PrivateKey: priv}},
		NextProtos:   []string{"ntske/1"},
		MinVersion:   tls.VersionTLS13,
	}
}

// TCP relay in front of the NTS-KE server. During an outage connections are
// accepted (by the kernel and the relay) but nothing is ever answered: the
// client's TLS handshake stalls until its 5 s dial timeout.
func d1StartTCPRelay(t *testing.T, outage *atomic.Bool) string {
	ln, err := net.Listen("tcp", net.JoinHostPort(d1RelayIP, "0"))
	if err != nil {
		t.Fatal(err)
	}
	go func() {
		for {
			c, err := ln.Accept()
			if err != nil {
				return
			}
			go func(c net.Conn) {
				defer c.Close()
				if outage.Load() {
					_, _ = io.Copy(io.Discard, c) // until the client gives up
					return
				}
				time.Sleep(d1TCPLatency)
				up, err := net.Dial("tcp", net.JoinHostPort(d1ServerIP, "4460"))
				if err != nil {
					return
				}
				defer up.Close()
				go func() { _, _ = io.Copy(up, c); _ = up.(*net.TCPConn).CloseWrite() }()
				_, _ = io.Copy(c, up)
			}(c)
		}
	}()
	return ln.Addr().String()
}

// UDP relay in front of the NTP server: drops everything during an outage,
// otherwise forwards with latency in both directions.
func d1StartUDPRelay(t *testing.T, outage *atomic.Bool, ntpPort int) int {
	conn, err := net.ListenUDP("udp", &net.UDPAddr{IP: net.ParseIP(d1ServerIP)})
	if err != nil {
		t.Fatal(err)
	}
	go func() {
		buf := make([]byte, 4096)
		for {
			n, from, err := conn.ReadFromUDP(buf)
			if err != nil {
				return
			}
			if outage.Load() {
				continue
			}
			pkt := append([]byte(nil), buf[:n]...)
			go func() {
				time.Sleep(d1UDPLatency)
				up, err := net.DialUDP("udp", nil, &net.UDPAddr{IP: net.ParseIP(d1ServerIP), Port: ntpPort})
				if err != nil {
					return
				}
				defer up.Close()
				_, _ = up.Write(pkt)
				_ = up.SetReadDeadline(time.Now().Add(time.Second))
				resp := make([]byte, 4096)
				m, err := up.Read(resp)
				if err != nil {
					return
				}
				time.Sleep(d1UDPLatency)
				_, _ = conn.WriteToUDP(resp[:m], from)
			}()
		}
	}()
	return conn.LocalAddr().(*net.UDPAddr).Port
}

func d1FreeUDPPort(t *testing.T) int {
	c, err := net.ListenUDP("udp", &net.UDPAddr{IP: net.ParseIP(d1ServerIP)})
	if err != nil {
		t.Fatal(err)
	}
	defer c.Close()
	return c.LocalAddr().(*net.UDPAddr).Port
}

// The service's reference clock; a panic of the measurement is turned into a
// test failure instead of taking the test binary down (in the service nothing
// recovers it: the process dies).
type d1Clock struct {
	inner    *ntpReferenceClockIP
	panicked chan string
}

func (c *d1Clock) MeasureClockOffset(ctx context.Context) (ts time.Time, off time.Duration, err error) {
	defer func() {
		if r := recover(); r != nil {
			select {
			case c.panicked <- fmt.Sprintf("%v\n%s", r, debug.Stack()):
			default:
			}
			err = fmt.Errorf("panic: %v", r)
		}
	}()
	return c.inner.MeasureClockOffset(ctx)
}

func TestAuditC11D1FetcherResetWhileResponseInFlight(t *testing.T) {
	quiet := slog.New(slog.DiscardHandler)
	func() {
		defer func() { _ = recover() }() // another test of this binary may have registered it
		timebase.RegisterClock(clocks.NewSystemClock(quiet, clocks.UnknownDrift))
	}()

	ctx := context.Background()
	var outage atomic.Bool

	// servers, wired as in runServer()
	provider := ntske.NewProvider()
	ntpPort := d1FreeUDPPort(t)
	udpRelayPort := d1StartUDPRelay(t, &outage, ntpPort)
	// the NTS-KE server announces <its local IP>:<port given here> as NTP server
	server.StartNTSKEServerIP(ctx, quiet, net.ParseIP(d1ServerIP), udpRelayPort, d1TLSConfig(t), provider)
	server.StartIPServer(ctx, quiet, &net.UDPAddr{IP: net.ParseIP(d1ServerIP), Port: ntpPort}, 0, provider)
	ntskeRelay := d1StartTCPRelay(t, &outage)
	time.Sleep(100 * time.Millisecond)

	// client, wired as in createClocks()
	var mu sync.Mutex
	var lines []string
	t0 := time.Now()
	clog := slog.New(d1LogHandler{mu: &mu, t0: t0, lines: &lines})
	refclk := newNTPReferenceClockIP(clog,
		&net.UDPAddr{IP: net.ParseIP(d1ClientIP)},
		&net.UDPAddr{IP: net.ParseIP(d1ServerIP), Port: udpRelayPort},
		0, []string{authModeNTS}, ntskeRelay, true /* insecure skip verify */)
	clk := &d1Clock{inner: refclk, panicked: make(chan string, 1)}

	var rcc client.ReferenceClockClient
	refClks := []client.ReferenceClock{clk}
	offs := make([]measurements.Measurement, 1)

	// History: the server's host is unreachable when the service starts and
	// for the ten seconds that follow; then it is back for good.
	const outageRounds = 10
	const totalRounds = 16
	outage.Store(true)
	go func() {
		time.Sleep(outageRounds*d1SyncInterval - 100*time.Millisecond)
		outage.Store(false)
	}()

	okRounds := 0
	for round := 0; round < totalRounds; round++ {
		time.Sleep(time.Until(t0.Add(time.Duration(round) * d1SyncInterval)))
		// core/sync: measureOffsetToRefClks
		rctx, cancel := context.WithTimeout(context.Background(), d1SyncTimeout)
		n := rcc.MeasureClockOffsets(rctx, refClks, offs)
		cancel()
		if n == 1 {
			okRounds++
		}
		mu.Lock()
		lines = append(lines, fmt.Sprintf("%8.3fs -- round %d done, outage=%v, measurements=%d",
			time.Since(t0).Seconds(), round, outage.Load(), n))
		mu.Unlock()
		select {
		case p := <-clk.panicked:
			mu.Lock()
			for _, l := range lines {
				t.Log(l)
			}
			mu.Unlock()
			t.Fatalf("NTS client panicked after the outage (in the service this kills the process):\n%s", p)
		default:
		}
	}
	// give late goroutines a moment
	time.Sleep(500 * time.Millisecond)
	mu.Lock()
	for _, l := range lines {
		t.Log(l)
	}
	mu.Unlock()
	select {
	case p := <-clk.panicked:
		t.Fatalf("NTS client panicked after the outage (in the service this kills the process):\n%s", p)
	default:
	}
	t.Logf("no panic in this run; rounds with a measurement: %d", okRounds)
}
