package ntske_test

// Audit C11, finding d1 (deterministic, fetcher level): the sequence of fetcher
// calls that the end-to-end test (audit_c11_d1_test.go in the repository root)
// produces with real goroutines, replayed one call after the other. Every call
// is made under the fetcher's lock, as since e0ed74a; the lock does not help,
// because the calls belong to three different measurements:
//
//	A (current round, valid deadline): FetchData  -> key exchange, pool 8 -> 7
//	B.. (measurements of earlier rounds whose deadline has long passed and that
//	    were queued on the lock): FetchData x7  -> pool 0, each request fails
//	    at once in its expired socket
//	B': FetchData -> pool empty -> key exchange with the expired deadline
//	    fails -> f.data = Data{}   (keys gone)
//	A: response arrives -> StoreCookie(fresh cookie)  -> pool 1, keys nil
//	next measurement: FetchData -> pool not empty, no exchange -> Data with a
//	    cookie and NO keys; nts.EncodePacket panics "siv: bad key size"
//
// The fetcher is shared by the IP and the SCION client (TLS and QUIC alike).

import (
	"context"
	"crypto/ecdsa"
	"crypto/elliptic"
	"crypto/rand"
	"crypto/tls"
	"crypto/x509"
	"crypto/x509/pkix"
	"log/slog"
	"math/big"
	"net"
	"testing"
	"time"

	"example.com/scion-time/core/server"
	"example.com/scion-time/net/ntp"
	"example.com/scion-time/net/nts"
	"example.com/scion-time/net/ntske"
)

const d1fServerIP = "127.77.11.3"

func d1fTLSConfig(t *testing.T) *tls.Config {
	priv, err := ecdsa.GenerateKey(elliptic.P256(), rand.Reader)
	if err != nil {
		t.Fatal(err)
	}
	tmpl := x509.Certificate{
		SerialNumber: big.NewInt(1),
		Subject:      pkix.Name{CommonName: "audit"},
		NotBefore:    time.Now().Add(-time.Hour),
		NotAfter:     time.Now().Add(time.Hour),
		KeyUsage:     x509.KeyUsageDigitalSignature,
		ExtKeyUsage:  []x509.ExtKeyUsage{x509.ExtKeyUsageServerAuth},
		IPAddresses:  []net.IP{net.ParseIP(d1fServerIP)},
	}
	der, err := x509.CreateCertificate(rand.Reader, &tmpl, &tmpl, &priv.PublicKey, priv)
	if err != nil {
		t.Fatal(err)
	}
	return &tls.Config{
		Certificates: []tls.Certificate{{Certificate: [][]byte{der}, PrivateKey: priv}},
		NextProtos:   []string{"ntske/1"},
		MinVersion:   tls.VersionTLS13,
	}
}

func TestAuditC11D1FetcherKeepsCookieWithoutKeys(t *testing.T) {
	log := slog.New(slog.DiscardHandler)
	provider := ntske.NewProvider()
	server.StartNTSKEServerIP(context.Background(), log, net.ParseIP(d1fServerIP), 123, d1fTLSConfig(t), provider)
	time.Sleep(100 * time.Millisecond)

	var f ntske.Fetcher
	f.Log = log
	f.TLSConfig = tls.Config{
		NextProtos:         []string{"ntske/1"},
		InsecureSkipVerify: true,
		ServerName:         d1fServerIP,
		MinVersion:         tls.VersionTLS13,
	}
	f.Port = "4460"

	valid := func() (context.Context, context.CancelFunc) {
		return context.WithTimeout(context.Background(), 500*time.Millisecond)
	}
	expired, cancelExpired := context.WithDeadline(context.Background(), time.Now().Add(-3*time.Second))
	defer cancelExpired()

	// A: measurement of the current round
	ctxA, cancelA := valid()
	dataA, err := f.FetchData(ctxA)
	cancelA()
	if err != nil {
		t.Fatalf("A: key exchange failed: %v", err)
	}
	if len(dataA.Cookie) != 8 || len(dataA.C2sKey) != 32 {
		t.Fatalf("A: unexpected data: %d cookies, %d key bytes", len(dataA.Cookie), len(dataA.C2sKey))
	}

	// B..: measurements of earlier rounds, queued on the lock, deadline passed
	for i := 0; i < 7; i++ {
		_, err := f.FetchData(expired)
		if err != nil {
			t.Fatalf("B%d: %v", i, err)
		}
	}
	// B': pool empty, key exchange under the expired deadline fails
	_, err = f.FetchData(expired)
	if err == nil {
		t.Fatalf("B': key exchange under an expired deadline succeeded")
	}
	t.Logf("B': key exchange failed as expected: %v", err)

	// A: its response arrives; ProcessResponse stores the fresh cookie (here: a
	// cookie of the right size; its content does not matter for what follows)
	f.StoreCookie(make([]byte, len(dataA.Cookie[0])))

	// next measurement
	ctxC, cancelC := valid()
	dataC, err := f.FetchData(ctxC)
	cancelC()
	t.Logf("next FetchData: err=%v cookies=%d len(C2sKey)=%d len(S2cKey)=%d server=%q",
		err, len(dataC.Cookie), len(dataC.C2sKey), len(dataC.S2cKey), dataC.Server)
	if err == nil && len(dataC.Cookie) != 0 && len(dataC.C2sKey) == 0 {
		func() {
			defer func() {
				r := recover()
				t.Errorf("FetchData handed out a cookie without session keys; "+
					"building the request as the clients do: panic = %v", r)
			}()
			buf := make([]byte, ntp.PacketLen)
			req, _ := nts.NewRequestPacket(dataC)
			nts.EncodePacket(&buf, &req)
		}()
	}
}
