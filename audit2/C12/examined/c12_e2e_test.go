//go:build verif

package server_test

import (
	"context"
	"crypto/rand"
	"encoding/binary"
	"log/slog"
	"net"
	"testing"
	"time"

	"example.com/scion-time/core/server"
	"example.com/scion-time/core/timebase"
	"example.com/scion-time/net/ntp"
	"example.com/scion-time/net/nts"
	"example.com/scion-time/net/ntske"
)

func c12Exchange(t *testing.T, addr *net.UDPAddr, data ntske.Data) ([][]byte, bool) {
	t.Helper()
	conn, err := net.DialUDP("udp", nil, addr)
	if err != nil {
		t.Fatal(err)
	}
	defer conn.Close()
	var req ntp.Packet
	req.SetVersion(ntp.VersionMax)
	req.SetMode(ntp.ModeClient)
	req.TransmitTime = ntp.Time64FromTime(timebase.Now())
	var buf []byte
	ntp.EncodePacket(&buf, &req)
	ntsreq, id := nts.NewRequestPacket(data)
	nts.EncodePacket(&buf, &ntsreq)
	if _, err := conn.Write(buf); err != nil {
		t.Fatal(err)
	}
	_ = conn.SetReadDeadline(time.Now().Add(500 * time.Millisecond))
	rbuf := make([]byte, 4096)
	n, err := conn.Read(rbuf)
	if err != nil {
		return nil, false
	}
	rbuf = rbuf[:n]
	var resp nts.Packet
	if err := nts.DecodePacket(&resp, rbuf); err != nil {
		t.Fatalf("decode: %v", err)
	}
	f := &ntske.Fetcher{}
	if err := nts.ProcessResponse(rbuf, data.S2cKey, f, &resp, id); err != nil {
		t.Fatalf("process: %v", err)
	}
	var cookies [][]byte
	for _, c := range resp.Cookies {
		cookies = append(cookies, c.Cookie)
	}
	return cookies, true
}

func cookieKeyID(t *testing.T, c []byte) int {
	var ec ntske.EncryptedServerCookie
	if err := ec.Decode(c); err != nil {
		t.Fatal(err)
	}
	return int(ec.ID)
}

func TestC12EndToEndIP(t *testing.T) {
	ctx := context.Background()
	log := slog.New(slog.DiscardHandler)
	provider := ntske.NewProvider()
	addr := &net.UDPAddr{IP: net.IPv4(127, 0, 0, 1), Port: 31123}
	server.StartIPServer(ctx, log, addr, 0, provider)
	time.Sleep(100 * time.Millisecond)

	c2s := make([]byte, 32)
	s2c := make([]byte, 32)
	rand.Read(c2s)
	rand.Read(s2c)
	sc := ntske.ServerCookie{Algo: ntske.AES_SIV_CMAC_256, C2S: c2s, S2C: s2c}
	mk := func() []byte {
		k := provider.Current()
		ec, err := sc.EncryptWithNonce(k.Value, k.ID)
		if err != nil {
			t.Fatal(err)
		}
		return ec.Encode()
	}
	data := func(c []byte) ntske.Data {
		return ntske.Data{C2sKey: c2s, S2cKey: s2c, Cookie: [][]byte{c}, Algo: ntske.AES_SIV_CMAC_256}
	}

	// key 1 at age ~0
	c0 := mk()
	id0 := cookieKeyID(t, c0)
	cs, ok := c12Exchange(t, addr, data(c0))
	if !ok || len(cs) != 8 {
		t.Fatalf("fresh cookie: ok=%v n=%d", ok, len(cs))
	}
	for _, c := range cs {
		if cookieKeyID(t, c) != id0 {
			t.Fatalf("unexpected rotation")
		}
	}
	// age the key to just below 24h: cookie issued now must live 48h more
	provider.VerifAge(24*time.Hour - 2*time.Second)
	cs, ok = c12Exchange(t, addr, data(c0))
	if !ok {
		t.Fatalf("cookie refused at 24h-2s")
	}
	late := cs[0]
	if cookieKeyID(t, late) != id0 {
		t.Fatalf("rotated early: %d", cookieKeyID(t, late))
	}
	provider.VerifAge(4 * time.Second) // key 1 is now 24h+2s old
	cs, ok = c12Exchange(t, addr, data(c0))
	if !ok {
		t.Fatalf("cookie refused at 24h+2s")
	}
	id1 := cookieKeyID(t, cs[0])
	if id1 == id0 {
		t.Fatalf("no rotation after 24h")
	}
	for _, c := range cs {
		if cookieKeyID(t, c) != id1 {
			t.Fatalf("mixed ids")
		}
	}
	// late was issued 4s ago; 48h-10s later it must still work
	provider.VerifAge(48*time.Hour - 10*time.Second)
	cs, ok = c12Exchange(t, addr, data(late))
	if !ok {
		t.Fatalf("cookie refused less than 2 days after issue")
	}
	id2 := cookieKeyID(t, cs[0])
	if id2 == id1 || id2 == id0 {
		t.Fatalf("no rotation: %d %d %d", id0, id1, id2)
	}
	// key 1 age is now 72h-8s+; 10s later it is over
	provider.VerifAge(10 * time.Second)
	if _, ok = c12Exchange(t, addr, data(late)); ok {
		t.Fatalf("cookie accepted beyond 3 days after its key was generated")
	}
	if _, ok = c12Exchange(t, addr, data(c0)); ok {
		t.Fatalf("cookie accepted beyond 3 days after its key was generated")
	}
	// forged key id for a valid key: wrong key -> refused
	var ec ntske.EncryptedServerCookie
	ec.Decode(late)
	b := append([]byte(nil), late...)
	binary.BigEndian.PutUint16(b[4:], uint16(id2))
	if _, ok = c12Exchange(t, addr, data(b)); ok {
		t.Fatalf("cookie accepted under another key id")
	}
	// idle gap of 10 days; cookies from id2 dead, server still alive
	last := cs[0]
	provider.VerifAge(240 * time.Hour)
	if _, ok = c12Exchange(t, addr, data(last)); ok {
		t.Fatalf("cookie accepted after 10 days")
	}
	c3 := mk()
	cs, ok = c12Exchange(t, addr, data(c3))
	if !ok || len(cs) != 8 {
		t.Fatalf("server dead after idle gap")
	}
	if id3 := cookieKeyID(t, cs[0]); id3 <= id2 {
		t.Fatalf("id reuse: %d after %d", id3, id2)
	}
	t.Logf("ids %d %d %d %d", id0, id1, id2, cookieKeyID(t, cs[0]))
}
