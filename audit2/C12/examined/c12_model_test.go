//go:build verif

package ntske

import (
	"math/rand"
	"sync"
	"testing"
	"time"
)

func TestC12Model(t *testing.T) {
	for seed := int64(0); seed < 200; seed++ {
		rng := rand.New(rand.NewSource(seed))
		p := NewProvider()
		var v time.Duration // virtual time
		gen := map[int]time.Duration{}
		k0 := p.Current()
		gen[k0.ID] = 0
		maxID := k0.ID
		const slack = 2 * time.Second
		for step := 0; step < 400; step++ {
			var d time.Duration
			switch rng.Intn(8) {
			case 0:
				d = 0
			case 1:
				d = time.Duration(rng.Int63n(int64(time.Hour)))
			case 2:
				d = 24*time.Hour - time.Duration(rng.Int63n(3))*time.Nanosecond
			case 3:
				d = 24*time.Hour + time.Duration(rng.Int63n(3))*time.Nanosecond
			case 4:
				d = 72*time.Hour - 24*time.Hour + time.Duration(rng.Int63n(1000))
			case 5:
				d = time.Duration(rng.Int63n(int64(100 * time.Hour)))
			case 6:
				d = time.Duration(rng.Int63n(int64(30 * 24 * time.Hour)))
			case 7:
				d = 12 * time.Hour
			}
			p.VerifAge(d)
			v += d
			if rng.Intn(3) != 0 {
				k := p.Current()
				g, ok := gen[k.ID]
				if !ok {
					if k.ID <= maxID {
						t.Fatalf("seed %d: id %d repeated (max %d)", seed, k.ID, maxID)
					}
					maxID = k.ID
					gen[k.ID] = v
					g = v
				}
				if v-g > 24*time.Hour+slack {
					t.Fatalf("seed %d: current key %d aged %v", seed, k.ID, v-g)
				}
				if !k.IsValidAt(time.Now()) {
					t.Fatalf("seed %d: current key invalid", seed)
				}
				if len(k.Value) != 32 {
					t.Fatalf("bad key")
				}
				if got := k.Validity.NotAfter.Sub(k.Validity.NotBefore); got != 72*time.Hour {
					t.Fatalf("validity %v", got)
				}
			}
			for id, g := range gen {
				k, ok := p.Get(id)
				age := v - g
				if ok && k.ID != id {
					t.Fatalf("wrong key")
				}
				if ok && age > 72*time.Hour+slack {
					t.Fatalf("seed %d: key %d returned at age %v", seed, id, age)
				}
				if !ok && age < 72*time.Hour-slack {
					t.Fatalf("seed %d: key %d refused at age %v", seed, id, age)
				}
			}
			if _, ok := p.Get(maxID + 1); ok {
				t.Fatalf("future id")
			}
			if _, ok := p.Get(0); ok {
				t.Fatalf("id 0")
			}
			if _, ok := p.Get(-1); ok {
				t.Fatalf("id -1")
			}
			if n := len(p.VerifKeys()); n > 5 {
				t.Fatalf("seed %d: %d keys held", seed, n)
			}
		}
	}
}

func TestC12Concurrent(t *testing.T) {
	p := NewProvider()
	var mu sync.Mutex
	seen := map[int][]byte{}
	var wg sync.WaitGroup
	stop := make(chan struct{})
	for g := 0; g < 16; g++ {
		wg.Add(1)
		go func(g int) {
			defer wg.Done()
			for {
				select {
				case <-stop:
					return
				default:
				}
				k := p.Current()
				now := time.Now()
				if !k.IsValidAt(now) {
					t.Errorf("current key invalid")
					return
				}
				if now.Sub(k.Validity.NotBefore) > 24*time.Hour+time.Second {
					t.Errorf("current key too old: %v", now.Sub(k.Validity.NotBefore))
					return
				}
				mu.Lock()
				if v, ok := seen[k.ID]; ok {
					if string(v) != string(k.Value) {
						t.Errorf("id %d with two values", k.ID)
					}
				} else {
					seen[k.ID] = append([]byte(nil), k.Value...)
				}
				mu.Unlock()
				k2, ok := p.Get(k.ID)
				if ok && string(k2.Value) != string(k.Value) {
					t.Errorf("get mismatch")
				}
				if ok && time.Now().Sub(k2.Validity.NotBefore) > 72*time.Hour+time.Second {
					t.Errorf("get returned expired key")
				}
			}
		}(g)
	}
	for i := 0; i < 3000; i++ {
		p.VerifAge(time.Duration(rand.Int63n(int64(13 * time.Hour))))
	}
	close(stop)
	wg.Wait()
	t.Logf("%d keys seen", len(seen))
}
