package client_test

// C17 / d2: NtimedFilter.Do converts its float result with
// time.Duration(seconds * 1e9). When both one-way differences are saturated
// by time.Time.Sub at +MaxInt64 (server more than ~292 years BEHIND the
// client), the product is 2^63, the float-to-int64 conversion overflows
// (MinInt64 on amd64), and timemath.Inv turns that into +MaxInt64: the filter
// reports the server as 292 years AHEAD. The mirror case (server far ahead)
// happens to come out with the right sign.

import (
	"testing"
	"time"

	basetb "example.com/scion-time/base/timebase"
	"example.com/scion-time/core/client"
	"example.com/scion-time/core/timebase"
)

type d2Clock struct{}

var _ basetb.SystemClock = d2Clock{}

func (d2Clock) Epoch() uint64                                { return 0 }
func (d2Clock) Now() time.Time                               { return time.Unix(0, 0) }
func (d2Clock) Drift(time.Duration) time.Duration            { return 0 }
func (d2Clock) Step(time.Duration)                           {}
func (d2Clock) Adjust(time.Duration, time.Duration, float64) {}
func (d2Clock) Sleep(time.Duration)                          {}

func init() { timebase.RegisterClock(d2Clock{}) }

func TestC17d2NtimedSignAtSaturation(t *testing.T) {
	t0 := time.Date(2026, 1, 1, 0, 0, 0, 0, time.UTC)
	for _, dy := range []int{-290, -300, -1000, 300} {
		t1 := t0.AddDate(dy, 0, 0).Add(5 * time.Millisecond)
		t2 := t1.Add(time.Millisecond)
		t3 := t0.Add(11 * time.Millisecond)
		f := client.NewNtimedFilter(nil)
		got := f.Do(t0, t1, t2, t3) // first sample after reset: raw offset expected
		if (dy < 0) != (got < 0) {
			t.Errorf("server %d years off: filter returned %v (wrong sign)", dy, got)
		} else {
			t.Logf("server %d years off: filter returned %v", dy, got)
		}
	}
}
