package client_test

// C17 / d1: the lucky-packet filter (configured, and the unconfigured zero
// value) takes the offset of every sample from ntp.ClockOffset, which adds the
// two one-way terms before halving them. Their sum is twice the offset and
// wraps around for offsets beyond about 146 years, although the offset and
// every single term fit into a time.Duration: a server 200 years ahead comes
// out about 92 years behind. This is the same overflow that commit 93d087d
// removed from csptp.ClockOffset; the NTP sibling was left as it was.

import (
	"testing"
	"time"

	"example.com/scion-time/core/client"
)

const year = 365 * 24 * time.Hour

// a sample whose server clock is `ahead` in front of the client clock, with
// distinct round-trip delays per index
func sample(i int, ahead time.Duration) (t0, t1, t2, t3 time.Time) {
	t0 = time.Date(2026, 1, 1, 0, 0, i, 0, time.UTC)
	d := time.Duration(5+i) * time.Millisecond // one-way delay
	t1 = t0.Add(ahead).Add(d)
	t2 = t1.Add(time.Millisecond)
	t3 = t0.Add(2*d + time.Millisecond)
	return
}

func near(got, want time.Duration) bool {
	d := got - want
	return -time.Second < d && d < time.Second
}

func TestC17d1UnconfiguredFilterRawOffset(t *testing.T) {
	for _, ahead := range []time.Duration{100 * year, 200 * year, -200 * year} {
		f := &client.LuckyPacketFilter{}
		got := f.Do(sample(0, ahead))
		if !near(got, ahead) {
			t.Errorf("unconfigured filter: server %.0f years ahead: got offset %v (%.1f years), want %v",
				float64(ahead)/float64(year), got, float64(got)/float64(year), ahead)
		}
	}
}

func TestC17d1LuckyPacketMedian(t *testing.T) {
	// N = 3, k = 3: the median of the offsets 199y, 200y, 201y is 200y
	f := client.NewLuckyPacketFilter(3, 3)
	var got time.Duration
	for i, ahead := range []time.Duration{199 * year, 200 * year, 201 * year} {
		got = f.Do(sample(i, ahead))
	}
	want := 200 * year
	if !near(got, want) {
		t.Errorf("lucky-packet filter: got median offset %v (%.1f years), want %v (200 years)",
			got, float64(got)/float64(year), want)
	}
	// N = 1, k = 1: the offset of the only sample
	g := client.NewLuckyPacketFilter(1, 1)
	got = g.Do(sample(0, -200*year))
	if !near(got, -200*year) {
		t.Errorf("lucky-packet filter (1,1): server 200 years behind: got %v (%.1f years)",
			got, float64(got)/float64(year))
	}
}
