package client

// Audit round 2, property C03, finding d2.
//
// The time service (timeservice.go: newNTPReferenceClockIP,
// newNTPReferenceClockSCION) gives every NTP client an NtimedFilter, and the
// offset the client then reports is what NtimedFilter.Do returns, not
// ntp.ClockOffset. In two of its branches the filter does not use the exchange's
// own midpoint but "average midpoint + (this sample's hi - average hi)" (or the
// same with lo). The result can lie outside the interval [t1-t0, t2-t3] that
// is known to contain the true offset, i.e., farther than half the round-trip
// delay from it. It does so when the server's clock changes between exchanges
// (which the property's quantifier covers) while the path delay becomes
// smaller than half of what it used to be.

import (
	"context"
	"log/slog"
	"net"
	"os"
	"testing"
	"time"

	"example.com/scion-time/core/timebase"
	"example.com/scion-time/net/ntp"
)

type auditFilterClock struct{}

func (auditFilterClock) Epoch() uint64                                { return 0 }
func (auditFilterClock) Now() time.Time                               { return time.Now().UTC() }
func (auditFilterClock) Drift(time.Duration) time.Duration            { return 0 }
func (auditFilterClock) Step(time.Duration)                           {}
func (auditFilterClock) Adjust(time.Duration, time.Duration, float64) {}
func (auditFilterClock) Sleep(d time.Duration)                        { time.Sleep(d) }

func auditFilterRegisterClock() {
	defer func() { _ = recover() }() // another test of this package has registered one already
	timebase.RegisterClock(auditFilterClock{})
}

// The four timestamps of an exchange are handed to the filter exactly as the
// clients do it (client_ip.go / client_scion.go: offset = c.Filter.Do(t0, t1, t2, t3)).
func TestAuditC03NtimedFilterLeavesTheExchangeBounds(t *testing.T) {
	auditFilterRegisterClock()
	f := NewNtimedFilter(nil)

	exchange := func(t0 time.Time, theta, fwd, proc, back time.Duration) (t1, t2, t3 time.Time) {
		t1 = t0.Add(fwd).Add(theta)
		t2 = t1.Add(proc)
		t3 = t2.Add(-theta).Add(back)
		return
	}

	t0 := time.Date(2026, 10, 3, 12, 0, 0, 0, time.UTC)
	// 30 exchanges, one per second: true offset 0, 5 ms each way (+- some jitter)
	for i := 0; i != 30; i++ {
		j := time.Duration(i%5-2) * 20 * time.Microsecond
		t1, t2, t3 := exchange(t0, 0, 5*time.Millisecond+j, 10*time.Microsecond, 5*time.Millisecond-j)
		off := f.Do(t0, t1, t2, t3)
		raw := ntp.ClockOffset(t0, t1, t2, t3)
		rtd := ntp.RoundTripDelay(t0, t1, t2, t3)
		if (off - 0).Abs() > rtd/2+1 {
			t.Fatalf("history exchange %d: off %v raw %v rtd %v", i, off, raw, rtd)
		}
		t0 = t0.Add(time.Second)
	}
	// the server's clock is set forward by 20 ms, and the path is now 1 ms each way
	const theta = 20 * time.Millisecond
	t1, t2, t3 := exchange(t0, theta, time.Millisecond, 10*time.Microsecond, time.Millisecond)
	off := f.Do(t0, t1, t2, t3)
	raw := ntp.ClockOffset(t0, t1, t2, t3)
	rtd := ntp.RoundTripDelay(t0, t1, t2, t3)
	t.Logf("true offset %v, ntp.ClockOffset %v, round-trip delay %v, offset reported by the filter %v",
		theta, raw, rtd, off)
	if (off - theta).Abs() > rtd/2+1 {
		t.Errorf("VIOLATION: reported offset %v differs from the true offset %v by %v, more than half the round-trip delay (%v)",
			off, time.Duration(theta), (off - theta).Abs(), rtd/2)
	}
}

// The same end to end: an IPClient configured as in timeservice.go (with the
// filter) against a protocol-conformant basic-mode server on loopback whose
// clock offset and whose path delays the test controls.
func TestAuditC03NtimedFilterLeavesTheExchangeBoundsIPClient(t *testing.T) {
	auditFilterRegisterClock()
	log := slog.New(slog.NewTextHandler(os.Stderr, &slog.HandlerOptions{Level: slog.LevelError + 1}))

	conn, err := net.ListenUDP("udp", &net.UDPAddr{IP: net.IPv4(127, 0, 0, 1)})
	if err != nil {
		t.Fatal(err)
	}
	defer conn.Close()
	type params struct{ theta, fwd, back time.Duration }
	pc := make(chan params, 1)
	go func() {
		buf := make([]byte, 2048)
		for {
			n, src, err := conn.ReadFromUDPAddrPort(buf)
			if err != nil {
				return
			}
			p := <-pc
			var req, resp ntp.Packet
			if ntp.DecodePacket(&req, buf[:n]) != nil {
				continue
			}
			time.Sleep(p.fwd) // forward path delay
			resp.SetVersion(ntp.VersionMax)
			resp.SetMode(ntp.ModeServer)
			resp.Stratum = 1
			resp.OriginTime = req.TransmitTime
			resp.ReceiveTime = ntp.Time64FromTime(time.Now().Add(p.theta))
			resp.TransmitTime = ntp.Time64FromTime(time.Now().Add(p.theta))
			time.Sleep(p.back) // backward path delay
			out := make([]byte, ntp.PacketLen)
			ntp.EncodePacket(&out, &resp)
			_, _ = conn.WriteToUDPAddrPort(out, src)
		}
	}()

	c := &IPClient{Log: log, InterleavedMode: false}
	c.Filter = NewNtimedFilter(nil) // as in timeservice.go
	measure := func(p params) (time.Duration, time.Duration) {
		pc <- p
		ctx, cancel := context.WithTimeout(context.Background(), time.Second)
		defer cancel()
		laddr := &net.UDPAddr{IP: net.IPv4(127, 0, 0, 1)}
		raddr := &net.UDPAddr{IP: net.IPv4(127, 0, 0, 1), Port: conn.LocalAddr().(*net.UDPAddr).Port}
		start := time.Now()
		_, off, err := MeasureClockOffsetIP(ctx, log, c, laddr, raddr)
		dur := time.Since(start)
		if err != nil {
			t.Fatal(err)
		}
		return off, dur
	}
	for i := 0; i != 30; i++ {
		off, dur := measure(params{0, 20 * time.Millisecond, 20 * time.Millisecond})
		if off.Abs() > dur/2 {
			t.Fatalf("history exchange %d: offset %v, call took %v", i, off, dur)
		}
	}
	const theta = 100 * time.Millisecond
	off, dur := measure(params{theta, 0, 0})
	t.Logf("true offset %v, reported offset %v, whole call took %v (round-trip delay is less)", time.Duration(theta), off, dur)
	if (off - theta).Abs() > dur/2 {
		t.Errorf("VIOLATION: reported offset %v differs from the true offset %v by %v, more than half the duration of the call (%v) and hence than half the round-trip delay",
			off, time.Duration(theta), (off - theta).Abs(), dur/2)
	}
}
