package client

// Audit round 2, property C03, finding d1 (SCION client; sibling of
// audit_c03_stale_ip_test.go, whose helpers it uses).
//
// The SCION client repeats its interleaved-mode request verbatim after a
// failed attempt as long as it is "in interleaved mode" (the last successful
// exchange was an interleaved one), i.e., in the steady state of the service.
// Client and server (core/server, started with StartSCIONServer) are in the
// same AS on loopback (empty SCION path) and read the same clock: the true
// offset is 0. The network between them is the UDP relay of the IP test; it
// relays the SCION packets as they are.

import (
	"context"
	"log/slog"
	"net"
	"net/netip"
	"sync"
	"testing"
	"time"

	"github.com/scionproto/scion/pkg/addr"
	"github.com/scionproto/scion/pkg/snet"
	"github.com/scionproto/scion/pkg/snet/path"

	"example.com/scion-time/core/server"
	"example.com/scion-time/net/udp"
)

var (
	auditSCIONOnce       sync.Once
	auditSCIONServerAddr netip.AddrPort
)

func auditSetupSCION(t *testing.T) *slog.Logger {
	log := auditSetup(t)
	auditSCIONOnce.Do(func() {
		port := auditFreePort(t)
		server.StartSCIONServer(context.Background(), log, "", /* no daemon */
			&net.UDPAddr{IP: net.IPv4(127, 0, 0, 1), Port: port}, 0, nil)
		auditSCIONServerAddr = netip.AddrPortFrom(netip.MustParseAddr("127.0.0.1"), uint16(port))
	})
	return log
}

func auditRoundSCION(t *testing.T, log *slog.Logger, c *SCIONClient, nw *auditNet, timeout time.Duration) (
	off time.Duration, dur time.Duration, err error) {
	ctx, cancel := context.WithTimeout(context.Background(), timeout)
	defer cancel()
	ia := addr.MustParseIA("1-ff00:0:110")
	laddr := udp.UDPAddr{IA: ia, Host: &net.UDPAddr{IP: net.IPv4(127, 0, 0, 1)}}
	raddr := udp.UDPAddr{IA: ia, Host: net.UDPAddrFromAddrPort(auditSCIONServerAddr)}
	ps := []snet.Path{path.Path{
		Src:           ia,
		Dst:           ia,
		DataplanePath: path.Empty{},
		NextHop:       nw.addr(), // the network
	}}
	t0 := time.Now()
	_, off, err = MeasureClockOffsetSCION(ctx, log, []*SCIONClient{c}, laddr, raddr, ps)
	dur = time.Since(t0)
	return
}

func TestAuditC03StaleBasicResponseSCION(t *testing.T) {
	log := auditSetupSCION(t)
	nw := newAuditNet(t, auditSCIONServerAddr, []int{
		actPass,         // round 1, attempt 1: basic exchange
		actPass,         // round 1, attempt 2: interleaved exchange p; client now in interleaved mode
		actLoseResponse, // round 2, attempt 1: interleaved request, response lost
		actHoldResponse, // round 3, attempt 1: same request again; server answers in basic mode; response delayed
		actDeliverHeld,  // round 4, attempt 1: same request again; the delayed response of round 3 arrives
		actPass,         // round 4, attempt 2: undisturbed interleaved exchange (re-evaluates attempt 1)
	})
	defer nw.conn.Close()
	c := &SCIONClient{Log: log, InterleavedMode: true}

	const timeout = 300 * time.Millisecond
	const pause = 300 * time.Millisecond
	auditMaxDur = 0
	var off, dur time.Duration
	var err error
	for _, r := range []string{"round 1", "round 2", "round 3", "round 4"} {
		off, dur, err = auditRoundSCION(t, log, c, nw, timeout)
		auditCheck(t, r, off, dur, err)
		time.Sleep(pause)
	}
	if err != nil {
		t.Logf("round 4 failed: the stale response was not accepted (expected once the defect is repaired)")
	}
}

func TestAuditC03StaleInterleavedResponseSCION(t *testing.T) {
	log := auditSetupSCION(t)
	nw := newAuditNet(t, auditSCIONServerAddr, []int{
		actPass,         // round 1, attempt 1: basic exchange
		actPass,         // round 1, attempt 2: interleaved exchange p; client now in interleaved mode
		actHoldResponse, // round 2, attempt 1: interleaved request, interleaved response delayed
		actDeliverHeld,  // round 3, attempt 1: same request again; the delayed response arrives
		actPass,         // round 4, attempt 1: undisturbed interleaved exchange
	})
	defer nw.conn.Close()
	c := &SCIONClient{Log: log, InterleavedMode: true}

	const timeout = 300 * time.Millisecond
	const pause = 300 * time.Millisecond
	auditMaxDur = 0
	var off, dur time.Duration
	var err error
	for _, r := range []string{"round 1", "round 2", "round 3", "round 4"} {
		off, dur, err = auditRoundSCION(t, log, c, nw, timeout)
		auditCheck(t, r, off, dur, err)
		time.Sleep(pause)
	}
	if err != nil {
		t.Logf("round 4 failed: the stale response was not accepted (expected once the defect is repaired)")
	}
}
