package client

// Audit round 2, property C03, finding d1 (IP client).
//
// After a failed attempt the IP client repeats its interleaved-mode request
// verbatim (origin/receive/transmit = the records of the last *successful*
// exchange). The responses to all these attempts therefore carry the same
// origin timestamp, and a response to an earlier, failed attempt that turns up
// late passes the origin check of the current attempt:
//
//   TestAuditC03StaleBasicResponseIP:
//     the late response is a basic-mode one; it is evaluated with the client
//     timestamps of the current attempt (t0, t3) and the server timestamps of
//     the old attempt (t1, t2).
//
//   TestAuditC03StaleInterleavedResponseIP:
//     the late response is an interleaved-mode one; its evaluation is right
//     (previous exchange), but the client puts the server receive time of the
//     OLD attempt on record together with the client times of the CURRENT
//     attempt, and the next (perfectly undisturbed) exchange reports an offset
//     computed from timestamps of two different exchanges.
//
// Client and server (the repository's own server, core/server) run on the
// same machine and read the same clock: the true offset is 0. A "network"
// between them (a UDP relay on loopback) loses, delays and delivers packets.

import (
	"context"
	"fmt"
	"log/slog"
	"net"
	"net/netip"
	"os"
	"sync"
	"testing"
	"time"

	"example.com/scion-time/core/server"
	"example.com/scion-time/core/timebase"
	"example.com/scion-time/net/ntp"
)

type auditClock struct{}

func (auditClock) Epoch() uint64                                { return 0 }
func (auditClock) Now() time.Time                               { return time.Now().UTC() }
func (auditClock) Drift(time.Duration) time.Duration            { return 0 }
func (auditClock) Step(time.Duration)                           {}
func (auditClock) Adjust(time.Duration, time.Duration, float64) {}
func (auditClock) Sleep(d time.Duration)                        { time.Sleep(d) }

var (
	auditOnce       sync.Once
	auditServerAddr netip.AddrPort
)

func auditFreePort(t *testing.T) int {
	c, err := net.ListenUDP("udp", &net.UDPAddr{IP: net.IPv4(127, 0, 0, 1)})
	if err != nil {
		t.Fatal(err)
	}
	defer c.Close()
	return c.LocalAddr().(*net.UDPAddr).Port
}

func auditSetup(t *testing.T) *slog.Logger {
	log := slog.New(slog.NewTextHandler(os.Stderr, &slog.HandlerOptions{Level: slog.LevelError + 1}))
	auditOnce.Do(func() {
		func() {
			defer func() { _ = recover() }() // another test of this package has registered one already
			timebase.RegisterClock(auditClock{})
		}()
		port := auditFreePort(t)
		server.StartIPServer(context.Background(), log,
			&net.UDPAddr{IP: net.IPv4(127, 0, 0, 1), Port: port}, 0, nil)
		auditServerAddr = netip.AddrPortFrom(netip.MustParseAddr("127.0.0.1"), uint16(port))
	})
	return log
}

const (
	actPass         = iota // request reaches the server, response reaches the client
	actLoseResponse        // request reaches the server, response is lost
	actHoldResponse        // request reaches the server, response is delayed (held)
	actDeliverHeld         // request is lost; the held response arrives now
)

// auditNet is the network between client and server.
type auditNet struct {
	t      *testing.T
	conn   *net.UDPConn
	server netip.AddrPort
	script []int
	mu     sync.Mutex
	n      int
	held   []byte
}

func newAuditNet(t *testing.T, server netip.AddrPort, script []int) *auditNet {
	conn, err := net.ListenUDP("udp", &net.UDPAddr{IP: net.IPv4(127, 0, 0, 1)})
	if err != nil {
		t.Fatal(err)
	}
	n := &auditNet{t: t, conn: conn, server: server, script: script}
	go n.run()
	return n
}

func (n *auditNet) addr() *net.UDPAddr { return n.conn.LocalAddr().(*net.UDPAddr) }

func pktString(b []byte) string {
	var p ntp.Packet
	if len(b) < ntp.PacketLen || ntp.DecodePacket(&p, b[len(b)-ntp.PacketLen:]) != nil {
		return "?" // (the NTP packet is the tail of a SCION packet, too)
	}
	f := func(t ntp.Time64) string { return fmt.Sprintf("%08x.%08x", t.Seconds, t.Fraction) }
	return fmt.Sprintf("mode=%d org=%s rec=%s xmt=%s", p.Mode(), f(p.OriginTime), f(p.ReceiveTime), f(p.TransmitTime))
}

func (n *auditNet) exchange(req []byte) []byte {
	up, err := net.DialUDP("udp", nil, net.UDPAddrFromAddrPort(n.server))
	if err != nil {
		n.t.Error(err)
		return nil
	}
	defer up.Close()
	_, _ = up.Write(req)
	_ = up.SetReadDeadline(time.Now().Add(200 * time.Millisecond))
	buf := make([]byte, 2048)
	m, err := up.Read(buf)
	if err != nil {
		n.t.Errorf("network: no response from server: %v", err)
		return nil
	}
	return buf[:m]
}

func (n *auditNet) run() {
	buf := make([]byte, 2048)
	for {
		m, src, err := n.conn.ReadFromUDPAddrPort(buf)
		if err != nil {
			return
		}
		req := append([]byte(nil), buf[:m]...)
		n.mu.Lock()
		i := n.n
		n.n++
		n.mu.Unlock()
		act := actLoseResponse
		if i < len(n.script) {
			act = n.script[i]
		}
		n.t.Logf("net: request #%d from port %d: %s", i+1, src.Port(), pktString(req))
		switch act {
		case actPass:
			resp := n.exchange(req)
			n.t.Logf("net:   response delivered:        %s", pktString(resp))
			_, _ = n.conn.WriteToUDPAddrPort(resp, src)
		case actLoseResponse:
			resp := n.exchange(req)
			n.t.Logf("net:   response LOST:             %s", pktString(resp))
		case actHoldResponse:
			resp := n.exchange(req)
			n.t.Logf("net:   response DELAYED:          %s", pktString(resp))
			n.held = resp
		case actDeliverHeld:
			n.t.Logf("net:   request LOST; the delayed response arrives now: %s", pktString(n.held))
			_, _ = n.conn.WriteToUDPAddrPort(n.held, src)
		}
	}
}

func auditRound(t *testing.T, log *slog.Logger, c *IPClient, nw *auditNet, timeout time.Duration) (
	off time.Duration, dur time.Duration, err error) {
	ctx, cancel := context.WithTimeout(context.Background(), timeout)
	defer cancel()
	laddr := &net.UDPAddr{IP: net.IPv4(127, 0, 0, 1)}
	raddr := &net.UDPAddr{IP: net.IPv4(127, 0, 0, 1), Port: nw.addr().Port}
	t0 := time.Now()
	_, off, err = MeasureClockOffsetIP(ctx, log, c, laddr, raddr)
	dur = time.Since(t0)
	return
}

// The true offset is 0 and the round-trip delay of an exchange cannot exceed
// the duration of the call that performed it (in interleaved mode: of the
// previous call): |offset| <= (longest call so far)/2 must hold.
var auditMaxDur time.Duration

func auditCheck(t *testing.T, what string, off, dur time.Duration, err error) {
	t.Helper()
	auditMaxDur = max(auditMaxDur, dur)
	if err != nil {
		t.Logf("%s: error: %v (call took %v)", what, err, dur)
		return
	}
	t.Logf("%s: reported offset %v (true offset 0, call took %v)", what, off, dur)
	if off.Abs() > auditMaxDur/2 {
		t.Errorf("%s: VIOLATION: |reported offset| = %v exceeds half the duration of the longest call so far (%v), "+
			"hence half the round-trip delay of any exchange made", what, off.Abs(), auditMaxDur/2)
	}
}

func TestAuditC03StaleBasicResponseIP(t *testing.T) {
	log := auditSetup(t)
	nw := newAuditNet(t, auditServerAddr, []int{
		actPass,         // round 1, attempt 1: basic exchange p
		actLoseResponse, // round 1, attempt 2: interleaved request, response lost
		actHoldResponse, // round 2, attempt 1: same request again; server answers in basic mode; response delayed
		actDeliverHeld,  // round 3, attempt 1: same request again; the delayed response of round 2 arrives
	})
	defer nw.conn.Close()
	c := &IPClient{Log: log, InterleavedMode: true}

	const timeout = 300 * time.Millisecond
	const pause = 500 * time.Millisecond
	auditMaxDur = 0
	off, dur, err := auditRound(t, log, c, nw, timeout)
	auditCheck(t, "round 1", off, dur, err)
	time.Sleep(pause)
	off, dur, err = auditRound(t, log, c, nw, timeout)
	auditCheck(t, "round 2", off, dur, err)
	time.Sleep(pause)
	off, dur, err = auditRound(t, log, c, nw, timeout)
	auditCheck(t, "round 3", off, dur, err)
	if err != nil {
		t.Logf("round 3 failed: the stale response was not accepted (expected once the defect is repaired)")
	}
}

func TestAuditC03StaleInterleavedResponseIP(t *testing.T) {
	log := auditSetup(t)
	nw := newAuditNet(t, auditServerAddr, []int{
		actPass,         // round 1, attempt 1: basic exchange p
		actHoldResponse, // round 1, attempt 2: interleaved request, interleaved response delayed
		actDeliverHeld,  // round 2, attempt 1: same request again; the delayed response arrives
		actPass,         // round 3, attempt 1: undisturbed interleaved exchange
	})
	defer nw.conn.Close()
	c := &IPClient{Log: log, InterleavedMode: true}

	const timeout = 300 * time.Millisecond
	const pause = 500 * time.Millisecond
	auditMaxDur = 0
	off, dur, err := auditRound(t, log, c, nw, timeout)
	auditCheck(t, "round 1", off, dur, err)
	time.Sleep(pause)
	off, dur, err = auditRound(t, log, c, nw, timeout)
	auditCheck(t, "round 2", off, dur, err)
	time.Sleep(pause)
	off, dur, err = auditRound(t, log, c, nw, timeout)
	auditCheck(t, "round 3", off, dur, err)
	if err != nil {
		t.Logf("round 3 failed: the stale response was not accepted (expected once the defect is repaired)")
	}
}
