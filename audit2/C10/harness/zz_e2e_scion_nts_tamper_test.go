package client_test

import (
	"context"
	"crypto/ecdsa"
	"crypto/elliptic"
	"crypto/rand"
	"crypto/tls"
	"crypto/x509"
	"crypto/x509/pkix"
	"log/slog"
	"math/big"
	"net"
	"os"
	"testing"
	"time"

	"github.com/scionproto/scion/pkg/addr"
	"github.com/scionproto/scion/pkg/snet"
	"github.com/scionproto/scion/pkg/snet/path"

	"example.com/scion-time/core/client"
	"example.com/scion-time/core/server"
	"example.com/scion-time/core/timebase"
	"example.com/scion-time/driver/clocks"
	"example.com/scion-time/net/ntske"
	"example.com/scion-time/net/udp"
)

func selfSigned3(t *testing.T) tls.Certificate {
	priv, _ := ecdsa.GenerateKey(elliptic.P256(), rand.Reader)
	tmpl := x509.Certificate{
		SerialNumber: big.NewInt(1),
		Subject:      pkix.Name{CommonName: "localhost"},
		NotBefore:    time.Now().Add(-time.Hour),
		NotAfter:     time.Now().Add(time.Hour),
		DNSNames:     []string{"localhost"},
		IPAddresses:  []net.IP{net.ParseIP("127.0.10.1")},
	}
	der, err := x509.CreateCertificate(rand.Reader, &tmpl, &tmpl, &priv.PublicKey, priv)
	if err != nil {
		t.Fatal(err)
	}
	return tls.Certificate{Certificate: [][]byte{der}, PrivateKey: priv}
}

func TestE2ESCION(t *testing.T) {
	log := slog.New(slog.NewTextHandler(os.Stderr, &slog.HandlerOptions{Level: slog.LevelError}))
	timebase.RegisterClock(clocks.NewSystemClock(slog.New(slog.DiscardHandler), clocks.UnknownDrift))
	ctx := context.Background()
	provider := ntske.NewProvider()
	cert := selfSigned3(t)
	tlsCfg := &tls.Config{Certificates: []tls.Certificate{cert}, NextProtos: []string{"ntske/1"}, MinVersion: tls.VersionTLS13}
	ia, _ := addr.ParseIA("1-ff00:0:110")
	srvHost := &net.UDPAddr{IP: net.ParseIP("127.0.10.3"), Port: 10123}
	var mangle func([]byte) []byte
	{
		pc, err := net.ListenUDP("udp", &net.UDPAddr{IP: net.ParseIP("127.0.10.1"), Port: 10123})
		if err != nil {
			t.Fatal(err)
		}
		go func() {
			buf := make([]byte, 10000)
			for {
				n, src, err := pc.ReadFromUDP(buf)
				if err != nil {
					return
				}
				up, _ := net.DialUDP("udp", nil, srvHost)
				up.Write(buf[:n])
				up.SetReadDeadline(time.Now().Add(300 * time.Millisecond))
				rb := make([]byte, 10000)
				m, err := up.Read(rb)
				up.Close()
				if err != nil {
					continue
				}
				out := rb[:m]
				if mangle != nil {
					out = mangle(out)
				}
				pc.WriteToUDP(out, src)
				pc.WriteToUDP(out, src)
			}
		}()
	}
	server.StartNTSKEServerSCION(ctx, log, udp.UDPAddr{IA: ia, Host: &net.UDPAddr{IP: net.ParseIP("127.0.10.1"), Port: 10123}}, tlsCfg, provider)
	server.StartSCIONServer(ctx, log, "", srvHost, 0, provider)
	time.Sleep(300 * time.Millisecond)

	laddr := udp.UDPAddr{IA: ia, Host: &net.UDPAddr{IP: net.ParseIP("127.0.10.2")}}
	raddr := udp.UDPAddr{IA: ia, Host: &net.UDPAddr{IP: net.ParseIP("127.0.10.1"), Port: 14460}}
	c := &client.SCIONClient{Log: log, InterleavedMode: os.Getenv("ILV") != ""}
	c.Auth.NTSEnabled = true
	c.Auth.NTSKEFetcher.TLSConfig = tls.Config{NextProtos: []string{"ntske/1"}, InsecureSkipVerify: true, ServerName: "127.0.10.1", MinVersion: tls.VersionTLS13}
	c.Auth.NTSKEFetcher.Port = "14460"
	c.Auth.NTSKEFetcher.Log = log
	c.Auth.NTSKEFetcher.QUIC.Enabled = true
	c.Auth.NTSKEFetcher.QUIC.LocalAddr = laddr
	c.Auth.NTSKEFetcher.QUIC.RemoteAddr = raddr
	pos := 0
	accepted := 0
	if os.Getenv("TAMPER") != "" {
		mangle = func(b []byte) []byte {
			m := append([]byte(nil), b...)
			// payload is the tail of the packet
			idx := 44 + pos
			if idx >= len(m) {
				idx = 44 + pos%(len(m)-44)
			}
			println("len", len(m), "payload idx", idx-44)
			m[idx] ^= 0x04
			return m
		}
	}
	for i := 0; i < 1300; i++ {
		pos = i
		ps := []snet.Path{path.Path{Src: ia, Dst: ia, DataplanePath: path.Empty{}, NextHop: raddr.Host}}
		cctx, cancel := context.WithTimeout(ctx, 2*time.Second)
		_, off, err := client.MeasureClockOffsetSCION(cctx, log, []*client.SCIONClient{c}, laddr, raddr, ps)
		cancel()
		_ = off
		if err == nil {
			accepted++
			if mangle != nil {
				t.Logf("accepted with tamper pos-from-end %d", pos)
			}
		}
	}
	t.Logf("accepted %d", accepted)
}

