package monitors

import (
	"bytes"
	"context"
	"fmt"
	"log/slog"
	"net"
	"net/netip"
	"time"

	"github.com/scionproto/scion/pkg/addr"
	"github.com/scionproto/scion/pkg/drkey"
	"github.com/scionproto/scion/pkg/slayers"
	"github.com/scionproto/scion/pkg/snet"

	"example.com/scion-time/core/client"
	"example.com/scion-time/net/scion"
	"example.com/scion-time/net/udp"

	"verif/harness/internal/ev"
	"verif/harness/internal/peer"
)

// C13, leg with real DRKey fetching: the SCION listeners run without the project's mock
// keys against a scripted SCION daemon (gRPC) whose keys are a deterministic function of
// protocol, ISD-ASes, fast-side host and epoch. The harness derives the host-to-host key of
// every identity itself, so it can sign a request with the right key or with the key of any
// other identity or epoch.
//
// Oracle: a request signed with the key of exactly (server ISD-AS, server host, client ISD-AS,
// client host, current epoch) as they appear in the packet is answered, authenticated under
// the same key; a request signed with the key of an identity that differs in one component,
// of another protocol or of another epoch is not answered. This must hold for every order in
// which identities are used (the listener caches level-2 keys).

type c13Ident struct {
	srvIA, cliIA     addr.IA
	srvHost, cliHost netip.Addr
}

func (x c13Ident) String() string {
	return fmt.Sprintf("%s,%s<-%s,%s", x.srvIA, x.srvHost, x.cliIA, x.cliHost)
}

func c13DRKey(r *ev.Run) {
	srv, cli, dmn := blockIP(r, 13, 11), blockIP(r, 13, 12), blockIP(r, 13, 13)
	epoch := 4 * time.Second
	d, err := peer.NewFakeDaemon(netip.AddrPortFrom(dmn, 30255).String(), []byte(fmt.Sprint("c13 secret ", r.Seed())), epoch)
	if err != nil {
		r.Inconclusive("fake daemon: " + err.Error())
		return
	}
	defer d.Close()
	tgt, err := StartTargetEnv("plain", []string{"USE_MOCK_KEYS=false"}, "-ip", srv.String(), "-kinds", "scion", "-daemon", d.Addr())
	if err != nil {
		r.Inconclusive("target: " + err.Error())
		return
	}
	defer tgt.Kill()
	uc, err := peer.NewUDPClient(cli)
	if err != nil {
		r.Inconclusive(err.Error())
		return
	}
	defer uc.Close()
	rng := r.Rng("c13drkey")
	otherIA, _ := addr.ParseIA("2-ff00:0:222")
	srvIAs := []addr.IA{c05LIA, otherIA}
	cliIAs := []addr.IA{c05RIA, c05LIA, otherIA}
	srvHosts := []netip.Addr{srv, netip.MustParseAddr("fd00::99"), netip.MustParseAddr("10.9.8.7")}
	cliHosts := []netip.Addr{cli, netip.MustParseAddr("fd00:1:2:3::7"), netip.MustParseAddr("10.1.2.3")}
	randIdent := func() c13Ident {
		return c13Ident{srvIAs[rng.IntN(len(srvIAs))], cliIAs[rng.IntN(len(cliIAs))], srvHosts[rng.IntN(len(srvHosts))], cliHosts[rng.IntN(len(cliHosts))]}
	}
	keyOf := func(proto int32, x c13Ident, t time.Time) []byte {
		k, err := d.HostHostKey(proto, uint64(x.srvIA), uint64(x.cliIA), x.srvHost.String(), x.cliHost.String(), t)
		if err != nil {
			return nil
		}
		return k[:]
	}
	underlay := netip.AddrPortFrom(srv, 10123)
	// one request followed by a plain sentinel on the same socket
	exchange := func(data []byte) ([]peer.Datagram, bool) {
		_ = uc.Send(underlay, data)
		stx := peer.UniqueTime64()
		sb, _ := (&peer.SCIONPkt{SrcIA: c05LIA, DstIA: c05LIA, SrcHost: cli, DstHost: srv, SrcPort: uc.Local().Port(), DstPort: 10123, Payload: peer.NTPRequest(stx)}).Serialize()
		var got []peer.Datagram
		for a := 0; a < 3; a++ {
			_ = uc.Send(underlay, sb)
			before, hit := uc.ReadUntil(3*time.Second, func(dg peer.Datagram) bool { return peer.NTPOrigin(scionUnwrap(dg.Data)) == stx })
			got = append(got, before...)
			if hit != nil {
				return got, true
			}
		}
		return got, false
	}
	// stay clear of epoch boundaries: the listener picks the epoch by its receive time
	awayFromBoundary := func() time.Time {
		for {
			now := time.Now()
			_, end := d.EpochOf(now)
			begin := end.Add(-epoch)
			if now.Sub(begin) > 150*time.Millisecond && end.Sub(now) > 400*time.Millisecond {
				return now
			}
			time.Sleep(50 * time.Millisecond)
		}
	}
	n := r.Pick(240, 6000)
	var prev c13Ident
	for i := 0; i < n; i++ {
		id := fmt.Sprintf("k%d", i)
		if r.Only() != "" && r.Only() != id {
			continue
		}
		x := randIdent()
		if i > 0 && rng.IntN(3) == 0 { // same client ISD-AS as the previous exchange, one other component changed: the cached level-2 key must not be reused
			x = prev
			switch rng.IntN(3) {
			case 0:
				x.srvHost = srvHosts[rng.IntN(len(srvHosts))]
			case 1:
				x.srvIA = srvIAs[rng.IntN(len(srvIAs))]
			default:
				x.cliHost = cliHosts[rng.IntN(len(cliHosts))]
			}
		}
		now := awayFromBoundary()
		signer, how := x, "own key"
		proto, at := int32(scion.DRKeyProtocolTS), now
		switch i % 8 {
		case 1:
			signer.srvHost = srvHosts[(indexOfAddr(srvHosts, x.srvHost)+1+rng.IntN(2))%3]
			how = "key of another server host"
		case 2:
			signer.cliHost = cliHosts[(indexOfAddr(cliHosts, x.cliHost)+1+rng.IntN(2))%3]
			how = "key of another client host"
		case 3:
			signer.srvIA = srvIAs[(indexOfIA(srvIAs, x.srvIA)+1)%2]
			how = "key of another server ISD-AS"
		case 4:
			signer.cliIA = cliIAs[(indexOfIA(cliIAs, x.cliIA)+1+rng.IntN(2))%3]
			how = "key of another client ISD-AS"
		case 5:
			if rng.IntN(2) == 0 {
				at, how = now.Add(-epoch), "key of the previous epoch"
			} else {
				at, how = now.Add(epoch), "key of the next epoch"
			}
		case 6:
			proto, how = int32(scion.DRKeyProtocolTS)+1, "key of another protocol"
		}
		if how != "own key" && rng.IntN(2) == 0 && prev != (c13Ident{}) && i%8 >= 1 && i%8 <= 4 {
			// the identity whose key is (wrongly) used is the one served just before: its level-2 key is in the cache
			if prev != x {
				signer, how = prev, "key of the identity served just before"
			}
		}
		tx := peer.UniqueTime64()
		pth := peer.SCIONPath(rng, 1+rng.IntN(4), 1+rng.IntN(3))
		seed := rng.Uint64()
		mk := func() *peer.SCIONPkt {
			p := &peer.SCIONPkt{SrcIA: x.cliIA, DstIA: x.srvIA, SrcHost: x.cliHost, DstHost: x.srvHost, SrcPort: uc.Local().Port(), DstPort: 10123,
				Path: pth, Payload: peer.NTPRequest(tx), FlowID: uint32(seed) & 0xfffff}
			p.E2E = []*slayers.EndToEndOption{peer.NewAuthOption(c13SPIClient, 0)}
			for b := 5; b < 12; b++ {
				p.E2E[0].OptData[b] = byte(seed >> uint(b))
			}
			return p
		}
		key := keyOf(proto, signer, at)
		own := keyOf(int32(scion.DRKeyProtocolTS), x, now)
		if key == nil || own == nil {
			continue
		}
		p := mk()
		data, err := peer.SignPkt(p, key)
		if err != nil {
			continue
		}
		replies, ok := exchange(data)
		r.Eval(1)
		w := map[string]any{"identity": x.String(), "signed_with": how, "signer": signer.String(), "previous_identity": prev.String(), "request": ev.Hex(data)}
		if !ok {
			if !tgt.Alive() {
				first, frame := tgt.ExitInfo()
				w["panic"] = first
				r.Violation("scion-listener|panic:"+c08Sig(frame)+"|authenticated request, real DRKey fetching", id, w)
				return
			}
			r.Inconclusive("sentinel unanswered in the C13 DRKey leg")
			return
		}
		var mine []peer.Datagram
		for _, dg := range replies {
			if peer.NTPOrigin(scionUnwrap(dg.Data)) == tx {
				mine = append(mine, dg)
			}
		}
		w["replies"] = len(mine)
		sameCache := prev.cliIA == x.cliIA && prev != x && prev != (c13Ident{})
		if how == "own key" {
			cls := "drkey:own-key"
			if sameCache {
				cls += ",cached level-2 key of another identity for the same client ISD-AS"
			}
			if len(mine) != 1 {
				r.Violation("scion-listener|missing-reply:request authenticated under the host-to-host key of its own addresses not answered|"+map[bool]string{true: "after another identity of the same client ISD-AS", false: "fresh"}[sameCache], id, w)
			} else {
				ps, err := peer.ParseSCION(mine[0].Data)
				good := false
				if err == nil && ps.HasE2E {
					if opt, err := ps.E2E.FindOption(slayers.OptTypeAuthenticator); err == nil && len(opt.OptData) == peer.AuthOptDataLen {
						mac, err := peer.ComputeMAC(own, opt, &ps.SCION, slayers.L4UDP, ps.L4Bytes)
						good = err == nil && bytes.Equal(mac, opt.OptData[12:])
					}
				}
				if !good {
					w["reply"] = ev.Hex(mine[0].Data)
					r.Violation("scion-listener|wrong-reply:reply to an authenticated request does not verify under the host-to-host key", id, w)
				} else {
					r.Class(cls + ":served, reply verifies")
				}
			}
			prev = x
		} else {
			if bytes.Equal(key, own) {
				continue // the "other" identity happens to be the same
			}
			if len(mine) != 0 {
				r.Violation("scion-listener|wrong-reply:request with a time-service authenticator whose MAC does not verify under the host-to-host key was served|"+how, id, w)
			} else {
				r.Class("drkey:" + how + ":not served")
			}
		}
		r.Distinct("drkey" + fmt.Sprint(x, how, sameCache))
		if i < 2 {
			r.Sample(w)
		}
	}
	// key service down: the listener cannot obtain the key. It serves such requests like requests
	// without an authenticator (authentication is opportunistic on the server side); what it must
	// not do is answer with an authenticator that does not verify under the requester's key.
	if r.Only() == "" {
		d.SetFailing(true)
		freshIA, _ := addr.ParseIA("3-ff00:0:333")
		for i := 0; i < 12; i++ {
			x := c13Ident{c05LIA, freshIA + addr.IA(i), srv, cli} // identities never seen: nothing cached
			now := awayFromBoundary()
			own := keyOf(int32(scion.DRKeyProtocolTS), x, now)
			tx := peer.UniqueTime64()
			p := &peer.SCIONPkt{SrcIA: x.cliIA, DstIA: x.srvIA, SrcHost: x.cliHost, DstHost: x.srvHost, SrcPort: uc.Local().Port(), DstPort: 10123,
				Path: peer.SCIONPath(rng, 2, 2), Payload: peer.NTPRequest(tx), FlowID: 5}
			p.E2E = []*slayers.EndToEndOption{peer.NewAuthOption(c13SPIClient, 0)}
			data, err := peer.SignPkt(p, own)
			if err != nil {
				continue
			}
			if i%2 == 1 {
				data[len(data)-48+2] ^= 4 // the MAC no longer verifies
			}
			replies, ok := exchange(data)
			r.Eval(1)
			if !ok {
				if !tgt.Alive() {
					first, frame := tgt.ExitInfo()
					r.Violation("scion-listener|panic:"+c08Sig(frame)+"|authenticated request while the key service is down", fmt.Sprintf("kd%d", i), map[string]any{"panic": first, "request": ev.Hex(data)})
					return
				}
				r.Inconclusive("sentinel unanswered in the C13 DRKey leg (key service down)")
				return
			}
			served := false
			for _, dg := range replies {
				if peer.NTPOrigin(scionUnwrap(dg.Data)) != tx {
					continue
				}
				served = true
				if ps, err := peer.ParseSCION(dg.Data); err == nil && ps.HasE2E {
					if opt, err := ps.E2E.FindOption(slayers.OptTypeAuthenticator); err == nil && len(opt.OptData) == peer.AuthOptDataLen {
						mac, err := peer.ComputeMAC(own, opt, &ps.SCION, slayers.L4UDP, ps.L4Bytes)
						if err != nil || !bytes.Equal(mac, opt.OptData[12:]) {
							r.Violation("scion-listener|wrong-reply:reply carries an authenticator that does not verify under the host-to-host key|key service down", fmt.Sprintf("kd%d", i),
								map[string]any{"request": ev.Hex(data), "reply": ev.Hex(dg.Data)})
						}
					}
				}
			}
			r.Class(fmt.Sprintf("drkey:key service down: request with authenticator served without authentication=%v (not judged: opportunistic server-side authentication)", served))
		}
		d.SetFailing(false)
	}
	ha, hh := d.Counts()
	r.Set("drkey_daemon_host_as_requests", ha)
	r.Set("drkey_daemon_host_host_requests", hh)
}

func indexOfAddr(l []netip.Addr, a netip.Addr) int {
	for i, x := range l {
		if x == a {
			return i
		}
	}
	return 0
}

func indexOfIA(l []addr.IA, a addr.IA) int {
	for i, x := range l {
		if x == a {
			return i
		}
	}
	return 0
}

// c13NoDaemon: the listeners of a time service that has no SCION daemon configured (an
// IP-only deployment still opens the SCION ports) receive a request that carries a
// time-service authenticator. Whatever they do with it, they must survive it.
func c13NoDaemon(r *ev.Run) {
	srv, cli := blockIP(r, 13, 14), blockIP(r, 13, 15)
	tgt, err := StartTargetEnv("plain", []string{"USE_MOCK_KEYS=false"}, "-ip", srv.String(), "-kinds", "scion")
	if err != nil {
		r.Inconclusive("target: " + err.Error())
		return
	}
	defer tgt.Kill()
	uc, err := peer.NewUDPClient(cli)
	if err != nil {
		r.Inconclusive(err.Error())
		return
	}
	defer uc.Close()
	rng := r.Rng("c13nodaemon")
	underlay := netip.AddrPortFrom(srv, 10123)
	for i := 0; i < 6; i++ {
		tx := peer.UniqueTime64()
		rq, err := c13Build(rng, cli, srv, uc.Local().Port(), 10123, peer.NTPRequest(tx), true)
		if err != nil {
			continue
		}
		_ = uc.Send(underlay, rq.data)
		stx := peer.UniqueTime64()
		sb, _ := (&peer.SCIONPkt{SrcIA: c05LIA, DstIA: c05LIA, SrcHost: cli, DstHost: srv, SrcPort: uc.Local().Port(), DstPort: 10123, Payload: peer.NTPRequest(stx)}).Serialize()
		_ = uc.Send(underlay, sb)
		before, hit := uc.ReadUntil(3*time.Second, func(dg peer.Datagram) bool { return peer.NTPOrigin(scionUnwrap(dg.Data)) == stx })
		r.Eval(1)
		if hit == nil {
			time.Sleep(200 * time.Millisecond)
			if !tgt.Alive() {
				first, frame := tgt.ExitInfo()
				r.Violation("scion-listener|panic:"+c08Sig(frame)+"|authenticated request, no SCION daemon configured", fmt.Sprintf("nd%d", i),
					map[string]any{"request": ev.Hex(rq.data), "panic": first})
				return
			}
			r.Inconclusive("sentinel unanswered in the C13 no-daemon leg")
			return
		}
		served := false
		for _, dg := range before {
			if peer.NTPOrigin(scionUnwrap(dg.Data)) == tx {
				served = true
			}
		}
		r.Class(fmt.Sprintf("no-daemon:authenticated request survived (served=%v)", served))
	}
}

// c13E2E runs in a child process without the project's mock keys. Part A: the real SCION
// client, its DRKey fetcher connected to the scripted daemon, against the scripted peer whose
// replies are signed with the host-to-host key of the exchange's own addresses ("good") or
// with the key of another identity, of exchanged roles or of another epoch (never accepted).
// Part B: the real client against the real listeners, both fetching from the same daemon:
// the exchange must succeed and be logged as authenticated — client and server derive the
// same key from their own view of the addresses.
func c13E2E(r *ev.Run) {
	registerScriptedRealClock()
	dmn := blockIP(r, 13, 33)
	epoch := 6 * time.Hour
	d, err := peer.NewFakeDaemon(netip.AddrPortFrom(dmn, 30255).String(), []byte(fmt.Sprint("c13 e2e secret ", r.Seed())), epoch)
	if err != nil {
		r.Inconclusive("fake daemon: " + err.Error())
		return
	}
	defer d.Close()
	if _, end := d.EpochOf(time.Now()); time.Until(end) < 2*time.Minute {
		time.Sleep(time.Until(end) + time.Second) // do not run across an epoch boundary
	}
	ctx := context.Background()
	dc := scion.NewDaemonConnector(ctx, d.Addr())
	if dc == nil {
		r.Inconclusive("cannot connect to the scripted daemon")
		return
	}
	hostOf := func(s *slayers.SCION, src bool) string {
		var h addr.Host
		if src {
			h, _ = s.SrcAddr()
		} else {
			h, _ = s.DstAddr()
		}
		return h.IP().String()
	}
	proto := int32(scion.DRKeyProtocolTS)
	otherIA, _ := addr.ParseIA("2-ff00:0:222")
	key := func(last *peer.ParsedSCION, mode string) []byte {
		// the request went client -> server: the fast side (key source) is the server = the request's destination
		srvIA, cliIA := uint64(last.SCION.DstIA), uint64(last.SCION.SrcIA)
		srvH, cliH := hostOf(&last.SCION, false), hostOf(&last.SCION, true)
		at := time.Now()
		switch mode {
		case "key:roles exchanged":
			srvIA, cliIA, srvH, cliH = cliIA, srvIA, cliH, srvH
		case "key:another client host":
			cliH = "10.1.2.3"
		case "key:another server host":
			srvH = "10.9.8.7"
		case "key:another client ISD-AS":
			cliIA = uint64(otherIA)
		case "key:another server ISD-AS":
			srvIA = uint64(otherIA)
		case "key:previous epoch":
			at = at.Add(-epoch)
		case "key:another protocol":
			k, _ := d.HostHostKey(proto+1, srvIA, cliIA, srvH, cliH, at)
			return k[:]
		}
		k, err := d.HostHostKey(proto, srvIA, cliIA, srvH, cliH, at)
		if err != nil {
			return make([]byte, 16)
		}
		return k[:]
	}
	if r.Only() == "" || r.Only()[0] == 'e' {
		c13ClientWith(r, c13ClientCfg{prefix: "e", hosts: [2]int{31, 32}, fetcher: scion.NewFetcher(dc), key: key,
			extraModes: []string{"key:roles exchanged", "key:another client host", "key:another server host", "key:another client ISD-AS", "key:another server ISD-AS", "key:previous epoch", "key:another protocol"}})
	}
	// ---- the listener's level-2 key cache on its own: whatever the order of reception times and
	// identities, the key handed out is the key of the epoch that contains the reception time
	if r.Only() == "" {
		fe := scion.NewFetcher(dc)
		frng := r.Rng("c13fetcher")
		base := time.Now()
		offs := []time.Duration{0, 10 * time.Minute, -10 * time.Minute, epoch, epoch + time.Minute, -epoch, 2 * epoch, -time.Minute, epoch - time.Minute, 3 * epoch, 3*epoch - time.Second}
		ias := []addr.IA{c05LIA, c05RIA, otherIA}
		hosts := []string{"127.0.0.1", "10.9.8.7", "fd00::99"}
		for i := 0; i < r.Pick(300, 20000); i++ {
			t := base.Add(offs[frng.IntN(len(offs))])
			meta := drkey.HostASMeta{ProtoId: scion.DRKeyProtocolTS, Validity: t, SrcIA: ias[frng.IntN(2)], DstIA: ias[frng.IntN(3)], SrcHost: hosts[frng.IntN(3)]}
			k, err := fe.FetchHostASKey(ctx, meta)
			r.Eval(1)
			want := d.HostASKey(proto, uint64(meta.SrcIA), uint64(meta.DstIA), meta.SrcHost, t)
			w := map[string]any{"step": i, "reception_time_offset": t.Sub(base).String(), "identity": fmt.Sprint(meta.SrcIA, ",", meta.SrcHost, "<-", meta.DstIA), "error": fmt.Sprint(err),
				"epoch": fmt.Sprint(k.Epoch.NotBefore.Sub(base), "..", k.Epoch.NotAfter.Sub(base))}
			if err != nil {
				r.Violation("scion.Fetcher|wrong-value:key fetch fails although the key service answers", fmt.Sprintf("f%d", i), w)
				break
			}
			if !k.Epoch.Contains(t) || k.Key != want || k.SrcIA != meta.SrcIA || k.DstIA != meta.DstIA || k.SrcHost != meta.SrcHost {
				r.Violation("scion.Fetcher|wrong-value:host-AS key handed out is not the key of the requested identity in the epoch that contains the reception time", fmt.Sprintf("f%d", i), w)
				break
			}
		}
		r.Class("drkey:level-2 key cache returns the key of the identity and epoch asked for, in any order")
	}
	if r.Only() != "" && r.Only()[0] != 'r' {
		return
	}
	// ---- part B: real client <-> real listeners
	srv := blockIP(r, 13, 34)
	tgt, err := StartTargetEnv("plain", []string{"USE_MOCK_KEYS=false"}, "-ip", srv.String(), "-kinds", "scion", "-daemon", d.Addr())
	if err != nil {
		r.Inconclusive("target: " + err.Error())
		return
	}
	defer tgt.Kill()
	rng := r.Rng("c13e2e")
	h := &recHandler{}
	log := slog.New(h)
	ias := []addr.IA{c05LIA, c05RIA, otherIA}
	for i := 0; i < r.Pick(40, 1500); i++ {
		id := fmt.Sprintf("r%d", i)
		if r.Only() != "" && r.Only() != id {
			continue
		}
		cliIP := blockIP(r, 13, 35+i%4)
		lia, ria := ias[rng.IntN(3)], ias[rng.IntN(3)]
		inter := i%2 == 1
		c := &client.SCIONClient{Log: log, InterleavedMode: inter}
		c.Auth.Enabled = true
		c.Auth.DRKeyFetcher = scion.NewFetcher(dc)
		pth := handPath(rng, lia, ria, netip.AddrPortFrom(srv, 10123), i)
		h.take()
		var off time.Duration
		var ts time.Time
		var merr error
		pnc := c02Recover(func() {
			cctx, cancel := context.WithTimeout(ctx, 2*time.Second)
			defer cancel()
			la := udp.UDPAddr{IA: lia, Host: &net.UDPAddr{IP: cliIP.AsSlice()}}
			ra := udp.UDPAddr{IA: ria, Host: &net.UDPAddr{IP: srv.AsSlice(), Port: 10123}}
			ts, off, merr = client.MeasureClockOffsetSCION(cctx, log, []*client.SCIONClient{c}, la, ra, []snet.Path{pth})
		})
		r.Eval(1)
		recs := h.take()
		w := map[string]any{"local": fmt.Sprint(lia, ",", cliIP), "remote": fmt.Sprint(ria, ",", srv), "interleaved_mode": inter, "error": fmt.Sprint(merr), "offset": off.String()}
		if pnc != nil {
			w["panic"] = fmt.Sprint(pnc)
			r.Violation("scion-client|panic|authenticated exchange with the real listener", id, w)
			continue
		}
		if !tgt.Alive() {
			first, frame := tgt.ExitInfo()
			w["panic"] = first
			r.Violation("scion-listener|panic:"+c08Sig(frame)+"|authenticated exchange with the real client", id, w)
			return
		}
		if merr != nil || ts.IsZero() {
			r.Violation("scion-client/scion-listener|wrong-value:authenticated exchange between the real client and the real listener fails although both fetch their keys from the same key service", id, w)
			continue
		}
		authed, seen := false, false
		for _, rc := range recs {
			if rc["msg"] == "received response" {
				seen = true
				a, _ := rc["auth"].(bool)
				authed = authed || a
			}
		}
		if !seen || !authed {
			w["log_records"] = len(recs)
			r.Violation("scion-client/scion-listener|wrong-value:reply of the real listener to an authenticated request was not accepted as authenticated by the real client", id, w)
			continue
		}
		if off < -time.Second || off > time.Second {
			r.Violation("scion-client/scion-listener|wrong-value:offset between two clocks of the same machine is not small", id, w)
		}
		r.Class(fmt.Sprintf("e2e:real client and listener agree on the key (interleaved mode %v, same ISD-AS %v)", inter, lia == ria))
		r.Distinct(fmt.Sprint("e2e", lia, ria, inter, i%4))
	}
	ha, hh := d.Counts()
	r.Set("e2e_daemon_host_as_requests", ha)
	r.Set("e2e_daemon_host_host_requests", hh)
}

func init() {
	Legs["c13e2e"] = func(args []string) {
		r := ev.NewLeg("C13")
		c13E2E(r)
		r.FinishLeg()
	}
}
