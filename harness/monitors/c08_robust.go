package monitors

import (
	"context"
	"crypto/tls"
	"encoding/binary"
	"fmt"
	"log/slog"
	"math/rand/v2"
	"net"
	"net/netip"
	"os"
	"path/filepath"
	"strings"
	"sync"
	"sync/atomic"
	"time"

	"github.com/scionproto/scion/pkg/addr"
	"github.com/scionproto/scion/pkg/slayers"

	"example.com/scion-time/net/csptp"
	"example.com/scion-time/net/ntske"
	"example.com/scion-time/net/udp"

	"verif/harness/internal/ev"
	"verif/harness/internal/peer"
)

// C08 — no network input can crash or hang a listener or a client.
// Real listeners (and, in client mode, real clients) run in a child process built with the
// race detector (=> checkptr). The parent writes every input to disk before sending it,
// then proves progress with a well-formed sentinel on the same socket.

type c08Input struct {
	class  string
	data   []byte
	raw    bool // stream endpoints: write to a plain TCP connection that is then left open
	stream int  // stream endpoints: repeat data until this many bytes are written (or the peer stops taking them)
}

// c08Endpoint is one receiving loop under test.
type c08Endpoint struct {
	loop     string // function name of the receiving loop (goroutine census)
	name     string
	kinds    string // target -kinds
	inputs   func(r *ev.Run, rng *rand.Rand, e *c08Env) []c08Input
	send     func(e *c08Env, in c08Input) error
	sentinel func(e *c08Env) bool // true = answered
}

type c08Env struct {
	r        *ev.Run
	srv, cli netip.Addr
	srv2     netip.Addr
	tgt      *Target
	uc       *peer.UDPClient
	nts      ntske.Data
	logf     *os.File
	rssKill  atomic.Bool
	ntsEpoch int
}

func (e *c08Env) startTarget(kinds string) error {
	var env []string
	if strings.HasSuffix(kinds, ",nomock") { // real DRKey fetching, no SCION daemon configured (an IP-only deployment)
		kinds = strings.TrimSuffix(kinds, ",nomock")
		env = []string{"USE_MOCK_KEYS=false"}
	}
	t, err := StartTargetEnv("race", env, "-ip", e.srv.String(), "-ip2", e.srv2.String(), "-kinds", kinds)
	if err != nil {
		return err
	}
	e.tgt = t
	e.rssKill.Store(false)
	if strings.Contains(kinds, "ntske") {
		// cookies are sealed under this process's server key: fetch fresh ones after every (re)start
		if d, err := fetchNTS(e.srv); err == nil {
			e.nts = d
			e.ntsEpoch++
		}
	}
	go func(t *Target) { // memory watchdog
		for t.Alive() {
			if t.RSSBytes() > 3<<30 {
				e.rssKill.Store(true)
				t.Kill()
				return
			}
			time.Sleep(50 * time.Millisecond)
		}
	}(t)
	return nil
}

func c08Sig(frame string) string {
	frame = strings.TrimPrefix(frame, "example.com/scion-time/")
	return frame
}

// c08Drive sends the inputs of one endpoint in batches, each followed by a sentinel.
func c08Drive(r *ev.Run, ep *c08Endpoint, e *c08Env, inputs []c08Input, regen func() []c08Input) {
	skip := map[string]bool{}
	epoch := e.ntsEpoch
	refresh := func() {
		if e.ntsEpoch != epoch && regen != nil {
			inputs = regen() // same seeded generator, key material of the new process
			epoch = e.ntsEpoch
		}
	}
	report := func(in c08Input, batch []c08Input) {
		w := map[string]any{"endpoint": ep.name, "class": in.class, "input": ev.Hex(in.data), "length": len(in.data)}
		switch {
		case !e.tgt.Alive() && e.rssKill.Load():
			w["stderr"] = e.tgt.Stderr()
			r.Violation(ep.name+"|memory-growth|"+in.class, in.class, w)
		case !e.tgt.Alive():
			first, frame := e.tgt.ExitInfo()
			w["panic"], w["frame"], w["stderr"] = first, frame, e.tgt.Stderr()
			kind := "panic"
			if strings.Contains(first, "checkptr") {
				kind = "checkptr"
			}
			r.Violation(ep.name+"|"+kind+":"+c08Sig(frame)+"|"+in.class, in.class, w)
		default:
			w["goroutines"] = e.tgt.Dump()
			r.Violation(ep.name+"|hang|"+in.class, in.class, w)
		}
		skip[in.class] = true
		e.tgt.Kill()
		if err := e.startTarget(ep.kinds); err != nil {
			r.Inconclusive("target restart failed: " + err.Error())
		}
	}
	sentinelOK := func() bool {
		for a := 0; a < 3; a++ {
			if !e.tgt.Alive() {
				return false
			}
			if ep.sentinel(e) {
				return true
			}
		}
		return false
	}
	const batch = 16
	i := 0
	for i < len(inputs) {
		if e.tgt == nil || !e.tgt.Alive() {
			if err := e.startTarget(ep.kinds); err != nil {
				r.Inconclusive("target start failed: " + err.Error())
				return
			}
		}
		refresh()
		var grp []c08Input
		for i < len(inputs) && len(grp) < batch {
			if !skip[inputs[i].class] {
				grp = append(grp, inputs[i])
			}
			i++
		}
		if len(grp) == 0 {
			continue
		}
		for _, in := range grp {
			fmt.Fprintf(e.logf, "%s %s %s\n", ep.name, in.class, ev.Hex(in.data))
			_ = ep.send(e, in)
		}
		r.Eval(int64(len(grp)))
		if sentinelOK() {
			for _, in := range grp {
				r.Class(ep.name + ":survived:" + in.class)
				r.Distinct(ep.name + in.class + ev.Hex(in.data[:min(len(in.data), 64)]))
			}
			continue
		}
		// find the culprit: restart and replay the batch one input at a time
		e.tgt.Kill()
		dumpFirst := grp[len(grp)-1]
		if err := e.startTarget(ep.kinds); err != nil {
			r.Inconclusive("target restart failed: " + err.Error())
			return
		}
		found := false
		if e.ntsEpoch != epoch && regen != nil {
			// rebuild this batch with the new process's key material (same positions of the same generator)
			fresh := regen()
			epoch = e.ntsEpoch
			if len(fresh) == len(inputs) {
				inputs = fresh
				var g2 []c08Input
				for j := i - 1; j >= 0 && len(g2) < len(grp); j-- {
					if !skip[inputs[j].class] {
						g2 = append([]c08Input{inputs[j]}, g2...)
					}
				}
				if len(g2) == len(grp) {
					grp = g2
				}
			}
		}
		for _, in := range grp {
			if skip[in.class] {
				continue
			}
			_ = ep.send(e, in)
			if !sentinelOK() {
				report(in, grp)
				found = true
				break
			}
		}
		if !found {
			// only the combination (or timing) failed: report the whole batch under its last class
			w := map[string]any{"endpoint": ep.name, "batch": func() (out []string) {
				for _, in := range grp {
					out = append(out, in.class+":"+ev.Hex(in.data))
				}
				return
			}()}
			r.Violation(ep.name+"|died-or-hung after a batch that passes when replayed one by one|"+dumpFirst.class, dumpFirst.class, w)
		}
	}
}

// ---------------------------------------------------------------------------------------
// input generators

func randBytes(rng *rand.Rand, n int) []byte {
	b := make([]byte, n)
	for i := range b {
		b[i] = byte(rng.IntN(256))
	}
	return b
}

// ntsFields returns the offsets of the extension field headers of an NTS packet.
func ntsFields(b []byte) (offs []int) {
	pos := 48
	for pos+4 <= len(b) {
		l := int(binary.BigEndian.Uint16(b[pos+2:]))
		offs = append(offs, pos)
		if l < 4 {
			break
		}
		pos += l
	}
	return
}

func c08NTPInputs(r *ev.Run, rng *rand.Rand, e *c08Env) []c08Input {
	var in []c08Input
	add := func(class string, b []byte) { in = append(in, c08Input{class: class, data: b}) }
	step := r.Pick(7, 1)
	for l := 0; l <= 2049; l += step {
		b := randBytes(rng, l)
		if l > 0 {
			b[0] = 0x23
		}
		add("ntp-random-of-each-length", b)
	}
	for _, l := range []int{2047, 2048, 2049, 2050, 4096, 9000, 20000, 65000} {
		b := randBytes(rng, l)
		b[0] = 0x23
		add("ntp-larger-than-receive-buffer", b)
	}
	for fb := 0; fb < 256; fb++ {
		b := peer.NTPRequest(peer.UniqueTime64())
		b[0] = byte(fb)
		add("ntp-first-byte", b)
	}
	hdr := peer.NTPRequest(peer.UniqueTime64())
	base, _ := ntsRequest(hdr, e.nts, 2)
	offs := ntsFields(base)
	lens := []uint16{0, 1, 2, 3, 4, 5, 7, 8, 16, 27, 28, 0x7fff, 0xffff}
	for _, o := range offs {
		rem := len(base) - o
		for _, l := range append(lens, uint16(rem), uint16(rem+1), uint16(rem-1), uint16(rem+4)) {
			b := append([]byte{}, base...)
			binary.BigEndian.PutUint16(b[o+2:], l)
			cls := "nts-ext-length"
			if l < 4 {
				cls = "nts-ext-length<4"
			}
			add(cls, b)
		}
		for _, t := range []uint16{0, 0x104, 0x204, 0x304, 0x404, 0x8104, 0xffff} {
			b := append([]byte{}, base...)
			binary.BigEndian.PutUint16(b[o:], t)
			add("nts-ext-type", b)
		}
	}
	// authenticator nonce / ciphertext length words
	ao := offs[len(offs)-1]
	for _, nl := range []uint16{0, 1, 8, 15, 17, 24, 32, 0x100, 0xffff} {
		for _, cl := range []uint16{0, 1, 15, 16, 17, 0x100, 0xffff} {
			b := append([]byte{}, base...)
			binary.BigEndian.PutUint16(b[ao+4:], nl)
			if cl != 16 {
				binary.BigEndian.PutUint16(b[ao+6:], cl)
			}
			cls := "nts-auth-nonce-length"
			if nl == 16 {
				cls = "nts-auth-ciphertext-length"
			}
			add(cls, b)
		}
	}
	// the cookie's own TLV structure (unauthenticated until it is opened)
	co := offs[1]
	cbody := co + 4
	clen := int(binary.BigEndian.Uint16(base[co+2:])) - 4
	for _, tlvOff := range []int{0, 6, 26} { // key id, nonce, ciphertext TLVs of a 124-byte cookie
		for _, l := range []uint16{0, 1, 2, 3, 15, 17, 93, 95, 110, 0x100, 0xfffe, 0xffff} {
			b := append([]byte{}, base...)
			binary.BigEndian.PutUint16(b[cbody+tlvOff+2:], l)
			add("nts-cookie-tlv-length", b)
		}
		for _, t := range []uint16{0, 0x101, 0x401, 0x501, 0x601, 0xffff} {
			b := append([]byte{}, base...)
			binary.BigEndian.PutUint16(b[cbody+tlvOff:], t)
			add("nts-cookie-tlv-type", b)
		}
	}
	for _, bl := range []int{0, 1, 2, 3, 4, 5, 6, 7, 8, 12, 13, 14, 29, 30, clen - 1} {
		// a cookie field whose body is cut short, followed by the original authenticator
		b := append([]byte{}, base[:cbody]...)
		b = append(b, base[cbody:cbody+bl]...)
		for len(b)%4 != 0 {
			b = append(b, 0)
		}
		binary.BigEndian.PutUint16(b[co+2:], uint16(len(b)-co))
		b = append(b, base[ao:]...)
		add("nts-cookie-short-body", b)
	}
	for l := 48; l <= len(base); l += r.Pick(3, 1) {
		add("nts-truncated", append([]byte{}, base[:l]...))
	}
	for k := 0; k < r.Pick(300, 20000); k++ {
		b := append([]byte{}, base...)
		for f := 1 + rng.IntN(3); f > 0; f-- {
			b[rng.IntN(len(b))] ^= 1 << uint(rng.IntN(8))
		}
		add("nts-bitflips", b)
	}
	{ // valid cookie, garbage ciphertext / nonce
		b := append([]byte{}, base...)
		for i := ao + 8; i < len(b); i++ {
			b[i] = byte(rng.IntN(256))
		}
		add("nts-valid-cookie-bad-authenticator", b)
	}
	// correctly authenticated requests of unusual shape (built by the harness's own encoder)
	for _, ul := range []int{0, 1, 4, 16, 28, 31, 32, 33, 48, 64, 200, 500, 900, 1500} {
		for _, np := range []int{0, 1, 7, 8, 12} {
			if 48+ul+(np+1)*132+60 > 2040 {
				continue
			}
			add("nts-authenticated-unusual-shape", peer.NTSRequest(peer.NTPRequest(peer.UniqueTime64()), randBytes(rng, ul), e.nts.Cookie[0], np, e.nts.C2sKey))
		}
	}
	// correctly authenticated requests whose encrypted part is not a whole number of extension fields
	for _, pl := range []int{1, 2, 3, 4, 5, 6, 7, 27, 28, 29, 30, 31, 33, 130, 131} {
		add("nts-authenticated-odd-encrypted-payload", peer.NTSRequestPlain(peer.NTPRequest(peer.UniqueTime64()), randBytes(rng, 32), e.nts.Cookie[0], 0, e.nts.C2sKey, randBytes(rng, pl)))
		f := append(make([]byte, 0, pl+8), 0x02, 0x04, 0x00, byte(pl+4))
		f = append(f, randBytes(rng, pl)...) // a cookie-typed field of unaligned length, then a stray byte or two
		add("nts-authenticated-odd-encrypted-payload", peer.NTSRequestPlain(peer.NTPRequest(peer.UniqueTime64()), randBytes(rng, 32), e.nts.Cookie[0], 0, e.nts.C2sKey, append(f, randBytes(rng, pl%4)...)))
	}
	{ // many minimal fields
		b := append([]byte{}, hdr...)
		for len(b)+4 <= 2048 {
			b = append(b, 0x7f, 0x00, 0x00, 0x04)
		}
		add("nts-many-minimal-fields", b)
		b2 := append([]byte{}, base[:offs[1]]...)
		for len(b2)+8 <= 1500 {
			b2 = append(b2, 0x02, 0x04, 0x00, 0x08, 1, 2, 3, 4)
		}
		b2 = append(b2, base[ao:]...)
		add("nts-many-cookie-fields", b2)
	}
	for k := 0; k < r.Pick(300, 20000); k++ {
		add("ntp-random", randBytes(rng, rng.IntN(1400)))
	}
	return in
}

var (
	c08LIA, _ = addr.ParseIA("1-ff00:0:110")
	c08RIA, _ = addr.ParseIA("2-ff00:0:220")
)

func c08SCIONBase(e *c08Env, rng *rand.Rand, kind int, dstPort uint16, payload []byte) *peer.SCIONPkt {
	p := &peer.SCIONPkt{SrcIA: c08RIA, DstIA: c08LIA, SrcHost: e.cli, DstHost: e.srv, SrcPort: e.uc.Local().Port(), DstPort: dstPort, Payload: payload, FlowID: 1}
	switch kind {
	case 0:
		p.SrcIA = c08LIA
	case 1:
		p.Path = peer.SCIONPath(rng, 2)
	case 2:
		p.Path = peer.SCIONPath(rng, 2, 3)
	case 3:
		p.Path = peer.SCIONPath(rng, 1, 2, 3)
	}
	return p
}

func c08SCIONInputs(dstPort uint16) func(r *ev.Run, rng *rand.Rand, e *c08Env) []c08Input {
	return func(r *ev.Run, rng *rand.Rand, e *c08Env) []c08Input {
		var in []c08Input
		add := func(class string, b []byte) { in = append(in, c08Input{class: class, data: b}) }
		ser := func(p *peer.SCIONPkt) []byte {
			b, err := p.Serialize()
			if err != nil {
				panic(err)
			}
			return b
		}
		ntp := func() []byte { return peer.NTPRequest(peer.UniqueTime64()) }
		for kind := 0; kind < 4; kind++ {
			base := ser(c08SCIONBase(e, rng, kind, dstPort, ntp()))
			for l := 0; l <= len(base); l += r.Pick(2, 1) {
				add("scion-truncated", append([]byte{}, base[:l]...))
			}
			for v := 0; v < 256; v++ {
				for _, off := range []int{4, 5, 8, 9} {
					b := append([]byte{}, base...)
					b[off] = byte(v)
					add([]string{4: "scion-next-header", 5: "scion-header-length", 8: "scion-path-type", 9: "scion-address-type-length"}[off], b)
				}
			}
			// address types with enough trailing bytes for the longest host addresses
			for v := 0; v < 256; v++ {
				b := append([]byte{}, base...)
				b[9] = byte(v)
				b = append(b, randBytes(rng, 64)...)
				b[5] = byte(min(255, (len(b)-56)/4)) // plausible header length
				add("scion-address-type-length+padding", b)
			}
			for _, pl := range []uint16{0, 1, 7, 8, 55, 56, 57, 0x7fff, 0xffff} {
				b := append([]byte{}, base...)
				binary.BigEndian.PutUint16(b[6:], pl)
				add("scion-payload-length", b)
			}
			for k := 0; k < r.Pick(100, 5000); k++ {
				b := append([]byte{}, base...)
				for f := 1 + rng.IntN(3); f > 0; f-- {
					b[rng.IntN(len(b))] ^= 1 << uint(rng.IntN(8))
				}
				add("scion-bitflips", b)
			}
		}
		// host addresses of non-IP types and lengths in otherwise consistent packets
		for _, t := range []slayers.AddrType{0, 1, 2, 3, 4, 5, 6, 7, 8, 12, 15} {
			for side := 0; side < 2; side++ {
				t := t
				p := c08SCIONBase(e, rng, int(t)%4, dstPort, ntp())
				raw := randBytes(rng, t.Length())
				if side == 0 {
					p.RawSrcType, p.RawSrc = &t, raw
				} else {
					p.RawDstType, p.RawDst = &t, raw
				}
				if b, err := p.Serialize(); err == nil {
					add("scion-non-ip-host-address", b)
				}
			}
		}
		// special paths
		for _, set := range []bool{true, false} {
			p := c08SCIONBase(e, rng, 0, dstPort, ntp())
			p.SrcIA = c08RIA
			p.Path = peer.OneHopPath(rng, set)
			cls := "scion-onehop-path"
			if !set {
				cls = "scion-onehop-path-second-hop-unset"
			}
			add(cls, ser(p))
		}
		if ep, err := peer.EPICPath(rng, 2, 2); err == nil {
			p := c08SCIONBase(e, rng, 0, dstPort, ntp())
			p.SrcIA = c08RIA
			p.Path = ep
			add("scion-epic-path", ser(p))
		}
		// path meta header mutations (CurrINF/CurrHF/SegLen bits)
		{
			base := ser(c08SCIONBase(e, rng, 2, dstPort, ntp()))
			po := 12 + 24 // common + address header (IPv4/IPv4)
			for v := 0; v < 256; v++ {
				for o := 0; o < 4; o++ {
					b := append([]byte{}, base...)
					b[po+o] = byte(v)
					add("scion-path-meta", b)
				}
			}
		}
		// end-to-end options
		for l := 0; l <= 44; l++ {
			p := c08SCIONBase(e, rng, l%4, dstPort, ntp())
			o := &slayers.EndToEndOption{OptType: slayers.OptTypeAuthenticator, OptData: randBytes(rng, l)}
			copy(o.OptData, []byte{0, 3, 0, 123, 0}) // the time service's client SPI, CMAC — as much of it as the option holds
			p.E2E = []*slayers.EndToEndOption{o}
			cls := "scion-authenticator-option-length"
			if l == 28 {
				cls = "scion-authenticator-option-bad-mac"
			}
			add(cls, ser(p))
		}
		for _, l := range []int{0, 1, 15, 16, 17, 24, 31, 32, 48, 63, 64, 65, 80, 128, 200} {
			for k := 0; k < 4; k++ {
				p := c08SCIONBase(e, rng, k, dstPort, ntp())
				d := randBytes(rng, l)
				if k%2 == 0 && l >= 16 { // looks like a cmsg header: len, level SOL_SOCKET, type
					binary.LittleEndian.PutUint64(d[0:], uint64([]int{0, 15, 16, 17, l, l + 1, 64, 1 << 40}[rng.IntN(8)]))
					binary.LittleEndian.PutUint32(d[8:], 1)
					binary.LittleEndian.PutUint32(d[12:], []uint32{35, 65, 37, 0}[rng.IntN(4)])
				}
				p.E2E = []*slayers.EndToEndOption{{OptType: 253, OptData: d}}
				add("scion-timestamp-option", ser(p))
			}
		}
		{ // valid authenticator under the mock key
			p := c08SCIONBase(e, rng, 1, dstPort, ntp())
			p.E2E = []*slayers.EndToEndOption{peer.NewAuthOption(1<<17|1<<16|123, 0)}
			if b, err := peer.SignPkt(p, make([]byte, 16)); err == nil {
				add("scion-authenticator-valid", b)
				for k := 0; k < 60; k++ {
					c := append([]byte{}, b...)
					c[rng.IntN(len(c))] ^= 1 << uint(rng.IntN(8))
					add("scion-authenticated-bitflip", c)
				}
			}
		}
		// hop-by-hop + end-to-end mixes, options region garbage
		for k := 0; k < r.Pick(60, 2000); k++ {
			p := c08SCIONBase(e, rng, k%4, dstPort, ntp())
			for n := rng.IntN(4); n >= 0; n-- {
				p.E2E = append(p.E2E, &slayers.EndToEndOption{OptType: slayers.OptionType(rng.IntN(256)), OptData: randBytes(rng, rng.IntN(40))})
			}
			if rng.IntN(2) == 0 {
				p.HBH = []*slayers.HopByHopOption{{OptType: slayers.OptionType(rng.IntN(256)), OptData: randBytes(rng, rng.IntN(20))}}
			}
			b, err := p.Serialize()
			if err == nil {
				add("scion-random-options", b)
			}
		}
		// SCMP
		for t := 0; t < 256; t++ {
			p := c08SCIONBase(e, rng, t%4, dstPort, randBytes(rng, rng.IntN(40)))
			p.SCMP = &slayers.SCMP{TypeCode: slayers.CreateSCMPTypeCode(slayers.SCMPType(t), slayers.SCMPCode(rng.IntN(3)))}
			add("scion-scmp-type", ser(p))
		}
		for _, kind := range []int{0, 1, 2, 3} {
			p := c08SCIONBase(e, rng, kind, dstPort, []byte("ping"))
			p.SCMP = &slayers.SCMP{TypeCode: slayers.CreateSCMPTypeCode(slayers.SCMPTypeEchoRequest, 0)}
			p.SCMPEcho = &slayers.SCMPEcho{Identifier: 7, SeqNumber: uint16(kind)}
			b := ser(p)
			add("scion-scmp-echo", b)
			for _, pt := range []byte{0, 2, 3, 4, 200} { // echo with a path type the reply cannot reverse
				c := append([]byte{}, b...)
				c[8] = pt
				add("scion-scmp-echo-path-type", c)
			}
			p.SCMP = &slayers.SCMP{TypeCode: slayers.CreateSCMPTypeCode(slayers.SCMPTypeTracerouteRequest, 0)}
			p.SCMPEcho = nil
			p.SCMPTrace = &slayers.SCMPTraceroute{Identifier: 9, Sequence: 1}
			add("scion-scmp-traceroute", ser(p))
		}
		// UDP length field / other destination ports (forwarding branch) / NTS payloads
		for _, ul := range []uint16{0, 7, 8, 9, 55, 57, 0xffff} {
			b := ser(c08SCIONBase(e, rng, 1, dstPort, ntp()))
			binary.BigEndian.PutUint16(b[len(b)-56+4:], ul)
			add("scion-udp-length", b)
		}
		for _, dp := range []uint16{0, 1, 30041, 10123, 40000, 65535} {
			for kind := 0; kind < 4; kind++ {
				add("scion-other-destination-port", ser(c08SCIONBase(e, rng, kind, dp, ntp())))
			}
		}
		if len(e.nts.Cookie) > 0 {
			for _, x := range c08NTPInputs(r, rng, e) {
				if strings.HasPrefix(x.class, "nts-") && rng.IntN(r.Pick(6, 1)) == 0 {
					add("scion+"+x.class, ser(c08SCIONBase(e, rng, rng.IntN(4), dstPort, x.data)))
				}
			}
		}
		for k := 0; k < r.Pick(300, 20000); k++ {
			add("scion-random", randBytes(rng, rng.IntN(300)))
		}
		for _, l := range []int{9187, 9188, 9189, 9190, 20000, 65000} {
			b := ser(c08SCIONBase(e, rng, 1, dstPort, randBytes(rng, l-100)))
			add("scion-larger-than-receive-buffer", b)
		}
		return in
	}
}

func c08CSPTPInputs(r *ev.Run, rng *rand.Rand, e *c08Env) []c08Input {
	var in []c08Input
	add := func(class string, b []byte) { in = append(in, c08Input{class: class, data: b}) }
	for l := 0; l <= 120; l++ {
		add("csptp-random-of-each-length", randBytes(rng, l))
	}
	mk := func(typ uint8, l int) []byte {
		b := make([]byte, l)
		m := csptp.Message{SdoIDMessageType: typ, PTPVersion: csptp.PTPVersion, MessageLength: uint16(l), FlagField: csptp.FlagUnicast, SequenceID: uint16(rng.IntN(50000))}
		if l >= 44 {
			csptp.EncodeMessage(b[:44], &m)
		}
		return b
	}
	for _, typ := range []uint8{0, 8, 1, 9, 0xff} {
		for _, l := range []int{44, 45, 57, 58, 59, 79, 80, 81, 97, 98, 99, 120} {
			for _, ml := range []int{0, 43, 44, l - 1, l, l + 1, 0xffff} {
				b := mk(typ, l)
				binary.BigEndian.PutUint16(b[2:], uint16(ml))
				for i := 44; i < l; i++ {
					b[i] = byte(rng.IntN(256))
				}
				add("csptp-message-length", b)
				if l >= 58 { // plausible TLV header: organization extension, Meinberg, request subtype, flags
					copy(b[44:], []byte{0, 3, 0, byte(l - 48), 0xec, 0x46, 0x70, 0x52, 0x65, 0x71})
					binary.BigEndian.PutUint32(b[54:], uint32(rng.IntN(4)))
					add("csptp-follow-up-tlv", b)
				}
			}
		}
	}
	for k := 0; k < r.Pick(200, 10000); k++ {
		add("csptp-random", randBytes(rng, rng.IntN(140)))
	}
	for _, l := range []int{98, 99, 100, 200, 2048, 9000, 65000} {
		b := mk(0, l)
		add("csptp-larger-than-receive-buffer", b)
	}
	return in
}

// NTS-KE: byte streams written to a TLS connection
func c08NTSKEInputs(r *ev.Run, rng *rand.Rand, e *c08Env) []c08Input {
	var in []c08Input
	add := func(class string, b []byte) { in = append(in, c08Input{class: class, data: b}) }
	rec := func(t uint16, body []byte) []byte {
		b := make([]byte, 4+len(body))
		binary.BigEndian.PutUint16(b, t)
		binary.BigEndian.PutUint16(b[2:], uint16(len(body)))
		copy(b[4:], body)
		return b
	}
	valid := append(append(rec(0x8001, []byte{0, 0}), rec(0x8004, []byte{0, 15})...), rec(0x8000, nil)...)
	add("ntske-valid", valid)
	for l := 0; l < len(valid); l++ {
		add("ntske-truncated", append([]byte{}, valid[:l]...))
	}
	for t := 0; t < 16; t++ {
		for _, crit := range []uint16{0, 0x8000} {
			for _, bl := range []int{0, 1, 2, 3, 100} {
				b := rec(uint16(t)|crit, randBytes(rng, bl))
				add("ntske-single-record", append(b, rec(0x8000, nil)...))
				add("ntske-record-without-end", b)
			}
		}
	}
	for _, bl := range []uint16{1, 2, 100, 0x7fff, 0xffff} {
		for _, t := range []uint16{1, 4, 5, 6, 7, 2, 3, 9} {
			b := make([]byte, 4)
			binary.BigEndian.PutUint16(b, t)
			binary.BigEndian.PutUint16(b[2:], bl) // announces a body that never comes
			add("ntske-body-length-beyond-stream", b)
		}
	}
	for k := 0; k < r.Pick(100, 5000); k++ {
		add("ntske-random", randBytes(rng, rng.IntN(200)))
	}
	// peers that never complete the TLS handshake and keep the TCP connection open
	for _, b := range [][]byte{nil, {0x16}, {0x16, 0x03, 0x01}, {0x16, 0x03, 0x01, 0x02, 0x00, 0x01}, randBytes(rng, 5), randBytes(rng, 60), []byte("GET / HTTP/1.0\r\n\r\n")} {
		in = append(in, c08Input{class: "ntske-stalled-tls-handshake", data: b, raw: true})
	}
	{
		var b []byte
		for i := 0; i < 2000; i++ {
			b = append(b, rec(5, randBytes(rng, 100))...)
		}
		add("ntske-many-cookie-records", append(b, rec(0x8000, nil)...))
	}
	// a client that never ends its message: cookie records of the maximum size, streamed for as long as
	// the server takes them (up to 1 GiB or 8 s); what the server keeps of them shows in its memory
	in = append(in, c08Input{class: "ntske-endless-cookie-records", data: rec(5, randBytes(rng, 65535)), stream: 1 << 30})
	return in
}

var (
	c08TLSWG  sync.WaitGroup
	c08TLSSem = make(chan struct{}, 16)
)

// c08SendTLS opens a TLS connection per input (up to 16 at a time) and writes the byte stream.
// Raw inputs go over a plain TCP connection that stays open (a peer that never completes the
// handshake) until the endpoint is done.
var c08Held []net.Conn

func c08SendTLS(alpn string) func(e *c08Env, in c08Input) error {
	return func(e *c08Env, in c08Input) error {
		b := in.data
		if in.raw {
			c, err := net.DialTimeout("tcp", netip.AddrPortFrom(e.srv, ntske.ServerPortIP).String(), 3*time.Second)
			if err != nil {
				return err
			}
			_, _ = c.Write(b)
			c08Held = append(c08Held, c)
			return nil
		}
		c08TLSWG.Add(1)
		c08TLSSem <- struct{}{}
		go func() {
			defer func() { <-c08TLSSem; c08TLSWG.Done() }()
			d := &net.Dialer{Timeout: 3 * time.Second}
			c, err := tls.DialWithDialer(d, "tcp", netip.AddrPortFrom(e.srv, ntske.ServerPortIP).String(),
				&tls.Config{InsecureSkipVerify: true, NextProtos: []string{alpn}, MinVersion: tls.VersionTLS13})
			if err != nil {
				return
			}
			if in.stream > 0 {
				_ = c.SetDeadline(time.Now().Add(8 * time.Second))
				for sent := 0; sent < in.stream; sent += len(b) {
					if _, err := c.Write(b); err != nil {
						break
					}
				}
				_ = c.Close()
				return
			}
			_ = c.SetDeadline(time.Now().Add(300 * time.Millisecond))
			_, _ = c.Write(b)
			if len(b)%2 == 0 { // half of the connections read the answer, the other half drop at once
				buf := make([]byte, 4096)
				_, _ = c.Read(buf)
			}
			_ = c.Close()
		}()
		return nil
	}
}

func c08NTPSentinel(dst func(e *c08Env) netip.AddrPort, wrap func(e *c08Env, p []byte) []byte, unwrap func(b []byte) []byte) func(e *c08Env) bool {
	return func(e *c08Env) bool {
		tx := peer.UniqueTime64()
		if err := e.uc.Send(dst(e), wrap(e, peer.NTPRequest(tx))); err != nil {
			return false
		}
		_, hit := e.uc.ReadUntil(5*time.Second, func(d peer.Datagram) bool { return peer.NTPOrigin(unwrap(d.Data)) == tx })
		return hit != nil
	}
}

func scionUnwrap(b []byte) []byte {
	ps, err := peer.ParseSCION(b)
	if err != nil || !ps.HasUDP {
		return nil
	}
	return ps.UDP.Payload
}

func init() {
	register("C08", "fault_enumeration", func(r *ev.Run) {
		e := &c08Env{r: r, srv: blockIP(r, 8, 1), srv2: blockIP(r, 8, 4), cli: blockIP(r, 8, 2)}
		logPath := filepath.Join(os.Getenv("VERIF_SCRATCH"), "c08-inputs.log")
		var err error
		if e.logf, err = os.Create(logPath); err != nil {
			e.logf, _ = os.Create(os.DevNull)
		}
		if e.uc, err = peer.NewUDPClient(e.cli); err != nil {
			r.Inconclusive(err.Error())
			r.Finish("", 0)
		}
		scionWrap := func(port uint16) func(e *c08Env, p []byte) []byte {
			return func(e *c08Env, p []byte) []byte {
				b, _ := (&peer.SCIONPkt{SrcIA: c08LIA, DstIA: c08LIA, SrcHost: e.cli, DstHost: e.srv, SrcPort: e.uc.Local().Port(), DstPort: 10123, Payload: p}).Serialize()
				return b
			}
		}
		udpTo := func(ip func(e *c08Env) netip.Addr, port uint16) func(e *c08Env, in c08Input) error {
			return func(e *c08Env, in c08Input) error { return e.uc.Send(netip.AddrPortFrom(ip(e), port), in.data) }
		}
		srvIP := func(e *c08Env) netip.Addr { return e.srv }
		srv2IP := func(e *c08Env) netip.Addr { return e.srv2 }
		eps := []*c08Endpoint{
			{loop: "server.runIPServer", name: "ntp-ip-listener", kinds: "ip,ntske", inputs: c08NTPInputs, send: udpTo(srvIP, 123),
				sentinel: c08NTPSentinel(func(e *c08Env) netip.AddrPort { return netip.AddrPortFrom(e.srv, 123) }, func(_ *c08Env, p []byte) []byte { return p }, func(b []byte) []byte { return b })},
			{loop: "server.runSCIONServer", name: "scion-listener(service port)", kinds: "scion,ntske", inputs: c08SCIONInputs(10123), send: udpTo(srvIP, 10123),
				sentinel: c08NTPSentinel(func(e *c08Env) netip.AddrPort { return netip.AddrPortFrom(e.srv, 10123) }, scionWrap(10123), scionUnwrap)},
			{loop: "server.runSCIONServer", name: "scion-listener(end-host port)", kinds: "scion,ntske", inputs: c08SCIONInputs(10123), send: udpTo(srvIP, 30041),
				sentinel: c08NTPSentinel(func(e *c08Env) netip.AddrPort { return netip.AddrPortFrom(e.srv, 30041) }, scionWrap(10123), scionUnwrap)},
			{loop: "server.runSCIONServer", name: "scion-listener(no daemon)", kinds: "scion,ntske,nomock", inputs: c08SCIONInputs(10123), send: udpTo(srvIP, 10123),
				sentinel: c08NTPSentinel(func(e *c08Env) netip.AddrPort { return netip.AddrPortFrom(e.srv, 10123) }, scionWrap(10123), scionUnwrap)},
			{loop: "server.runSCIONServer", name: "scion-dispatcher", kinds: "disp", inputs: c08SCIONInputs(40000), send: udpTo(srv2IP, 30041),
				sentinel: func(e *c08Env) bool { // SCMP echo: the dispatcher answers it itself
					p := &peer.SCIONPkt{SrcIA: c08LIA, DstIA: c08LIA, SrcHost: e.cli, DstHost: e.srv2, Payload: []byte("sentinel"),
						SCMP:     &slayers.SCMP{TypeCode: slayers.CreateSCMPTypeCode(slayers.SCMPTypeEchoRequest, 0)},
						SCMPEcho: &slayers.SCMPEcho{Identifier: 0x5e, SeqNumber: uint16(peer.UniqueTime64() >> 8)}}
					b, err := p.Serialize()
					if err != nil {
						return false
					}
					if err := e.uc.Send(netip.AddrPortFrom(e.srv2, 30041), b); err != nil {
						return false
					}
					_, hit := e.uc.ReadUntil(5*time.Second, func(d peer.Datagram) bool {
						ps, err := peer.ParseSCION(d.Data)
						return err == nil && ps.HasSCMP && ps.SCMP.TypeCode.Type() == slayers.SCMPTypeEchoReply
					})
					return hit != nil
				}},
			{loop: "server.runCSPTPServerIP", name: "csptp-listener(event port)", kinds: "csptp", inputs: c08CSPTPInputs, send: udpTo(srvIP, 319),
				sentinel: func(e *c08Env) bool { return c08CSPTPSentinel(e, 319) }},
			{loop: "server.runCSPTPServerIP", name: "csptp-listener(general port)", kinds: "csptp", inputs: c08CSPTPInputs, send: udpTo(srvIP, 320),
				sentinel: func(e *c08Env) bool { return c08CSPTPSentinel(e, 320) }},
			{loop: "server.runNTSKEServerQUIC", name: "ntske-quic-server(SCION)", kinds: "ntskequic", inputs: c08SCIONInputs(14460), send: udpTo(srvIP, 14460),
				sentinel: func(e *c08Env) bool { return c08QUICSentinel(e) }},
			{loop: "server.runNTSKEServerTLS", name: "ntske-tls-server", kinds: "ntske", inputs: c08NTSKEInputs, send: c08SendTLS("ntske/1"),
				sentinel: func(e *c08Env) bool {
					c08TLSWG.Wait()
					d, err := fetchNTS(e.srv)
					return err == nil && len(d.Cookie) == 8
				}},
		}
		for _, ep := range eps {
			if r.Only() != "" && !strings.HasPrefix(r.Only(), ep.name) && !strings.Contains(ep.name, "listener") {
				continue
			}
			rng := r.Rng("c08/" + ep.name)
			if err := e.startTarget(ep.kinds); err != nil {
				r.Inconclusive("target: " + err.Error())
				continue
			}
			if !ep.sentinel(e) && !ep.sentinel(e) {
				r.Inconclusive("sentinel of " + ep.name + " not answered on a fresh target: " + e.tgt.Stderr())
				e.tgt.Kill()
				continue
			}
			t0 := time.Now()
			inputs := ep.inputs(r, rng, e)
			if r.Only() != "" {
				var sel []c08Input
				for _, in := range inputs {
					if in.class == r.Only() {
						sel = append(sel, in)
					}
				}
				inputs = sel
			}
			c08Drive(r, ep, e, inputs, func() []c08Input {
				in := ep.inputs(r, r.Rng("c08/"+ep.name), e)
				if r.Only() != "" {
					var sel []c08Input
					for _, x := range in {
						if x.class == r.Only() {
							sel = append(sel, x)
						}
					}
					return sel
				}
				return in
			})
			if strings.HasPrefix(ep.name, "scion-listener") && e.tgt.Alive() && r.Only() == "" {
				c08Burst(r, ep, e)
			}
			// census of the receiving loops: every goroutine that ran the loop at start must still run it
			if ep.loop != "" && e.tgt.Alive() {
				time.Sleep(300 * time.Millisecond) // let the loops return to their read calls
				dump := e.tgt.DumpFull()
				// a goroutine that is running at the moment of the dump shows no frames: it cannot be told apart
				after := strings.Count(dump, ep.loop+"(") + strings.Count(dump, "stack unavailable")
				if ft, err := StartTarget("race", "-ip", e.srv.String(), "-ip2", e.srv2.String(), "-kinds", ep.kinds); err == nil {
					before := strings.Count(ft.DumpFull(), ep.loop+"(")
					if after < before {
						r.Violation(ep.name+"|receiving loop ended|"+fmt.Sprintf("%s goroutines fewer than on a fresh process", ep.loop), "census",
							map[string]any{"loops_on_fresh_process": before, "loops_after_inputs": after})
					} else if before > 0 {
						r.Class("loop-census-complete:" + ep.name)
					}
					r.Set("loops:"+ep.name, after)
				}
			}
			e.tgt.Kill()
			r.Class("endpoint:" + ep.name)
			r.Set("wall_s:"+ep.name, time.Since(t0).Seconds())
			r.Set("inputs:"+ep.name, len(inputs))
		}
		if r.Only() == "" || r.Only() == "keyflood" {
			c08KeyFlood(r, e)
		}
		c08Clients(r, e)
		r.CollectRaces(false, "")
		r.Sample(map[string]any{"input_log": "every input is appended to $VERIF_SCRATCH/c08-inputs.log before it is sent", "example": "ntp-ip-listener nts-ext-length<4 23000000…"})
		r.Assume("loopback; child processes built with -race (checkptr on); sentinel = a well-formed request on the same socket answered (for CSPTP, which never replies: its 'received request' record forwarded by the child)")
		r.Assume("hang verdict = sentinel unanswered three times 5 s while the child is alive; memory-growth = child RSS above 3 GB")
		r.Finish("structure-aware fault enumeration per receiving loop: NTP (every length 0..2049, every first byte), NTS (every extension header's length/type to boundary values incl. 0..3 and beyond the datagram, authenticator nonce/ciphertext lengths, "+
			"cookie TLV types/lengths, short cookie bodies, truncation at every byte, bit flips, valid cookie with bad authenticator), SCION (truncation at every byte, all 256 values of next-header/header-length/path-type/address-type bytes, payload length, "+
			"path meta bytes, one-hop with unset second hop, EPIC, authenticator options of every length 0..44, timestamp option 253 with cmsg-shaped and random bytes, valid and bit-flipped authenticated packets, random option mixes, all 256 SCMP types, echo/traceroute with "+
			"unreversible path types, UDP length, other destination ports, NTS payloads), CSPTP (every length 0..120, message-length mismatches, TLV headers), NTS-KE record streams over TLS (truncation at every byte, every record type x critical bit x body lengths, "+
			"announced bodies that never come, 2000 cookie records), plus random bytes; and hostile responses to the real clients. distinct_nontrivial = distinct (endpoint, class, first 64 bytes) inputs that were followed by an answered sentinel", 20)
	})
}

var c08Seq atomic.Uint32

func c08CSPTPSentinel(e *c08Env, port uint16) bool {
	e.tgt.DrainLogs()
	seq := uint16(50000 + c08Seq.Add(1)%15000) // generated inputs use sequence ids below 50000
	var b []byte
	if port == 319 {
		b = make([]byte, 44)
		csptp.EncodeMessage(b, &csptp.Message{SdoIDMessageType: csptp.MessageTypeSync, PTPVersion: csptp.PTPVersion, MessageLength: 44, FlagField: csptp.FlagTwoStep | csptp.FlagUnicast, SequenceID: seq})
	} else {
		tlv := csptp.RequestTLV{Type: csptp.TLVTypeOrganizationExtension,
			OrganizationID:      [3]uint8{csptp.OrganizationIDMeinberg0, csptp.OrganizationIDMeinberg1, csptp.OrganizationIDMeinberg2},
			OrganizationSubType: [3]uint8{csptp.OrganizationSubTypeRequest0, csptp.OrganizationSubTypeRequest1, csptp.OrganizationSubTypeRequest2}}
		n := 44 + csptp.EncodedRequestTLVLength(&tlv)
		tlv.Length = uint16(n - 44)
		b = make([]byte, n)
		csptp.EncodeMessage(b[:44], &csptp.Message{SdoIDMessageType: csptp.MessageTypeFollowUp, PTPVersion: csptp.PTPVersion, MessageLength: uint16(n), FlagField: csptp.FlagUnicast, SequenceID: seq})
		csptp.EncodeRequestTLV(b[44:], &tlv)
	}
	if err := e.uc.Send(netip.AddrPortFrom(e.srv, port), b); err != nil {
		return false
	}
	return e.tgt.WaitLog(fmt.Sprintf("from=%s seq=%d", e.uc.Local().String(), seq), 5*time.Second)
}

// c08QUICSentinel performs a complete NTS key exchange over QUIC/SCION (same ISD-AS, empty path).
func c08QUICSentinel(e *c08Env) bool {
	f := ntske.Fetcher{Log: slog.New(slog.DiscardHandler)}
	f.TLSConfig = tls.Config{InsecureSkipVerify: true, ServerName: e.srv.String(), MinVersion: tls.VersionTLS13, NextProtos: []string{"ntske/1"}}
	f.QUIC.Enabled = true
	f.QUIC.LocalAddr = udp.UDPAddr{IA: c08LIA, Host: &net.UDPAddr{IP: e.cli.AsSlice()}}
	f.QUIC.RemoteAddr = udp.UDPAddr{IA: c08LIA, Host: &net.UDPAddr{IP: e.srv.AsSlice(), Port: ntske.ServerPortSCION}}
	done := make(chan bool, 1)
	go func() {
		defer func() {
			if recover() != nil {
				done <- false
			}
		}()
		ctx, cancel := context.WithTimeout(context.Background(), 5*time.Second)
		defer cancel()
		d, err := f.FetchData(ctx)
		done <- err == nil && len(d.Cookie) == 8
	}()
	select {
	case ok := <-done:
		return ok
	case <-time.After(8 * time.Second):
		return false
	}
}

// c08Burst: many sockets at once, every request with a packet authenticator option and a source
// ISD-AS not seen before (so that every listener goroutine consults and fills its key cache at the
// same time), followed by the sentinel. State shared between the listener goroutines without
// synchronisation shows as a fatal error of the Go runtime (or as a race report in the evidence).
// c08KeyFlood: unauthenticated datagrams must not make the listener's memory grow with their number.
// A plain-build listener first receives a reference batch of datagrams that all claim one source
// ISD-AS and carry a time-service authenticator option with a random MAC, then a batch of the same
// size in which every datagram claims another source ISD-AS. Every 48 datagrams a sentinel is
// awaited, so that the datagrams have been handled. The oracle compares the growth of the resident
// set over the two batches: what the listener remembers per unauthentic datagram shows as the difference.
func c08KeyFlood(r *ev.Run, e *c08Env) {
	t, err := StartTargetEnv("plain", nil, "-ip", e.srv.String(), "-ip2", e.srv2.String(), "-kinds", "scion")
	if err != nil {
		r.Inconclusive("key flood: " + err.Error())
		return
	}
	defer t.Kill()
	uc, err := peer.NewUDPClient(e.cli)
	if err != nil {
		r.Inconclusive("key flood: " + err.Error())
		return
	}
	defer uc.Close()
	dst := netip.AddrPortFrom(e.srv, 10123)
	rng := rand.New(rand.NewPCG(uint64(r.Seed()), 0xf100d))
	p := &peer.SCIONPkt{SrcIA: c08RIA, DstIA: c08LIA, SrcHost: e.cli, DstHost: e.srv, SrcPort: uc.Local().Port(), DstPort: 10123,
		Path: peer.SCIONPath(rng, 2), Payload: peer.NTPRequest(peer.UniqueTime64()), FlowID: 1}
	p.E2E = []*slayers.EndToEndOption{peer.NewAuthOption(1<<17|1<<16|123, 0)}
	for i := 12; i < len(p.E2E[0].OptData); i++ {
		p.E2E[0].OptData[i] = byte(rng.IntN(256)) // a MAC that does not verify
	}
	base, err := p.Serialize()
	if err != nil {
		r.Inconclusive("key flood: " + err.Error())
		return
	}
	sentinel := func() bool {
		for a := 0; a < 60; a++ { // a sentinel lost in the flood is repeated after 50 ms
			tx := peer.UniqueTime64()
			b, _ := (&peer.SCIONPkt{SrcIA: c08LIA, DstIA: c08LIA, SrcHost: e.cli, DstHost: e.srv, SrcPort: uc.Local().Port(), DstPort: 10123, Payload: peer.NTPRequest(tx)}).Serialize()
			if uc.Send(dst, b) != nil {
				return false
			}
			t0 := time.Now()
			_, hit := uc.ReadUntil(50*time.Millisecond, func(d peer.Datagram) bool { return peer.NTPOrigin(scionUnwrap(d.Data)) == tx })
			if os.Getenv("VERIF_DEBUG") != "" {
				fmt.Fprintf(os.Stderr, "keyflood sentinel attempt %d: hit=%v after %v\n", a, hit != nil, time.Since(t0))
			}
			if hit != nil {
				return true
			}
		}
		return false
	}
	n := r.Pick(300000, 3000000)
	if v := os.Getenv("VERIF_KEYFLOOD_N"); v != "" {
		fmt.Sscan(v, &n)
	}
	batch := func(distinct bool, salt uint64) (ok bool) {
		b := append([]byte{}, base...)
		for k := 0; k < n; k++ {
			if distinct {
				// source ISD-AS field of the address header (bytes 20..27): ISD 16 bits, AS 48 bits
				binary.BigEndian.PutUint64(b[20:28], uint64(1+k%60000)<<48|(salt<<32|uint64(k)+1)&(1<<48-1))
			}
			_ = uc.Send(dst, b)
			if k%48 == 47 && !sentinel() {
				return false
			}
		}
		return sentinel()
	}
	if !sentinel() {
		r.Inconclusive("key flood: listener does not answer")
		return
	}
	rssA := t.RSSBytes()
	ok1 := batch(false, 0)
	rssB := t.RSSBytes()
	ok2 := ok1 && batch(true, uint64(r.Seed())&0xffff)
	rssC := t.RSSBytes()
	r.Eval(2 * int64(n))
	fmt.Printf("key flood: %d datagrams per batch, resident set %d -> %d (one source ISD-AS) -> %d (distinct source ISD-ASes)\n", n, rssA, rssB, rssC)
	w := map[string]any{"datagrams_per_batch": n, "rss_before": rssA, "rss_after_batch_with_one_source_isd_as": rssB, "rss_after_batch_with_distinct_source_isd_ases": rssC}
	switch {
	case !t.Alive():
		first, frame := t.ExitInfo()
		w["first_line"], w["stderr"] = first, t.Stderr()
		r.Violation("scion-listener(service port)|panic:"+c08Sig(frame)+"|flood of unauthentic datagrams with authenticator options", "keyflood", w)
	case !ok1 || !ok2:
		w["goroutines"] = t.Dump()
		r.Violation("scion-listener(service port)|hang|flood of unauthentic datagrams with authenticator options", "keyflood", w)
	case (rssC-rssB)-(rssB-rssA) > int64(n)*64 && rssC-rssB > 24<<20:
		// more than 64 bytes remembered per unauthentic datagram (and more than 24 MiB in total)
		w["bytes_kept_per_datagram"] = (rssC - rssB - (rssB - rssA)) / int64(n)
		r.Violation("scion-listener(service port)|memory-growth|unauthentic datagrams claiming distinct source ISD-ASes", "keyflood", w)
	default:
		r.Class("scion-listener(service port):memory-flat:flood of unauthentic datagrams claiming distinct source ISD-ASes")
		r.Set("keyflood_rss_growth_bytes(reference,distinct)", []int64{rssB - rssA, rssC - rssB})
	}
}

func c08Burst(r *ev.Run, ep *c08Endpoint, e *c08Env) {
	var wg sync.WaitGroup
	port := uint16(10123)
	if strings.Contains(ep.name, "end-host") {
		port = 30041
	}
	for s := 0; s < 16; s++ {
		wg.Add(1)
		go func(s int) {
			defer wg.Done()
			uc, err := peer.NewUDPClient(e.cli)
			if err != nil {
				return
			}
			defer uc.Close()
			rng := rand.New(rand.NewPCG(uint64(r.Seed()), uint64(1000+s)))
			for k := 0; k < r.Pick(150, 1500); k++ {
				ia := addr.MustIAFrom(addr.ISD(1+rng.IntN(60000)), addr.AS(1+rng.Int64N(1<<40)))
				p := &peer.SCIONPkt{SrcIA: ia, DstIA: c08LIA, SrcHost: e.cli, DstHost: e.srv, SrcPort: uc.Local().Port(), DstPort: 10123,
					Path: peer.SCIONPath(rng, 2), Payload: peer.NTPRequest(peer.UniqueTime64()), FlowID: 1}
				p.E2E = []*slayers.EndToEndOption{peer.NewAuthOption(1<<17|1<<16|123, 0)}
				var b []byte
				if k%2 == 0 {
					b, err = peer.SignPkt(p, make([]byte, 16))
				} else {
					b, err = p.Serialize() // zero MAC: rejected after the key lookup
				}
				if err == nil {
					_ = uc.Send(netip.AddrPortFrom(e.srv, port), b)
				}
				if k%8 == 7 {
					uc.Drain(time.Millisecond)
				}
			}
		}(s)
	}
	wg.Wait()
	r.Eval(16 * int64(r.Pick(150, 1500)))
	ok := false
	for a := 0; a < 3 && e.tgt.Alive() && !ok; a++ {
		ok = ep.sentinel(e)
	}
	if ok {
		r.Class(ep.name + ":survived:concurrent-authenticated-burst")
		return
	}
	w := map[string]any{"endpoint": ep.name}
	if !e.tgt.Alive() {
		first, frame := e.tgt.ExitInfo()
		w["first_line"], w["frame"], w["stderr"] = first, frame, e.tgt.Stderr()
		kind := "panic:" + c08Sig(frame)
		if strings.Contains(e.tgt.Stderr(), "concurrent map") {
			kind = "fatal error: concurrent map access"
		}
		r.Violation(ep.name+"|"+kind+"|concurrent authenticated requests from unseen ISD-ASes", "burst", w)
	} else {
		w["goroutines"] = e.tgt.Dump()
		r.Violation(ep.name+"|hang|concurrent authenticated requests from unseen ISD-ASes", "burst", w)
	}
	e.tgt.Kill()
	_ = e.startTarget(ep.kinds)
}
