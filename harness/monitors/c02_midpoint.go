package monitors

import (
	"errors"
	"fmt"
	"math/big"
	"math/rand/v2"
	"slices"
	"sort"
	"time"

	"example.com/scion-time/base/timemath"
	"example.com/scion-time/core/measurements"

	"verif/harness/internal/ev"
)

// C02 — fault-tolerant midpoint and median stay within the correct values.

const c02Lim = int64(1)<<62 - 1

var c02Pool = []int64{0, 1, -1, 2, -2, c02Lim, -c02Lim, c02Lim - 1, -c02Lim + 1,
	1 << 31, -(1 << 31), 1<<61 + 12345, -(1<<61 + 999), 1e9, -1e9, 500, -500}

func c02Val(rng *rand.Rand) int64 {
	switch rng.IntN(6) {
	case 0:
		return c02Pool[rng.IntN(len(c02Pool))]
	case 1:
		return rng.Int64N(21) - 10
	case 2:
		return rng.Int64N(2*c02Lim+1) - c02Lim
	case 3:
		return rng.Int64N(2e9) - 1e9
	case 4:
		s := int64(1)
		if rng.IntN(2) == 0 {
			s = -1
		}
		return s * (c02Lim - rng.Int64N(1000))
	default:
		return rng.Int64N(2000001) - 1000000
	}
}

type c02Case struct {
	N      int     `json:"n"`
	Vals   []int64 `json:"values"`
	Faulty []int   `json:"faulty_positions"`
	Shape  string  `json:"shape"`
}

func c02Gen(rng *rand.Rand, maxN int) c02Case {
	var n int
	switch rng.IntN(4) {
	case 0:
		n = 1 + rng.IntN(10)
	case 1:
		n = 1 + rng.IntN(maxN)
	default:
		n = 1 + rng.IntN(min(maxN, 40))
	}
	f := (n - 1) / 3
	c := c02Case{N: n, Vals: make([]int64, n)}
	// correct values
	shape := rng.IntN(5)
	base := c02Val(rng)
	for i := range c.Vals {
		switch shape {
		case 0:
			c.Vals[i] = c02Val(rng)
		case 1: // tight cluster
			v := base/2 + rng.Int64N(7) - 3
			c.Vals[i] = v
		case 2: // duplicates
			c.Vals[i] = c02Pool[rng.IntN(4)]
		case 3: // runs
			c.Vals[i] = base/2 + int64(i/3)
		default:
			c.Vals[i] = rng.Int64N(2001) - 1000
		}
	}
	// faulty positions: up to f, adversarial placement
	nf := 0
	if f > 0 {
		switch rng.IntN(4) {
		case 0:
			nf = f
		case 1:
			nf = rng.IntN(f + 1)
		default:
			nf = f
		}
	}
	perm := rng.Perm(n)
	c.Faulty = append([]int{}, perm[:nf]...)
	sort.Ints(c.Faulty)
	mode := rng.IntN(5)
	c.Shape = fmt.Sprintf("shape%d/faulty%d", shape, mode)
	for k, p := range c.Faulty {
		switch mode {
		case 0: // all lowest
			c.Vals[p] = -c02Lim + rng.Int64N(5)
		case 1: // all highest
			c.Vals[p] = c02Lim - rng.Int64N(5)
		case 2: // split
			if k%2 == 0 {
				c.Vals[p] = -c02Lim
			} else {
				c.Vals[p] = c02Lim
			}
		case 3: // inside
			c.Vals[p] = c02Val(rng)
		default: // just outside the cluster
			c.Vals[p] = c.Vals[perm[n-1]] + rng.Int64N(3) - 1
			if c.Vals[p] > c02Lim {
				c.Vals[p] = c02Lim
			}
			if c.Vals[p] < -c02Lim {
				c.Vals[p] = -c02Lim
			}
		}
	}
	return c
}

func c02Recover(f func()) (p any) {
	defer func() { p = recover() }()
	f()
	return nil
}

func multisetEq(a, b []int64) bool {
	if len(a) != len(b) {
		return false
	}
	x := slices.Clone(a)
	y := slices.Clone(b)
	slices.Sort(x)
	slices.Sort(y)
	return slices.Equal(x, y)
}

func init() {
	register("C02", "exploration", func(r *ev.Run) {
		nCases := r.Pick(6000, 400000)
		maxN := r.Pick(64, 1024)
		nPerm := 10
		type res struct {
			evals int64
		}
		const chunk = 200
		nChunks := (nCases + chunk - 1) / chunk
		parallel(nChunks, func(w, ci int) {
			rng := r.Rng(fmt.Sprintf("c02/%d", ci))
			var evals int64
			for k := 0; k < chunk; k++ {
				id := fmt.Sprintf("%d.%d", ci, k)
				c := c02Gen(rng, maxN)
				if r.Only() != "" && r.Only() != id {
					continue
				}
				evals += c02Check(r, rng, id, c, nPerm)
			}
			r.Eval(evals)
		})
		// Midpoint on pairs (exhaustive over the boundary pool + random)
		rng := r.Rng("c02/midpoint")
		var n int64
		chk := func(x, y int64) {
			n++
			var m time.Duration
			if p := c02Recover(func() { m = timemath.Midpoint(time.Duration(x), time.Duration(y)) }); p != nil {
				r.Violation("timemath.Midpoint|panic", fmt.Sprintf("mid:%d,%d", x, y), fmt.Sprint(p))
				return
			}
			lo, hi := min(x, y), max(x, y)
			if int64(m) < lo || int64(m) > hi {
				r.Violation("timemath.Midpoint|wrong-value:outside [x,y]", fmt.Sprintf("mid:%d,%d", x, y),
					map[string]any{"x": x, "y": y, "got": int64(m)})
			}
		}
		for _, x := range c02Pool {
			for _, y := range c02Pool {
				chk(x, y)
			}
		}
		for i := 0; i < r.Pick(20000, 2000000); i++ {
			chk(c02Val(rng), c02Val(rng))
		}
		r.Eval(n)
		r.Class("midpoint-pairs")
		r.Assume("offsets restricted to |v| < 2^62 ns as the property states")
		r.Finish("seeded multisets of n in 1..maxN offsets (boundary pool ±(2^62-1), duplicates, clusters, runs, uniform) with <= floor((n-1)/3) "+
			"positions overwritten adversarially (all lowest / all highest / split / inside / adjacent); each multiset is evaluated sorted, reversed and under random permutations, "+
			"for timemath.{FaultTolerantMidpoint,Median} and measurements.{FaultTolerantMidpoint,Median}; oracle in math/big: result within [min correct,max correct] and within "+
			"[s[f],s[n-1-f]] (the bound implied for every choice of faulty positions), median within [min,max], equal across permutations, slice afterwards a permutation of the input, "+
			"Error nil, timestamp bracketed by some pair of input measurements that also brackets the returned offset. distinct_nontrivial counts distinct multisets (hashed) with n>=2", 8)
	})
}

func c02Check(r *ev.Run, rng *rand.Rand, id string, c c02Case, nPerm int) int64 {
	n := c.N
	f := (n - 1) / 3
	sorted := slices.Clone(c.Vals)
	slices.Sort(sorted)
	isFaulty := make([]bool, n)
	for _, p := range c.Faulty {
		isFaulty[p] = true
	}
	var minC, maxC int64
	first := true
	for i, v := range c.Vals {
		if isFaulty[i] {
			continue
		}
		if first || v < minC {
			minC = v
		}
		if first || v > maxC {
			maxC = v
		}
		first = false
	}
	lo, hi := sorted[f], sorted[n-1-f]
	if n >= 2 {
		r.Distinct(fmt.Sprint(sorted, c.Faulty))
	}
	r.Class(fmt.Sprintf("n%%3=%d,f=%s", n%3, fbucket(f)))
	r.Class("gen:" + c.Shape)
	if len(c.Faulty) > 0 {
		r.Class("with-faulty")
	}
	if lo != hi {
		r.Class("ftm-nondegenerate")
	}
	if big.NewInt(0).Sub(big.NewInt(hi), big.NewInt(lo)).BitLen() >= 62 {
		r.Class("ftm-span>=2^61")
	}
	// timestamps for the measurement variant
	base := time.Unix(1700000000, 0).UTC()
	tss := make([]time.Time, n)
	tsMode := rng.IntN(6)
	for i := range tss {
		switch rng.IntN(3) {
		case 0:
			tss[i] = base.Add(time.Duration(rng.Int64N(1e12)))
		case 1:
			tss[i] = base.Add(time.Duration(rng.Int64N(10)))
		default:
			tss[i] = base.Add(-time.Duration(rng.Int64N(1e15)))
		}
		switch tsMode { // timestamps far from the present, and the zero time a local clock reports
		case 1:
			if rng.IntN(2) == 0 {
				tss[i] = time.Time{}
			}
		case 2:
			tss[i] = time.Time{}
		case 3:
			tss[i] = time.Date(2200+rng.IntN(200), time.Month(1+rng.IntN(12)), 1+rng.IntN(28), rng.IntN(24), 0, 0, rng.IntN(1e9), time.UTC)
		case 4:
			tss[i] = time.Date(1+rng.IntN(9998), time.Month(1+rng.IntN(12)), 1+rng.IntN(28), rng.IntN(24), rng.IntN(60), rng.IntN(60), rng.IntN(1e9), time.UTC)
		}
	}
	var evals int64
	var ftm0, med0 int64
	var mftm0, mmed0 measurements.Measurement
	report := func(fn, kind string, detail any) {
		r.Violation(fn+"|"+kind, id, map[string]any{"case": c, "detail": detail})
	}
	for pi := 0; pi < nPerm; pi++ {
		var perm []int
		switch pi {
		case 0:
			perm = make([]int, n)
			for i := range perm {
				perm[i] = i
			}
		case 1: // sorted
			perm = make([]int, n)
			for i := range perm {
				perm[i] = i
			}
			sort.SliceStable(perm, func(a, b int) bool { return c.Vals[perm[a]] < c.Vals[perm[b]] })
		case 2: // reversed
			perm = make([]int, n)
			for i := range perm {
				perm[i] = i
			}
			sort.SliceStable(perm, func(a, b int) bool { return c.Vals[perm[a]] > c.Vals[perm[b]] })
		default:
			perm = rng.Perm(n)
		}
		in := make([]int64, n)
		for i, p := range perm {
			in[i] = c.Vals[p]
		}
		// --- timemath.FaultTolerantMidpoint
		ds := make([]time.Duration, n)
		for i, v := range in {
			ds[i] = time.Duration(v)
		}
		var got time.Duration
		if p := c02Recover(func() { got = timemath.FaultTolerantMidpoint(ds) }); p != nil {
			report("timemath.FaultTolerantMidpoint", "panic", fmt.Sprint(p))
			return evals
		}
		evals++
		g := int64(got)
		if g < lo || g > hi {
			report("timemath.FaultTolerantMidpoint", "wrong-value:outside [s[f],s[n-1-f]]", map[string]any{"got": g, "lo": lo, "hi": hi, "input": in})
		} else if g < minC || g > maxC {
			report("timemath.FaultTolerantMidpoint", "wrong-value:outside correct range", map[string]any{"got": g, "minCorrect": minC, "maxCorrect": maxC})
		}
		if pi == 0 {
			ftm0 = g
		} else if g != ftm0 {
			report("timemath.FaultTolerantMidpoint", "wrong-value:order dependent", map[string]any{"got": g, "first": ftm0, "input": in})
		}
		after := make([]int64, n)
		for i, d := range ds {
			after[i] = int64(d)
		}
		if !multisetEq(after, in) {
			report("timemath.FaultTolerantMidpoint", "state:slice not a permutation of input", map[string]any{"after": after, "input": in})
		}
		// --- timemath.Median
		for i, v := range in {
			ds[i] = time.Duration(v)
		}
		if p := c02Recover(func() { got = timemath.Median(ds) }); p != nil {
			report("timemath.Median", "panic", fmt.Sprint(p))
			return evals
		}
		evals++
		g = int64(got)
		if g < sorted[0] || g > sorted[n-1] {
			report("timemath.Median", "wrong-value:outside [min,max]", map[string]any{"got": g, "min": sorted[0], "max": sorted[n-1], "input": in})
		}
		if pi == 0 {
			med0 = g
		} else if g != med0 {
			report("timemath.Median", "wrong-value:order dependent", map[string]any{"got": g, "first": med0, "input": in})
		}
		for i, d := range ds {
			after[i] = int64(d)
		}
		if !multisetEq(after, in) {
			report("timemath.Median", "state:slice not a permutation of input", map[string]any{"after": after, "input": in})
		}
		// --- measurements
		// every second permutation hands in measurements some of which carry an error of an
		// earlier failure (the result's error must be nil whatever the inputs' error fields say)
		withErr := pi%2 == 1
		inErr := func(p int) error {
			if withErr && (c.Vals[p]^int64(p))&3 == 0 {
				return errC02Input
			}
			return nil
		}
		mk := func() []measurements.Measurement {
			ms := make([]measurements.Measurement, n)
			for i, p := range perm {
				ms[i] = measurements.Measurement{Timestamp: tss[p], Offset: time.Duration(c.Vals[p]), Error: inErr(p)}
			}
			return ms
		}
		// timestamp oracle: the statement speaks of "the two selected measurements" without
		// fixing the selection, so the check is existential: some pair of input measurements
		// brackets both the returned offset and the returned timestamp (all pairs for n<=48,
		// otherwise only the global timestamp range).
		tsOK := func(off int64, ts time.Time) bool {
			if n > 48 {
				a, b := tss[0], tss[0]
				for _, t := range tss {
					if t.Before(a) {
						a = t
					}
					if t.After(b) {
						b = t
					}
				}
				return !ts.Before(a) && !ts.After(b)
			}
			for i := 0; i < n; i++ {
				for j := i; j < n; j++ {
					oa, ob := min(c.Vals[i], c.Vals[j]), max(c.Vals[i], c.Vals[j])
					if off < oa || off > ob {
						continue
					}
					ta, tb := tss[i], tss[j]
					if ta.After(tb) {
						ta, tb = tb, ta
					}
					if !ts.Before(ta) && !ts.After(tb) {
						return true
					}
				}
			}
			return false
		}
		checkPerm := func(fn string, ms []measurements.Measurement) {
			type pr struct {
				o  int64
				t  int64
				ns int
				e  int
			}
			a := make([]pr, n)
			b := make([]pr, n)
			ecode := func(e error) int {
				switch e {
				case nil:
					return 0
				case errC02Input:
					return 1
				}
				return 2
			}
			for i := range ms {
				a[i] = pr{int64(ms[i].Offset), ms[i].Timestamp.Unix(), ms[i].Timestamp.Nanosecond(), ecode(ms[i].Error)}
				b[i] = pr{c.Vals[i], tss[i].Unix(), tss[i].Nanosecond(), ecode(inErr(i))}
			}
			less := func(x, y pr) int {
				if x.o != y.o {
					if x.o < y.o {
						return -1
					}
					return 1
				}
				if x.t < y.t {
					return -1
				} else if x.t > y.t {
					return 1
				}
				if x.ns != y.ns {
					return x.ns - y.ns
				}
				return x.e - y.e
			}
			slices.SortFunc(a, less)
			slices.SortFunc(b, less)
			if !slices.Equal(a, b) {
				report(fn, "state:slice not a permutation of input", nil)
			}
		}
		if withErr {
			r.Class("measurements:inputs carrying errors")
		}
		ms := mk()
		var m measurements.Measurement
		if p := c02Recover(func() { m = measurements.FaultTolerantMidpoint(ms) }); p != nil {
			report("measurements.FaultTolerantMidpoint", "panic", fmt.Sprint(p))
			return evals
		}
		evals++
		g = int64(m.Offset)
		if g < lo || g > hi {
			report("measurements.FaultTolerantMidpoint", "wrong-value:outside [s[f],s[n-1-f]]", map[string]any{"got": g, "lo": lo, "hi": hi})
		} else if g < minC || g > maxC {
			report("measurements.FaultTolerantMidpoint", "wrong-value:outside correct range", map[string]any{"got": g})
		}
		if m.Error != nil {
			report("measurements.FaultTolerantMidpoint", "wrong-value:error not nil", nil)
		}
		if !tsOK(g, m.Timestamp) {
			report("measurements.FaultTolerantMidpoint", "wrong-value:timestamp not between two measurements bracketing the offset",
				map[string]any{"got": m.Timestamp, "offset": g})
		}
		if pi == 0 {
			mftm0 = m
		} else if m.Offset != mftm0.Offset {
			report("measurements.FaultTolerantMidpoint", "wrong-value:order dependent", map[string]any{"got": g, "first": int64(mftm0.Offset)})
		} else if !m.Timestamp.Equal(mftm0.Timestamp) {
			report("measurements.FaultTolerantMidpoint", "wrong-value:combined timestamp depends on the order of the inputs", map[string]any{"got": m.Timestamp.String(), "first": mftm0.Timestamp.String()})
		}
		checkPerm("measurements.FaultTolerantMidpoint", ms)
		ms = mk()
		if p := c02Recover(func() { m = measurements.Median(ms) }); p != nil {
			report("measurements.Median", "panic", fmt.Sprint(p))
			return evals
		}
		evals++
		g = int64(m.Offset)
		if g < sorted[0] || g > sorted[n-1] {
			report("measurements.Median", "wrong-value:outside [min,max]", map[string]any{"got": g})
		}
		if m.Error != nil {
			report("measurements.Median", "wrong-value:error not nil", nil)
		}
		if !tsOK(g, m.Timestamp) {
			report("measurements.Median", "wrong-value:timestamp not between two measurements bracketing the offset",
				map[string]any{"got": m.Timestamp, "offset": g})
		}
		if pi == 0 {
			mmed0 = m
		} else if m.Offset != mmed0.Offset {
			report("measurements.Median", "wrong-value:order dependent", map[string]any{"got": g, "first": int64(mmed0.Offset)})
		} else if !m.Timestamp.Equal(mmed0.Timestamp) {
			report("measurements.Median", "wrong-value:combined timestamp depends on the order of the inputs", map[string]any{"got": m.Timestamp.String(), "first": mmed0.Timestamp.String()})
		}
		checkPerm("measurements.Median", ms)
	}
	if rng.IntN(2000) == 0 {
		r.Sample(map[string]any{"case": c, "ftm": ftm0, "median": med0, "bounds": []int64{lo, hi}})
	}
	return evals
}

var errC02Input = errors.New("error of an earlier failed measurement")

func fbucket(f int) string {
	switch {
	case f == 0:
		return "0"
	case f == 1:
		return "1"
	case f < 5:
		return "2-4"
	case f < 22:
		return "5-21"
	default:
		return ">=22"
	}
}
