package monitors

import (
	"encoding/binary"
	"fmt"
	"math/rand/v2"
	"net"
	"net/netip"
	"os"
	"runtime"
	"slices"
	"strings"
	"sync"
	"sync/atomic"
	"time"

	"github.com/anishathalye/porcupine"
	"github.com/scionproto/scion/pkg/addr"
	"github.com/scionproto/scion/pkg/slayers"
	"golang.org/x/net/ipv4"

	"example.com/scion-time/core/server"
	"example.com/scion-time/net/ntp"

	"verif/harness/internal/ev"
	"verif/harness/internal/peer"
)

// C07 — server per-client state stays bounded, consistent and race-free.
//   leg c07struct (plain build): structural invariants after every operation on small
//       stores, the in-order ranking clause, and the capacity/eviction behaviour at 2^20 clients
//   leg c07conc (race build): concurrent handle/update histories checked for linearizability
//       with porcupine against the code's own sequential semantics, race detector on

func c07Req(rng *rand.Rand, origin ntp.Time64, inter bool, step int) ntp.Packet {
	req := ntp.Packet{}
	req.SetVersion(4)
	req.SetMode(ntp.ModeClient)
	req.TransmitTime = ntp.Time64{Seconds: 4000000000, Fraction: uint32(step)*16 + uint32(rng.IntN(16))}
	if inter {
		req.OriginTime = origin
		req.ReceiveTime = ntp.Time64{Seconds: 4000000001, Fraction: uint32(step)}
	}
	return req
}

func c07Struct(args []string) {
	r := ev.NewLeg("C07")
	clk := registerScriptedClock()
	base := time.Date(2026, 5, 6, 7, 8, 9, 0, time.UTC).UnixNano()

	// ---- (a) small stores: invariant after every operation, in-order ranking clause
	nHist := r.Pick(1500, 60000)
	for h := 0; h < nHist; h++ {
		id := fmt.Sprintf("a%d", h)
		if r.Only() != "" && r.Only() != id {
			continue
		}
		rng := r.Rng("c07a/" + id)
		server.VerifReset()
		nC := 1 + rng.IntN(12)
		type cst struct {
			id      string
			inOrder bool
			lastRX  int64
			rxs     []time.Time // returned rx times with pending update
			txs     []time.Time
			last    ntp.Time64
			has     bool
		}
		cs := make([]*cst, nC)
		for i := range cs {
			cs[i] = &cst{id: fmt.Sprintf("c%d", i), inOrder: rng.IntN(2) == 0}
		}
		var trace []string
		for step := 0; step < 80; step++ {
			c := cs[rng.IntN(nC)]
			if len(c.rxs) > 0 && rng.IntN(3) == 0 {
				k := rng.IntN(len(c.rxs))
				rx, tx := c.rxs[k], c.txs[k]
				c.rxs = append(c.rxs[:k], c.rxs[k+1:]...)
				c.txs = append(c.txs[:k], c.txs[k+1:]...)
				arg := tx // lost
				kind := "lost"
				if rng.IntN(4) != 0 {
					arg = rx.Add(time.Duration(1000 + rng.Int64N(100000)))
					kind = "stamp"
				}
				trace = append(trace, fmt.Sprintf("update %s rx=%d %s", c.id, rx.UnixNano()-base, kind))
				server.VerifUpdateTXTimestamp(c.id, rx, tx, &arg)
			} else {
				var rxIn int64
				if c.inOrder {
					rxIn = c.lastRX + 1 + rng.Int64N(1000)
					if rng.IntN(3) == 0 {
						// equal receive timestamps (a coarse timestamp source) are in timestamp order too
						rxIn = c.lastRX
					}
					if c.lastRX == 0 {
						rxIn = base + rng.Int64N(1e6)
					}
				} else {
					rxIn = base + rng.Int64N(40)
				}
				c.lastRX = max(c.lastRX, rxIn)
				clk.now.Store(rxIn + rng.Int64N(2000) - 500)
				req := c07Req(rng, c.last, c.has && rng.IntN(2) == 0, step)
				rxt := time.Unix(0, rxIn).UTC()
				var txt time.Time
				var resp ntp.Packet
				server.VerifHandleRequest(c.id, &req, &rxt, &txt, &resp)
				c.last, c.has = resp.ReceiveTime, true
				c.rxs = append(c.rxs, rxt)
				c.txs = append(c.txs, txt)
				trace = append(trace, fmt.Sprintf("handle %s rx=%d", c.id, rxIn-base))
			}
			r.Eval(1)
			if _, _, err := server.VerifCheckStore(); err != nil {
				r.Violation("store|state:"+firstWord(err.Error())+"|small store", id, map[string]any{"trace": trace, "error": err.Error()})
				break
			}
			for _, c := range cs {
				if !c.inOrder {
					continue
				}
				recs, qval, ok := server.VerifSnapshot(c.id)
				if !ok {
					continue
				}
				mx := recs[0].RX
				for _, rc := range recs {
					if rc.RX.After(mx) {
						mx = rc.RX
					}
				}
				if qval != mx {
					r.Violation("store|state:client with in-order requests not ranked by exactly its most recent stored exchange|small store", id,
						map[string]any{"trace": trace, "client": c.id, "qval": t64u(qval), "max_rx": t64u(mx)})
				}
				r.Class("in-order-client-ranked-by-latest")
			}
		}
		r.Distinct(id)
	}
	r.Class("small-store-invariants")

	// ---- (b) capacity and eviction at 2^20 clients
	for _, eraCase := range []bool{false, true} {
		if r.Only() != "" {
			break
		}
		server.VerifReset()
		rng := r.Rng("c07b")
		capN := server.VerifTSSCap
		fillBase := base + 1e9
		tag := ""
		if eraCase {
			// the store fills while the NTP era rolls over (2036-02-07 06:28:16 UTC): raw timestamps of the
			// later clients are smaller than those of the earlier ones, their activity is not
			fillBase = 2085978496*1e9 - int64(capN)*3/2
			tag = "|across the NTP era boundary"
		}
		t0 := time.Now()
		fillRX := make([]int64, capN)
		for i := 0; i < capN; i++ {
			rxIn := fillBase + int64(i)*3 + rng.Int64N(3)
			fillRX[i] = rxIn
			clk.now.Store(rxIn + 100)
			req := c07Req(rng, ntp.Time64{}, false, i)
			rxt := time.Unix(0, rxIn).UTC()
			var txt time.Time
			var resp ntp.Packet
			server.VerifHandleRequest(fmt.Sprintf("f%d", i), &req, &rxt, &txt, &resp)
			if i%65536 == 0 || i == capN-1 {
				if n := server.VerifLen(); n != i+1 {
					r.Violation("store|state:client count differs from distinct clients served below capacity", "fill", map[string]any{"served": i + 1, "count": n})
					break
				}
			}
		}
		r.Eval(int64(capN))
		r.Set("fill_clients", capN)
		r.Set("fill_wall_s", time.Since(t0).Seconds())
		if _, _, err := server.VerifCheckStore(); err != nil {
			r.Violation("store|state:"+firstWord(err.Error())+"|full store", "fill", err.Error())
		}
		// the clients were served in time order: the least recently active one is the first
		if minID, minQ, ok := server.VerifMinClient(); ok && minID != "f0" {
			r.Violation("store|state:index does not name the least recently active client"+tag, "fill", map[string]any{"index_names": minID, "its_rank": t64u(minQ), "least_recently_active": "f0"})
		}
		nNew := r.Pick(20000, 300000)
		if eraCase {
			nNew = r.Pick(4000, 60000)
		}
		for k := 0; k < nNew; k++ {
			id := fmt.Sprintf("n%d", k)
			minID, minQ, ok := server.VerifMinClient()
			if !ok {
				break
			}
			minT := ntp.TimeFromTime64(minQ, time.Unix(0, fillBase))
			var rxIn int64
			kind := rng.IntN(4)
			switch kind {
			case 0: // older than the least recently active client
				rxIn = minT.UnixNano() - 1 - rng.Int64N(1000)
			case 1: // exactly as recent (same NTP timestamp)
				rxIn = minT.UnixNano()
				if ntp.Time64FromTime(time.Unix(0, rxIn)) != minQ {
					rxIn++
				}
			default: // newer
				rxIn = fillBase + int64(capN)*3 + int64(k)*5 + rng.Int64N(5)
			}
			rx64 := ntp.Time64FromTime(time.Unix(0, rxIn))
			older := t64After(minQ, rx64) // as times; across the era boundary the raw comparison does not apply
			clk.now.Store(rxIn + 50)
			nid := fmt.Sprintf("new%d", k)
			if rng.IntN(10) == 0 { // an existing client instead of a newcomer
				nid = fmt.Sprintf("f%d", rng.IntN(capN))
				if _, _, has := server.VerifSnapshot(nid); !has {
					nid = fmt.Sprintf("new%d", k)
				}
			}
			_, _, existed := server.VerifSnapshot(nid)
			req := c07Req(rng, ntp.Time64{}, false, k)
			rxt := time.Unix(0, rxIn).UTC()
			var txt time.Time
			var resp ntp.Packet
			server.VerifHandleRequest(nid, &req, &rxt, &txt, &resp)
			r.Eval(1)
			n := server.VerifLen()
			_, _, minStill := server.VerifSnapshot(minID)
			_, _, newIn := server.VerifSnapshot(nid)
			w := map[string]any{"newcomer_rx": t64u(rx64), "min_client": minID, "min_qval": t64u(minQ), "count": n, "min_still_there": minStill, "newcomer_stored": newIn}
			if n > capN {
				r.Violation("store|state:more than 2^20 clients kept", id, w)
				break
			}
			if resp.OriginTime != req.TransmitTime || resp.ReceiveTime != ntp.Time64FromTime(rxt) || resp.Mode() != ntp.ModeServer {
				r.Violation("store|wrong-reply:request at capacity not served with a basic reply", id, w)
			}
			switch {
			case existed:
				if n != capN || (!minStill && minID != nid) {
					r.Violation("store|state:request of a known client at capacity changed the client set", id, w)
				}
				r.Class("at-capacity:known-client-served")
			case older:
				if newIn || !minStill || n != capN {
					r.Violation("store|state:newcomer older than the least recently active client was not served statelessly"+tag, id, w)
				}
				r.Class("at-capacity:older-newcomer-stateless")
			default:
				if !newIn || minStill || n != capN {
					r.Violation("store|state:newcomer at least as recent did not replace exactly the least recently active client"+tag, id, w)
				}
				if kind == 1 {
					r.Class("at-capacity:equal-newcomer-evicts-min" + tag)
				} else {
					r.Class("at-capacity:newer-newcomer-evicts-min" + tag)
				}
			}
			if k%4096 == 0 {
				if _, _, err := server.VerifCheckStore(); err != nil {
					r.Violation("store|state:"+firstWord(err.Error())+"|full store", id, err.Error())
					break
				}
			}
			if k < 2 {
				r.Sample(map[string]any{"case": id, "observed": w})
			}
		}
		if _, _, err := server.VerifCheckStore(); err != nil {
			r.Violation("store|state:"+firstWord(err.Error())+"|full store", "end", err.Error())
		}
		r.DistinctN(int64(nNew))
		c07FullConcurrent(r, clk, fillRX, fillBase, nNew, tag)
		server.VerifReset()
	}
	r.FinishLeg()
}

// c07FullConcurrent runs listeners concurrently on the full store: eight serve newcomers that are more
// recent than everybody (each evicts the least recently active client), eight report "no kernel transmit
// timestamp" for the only exchange of clients next in line for eviction (each exchange reported once, as a
// listener does), so that drops and evictions of the same client meet. Judged at quiescence: the walk of
// the store under its own lock, the capacity, and no panic.
func c07FullConcurrent(r *ev.Run, clk *scriptedClock, fillRX []int64, fillBase int64, nNew int, tag string) {
	capN := len(fillRX)
	frontier := 0
	for frontier < capN {
		if _, _, ok := server.VerifSnapshot(fmt.Sprintf("f%d", frontier)); ok {
			break
		}
		frontier++
	}
	if capN-frontier < 200000 {
		r.Class("at-capacity:concurrent-skipped(too few of the filling clients left)")
		return
	}
	var evicted atomic.Int64
	evicted.Store(int64(frontier))
	claimed := make([]atomic.Bool, capN)
	var panics sync.Map
	var nDrop, nHandle atomic.Int64
	perG := r.Pick(6000, 40000)
	var wg sync.WaitGroup
	newBase := fillBase + int64(capN)*3 + int64(nNew)*5 + 1000
	var seq, handlers atomic.Int64
	handlers.Store(8)
	for g := 0; g < 8; g++ {
		wg.Add(2)
		go func(g int) { // listener serving newcomers
			defer wg.Done()
			defer handlers.Add(-1)
			defer func() {
				if p := recover(); p != nil {
					panics.Store(fmt.Sprintf("handle:%v", p), true)
				}
			}()
			rng := rand.New(rand.NewPCG(uint64(g), 7))
			for k := 0; k < perG; k++ {
				n := seq.Add(1)
				rxIn := newBase + n*4
				clk.now.Store(rxIn + 50)
				req := c07Req(rng, ntp.Time64{}, false, k)
				rxt := time.Unix(0, rxIn).UTC()
				var txt time.Time
				var resp ntp.Packet
				server.VerifHandleRequest(fmt.Sprintf("cc%d-%d", g, k), &req, &rxt, &txt, &resp)
				evicted.Add(1)
				nHandle.Add(1)
			}
		}(g)
		go func(g int) { // listener that could not read kernel transmit timestamps
			defer wg.Done()
			defer func() {
				if p := recover(); p != nil {
					panics.Store(fmt.Sprintf("update:%v", p), true)
				}
			}()
			rng := rand.New(rand.NewPCG(uint64(g), 11))
			for handlers.Load() > 0 {
				j := int(evicted.Load()) + rng.IntN(48)
				if j >= capN || claimed[j].Swap(true) {
					runtime.Gosched()
					continue
				}
				rxt := time.Unix(0, fillRX[j]).UTC()
				txt0 := time.Unix(0, fillRX[j]+100).UTC()
				arg := txt0
				server.VerifUpdateTXTimestamp(fmt.Sprintf("f%d", j), rxt, txt0, &arg)
				nDrop.Add(1)
			}
		}(g)
	}
	wg.Wait()
	r.Eval(nHandle.Load() + nDrop.Load())
	r.Set("full_store_concurrent_handles", nHandle.Load())
	r.Set("full_store_concurrent_drops", nDrop.Load())
	bad := false
	panics.Range(func(k, _ any) bool {
		r.Violation("store|panic|concurrent listeners on the full store"+tag, "full-concurrent", map[string]any{"panic": k})
		bad = true
		return false
	})
	if _, _, err := server.VerifCheckStore(); err != nil {
		r.Violation("store|state:"+firstWord(err.Error())+"|after concurrent listeners on the full store", "full-concurrent", err.Error())
		bad = true
	}
	if n := server.VerifLen(); n > capN {
		r.Violation("store|state:more than 2^20 clients kept", "full-concurrent", map[string]any{"count": n})
		bad = true
	}
	if !bad {
		r.Class("at-capacity:concurrent evictions and drops leave a consistent store" + tag)
	}
}

// ---------------------------------------------------------------------------------------
// concurrency leg

type c07In struct {
	Client string
	Kind   int // 0 handle, 1 update, 2 final snapshot
	Req    ntp.Packet
	RX     int64 // handle: rx time in; update: rx time of the exchange
	TX     int64 // update: tx time in
	TX0    int64 // update: software tx time the handler put on record for the exchange
	Clock  int64
}

type c07Out struct {
	Resp  ntp.Packet
	RXOut int64
	TXOut int64
	State string // snapshot ops
}

func c07Encode(id string) string {
	recs, qval, ok := server.VerifSnapshot(id)
	if !ok {
		return ""
	}
	b := make([]byte, 0, 8+16*len(recs))
	b = binary.BigEndian.AppendUint64(b, t64u(qval))
	for _, rc := range recs {
		b = binary.BigEndian.AppendUint64(b, t64u(rc.RX))
		b = binary.BigEndian.AppendUint64(b, t64u(rc.TX))
	}
	return string(b)
}

func c07Decode(s string) (recs []server.VerifRecord, qval ntp.Time64, ok bool) {
	if s == "" {
		return nil, ntp.Time64{}, false
	}
	b := []byte(s)
	qval = u64t(binary.BigEndian.Uint64(b))
	for p := 8; p+16 <= len(b); p += 16 {
		recs = append(recs, server.VerifRecord{RX: u64t(binary.BigEndian.Uint64(b[p:])), TX: u64t(binary.BigEndian.Uint64(b[p+8:]))})
	}
	return recs, qval, true
}

var c07ModelMu sync.Mutex

func c07Apply(in c07In) c07Out {
	var out c07Out
	switch in.Kind {
	case 0:
		theClock.now.Store(in.Clock)
		rxt := time.Unix(0, in.RX).UTC()
		var txt time.Time
		req := in.Req
		server.VerifHandleRequest(in.Client, &req, &rxt, &txt, &out.Resp)
		out.RXOut, out.TXOut = rxt.UnixNano(), txt.UnixNano()
	case 1:
		txt := time.Unix(0, in.TX).UTC()
		server.VerifUpdateTXTimestamp(in.Client, time.Unix(0, in.RX).UTC(), time.Unix(0, in.TX0).UTC(), &txt)
		out.TXOut = txt.UnixNano()
	case 2:
		out.State = c07Encode(in.Client)
	}
	return out
}

// c07Model: the sequential specification is the code's own sequential behaviour, replayed
// on a private state (after the concurrent workload has quiesced).
var c07Model = porcupine.Model{
	Partition: func(history []porcupine.Operation) [][]porcupine.Operation {
		m := map[string][]porcupine.Operation{}
		var keys []string
		for _, op := range history {
			k := op.Input.(c07In).Client
			if _, ok := m[k]; !ok {
				keys = append(keys, k)
			}
			m[k] = append(m[k], op)
		}
		var out [][]porcupine.Operation
		for _, k := range keys {
			out = append(out, m[k])
		}
		return out
	},
	Init: func() any { return "" },
	Step: func(state, input, output any) (bool, any) {
		in, want := input.(c07In), output.(c07Out)
		c07ModelMu.Lock()
		defer c07ModelMu.Unlock()
		server.VerifReset()
		if recs, qval, ok := c07Decode(state.(string)); ok {
			server.VerifLoad(in.Client, recs, qval)
		}
		got := c07Apply(in)
		return got == want, c07Encode(in.Client)
	},
	DescribeOperation: func(input, output any) string {
		in, out := input.(c07In), output.(c07Out)
		switch in.Kind {
		case 0:
			return fmt.Sprintf("handle(%s rx=%d origin=%x) -> rx=%d tx=%d resp.tx=%x", in.Client, in.RX, t64u(in.Req.OriginTime), out.RXOut, out.TXOut, t64u(out.Resp.TransmitTime))
		case 1:
			return fmt.Sprintf("update(%s rx=%d tx0=%d tx=%d) -> %d", in.Client, in.RX, in.TX0, in.TX, out.TXOut)
		}
		return fmt.Sprintf("snapshot(%s) -> %x", in.Client, out.State)
	},
}

func c07Conc(args []string) {
	r := ev.NewLeg("C07")
	registerScriptedClock()
	nHist := r.Pick(250, 4000)
	base := time.Date(2026, 6, 7, 8, 9, 10, 0, time.UTC).UnixNano()
	var overlapTotal, opsTotal int64
	interleavings := map[string]struct{}{}
	for h := 0; h < nHist; h++ {
		id := fmt.Sprintf("c%d", h)
		if r.Only() != "" && r.Only() != id {
			continue
		}
		rng := r.Rng("c07c/" + id)
		server.VerifReset()
		// history size is bounded so that the linearizability check stays tractable (its cost climbs
		// steeply with the number of overlapping operations on one client)
		nG := 2 + rng.IntN(9)
		if rng.IntN(4) == 0 {
			nG = 8 + rng.IntN(9)
		}
		nC := 1 + rng.IntN(3)
		perG := max(1, (12+rng.IntN(24))/(2*nG))
		if nG > 10 {
			nC = 3
		}
		clock := base + int64(h)*1e6 + 500
		theClock.now.Store(clock)
		var ts atomic.Int64
		var mu sync.Mutex
		var ops []porcupine.Operation
		var lastRX [3]atomic.Uint64 // last reply's receive timestamp per client (for interleaved requests)
		var wg sync.WaitGroup
		start := make(chan struct{})
		for g := 0; g < nG; g++ {
			wg.Add(1)
			seed := rng.Uint64()
			go func(g int) {
				defer wg.Done()
				lr := rand.New(rand.NewPCG(seed, uint64(g)))
				<-start
				for k := 0; k < perG; k++ {
					ci := lr.IntN(nC)
					c := fmt.Sprintf("k%d", ci)
					in := c07In{Client: c, Kind: 0, Clock: clock, RX: base + int64(h)*1e6 + lr.Int64N(6)}
					in.Req = c07Req(lr, u64t(lastRX[ci].Load()), lr.IntN(2) == 0, g*100+k)
					call := ts.Add(1)
					out := c07Apply(in)
					ret := ts.Add(1)
					lastRX[ci].Store(t64u(out.Resp.ReceiveTime))
					mu.Lock()
					ops = append(ops, porcupine.Operation{ClientId: g, Input: in, Call: call, Output: out, Return: ret})
					mu.Unlock()
					for y := lr.IntN(4); y > 0; y-- {
						runtime.Gosched()
					}
					if lr.IntN(8) == 0 {
						continue // the listener died before updating: exchange stays pending
					}
					up := c07In{Client: c, Kind: 1, RX: out.RXOut, TX: out.TXOut, TX0: out.TXOut}
					if lr.IntN(4) != 0 {
						up.TX = out.RXOut + 1000 + lr.Int64N(50000)
					}
					call = ts.Add(1)
					uo := c07Apply(up)
					ret = ts.Add(1)
					mu.Lock()
					ops = append(ops, porcupine.Operation{ClientId: g, Input: up, Call: call, Output: uo, Return: ret})
					mu.Unlock()
					if lr.IntN(3) == 0 {
						runtime.Gosched()
					}
				}
			}(g)
		}
		close(start)
		wg.Wait()
		// quiescent: structural invariant and final snapshots tie the end state to the linearization
		if _, _, err := server.VerifCheckStore(); err != nil {
			r.Violation("store|state:"+firstWord(err.Error())+"|after concurrent operations", id, err.Error())
		}
		for ci := 0; ci < nC; ci++ {
			in := c07In{Client: fmt.Sprintf("k%d", ci), Kind: 2}
			call := ts.Add(1)
			out := c07Apply(in)
			ops = append(ops, porcupine.Operation{ClientId: nG, Input: in, Call: call, Output: out, Return: ts.Add(1)})
		}
		// how concurrent was it? count overlapping pairs and fingerprint the interleaving
		var overlap int64
		var fp strings.Builder
		for i := range ops {
			for j := i + 1; j < len(ops); j++ {
				if ops[i].Call < ops[j].Return && ops[j].Call < ops[i].Return {
					overlap++
				}
			}
		}
		{ // the interleaving = order of call/return events of the goroutines
			type evt struct {
				ts int64
				s  string
			}
			var es []evt
			for _, op := range ops {
				k := op.Input.(c07In).Kind
				es = append(es, evt{op.Call, fmt.Sprintf("%d+%d", op.ClientId, k)}, evt{op.Return, fmt.Sprintf("%d-", op.ClientId)})
			}
			slices.SortFunc(es, func(a, b evt) int { return int(a.ts - b.ts) })
			for _, e := range es {
				fp.WriteString(e.s)
				fp.WriteByte(',')
			}
		}
		interleavings[fp.String()] = struct{}{}
		overlapTotal += overlap
		opsTotal += int64(len(ops))
		res, info := porcupine.CheckOperationsVerbose(c07Model, ops, 180*time.Second)
		r.Eval(int64(len(ops)))
		switch res {
		case porcupine.Ok:
			if overlap > 0 {
				r.Class("linearizable:overlapping-operations")
			} else {
				r.Class("linearizable:no-overlap")
			}
		case porcupine.Unknown:
			r.Inconclusive("porcupine timed out on history " + id)
		case porcupine.Illegal:
			var desc []string
			for _, op := range ops {
				desc = append(desc, fmt.Sprintf("[%d..%d] g%d %s", op.Call, op.Return, op.ClientId, c07Model.DescribeOperation(op.Input, op.Output)))
			}
			_ = info
			r.Violation("store|nonlinearizable|concurrent handle/update history", id, map[string]any{"operations": desc})
		}
		if h < 2 {
			var desc []string
			for _, op := range ops[:min(len(ops), 10)] {
				desc = append(desc, fmt.Sprintf("[%d..%d] g%d %s", op.Call, op.Return, op.ClientId, c07Model.DescribeOperation(op.Input, op.Output)))
			}
			r.Sample(map[string]any{"case": id, "goroutines": nG, "clients": nC, "first_operations": desc})
		}
		if r.NumViolations() > 5 {
			break
		}
	}
	for k := range interleavings {
		r.Distinct(k)
	}
	r.Set("concurrent_operations", opsTotal)
	r.Set("overlapping_operation_pairs", overlapTotal)
	r.Set("distinct_interleavings", len(interleavings))
	server.VerifReset()
	r.FinishLeg()
}

func init() {
	Legs["c07struct"] = c07Struct
	Legs["c07conc"] = c07Conc
	register("C07", "exploration", func(r *ev.Run) {
		var env []string
		if r.Only() != "" {
			env = append(env, "VERIF_ONLY="+r.Only())
		}
		crash := func(leg string, o ev.LegOutcome) {
			if o.OK {
				return
			}
			if o.TimedOut {
				r.Inconclusive("leg " + leg + " hit its watchdog")
				return
			}
			kind := "panic"
			cls := "unknown"
			switch {
			case strings.Contains(o.Stderr, "concurrent map"):
				kind, cls = "race:fatal concurrent map access in the timestamp store", "concurrent listeners"
			case strings.Contains(o.Stderr, "fatal error"):
				kind = "fatal error"
			}
			first := ""
			for _, ln := range strings.Split(o.Stderr, "\n") {
				if strings.HasPrefix(ln, "panic:") || strings.HasPrefix(ln, "fatal error:") {
					first = ln
					break
				}
			}
			r.Violation("store|"+kind+"|"+cls, leg, map[string]any{"first_line": first, "stderr_tail": o.Stderr, "exit": o.ExitCode})
		}
		if r.Only() == "" || r.Only()[0] == 'a' || r.Only()[0] == 'n' {
			crash("c07struct", r.RunLeg("plain", "c07struct", 20*time.Minute, env))
		}
		if r.Only() == "" || r.Only()[0] == 'c' {
			crash("c07conc", r.RunLeg("race", "c07conc", 40*time.Minute, env))
		}
		if r.Only() == "" {
			c07Listeners(r)
			if r.Thorough() {
				c07Flood(r)
			}
		}
		r.CollectRaces(true, "core/server")
		r.Assume("hook level (build tag verif): handleRequest/updateTXTimestamp driven as the listeners drive them; linearizability checked below capacity where clients do not interact (partition by client)")
		r.Assume("sequential specification = the code's own sequential behaviour replayed on a private store state (porcupine model step calls the real handler)")
		r.Finish("(a) 80-operation histories on 1..12 clients with the store walked under its own lock after every operation (map/heap agreement, back-pointers, heap order, 1..8 exchanges, ranking >= latest exchange; = for clients whose requests arrive in timestamp order); "+
			"(b) fill to exactly 2^20 clients, then newcomers older / equal / newer than the least recently active client and requests of known clients: client set changes exactly as stated, count never above 2^20; "+
			"(c) under the race detector: the real 8 IP + 16 SCION listener goroutines fired at from 32..64 sockets sharing three client addresses; and 2..16 goroutines issuing handle/update pairs on 1..3 clients with colliding receive times, every call recorded at the boundary from one atomic counter, final per-client snapshot; each history checked with porcupine "+
			"(partitioned by client, 180 s budget per history: timeout = inconclusive). distinct_nontrivial = distinct small-store histories + newcomers + distinct recorded interleavings", 8)
	})
}

var _ = os.Getenv

// c07Listeners: the real 8 IP + 16 SCION listener goroutines (race build, child process) under
// fire from many sockets that share a few client addresses; the race detector's log of the
// child is collected by the parent (reports with a frame in core/server are violations).
func c07Listeners(r *ev.Run) {
	srv := blockIP(r, 7, 1)
	tgt, err := StartTarget("race", "-ip", srv.String(), "-kinds", "ip,scion")
	if err != nil {
		r.Inconclusive("target: " + err.Error())
		return
	}
	defer tgt.Kill()
	lia, _ := addr.ParseIA("1-ff00:0:110")
	nSock := r.Pick(32, 64)
	perSock := r.Pick(150, 1200)
	var wg sync.WaitGroup
	var sent, got atomic.Int64
	for s := 0; s < nSock; s++ {
		wg.Add(1)
		go func(s int) {
			defer wg.Done()
			cli := blockIP(r, 7, 10+s%3) // three client identities shared by all sockets
			uc, err := peer.NewUDPClient(cli)
			if err != nil {
				return
			}
			defer uc.Close()
			rng := rand.New(rand.NewPCG(uint64(r.Seed()), uint64(s)))
			var lastRX, lastTX uint64
			for k := 0; k < perSock; k++ {
				req := peer.NTPFields{LVM: 0x23, Transmit: peer.UniqueTime64()}
				if lastRX != 0 && rng.IntN(2) == 0 {
					req.Origin, req.Receive = lastRX, lastTX
				}
				var dg []byte
				dst := netip.AddrPortFrom(srv, 123)
				switch s % 3 {
				case 0:
					dg = req.Bytes()
				default:
					dst = netip.AddrPortFrom(srv, []uint16{10123, 30041}[s%2])
					pk := &peer.SCIONPkt{SrcIA: lia, DstIA: lia, SrcHost: cli, DstHost: srv, SrcPort: uc.Local().Port(), DstPort: 10123, Payload: req.Bytes()}
					if k%3 == 0 { // with a packet authenticator and a source ISD-AS the listener has not seen: key cache lookups and fills
						pk.SrcIA = addr.MustIAFrom(addr.ISD(1+rng.IntN(60000)), addr.AS(1+rng.Int64N(1<<40)))
						pk.Path = peer.SCIONPath(rng, 2)
						pk.E2E = []*slayers.EndToEndOption{peer.NewAuthOption(1<<17|1<<16|123, 0)}
						dg, _ = peer.SignPkt(pk, make([]byte, 16))
					} else {
						dg, _ = pk.Serialize()
					}
				}
				if uc.Send(dst, dg) != nil {
					return
				}
				sent.Add(1)
				if k%4 == 3 { // keep a few requests in flight, then collect
					for _, d := range uc.Drain(4 * time.Millisecond) {
						p := d.Data
						if s%3 != 0 {
							p = scionUnwrap(d.Data)
						}
						if f, ok := peer.ParseNTP(p); ok {
							lastRX, lastTX = f.Receive, f.Transmit
							got.Add(1)
						}
					}
				}
			}
			for _, d := range uc.Drain(100 * time.Millisecond) {
				_ = d
				got.Add(1)
			}
		}(s)
	}
	wg.Wait()
	r.Eval(sent.Load())
	r.Set("listener_requests_sent", sent.Load())
	r.Set("listener_replies_received", got.Load())
	if !tgt.Alive() {
		first, frame := tgt.ExitInfo()
		kind := "panic:" + c08Sig(frame)
		if strings.Contains(tgt.Stderr(), "concurrent map") {
			kind = "race:fatal concurrent map access in the timestamp store"
		}
		r.Violation("listeners|"+kind+"|concurrent requests of few clients", "listeners", map[string]any{"first_line": first, "stderr": tgt.Stderr()})
		return
	}
	if got.Load() > sent.Load()/5 { // the race build is slow and replies may be dropped at the sockets; the oracle is the race log
		r.Class("real-listeners-under-concurrent-fire")
	} else {
		r.Inconclusive(fmt.Sprintf("listeners answered only %d of %d requests", got.Load(), sent.Load()))
	}
}

// c07Flood (thorough): more than 2^20 distinct client identities through the real IP listener.
// One socket sends from 2^20 + 2^16 different 127.x.y.z source addresses (IP_PKTINFO); the
// replies come back to that socket, which paces the sender. The store is then walked in the
// listener process through the hook.
func c07Flood(r *ev.Run) {
	srv := blockIP(r, 7, 1)
	tgt, err := StartTarget("plain", "-ip", srv.String(), "-kinds", "ip")
	if err != nil {
		r.Inconclusive("target: " + err.Error())
		return
	}
	defer tgt.Kill()
	c, err := net.ListenUDP("udp4", &net.UDPAddr{IP: net.IPv4zero, Port: 0})
	if err != nil {
		r.Inconclusive(err.Error())
		return
	}
	defer c.Close()
	_ = c.SetReadBuffer(8 << 20)
	pc := ipv4.NewPacketConn(c)
	total := server.VerifTSSCap + 1<<16
	dst := &net.UDPAddr{IP: srv.AsSlice(), Port: 123}
	var recv atomic.Int64
	go func() {
		buf := make([]byte, 2048)
		for {
			if _, _, err := c.ReadFromUDPAddrPort(buf); err != nil {
				return
			}
			recv.Add(1)
		}
	}()
	cm := &ipv4.ControlMessage{}
	t0 := time.Now()
	stalls := 0
	for i := 0; i < total; i++ {
		cm.Src = net.IPv4(127, byte(200+i>>16), byte(i>>8), byte(i))
		req := peer.NTPRequest(peer.UniqueTime64())
		if _, err := pc.WriteTo(req, cm, dst); err != nil {
			r.Inconclusive("flood send: " + err.Error())
			return
		}
		for wait := 0; int64(i)-recv.Load() > 512; wait++ { // at most 512 requests outstanding
			time.Sleep(50 * time.Microsecond)
			if wait > 2000 { // replies lost: do not wait for them forever
				recv.Store(int64(i))
				stalls++
				break
			}
		}
		if i == server.VerifTSSCap/2 || i == server.VerifTSSCap-1 {
			rep := tgt.StoreReport(20 * time.Second)
			var n, v int
			var e string
			fmt.Sscanf(strings.TrimPrefix(rep, "LOG STORE "), "clients=%d values=%d err=%s", &n, &v, &e)
			if rep == "" || e != "<nil>" || n > i+1 || n < (i+1)*9/10 {
				r.Violation("listeners|state:store of the real listener below capacity does not hold one client per distinct source|wire flood", "flood", map[string]any{"sent": i + 1, "report": rep})
			}
		}
	}
	time.Sleep(200 * time.Millisecond)
	rep := tgt.StoreReport(30 * time.Second)
	var n, v int
	var e string
	fmt.Sscanf(strings.TrimPrefix(rep, "LOG STORE "), "clients=%d values=%d err=%s", &n, &v, &e)
	r.Eval(int64(total))
	r.Set("flood_datagrams", total)
	r.Set("flood_replies", recv.Load())
	r.Set("flood_wall_s", time.Since(t0).Seconds())
	r.Set("flood_store_report", rep)
	r.Set("flood_sender_stalls", stalls)
	w := map[string]any{"distinct_sources": total, "report": rep}
	switch {
	case rep == "":
		if !tgt.Alive() {
			first, frame := tgt.ExitInfo()
			r.Violation("listeners|panic:"+c08Sig(frame)+"|wire flood", "flood", map[string]any{"first_line": first})
		} else {
			r.Inconclusive("no store report from the listener process")
		}
	case e != "<nil>":
		r.Violation("listeners|state:store invariant violated after the flood|wire flood", "flood", w)
	case n > server.VerifTSSCap:
		r.Violation("listeners|state:more than 2^20 clients kept|wire flood", "flood", w)
	case n < server.VerifTSSCap && stalls == 0:
		r.Violation("listeners|state:store not filled to capacity by more than 2^20 distinct clients|wire flood", "flood", w)
	default:
		r.Class("wire-flood:2^20+2^16-sources->store-at-capacity")
	}
}
