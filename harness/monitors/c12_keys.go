package monitors

import (
	"bytes"
	"fmt"
	"math/rand/v2"
	"runtime"
	"strings"
	"sync"
	"sync/atomic"
	"testing/synctest"
	"time"
	_ "time/tzdata"

	"example.com/scion-time/net/ntske"

	"verif/harness/internal/ev"
)

// C12 — NTS server keys: current key always valid, rotation and retirement on schedule.
// Provider reads time.Now() directly, so the monitor runs it inside testing/synctest
// bubbles where time.Now() is virtual; every observation carries the exact virtual instant.

const (
	c12Day      = 24 * time.Hour
	c12Validity = 72 * time.Hour
)

type c12Step struct {
	Sleep int64 `json:"sleep_ns"`
	Op    int   `json:"op"` // 0 Current, 1 Get(known id), 2 Get(random id)
}

type c12Sched struct {
	Pre     int64       `json:"virtual_time_before_creation_ns,omitempty"` // moves the history next to a daylight-saving switch of the local zone
	InitGap int64       `json:"gap_after_creation_ns"`
	Workers [][]c12Step `json:"workers"`
	Burst   bool        `json:"synchronised_bursts,omitempty"` // every worker follows the same schedule
}

type c12Key struct {
	val    []byte
	nb, na time.Time
}

type c12Problem struct {
	sig string
	w   map[string]any
}

var c12Gaps = []time.Duration{0, 1, time.Minute, time.Hour, c12Day - time.Minute, c12Day - 1, c12Day, c12Day + 1, 2 * c12Day, 2*c12Day + 1,
	71 * time.Hour, c12Validity - 1, c12Validity, c12Validity + 1, 73 * time.Hour, 10 * c12Day}

// c12DST holds the distances from the start of virtual time (2000-01-01 UTC) to the daylight-saving
// switches of the local zone in that year; c12SetLocalZone fills it.
var c12DST []time.Duration

// c12SetLocalZone looks up the daylight-saving switches of the zone the process runs in (the zone database
// is linked in from the Go distribution): lifetimes are durations, whatever the wall clock of the local
// zone does meanwhile.
func c12SetLocalZone() string {
	// the zone is chosen by the environment (the check script sets TZ for this property): assigning
	// time.Local in a running process would race with every time.Now()
	loc := time.Local
	t0 := time.Date(2000, 1, 1, 0, 0, 0, 0, time.UTC)
	_, prev := t0.In(loc).Zone()
	for h := 1; h < 366*24; h++ {
		t := t0.Add(time.Duration(h) * time.Hour)
		if _, off := t.In(loc).Zone(); off != prev {
			c12DST = append(c12DST, t.Sub(t0))
			prev = off
		}
	}
	return loc.String()
}

func c12Gen(rng *rand.Rand) c12Sched {
	var s c12Sched
	if len(c12DST) > 0 && rng.IntN(3) == 0 {
		s.Pre = int64(c12DST[rng.IntN(len(c12DST))] - time.Duration(rng.Int64N(int64(5*c12Day))))
	}
	s.InitGap = int64(c12Gaps[rng.IntN(len(c12Gaps))])
	nw := 1
	switch rng.IntN(4) {
	case 0:
		nw = 1
	case 1:
		nw = 2 + rng.IntN(3)
	default:
		nw = 1 + rng.IntN(16)
	}
	mode := rng.IntN(6)
	if mode >= 4 {
		// synchronised bursts: every worker follows the same schedule, so at each step all of
		// them call Current() at the same virtual instant (also at the instant a renewal is due)
		nw = 4 + rng.IntN(13)
		n := 6 + rng.IntN(16)
		var steps []c12Step
		for i := 0; i < n; i++ {
			d := c12Gaps[rng.IntN(len(c12Gaps))]
			if rng.IntN(2) == 0 {
				d = time.Duration(20+rng.IntN(12)) * time.Hour // mostly around the renewal interval: most bursts meet a renewal that is due
			}
			steps = append(steps, c12Step{Sleep: int64(d), Op: 0})
		}
		for w := 0; w < nw; w++ {
			s.Workers = append(s.Workers, steps)
		}
		s.Burst = true
		return s
	}
	for w := 0; w < nw; w++ {
		n := 3 + rng.IntN(40/nw+5)
		var steps []c12Step
		for i := 0; i < n; i++ {
			var d time.Duration
			switch mode {
			case 0: // periodic
				d = time.Duration(1+rng.IntN(12)) * time.Hour
			case 1: // bursts and idle gaps from the boundary pool
				if rng.IntN(3) == 0 {
					d = c12Gaps[rng.IntN(len(c12Gaps))]
				} else {
					d = time.Duration(rng.Int64N(int64(time.Second)))
				}
			case 2: // random up to 4 days
				d = time.Duration(rng.Int64N(int64(4 * c12Day)))
			default: // boundary pool with jitter of a few ns
				d = c12Gaps[rng.IntN(len(c12Gaps))] + time.Duration(rng.Int64N(5)) - 2
				if d < 0 {
					d = 0
				}
			}
			op := 0
			if x := rng.IntN(10); x >= 6 && x < 9 {
				op = 1
			} else if x == 9 {
				op = 2
			}
			steps = append(steps, c12Step{Sleep: int64(d), Op: op})
		}
		s.Workers = append(s.Workers, steps)
	}
	return s
}

type c12Stats struct {
	current, getOK, getMiss, probesOK, probesExpired, renewals, concurrent int64
	maxSpanDays                                                            int64
}

func c12RunOne(s c12Sched) (rprobs []c12Problem, rst c12Stats, bubble string) {
	var mu sync.Mutex
	var probs []c12Problem
	var st c12Stats
	report := func(sig string, w map[string]any) {
		mu.Lock()
		if len(probs) < 20 {
			probs = append(probs, c12Problem{sig, w})
		}
		mu.Unlock()
	}
	defer func() {
		if p := recover(); p != nil {
			bubble = fmt.Sprint(p)
		}
		mu.Lock() // results cross the bubble boundary under the lock
		rprobs, rst = probs, st
		mu.Unlock()
	}()
	synctest.Run(func() {
		time.Sleep(time.Duration(s.Pre))
		start := time.Now()
		p := ntske.NewProvider()
		keys := map[int]c12Key{} // id -> first observation
		var maxSeen atomic.Int64
		var ids []int
		fmtT := func(t time.Time) string { return t.Sub(start).String() }
		observe := func(k ntske.Key, t time.Time, via string) bool {
			mu.Lock()
			defer mu.Unlock()
			o, ok := keys[k.ID]
			if !ok {
				keys[k.ID] = c12Key{append([]byte{}, k.Value...), k.Validity.NotBefore, k.Validity.NotAfter}
				ids = append(ids, k.ID)
				for id, other := range keys {
					if id != k.ID && bytes.Equal(other.val, k.Value) {
						probs = append(probs, c12Problem{"Provider|wrong-value:two identifiers share one key value", map[string]any{"ids": []int{id, k.ID}}})
					}
				}
				return true
			}
			if !bytes.Equal(o.val, k.Value) || !o.nb.Equal(k.Validity.NotBefore) || !o.na.Equal(k.Validity.NotAfter) {
				probs = append(probs, c12Problem{"Provider|wrong-value:identifier maps to two different keys", map[string]any{"id": k.ID, "via": via, "at": fmtT(t)}})
			}
			return false
		}
		var wg sync.WaitGroup
		probe := func(id int, val []byte, nb time.Time, at time.Time, mustOK, mustMiss bool, what string) {
			wg.Add(1)
			go func() {
				defer wg.Done()
				time.Sleep(time.Until(at))
				t := time.Now()
				k, ok := p.Get(id)
				if ok && (!bytes.Equal(k.Value, val) || k.ID != id) {
					report("Provider.Get|wrong-value:returned a different key than was handed out under the identifier", map[string]any{"id": id, "at": fmtT(t), "probe": what})
				}
				if mustOK && !ok {
					report("Provider.Get|wrong-value:key not returned within two days of being handed out|"+what, map[string]any{"id": id, "at": fmtT(t), "generated": fmtT(nb), "probe": what})
				}
				if mustMiss && ok {
					report("Provider.Get|wrong-value:key returned more than three days after it was generated|"+what, map[string]any{"id": id, "at": fmtT(t), "generated": fmtT(nb), "probe": what})
				}
				mu.Lock()
				if ok {
					st.probesOK++
				} else {
					st.probesExpired++
				}
				mu.Unlock()
			}()
		}
		time.Sleep(time.Duration(s.InitGap))
		// synchronised bursts: the workers wake at the same virtual instant but microseconds apart in
		// real time; a spinning rendezvous per step lets them enter the provider together
		var arrived []atomic.Int32
		if s.Burst {
			arrived = make([]atomic.Int32, len(s.Workers[0]))
		}
		for wi, steps := range s.Workers {
			wg.Add(1)
			go func(wi int, steps []c12Step) {
				defer wg.Done()
				rng := rand.New(rand.NewPCG(uint64(wi), uint64(len(steps))))
				for si, stp := range steps {
					time.Sleep(time.Duration(stp.Sleep))
					if s.Burst {
						arrived[si].Add(1)
						for spin := 0; arrived[si].Load() < int32(len(s.Workers)) && spin < 1000000; spin++ {
							runtime.Gosched()
						}
					}
					t := time.Now()
					before := maxSeen.Load()
					switch stp.Op {
					case 0:
						k := p.Current()
						if t2 := time.Now(); !t2.Equal(t) {
							report("harness|virtual time advanced during a call", nil)
						}
						nb, na := k.Validity.NotBefore, k.Validity.NotAfter
						w := map[string]any{"id": k.ID, "at": fmtT(t), "not_before": fmtT(nb), "not_after": fmtT(na)}
						if t.Before(nb) || t.After(na) {
							report("Provider.Current|wrong-value:key handed out outside its validity period", w)
						}
						if t.Sub(nb) > c12Day {
							report("Provider.Current|wrong-value:key handed out more than the renewal interval after it was generated", w)
						}
						if na.Sub(nb) != c12Validity {
							report("Provider.Current|wrong-value:validity period is not three days", w)
						}
						if len(k.Value) == 0 {
							report("Provider.Current|wrong-value:empty key", w)
						}
						if int64(k.ID) < before {
							report("Provider.Current|wrong-value:identifier went backwards", w)
						}
						for {
							m := maxSeen.Load()
							if int64(k.ID) <= m || maxSeen.CompareAndSwap(m, int64(k.ID)) {
								break
							}
						}
						fresh := observe(k, t, "Current")
						mu.Lock()
						st.current++
						if fresh {
							st.renewals++
						}
						mu.Unlock()
						// derived clauses: usable for two days from now, never beyond generation + three days
						val := append([]byte{}, k.Value...)
						probe(k.ID, val, nb, t, true, false, "t")
						probe(k.ID, val, nb, t.Add(c12Day), true, false, "t+24h")
						probe(k.ID, val, nb, t.Add(2*c12Day-1), true, false, "t+48h-1ns")
						probe(k.ID, val, nb, t.Add(2*c12Day), true, false, "t+48h")
						probe(k.ID, val, nb, nb.Add(c12Validity+1), false, true, "generated+72h+1ns")
						probe(k.ID, val, nb, nb.Add(c12Validity+c12Day), false, true, "generated+96h")
					default:
						id := int(rng.Int64N(before+3)) + 0
						mu.Lock()
						if stp.Op == 1 && len(ids) > 0 {
							id = ids[rng.IntN(len(ids))]
						}
						mu.Unlock()
						k, ok := p.Get(id)
						if ok {
							w := map[string]any{"id": id, "at": fmtT(t), "not_before": fmtT(k.Validity.NotBefore), "not_after": fmtT(k.Validity.NotAfter)}
							if k.ID != id {
								report("Provider.Get|wrong-value:returned key carries another identifier", w)
							}
							if t.Before(k.Validity.NotBefore) || t.After(k.Validity.NotAfter) {
								report("Provider.Get|wrong-value:key returned outside its validity period", w)
							}
							observe(k, t, "Get")
						}
						mu.Lock()
						if ok {
							st.getOK++
						} else {
							st.getMiss++
						}
						mu.Unlock()
					}
				}
			}(wi, steps)
		}
		wg.Wait()
		mu.Lock()
		st.maxSpanDays = int64(time.Since(start) / c12Day)
		mu.Unlock()
	})
	return
}

// c12Progress counts finished schedules and bursts (see the stall guard in the monitor's body); -1 while
// a leg runs that has its own watchdog.
var c12Progress atomic.Int64

// c12RealTime: bursts of Current() in real time at the instant a renewal is due.  In a synctest
// bubble the clock stands still while goroutines run, so callers of one burst all read the same
// instant; here they read the real clock microseconds apart and in an order that need not be the
// order in which they get the provider's lock.  The provider is aged through its verif hook so
// that every burst meets a due renewal.  Oracle: every key a caller was handed can be fetched
// right afterwards, with the same value (it must stay usable for two more days); a burst sees at
// most one renewal; identifiers never go back and never name two keys.
func c12RealTime(r *ev.Run) {
	if r.Only() != "" && r.Only() != "realtime" {
		return
	}
	p := ntske.NewProvider()
	values := map[int]string{}
	last := p.Current().ID
	rounds := r.Pick(400, 20000)
	bursts := 0
	for k := 0; k < rounds; k++ {
		age := []time.Duration{24*time.Hour + time.Nanosecond, 24*time.Hour + time.Microsecond, 25 * time.Hour, 24 * time.Hour, 23*time.Hour + 59*time.Minute}[k%5]
		p.VerifAge(age)
		n := 4 + k%13
		got := make([]ntske.Key, n)
		var ready, wg sync.WaitGroup
		var gate atomic.Bool
		ready.Add(n)
		wg.Add(n)
		for g := 0; g < n; g++ {
			go func(g int) {
				defer wg.Done()
				ready.Done()
				for !gate.Load() { // spinning rendezvous: all callers enter the provider together
				}
				got[g] = p.Current()
			}(g)
		}
		ready.Wait()
		gate.Store(true)
		wg.Wait()
		c12Progress.Add(1)
		bursts++
		ids := map[int]bool{}
		w := map[string]any{"burst": k, "callers": n, "aged_by": age.String()}
		for _, key := range got {
			ids[key.ID] = true
			if v, ok := values[key.ID]; ok && v != string(key.Value) {
				r.Violation("Provider.Current|wrong-value:one identifier names two keys|burst in real time at a due renewal", "realtime", w)
				return
			}
			values[key.ID] = string(key.Value)
			if key.ID < last {
				r.Violation("Provider.Current|wrong-value:identifier older than one handed out before|burst in real time at a due renewal", "realtime", w)
				return
			}
		}
		for id := range ids {
			if id > last {
				last = id
			}
			k2, ok := p.Get(id)
			if !ok || string(k2.Value) != values[id] {
				w["identifier"], w["identifiers_handed_out_in_this_burst"] = id, fmt.Sprint(ids)
				r.Violation("Provider.Get|wrong-value:key handed out by Current a moment ago cannot be fetched|burst in real time at a due renewal", "realtime", w)
				return
			}
		}
		if len(ids) > 2 {
			w["identifiers_handed_out_in_this_burst"] = fmt.Sprint(ids)
			r.Violation("Provider.Current|wrong-value:more than one renewal in one burst|burst in real time at a due renewal", "realtime", w)
			return
		}
	}
	// the renewal instant falls into the middle of a burst: callers that still see the old key as current
	// and callers that find the renewal due are inside the provider at the same time
	rolling := r.Pick(150, 5000)
	for k := 0; k < rolling; k++ {
		rp := ntske.NewProvider()
		rp.VerifAge(24*time.Hour - time.Duration(100+k%400)*time.Microsecond)
		n := 4 + k%13
		var wg sync.WaitGroup
		var gate atomic.Bool
		var bad atomic.Int64
		wg.Add(n)
		for g := 0; g < n; g++ {
			go func() {
				defer wg.Done()
				for !gate.Load() {
				}
				lastID := 0
				for t0 := time.Now(); time.Since(t0) < time.Millisecond; {
					key := rp.Current()
					if key.ID < lastID {
						bad.Add(1)
					}
					lastID = key.ID
					if _, ok := rp.Get(key.ID); !ok {
						bad.Add(1)
					}
				}
			}()
		}
		done := make(chan struct{})
		go func() { wg.Wait(); close(done) }()
		gate.Store(true)
		c12Progress.Add(1)
		select {
		case <-done:
		case <-time.After(30 * time.Second):
			r.Violation("Provider.Current|hang:callers of the key provider are stuck|renewal falling due in the middle of a burst in real time", "realtime",
				map[string]any{"round": k, "callers": n})
			return
		}
		if bad.Load() > 0 {
			r.Violation("Provider.Current|wrong-value:identifier went back, or a key just handed out cannot be fetched|renewal falling due in the middle of a burst in real time", "realtime",
				map[string]any{"round": k, "callers": n, "events": bad.Load()})
			return
		}
	}
	r.Class("renewal falling due in the middle of a burst in real time")
	// a long life: more renewals than a 16-bit counter holds, one after the other
	lp := ntske.NewProvider()
	prev := lp.Current().ID
	long := r.Pick(70000, 300000)
	for k := 0; k < long; k++ {
		lp.VerifAge(24*time.Hour + time.Duration(1+k%1000)*time.Millisecond)
		id := lp.Current().ID
		if k%1000 == 0 {
			c12Progress.Add(1)
		}
		if id <= prev {
			r.Violation("Provider.Current|wrong-value:identifier repeats or goes back after many renewals|one renewal after the other", "realtime",
				map[string]any{"renewal": k + 1, "identifier": id, "previous_identifier": prev})
			return
		}
		prev = id
	}
	r.Eval(int64(bursts + long))
	r.Class(fmt.Sprintf("%d renewals in a row: identifiers strictly increasing", long))
	r.Class("real-time bursts at a due renewal")
	r.Set("realtime_bursts", bursts)
}

func init() {
	// the provider inside the real listeners: what the NTP and NTS-KE servers seal new cookies
	// with and how long they honour old ones while the keys age (shared with C11, leg C)
	Legs["c12server"] = func(args []string) {
		r := ev.NewLeg("C12")
		c11Rotation(r, 12)
		r.FinishLeg()
	}
	register("C12", "exploration", func(r *ev.Run) {
		if r.Only() == "" || strings.HasPrefix(r.Only(), "rot") {
			var env []string
			if r.Only() != "" {
				env = append(env, "VERIF_ONLY="+r.Only())
			}
			if o := r.RunLeg("plain", "c12server", 20*time.Minute, env); !o.OK {
				r.Inconclusive("server leg did not finish: " + o.Stderr)
			}
		}
		// callers of the provider that block each other for good stop every schedule they are part of (a
		// mutex wait is not a durable block for synctest, the bubble simply never ends): no progress for
		// two minutes of real time is reported as a hang, and the run ends there
		go func() {
			last, lastAt := c12Progress.Load(), time.Now()
			for {
				time.Sleep(time.Second)
				if v := c12Progress.Load(); v != last {
					last, lastAt = v, time.Now()
				} else if v >= 0 && time.Since(lastAt) > 2*time.Minute {
					r.Violation("Provider|hang:callers of the key provider are stuck", "stall", map[string]any{"schedules_and_bursts_finished": v})
					r.Finish("(ended by the stall guard)", 0)
				}
			}
		}()
		if z := c12SetLocalZone(); z != "" {
			r.Set("local_zone", z)
			r.Set("daylight_saving_switches_in_virtual_year", len(c12DST))
		}
		n := r.Pick(400, 30000)
		var tot c12Stats
		var tmu sync.Mutex
		parallel(n, func(w, i int) {
			defer c12Progress.Add(1)
			id := fmt.Sprintf("s%d", i)
			rng := r.Rng("c12/" + id)
			s := c12Gen(rng)
			if r.Only() != "" && r.Only() != id {
				return
			}
			probs, st, bubble := c12RunOne(s)
			r.Eval(st.current + st.getOK + st.getMiss + st.probesOK + st.probesExpired)
			if bubble != "" {
				r.Violation("Provider|panic", id, map[string]any{"schedule": s, "panic": bubble})
			}
			for _, p := range probs {
				r.Violation(p.sig, id, map[string]any{"schedule": s, "detail": p.w})
			}
			tmu.Lock()
			tot.current += st.current
			tot.getOK += st.getOK
			tot.getMiss += st.getMiss
			tot.probesOK += st.probesOK
			tot.probesExpired += st.probesExpired
			tot.renewals += st.renewals
			if st.maxSpanDays > tot.maxSpanDays {
				tot.maxSpanDays = st.maxSpanDays
			}
			tmu.Unlock()
			r.Distinct(fmt.Sprint(s))
			cls := fmt.Sprintf("workers=%s,renewals=%s", map[bool]string{true: "1", false: ">1"}[len(s.Workers) == 1], bucket(st.renewals))
			r.Class(cls)
			if st.getMiss > 0 {
				r.Class("get-miss-observed")
			}
			if st.probesExpired > 0 {
				r.Class("expired-key-refused")
			}
			if st.probesOK > 0 {
				r.Class("issued-key-still-usable")
			}
			if i < 3 {
				r.Sample(map[string]any{"case": id, "schedule": s, "current_calls": st.current, "renewals": st.renewals, "span_days": st.maxSpanDays})
			}
		})
		c12RealTime(r)
		r.CollectRaces(true, "net/ntske")
		r.Set("events_current", tot.current)
		r.Set("events_get_ok", tot.getOK)
		r.Set("events_get_miss", tot.getMiss)
		r.Set("probe_get_ok", tot.probesOK)
		r.Set("probe_get_expired", tot.probesExpired)
		r.Set("key_generations_observed", tot.renewals)
		r.Set("longest_schedule_days", tot.maxSpanDays)
		r.Assume("virtual time of testing/synctest (GOEXPERIMENT=synctest, go1.24); validity bounds are inclusive as in the code")
		r.Finish("call schedules of 1..16 goroutines over virtual days inside synctest bubbles (race detector on): periodic, bursts with idle gaps from a boundary pool "+
			"{0,1ns,...,24h-1ns,24h,24h+1ns,48h,71h,72h-1ns,72h,72h+1ns,73h,10d}, random, jittered boundaries, synchronised bursts (4..16 goroutines calling Current() at the same virtual instant, also when a renewal is due); operations Current / Get(known id) / Get(random id); every Current() spawns probes "+
			"Get(id) at t, t+24h, t+48h-1ns, t+48h (must succeed with the same value) and at generated+72h+1ns, +96h (must fail). Oracle per call at its exact virtual instant: NotBefore<=t<=NotAfter, "+
			"t-NotBefore<=24h, NotAfter-NotBefore=72h, identifier >= every identifier seen before the call began, identifier never maps to two keys. Server leg (child process, real NTP and NTS-KE listeners, keys aged through the provider's verif hook by 1..100 h between exchanges): cookies issued <= 2 days ago served, cookies of keys generated > 3 days ago refused, every fresh cookie sealed under a key generated <= 24 h before. distinct_nontrivial = distinct schedules and ageing plans", 5)
	})
}

func bucket(n int64) string {
	switch {
	case n <= 1:
		return "<=1"
	case n <= 4:
		return "2-4"
	default:
		return ">=5"
	}
}
