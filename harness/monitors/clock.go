package monitors

import (
	"log/slog"
	"time"

	"example.com/scion-time/core/timebase"
	"example.com/scion-time/driver/clocks"
)

var realClockRegistered bool

// registerScriptedRealClock registers the project's own system clock (CLOCK_REALTIME) as the
// process-wide timebase, for monitors that run real clients in-process. A process uses either
// this or the scripted clock, never both (registration is once per process).
func registerScriptedRealClock() {
	if theClock != nil || realClockRegistered {
		return
	}
	timebase.RegisterClock(clocks.NewSystemClock(slog.New(slog.DiscardHandler), 100*time.Microsecond))
	realClockRegistered = true
}
