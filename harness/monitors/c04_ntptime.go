package monitors

import (
	"fmt"
	"math/rand/v2"
	"slices"
	"sync/atomic"
	"time"

	"example.com/scion-time/net/ntp"

	"verif/harness/internal/ev"
)

// C04 — NTP timestamp conversion is exact to 1 ns within +-2^31 s, across eras.

const (
	ntpEpochUnix = int64(-2208988800)
	eraSecs      = int64(1) << 32
	halfEra      = int64(1) << 31
)

func ntpEra(unixSec int64) int64 {
	d := unixSec - ntpEpochUnix
	if d >= 0 {
		return d / eraSecs
	}
	return -((-d + eraSecs - 1) / eraSecs)
}

func c04Class(t0s, ts int64) string {
	e0, e := ntpEra(t0s), ntpEra(ts)
	switch {
	case e0 == e:
		return "same-era"
	case e0 < e:
		return "ref<era-boundary<=t"
	default:
		return "t<era-boundary<=ref"
	}
}

// c04One checks one (t, t0) pair; returns the converted time.
func c04One(r *ev.Run, t, t0 time.Time, id string) (time.Time, bool) {
	var got time.Time
	if p := c02Recover(func() { got = ntp.TimeFromTime64(ntp.Time64FromTime(t), t0) }); p != nil {
		r.Violation("TimeFromTime64|panic|"+c04Class(t0.Unix(), t.Unix()), id,
			map[string]any{"t": t.UTC().Format(time.RFC3339Nano), "t0": t0.UTC().Format(time.RFC3339Nano), "panic": fmt.Sprint(p)})
		return got, false
	}
	d := t.Sub(got) // exact: both within the representable range, |d| small or ~2^32 s
	if d < 0 || d > 1 {
		kind := "wrong-value:not within [t-1ns,t]"
		secs := got.Unix() - t.Unix()
		if secs >= eraSecs-1 && secs <= eraSecs+1 {
			kind = "wrong-value:2^32 s late"
		} else if -secs >= eraSecs-1 && -secs <= eraSecs+1 {
			kind = "wrong-value:2^32 s early"
		}
		r.Violation("TimeFromTime64|"+kind+"|"+c04Class(t0.Unix(), t.Unix()), id,
			map[string]any{"t": t.UTC().Format(time.RFC3339Nano), "t_unix": t.Unix(), "t_nsec": t.Nanosecond(),
				"t0": t0.UTC().Format(time.RFC3339Nano), "t0_unix": t0.Unix(),
				"got": got.UTC().Format(time.RFC3339Nano), "got_unix": got.Unix(), "got_nsec": got.Nanosecond()})
		return got, false
	}
	return got, true
}

func init() {
	register("C04", "exploration", func(r *ev.Run) {
		// --- references: every ~97 days from 1970 to 2450, plus around each era boundary
		var refs []int64
		for s := int64(0); s < (2450-1970)*365.25*86400; s += 97*86400 + 12345 {
			refs = append(refs, s)
		}
		for e := int64(1); e <= 4; e++ {
			b := ntpEpochUnix + e*eraSecs
			for _, d := range []int64{0, 1, -1, 2, -2, 10, -10, 3600, -3600, halfEra - 1, halfEra, -halfEra + 1, -halfEra, 86400 * 365, -86400 * 365} {
				if b+d >= 0 {
					refs = append(refs, b+d)
				}
			}
		}
		dPool := []int64{-halfEra, -halfEra + 1, -halfEra + 2, -1, 0, 1, 2, halfEra - 2, halfEra - 1, -3600, 3600, -86400 * 365 * 20, 86400 * 365 * 20}
		nsPool := []int64{0, 1, 2, 3, 4, 5, 232, 233, 234, 499999999, 500000000, 500000001, 999999998, 999999999, 250000000, 750000000, 123456789}
		perRef := r.Pick(60, 1500)
		var evals int64
		parallel(len(refs), func(w, ri int) {
			rng := r.Rng(fmt.Sprintf("c04/ref%d", ri))
			t0s := refs[ri]
			var n int64
			for _, t0ns := range []int64{0, 999999999, rng.Int64N(1e9)} {
				t0 := time.Unix(t0s, t0ns).UTC()
				type tc struct {
					t  time.Time
					id string
				}
				var cases []tc
				add := func(d, ns int64, k int) {
					ts := t0s + d
					// domain: -2^31 <= floor(t)-floor(t0) < 2^31 and -2^31 s <= t - t0 < 2^31 s
					if d < -halfEra || d >= halfEra {
						return
					}
					if d == -halfEra && ns < t0ns {
						return
					}
					if ts < ntpEpochUnix {
						return
					}
					cases = append(cases, tc{time.Unix(ts, ns).UTC(), fmt.Sprintf("r%d.%d.%d.%d", ri, t0ns, d, ns)})
					_ = k
				}
				for _, d := range dPool {
					for _, ns := range nsPool {
						add(d, ns, 0)
					}
				}
				for k := 0; k < perRef; k++ {
					var d int64
					switch rng.IntN(4) {
					case 0:
						d = rng.Int64N(2*halfEra) - halfEra
					case 1:
						d = rng.Int64N(7200) - 3600
					case 2: // near the era boundaries inside the window
						e := ntpEra(t0s) + int64(rng.IntN(3)) - 1
						d = ntpEpochUnix + e*eraSecs - t0s + rng.Int64N(21) - 10
					default:
						d = dPool[rng.IntN(len(dPool))] + rng.Int64N(5) - 2
					}
					ns := rng.Int64N(1e9)
					if rng.IntN(4) == 0 {
						ns = nsPool[rng.IntN(len(nsPool))]
					}
					add(d, ns, k)
				}
				if r.Only() != "" {
					var sel []tc
					for _, c := range cases {
						if c.id == r.Only() {
							sel = append(sel, c)
						}
					}
					cases = sel
				}
				slices.SortFunc(cases, func(a, b tc) int { return a.t.Compare(b.t) })
				var prev time.Time
				var prevT, ordT time.Time
				havePrev, haveOrd := false, false
				for _, c := range cases {
					got, ok := c04One(r, c.t, t0, c.id)
					n++
					r.Class(c04Class(t0s, c.t.Unix()))
					if ok && havePrev && got.Before(prev) {
						r.Violation("TimeFromTime64|wrong-value:order not preserved|"+c04Class(t0s, c.t.Unix()), c.id,
							map[string]any{"t_prev": prevT.String(), "t": c.t.String(), "r_prev": prev.String(), "r": got.String(), "t0": t0.String()})
					}
					// Time64 ordering: this case against the one before it in time order, if they are less than
					// 2^31 s apart (timestamps are compared like serial numbers, also across an era boundary)
					if haveOrd && c.t.Unix()-ordT.Unix() < halfEra-1 && ordT.Unix() >= ntpEpochUnix {
						a, b := ntp.Time64FromTime(ordT), ntp.Time64FromTime(c.t)
						if b.Before(a) || a.After(b) || (a != b && (!a.Before(b) || !b.After(a))) {
							r.Violation("Time64.Before/After|wrong-value:disagrees with the order of two times less than 2^31 s apart", c.id,
								map[string]any{"t_prev": ordT.String(), "t": c.t.String()})
						}
						if a == b && (a.Before(b) || a.After(b)) {
							r.Violation("Time64.Before/After|wrong-value:equal times compare unequal", c.id, nil)
						}
						if (a.Seconds < 1<<31) != (b.Seconds < 1<<31) {
							if ntpEra(ordT.Unix()) == ntpEra(c.t.Unix()) {
								r.Class("Time64 order across the middle of an era")
							} else {
								r.Class("Time64 order across an era boundary")
							}
						}
					}
					ordT, haveOrd = c.t, true
					if ok {
						prev, prevT, havePrev = got, c.t, true
					}
				}
				if rng.IntN(400) == 0 && len(cases) > 0 {
					c := cases[rng.IntN(len(cases))]
					r.Sample(map[string]any{"t0": t0.Format(time.RFC3339Nano), "t": c.t.Format(time.RFC3339Nano),
						"back": ntp.TimeFromTime64(ntp.Time64FromTime(c.t), t0).Format(time.RFC3339Nano)})
				}
			}
			atomic.AddInt64(&evals, n)
		})
		r.Eval(evals)
		r.DistinctN(evals)

		// --- ordering at the edge of the window: two times just under 2^31 s apart (the seconds fields of
		// their timestamps differ by exactly 2^31 while the times themselves are closer than that)
		if r.Only() == "" {
			var n int64
			erng := r.Rng("c04/edge")
			for _, sec := range []int64{ntpEpochUnix + 5, 0, 1700000000, ntpEpochUnix + eraSecs - 1, ntpEpochUnix + eraSecs, ntpEpochUnix + eraSecs + halfEra - 3, ntpEpochUnix + 3*eraSecs + 77} {
				for _, ns := range []int64{0, 1, 499999999, 500000000, 999999998, 999999999, erng.Int64N(1e9)} {
					for _, short := range []int64{1, 2, 500000000, 999999999, 1000000000, 1000000001, 1 + erng.Int64N(3e9)} {
						t := time.Unix(sec, ns).UTC()
						u := t.Add(time.Duration(halfEra)*time.Second - time.Duration(short))
						a, b := ntp.Time64FromTime(t), ntp.Time64FromTime(u)
						n++
						if !a.Before(b) || !b.After(a) || b.Before(a) || a.After(b) {
							r.Violation("Time64.Before/After|wrong-value:disagrees with the order of two times less than 2^31 s apart", fmt.Sprintf("edge.%d.%d.%d", sec, ns, short),
								map[string]any{"t": t.String(), "u": u.String(), "short_of_2^31_s_by_ns": short})
						}
					}
				}
			}
			r.Eval(n)
			r.DistinctN(n)
			r.Class("Time64 order just inside the 2^31 s window")
		}
		// --- sub-second sweep: all 10^9 nanosecond values (thorough) or a stride (quick)
		stride := int64(r.Pick(997, 1))
		secsFor := []int64{1700000000, ntpEpochUnix + eraSecs - 1, ntpEpochUnix + eraSecs, ntpEpochUnix + 2*eraSecs + 5}
		if !r.Thorough() {
			secsFor = secsFor[:2]
		}
		if r.Only() == "" {
			var sweep int64
			const blocks = 1000
			for _, sec := range secsFor {
				parallel(blocks, func(w, b int) {
					lo, hi := int64(b)*(1e9/blocks), int64(b+1)*(1e9/blocks)
					t0 := time.Unix(sec, 0).UTC()
					var n int64
					var prev time.Time
					for ns := lo + (int64(b)*7)%stride; ns < hi; ns += stride {
						t := time.Unix(sec, ns).UTC()
						got := ntp.TimeFromTime64(ntp.Time64FromTime(t), t0)
						d := t.Sub(got)
						if d < 0 || d > 1 || (n > 0 && got.Before(prev)) {
							c04One(r, t, t0, fmt.Sprintf("ns.%d.%d", sec, ns))
							if n > 0 && got.Before(prev) {
								r.Violation("TimeFromTime64|wrong-value:order not preserved|sub-second sweep", fmt.Sprintf("ns.%d.%d", sec, ns), nil)
							}
						}
						prev = got
						n++
					}
					atomic.AddInt64(&sweep, n)
				})
			}
			r.Eval(sweep)
			r.DistinctN(sweep)
			r.Class("sub-second-sweep")
			r.Set("subsecond_values_per_second_checked", sweep/int64(len(secsFor)))
			if stride == 1 {
				r.Set("exhaustive_subspaces", []string{"all 10^9 nanosecond values at 4 seconds values (time->timestamp->time)", "all 2^32 fraction values (timestamp->time monotone, in [0,1e9))"})
			}
			// --- fraction sweep: timestamp -> time monotone in the fraction and normalised
			fstride := uint64(r.Pick(4093, 1))
			var fsweep int64
			const fblocks = 4096
			parallel(fblocks, func(w, b int) {
				lo, hi := uint64(b)<<20, uint64(b+1)<<20
				t0 := time.Unix(1700000000, 0).UTC()
				secs := uint32(1700000000 - ntpEpochUnix)
				prevNs := -1
				var n int64
				if lo > 0 {
					prevNs = ntp.TimeFromTime64(ntp.Time64{Seconds: secs, Fraction: uint32(lo - 1)}, t0).Nanosecond()
				}
				for f := lo + (uint64(b)*13)%fstride; f < hi; f += fstride {
					tt := ntp.TimeFromTime64(ntp.Time64{Seconds: secs, Fraction: uint32(f)}, t0)
					ns := tt.Nanosecond()
					if tt.Unix() != 1700000000 || ns < prevNs {
						r.Violation("TimeFromTime64|wrong-value:fraction conversion not monotone or not normalised", fmt.Sprintf("frac.%d", f),
							map[string]any{"fraction": f, "ns": ns, "prev_ns": prevNs, "unix": tt.Unix()})
					}
					prevNs = ns
					n++
				}
				atomic.AddInt64(&fsweep, n)
			})
			r.Eval(fsweep)
			r.DistinctN(fsweep)
			r.Class("fraction-sweep")
			r.Set("fraction_values_checked", fsweep)
		}
		r.Assume("window taken at whole-second granularity: -2^31 <= floor(t)-floor(t0) < 2^31 and -2^31 s <= t-t0 (at the upper edge a seconds-only unfolding cannot tell t0+2^31-eps from t0-2^31+eps)")
		r.Assume("times not before the NTP epoch 1900-01-01")
		r.Finish("references every ~97 days 1970..2450 plus +-{0,1,2,10,3600,2^31-1,2^31,20y} s around the era boundaries 2036/2172/2308/2444, each with sub-second parts {0, 999999999, random}; "+
			"t = t0 + d for d in a boundary pool {-2^31,-2^31+1,-1,0,1,2^31-2,2^31-1,...} x 17 sub-second values plus seeded random d (uniform, near t0, near era boundaries); oracle: t-1ns <= back <= t, "+
			"results non-decreasing over the sorted t of one reference, Time64.Before/After agree with the order of times less than 2^31 s apart (also across an era boundary); plus a sub-second sweep (stride in quick, all 10^9 ns in thorough) and a fraction sweep "+
			"(stride in quick, all 2^32 in thorough). Cases are distinct by construction (distinct (t0,t) pairs); classes = era relation of t0 and t", 4)
	})
}

var _ = rand.Int
