package monitors

import (
	"context"
	"encoding/binary"
	"fmt"
	"log/slog"
	"math"
	"math/rand/v2"
	"net"
	"net/netip"
	"os"
	"strings"
	"sync"
	"time"

	"example.com/scion-time/core/client"

	"verif/harness/internal/ev"
	"verif/harness/internal/peer"
)

// C05 — clients accept only genuine, matching, authenticated server responses.
// A scripted peer answers each request of the real client with a script of datagrams, each
// tagged with its own (huge, distinct) clock offset, so that a returned offset identifies the
// datagram it was computed from. Every script ends with a genuine reply: no verdict waits
// on a timeout.

// c05Shift is the tag of the k-th crafted datagram: 1000 s x 3^(k+1). Basic replies show
// the whole shift, interleaved ones half of it; the powers of three keep both readable.
func c05Shift(k int) time.Duration {
	return time.Duration(1000*math.Pow(3, float64(k+1))) * time.Second
}

// c05FarShift is what the "both 45 years ahead" datagram adds to its tag.
const c05FarShift = 45 * 365 * 86400 * time.Second

func c05Identify(off time.Duration, n int) (k int, ok bool) {
	for k = 0; k < n; k++ { // an acceptable datagram whose own clock is decades ahead
		d := off - c05Shift(k) - c05FarShift
		if d > -20*time.Second && d < 20*time.Second {
			return k, true
		}
	}
	near := func(a, b time.Duration) bool { d := a - b; return d > -20*time.Second && d < 20*time.Second }
	if near(off, 0) {
		return -1, true // the genuine terminator
	}
	for k = 0; k < n; k++ {
		if near(off, c05Shift(k)) || near(off, c05Shift(k)/2) {
			return k, true
		}
	}
	return 0, false
}

// c05IdentifyHalf attributes one side of a sample (server timestamp minus client timestamp)
// to the genuine reply (-1) or to the k-th crafted datagram, and returns the tag it carries.
func c05IdentifyHalf(d time.Duration, n int) (k int, shift time.Duration, ok bool) {
	near := func(a, b time.Duration) bool { x := a - b; return x > -20*time.Second && x < 20*time.Second }
	if near(d, 0) {
		return -1, 0, true
	}
	for k = 0; k < n; k++ {
		if near(d, c05Shift(k)) {
			return k, c05Shift(k), true
		}
		if near(d, c05Shift(k)+c05FarShift) {
			return k, c05Shift(k) + c05FarShift, true
		}
	}
	return 0, 0, false
}

type c05Req struct {
	f           peer.NTPFields
	raw         []byte
	interleaved bool
	uid         []byte
	cookie      []byte
	from        netip.AddrPort
	rx          time.Time
}

// c05Mut describes one crafted datagram.
type c05Mut struct {
	name string
	// hdr mutates the header fields of an otherwise genuine reply (before NTS sealing)
	hdr func(f *peer.NTPFields, rq *c05Req)
	// nts selects how the NTS part is produced: "" genuine, or a named defect
	nts string
	// raw mutates the final bytes
	raw       func(b []byte, rng *rand.Rand) []byte
	fromOther bool
	otherPort bool // with fromOther: the server's address, another port
	// verdict: computed from the final datagram by the predicate unless forced
	forceBad bool
}

// c05Accept is the acceptance predicate taken from the statement.
func c05Accept(b []byte, rq *c05Req, fromServer bool) bool {
	f, ok := peer.ParseNTP(b)
	if !ok || !fromServer {
		return false
	}
	if !(f.Origin == rq.f.Transmit || (rq.interleaved && f.Origin == rq.f.Receive)) {
		return false
	}
	li, vn, mode := f.LVM>>6, (f.LVM>>3)&7, f.LVM&7
	if mode != 4 || (vn != 3 && vn != 4) || li == 3 || f.Stratum < 1 || f.Stratum > 15 {
		return false
	}
	// basic reply: transmit time not before its receive time (compared as signed distances from the
	// request's transmit time, so that timestamps decades away on either side keep their order)
	dTx, dRx := int64(f.Transmit-rq.f.Transmit), int64(f.Receive-rq.f.Transmit)
	if f.Origin == rq.f.Transmit && dTx < dRx {
		if dRx-dTx < 9 {
			return true // below the nanosecond resolution of the client's clock: not judged as "before"
		}
		return false
	}
	// interleaved reply: its transmit time is that of the exchange the request continues, whose receive
	// time the request names as its origin
	if f.Origin != rq.f.Transmit && rq.interleaved && f.Origin == rq.f.Receive {
		if d := int64(f.Transmit - rq.f.Origin); d < -8 {
			return false
		}
	}
	return true
}

func c05HeaderMuts(rng *rand.Rand, full bool) []c05Mut {
	var ms []c05Mut
	lvms := []int{}
	for v := 0; v < 256; v++ {
		if full || rng.IntN(6) == 0 || v == 0x24 || v == 0x1c || v == 0x23 || v == 0xe4 || v == 0x25 {
			lvms = append(lvms, v)
		}
	}
	for _, v := range lvms {
		v := byte(v)
		ms = append(ms, c05Mut{name: "leap/version/mode byte", hdr: func(f *peer.NTPFields, _ *c05Req) { f.LVM = v }})
	}
	for _, s := range []byte{0, 1, 2, 15, 16, 17, 128, 255} {
		s := s
		ms = append(ms, c05Mut{name: "stratum", hdr: func(f *peer.NTPFields, _ *c05Req) { f.Stratum = s }})
	}
	for _, d := range []int64{1, -1, 1 << 32, -(1 << 32), 1 << 31} {
		d := d
		ms = append(ms, c05Mut{name: "origin off by one unit or second", hdr: func(f *peer.NTPFields, _ *c05Req) { f.Origin = uint64(int64(f.Origin) + d) }})
	}
	ms = append(ms,
		c05Mut{name: "origin zero", hdr: func(f *peer.NTPFields, _ *c05Req) { f.Origin = 0 }},
		c05Mut{name: "origin = request's receive timestamp", hdr: func(f *peer.NTPFields, rq *c05Req) { f.Origin = rq.f.Receive }},
		c05Mut{name: "origin = request's origin timestamp", hdr: func(f *peer.NTPFields, rq *c05Req) { f.Origin = rq.f.Origin }},
		c05Mut{name: "origin of an older request", hdr: func(f *peer.NTPFields, rq *c05Req) { f.Origin = rq.f.Transmit - 5<<32 }},
		// 9 units of 2^-32 s = 2.1 ns: at least one nanosecond after the client's truncating conversion
		c05Mut{name: "transmit 2 ns before receive", hdr: func(f *peer.NTPFields, _ *c05Req) { f.Transmit = f.Receive - 9 }},
		c05Mut{name: "transmit equals receive", hdr: func(f *peer.NTPFields, _ *c05Req) { f.Transmit = f.Receive }},
		// two cooperating fields: each plausible alone, together transmit lies decades before receive
		c05Mut{name: "receive 40 years ahead, transmit 50 years behind", hdr: func(f *peer.NTPFields, _ *c05Req) {
			f.Receive += uint64(40*365*86400) << 32
			f.Transmit -= uint64(50*365*86400) << 32
		}},
		c05Mut{name: "receive 60 years ahead, transmit 60 years behind", hdr: func(f *peer.NTPFields, _ *c05Req) {
			f.Receive += uint64(60*365*86400) << 32
			f.Transmit -= uint64(60*365*86400) << 32
		}},
		c05Mut{name: "receive 30 years ahead, transmit now", hdr: func(f *peer.NTPFields, _ *c05Req) { f.Receive += uint64(30*365*86400) << 32 }},
		c05Mut{name: "both 45 years ahead (transmit after receive)", hdr: func(f *peer.NTPFields, _ *c05Req) {
			f.Receive += uint64(45*365*86400) << 32
			f.Transmit += uint64(45*365*86400)<<32 + 1000
		}},
		c05Mut{name: "transmit a second before receive", hdr: func(f *peer.NTPFields, _ *c05Req) { f.Transmit = f.Receive - 1<<32 }},
		c05Mut{name: "interleaved reply whose transmit time lies before the receive time of the exchange it belongs to", hdr: func(f *peer.NTPFields, rq *c05Req) {
			if rq.interleaved { // in interleaved form, whatever form the genuine reply has
				f.Origin = rq.f.Receive
				f.Transmit = rq.f.Origin - 1<<31
			} else {
				f.Origin = 0 // to a basic request the datagram at this script position echoes nothing
			}
		}},
		c05Mut{name: "other fields random", hdr: func(f *peer.NTPFields, _ *c05Req) {
			f.Poll, f.Precision, f.RootDelay, f.Dispersion, f.RefID, f.Reference = int8(rng.IntN(256)), int8(rng.IntN(256)), rng.Uint32(), rng.Uint32(), rng.Uint32(), rng.Uint64()
		}},
		c05Mut{name: "from another source address", fromOther: true},
		c05Mut{name: "from another port of the server's address", fromOther: true, otherPort: true},
		c05Mut{name: "random 48 bytes", raw: func(b []byte, rng *rand.Rand) []byte { return randBytes(rng, 48) }},
		c05Mut{name: "request echoed back", raw: func(b []byte, rng *rand.Rand) []byte { return nil }}, // filled by the sender with the request bytes
	)
	for _, l := range []int{0, 1, 4, 24, 40, 47} {
		l := l
		ms = append(ms, c05Mut{name: "shorter than 48 bytes", raw: func(b []byte, _ *rand.Rand) []byte { return b[:l] }})
	}
	return ms
}

func c05NTSMuts() []c05Mut {
	names := []string{"unique id of another request", "unique id of the request with four more bytes", "unique id of the request with 32 more bytes", "sealed with the client-to-server key", "sealed with a random key", "no NTS fields at all",
		"header bit flipped after sealing", "unique-id bit flipped after sealing", "nonce bit flipped", "ciphertext bit flipped", "no unique identifier field",
		"authenticator ciphertext length word + 4", "extension length word 0", "replayed response of the previous exchange",
		"forged without any key: authenticator with an empty ciphertext", "replayed response with the outstanding unique id appended after the authenticator"}
	var ms []c05Mut
	for _, n := range names {
		ms = append(ms, c05Mut{name: n, nts: n, forceBad: true})
	}
	return ms
}

type c05Peer struct {
	mu       sync.Mutex
	srv      *peer.NTPServer
	other    netip.Addr
	script   []c05Mut
	rng      *rand.Rand
	nts      bool
	ke       *peer.NTSKEServer
	issued   map[int]int // cookies issued per KE connection
	lastResp []byte      // previous genuine NTS response (for replays)
	lastTx   map[netip.Addr]uint64
	lastRx   map[netip.Addr]uint64
	// per call
	sent      []bool // acceptable? per script index
	sentBytes [][]byte
	requests  int
	inter     int
	withhold  bool                                                 // answer nothing this time, but keep the genuine response
	held      []byte                                               // genuine response that was withheld
	wrap      func(payload []byte, rq *c05Req, mut *c05Mut) []byte // transport framing (SCION); nil for IP
	unwrap    func(b []byte) (payload []byte, ok bool)
	// receive timestamps carried by datagrams that must not be accepted; a later request that names
	// one of them as its origin shows client state taken from a rejected datagram
	badRecv  map[uint64]string
	stateBad []string
}

func (p *c05Peer) handle(s *peer.NTPServer, dg []byte, from netip.AddrPort, rx time.Time) {
	p.mu.Lock()
	defer p.mu.Unlock()
	payload := dg
	if p.unwrap != nil {
		var ok bool
		if payload, ok = p.unwrap(dg); !ok {
			return
		}
	}
	f, ok := peer.ParseNTP(payload)
	if !ok {
		return
	}
	f2 := f
	rq := &c05Req{f: f, raw: payload, interleaved: f.Origin != 0 && f.Receive != f.Transmit, from: from, rx: rx}
	if name, bad := p.badRecv[f.Origin]; bad && f.Origin != 0 {
		p.stateBad = append(p.stateBad, name)
	}
	p.requests++
	if rq.interleaved {
		p.inter++
	}
	var keys *peer.NTSKEConn
	if p.nts {
		for _, fl := range peer.ParseNTSFields(payload) {
			switch fl.Type {
			case 0x0104:
				rq.uid = fl.Body
			case 0x0204:
				if rq.cookie == nil {
					rq.cookie = fl.Body
				}
			}
		}
		if conn, _, ok := peer.ParseTaggedCookie(rq.cookie); ok {
			for _, c := range p.ke.Conns() {
				if c.ID == conn {
					keys = c
				}
			}
		}
		if keys == nil || len(rq.uid) < 32 {
			return
		}
	}
	build := func(k int, m *c05Mut) (b []byte, acceptable bool) {
		shift := time.Duration(0)
		if k >= 0 {
			shift = c05Shift(k)
		}
		now := time.Now()
		fl := peer.NTPFields{LVM: 0x24, Stratum: 1, Poll: f.Poll, Precision: -30, Origin: f.Transmit, Receive: peer.ToNTP64(rx.Add(shift)), Transmit: peer.ToNTP64(now.Add(shift))}
		// answer an interleaved request in interleaved mode every other time
		if rq.interleaved && p.requests%2 == 0 && p.lastRx[from.Addr()] == f.Origin {
			fl.Origin = f.Receive
			fl.Transmit = p.lastTx[from.Addr()] + uint64(shift/time.Second)<<32
		}
		if m != nil && m.hdr != nil {
			m.hdr(&fl, rq)
		}
		b = fl.Bytes()
		if p.nts {
			uid, key := rq.uid, keys.S2C
			var cookies [][]byte
			p.issued[keys.ID]++
			cookies = append(cookies, peer.TaggedCookie(keys.ID, 100+p.issued[keys.ID], 100))
			kind := ""
			if m != nil {
				kind = m.nts
			}
			switch kind {
			case "unique id of another request":
				uid = append([]byte{}, uid...)
				uid[5] ^= 0x40
			case "unique id of the request with four more bytes":
				uid = append(append([]byte{}, uid...), randBytes(p.rng, 4)...)
			case "unique id of the request with 32 more bytes":
				uid = append(append([]byte{}, uid...), randBytes(p.rng, 32)...)
			case "sealed with the client-to-server key":
				key = keys.C2S
			case "sealed with a random key":
				key = randBytes(p.rng, 32)
			}
			full := peer.NTSResponse(b, uid, cookies, key)
			switch kind {
			case "no NTS fields at all":
				full = b
			case "header bit flipped after sealing":
				full[16+p.rng.IntN(8)] ^= 1 << uint(p.rng.IntN(8)) // reference timestamp: no other check notices
			case "unique-id bit flipped after sealing":
				full[48+4+p.rng.IntN(32)] ^= 1 << uint(p.rng.IntN(8))
			case "nonce bit flipped":
				full[48+36+8+p.rng.IntN(16)] ^= 1 << uint(p.rng.IntN(8))
			case "ciphertext bit flipped":
				full[48+36+8+16+p.rng.IntN(len(full)-(48+36+8+16))] ^= 1 << uint(p.rng.IntN(8))
			case "no unique identifier field":
				full = append(append([]byte{}, full[:48]...), full[48+36:]...)
			case "authenticator ciphertext length word + 4":
				full[48+36+6+1] += 4
			case "extension length word 0":
				full[48+2], full[48+3] = 0, 0
			case "forged without any key: authenticator with an empty ciphertext":
				f2 := append([]byte{}, full[:48+36]...)
				f2 = append(f2, 0x04, 0x04, 0x00, 28, 0x00, 16, 0x00, 0x00)
				f2 = append(f2, randBytes(p.rng, 16)...)
				full = append(f2, 0, 0, 0, 0)
			case "replayed response with the outstanding unique id appended after the authenticator":
				if p.lastResp != nil {
					full = append([]byte{}, p.lastResp...)
					copy(full[24:32], b[24:32]) // origin of the outstanding request (breaks the old tag: header is covered)
					full = append([]byte{}, p.lastResp...)
					full = append(full, 0x01, 0x04, 0x00, 36)
					full = append(full, rq.uid[:32]...)
				} else {
					full = b
				}
			case "withheld response of the previous request with the new unique id appended":
				if p.held != nil {
					full = append([]byte{}, p.held...)
					full = append(full, 0x01, 0x04, 0x00, 36)
					full = append(full, rq.uid[:32]...)
				}
			case "replayed response of the previous exchange":
				if p.lastResp != nil {
					full = append([]byte{}, p.lastResp...)
				} else {
					full = b
				}
			}
			if m == nil {
				p.lastResp = append([]byte{}, full...)
			}
			b = full
		}
		if m != nil && m.raw != nil {
			if m.name == "request echoed back" {
				b = append([]byte{}, payload...)
			} else {
				b = m.raw(b, p.rng)
			}
		}
		acceptable = c05Accept(b, rq, m == nil || !m.fromOther)
		if m != nil && m.forceBad {
			acceptable = false
		}
		return b, acceptable
	}
	for k := range p.script {
		m := &p.script[k]
		b, acc := build(k, m)
		out := b
		if p.wrap != nil {
			out = p.wrap(b, rq, m)
		}
		if m.fromOther && m.otherPort && p.wrap == nil {
			_ = s.SendFromOtherPort(from, out)
		} else if m.fromOther && p.wrap == nil {
			_ = s.SendFrom(p.other, from, out)
		} else {
			s.Send(from, out)
		}
		if k < len(p.sent) {
			p.sent[k] = acc
			p.sentBytes[k] = b
		}
		if !acc && len(b) >= 48 {
			if rcv := binary.BigEndian.Uint64(b[32:40]); rcv != 0 && rcv != f.Receive && rcv != f.Transmit && rcv != f.Origin {
				if p.badRecv == nil {
					p.badRecv = map[uint64]string{}
				}
				p.badRecv[rcv] = m.name
			}
		}
	}
	if os.Getenv("VERIF_DEBUG") != "" {
		if f, err := os.OpenFile("/tmp/c05dbg.log", os.O_APPEND|os.O_CREATE|os.O_WRONLY, 0o644); err == nil {
			fmt.Fprintf(f, "REQ withhold=%v inter=%v origin=%x rx=%x tx=%x script=%d held=%v\n", p.withhold, rq.interleaved, f2.Origin, f2.Receive, f2.Transmit, len(p.script), p.held != nil)
			f.Close()
		}
	}
	if p.withhold {
		// the response is lost on its way; whoever saw it can replay it later. It carries the tag of
		// script position 0 so that an offset computed from the replay is recognisable.
		p.held, _ = build(0, nil)
		return
	}
	g, _ := build(-1, nil)
	if gf, ok := peer.ParseNTP(g); ok {
		p.lastRx[from.Addr()] = gf.Receive
		p.lastTx[from.Addr()] = gf.Transmit
	}
	if p.wrap != nil {
		g = p.wrap(g, rq, nil)
	}
	s.Send(from, g)
}

// c05Leg runs the scripts against one client configuration. measure performs one call of the real client.
// c05Spy, when set, is the filter of the client under test: it sees every sample the client
// accepts, also those of an attempt whose result a later attempt of the same call overwrites.
var c05Spy *c03Spy

func c05Leg(r *ev.Run, name string, p *c05Peer, muts []c05Mut, measure func(ctx context.Context) (time.Time, time.Duration, error), rng *rand.Rand, nScripts int) {
	successGenuine, calls := 0, 0
	prevShift := new(time.Duration) // tag of the datagram the client accepted last (0 = a genuine reply)
	// prime (and count) with genuine-only scripts
	withholdNext := false
	runScript := func(id string, script []c05Mut) {
		if r.Only() != "" && r.Only() != id {
			return
		}
		p.mu.Lock()
		p.script = script
		p.sent = make([]bool, len(script))
		p.sentBytes = make([][]byte, len(script))
		p.withhold = withholdNext
		p.mu.Unlock()
		timeout := time.Second
		if withholdNext {
			timeout = 60 * time.Millisecond // nothing acceptable will arrive
		}
		defer func() {
			p.mu.Lock()
			p.withhold = false
			sb := p.stateBad
			p.stateBad = nil
			p.mu.Unlock()
			for _, n := range sb {
				r.Violation(name+"|state:request names the receive timestamp of a datagram that must not be accepted as the exchange it continues|"+n, id,
					map[string]any{"client": name, "rejected_datagram": n})
			}
		}()
		ctx, cancel := context.WithTimeout(context.Background(), timeout)
		var off time.Duration
		var ts time.Time
		var err error
		if c05Spy != nil {
			c05Spy.mu.Lock()
			c05Spy.all = nil
			c05Spy.mu.Unlock()
		}
		pnc := c02Recover(func() { ts, off, err = measure(ctx) })
		cancel()
		calls++
		r.Eval(1)
		p.mu.Lock()
		sent := append([]bool{}, p.sent...)
		sentBytes := append([][]byte{}, p.sentBytes...)
		p.mu.Unlock()
		var names []string
		for _, m := range script {
			names = append(names, m.name)
		}
		w := map[string]any{"client": name, "script": names, "error": fmt.Sprint(err), "offset": off.String()}
		r.Distinct(name + fmt.Sprint(names) + fmt.Sprint(sent))
		if pnc != nil {
			w["panic"] = fmt.Sprint(pnc)
			r.Violation(name+"|panic|"+scriptClass(script), id, w)
			return
		}
		spied := 0
		if c05Spy != nil {
			// every sample the client accepted went through the spy filter with its four timestamps:
			// (t2 - t3) names the datagram whose transmit timestamp was used, (t1 - t0) must carry the
			// tag of the same datagram (basic-form reply) or of the datagram accepted before it
			// (interleaved-form reply: the receive timestamp of the previous exchange)
			c05Spy.mu.Lock()
			samples := append([][4]time.Time{}, c05Spy.all...)
			c05Spy.mu.Unlock()
			spied = len(samples)
			for _, q := range samples {
				a, b := q[1].Sub(q[0]), q[2].Sub(q[3])
				kB, shiftB, ok := c05IdentifyHalf(b, len(script))
				w["sample_receive_side"], w["sample_transmit_side"] = a.String(), b.String()
				if !ok {
					r.Violation(name+"|wrong-value:reported offset corresponds to none of the datagrams sent|"+scriptClass(script), id, w)
					return
				}
				if kB >= 0 && !sent[kB] {
					w["accepted_datagram"] = ev.Hex(sentBytes[kB])
					r.Violation(name+"|wrong-value:offset computed from a datagram that must not be accepted|"+script[kB].name, id, w)
					return
				}
				near := func(x, y time.Duration) bool { d := x - y; return d > -20*time.Second && d < 20*time.Second }
				switch {
				case near(a, shiftB):
				case near(a, *prevShift):
					r.Class(name + ":interleaved-form reply combined with the previous exchange")
				default:
					w["previous_accepted_tag"] = prevShift.String()
					r.Violation(name+"|wrong-value:timestamps combined that belong neither to one datagram nor to it and the exchange accepted before|"+scriptClass(script), id, w)
					return
				}
				*prevShift = shiftB
			}
		}
		if err != nil {
			if len(script) == 0 {
				r.Class(name + ":genuine-only:error")
			} else {
				r.Class(name + ":error-on:" + script[0].name)
			}
			return
		}
		if ts.IsZero() {
			// success without a receive timestamp: no datagram stands behind the reported offset
			r.Violation(name+"|wrong-value:success reported although no datagram was accepted|"+scriptClass(script), id, w)
			return
		}
		k, ok := c05Identify(off, len(script))
		if spied > 0 {
			// the samples were attributed one by one above; the value returned is the last one's
			// (the datagram named by its transmit side)
			c05Spy.mu.Lock()
			q := c05Spy.all[len(c05Spy.all)-1]
			c05Spy.mu.Unlock()
			k, _, ok = c05IdentifyHalf(q[2].Sub(q[3]), len(script))
		}
		switch {
		case !ok:
			r.Violation(name+"|wrong-value:reported offset corresponds to none of the datagrams sent|"+scriptClass(script), id, w)
		case k == -1:
			if len(script) == 0 {
				successGenuine++
				r.Class(name + ":genuine-only:accepted")
			} else {
				r.Class(name + ":skipped:" + script[0].name)
			}
		case !sent[k]:
			w["accepted_datagram"] = ev.Hex(sentBytes[k])
			r.Violation(name+"|wrong-value:offset computed from a datagram that must not be accepted|"+script[k].name, id, w)
		default:
			r.Class(name + ":accepted-acceptable:" + script[k].name)
		}
	}
	for i := 0; i < 6; i++ {
		runScript(fmt.Sprintf("%s.g%d", name, i), nil)
	}
	// every mutation alone before the genuine reply
	for i, m := range muts {
		runScript(fmt.Sprintf("%s.m%d", name, i), []c05Mut{m})
		if i%5 == 4 {
			runScript(fmt.Sprintf("%s.g%d", name, 100+i), nil)
		}
	}
	// a crafted datagram as the only answer (the genuine reply is lost), then a genuine exchange:
	// nothing of the rejected datagram may survive in what the client sends next
	if strings.Contains(name, "interleaved") && !strings.Contains(name, "new client") {
		for i, m := range muts {
			if m.hdr == nil && m.raw == nil {
				continue
			}
			withholdNext = true
			runScript(fmt.Sprintf("%s.w%d", name, i), []c05Mut{m})
			withholdNext = false
			runScript(fmt.Sprintf("%s.wg%d", name, i), nil)
			r.Class(name + ":rejected datagram as the only answer, then a genuine exchange")
		}
	}
	// random scripts of two or three crafted datagrams
	for i := 0; i < nScripts; i++ {
		n := 2 + rng.IntN(2)
		var sc []c05Mut
		for j := 0; j < n; j++ {
			sc = append(sc, muts[rng.IntN(len(muts))])
		}
		runScript(fmt.Sprintf("%s.s%d", name, i), sc)
		if i%7 == 6 {
			runScript(fmt.Sprintf("%s.g%d", name, 1000+i), nil)
		}
	}
	p.mu.Lock()
	r.Set("requests_seen:"+name, p.requests)
	r.Set("interleaved_requests_seen:"+name, p.inter)
	p.mu.Unlock()
	r.Set("genuine_only_successes:"+name, successGenuine)
	if r.Only() == "" && successGenuine < 4 {
		r.Inconclusive(fmt.Sprintf("client %s accepted only %d genuine-only exchanges: a run in which nothing is accepted proves nothing", name, successGenuine))
	}
}

func scriptClass(s []c05Mut) string {
	if len(s) == 0 {
		return "genuine only"
	}
	return s[0].name
}

func init() {
	registerChild("C05", "exploration", "plain", func(r *ev.Run) {
		registerScriptedRealClock()
		rng := r.Rng("c05")
		log := slog.New(slog.DiscardHandler)
		srvIP, cliIP, otherIP := blockIP(r, 5, 1), blockIP(r, 5, 2), blockIP(r, 5, 3)
		newPeer := func(port uint16) *c05Peer {
			p := &c05Peer{other: otherIP, rng: rng, issued: map[int]int{}, lastTx: map[netip.Addr]uint64{}, lastRx: map[netip.Addr]uint64{}}
			s, err := peer.NewNTPServer(netip.AddrPortFrom(srvIP, port), p.handle)
			if err != nil {
				r.Inconclusive("bind: " + err.Error())
				r.Finish("", 0)
			}
			p.srv = s
			return p
		}
		nScripts := r.Pick(150, 6000)
		local := &net.UDPAddr{IP: cliIP.AsSlice()}
		// ---- IP, plain, basic and interleaved
		for mode := 0; mode < 4; mode++ {
			// mode 2: a client in interleaved mode that is new for every call, so that its first request
			// of the call is a basic-mode request (no previous exchange to refer to)
			// mode 3: one client in interleaved mode asked to measure against two server addresses in
			// turn: every first request of a call is a basic-mode request although a previous
			// exchange (with the other address) is on record
			inter, fresh, alt := mode > 0, mode == 2, mode == 3
			calls := 0
			p := newPeer(0)
			c := &client.IPClient{Log: log, InterleavedMode: inter}
			name := "ip-client"
			c05Spy = nil
			if inter {
				name = "ip-client(interleaved)"
				c05Spy = &c03Spy{}
				c.Filter = c05Spy
			}
			if fresh {
				name = "ip-client(interleaved,new client per call)"
			}
			remote := net.UDPAddrFromAddrPort(p.srv.Addr)
			remote2 := remote
			if alt {
				name = "ip-client(interleaved,two servers in turn)"
				if s2, err := peer.NewNTPServer(netip.AddrPortFrom(srvIP, 0), p.handle); err == nil {
					defer s2.Close()
					remote2 = net.UDPAddrFromAddrPort(s2.Addr)
				}
			}
			c05Leg(r, name, p, c05HeaderMuts(rng, r.Thorough()), func(ctx context.Context) (time.Time, time.Duration, error) {
				rm := *remote
				calls++
				if calls%2 == 0 {
					rm = *remote2
				}
				cc := c
				if fresh {
					cc = &client.IPClient{Log: log, InterleavedMode: true, Filter: c05Spy}
				}
				return client.MeasureClockOffsetIP(ctx, log, cc, local, &rm)
			}, rng, map[bool]int{false: nScripts, true: nScripts / 4}[fresh || alt])
			p.srv.Close()
		}
		// ---- a local address that is not an IP address: no datagram can be exchanged at all, so no offset may be reported
		if r.Only() == "" {
			for _, la := range []*net.UDPAddr{{}, {IP: net.IP{1, 2, 3}}} {
				c := &client.IPClient{Log: log}
				ctx, cancel := context.WithTimeout(context.Background(), 200*time.Millisecond)
				var err error
				var ts time.Time
				pnc := c02Recover(func() {
					ts, _, err = client.MeasureClockOffsetIP(ctx, log, c, la, &net.UDPAddr{IP: srvIP.AsSlice(), Port: 1})
				})
				cancel()
				r.Eval(1)
				if pnc == nil && err == nil {
					r.Violation("ip-client|wrong-value:success reported although no datagram was accepted|local address without an IP address", "nolocal", map[string]any{"local": fmt.Sprint(la), "timestamp": ts.String()})
				} else {
					r.Class("ip-client:error-on:local address without an IP address")
				}
			}
		}
		// ---- IP with NTS
		{
			p := newPeer(0)
			p.nts = true
			ke, err := peer.NewNTSKEServer(netip.AddrPortFrom(srvIP, 0), nil, nil)
			if err != nil {
				r.Inconclusive(err.Error())
				r.Finish("", 0)
			}
			p.ke = ke
			ke.SetScript(func(c *peer.NTSKEConn) ([]byte, []int, int) {
				var cs [][]byte
				for i := 0; i < 8; i++ {
					cs = append(cs, peer.TaggedCookie(c.ID, i, 100))
				}
				return peer.KEMessage(15, srvIP.String(), p.srv.Addr.Port(), cs), nil, -1
			})
			c := &client.IPClient{Log: log}
			c05Spy = nil
			c.Auth.Enabled = true
			c.Auth.NTSKEFetcher = *c20NewFetcher(netip.AddrPortFrom(srvIP, uint16(ke.L.Addr().(*net.TCPAddr).Port)))
			muts := append(c05NTSMuts(), c05HeaderMuts(rng, false)...)
			c05Leg(r, "ip-client(NTS)", p, muts, func(ctx context.Context) (time.Time, time.Duration, error) {
				return client.MeasureClockOffsetIP(ctx, log, c, local, &net.UDPAddr{IP: srvIP.AsSlice(), Port: 1})
			}, rng, nScripts)
			p.srv.Close()
			ke.Close()
		}
		// ---- IP with NTS and interleaved mode: a withheld response replayed to the next request, which
		// repeats the same NTP header (the client learned nothing) under a fresh unique identifier
		{
			p := newPeer(0)
			p.nts = true
			ke, err := peer.NewNTSKEServer(netip.AddrPortFrom(srvIP, 0), nil, nil)
			if err == nil {
				p.ke = ke
				ke.SetScript(func(c *peer.NTSKEConn) ([]byte, []int, int) {
					var cs [][]byte
					for i := 0; i < 8; i++ {
						cs = append(cs, peer.TaggedCookie(c.ID, i, 100))
					}
					return peer.KEMessage(15, srvIP.String(), p.srv.Addr.Port(), cs), nil, -1
				})
				// every sample the client accepts goes through its filter: a spy filter shows samples that are
				// accepted within a call even if a later attempt of the same call overwrites the returned value
				spy := &c03Spy{}
				c := &client.IPClient{Log: log, InterleavedMode: true, Filter: spy}
				c.Auth.Enabled = true
				c.Auth.NTSKEFetcher = *c20NewFetcher(netip.AddrPortFrom(srvIP, uint16(ke.L.Addr().(*net.TCPAddr).Port)))
				name := "ip-client(NTS,interleaved)"
				call := func(d time.Duration) (time.Time, time.Duration, error) {
					ctx, cancel := context.WithTimeout(context.Background(), d)
					defer cancel()
					return client.MeasureClockOffsetIP(ctx, log, c, local, &net.UDPAddr{IP: srvIP.AsSlice(), Port: 1})
				}
				setScript := func(sc []c05Mut, withhold bool) {
					p.mu.Lock()
					p.script, p.withhold = sc, withhold
					p.sent, p.sentBytes = make([]bool, len(sc)), make([][]byte, len(sc))
					p.mu.Unlock()
				}
				replay := c05Mut{name: "withheld response of the previous request with the new unique id appended", nts: "withheld response of the previous request with the new unique id appended", forceBad: true}
				for i := 0; i < r.Pick(12, 300); i++ {
					id := fmt.Sprintf("%s.w%d", name, i)
					if r.Only() != "" && r.Only() != id {
						continue
					}
					setScript(nil, false)
					_, _, e1 := call(time.Second) // reach interleaved mode
					setScript(nil, true)
					_, _, e2 := call(60 * time.Millisecond) // the interleaved request's response is lost
					setScript([]c05Mut{replay}, false)
					spy.mu.Lock()
					spy.all = nil
					spy.mu.Unlock()
					ts, off, e3 := call(time.Second)
					r.Eval(3)
					spy.mu.Lock()
					for _, q := range spy.all { // a sample computed from the replayed datagram?
						so := (q[1].Sub(q[0]) + q[2].Sub(q[3])) / 2
						if k, ok := c05Identify(so, 1); ok && k == 0 {
							off, e3, ts = so, nil, q[3]
						}
					}
					spy.mu.Unlock()
					w := map[string]any{"client": name, "steps": []string{"genuine: " + fmt.Sprint(e1), "response withheld: " + fmt.Sprint(e2), "replay with appended id, then genuine: " + fmt.Sprint(e3)}, "offset": off.String()}
					if os.Getenv("VERIF_DEBUG") != "" {
						if f, err := os.OpenFile("/tmp/c05dbg.log", os.O_APPEND|os.O_CREATE|os.O_WRONLY, 0o644); err == nil {
							fmt.Fprintln(f, "DEBUG", w)
							f.Close()
						}
					}
					if e3 == nil && !ts.IsZero() {
						if k, ok := c05Identify(off, 1); ok && k == 0 {
							r.Violation(name+"|wrong-value:offset computed from a datagram that must not be accepted|"+replay.name, id, w)
						} else {
							r.Class(name + ":skipped:" + replay.name)
						}
					} else {
						r.Class(name + ":error-on:" + replay.name)
					}
					r.Distinct(id)
				}
				ke.Close()
			}
			p.srv.Close()
		}
		c05SCION(r, rng, nScripts)
		r.Sample(map[string]any{"script": []string{"origin off by one unit or second", "genuine"}, "tagging": "crafted datagram k reports a server clock 1000 s x 3^(k+1) ahead; the genuine terminator reports the true time",
			"verdict": "success with an offset near a crafted datagram's tag is a violation unless the statement's predicate accepts that datagram"})
		r.Assume("loopback; a datagram from the queried address but another port is not judged (the statement speaks of the queried server)")
		r.Assume("interleaved replies are tagged through their transmit timestamp only (the other three timestamps are the client's own record of the previous exchange), so the tag shows as half the shift")
		r.Finish("scripts [crafted..., genuine] answered to every request of the real IP client (basic, interleaved, NTS) and the real SCION client (plain, packet-authenticated): every single-field mutation of a genuine reply "+
			"(leap/version/mode byte over its values, stratum, origin +-1 unit/second/zero/request's receive or origin, transmit before receive, other fields random, lengths 0..47, random bytes, the request echoed, "+
			"another source address / ISD-AS / host / destination, NTS: other unique id, wrong key, wrong direction, missing fields, bit flips in header/id/nonce/ciphertext after sealing, length words, replay of the previous response; "+
			"SPAO: MAC bit flips, wrong key, covered byte changed) alone and in random scripts of 2..3. Oracle: the returned offset identifies the datagram; success from a datagram the statement's predicate rejects is a violation. "+
			"distinct_nontrivial = distinct (client, script, per-datagram acceptability) tuples", 20)
	})
}
