package monitors

import (
	"bytes"
	"context"
	"crypto/tls"
	"encoding/binary"
	"fmt"
	"github.com/scionproto/scion/pkg/slayers"
	"log/slog"
	"math/rand/v2"
	"net/netip"
	"strconv"
	"strings"
	"time"

	"github.com/scionproto/scion/pkg/addr"
	"github.com/scionproto/scion/pkg/slayers/path"

	"example.com/scion-time/net/nts"
	"example.com/scion-time/net/ntske"

	"verif/harness/internal/ev"
	"verif/harness/internal/peer"
)

// C09 — servers answer exactly the valid client requests, once, to the sender.
// The real IP and SCION listeners run in a child process; the monitor is a raw UDP peer
// that decides "no reply" by the ordering guarantee of a sentinel request (see peer.UDPClient).

// blockIP returns the private loopback address 127.(100+prop).T.host of a check.
func blockIP(r *ev.Run, prop, host int) netip.Addr {
	t := int((r.Seed()*2+int64(map[bool]int{false: 0, true: 1}[r.Thorough()]))%250) + 1
	if t < 1 {
		t = 1
	}
	return netip.AddrFrom4([4]byte{127, byte(100 + prop), byte(t), byte(host)})
}

// fetchNTS performs a real key exchange with the target's NTS-KE server.
func fetchNTS(server netip.Addr) (ntske.Data, error) {
	f := ntske.Fetcher{Log: slog.New(slog.DiscardHandler), Port: strconv.Itoa(ntske.ServerPortIP)}
	f.TLSConfig = tls.Config{InsecureSkipVerify: true, ServerName: server.String(), MinVersion: tls.VersionTLS13, NextProtos: []string{"ntske/1"}}
	ctx, cancel := context.WithTimeout(context.Background(), 10*time.Second)
	defer cancel()
	return f.FetchData(ctx)
}

// ntsRequest appends NTS extension fields (authenticated under d.C2sKey, first cookie of d) to a 48-byte header.
func ntsRequest(hdr []byte, d ntske.Data, nPlaceholders int) (pkt []byte, uid []byte) {
	dd := d
	dd.Cookie = make([][]byte, 8-nPlaceholders)
	for i := range dd.Cookie {
		dd.Cookie[i] = d.Cookie[0]
	}
	p, id := nts.NewRequestPacket(dd)
	buf := append([]byte{}, hdr[:48]...)
	nts.EncodePacket(&buf, &p)
	return buf, id
}

type c09Case struct {
	id      string
	data    []byte
	tx      uint64 // unique transmit timestamp embedded (0 if shorter than 48 bytes)
	expect  bool
	class   string
	replies int
}

func c09Expect(b []byte, ntsValid bool) bool {
	if len(b) < 48 {
		return false
	}
	li, vn, mode := b[0]>>6, (b[0]>>3)&7, b[0]&7
	if li != 0 && li != 3 {
		return false
	}
	if !((vn >= 2 && vn <= 4 && mode == 3) || (vn == 1 && mode == 0)) {
		return false
	}
	if len(b) > 48 && !ntsValid {
		return false
	}
	return true
}

type c09Transport struct {
	name string
	// wrap turns an NTP payload into the datagram to send; unwrap extracts the NTP payload
	// of a received datagram and checks the transport-level addressing of the reply.
	wrap   func(payload []byte, rng *rand.Rand) (dgram []byte, check func(reply []byte) (ntpPayload []byte, problem string))
	dst    netip.AddrPort
	client *peer.UDPClient
}

func c09Run(r *ev.Run, tr *c09Transport, cases []*c09Case, rng *rand.Rand, tgt *Target) bool {
	const batch = 24
	for i := 0; i < len(cases); i += batch {
		grp := cases[i:min(i+batch, len(cases))]
		byTx := map[uint64]*c09Case{}
		checks := map[uint64]func([]byte) ([]byte, string){}
		for _, c := range grp {
			dg, chk := tr.wrap(c.data, rng)
			if c.tx != 0 {
				byTx[c.tx] = c
				checks[c.tx] = chk
			}
			if err := tr.client.Send(tr.dst, dg); err != nil {
				r.Inconclusive("send failed: " + err.Error())
				return false
			}
		}
		stx := peer.UniqueTime64()
		sdg, schk := tr.wrap(peer.NTPRequest(stx), rng)
		var before []peer.Datagram
		var hit *peer.Datagram
		for attempt := 0; attempt < 3 && hit == nil; attempt++ {
			if err := tr.client.Send(tr.dst, sdg); err != nil {
				r.Inconclusive("send failed: " + err.Error())
				return false
			}
			var b []peer.Datagram
			b, hit = tr.client.ReadUntil(5*time.Second, func(d peer.Datagram) bool {
				p, _ := schk(d.Data)
				return peer.NTPOrigin(p) == stx
			})
			before = append(before, b...)
		}
		if hit == nil {
			alive := tgt.Alive()
			w := map[string]any{"transport": tr.name, "alive": alive}
			var ids []string
			for _, c := range grp {
				ids = append(ids, c.id+":"+c.class+":"+ev.Hex(c.data[:min(len(c.data), 96)]))
			}
			w["datagrams_before_the_unanswered_sentinel"] = ids
			if alive {
				w["goroutines"] = tgt.Dump()
				r.Violation(tr.name+"-listener|missing-reply:well-formed request not answered after the listed datagrams (listener stuck)", grp[0].id, w)
			} else {
				first, frame := tgt.ExitInfo()
				w["panic"], w["frame"] = first, frame
				r.Violation(tr.name+"-listener|missing-reply:listener process died", grp[0].id, w)
			}
			return false
		}
		for _, d := range before {
			p, _ := schk(d.Data) // transport unwrap only
			c := byTx[peer.NTPOrigin(p)]
			if c == nil {
				r.Violation(tr.name+"-listener|extra-reply:datagram that answers none of the requests sent", grp[0].id,
					map[string]any{"reply": ev.Hex(d.Data), "from": d.From.String()})
				continue
			}
			c.replies++
			pl, problem := checks[c.tx](d.Data)
			if problem != "" {
				r.Violation(tr.name+"-listener|wrong-reply:"+problem, c.id, map[string]any{"request": ev.Hex(c.data), "reply": ev.Hex(d.Data)})
			}
			if d.From != tr.dst {
				r.Violation(tr.name+"-listener|wrong-reply:not sent from the address and port the request was sent to", c.id, map[string]any{"from": d.From.String()})
			}
			if len(pl) >= 48 && (pl[0]&0x3f != 4<<3|4 || pl[1] != 1) {
				r.Violation(tr.name+"-listener|wrong-reply:not a version-4 server-mode stratum-1 packet", c.id, map[string]any{"reply": ev.Hex(pl)})
			}
		}
		for _, c := range grp {
			r.Eval(1)
			r.Distinct(tr.name + ev.Hex(c.data[:min(len(c.data), 40)]) + strconv.Itoa(len(c.data)))
			switch {
			case c.expect && c.replies == 1:
				r.Class(tr.name + ":answered:" + c.class)
			case !c.expect && c.replies == 0:
				r.Class(tr.name + ":ignored:" + c.class)
			case c.expect && c.replies == 0:
				r.Violation(tr.name+"-listener|missing-reply:valid client request not answered|"+c.class, c.id, map[string]any{"request": ev.Hex(c.data)})
			case c.expect && c.replies > 1:
				r.Violation(tr.name+"-listener|extra-reply:valid client request answered more than once|"+c.class, c.id, map[string]any{"request": ev.Hex(c.data), "replies": c.replies})
			default:
				r.Violation(tr.name+"-listener|extra-reply:payload that is not a valid client request was answered|"+c.class, c.id,
					map[string]any{"request": ev.Hex(c.data), "first_byte": c.data[0], "length": len(c.data)})
			}
		}
	}
	return true
}

// c09Second is a second NTS session with the same target (nil if the second key exchange failed).
var c09Second *ntske.Data

func c09Cases(r *ev.Run, rng *rand.Rand, d ntske.Data, tag string) []*c09Case {
	var cases []*c09Case
	lengths := []int{0, 1, 47, 48, 49, 76, 100}
	if r.Thorough() {
		lengths = []int{0, 1, 47, 48, 49, 75, 76, 100, 1024, 2047, 2048, 2049}
	}
	valid := peer.NTPRequest(0)
	n := 0
	add := func(b []byte, expect bool, class string) {
		c := &c09Case{id: fmt.Sprintf("%s%d", tag, n), data: b, expect: expect, class: class}
		n++
		if len(b) >= 48 {
			c.tx = peer.UniqueTime64()
			binary.BigEndian.PutUint64(b[40:], c.tx)
		}
		cases = append(cases, c)
	}
	fills := []string{"zero", "random", "copied-valid"}
	if r.Thorough() { // many more draws of the random remainder
		for i := 0; i < 60; i++ {
			fills = append(fills, "random")
		}
	}
	for fb := 0; fb < 256; fb++ {
		for _, l := range lengths {
			for fi, fill := range fills {
				_ = fi
				b := make([]byte, l)
				switch fill {
				case "random":
					for i := range b {
						b[i] = byte(rng.IntN(256))
					}
					// keep random trailing data from looking like extension fields of length < 4
				case "copied-valid":
					copy(b, valid)
					for i := 48; i < l; i++ {
						b[i] = byte(i)
					}
				}
				if l > 0 {
					b[0] = byte(fb)
				}
				cls := "len<48"
				switch {
				case l == 48:
					cls = "len=48"
				case l > 48:
					cls = "len>48,trailing-" + fill
				}
				add(b, c09Expect(b, false), cls)
			}
		}
	}
	// the valid first bytes with random remaining header fields
	for _, fb := range []byte{0x23, 0x1b, 0x13, 0x08, 0xe3, 0xdb, 0xd3, 0xc8} {
		for k := 0; k < r.Pick(24, 2000); k++ {
			b := make([]byte, 48)
			for i := range b {
				b[i] = byte(rng.IntN(256))
			}
			b[0] = fb
			add(b, true, "len=48,valid-first-byte,random-header")
		}
	}
	// valid NTS requests for all first bytes, and the same with one flipped bit
	for fb := 0; fb < 256; fb++ {
		hdr := peer.NTPRequest(0)
		hdr[0] = byte(fb)
		for i := 1; i < 40; i++ {
			hdr[i] = byte(rng.IntN(256))
		}
		tx := peer.UniqueTime64()
		binary.BigEndian.PutUint64(hdr[40:], tx)
		// two sessions (two key exchanges) share the listener: requests of both are interleaved
		ds := d
		if c09Second != nil && fb%2 == 1 {
			ds = *c09Second
		}
		pkt, _ := ntsRequest(hdr, ds, rng.IntN(3))
		c := &c09Case{id: fmt.Sprintf("%snts%d", tag, fb), data: pkt, tx: tx, expect: c09Expect(pkt, true), class: "len>48,valid-NTS"}
		cases = append(cases, c)
		if c09Second != nil && fb%8 == 0 {
			// the cookie of one session with the authenticator of the other: never answered
			mix := *c09Second
			mix.C2sKey, mix.S2cKey = d.C2sKey, d.S2cKey
			hdr2 := append([]byte{}, hdr...)
			tx3 := peer.UniqueTime64()
			binary.BigEndian.PutUint64(hdr2[40:], tx3)
			hdr2[0] = 0x23
			pm, _ := ntsRequest(hdr2, mix, rng.IntN(3))
			cases = append(cases, &c09Case{id: fmt.Sprintf("%sntsmix%d", tag, fb), data: pm, tx: tx3, expect: false, class: "len>48,NTS-cookie-of-one-session-authenticator-of-another"})
		}
		bad := append([]byte{}, pkt...)
		tx2 := peer.UniqueTime64()
		binary.BigEndian.PutUint64(bad[40:], tx2) // changes authenticated bytes: the authenticator no longer verifies
		if rng.IntN(2) == 0 {
			pos := 48 + rng.IntN(36) // inside the unique identifier field body or header
			if pos < 52 {
				pos = 52
			}
			bad[pos] ^= 1 << uint(rng.IntN(8))
		}
		cases = append(cases, &c09Case{id: fmt.Sprintf("%sntsbad%d", tag, fb), data: bad, tx: tx2, expect: false, class: "len>48,NTS-authenticator-invalid"})
	}
	// valid NTS requests of sizes up to exactly the IP listener's receive buffer (2048 bytes): many
	// placeholders, and a unique identifier stretched to make up the remainder
	if len(d.Cookie) > 0 {
		cl := (len(d.Cookie[0]) + 3) &^ 3
		for _, target := range []int{1236, 2040, 2044, 2048} {
			for np := 17; np >= 0; np-- {
				l := target - 48 - 4 - (np+1)*(4+cl) - 40
				if l < 32 || l > 400 || l%4 != 0 {
					continue
				}
				hdr := peer.NTPRequest(0)
				hdr[0] = 0x23
				tx := peer.UniqueTime64()
				binary.BigEndian.PutUint64(hdr[40:], tx)
				pkt := peer.NTSRequest(hdr, randBytes(rng, l), d.Cookie[0], np, d.C2sKey)
				if len(pkt) == target {
					cases = append(cases, &c09Case{id: fmt.Sprintf("%sntslen%d", tag, target), data: pkt, tx: tx, expect: true, class: fmt.Sprintf("len=%d,valid-NTS", target)})
				}
				break
			}
		}
	}
	rng.Shuffle(len(cases), func(i, j int) { cases[i], cases[j] = cases[j], cases[i] })
	return cases
}

func init() {
	register("C09", "exploration", func(r *ev.Run) {
		srv := blockIP(r, 9, 1)
		cli := blockIP(r, 9, 2)
		other := blockIP(r, 9, 3)
		tgt, err := StartTarget("plain", "-ip", srv.String(), "-kinds", "ip,scion,ntske")
		if err != nil {
			r.Inconclusive("target: " + err.Error())
			r.Finish("target could not be started", 0)
		}
		d, err := fetchNTS(srv)
		if err != nil || len(d.Cookie) == 0 {
			r.Inconclusive(fmt.Sprint("key exchange with the target failed: ", err))
			tgt.Kill()
			r.Finish("key exchange failed", 0)
		}
		if d2, err := fetchNTS(srv); err == nil && len(d2.Cookie) > 0 {
			c09Second = &d2
		}
		uc, err := peer.NewUDPClient(cli)
		if err != nil {
			r.Inconclusive(err.Error())
			tgt.Kill()
			r.Finish("", 0)
		}
		oc, _ := peer.NewUDPClient(other)
		rng := r.Rng("c09")

		// ---- IP listener
		ipT := &c09Transport{name: "ip", dst: netip.AddrPortFrom(srv, 123), client: uc,
			wrap: func(p []byte, _ *rand.Rand) ([]byte, func([]byte) ([]byte, string)) {
				return p, func(reply []byte) ([]byte, string) { return reply, "" }
			}}
		okIP := c09Run(r, ipT, c09Cases(r, rng, d, "ip"), rng, tgt)

		// ---- the same from a sender bound to the NTP port itself (a peer daemon's socket): the verdict
		// on a request depends on the payload, not on the source port
		if okIP && (r.Only() == "" || strings.HasPrefix(r.Only(), "ip123-")) {
			if uc123, err := peer.NewUDPClientAt(netip.AddrPortFrom(cli, 123)); err == nil {
				t123 := &c09Transport{name: "ip(source port 123)", dst: netip.AddrPortFrom(srv, 123), client: uc123, wrap: ipT.wrap}
				var cs []*c09Case
				for fb := 0; fb < 256; fb++ {
					b := make([]byte, 48)
					for i := 1; i < 40; i++ {
						b[i] = byte(rng.IntN(256))
					}
					b[0] = byte(fb)
					c := &c09Case{id: fmt.Sprintf("ip123-%d", fb), data: b, tx: peer.UniqueTime64(), expect: c09Expect(b, false), class: "len=48,from-port-123"}
					binary.BigEndian.PutUint64(b[40:], c.tx)
					cs = append(cs, c)
				}
				c09Run(r, t123, cs, rng, tgt)
				uc123.Close()
			} else {
				r.Class("source-port-123-not-available")
			}
		}

		// ---- replies fed back as requests get no answer
		if okIP {
			tx := peer.UniqueTime64()
			_ = uc.Send(ipT.dst, peer.NTPRequest(tx))
			_, hit := uc.ReadUntil(5*time.Second, func(dg peer.Datagram) bool { return peer.NTPOrigin(dg.Data) == tx })
			if hit != nil {
				var fb []*c09Case
				for k := 0; k < 20; k++ {
					b := append([]byte{}, hit.Data...)
					c := &c09Case{id: fmt.Sprintf("fb%d", k), data: b, tx: peer.UniqueTime64(), expect: false, class: "server-reply-fed-back"}
					binary.BigEndian.PutUint64(b[40:], c.tx)
					fb = append(fb, c)
				}
				c09Run(r, ipT, fb, rng, tgt)
			}
		}

		// ---- SCION listener (same IA, empty path; and hand-built multi-hop paths)
		lia, _ := addr.ParseIA("1-ff00:0:110")
		ria, _ := addr.ParseIA("2-ff00:0:220")
		runSC := func(srv netip.Addr, tgt *Target, d ntske.Data, tag string, ports []uint16) {
			for _, port := range ports {
				if !tgt.Alive() {
					break
				}
				underlay := port
				scT := &c09Transport{name: fmt.Sprintf("%sscion(underlay %d)", tag, underlay), dst: netip.AddrPortFrom(srv, underlay), client: uc}
				scT.wrap = func(p []byte, rng *rand.Rand) ([]byte, func([]byte) ([]byte, string)) {
					seed := rng.Uint64()
					mk := func() path.Path {
						lr := rand.New(rand.NewPCG(seed, 7))
						switch lr.IntN(4) {
						case 0:
							return nil
						case 1:
							return peer.SCIONPath(lr, 1+lr.IntN(5))
						case 2:
							return peer.SCIONPath(lr, 1+lr.IntN(3), 1+lr.IntN(3))
						default:
							return peer.SCIONPath(lr, 2, 2, 2)
						}
					}
					srcIA := ria
					pth := mk()
					if pth == nil {
						srcIA = lia
					}
					sport := uc.Local().Port()
					// SCION host addresses of either family, independently for source and destination
					srcHost, dstHost := cli, srv
					switch (seed >> 20) % 4 {
					case 1:
						srcHost = netip.MustParseAddr("fd00:1:2:3:4:5:6:7")
					case 2:
						dstHost = netip.MustParseAddr("fd00::9")
					case 3:
						srcHost, dstHost = netip.MustParseAddr("fd00:1:2:3:4:5:6:7"), netip.MustParseAddr("fd00::9")
					}
					pkt := &peer.SCIONPkt{SrcIA: srcIA, DstIA: lia, SrcHost: srcHost, DstHost: dstHost, SrcPort: sport, DstPort: 10123, Path: pth, Payload: p,
						FlowID: uint32(seed & 0xfffff)}
					// extension headers that mean nothing to the time service do not make a request invalid
					switch seed >> 44 & 7 {
					case 0:
						pkt.HBH = []*slayers.HopByHopOption{{OptType: slayers.OptionType(40 + seed>>48&7), OptData: randBytes(rand.New(rand.NewPCG(seed, 9)), int(seed>>52&7))}}
					case 1:
						pkt.E2E = []*slayers.EndToEndOption{{OptType: slayers.OptionType(40 + seed>>48&7), OptData: randBytes(rand.New(rand.NewPCG(seed, 9)), int(seed>>52&7))}}
					case 2:
						pkt.HBH = []*slayers.HopByHopOption{{OptType: slayers.OptionType(41), OptData: []byte{1, 2}}}
						pkt.E2E = []*slayers.EndToEndOption{{OptType: slayers.OptionType(42), OptData: []byte{3}}}
					case 3:
						// a packet authenticator option of another protocol (other SPI), of a size of its own: it
						// means nothing to the time service either
						d := randBytes(rand.New(rand.NewPCG(seed, 11)), []int{12, 16, 28, 32, 44, 60}[seed>>48&7%6])
						d[0], d[1], d[2], d[3], d[4] = 0, 0, 0, 99, 1
						o := &slayers.EndToEndOption{OptType: slayers.OptTypeAuthenticator, OptData: d}
						o.OptAlign = [2]uint8{4, 2}
						pkt.E2E = []*slayers.EndToEndOption{o}
					}
					dg, err := pkt.Serialize()
					if err != nil {
						panic(err)
					}
					return dg, func(reply []byte) ([]byte, string) {
						ps, err := peer.ParseSCION(reply)
						if err != nil || !ps.HasUDP {
							return nil, "reply is not a SCION/UDP packet"
						}
						problem := ""
						srcH, _ := ps.SCION.SrcAddr()
						dstH, _ := ps.SCION.DstAddr()
						if ps.SCION.SrcIA != lia || ps.SCION.DstIA != srcIA || srcH.IP() != dstHost || dstH.IP() != srcHost ||
							ps.UDP.SrcPort != 10123 || ps.UDP.DstPort != sport {
							problem = "SCION addresses or ports not exchanged"
						}
						exp := mk()
						var want []byte
						if exp != nil {
							rev, err := exp.Reverse()
							if err == nil {
								want = make([]byte, rev.Len())
								_ = rev.SerializeTo(want)
							}
						}
						if !bytes.Equal(want, ps.RawPath) && problem == "" {
							problem = "path is not the reversal of the request's path"
						}
						return ps.UDP.Payload, problem
					}
				}
				cs := c09Cases(r, rng, d, fmt.Sprintf("%ssc%d-", tag, underlay))
				c09Run(r, scT, cs, rng, tgt)
			}
		}
		if tgt.Alive() {
			runSC(srv, tgt, d, "", []uint16{10123, 30041})
		}
		// ---- listeners configured for hardware timestamping on an interface that never stamps a packet
		// (zone "lo"): no receive timestamp control message arrives, the listeners fall back on a clock
		// reading, and the verdict on every request is the same as with kernel timestamps (seed C09-l)
		if r.Only() == "" || strings.HasPrefix(r.Only(), "nots-") {
			srv2 := blockIP(r, 9, 4)
			if tgt2, err := StartTarget("plain", "-ip", srv2.String(), "-kinds", "ip,scion,ntske", "-zone", "lo"); err != nil {
				r.Class("no-rx-timestamp:target could not be started")
			} else {
				if d2, err := fetchNTS(srv2); err != nil || len(d2.Cookie) == 0 {
					r.Class("no-rx-timestamp:key exchange failed")
				} else {
					// the second session the cases mix in must be one with this target
					c09Second = nil
					if d3, err := fetchNTS(srv2); err == nil && len(d3.Cookie) > 0 {
						c09Second = &d3
					}
					ipT2 := &c09Transport{name: "ip(no kernel rx timestamp)", dst: netip.AddrPortFrom(srv2, 123), client: uc, wrap: ipT.wrap}
					if c09Run(r, ipT2, c09Cases(r, rng, d2, "nots-ip"), rng, tgt2) {
						runSC(srv2, tgt2, d2, "nots-", []uint16{10123})
					}
				}
				tgt2.Kill()
			}
		}
		if got := oc.Drain(200 * time.Millisecond); len(got) > 0 {
			r.Violation("listener|extra-reply:datagram delivered to a socket that sent nothing", "other-socket", map[string]any{"count": len(got), "first": ev.Hex(got[0].Data)})
		} else {
			r.Class("uninvolved-socket-silent")
		}
		tgt.Kill()
		r.Sample(map[string]any{"example_request": "first byte 0x23 (LI 0, VN 4, mode 3), 48 bytes, unique transmit timestamp", "expect": "exactly one reply with origin = that timestamp"})
		r.Assume("loopback; one 4-tuple is delivered to one SO_REUSEPORT socket and handled in order (sentinel discipline)")
		r.Assume("valid NTS requests carry cookies from a real key exchange with the target's NTS-KE server; the listener accepts a cookie more than once (stateless cookies)")
		r.Finish("all 256 first header bytes x datagram lengths {0,1,47,48,49,76,100} (thorough adds 75,1024,2047,2048,2049) x remainder {zero, random, copied from a valid request} with unique transmit timestamps, "+
			"plus for every first byte a valid NTS request (real cookie, authenticator under C2S) and the same with authenticated bytes changed; sent to the real IP listener and, wrapped in SCION/UDP over empty and "+
			"hand-built 1..3-segment paths, to the SCION listener on its service port and on the end-host port; server replies fed back as requests. Oracle: per datagram exactly one reply iff the statement's predicate holds, "+
			"attributed by origin timestamp, decided when the sentinel's reply arrives; reply header v4/mode 4/stratum 1, source = queried address, SCION addresses/ports exchanged, path = library reversal. "+
			"distinct_nontrivial = distinct datagrams (hash of the first 40 bytes and length, per transport)", 12)
	})
}
