package monitors

import (
	"fmt"
	"github.com/scionproto/scion/pkg/slayers"
	"math/rand/v2"
	"net/netip"
	"sync/atomic"
	"time"

	"github.com/scionproto/scion/pkg/addr"

	"example.com/scion-time/core/server"
	"example.com/scion-time/core/timebase"
	"example.com/scion-time/net/ntp"

	"verif/harness/internal/ev"
	"verif/harness/internal/peer"
)

// C06 — server replies are correct in basic and interleaved mode for every history.
// Hook level: histories of handleRequest / updateTXTimestamp under a scripted clock, with
// snapshots of the timestamp store before and after every operation.

// scriptedClock is the process-wide registered timebase clock of hook-level monitors.
type scriptedClock struct {
	now   atomic.Int64 // unix ns
	epoch atomic.Uint64
}

func (c *scriptedClock) Epoch() uint64                                    { return c.epoch.Load() }
func (c *scriptedClock) Now() time.Time                                   { return time.Unix(0, c.now.Load()).UTC() }
func (c *scriptedClock) Drift(d time.Duration) time.Duration              { return d / 1000 }
func (c *scriptedClock) Step(time.Duration)                               {}
func (c *scriptedClock) Adjust(offset, duration time.Duration, f float64) {}
func (c *scriptedClock) Sleep(d time.Duration)                            { time.Sleep(d) }

var theClock *scriptedClock

func registerScriptedClock() *scriptedClock {
	if theClock == nil {
		theClock = &scriptedClock{}
		theClock.now.Store(time.Date(2026, 1, 2, 3, 4, 5, 0, time.UTC).UnixNano())
		timebase.RegisterClock(theClock)
	}
	return theClock
}

type c06Op struct {
	Kind   string `json:"op"` // handle | update
	Client string `json:"client"`
	// handle
	Shape  string `json:"shape,omitempty"`
	Origin uint64 `json:"req_origin,omitempty"`
	ReqRX  uint64 `json:"req_rx,omitempty"`
	ReqTX  uint64 `json:"req_tx,omitempty"`
	RXIn   int64  `json:"rx_time_ns,omitempty"`
	Clock  int64  `json:"clock_ns,omitempty"`
	// update
	Ref  int    `json:"of_handle,omitempty"` // index of the handle op this update belongs to
	TX   string `json:"tx_kind,omitempty"`   // later | equal | earlier | lost
	TXNs int64  `json:"tx_time_ns,omitempty"`
	// observed
	RespOrigin uint64 `json:"resp_origin,omitempty"`
	RespRX     uint64 `json:"resp_rx,omitempty"`
	RespTX     uint64 `json:"resp_tx,omitempty"`
	RXOut      int64  `json:"rx_returned_ns,omitempty"`
	TXOut      int64  `json:"tx_returned_ns,omitempty"`
}

func t64u(t ntp.Time64) uint64 { return uint64(t.Seconds)<<32 | uint64(t.Fraction) }

// t64After: a is later than b as times less than 68 years apart (NTP timestamps wrap at the
// era boundary; the raw comparison of the repository's Time64.After does not apply across it).
func t64After(a, b ntp.Time64) bool { return int64(t64u(a)-t64u(b)) > 0 }

func u64t(u uint64) ntp.Time64 { return ntp.Time64{Seconds: uint32(u >> 32), Fraction: uint32(u)} }

type c06Shadow struct {
	tx      ntp.Time64
	anyGtRX bool // tx stamp was not later than rx: any tx > rx is acceptable
	unknown bool // touched by an update that could not be attributed
	updated bool
	clockGt bool // created with clock reading > rx time
}

type c06Snap map[string][]server.VerifRecord

func c06SnapAll(clients []string) c06Snap {
	s := c06Snap{}
	for _, c := range clients {
		if recs, _, ok := server.VerifSnapshot(c); ok {
			s[c] = recs
		}
	}
	return s
}

func recsEqual(a, b []server.VerifRecord) bool {
	if len(a) != len(b) {
		return false
	}
	for i := range a {
		if a[i] != b[i] {
			return false
		}
	}
	return true
}

func c06History(r *ev.Run, id string, rng *rand.Rand, nOps int) {
	clk := registerScriptedClock()
	server.VerifReset()
	base := time.Date(2026, 3, 4, 5, 6, 7, 0, time.UTC).UnixNano() + rng.Int64N(1e9)
	switch rng.IntN(8) {
	case 0, 1: // the pool straddles the NTP era boundary (2036-02-07 06:28:16 UTC): raw timestamps wrap, times do not
		base = 2085978496*1e9 - rng.Int64N(24)
		r.Class("history across the NTP era boundary")
	case 2:
		base = time.Date(2036+rng.IntN(60), 7, 1, 0, 0, 0, 0, time.UTC).UnixNano() + rng.Int64N(1e9)
		r.Class("history in NTP era 1")
	}
	// a small pool of timestamps 1..3 ns apart forces equal, decreasing and colliding values
	pool := make([]int64, 4+rng.IntN(9))
	v := base
	for i := range pool {
		pool[i] = v
		v += 1 + rng.Int64N(3)
	}
	pick := func() int64 { return pool[rng.IntN(len(pool))] }
	nClients := 1 + rng.IntN(6)
	clients := make([]string, nClients)
	for i := range clients {
		clients[i] = fmt.Sprintf("10.0.%d.%d", rng.IntN(3), i)
	}
	type past struct {
		op     int
		rxOut  time.Time
		txOut  time.Time
		respRX ntp.Time64
		cTX    ntp.Time64 // client's transmit timestamp of that request
	}
	replies := map[string][]past{}
	shadow := map[string]map[ntp.Time64]*c06Shadow{}
	owner := map[string]map[ntp.Time64]int{} // which handle operation created the record kept under (client, rx)
	for _, c := range clients {
		shadow[c] = map[ntp.Time64]*c06Shadow{}
		owner[c] = map[ntp.Time64]int{}
	}
	var pending []int // handle ops without update yet
	var ops []c06Op
	handleIdx := map[int]past{}
	handleClient := map[int]string{}
	fail := func(kind, class string, detail any) {
		r.Violation("handleRequest/updateTXTimestamp|"+kind+"|"+class, id, map[string]any{"history": ops, "failed_at": len(ops) - 1, "detail": detail})
	}
	for step := 0; step < nOps; step++ {
		doUpdate := len(pending) > 0 && rng.IntN(5) < 2
		if !doUpdate && len(pending) > 3 {
			doUpdate = true
		}
		if doUpdate {
			var hi int
			{
				k := 0
				if rng.IntN(3) == 0 { // reordered: not the oldest pending
					k = rng.IntN(len(pending))
				}
				hi = pending[k]
				pending = append(pending[:k], pending[k+1:]...)
			}
			h := handleIdx[hi]
			c := handleClient[hi]
			op := c06Op{Kind: "update", Client: c, Ref: hi}
			var txt time.Time
			switch rng.IntN(6) {
			case 0:
				op.TX = "lost"
				txt = h.txOut // the listener's fallback: the software time it got back from the handler
			case 1:
				op.TX = "equal-rx"
				txt = h.rxOut
			case 2:
				op.TX = "earlier"
				txt = h.rxOut.Add(-time.Duration(1 + rng.Int64N(1000)))
			default:
				op.TX = "later"
				txt = h.rxOut.Add(time.Duration(1 + rng.Int64N(50000)))
				if ntp.Time64FromTime(txt) == ntp.Time64FromTime(h.txOut) {
					txt = txt.Add(1) // a kernel stamp equal to the software time is indistinguishable from "lost"
				}
			}
			op.TXNs = txt.UnixNano()
			pre := c06SnapAll(clients)
			arg := txt
			var pnc any
			func() {
				defer func() { pnc = recover() }()
				server.VerifUpdateTXTimestamp(c, h.rxOut, h.txOut, &arg)
			}()
			ops = append(ops, op)
			r.Eval(1)
			if pnc != nil {
				fail("panic", "update", fmt.Sprint(pnc))
				return
			}
			post := c06SnapAll(clients)
			for _, oc := range clients {
				if oc != c && !recsEqual(pre[oc], post[oc]) {
					fail("state:records of another client changed", "update", map[string]any{"other": oc})
				}
			}
			rx64 := ntp.Time64FromTime(h.rxOut)
			var had, has *server.VerifRecord
			for i := range pre[c] {
				if pre[c][i].RX == rx64 {
					had = &pre[c][i]
				}
			}
			for i := range post[c] {
				if post[c][i].RX == rx64 {
					has = &post[c][i]
				}
			}
			// is the record for rx64 still the one of handle hi (not re-created by a later request)?
			sh := shadow[c][rx64]
			own := had != nil && sh != nil
			if o, ok := owner[c][rx64]; had != nil && (!ok || o != hi) {
				// the record under this receive timestamp was re-created by a later exchange; the exchange
				// this update belongs to is no longer on record, and what is recorded for the later one
				// (its own transmit time) must not change
				if had.TX == ntp.Time64FromTime(h.txOut) {
					// both exchanges carry the same receive and software transmit time (equal clock readings, or
					// clock readings not later than the receive time: both recorded as receive time + 1 ns): the
					// store cannot tell them apart, the stale update is applied to the later exchange
					if has == nil || *has != *had {
						fail("state:update of an exchange no longer on record changed the record of a later exchange with the same receive and software transmit timestamps", "update-"+op.TX,
							map[string]any{"rx": t64u(rx64), "record_before": had, "record_after": has})
					} else {
						r.Class("update:stale(record of a later exchange with the same receive and software transmit timestamps)->no change")
					}
					if sh != nil {
						sh.unknown = true
					}
					if has == nil {
						delete(shadow[c], rx64)
						delete(owner[c], rx64)
					}
					continue
				}
				if has == nil || *has != *had {
					fail("state:update of an exchange no longer on record changed the record of a later exchange with the same receive timestamp", "update-"+op.TX,
						map[string]any{"rx": t64u(rx64), "record_before": had, "record_after": has})
					if sh != nil {
						sh.unknown = true
					}
					if has == nil {
						delete(shadow[c], rx64)
						delete(owner[c], rx64)
					}
					continue
				}
				r.Class("update:stale(record belongs to a later exchange)->ignored")
				continue
			}
			if sh != nil && sh.unknown {
				// an earlier, unattributable update already rewrote this record
				r.Class("update:record-touched-by-unattributable-update")
				if has == nil {
					delete(shadow[c], rx64)
					delete(owner[c], rx64)
				}
				continue
			}
			switch {
			case had == nil:
				r.Class("update:exchange-no-longer-on-record")
				if has != nil {
					fail("state:update created a record", "update-"+op.TX, nil)
				}
			case op.TX == "lost":
				if has != nil {
					cls := "clock>rx"
					if !h.txOut.After(h.rxOut) {
						cls = "software tx time <= rx time"
					}
					fail("state:exchange kept although no transmit timestamp could be read", "update-lost,"+cls, map[string]any{"rx": t64u(rx64), "kept_tx": t64u(has.TX)})
					if sh != nil {
						sh.unknown = true // do not report the consequences of this record again
					}
				} else {
					r.Class("update:lost->dropped")
					delete(shadow[c], rx64)
					delete(owner[c], rx64)
				}
			case has == nil && !txt.After(h.rxOut):
				// a transmit stamp not later than the receive time is an anomaly; dropping the exchange is acceptable
				r.Class("update:stamp<=rx->dropped")
				delete(shadow[c], rx64)
				delete(owner[c], rx64)
			default:
				if has == nil {
					fail("state:exchange dropped although a transmit timestamp was read", "update-"+op.TX, map[string]any{"rx": t64u(rx64)})
				} else if txt.After(h.rxOut) {
					if has.TX != ntp.Time64FromTime(txt) {
						fail("state:recorded transmit time is not the kernel transmit timestamp", "update-"+op.TX, map[string]any{"rx": t64u(rx64), "kept_tx": t64u(has.TX), "want": t64u(ntp.Time64FromTime(txt))})
					}
					r.Class("update:replaced-by-kernel-stamp")
					if own {
						sh.tx, sh.anyGtRX, sh.updated = has.TX, false, true
					}
				} else {
					if !t64After(has.TX, has.RX) {
						fail("state:recorded transmit time not later than receive time after update", "update-"+op.TX, map[string]any{"rx": t64u(rx64), "kept_tx": t64u(has.TX)})
					}
					r.Class("update:stamp<=rx->bumped")
					if own {
						sh.tx, sh.anyGtRX, sh.updated = has.TX, true, true
					}
				}
			}
			continue
		}
		// ---- handle
		c := clients[rng.IntN(nClients)]
		op := c06Op{Kind: "handle", Client: c}
		rxIn := pick()
		var clock int64
		switch rng.IntN(4) {
		case 0:
			clock = rxIn - 1 - rng.Int64N(5)
		case 1:
			clock = rxIn
		default:
			clock = rxIn + 1 + rng.Int64N(2000)
		}
		req := ntp.Packet{}
		// requests of every version a listener lets through (v1 carries mode 0): the reply is version 4 whatever the request says
		switch v := []uint8{4, 4, 4, 3, 2, 1}[rng.IntN(6)]; v {
		case 1:
			req.SetVersion(1)
			req.SetMode(0)
		default:
			req.SetVersion(v)
			req.SetMode(ntp.ModeClient)
		}
		if rng.IntN(8) == 0 {
			req.SetLeapIndicator(ntp.LeapIndicatorUnknown)
		}
		cTX := ntp.Time64FromTime(time.Unix(0, base-1e6+int64(step)*1000+rng.Int64N(900)))
		shape := rng.IntN(10)
		mine := replies[c]
		switch {
		case shape < 3 || (len(mine) == 0 && shape < 8):
			op.Shape = "basic"
			req.TransmitTime = cTX
		case shape < 7 && len(mine) > 0: // interleaved, referring to one of this client's earlier replies
			p := mine[len(mine)-1]
			if rng.IntN(3) == 0 {
				p = mine[rng.IntN(len(mine))]
			}
			op.Shape = "interleaved-own"
			req.OriginTime = p.respRX
			req.ReceiveTime = ntp.Time64FromTime(time.Unix(0, base-2e6+rng.Int64N(1e6)))
			req.TransmitTime = p.cTX
		case shape == 7: // origin refers to another client's reply
			var other []past
			for oc, ps := range replies {
				if oc != c {
					other = append(other, ps...)
				}
			}
			if len(other) == 0 {
				op.Shape = "basic"
				req.TransmitTime = cTX
				break
			}
			p := other[rng.IntN(len(other))]
			op.Shape = "interleaved-foreign-origin"
			req.OriginTime = p.respRX
			req.ReceiveTime = ntp.Time64FromTime(time.Unix(0, base-2e6+rng.Int64N(1e6)))
			req.TransmitTime = p.cTX
		case shape == 8 && len(mine) > 0: // rx == tx although the origin is on record
			p := mine[len(mine)-1]
			op.Shape = "origin-on-record,rx==tx"
			req.OriginTime = p.respRX
			req.ReceiveTime = cTX
			req.TransmitTime = cTX
		default: // origin that was never handed out
			op.Shape = "interleaved-unknown-origin"
			req.OriginTime = ntp.Time64FromTime(time.Unix(0, base-5e6+rng.Int64N(1e6)))
			req.ReceiveTime = ntp.Time64FromTime(time.Unix(0, base-2e6+rng.Int64N(1e6)))
			req.TransmitTime = cTX
		}
		op.Origin, op.ReqRX, op.ReqTX = t64u(req.OriginTime), t64u(req.ReceiveTime), t64u(req.TransmitTime)
		op.RXIn, op.Clock = rxIn, clock
		clk.now.Store(clock)
		pre := c06SnapAll(clients)
		rxt := time.Unix(0, rxIn).UTC()
		var txt time.Time
		var resp ntp.Packet
		var pnc any
		func() {
			defer func() { pnc = recover() }()
			server.VerifHandleRequest(c, &req, &rxt, &txt, &resp)
		}()
		op.RespOrigin, op.RespRX, op.RespTX = t64u(resp.OriginTime), t64u(resp.ReceiveTime), t64u(resp.TransmitTime)
		op.RXOut, op.TXOut = rxt.UnixNano(), txt.UnixNano()
		ops = append(ops, op)
		hiNow := len(ops) - 1
		r.Eval(1)
		if pnc != nil {
			fail("panic", "handle-"+op.Shape, fmt.Sprint(pnc))
			return
		}
		post := c06SnapAll(clients)
		for _, oc := range clients {
			if oc != c && !recsEqual(pre[oc], post[oc]) {
				fail("state:records of another client changed", "handle", map[string]any{"other": oc})
			}
		}
		// header
		if resp.Version() != 4 || resp.Mode() != ntp.ModeServer || resp.Stratum != 1 {
			fail("wrong-reply:not a version-4 server-mode stratum-1 packet", "handle", nil)
		}
		// receive timestamp
		k := rxt.UnixNano() - rxIn
		collided := false
		for _, rec := range pre[c] {
			if rec.RX == ntp.Time64FromTime(time.Unix(0, rxIn)) {
				collided = true
			}
		}
		if resp.ReceiveTime != ntp.Time64FromTime(rxt) {
			fail("wrong-reply:receive timestamp is not the returned receive time", "handle", nil)
		}
		if k < 0 || k > 16 || (!collided && k != 0) || (collided && k == 0) {
			fail("wrong-reply:receive timestamp is not the packet's receive time (nudged only on collision)", "handle", map[string]any{"k_ns": k, "collided": collided})
		}
		for _, rec := range pre[c] {
			if rec.RX == resp.ReceiveTime {
				fail("wrong-reply:receive timestamp equals one already kept for the client", "handle", map[string]any{"rx": t64u(rec.RX)})
			}
		}
		if collided {
			r.Class("handle:rx-collision-nudged")
		}
		// basic or interleaved
		interleaved := req.ReceiveTime != req.TransmitTime && resp.OriginTime == req.ReceiveTime && resp.OriginTime != req.TransmitTime
		switch {
		case interleaved:
			var rec *server.VerifRecord
			for i := range pre[c] {
				if pre[c][i].RX == req.OriginTime {
					rec = &pre[c][i]
				}
			}
			if rec == nil {
				cls := op.Shape
				fail("wrong-reply:interleaved reply without an earlier reply to this client on record", cls, nil)
				break
			}
			sh := shadow[c][req.OriginTime]
			if sh == nil {
				fail("wrong-reply:interleaved reply from a record the monitor never saw created", op.Shape, nil)
				break
			}
			if sh.unknown {
				r.Class("handle:interleaved-from-unattributable-record")
				break
			}
			if sh.anyGtRX {
				if !t64After(resp.TransmitTime, req.OriginTime) {
					fail("wrong-reply:interleaved transmit timestamp not later than the receive timestamp it belongs to", op.Shape, nil)
				}
			} else if resp.TransmitTime != sh.tx {
				fail("wrong-reply:interleaved transmit timestamp is not the transmit time recorded for that reply", op.Shape,
					map[string]any{"got": t64u(resp.TransmitTime), "want": t64u(sh.tx), "updated": sh.updated})
			}
			if !t64After(resp.TransmitTime, req.OriginTime) { // also before the update of that exchange, whatever the clock read when it was handled
				fail("wrong-reply:interleaved transmit timestamp not later than the receive timestamp it belongs to", op.Shape, nil)
			}
			if sh.updated {
				r.Class("handle:interleaved-after-update")
			} else {
				r.Class("handle:interleaved-before-update")
			}
		case resp.OriginTime == req.TransmitTime:
			if clock > rxIn && !t64After(resp.TransmitTime, resp.ReceiveTime) {
				fail("wrong-reply:basic transmit timestamp not later than receive timestamp although the clock is past the receive time", op.Shape, nil)
			}
			if resp.TransmitTime != ntp.Time64FromTime(txt) {
				fail("wrong-reply:basic transmit timestamp is not the returned transmit time", op.Shape, nil)
			}
			lo := time.Unix(0, clock)
			hi := lo
			if x := rxt.Add(1); x.After(hi) {
				hi = x
			}
			if txt.Before(lo) || txt.After(hi) {
				fail("wrong-reply:basic transmit time is neither the clock reading nor just after the receive time", op.Shape, map[string]any{"tx": txt.UnixNano(), "clock": clock, "rx": rxt.UnixNano()})
			}
			r.Class("handle:basic," + op.Shape)
			if clock <= rxIn {
				r.Class("handle:basic,clock<=rx")
			}
		default:
			fail("wrong-reply:origin is neither the request's transmit nor its receive timestamp", op.Shape, nil)
		}
		// bookkeeping
		p := past{op: hiNow, rxOut: rxt, txOut: txt, respRX: resp.ReceiveTime, cTX: req.TransmitTime}
		if interleaved {
			p.cTX = cTX // the next interleaved request of this client carries its own transmit time
		}
		replies[c] = append(replies[c], p)
		handleIdx[hiNow] = p
		handleClient[hiNow] = c
		pending = append(pending, hiNow)
		shadow[c][resp.ReceiveTime] = &c06Shadow{tx: ntp.Time64FromTime(txt), clockGt: txt.After(rxt)}
		owner[c][resp.ReceiveTime] = hiNow
		if interleaved {
			delete(shadow[c], req.OriginTime)
			delete(owner[c], req.OriginTime)
		}
		if n := len(post[c]); n == server.VerifTSSItemCap {
			r.Class("handle:client-full(8)")
		}
	}
	if _, _, err := server.VerifCheckStore(); err != nil {
		fail("state:store invariant: "+firstWord(err.Error()), "end-of-history", err.Error())
	}
	if rng.IntN(500) == 0 {
		if len(ops) > 12 {
			ops = ops[:12]
		}
		r.Sample(map[string]any{"case": id, "first_ops": ops})
	}
	r.Distinct(id)
}

func init() {
	register("C06", "exploration", func(r *ev.Run) {
		n := r.Pick(3000, 200000)
		nOps := r.Pick(40, 60)
		for i := 0; i < n; i++ {
			id := fmt.Sprintf("h%d", i)
			if r.Only() != "" && r.Only() != id {
				continue
			}
			if r.Only() != "" && r.Only()[0] == 'l' {
				break
			}
			c06History(r, id, r.Rng("c06/"+id), nOps)
			if r.NumViolations() > 20 {
				break
			}
		}
		if r.Only() == "" || r.Only()[0] == 'l' {
			c06Listeners(r)
		}
		r.Assume("hook level: handleRequest/updateTXTimestamp called as the listeners call them (update passes back the handler's software transmit time when no kernel timestamp could be read); below the client capacity")
		r.Assume("a kernel transmit timestamp equal (as NTP timestamp) to the software time is not generated: the interface cannot tell it from 'not read'")
		r.Finish("sequential histories of 40..60 operations on 1..6 clients through the verif hook under a scripted clock: receive times from a pool of <= 12 values 1..3 ns apart (equal, decreasing, colliding), clock reading before/equal/after the receive time; "+
			"request shapes basic / interleaved referring to an own earlier reply / to another client's reply / to an unknown origin / origin on record with rx==tx; transmit-timestamp updates later / equal to rx / earlier / lost, in order, reordered after later requests, repeated. "+
			"Oracle = transition predicates from the statement on (store snapshot before, operation, reply, snapshot after) plus a shadow map of the true transmit time of every reply. distinct_nontrivial = histories run (seed-distinct); classes = reply/update behaviours observed", 10)
	})
}

// ---------------------------------------------------------------------------------------
// listener leg: the same reply predicates on datagrams of the real IP and SCION listeners.
// The monitor cannot see the store here; what it can see is every reply and, because it
// runs on the same machine clock, when each reply reached it.

func c06Listeners(r *ev.Run) {
	srv := blockIP(r, 6, 1)
	tgt, err := StartTarget("plain", "-ip", srv.String(), "-kinds", "ip,scion")
	if err != nil {
		r.Inconclusive("target: " + err.Error())
		return
	}
	defer tgt.Kill()
	rng := r.Rng("c06/listeners")
	type transport struct {
		name   string
		dst    netip.AddrPort
		wrap   func(p []byte, src netip.Addr, sport uint16) []byte
		unwrap func(b []byte) []byte
	}
	lia, _ := addr.ParseIA("1-ff00:0:110")
	trs := []transport{
		{"ip", netip.AddrPortFrom(srv, 123), func(p []byte, _ netip.Addr, _ uint16) []byte { return p }, func(b []byte) []byte { return b }},
		{"scion", netip.AddrPortFrom(srv, 10123), func(p []byte, src netip.Addr, sport uint16) []byte {
			b, _ := (&peer.SCIONPkt{SrcIA: lia, DstIA: lia, SrcHost: src, DstHost: srv, SrcPort: sport, DstPort: 10123, Payload: p}).Serialize()
			return b
		}, scionUnwrap},
	}
	for ti, tr := range trs {
		for ci := 0; ci < r.Pick(6, 60); ci++ {
			id := fmt.Sprintf("l.%s.%d", tr.name, ci)
			if r.Only() != "" && r.Only() != id {
				continue
			}
			cli := blockIP(r, 6, 10+ti*100+ci%90)
			uc, err := peer.NewUDPClient(cli)
			if err != nil {
				r.Inconclusive(err.Error())
				return
			}
			type rep struct {
				f      peer.NTPFields
				at     time.Time // when the reply reached the monitor
				sentAt time.Time
				inter  bool
				lost   bool // the listener was made to miss this reply's kernel transmit timestamp
			}
			var hist []rep
			seenRX := map[uint64]bool{}
			var trace []string
			for step := 0; step < r.Pick(40, 120); step++ {
				req := peer.NTPFields{LVM: 0x23, Transmit: peer.UniqueTime64()}
				wantInter := false
				var ref *rep
				if len(hist) > 0 && rng.IntN(3) != 0 {
					// interleaved request referring to an earlier reply (mostly the latest)
					ref = &hist[len(hist)-1]
					if rng.IntN(4) == 0 {
						ref = &hist[rng.IntN(len(hist))]
					}
					req.Origin = ref.f.Receive
					req.Receive = peer.ToNTP64(ref.at)
					wantInter = true
				}
				// failpoint (verif hook of net/udp): the kernel does not deliver the transmit timestamp of the
				// next reply within the listener's poll timeout; it stays queued and turns up at the next read
				lose := ci%3 == 2 && step > 2 && rng.IntN(6) == 0
				if lose {
					// the listener sends a reply before it reads that reply's timestamp: let a read that may
					// still be pending for the previous reply finish before the failpoint is armed, and
					// make sure it is still armed afterwards
					time.Sleep(5 * time.Millisecond)
					if !tgt.Command("LATETX 1", "LATETX", 3*time.Second) {
						lose = false
					} else if time.Sleep(3 * time.Millisecond); tgt.LateTXPending(3*time.Second) != 1 {
						_ = tgt.Command("LATETX 0", "LATETX", 3*time.Second)
						r.Class(tr.name + "-listener:failpoint fired for another read (history abandoned)")
						break
					}
				}
				if tr.name == "scion" && !lose && (step == 0 || rng.IntN(6) == 0) {
					// other replies of the same listener socket (here: to an SCMP echo request) are numbered by the
					// kernel like the NTP replies: their transmit timestamps must not be taken for an NTP reply's
					eb, eerr := (&peer.SCIONPkt{SrcIA: lia, DstIA: lia, SrcHost: cli, DstHost: srv, Payload: []byte("ping"),
						SCMP:     &slayers.SCMP{TypeCode: slayers.CreateSCMPTypeCode(slayers.SCMPTypeEchoRequest, 0)},
						SCMPEcho: &slayers.SCMPEcho{Identifier: uc.Local().Port(), SeqNumber: uint16(step)}}).Serialize()
					if eerr == nil && uc.Send(tr.dst, eb) == nil {
						_, eh := uc.ReadUntil(2*time.Second, func(d peer.Datagram) bool {
							ps, err := peer.ParseSCION(d.Data)
							return err == nil && ps.HasSCMP
						})
						if eh != nil {
							r.Class(tr.name + "-listener:SCMP echo answered between NTP exchanges")
							trace = append(trace, "(SCMP echo request answered)")
						}
					}
				}
				if tr.name == "scion" && wantInter && !lose && rng.IntN(3) == 0 {
					// the same host address in another ISD-AS is another client: a request of its that names
					// the receive timestamp of a reply given to this client must be answered in basic mode
					oia, _ := addr.ParseIA("2-ff00:0:220")
					fr := peer.NTPFields{LVM: 0x23, Transmit: peer.UniqueTime64(), Origin: req.Origin, Receive: req.Receive}
					fb, ferr := (&peer.SCIONPkt{SrcIA: oia, DstIA: lia, SrcHost: cli, DstHost: srv, SrcPort: uc.Local().Port(), DstPort: 10123,
						Path: peer.SCIONPath(rng, 2), Payload: fr.Bytes()}).Serialize()
					if ferr == nil && uc.Send(tr.dst, fb) == nil {
						_, fh := uc.ReadUntil(3*time.Second, func(d peer.Datagram) bool {
							f, ok := peer.ParseNTP(tr.unwrap(d.Data))
							return ok && (f.Origin == fr.Transmit || f.Origin == fr.Receive)
						})
						r.Eval(1)
						if fh == nil {
							r.Violation(tr.name+"-listener|missing-reply:valid request not answered", id, map[string]any{"trace": trace, "request": "from the same host address in another ISD-AS"})
							break
						}
						ff, _ := peer.ParseNTP(tr.unwrap(fh.Data))
						if ff.Origin != fr.Transmit {
							trace = append(trace, fmt.Sprintf("req from 2-ff00:0:220,%s (origin=%x) -> reply(origin=%x rx=%x tx=%x)", cli, fr.Origin, ff.Origin, ff.Receive, ff.Transmit))
							r.Violation(tr.name+"-listener|wrong-reply:timestamps recorded for one client served to another (same host address, other ISD-AS)", id, map[string]any{"trace": trace})
							break
						}
						r.Class(tr.name + "-listener:same host address in another ISD-AS is another client")
					}
				}
				sent := time.Now()
				if err := uc.Send(tr.dst, tr.wrap(req.Bytes(), cli, uc.Local().Port())); err != nil {
					break
				}
				_, hit := uc.ReadUntil(3*time.Second, func(d peer.Datagram) bool {
					f, ok := peer.ParseNTP(tr.unwrap(d.Data))
					return ok && (f.Origin == req.Transmit || (wantInter && f.Origin == req.Receive))
				})
				at := time.Now()
				r.Eval(1)
				if hit == nil {
					r.Violation(tr.name+"-listener|missing-reply:valid request not answered", id, map[string]any{"trace": trace})
					break
				}
				f, _ := peer.ParseNTP(tr.unwrap(hit.Data))
				interleaved := wantInter && f.Origin == req.Receive
				trace = append(trace, fmt.Sprintf("req(interleaved=%v origin=%x) -> reply(origin=%x rx=%x tx=%x)", wantInter, req.Origin, f.Origin, f.Receive, f.Transmit))
				w := map[string]any{"trace": trace}
				if len(trace) > 12 {
					w["trace"] = trace[len(trace)-12:]
				}
				if f.LVM&0x3f != 4<<3|4 || f.Stratum != 1 {
					r.Violation(tr.name+"-listener|wrong-reply:not a version-4 server-mode stratum-1 packet", id, w)
				}
				if seenRX[f.Receive] {
					r.Violation(tr.name+"-listener|wrong-reply:receive timestamp served twice to one client", id, w)
				}
				seenRX[f.Receive] = true
				// the server's receive timestamp lies between our send and our receive (same clock)
				if f.Receive < peer.ToNTP64(sent.Add(-time.Millisecond)) || f.Receive > peer.ToNTP64(at.Add(time.Millisecond)) {
					r.Violation(tr.name+"-listener|wrong-reply:receive timestamp is not the time the request was received", id, w)
				}
				if interleaved && ref.lost {
					r.Violation(tr.name+"-listener|wrong-reply:exchange whose kernel transmit timestamp could not be read was kept and served in interleaved mode", id, w)
				} else if wantInter && ref.lost {
					r.Class(tr.name + "-listener:exchange with a lost transmit timestamp dropped")
				}
				if interleaved && !ref.lost {
					// transmit = the kernel transmit time of the earlier reply: not before the software time that
					// reply carried, not after the moment that reply reached the monitor, later than its receive time
					// (the kernel stamps the datagram after the handler read the clock for the software time)
					if f.Transmit <= ref.f.Transmit && !ref.inter {
						r.Violation(tr.name+"-listener|wrong-reply:interleaved transmit timestamp is not a kernel transmit time later than the software time of the reply it belongs to", id, w)
					}
					if f.Transmit > peer.ToNTP64(ref.at.Add(50*time.Microsecond)) {
						r.Violation(tr.name+"-listener|wrong-reply:interleaved transmit timestamp later than the arrival of the reply it belongs to", id, w)
					}
					if f.Transmit <= ref.f.Receive {
						r.Violation(tr.name+"-listener|wrong-reply:interleaved transmit timestamp not later than the receive timestamp it belongs to", id, w)
					}
					r.Class(tr.name + "-listener:interleaved-reply")
				} else {
					if f.Origin != req.Transmit {
						r.Violation(tr.name+"-listener|wrong-reply:origin is neither the request's transmit nor its receive timestamp", id, w)
					}
					if f.Transmit <= f.Receive {
						r.Violation(tr.name+"-listener|wrong-reply:basic transmit timestamp not later than receive timestamp", id, w)
					}
					if f.Transmit > peer.ToNTP64(at.Add(time.Millisecond)) {
						r.Violation(tr.name+"-listener|wrong-reply:basic transmit timestamp in the future", id, w)
					}
					if wantInter {
						r.Class(tr.name + "-listener:basic-reply-to-interleaved-request(record replaced or evicted)")
					} else {
						r.Class(tr.name + "-listener:basic-reply")
					}
				}
				if lose {
					time.Sleep(3 * time.Millisecond)
					if tgt.LateTXPending(3*time.Second) != 0 {
						_ = tgt.Command("LATETX 0", "LATETX", 3*time.Second)
						r.Class(tr.name + "-listener:failpoint did not fire for this reply (history abandoned)")
						break
					}
				}
				hist = append(hist, rep{f: f, at: at, sentAt: sent, inter: interleaved, lost: lose})
				if lose {
					trace = append(trace, "(the kernel transmit timestamp of this reply was withheld from the listener)")
				}
				if len(hist) > 12 {
					hist = hist[1:]
				}
			}
			uc.Close()
			r.Distinct(id)
		}
	}
}
