package monitors

import (
	"bufio"
	"bytes"
	"context"
	"crypto/tls"
	"flag"
	"fmt"
	"io"
	"log/slog"
	"net"
	"os"
	"os/exec"
	"os/signal"
	"strconv"
	"strings"
	"sync"
	"syscall"
	"time"

	"github.com/scionproto/scion/pkg/addr"

	"example.com/scion-time/core/server"
	"example.com/scion-time/core/timebase"
	"example.com/scion-time/driver/clocks"
	"example.com/scion-time/net/csptp"
	"example.com/scion-time/net/ntske"
	"example.com/scion-time/net/udp"

	"verif/harness/internal/peer"
)

// ---------------------------------------------------------------------------------------
// child side: `mon leg target -ip A -kinds ip,scion,...` hosts the real listeners.

type fwdHandler struct {
	mu sync.Mutex
	w  io.Writer
}

func (h *fwdHandler) Enabled(context.Context, slog.Level) bool { return true }
func (h *fwdHandler) WithAttrs([]slog.Attr) slog.Handler       { return h }
func (h *fwdHandler) WithGroup(string) slog.Handler            { return h }
func (h *fwdHandler) Handle(_ context.Context, rec slog.Record) error {
	if rec.Message != "received request" {
		return nil
	}
	var sb strings.Builder
	sb.WriteString("LOG received request")
	rec.Attrs(func(a slog.Attr) bool {
		if a.Key == "from" {
			sb.WriteString(" from=" + a.Value.String())
		}
		if a.Key == "reqmsg" {
			if m, ok := a.Value.Any().(*csptp.Message); ok {
				sb.WriteString(fmt.Sprintf(" seq=%d", m.SequenceID))
			}
		}
		return true
	})
	sb.WriteByte('\n')
	h.mu.Lock()
	_, _ = io.WriteString(h.w, sb.String())
	h.mu.Unlock()
	return nil
}

func targetMain(args []string) {
	fs := flag.NewFlagSet("target", flag.ExitOnError)
	ip := fs.String("ip", "127.0.0.1", "listener address")
	ip2 := fs.String("ip2", "", "address of the dispatcher-only end host")
	kinds := fs.String("kinds", "ip", "comma separated: ip,scion,disp,ntske,ntskequic,csptp")
	ntpPort := fs.Int("ntpport", 123, "NTP port (IP)")
	zone := fs.String("zone", "", "interface zone of the IP and SCION listeners (hardware timestamping; on lo no timestamp control message ever arrives)")
	scionPort := fs.Int("scionport", 10123, "NTP port (SCION)")
	ia := fs.String("ia", "1-ff00:0:110", "local ISD-AS (NTS-KE over SCION)")
	daemon := fs.String("daemon", "", "SCION daemon address handed to the SCION server (DRKey)")
	_ = fs.Parse(args)
	ctx := context.Background()
	log := slog.New(&fwdHandler{w: os.Stdout})
	timebase.RegisterClock(clocks.NewSystemClock(slog.New(slog.DiscardHandler), 100*time.Microsecond))
	provider := ntske.NewProvider()
	lip := net.ParseIP(*ip)
	cert, err := peer.SelfSignedCert(lip)
	if err != nil {
		fmt.Fprintln(os.Stderr, "cert:", err)
		os.Exit(4)
	}
	tlsCfg := &tls.Config{Certificates: []tls.Certificate{cert}, NextProtos: []string{"ntske/1"}, MinVersion: tls.VersionTLS13}
	for _, k := range strings.Split(*kinds, ",") {
		switch k {
		case "ip":
			server.StartIPServer(ctx, log, &net.UDPAddr{IP: lip, Port: *ntpPort, Zone: *zone}, 0, provider)
		case "scion":
			server.StartSCIONServer(ctx, log, *daemon, &net.UDPAddr{IP: lip, Port: *scionPort, Zone: *zone}, 0, provider)
		case "disp":
			server.StartSCIONDispatcher(ctx, log, &net.UDPAddr{IP: net.ParseIP(*ip2), Port: 0})
		case "ntske":
			server.StartNTSKEServerIP(ctx, log, lip, *ntpPort, tlsCfg, provider)
		case "ntskequic":
			lia, err := addr.ParseIA(*ia)
			if err != nil {
				os.Exit(4)
			}
			server.StartNTSKEServerSCION(ctx, log, udp.UDPAddr{IA: lia, Host: &net.UDPAddr{IP: lip, Port: *scionPort}}, tlsCfg, provider)
		case "csptp":
			server.StartCSPTPServerIP(ctx, log, &net.UDPAddr{IP: lip, Port: 0}, 0)
		}
	}
	// commands on stdin (verif hook of the key provider): "AGE <ns>" ages every key, "KEYS" lists them
	go func() {
		printKeys := func() {
			var sb strings.Builder
			now := time.Now()
			for _, k := range provider.VerifKeys() {
				fmt.Fprintf(&sb, " %d:%d", k.ID, int64(now.Sub(k.Validity.NotBefore)))
			}
			fmt.Printf("LOG KEYS%s\n", sb.String())
		}
		sc := bufio.NewScanner(os.Stdin)
		for sc.Scan() {
			f := strings.Fields(sc.Text())
			if len(f) == 2 && f[0] == "AGE" {
				ns, _ := strconv.ParseInt(f[1], 10, 64)
				provider.VerifAge(time.Duration(ns))
				printKeys()
			} else if len(f) == 1 && f[0] == "KEYS" {
				printKeys()
			} else if len(f) == 2 && f[0] == "LATETX" {
				// failpoint of net/udp (verif hook): the next n transmit timestamps are not delivered in time
				n, _ := strconv.Atoi(f[1])
				udp.VerifLateTXTimestamps(n)
				fmt.Printf("LOG LATETX %d\n", n)
			} else if len(f) == 1 && f[0] == "LATETX?" {
				fmt.Printf("LOG PENDING %d\n", udp.VerifLateTXTimestampsPending())
			}
		}
	}()
	fmt.Println("READY")
	// SIGUSR1: walk the timestamp store under its own lock and report (verif hook)
	sig := make(chan os.Signal, 1)
	signal.Notify(sig, syscall.SIGUSR1)
	for range sig {
		clients, values, err := server.VerifCheckStore()
		fmt.Printf("LOG STORE clients=%d values=%d err=%v\n", clients, values, err)
	}
}

func init() { Legs["target"] = targetMain }

// ---------------------------------------------------------------------------------------
// parent side

type Target struct {
	cmd    *exec.Cmd
	stdin  io.WriteCloser
	stderr *bytes.Buffer
	mu     sync.Mutex
	logs   []string
	logCh  chan string
	done   chan struct{}
	exit   error
}

// StartTarget launches the listeners in a child process of the given build variant and
// waits for them to be bound.
func StartTarget(variant string, args ...string) (*Target, error) {
	return StartTargetEnv(variant, nil, args...)
}

// StartTargetEnv is StartTarget with additional environment entries (later entries win, so
// "USE_MOCK_KEYS=false" runs the listeners with real DRKey fetching).
func StartTargetEnv(variant string, env []string, args ...string) (*Target, error) {
	bin := os.Getenv("VERIF_MON_PLAIN")
	if variant == "race" {
		bin = os.Getenv("VERIF_MON_RACE")
	}
	if bin == "" {
		bin = os.Args[0]
	}
	t := &Target{stderr: &bytes.Buffer{}, logCh: make(chan string, 4096), done: make(chan struct{})}
	t.cmd = exec.Command(bin, append([]string{"leg", "target"}, args...)...)
	t.cmd.Env = append(append(os.Environ(), "USE_MOCK_KEYS=true", "GOTRACEBACK=all"), env...)
	t.cmd.Stderr = t.stderr
	t.cmd.SysProcAttr = &syscall.SysProcAttr{Pdeathsig: syscall.SIGKILL} // never outlive the monitor: the ports must be free for the next run
	out, err := t.cmd.StdoutPipe()
	if err != nil {
		return nil, err
	}
	if t.stdin, err = t.cmd.StdinPipe(); err != nil {
		return nil, err
	}
	if err := t.cmd.Start(); err != nil {
		return nil, err
	}
	ready := make(chan bool, 1)
	go func() {
		sc := bufio.NewScanner(out)
		sc.Buffer(make([]byte, 1<<16), 1<<20)
		for sc.Scan() {
			ln := sc.Text()
			if ln == "READY" {
				ready <- true
				continue
			}
			if strings.HasPrefix(ln, "LOG ") {
				select {
				case t.logCh <- ln:
				default:
				}
			}
		}
		t.exit = t.cmd.Wait()
		close(t.done)
	}()
	select {
	case <-ready:
		return t, nil
	case <-t.done:
		return nil, fmt.Errorf("target exited during start-up: %v: %s", t.exit, tailStr(t.stderr.String(), 2000))
	case <-time.After(60 * time.Second):
		t.Kill()
		return nil, fmt.Errorf("target not ready after 60 s: %s", tailStr(t.stderr.String(), 2000))
	}
}

func tailStr(s string, n int) string {
	if len(s) > n {
		return s[len(s)-n:]
	}
	return s
}

func (t *Target) Alive() bool {
	select {
	case <-t.done:
		return false
	default:
		return true
	}
}

func (t *Target) Pid() int { return t.cmd.Process.Pid }

// RSSBytes reads the resident set size of the child from /proc.
func (t *Target) RSSBytes() int64 {
	b, err := os.ReadFile("/proc/" + strconv.Itoa(t.Pid()) + "/statm")
	if err != nil {
		return 0
	}
	f := strings.Fields(string(b))
	if len(f) < 2 {
		return 0
	}
	p, _ := strconv.ParseInt(f[1], 10, 64)
	return p * int64(os.Getpagesize())
}

// WaitLog waits for a forwarded log line containing substr.
func (t *Target) WaitLog(substr string, d time.Duration) bool {
	deadline := time.After(d)
	for {
		select {
		case ln := <-t.logCh:
			if strings.Contains(ln, substr) {
				return true
			}
		case <-deadline:
			return false
		case <-t.done:
			return false
		}
	}
}

func (t *Target) DrainLogs() {
	for {
		select {
		case <-t.logCh:
		default:
			return
		}
	}
}

// Dump asks the child for a goroutine dump (SIGQUIT) and returns its stderr.
func (t *Target) Dump() string {
	_ = t.cmd.Process.Signal(syscall.SIGQUIT)
	select {
	case <-t.done:
	case <-time.After(10 * time.Second):
		t.Kill()
	}
	return t.Stderr()
}

func (t *Target) Stderr() string { return tailStr(t.stderr.String(), 12000) }

// DumpFull is Dump without truncation (for counting goroutines).
func (t *Target) DumpFull() string {
	t.Dump()
	return t.stderr.String()
}

func (t *Target) Kill() {
	if t.cmd.Process != nil {
		_ = t.cmd.Process.Kill()
	}
	select {
	case <-t.done:
	case <-time.After(5 * time.Second):
	}
}

// ExitInfo describes how a dead child ended: first panic/fatal line and the first frame in the repository.
func (t *Target) ExitInfo() (first, frame string) {
	for _, ln := range strings.Split(t.stderr.String(), "\n") {
		if first == "" && (strings.HasPrefix(ln, "panic:") || strings.HasPrefix(ln, "fatal error:")) {
			first = strings.TrimSpace(ln)
		}
		if first != "" && frame == "" && strings.HasPrefix(ln, "example.com/scion-time/") {
			frame = strings.TrimSpace(ln)
			if i := strings.LastIndex(frame, "("); i > 0 {
				frame = frame[:i]
			}
		}
	}
	return
}

// StoreReport asks the child to walk its timestamp store and returns the reported line.
func (t *Target) StoreReport(d time.Duration) string {
	t.DrainLogs()
	_ = t.cmd.Process.Signal(syscall.SIGUSR1)
	deadline := time.After(d)
	for {
		select {
		case ln := <-t.logCh:
			if strings.Contains(ln, "STORE ") {
				return ln
			}
		case <-deadline:
			return ""
		case <-t.done:
			return ""
		}
	}
}

// Keys sends a command to the child's key provider hook ("AGE <ns>" or "KEYS") and returns
// the age in ns of every key the provider then holds, by identifier.
func (t *Target) Keys(cmd string, d time.Duration) (map[int]int64, bool) {
	t.DrainLogs()
	if _, err := io.WriteString(t.stdin, cmd+"\n"); err != nil {
		return nil, false
	}
	deadline := time.After(d)
	for {
		select {
		case ln := <-t.logCh:
			if strings.HasPrefix(ln, "LOG KEYS") {
				m := map[int]int64{}
				for _, f := range strings.Fields(ln)[2:] {
					var id int
					var age int64
					if _, err := fmt.Sscanf(f, "%d:%d", &id, &age); err == nil {
						m[id] = age
					}
				}
				return m, true
			}
		case <-deadline:
			return nil, false
		case <-t.done:
			return nil, false
		}
	}
}

// Command sends a line to the child's command reader and waits for the LOG line that starts with reply.
func (t *Target) Command(line, reply string, d time.Duration) bool {
	t.DrainLogs()
	if _, err := io.WriteString(t.stdin, line+"\n"); err != nil {
		return false
	}
	deadline := time.After(d)
	for {
		select {
		case ln := <-t.logCh:
			if strings.HasPrefix(ln, "LOG "+reply) {
				return true
			}
		case <-deadline:
			return false
		case <-t.done:
			return false
		}
	}
}

// LateTXPending asks the child how many armed late-timestamp failpoints have not fired yet (-1: no answer).
func (t *Target) LateTXPending(d time.Duration) int {
	t.DrainLogs()
	if _, err := io.WriteString(t.stdin, "LATETX?\n"); err != nil {
		return -1
	}
	deadline := time.After(d)
	for {
		select {
		case ln := <-t.logCh:
			if strings.HasPrefix(ln, "LOG PENDING ") {
				n, err := strconv.Atoi(strings.TrimSpace(strings.TrimPrefix(ln, "LOG PENDING ")))
				if err != nil {
					return -1
				}
				return n
			}
		case <-deadline:
			return -1
		case <-t.done:
			return -1
		}
	}
}
